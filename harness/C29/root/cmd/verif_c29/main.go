//go:build verif

// C29 correspondence harness: drives pkg/lfs IsLfsEnvelope / EncodeEnvelope / DecodeEnvelope
// with the op lines on stdin, one canonical result line per op.
package main

import (
	"bufio"
	"bytes"
	"encoding/hex"
	"fmt"
	"os"
	"sort"
	"strconv"
	"strings"
	"sync"

	"github.com/KafScale/platform/pkg/lfs"
)

// hand-out stability (like C09): every slice EncodeEnvelope ever returned, with a private copy of
// the bytes it held when it was returned.  Re-checked after every later encode.
type handout struct {
	live []byte
	seen []byte
}

var (
	handed []handout
	envs   []lfs.Envelope // every envelope that encoded successfully (for the concurrent run)
)

func allStable() bool {
	for _, h := range handed {
		if !bytes.Equal(h.live, h.seen) {
			return false
		}
	}
	return true
}

// parRun re-encodes every envelope seen so far from `workers` goroutines; each goroutine keeps
// the slices it was handed and compares them with the serial result only after all are done.
func parRun(workers int) string {
	if len(envs) == 0 {
		return "par ok=true"
	}
	want := make([][]byte, len(envs))
	for i, e := range envs {
		b, err := lfs.EncodeEnvelope(e)
		if err != nil {
			return "par ok=false"
		}
		want[i] = append([]byte(nil), b...)
	}
	bad := make([]bool, workers)
	var wg sync.WaitGroup
	for w := 0; w < workers; w++ {
		wg.Add(1)
		go func(w int) {
			defer wg.Done()
			defer func() {
				if r := recover(); r != nil {
					bad[w] = true
				}
			}()
			got := make([][]byte, len(envs))
			for round := 0; round < 3; round++ {
				for i := range envs {
					j := (i + w*7) % len(envs)
					b, err := lfs.EncodeEnvelope(envs[j])
					if err != nil {
						bad[w] = true
						return
					}
					got[j] = b
				}
				for j := range envs {
					if !bytes.Equal(got[j], want[j]) {
						bad[w] = true
					}
				}
			}
		}(w)
	}
	wg.Wait()
	for _, b := range bad {
		if b {
			return "par ok=false"
		}
	}
	return fmt.Sprintf("par ok=%v", allStable())
}

func unhex(s string) (string, bool) {
	if s == "-" {
		return "", true
	}
	b, err := hex.DecodeString(s)
	return string(b), err == nil
}

func hx(s string) string {
	if s == "" {
		return "-"
	}
	return hex.EncodeToString([]byte(s))
}

func canon(env lfs.Envelope) string {
	keys := make([]string, 0, len(env.OriginalHeaders))
	for k := range env.OriginalHeaders {
		keys = append(keys, k)
	}
	sort.Strings(keys)
	oh := []string{}
	for _, k := range keys {
		oh = append(oh, hx(k)+":"+hx(env.OriginalHeaders[k]))
	}
	ohs := "-"
	if len(oh) > 0 {
		ohs = strings.Join(oh, ",")
	}
	return fmt.Sprintf("v=%d size=%d b=%s k=%s sha=%s ck=%s alg=%s ct=%s created=%s proxy=%s oh=%s",
		env.Version, env.Size, hx(env.Bucket), hx(env.Key), hx(env.SHA256), hx(env.Checksum), hx(env.ChecksumAlg),
		hx(env.ContentType), hx(env.CreatedAt), hx(env.ProxyID), ohs)
}

func doLine(f []string) (out string) {
	defer func() {
		if r := recover(); r != nil {
			out = f[0] + " panic"
		}
	}()
	switch {
	case f[0] == "is" && len(f) == 2:
		v, ok := unhex(f[1])
		if !ok {
			return "bad-op"
		}
		return fmt.Sprintf("is go=%v", lfs.IsLfsEnvelope([]byte(v)))
	case f[0] == "dec" && len(f) == 2:
		v, ok := unhex(f[1])
		if !ok {
			return "bad-op"
		}
		env, err := lfs.DecodeEnvelope([]byte(v))
		if err != nil {
			return "dec err"
		}
		return "dec " + canon(env)
	case f[0] == "enc" && len(f) >= 11 && (len(f)-11)%2 == 0:
		ver, e1 := strconv.Atoi(f[1])
		size, e2 := strconv.ParseInt(f[2], 10, 64)
		if e1 != nil || e2 != nil {
			return "bad-op"
		}
		s := make([]string, 0, len(f))
		for _, x := range f[3:] {
			v, ok := unhex(x)
			if !ok {
				return "bad-op"
			}
			s = append(s, v)
		}
		env := lfs.Envelope{Version: ver, Size: size, Bucket: s[0], Key: s[1], SHA256: s[2], Checksum: s[3],
			ChecksumAlg: s[4], ContentType: s[5], CreatedAt: s[6], ProxyID: s[7]}
		if len(s) > 8 {
			env.OriginalHeaders = map[string]string{}
			for i := 8; i+1 < len(s); i += 2 {
				env.OriginalHeaders[s[i]] = s[i+1]
			}
		}
		b, err := lfs.EncodeEnvelope(env)
		if err != nil {
			return "enc err"
		}
		out := "enc " + hex.EncodeToString(b) // hex of what was returned NOW
		if len(handed) >= 512 {               // bound the re-check cost: keep the oldest 256 and the newest 256
			handed = append(handed[:256], handed[len(handed)-255:]...)
		}
		handed = append(handed, handout{live: b, seen: append([]byte(nil), b...)})
		if len(envs) < 400 {
			envs = append(envs, env)
		}
		return fmt.Sprintf("%s stable=%v", out, allStable())
	case f[0] == "par" && len(f) == 2:
		n, err := strconv.Atoi(f[1])
		if err != nil || n < 1 || n > 64 {
			return "bad-op"
		}
		return parRun(n)
	}
	return "bad-op"
}

func main() {
	w := bufio.NewWriter(os.Stdout)
	defer w.Flush()
	sc := bufio.NewScanner(os.Stdin)
	sc.Buffer(make([]byte, 1<<20), 1<<26)
	for sc.Scan() {
		f := strings.Fields(sc.Text())
		if len(f) == 0 || strings.HasPrefix(f[0], "#") {
			continue
		}
		fmt.Fprintln(w, doLine(f))
	}
}
