//go:build verif

// C29 correspondence harness: drives pkg/lfs IsLfsEnvelope / EncodeEnvelope / DecodeEnvelope
// with the op lines on stdin, one canonical result line per op.
package main

import (
	"bufio"
	"encoding/hex"
	"fmt"
	"os"
	"sort"
	"strconv"
	"strings"

	"github.com/KafScale/platform/pkg/lfs"
)

func unhex(s string) (string, bool) {
	if s == "-" {
		return "", true
	}
	b, err := hex.DecodeString(s)
	return string(b), err == nil
}

func hx(s string) string {
	if s == "" {
		return "-"
	}
	return hex.EncodeToString([]byte(s))
}

func canon(env lfs.Envelope) string {
	keys := make([]string, 0, len(env.OriginalHeaders))
	for k := range env.OriginalHeaders {
		keys = append(keys, k)
	}
	sort.Strings(keys)
	oh := []string{}
	for _, k := range keys {
		oh = append(oh, hx(k)+":"+hx(env.OriginalHeaders[k]))
	}
	ohs := "-"
	if len(oh) > 0 {
		ohs = strings.Join(oh, ",")
	}
	return fmt.Sprintf("v=%d size=%d b=%s k=%s sha=%s ck=%s alg=%s ct=%s created=%s proxy=%s oh=%s",
		env.Version, env.Size, hx(env.Bucket), hx(env.Key), hx(env.SHA256), hx(env.Checksum), hx(env.ChecksumAlg),
		hx(env.ContentType), hx(env.CreatedAt), hx(env.ProxyID), ohs)
}

func doLine(f []string) (out string) {
	defer func() {
		if r := recover(); r != nil {
			out = f[0] + " panic"
		}
	}()
	switch {
	case f[0] == "is" && len(f) == 2:
		v, ok := unhex(f[1])
		if !ok {
			return "bad-op"
		}
		return fmt.Sprintf("is go=%v", lfs.IsLfsEnvelope([]byte(v)))
	case f[0] == "dec" && len(f) == 2:
		v, ok := unhex(f[1])
		if !ok {
			return "bad-op"
		}
		env, err := lfs.DecodeEnvelope([]byte(v))
		if err != nil {
			return "dec err"
		}
		return "dec " + canon(env)
	case f[0] == "enc" && len(f) >= 11 && (len(f)-11)%2 == 0:
		ver, e1 := strconv.Atoi(f[1])
		size, e2 := strconv.ParseInt(f[2], 10, 64)
		if e1 != nil || e2 != nil {
			return "bad-op"
		}
		s := make([]string, 0, len(f))
		for _, x := range f[3:] {
			v, ok := unhex(x)
			if !ok {
				return "bad-op"
			}
			s = append(s, v)
		}
		env := lfs.Envelope{Version: ver, Size: size, Bucket: s[0], Key: s[1], SHA256: s[2], Checksum: s[3],
			ChecksumAlg: s[4], ContentType: s[5], CreatedAt: s[6], ProxyID: s[7]}
		if len(s) > 8 {
			env.OriginalHeaders = map[string]string{}
			for i := 8; i+1 < len(s); i += 2 {
				env.OriginalHeaders[s[i]] = s[i+1]
			}
		}
		b, err := lfs.EncodeEnvelope(env)
		if err != nil {
			return "enc err"
		}
		return "enc " + hex.EncodeToString(b)
	}
	return "bad-op"
}

func main() {
	w := bufio.NewWriter(os.Stdout)
	defer w.Flush()
	sc := bufio.NewScanner(os.Stdin)
	sc.Buffer(make([]byte, 1<<20), 1<<26)
	for sc.Scan() {
		f := strings.Fields(sc.Text())
		if len(f) == 0 || strings.HasPrefix(f[0], "#") {
			continue
		}
		fmt.Fprintln(w, doLine(f))
	}
}
