// C29 SDK runner (Node >= 20): strips the TypeScript syntax of lfs-client-sdk/js/src/envelope.ts
// with a tiny translator that FAILS CLOSED (anything it does not know stays in the text and the
// dynamic import below then throws a SyntaxError), imports the result and answers
// `is <hex>` / `dec <hex>` lines.
import fs from 'node:fs';
import os from 'node:os';
import path from 'node:path';
import readline from 'node:readline';
import { pathToFileURL } from 'node:url';

function stripTypes(src) {
  const out = [];
  let inIface = false;
  for (const line of src.split('\n')) {
    if (inIface) {
      if (/^\}\s*$/.test(line)) inIface = false;
      continue;
    }
    if (/^export\s+interface\s+\w+\s*\{\s*$/.test(line)) {
      inIface = true;
      continue;
    }
    let l = line;
    // function signature: strip parameter and return type annotations
    const m = /^(export\s+function\s+\w+)\(([^()]*)\)\s*:\s*[\w<>\[\] |,]+\s*\{\s*$/.exec(l);
    if (m) {
      const params = m[2].split(',').map((p) => p.trim()).filter((p) => p.length > 0).map((p) => {
        const pm = /^(\w+)\??\s*:\s*[\w<>\[\] |]+$/.exec(p);
        if (!pm) throw new Error('translator: unknown parameter syntax: ' + p);
        return pm[1];
      });
      l = `${m[1]}(${params.join(', ')}) {`;
    }
    // type assertions
    l = l.replace(/\s+as\s+[A-Z]\w*(?=\s*[;),])/g, '');
    out.push(l);
  }
  if (inIface) throw new Error('translator: unterminated interface');
  return out.join('\n');
}

const srcPath = process.argv[2];
const js = stripTypes(fs.readFileSync(srcPath, 'utf8'));
const dir = fs.mkdtempSync(path.join(os.tmpdir(), 'kafverif-c29-js-'));
const modPath = path.join(dir, 'envelope.mjs');
fs.writeFileSync(modPath, js);
let mod;
try {
  mod = await import(pathToFileURL(modPath).href);
} catch (e) {
  console.error('translator: stripped module does not load: ' + e);
  fs.rmSync(dir, { recursive: true, force: true });
  process.exit(3);
}
fs.rmSync(dir, { recursive: true, force: true });
if (typeof mod.isLfsEnvelope !== 'function' || typeof mod.decodeEnvelope !== 'function') {
  console.error('translator: isLfsEnvelope/decodeEnvelope not exported');
  process.exit(3);
}

function sortKeys(v) {
  if (v === null || typeof v !== 'object' || Array.isArray(v)) return v;
  const o = {};
  for (const k of Object.keys(v).sort()) o[k] = sortKeys(v[k]);
  return o;
}
// JSON with every non-ASCII code unit escaped (same as Python's ensure_ascii)
function asciiJSON(v) {
  return JSON.stringify(sortKeys(v)).replace(/[\u007f-￿]/g, (c) => '\\u' + c.charCodeAt(0).toString(16).padStart(4, '0'));
}

const rl = readline.createInterface({ input: process.stdin, crlfDelay: Infinity });
const lines = [];
for await (const line of rl) {
  const f = line.trim().split(/\s+/);
  if (f.length < 2 || f[0].startsWith('#')) continue;
  const v = f[1] === '-' ? new Uint8Array(0) : new Uint8Array(Buffer.from(f[1], 'hex'));
  if (f[0] === 'is') {
    try {
      const r = mod.isLfsEnvelope(v);
      lines.push('is js=' + (r === true ? 'true' : r === false ? 'false' : 'nonbool'));
    } catch (e) {
      lines.push('is js=exc');
    }
  } else if (f[0] === 'dec') {
    try {
      lines.push('dec ' + asciiJSON(mod.decodeEnvelope(v)));
    } catch (e) {
      lines.push('dec err');
    }
  } else {
    lines.push('bad-op');
  }
}
process.stdout.write(lines.join('\n') + (lines.length ? '\n' : ''));
