"""C29 SDK runner (Python): loads lfs_sdk/envelope.py BY PATH (the package __init__ needs boto3)
and answers `is <hex>` / `dec <hex>` lines, one result line each."""
import importlib.util
import json
import sys


def main():
    path = sys.argv[1]
    spec = importlib.util.spec_from_file_location("verif_lfs_envelope", path)
    mod = importlib.util.module_from_spec(spec)
    sys.modules["verif_lfs_envelope"] = mod
    spec.loader.exec_module(mod)
    out = sys.stdout
    for line in sys.stdin:
        f = line.split()
        if not f or f[0].startswith("#"):
            continue
        v = b"" if f[1] == "-" else bytes.fromhex(f[1])
        if f[0] == "is":
            try:
                r = mod.is_lfs_envelope(v)
                out.write("is py=%s\n" % ("true" if r is True else "false" if r is False else "nonbool"))
            except Exception as e:  # noqa: BLE001
                out.write("is py=exc:%s\n" % type(e).__name__)
        elif f[0] == "dec":
            try:
                env = mod.decode_envelope(v)
                d = {k: getattr(env, k) for k in ("kfs_lfs", "bucket", "key", "size", "sha256", "checksum",
                                                   "checksum_alg", "content_type", "original_headers",
                                                   "created_at", "proxy_id")}
                out.write("dec " + json.dumps(d, sort_keys=True, ensure_ascii=True) + "\n")
            except Exception as e:  # noqa: BLE001
                out.write("dec err %s\n" % type(e).__name__)
        else:
            out.write("bad-op\n")
    out.flush()


main()
