//go:build verif

// C17 correspondence harness: the same operation history against a real InMemoryStore and a real
// EtcdStore (embedded etcd, real NewEtcdStore with its watcher); one canonical line per op:
// "M=<in-memory result> E=<etcd result>".  Same line protocol as lean/Driver/C17.lean.
package main

import (
	"bufio"
	"context"
	"errors"
	"fmt"
	"net"
	"net/url"
	"os"
	"sort"
	"strconv"
	"strings"
	"time"

	clientv3 "go.etcd.io/etcd/client/v3"
	"go.etcd.io/etcd/server/v3/embed"
	"google.golang.org/protobuf/proto"

	metadatapb "github.com/KafScale/platform/pkg/gen/metadata"
	"github.com/KafScale/platform/pkg/metadata"
	"github.com/KafScale/platform/pkg/protocol"
)

var cleanup = func() {}

func freePort() int {
	ln, err := net.Listen("tcp", "127.0.0.1:0")
	if err != nil {
		panic(err)
	}
	defer ln.Close()
	return ln.Addr().(*net.TCPAddr).Port
}

func startEtcd() []string {
	dir, err := os.MkdirTemp("", "verif-c17-etcd-")
	if err != nil {
		panic(err)
	}
	cfg := embed.NewConfig()
	cfg.Dir = dir
	cfg.Logger = "zap"
	cfg.LogLevel = "error"
	cfg.UnsafeNoFsync = true // scratch data dir, removed on exit
	cfg.LogOutputs = []string{dir + "/etcd.log"}
	cu, _ := url.Parse(fmt.Sprintf("http://127.0.0.1:%d", freePort()))
	pu, _ := url.Parse(fmt.Sprintf("http://127.0.0.1:%d", freePort()))
	cfg.ListenClientUrls = []url.URL{*cu}
	cfg.AdvertiseClientUrls = cfg.ListenClientUrls
	cfg.ListenPeerUrls = []url.URL{*pu}
	cfg.AdvertisePeerUrls = cfg.ListenPeerUrls
	cfg.InitialCluster = cfg.InitialClusterFromName(cfg.Name)
	e, err := embed.StartEtcd(cfg)
	if err != nil {
		panic(err)
	}
	select {
	case <-e.Server.ReadyNotify():
	case <-time.After(15 * time.Second):
		panic("embedded etcd did not start")
	}
	cleanup = func() { e.Close(); os.RemoveAll(dir) }
	return []string{"http://" + e.Clients[0].Addr().String()}
}

type world struct {
	endpoints []string
	admin     *clientv3.Client
	mem       *metadata.InMemoryStore
	etcd      *metadata.EtcdStore
}

func initial(brokers int) metadata.ClusterMetadata {
	var bs []protocol.MetadataBroker
	for i := 0; i < brokers; i++ {
		bs = append(bs, protocol.MetadataBroker{NodeID: int32(i + 1), Host: "b" + strconv.Itoa(i), Port: 9092})
	}
	return metadata.ClusterMetadata{Brokers: bs, ControllerID: 1}
}

func (w *world) reset(brokers int) {
	ctx := context.Background()
	if w.etcd != nil {
		_ = w.etcd.Close()
	}
	if _, err := w.admin.Delete(ctx, "", clientv3.WithPrefix()); err != nil {
		panic(err)
	}
	if _, err := w.admin.Delete(ctx, "\x00", clientv3.WithFromKey()); err != nil {
		panic(err)
	}
	w.mem = metadata.NewInMemoryStore(initial(brokers))
	st, err := metadata.NewEtcdStore(ctx, initial(brokers), metadata.EtcdStoreConfig{Endpoints: w.endpoints})
	if err != nil {
		panic(err)
	}
	w.etcd = st
}

func topicName(id int) string {
	switch {
	case id == 0:
		return ""
	case id >= 100:
		return "bad/" + strconv.Itoa(id)
	}
	return "t" + strconv.Itoa(id)
}

func topicID(name string) string {
	if name == "" {
		return "0"
	}
	if strings.HasPrefix(name, "bad/") {
		return strings.TrimPrefix(name, "bad/")
	}
	if strings.HasPrefix(name, "t") {
		return strings.TrimPrefix(name, "t")
	}
	return "?" + name
}

func groupName(id int) string {
	if id == 0 {
		return ""
	}
	return "g" + strconv.Itoa(id)
}

func errName(err error) string {
	switch {
	case err == nil:
		return "ok"
	case errors.Is(err, metadata.ErrTopicExists):
		return "exists"
	case errors.Is(err, metadata.ErrInvalidTopic):
		return "invalid"
	case errors.Is(err, metadata.ErrUnknownTopic):
		return "unknown"
	}
	return "err"
}

// group payload id -> a ConsumerGroup with every field populated
func mkGroup(g, p int) *metadatapb.ConsumerGroup {
	grp := &metadatapb.ConsumerGroup{
		GroupId:            groupName(g),
		State:              "S" + strconv.Itoa(p),
		ProtocolType:       "consumer",
		Protocol:           "range",
		Leader:             "L" + strconv.Itoa(p),
		GenerationId:       int32(p),
		RebalanceTimeoutMs: int32(p*1000 + 1),
		Members:            map[string]*metadatapb.GroupMember{},
	}
	n := 1 + p%3
	if p%5 == 0 {
		n = 0
	}
	for i := 0; i < n; i++ {
		m := &metadatapb.GroupMember{
			ClientId:         fmt.Sprintf("c%d-%d", p, i),
			ClientHost:       "/10.0.0." + strconv.Itoa(i),
			HeartbeatAt:      "2026-01-01T00:00:0" + strconv.Itoa(i) + "Z",
			SessionTimeoutMs: int32(p*10 + 5 + i),
			Subscriptions:    []string{"t1", "t" + strconv.Itoa(2+i)},
		}
		if (p+i)%2 == 0 {
			m.Assignments = []*metadatapb.Assignment{{Topic: "t1", Partitions: []int32{0, int32(1 + i)}}, {Topic: "t2", Partitions: nil}}
		}
		grp.Members[fmt.Sprintf("mem-%d", i)] = m
	}
	return grp
}

// canonical readback: the payload id if the group equals what was stored for that id, else a diff marker
func canonGroup(g int, got *metadatapb.ConsumerGroup) string {
	if got == nil {
		return "none"
	}
	p := int(got.GenerationId)
	want := mkGroup(g, p)
	if proto.Equal(want, got) {
		return strconv.Itoa(p)
	}
	// name the first top-level difference so that a dropped field is visible in the replay
	switch {
	case want.GroupId != got.GroupId:
		return fmt.Sprintf("%d!GroupId", p)
	case want.RebalanceTimeoutMs != got.RebalanceTimeoutMs:
		return fmt.Sprintf("%d!RebalanceTimeoutMs", p)
	case len(want.Members) != len(got.Members):
		return fmt.Sprintf("%d!Members", p)
	}
	for id, wm := range want.Members {
		gm := got.Members[id]
		if gm == nil {
			return fmt.Sprintf("%d!Member", p)
		}
		if wm.SessionTimeoutMs != gm.SessionTimeoutMs {
			return fmt.Sprintf("%d!SessionTimeoutMs", p)
		}
	}
	return fmt.Sprintf("%d!differs", p)
}

func mkCfg(t, parts, payload int) *metadatapb.TopicConfig {
	return &metadatapb.TopicConfig{
		Name: topicName(t), Partitions: int32(parts), ReplicationFactor: 1,
		RetentionMs: int64(payload) * 1000, RetentionBytes: int64(payload), SegmentBytes: int64(payload) * 7,
		CreatedAt: "x", Config: map[string]string{"k": "v" + strconv.Itoa(payload)},
	}
}

func canonCfg(c *metadatapb.TopicConfig, err error) string {
	if err != nil {
		return errName(err)
	}
	payload := "?"
	if c.RetentionMs == -1 && c.RetentionBytes == -1 && c.SegmentBytes == 0 && len(c.Config) == 0 {
		payload = "0"
	} else if c.RetentionBytes > 0 && c.RetentionMs == c.RetentionBytes*1000 && c.SegmentBytes == c.RetentionBytes*7 &&
		len(c.Config) == 1 && c.Config["k"] == "v"+strconv.FormatInt(c.RetentionBytes, 10) {
		payload = strconv.FormatInt(c.RetentionBytes, 10)
	}
	return fmt.Sprintf("F:%d/%d/%s", c.Partitions, c.ReplicationFactor, payload)
}

func canonMeta(m *metadata.ClusterMetadata, err error) string {
	if err != nil {
		return "err"
	}
	if len(m.Topics) == 0 {
		return "T:-"
	}
	var parts []string
	for _, t := range m.Topics {
		name := "?"
		if t.Topic != nil {
			name = topicID(*t.Topic)
		}
		if t.ErrorCode != 0 {
			parts = append(parts, name+"=?")
			continue
		}
		ids := make([]int, 0, len(t.Partitions))
		for _, p := range t.Partitions {
			ids = append(ids, int(p.Partition))
		}
		sort.Ints(ids)
		bad := ""
		for i, id := range ids {
			if id != i {
				bad = "!"
			}
		}
		parts = append(parts, name+"="+strconv.Itoa(len(t.Partitions))+bad)
	}
	return "T:" + strings.Join(parts, ",")
}

func canonOffsets(l []metadata.ConsumerOffset, err error) string {
	if err != nil {
		return "err"
	}
	type row struct {
		g, t, p int
		s    string
	}
	var rows []row
	for _, o := range l {
		g, _ := strconv.Atoi(strings.TrimPrefix(o.Group, "g"))
		t, _ := strconv.Atoi(topicID(o.Topic))
		rows = append(rows, row{g, t, int(o.Partition), fmt.Sprintf("%d.%d.%d=%d", g, t, o.Partition, o.Offset)})
	}
	sort.Slice(rows, func(i, j int) bool {
		a, b := rows[i], rows[j]
		if a.g != b.g {
			return a.g < b.g
		}
		if a.t != b.t {
			return a.t < b.t
		}
		return a.p < b.p
	})
	if len(rows) == 0 {
		return "L:-"
	}
	var ss []string
	for _, r := range rows {
		ss = append(ss, r.s)
	}
	return "L:" + strings.Join(ss, ",")
}

func canonGroups(l []*metadatapb.ConsumerGroup, err error) string {
	if err != nil {
		return "err"
	}
	type row struct {
		g int
		s string
	}
	var rows []row
	for _, grp := range l {
		g, _ := strconv.Atoi(strings.TrimPrefix(grp.GroupId, "g"))
		rows = append(rows, row{g, fmt.Sprintf("%d=%s", g, canonGroup(g, grp))})
	}
	sort.Slice(rows, func(i, j int) bool { return rows[i].g < rows[j].g })
	if len(rows) == 0 {
		return "GS:-"
	}
	var ss []string
	for _, r := range rows {
		ss = append(ss, r.s)
	}
	return "GS:" + strings.Join(ss, ",")
}

func mdName(id int) string {
	if id == 0 {
		return ""
	}
	return "m" + strconv.Itoa(id)
}

func mdID(s string) string {
	if s == "" {
		return "0"
	}
	return strings.TrimPrefix(s, "m")
}

func ints(f []string) ([]int, bool) {
	out := make([]int, len(f))
	for i, x := range f {
		v, err := strconv.Atoi(x)
		if err != nil {
			return nil, false
		}
		out[i] = v
	}
	return out, true
}

func one(st metadata.Store, op string, a []int, names []string) (out string) {
	defer func() {
		if r := recover(); r != nil {
			out = "panic"
		}
	}()
	ctx, cancel := context.WithTimeout(context.Background(), 20*time.Second)
	defer cancel()
	switch op {
	case "ct":
		_, err := st.CreateTopic(ctx, metadata.TopicSpec{Name: topicName(a[0]), NumPartitions: int32(a[1]), ReplicationFactor: int16(a[2])})
		return errName(err)
	case "dt":
		return errName(st.DeleteTopic(ctx, topicName(a[0])))
	case "cp":
		return errName(st.CreatePartitions(ctx, topicName(a[0]), int32(a[1])))
	case "md":
		return canonMeta(st.Metadata(ctx, names))
	case "no":
		v, err := st.NextOffset(ctx, topicName(a[0]), int32(a[1]))
		if err != nil {
			return errName(err)
		}
		return "O:" + strconv.FormatInt(v, 10)
	case "uo":
		return errName(st.UpdateOffsets(ctx, topicName(a[0]), int32(a[1]), int64(a[2])))
	case "co":
		return errName(st.CommitConsumerOffset(ctx, groupName(a[0]), topicName(a[1]), int32(a[2]), int64(a[3]), mdName(a[4])))
	case "fo":
		o, md, err := st.FetchConsumerOffset(ctx, groupName(a[0]), topicName(a[1]), int32(a[2]))
		if err != nil {
			return errName(err)
		}
		return fmt.Sprintf("C:%d/%s", o, mdID(md))
	case "lo":
		return canonOffsets(st.ListConsumerOffsets(ctx))
	case "pg":
		return errName(st.PutConsumerGroup(ctx, mkGroup(a[0], a[1])))
	case "fg":
		g, err := st.FetchConsumerGroup(ctx, groupName(a[0]))
		if err != nil {
			return errName(err)
		}
		return "G:" + canonGroup(a[0], g)
	case "lg":
		return canonGroups(st.ListConsumerGroups(ctx))
	case "dg":
		return errName(st.DeleteConsumerGroup(ctx, groupName(a[0])))
	case "fc":
		return canonCfg(st.FetchTopicConfig(ctx, topicName(a[0])))
	case "uc":
		return errName(st.UpdateTopicConfig(ctx, mkCfg(a[0], a[1], a[2])))
	}
	return "bad-op"
}

var arity = map[string]int{"ct": 3, "dt": 1, "cp": 2, "no": 2, "uo": 3, "co": 5, "fo": 3, "lo": 0, "pg": 2, "fg": 1, "lg": 0, "dg": 1, "fc": 1, "uc": 3}

func (w *world) do(f []string) string {
	if f[0] == "new" && len(f) == 2 {
		b, err := strconv.Atoi(f[1])
		if err != nil || b < 0 || b > 5 {
			return "bad-op"
		}
		w.reset(b)
		return "new"
	}
	var a []int
	var names []string
	if f[0] == "md" && len(f) == 2 {
		if f[1] != "-" {
			ids, ok := ints(strings.Split(f[1], ","))
			if !ok {
				return "bad-op"
			}
			for _, id := range ids {
				names = append(names, topicName(id))
			}
		}
	} else {
		n, ok := arity[f[0]]
		if !ok || len(f) != n+1 {
			return "bad-op"
		}
		a, ok = ints(f[1:])
		if !ok {
			return "bad-op"
		}
	}
	return "M=" + one(w.mem, f[0], a, names) + " E=" + one(w.etcd, f[0], a, names)
}

func main() {
	w := &world{endpoints: startEtcd()}
	admin, err := clientv3.New(clientv3.Config{Endpoints: w.endpoints, DialTimeout: 5 * time.Second})
	if err != nil {
		panic(err)
	}
	w.admin = admin
	w.reset(1)
	out := bufio.NewWriter(os.Stdout)
	sc := bufio.NewScanner(os.Stdin)
	sc.Buffer(make([]byte, 1<<20), 1<<26)
	for sc.Scan() {
		f := strings.Fields(sc.Text())
		if len(f) == 0 || strings.HasPrefix(f[0], "#") {
			continue
		}
		fmt.Fprintln(out, w.do(f))
		out.Flush()
	}
	out.Flush()
	cleanup()
}
