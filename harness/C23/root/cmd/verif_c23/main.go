//go:build verif

// C23 correspondence harness (broker ACL): builds acl.Config values from the op lines on stdin,
// asks the real Authorizer, prints one canonical line per op (same format as lean/Driver/C23.lean).
package main

import (
	"bufio"
	"encoding/hex"
	"fmt"
	"os"
	"strings"

	"github.com/KafScale/platform/pkg/acl"
)

func unhex(s string) (string, bool) {
	if s == "-" {
		return "", true
	}
	b, err := hex.DecodeString(s)
	return string(b), err == nil
}

func main() {
	w := bufio.NewWriter(os.Stdout)
	defer w.Flush()
	cfg := acl.Config{Enabled: true}
	var auth *acl.Authorizer
	sc := bufio.NewScanner(os.Stdin)
	sc.Buffer(make([]byte, 1<<20), 1<<26)
	for sc.Scan() {
		f := strings.Fields(sc.Text())
		if len(f) == 0 || strings.HasPrefix(f[0], "#") {
			continue
		}
		out := func() (res string) {
			defer func() {
				if r := recover(); r != nil {
					res = "panic"
				}
			}()
			switch {
			case f[0] == "mode" && len(f) == 2:
				return "ok"
			case f[0] == "cfg" && len(f) == 3:
				d, ok := unhex(f[2])
				if !ok {
					return "bad-op"
				}
				cfg = acl.Config{Enabled: f[1] == "1", DefaultPolicy: d}
				auth = nil
				return "ok"
			case f[0] == "pr" && len(f) == 2:
				n, ok := unhex(f[1])
				if !ok {
					return "bad-op"
				}
				cfg.Principals = append(cfg.Principals, acl.PrincipalRules{Name: n})
				auth = nil
				return "ok"
			case (f[0] == "al" || f[0] == "dn") && len(f) == 4:
				a, ok1 := unhex(f[1])
				r, ok2 := unhex(f[2])
				n, ok3 := unhex(f[3])
				if !ok1 || !ok2 || !ok3 || len(cfg.Principals) == 0 {
					return "bad-op"
				}
				e := &cfg.Principals[len(cfg.Principals)-1]
				rule := acl.Rule{Action: acl.Action(a), Resource: acl.Resource(r), Name: n}
				if f[0] == "al" {
					e.Allow = append(e.Allow, rule)
				} else {
					e.Deny = append(e.Deny, rule)
				}
				auth = nil
				return "ok"
			case f[0] == "rq" && len(f) == 5:
				p, ok0 := unhex(f[1])
				a, ok1 := unhex(f[2])
				r, ok2 := unhex(f[3])
				n, ok3 := unhex(f[4])
				if !ok0 || !ok1 || !ok2 || !ok3 {
					return "bad-op"
				}
				if auth == nil {
					// deep copy so later edits of cfg cannot alias into the authorizer
					c := acl.Config{Enabled: cfg.Enabled, DefaultPolicy: cfg.DefaultPolicy}
					for _, e := range cfg.Principals {
						c.Principals = append(c.Principals, acl.PrincipalRules{Name: e.Name,
							Allow: append([]acl.Rule(nil), e.Allow...), Deny: append([]acl.Rule(nil), e.Deny...)})
					}
					auth = acl.NewAuthorizer(c)
				}
				res := "deny"
				if auth.Allows(p, acl.Action(a), acl.Resource(r), n) {
					res = "allow"
				}
				var bits strings.Builder
				for _, e := range cfg.Principals {
					for _, rl := range e.Allow {
						if acl.VerifMatches(rl, acl.Action(a), acl.Resource(r), n) {
							bits.WriteByte('1')
						} else {
							bits.WriteByte('0')
						}
					}
					for _, rl := range e.Deny {
						if acl.VerifMatches(rl, acl.Action(a), acl.Resource(r), n) {
							bits.WriteByte('1')
						} else {
							bits.WriteByte('0')
						}
					}
				}
				return res + " m=" + bits.String()
			}
			return "bad-op"
		}()
		fmt.Fprintln(w, out)
	}
}
