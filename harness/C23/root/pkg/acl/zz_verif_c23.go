//go:build verif

package acl

// VerifMatches exposes the unexported rule matcher to the C23 harness.
func VerifMatches(rule Rule, action Action, resource Resource, name string) bool {
	return matches(rule, action, resource, name)
}
