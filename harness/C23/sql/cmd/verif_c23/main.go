//go:build verif

// C23 correspondence harness (SQL proxy ACL).
package main

import (
	"bufio"
	"encoding/hex"
	"fmt"
	"os"
	"strings"

	"github.com/kafscale/platform/addons/processors/sql-processor/internal/proxy"
)

func unhex(s string) (string, bool) {
	if s == "-" {
		return "", true
	}
	b, err := hex.DecodeString(s)
	return string(b), err == nil
}

func bit(b bool) string {
	if b {
		return "1"
	}
	return "0"
}

func main() {
	w := bufio.NewWriter(os.Stdout)
	defer w.Flush()
	var a proxy.ACL
	sc := bufio.NewScanner(os.Stdin)
	sc.Buffer(make([]byte, 1<<20), 1<<26)
	for sc.Scan() {
		f := strings.Fields(sc.Text())
		if len(f) == 0 || strings.HasPrefix(f[0], "#") {
			continue
		}
		out := func() (res string) {
			defer func() {
				if r := recover(); r != nil {
					res = "panic"
				}
			}()
			switch {
			case f[0] == "sacl" && len(f) == 1:
				a = proxy.ACL{}
				return "ok"
			case (f[0] == "sa" || f[0] == "sd") && len(f) == 2:
				p, ok := unhex(f[1])
				if !ok {
					return "bad-op"
				}
				if f[0] == "sa" {
					a.Allow = append(a.Allow, p)
				} else {
					a.Deny = append(a.Deny, p)
				}
				return "ok"
			case f[0] == "st" && len(f) == 2:
				t, ok := unhex(f[1])
				if !ok {
					return "bad-op"
				}
				res := "deny"
				if a.Allows(t) {
					res = "allow"
				}
				var bits strings.Builder
				for _, p := range a.Allow {
					bits.WriteString(bit(proxy.VerifMatchPatterns([]string{p}, t)))
				}
				bits.WriteByte('/')
				for _, p := range a.Deny {
					bits.WriteString(bit(proxy.VerifMatchPatterns([]string{p}, t)))
				}
				return res + " show=" + bit(a.AllowShowTopics()) + " m=" + bits.String()
			}
			return "bad-op"
		}()
		fmt.Fprintln(w, out)
	}
}
