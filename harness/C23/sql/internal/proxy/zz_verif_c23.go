//go:build verif

package proxy

// VerifMatchPatterns exposes the unexported pattern matcher to the C23 harness.
func VerifMatchPatterns(patterns []string, topic string) bool {
	return matchPatterns(patterns, topic)
}
