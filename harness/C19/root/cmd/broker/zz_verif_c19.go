//go:build verif

// C19 correspondence harness (compiled into cmd/broker only with -tags verif; active only when
// VERIF_HARNESS=C19): a real handler with an EtcdStore on embedded etcd, a real
// PartitionLeaseManager "A" (its etcd client has an interposed KV/Lease so the schedule can fail
// lease transactions and make A observe the loss of its session), a competitor manager "B", and an
// in-memory S3 whose calls are counted per partition and can be parked.  One canonical line per
// op, same format as lean/Driver/C19.lean.
package main

import (
	"bufio"
	"context"
	"errors"
	"fmt"
	"io"
	"log/slog"
	"net/url"
	"os"
	"sort"
	"strconv"
	"strings"
	"sync"
	"sync/atomic"
	"time"

	"github.com/twmb/franz-go/pkg/kmsg"
	clientv3 "go.etcd.io/etcd/client/v3"
	"go.etcd.io/etcd/server/v3/embed"
	"go.uber.org/zap"

	"github.com/KafScale/platform/pkg/acl"
	"github.com/KafScale/platform/pkg/broker"
	"github.com/KafScale/platform/pkg/metadata"
	"github.com/KafScale/platform/pkg/protocol"
	"github.com/KafScale/platform/pkg/storage"
)

func init() {
	if os.Getenv("VERIF_HARNESS") == "C19" {
		verifC19Main()
		os.Exit(0)
	}
}

type c19Res struct {
	topic string
	part  int32
}

var c19Resources = func() []c19Res {
	rs := []c19Res{{"t0", 0}, {"t0", 1}, {"t0", 2}, {"t1", 0}, {"t1", 1}, {"ghost", 0}}
	for p := int32(0); p < 32; p++ {
		rs = append(rs, c19Res{"wide", p}) // resources 6..37: one topic with many partitions
	}
	return rs
}()

// ---- store wrapper: etcd availability under schedule control

type c19Store struct {
	metadata.Store
	up *atomic.Bool
}

func (s c19Store) Available() bool { return s.up.Load() }

// ---- S3: counts segment uploads per key, can park the first call of an operation

type c19S3 struct {
	storage.S3Client
	mu      sync.Mutex
	uploads []string
	armed   bool
	parked  chan struct{}
	resume  chan struct{}
}

func (s *c19S3) gate() {
	s.mu.Lock()
	if !s.armed {
		s.mu.Unlock()
		return
	}
	s.armed = false
	parked, resume := s.parked, s.resume
	s.mu.Unlock()
	close(parked)
	<-resume
}

func (s *c19S3) UploadSegment(ctx context.Context, key string, body []byte) error {
	s.gate()
	err := s.S3Client.UploadSegment(ctx, key, body)
	if err == nil {
		s.mu.Lock()
		s.uploads = append(s.uploads, key)
		s.mu.Unlock()
	}
	return err
}

func (s *c19S3) ListSegments(ctx context.Context, prefix string) ([]storage.S3Object, error) {
	s.gate()
	return s.S3Client.ListSegments(ctx, prefix)
}

func (s *c19S3) takeUploads() []string {
	s.mu.Lock()
	defer s.mu.Unlock()
	u := s.uploads
	s.uploads = nil
	return u
}

// ---- interposed etcd client of manager A

var errC19Injected = errors.New("verif: injected etcd transaction failure")

type c19KV struct {
	clientv3.KV
	fail   *atomic.Bool
	delay  atomic.Int64 // slow etcd: every lease transaction of A takes this many milliseconds longer (tproduce / cacquire)
	mu     sync.Mutex
	armed  bool // park the caller right after its next lease transaction has executed
	parked chan struct{}
	resume chan struct{}
}

type c19Txn struct {
	clientv3.Txn
	fail *atomic.Bool
	kv   *c19KV
}

func (k *c19KV) Txn(ctx context.Context) clientv3.Txn {
	// the code's 5 s per-transaction timeout must not fire while the call is parked
	return &c19Txn{Txn: k.KV.Txn(context.WithoutCancel(ctx)), fail: k.fail, kv: k}
}

// gatePost parks the calling goroutine between two etcd round trips of Acquire.
func (k *c19KV) gatePost() {
	k.mu.Lock()
	if !k.armed {
		k.mu.Unlock()
		return
	}
	k.armed = false
	parked, resume := k.parked, k.resume
	k.mu.Unlock()
	close(parked)
	select {
	case <-resume:
	case <-time.After(30 * time.Second):
	}
}
func (t *c19Txn) If(cs ...clientv3.Cmp) clientv3.Txn   { t.Txn = t.Txn.If(cs...); return t }
func (t *c19Txn) Then(ops ...clientv3.Op) clientv3.Txn { t.Txn = t.Txn.Then(ops...); return t }
func (t *c19Txn) Else(ops ...clientv3.Op) clientv3.Txn { t.Txn = t.Txn.Else(ops...); return t }
func (t *c19Txn) Commit() (*clientv3.TxnResponse, error) {
	if d := t.kv.delay.Load(); d > 0 {
		time.Sleep(time.Duration(d) * time.Millisecond)
	}
	if t.fail.Load() {
		return nil, errC19Injected
	}
	resp, err := t.Txn.Commit()
	t.kv.gatePost()
	return resp, err
}

type c19Lease struct {
	clientv3.Lease
	mu   sync.Mutex
	lose map[clientv3.LeaseID]func()
}

func (l *c19Lease) KeepAlive(ctx context.Context, id clientv3.LeaseID) (<-chan *clientv3.LeaseKeepAliveResponse, error) {
	kctx, cancel := context.WithCancel(context.Background())
	in, err := l.Lease.KeepAlive(kctx, id)
	if err != nil {
		cancel()
		return nil, err
	}
	out := make(chan *clientv3.LeaseKeepAliveResponse, 4)
	stop := make(chan struct{})
	var once sync.Once
	l.mu.Lock()
	l.lose[id] = func() { once.Do(func() { close(stop); cancel() }) }
	l.mu.Unlock()
	go func() {
		defer close(out)
		for {
			select {
			case <-stop:
				return
			case <-ctx.Done():
				cancel()
				return
			case r, ok := <-in:
				if !ok {
					return
				}
				select {
				case out <- r:
				default:
				}
			}
		}
	}()
	return out, nil
}

// ---- the world of one case

type c19World struct {
	admin    *clientv3.Client
	endpoint string
	store    *metadata.EtcdStore
	h        *handler
	s3       *c19S3
	a, b     *metadata.PartitionLeaseManager
	aLease   *c19Lease
	aKV      *c19KV
	etcdUp   atomic.Bool
	txnFail  atomic.Bool
	pending  chan string
	timeout  int32 // TimeoutMillis of the produce requests (tproduce sets it for one request)
}

func c19Logger() *slog.Logger { return slog.New(slog.NewTextHandler(io.Discard, nil)) }

func (w *c19World) close() {
	if w.a != nil {
		w.aLease.mu.Lock()
		for _, f := range w.aLease.lose {
			f()
		}
		w.aLease.mu.Unlock()
	}
	if w.store != nil {
		_ = w.store.Close()
	}
	ctx := context.Background()
	if ls, err := w.admin.Leases(ctx); err == nil {
		for _, l := range ls.Leases {
			_, _ = w.admin.Revoke(ctx, l.ID)
		}
	}
	_, _ = w.admin.Delete(ctx, "/kafscale", clientv3.WithPrefix())
}

func c19New(admin *clientv3.Client, endpoint string) (*c19World, error) {
	w := &c19World{admin: admin, endpoint: endpoint, timeout: 1000}
	w.etcdUp.Store(true)
	ctx := context.Background()
	brokerInfo := protocol.MetadataBroker{NodeID: 1, Host: "localhost", Port: 19092}
	store, err := metadata.NewEtcdStore(ctx, metadata.ClusterMetadata{Brokers: []protocol.MetadataBroker{brokerInfo}, ControllerID: 1},
		metadata.EtcdStoreConfig{Endpoints: []string{endpoint}})
	if err != nil {
		return nil, err
	}
	w.store = store
	for _, spec := range []metadata.TopicSpec{{Name: "t0", NumPartitions: 3, ReplicationFactor: 1}, {Name: "t1", NumPartitions: 2, ReplicationFactor: 1}, {Name: "wide", NumPartitions: 32, ReplicationFactor: 1}} {
		if _, err := store.CreateTopic(ctx, spec); err != nil {
			return nil, fmt.Errorf("create topic %s: %w", spec.Name, err)
		}
	}
	w.s3 = &c19S3{S3Client: storage.NewMemoryS3Client()}
	h := newHandler(store, w.s3, brokerInfo, c19Logger())
	w.aLease = &c19Lease{Lease: admin.Lease, lose: map[clientv3.LeaseID]func(){}}
	ac := clientv3.NewCtxClient(ctx)
	w.aKV = &c19KV{KV: admin.KV, fail: &w.txnFail}
	ac.KV = w.aKV
	ac.Lease = w.aLease
	ac.Watcher = admin.Watcher
	w.a = metadata.NewPartitionLeaseManager(ac, metadata.PartitionLeaseConfig{BrokerID: "A", LeaseTTLSeconds: 120, Logger: c19Logger()})
	w.b = metadata.NewPartitionLeaseManager(admin, metadata.PartitionLeaseConfig{BrokerID: "B", LeaseTTLSeconds: 120, Logger: c19Logger()})
	h.leaseManager = w.a
	h.store = c19Store{Store: store, up: &w.etcdUp}
	h.autoCreateTopics = false
	h.flushOnAck = true
	h.authorizer = nil
	w.h = h
	return w, nil
}

func (w *c19World) obs() string {
	idx := map[string]int{}
	for i, r := range c19Resources {
		idx[fmt.Sprintf("%s/%d", r.topic, r.part)] = i
	}
	var own []int
	var extra []string
	for _, id := range w.a.VerifLM().VerifOwned() {
		if i, ok := idx[id]; ok {
			own = append(own, i)
		} else {
			extra = append(extra, "?"+id)
		}
	}
	sort.Ints(own)
	var os_ []string
	for _, i := range own {
		os_ = append(os_, strconv.Itoa(i))
	}
	os_ = append(os_, extra...)
	var bown []int
	for _, id := range w.b.VerifLM().VerifOwned() {
		if i, ok := idx[id]; ok {
			bown = append(bown, i)
		}
	}
	sort.Ints(bown)
	var bs []string
	for _, i := range bown {
		bs = append(bs, strconv.Itoa(i))
	}
	present := map[int]string{}
	var kvs []string
	resp, err := w.admin.Get(context.Background(), metadata.PartitionLeasePrefix()+"/", clientv3.WithPrefix())
	if err == nil {
		for _, kv := range resp.Kvs {
			rid := strings.TrimPrefix(string(kv.Key), metadata.PartitionLeasePrefix()+"/")
			if i, ok := idx[rid]; ok {
				present[i] = string(kv.Value)
			} else {
				kvs = append(kvs, "?"+rid+"="+string(kv.Value))
			}
		}
	}
	var ids []int
	for i := range present {
		ids = append(ids, i)
	}
	sort.Ints(ids)
	var sorted []string
	for _, i := range ids {
		sorted = append(sorted, fmt.Sprintf("%d:%s", i, present[i]))
	}
	kvs = append(sorted, kvs...)
	return fmt.Sprintf("own=%s bown=%s kv=%s", strings.Join(os_, ","), strings.Join(bs, ","), strings.Join(kvs, ","))
}

func c19Batch(valid bool) []byte {
	if !valid {
		return []byte{1, 2, 3, 4, 5, 6, 7, 8, 9, 10}
	}
	data := make([]byte, 70)
	data[60] = 1 // messageCount = 1, lastOffsetDelta = 0
	return data
}

type c19Part struct {
	r     int
	valid bool
}

func c19ParseParts(f []string) ([]c19Part, bool) {
	var out []c19Part
	for _, x := range f {
		p := strings.Split(x, ":")
		if len(p) != 2 {
			return nil, false
		}
		r, err := strconv.Atoi(p[0])
		if err != nil || r < 0 || r >= len(c19Resources) {
			return nil, false
		}
		out = append(out, c19Part{r, p[1] == "v"})
	}
	return out, true
}

// produce runs the real handleProduce and renders codes and segment uploads per requested partition.
func (w *c19World) produce(acks int16, parts []c19Part) (res string) {
	defer func() {
		if r := recover(); r != nil {
			res = "panic"
		}
	}()
	req := kmsg.NewPtrProduceRequest()
	req.Acks = acks
	req.TimeoutMillis = w.timeout
	var order []string
	byTopic := map[string]*kmsg.ProduceRequestTopic{}
	for _, p := range parts {
		r := c19Resources[p.r]
		t, ok := byTopic[r.topic]
		if !ok {
			nt := kmsg.NewProduceRequestTopic()
			nt.Topic = r.topic
			t = &nt
			byTopic[r.topic] = t
			order = append(order, r.topic)
		}
		rp := kmsg.NewProduceRequestTopicPartition()
		rp.Partition = r.part
		rp.Records = c19Batch(p.valid)
		t.Partitions = append(t.Partitions, rp)
	}
	for _, name := range order {
		req.Topics = append(req.Topics, *byTopic[name])
	}
	client := "cli"
	header := &protocol.RequestHeader{APIKey: 0, APIVersion: 3, CorrelationID: 7, ClientID: &client}
	w.s3.takeUploads()
	body, err := w.h.handleProduce(context.Background(), header, req)
	if err != nil {
		return "handler-error"
	}
	codes := "none"
	if body != nil {
		resp := kmsg.NewPtrProduceResponse()
		resp.SetVersion(3)
		if len(body) < 4 || resp.ReadFrom(body[4:]) != nil {
			return "undecodable-response"
		}
		got := map[string][]string{}
		for _, t := range resp.Topics {
			for _, p := range t.Partitions {
				k := fmt.Sprintf("%s/%d", t.Topic, p.Partition)
				got[k] = append(got[k], strconv.Itoa(int(p.ErrorCode)))
			}
		}
		var cs []string
		for _, p := range parts {
			r := c19Resources[p.r]
			k := fmt.Sprintf("%s/%d", r.topic, r.part)
			c := "missing"
			if len(got[k]) > 0 {
				c = got[k][0]
				got[k] = got[k][1:]
			}
			cs = append(cs, fmt.Sprintf("%d=%s", p.r, c))
		}
		for k, v := range got {
			if len(v) > 0 {
				cs = append(cs, "?"+k+"="+strings.Join(v, "/"))
			}
		}
		codes = strings.Join(cs, ",")
	}
	ups := w.s3.takeUploads()
	var ws []string
	for _, p := range parts {
		r := c19Resources[p.r]
		n := 0
		for _, k := range ups {
			if strings.Contains(k, fmt.Sprintf("/%s/%d/", r.topic, r.part)) {
				n++
			}
		}
		ws = append(ws, fmt.Sprintf("%d=%d", p.r, n))
	}
	return fmt.Sprintf("codes=%s writes=%s", codes, strings.Join(ws, ","))
}

// lost: manager A observes the loss of its session through monitorSession (keepalive channel closed).
func (w *c19World) lost() string {
	id := w.a.VerifLM().VerifSessionLease()
	if id == 0 {
		return "-"
	}
	w.aLease.mu.Lock()
	lose := w.aLease.lose[clientv3.LeaseID(id)]
	w.aLease.mu.Unlock()
	if lose == nil {
		return "no-keepalive"
	}
	lose()
	deadline := time.Now().Add(5 * time.Second)
	for w.a.VerifLM().VerifSessionLease() == id && time.Now().Before(deadline) {
		time.Sleep(200 * time.Microsecond)
	}
	if w.a.VerifLM().VerifSessionLease() == id {
		return "loss-not-observed"
	}
	return "-"
}

// xproduce: the session of A is lost, and the loss is first noticed by the Done() branch of getOrCreateSession inside
// the Acquire of this request (a partition A does not own yet), BEFORE the monitorSession goroutine gets the lock.
// Schedule: the harness holds the manager's read lock (like an Owns() call in progress); the request runs until its
// Acquire waits for the write lock in getOrCreateSession; the keepalive channel is closed and the session's Done()
// closes; the read lock is released: the Acquire is first in line for the write lock, monitorSession comes after it.
// When A has no session, or already owns the partition (no Acquire would run), the loss is observed the ordinary way
// (`a lost`) and the request is sent afterwards.
func (w *c19World) xproduce(acks int16, parts []c19Part) string {
	lm := w.a.VerifLM()
	id := lm.VerifSessionLease()
	if id == 0 || lm.VerifClosed() {
		return w.produce(acks, parts)
	}
	r := c19Resources[parts[0].r]
	rid := fmt.Sprintf("%s/%d", r.topic, r.part)
	for _, o := range lm.VerifOwned() {
		if o == rid {
			if res := w.lost(); res != "-" {
				return res
			}
			return w.produce(acks, parts)
		}
	}
	w.aLease.mu.Lock()
	lose := w.aLease.lose[clientv3.LeaseID(id)]
	w.aLease.mu.Unlock()
	done := lm.VerifSessionDone()
	if lose == nil || done == nil {
		return "no-keepalive"
	}
	release := lm.VerifReadHold()
	released := false
	defer func() {
		if !released {
			release()
		}
	}()
	ch := make(chan string, 1)
	go func() { ch <- w.produce(acks, parts) }()
	deadline := time.Now().Add(5 * time.Second)
	for !lm.VerifWriterPending() {
		select {
		case <-ch:
			return "race-not-reached" // the request finished without asking for the write lock
		default:
		}
		if time.Now().After(deadline) {
			return "race-not-reached"
		}
		time.Sleep(100 * time.Microsecond)
	}
	lose()
	select {
	case <-done:
	case <-time.After(5 * time.Second):
		return "loss-not-observed"
	}
	released = true
	release()
	select {
	case res := <-ch:
		// let the monitor goroutine of the dead session finish its (late) pass before the state is observed
		for i := 0; i < 50 && lm.VerifWriterPending(); i++ {
			time.Sleep(100 * time.Microsecond)
		}
		time.Sleep(2 * time.Millisecond)
		return res
	case <-time.After(10 * time.Second):
		return "hang"
	}
}

// c19SlowMargin: how much longer than the request's timeout a lease transaction of A takes in tproduce / cacquire.
const c19SlowMargin = 40

// tproduce: a produce request whose TimeoutMillis is SHORTER than the etcd round trip of a lease acquisition (every lease
// transaction of A takes timeout+margin ms).  The client's timeout bounds how long the client waits, not what the broker may
// assume: a lease acquisition that has not answered yet is not a lease held.
func (w *c19World) tproduce(acks int16, timeoutMs int, parts []c19Part) string {
	w.aKV.delay.Store(int64(timeoutMs + c19SlowMargin))
	w.timeout = int32(timeoutMs)
	defer func() {
		w.aKV.delay.Store(0)
		w.timeout = 1000
	}()
	return w.produce(acks, parts)
}

// cacquire: AcquireAll called directly with a context that is done after timeoutMs (0 = already done) while every lease
// transaction of A takes timeoutMs+margin ms.  Result per partition: the error class of its slot.
func (w *c19World) cacquire(timeoutMs int, parts []c19Part) (res string) {
	defer func() {
		if r := recover(); r != nil {
			res = "panic"
		}
	}()
	w.aKV.delay.Store(int64(timeoutMs + c19SlowMargin))
	defer w.aKV.delay.Store(0)
	ctx, cancel := context.WithCancel(context.Background())
	defer cancel()
	if timeoutMs == 0 {
		cancel()
	} else {
		var c2 context.CancelFunc
		ctx, c2 = context.WithTimeout(ctx, time.Duration(timeoutMs)*time.Millisecond)
		defer c2()
	}
	ids := make([]metadata.PartitionID, 0, len(parts))
	for _, p := range parts {
		r := c19Resources[p.r]
		ids = append(ids, metadata.PartitionID{Topic: r.topic, Partition: r.part})
	}
	type out struct{ rs []metadata.AcquireResult }
	ch := make(chan out, 1)
	go func() {
		defer func() {
			if r := recover(); r != nil {
				ch <- out{nil}
			}
		}()
		ch <- out{w.a.AcquireAll(ctx, ids)}
	}()
	var rs []metadata.AcquireResult
	select {
	case o := <-ch:
		rs = o.rs
	case <-time.After(15 * time.Second):
		return "hang"
	}
	if rs == nil && len(ids) > 0 {
		return "panic"
	}
	var cs []string
	for i, p := range parts {
		c := "missing"
		if i < len(rs) {
			if rs[i].Partition != ids[i] {
				c = "wrong-partition"
			} else {
				c = c19ResName(rs[i].Err)
			}
		}
		cs = append(cs, fmt.Sprintf("%d=%s", p.r, c))
	}
	if len(rs) > len(parts) {
		cs = append(cs, fmt.Sprintf("?extra=%d", len(rs)-len(parts)))
	}
	return "res=" + strings.Join(cs, ",")
}

func c19ResName(err error) string {
	switch {
	case err == nil:
		return "ok"
	case errors.Is(err, metadata.ErrNotOwner):
		return "notowner"
	case errors.Is(err, metadata.ErrShuttingDown):
		return "shutdown"
	default:
		return "err"
	}
}

func (w *c19World) exec(f []string) string {
	ctx := context.Background()
	switch {
	case f[0] == "acl" && len(f) == 2:
		if f[1] == "deny1" {
			w.h.authorizer = acl.NewAuthorizer(acl.Config{Enabled: true, DefaultPolicy: "allow", Principals: []acl.PrincipalRules{
				{Name: "cli", Deny: []acl.Rule{{Action: acl.ActionProduce, Resource: acl.ResourceTopic, Name: "t1"}}}}})
		} else {
			w.h.authorizer = nil
		}
		return "-"
	case f[0] == "etcd" && len(f) == 2:
		w.etcdUp.Store(f[1] == "up")
		return "-"
	case f[0] == "s3" && len(f) == 2:
		m := broker.NewS3HealthMonitor(broker.S3HealthConfig{})
		switch f[1] {
		case "degraded":
			for i := 0; i < 7; i++ {
				m.RecordOperation("upload", time.Millisecond, nil)
			}
			for i := 0; i < 3; i++ {
				m.RecordOperation("upload", time.Millisecond, errors.New("x"))
			}
		case "unavailable":
			for i := 0; i < 10; i++ {
				m.RecordOperation("upload", time.Millisecond, errors.New("x"))
			}
		}
		w.h.s3Health = m
		return "-"
	case f[0] == "txnfail" && len(f) == 2:
		w.txnFail.Store(f[1] == "on")
		return "-"
	case f[0] == "b" && len(f) == 3:
		r, err := strconv.Atoi(f[2])
		if err != nil || r < 0 || r >= len(c19Resources) {
			return "bad-op"
		}
		if f[1] == "acquire" {
			return c19ResName(w.b.Acquire(ctx, c19Resources[r].topic, c19Resources[r].part))
		}
		w.b.Release(c19Resources[r].topic, c19Resources[r].part)
		return "-"
	case f[0] == "a" && len(f) == 2 && f[1] == "lost":
		return w.lost()
	case f[0] == "xproduce" && len(f) == 3:
		acks, err := strconv.Atoi(f[1])
		parts, ok := c19ParseParts(f[2:])
		if err != nil || !ok || len(parts) != 1 || w.pending != nil {
			return "bad-op"
		}
		return w.xproduce(int16(acks), parts)
	case f[0] == "a" && len(f) == 2 && f[1] == "expire":
		cur := []int64{w.a.VerifLM().VerifSessionLease(), w.b.VerifLM().VerifSessionLease()}
		if ls, err := w.admin.Leases(ctx); err == nil {
			for _, l := range ls.Leases {
				if int64(l.ID) != cur[0] && int64(l.ID) != cur[1] {
					_, _ = w.admin.Revoke(ctx, l.ID)
				}
			}
		}
		return "-"
	case f[0] == "a" && len(f) == 2 && f[1] == "releaseall":
		w.a.ReleaseAll()
		return "-"
	case f[0] == "tproduce" && len(f) >= 4:
		acks, err := strconv.Atoi(f[1])
		tmo, err2 := strconv.Atoi(f[2])
		parts, ok := c19ParseParts(f[3:])
		if err != nil || err2 != nil || tmo < 0 || tmo > 1000 || !ok || w.pending != nil {
			return "bad-op"
		}
		return w.tproduce(int16(acks), tmo, parts)
	case f[0] == "cacquire" && len(f) >= 3:
		tmo, err := strconv.Atoi(f[1])
		parts, ok := c19ParseParts(f[2:])
		if err != nil || tmo < 0 || tmo > 1000 || !ok || w.pending != nil {
			return "bad-op"
		}
		return w.cacquire(tmo, parts)
	case f[0] == "produce" && len(f) >= 3:
		acks, err := strconv.Atoi(f[1])
		parts, ok := c19ParseParts(f[2:])
		if err != nil || !ok {
			return "bad-op"
		}
		return w.produce(int16(acks), parts)
	case f[0] == "gproduce" && len(f) == 3:
		acks, err := strconv.Atoi(f[1])
		parts, ok := c19ParseParts(f[2:])
		if err != nil || !ok || w.pending != nil {
			return "bad-op"
		}
		w.s3.mu.Lock()
		w.s3.armed = true
		w.s3.parked = make(chan struct{})
		w.s3.resume = make(chan struct{})
		parked := w.s3.parked
		w.s3.mu.Unlock()
		w.pending = make(chan string, 1)
		go func(ch chan string) { ch <- w.produce(int16(acks), parts) }(w.pending)
		select {
		case <-parked:
			return "parked"
		case r := <-w.pending:
			// the request never reached S3 (rejected before): report its result at gresume
			w.pending = make(chan string, 1)
			w.pending <- r
			w.s3.mu.Lock()
			w.s3.armed = false
			close(w.s3.resume)
			w.s3.mu.Unlock()
			return "parked"
		case <-time.After(10 * time.Second):
			return "hang"
		}
	case f[0] == "lproduce" && len(f) == 3:
		acks, err := strconv.Atoi(f[1])
		parts, ok := c19ParseParts(f[2:])
		if err != nil || !ok || w.pending != nil {
			return "bad-op"
		}
		w.aKV.mu.Lock()
		w.aKV.armed = true
		w.aKV.parked = make(chan struct{})
		w.aKV.resume = make(chan struct{})
		parked := w.aKV.parked
		w.aKV.mu.Unlock()
		w.pending = make(chan string, 1)
		go func(ch chan string) { ch <- w.produce(int16(acks), parts) }(w.pending)
		select {
		case <-parked:
			return "parked"
		case r := <-w.pending:
			// no lease transaction was needed (already owned / shutting down): result at lresume
			w.pending = make(chan string, 1)
			w.pending <- r
			w.aKV.mu.Lock()
			w.aKV.armed = false
			w.aKV.mu.Unlock()
			return "parked"
		case <-time.After(10 * time.Second):
			return "hang"
		}
	case f[0] == "lresume" && len(f) == 1:
		if w.pending == nil {
			return "bad-op"
		}
		w.aKV.mu.Lock()
		if w.aKV.resume != nil {
			select {
			case <-w.aKV.resume:
			default:
				close(w.aKV.resume)
			}
		}
		w.aKV.mu.Unlock()
		select {
		case r := <-w.pending:
			w.pending = nil
			return r
		case <-time.After(10 * time.Second):
			return "hang"
		}
	case f[0] == "gresume" && len(f) == 1:
		if w.pending == nil {
			return "bad-op"
		}
		w.s3.mu.Lock()
		select {
		case <-w.s3.resume:
		default:
			close(w.s3.resume)
		}
		w.s3.mu.Unlock()
		select {
		case r := <-w.pending:
			w.pending = nil
			return r
		case <-time.After(10 * time.Second):
			return "hang"
		}
	}
	return "bad-op"
}

func c19StartEtcd() (*embed.Etcd, string, error) {
	dir, err := os.MkdirTemp("", "verif-c19-etcd-")
	if err != nil {
		return nil, "", err
	}
	cfg := embed.NewConfig()
	cfg.Dir = dir
	cfg.Logger = "zap"
	cfg.LogLevel = "error"
	cfg.LogOutputs = []string{dir + "/etcd.log"}
	cfg.UnsafeNoFsync = true
	u0, _ := url.Parse("http://127.0.0.1:0")
	cfg.ListenClientUrls = []url.URL{*u0}
	cfg.AdvertiseClientUrls = []url.URL{*u0}
	cfg.ListenPeerUrls = []url.URL{*u0}
	cfg.AdvertisePeerUrls = []url.URL{*u0}
	cfg.InitialCluster = cfg.InitialClusterFromName(cfg.Name)
	e, err := embed.StartEtcd(cfg)
	if err != nil {
		os.RemoveAll(dir)
		return nil, "", err
	}
	select {
	case <-e.Server.ReadyNotify():
	case <-time.After(20 * time.Second):
		e.Close()
		os.RemoveAll(dir)
		return nil, "", fmt.Errorf("etcd not ready")
	}
	return e, dir, nil
}

func verifC19Main() {
	e, dir, err := c19StartEtcd()
	if err != nil {
		fmt.Fprintln(os.Stderr, "start etcd:", err)
		os.Exit(3)
	}
	defer os.RemoveAll(dir)
	defer e.Close()
	endpoint := "http://" + e.Clients[0].Addr().String()
	admin, err := clientv3.New(clientv3.Config{Endpoints: []string{endpoint}, DialTimeout: 5 * time.Second, Logger: zap.NewNop()})
	if err != nil {
		fmt.Fprintln(os.Stderr, "client:", err)
		os.Exit(3)
	}
	defer admin.Close()
	var w *c19World
	out := bufio.NewWriter(os.Stdout)
	defer out.Flush()
	sc := bufio.NewScanner(os.Stdin)
	sc.Buffer(make([]byte, 1<<20), 1<<24)
	for sc.Scan() {
		f := strings.Fields(sc.Text())
		if len(f) == 0 || strings.HasPrefix(f[0], "#") {
			continue
		}
		if f[0] == "reset" {
			if w != nil {
				w.close()
			}
			w, err = c19New(admin, endpoint)
			if err != nil {
				fmt.Fprintln(out, "reset-failed", err)
				out.Flush()
				w = nil
				continue
			}
			fmt.Fprintln(out, "reset "+w.obs())
			out.Flush()
			continue
		}
		if w == nil {
			fmt.Fprintln(out, "bad-op")
			continue
		}
		res := w.exec(f)
		if res == "bad-op" {
			fmt.Fprintln(out, res)
		} else {
			fmt.Fprintln(out, res+" "+w.obs())
		}
		out.Flush()
	}
	if w != nil {
		w.close()
	}
}
