//go:build verif

package metadata

// Schedule helpers for the C19 harness (never compiled without -tags verif).  They let the harness play one more
// concurrent reader of the manager's RWMutex (what any Owns() call is), so that the order in which an in-flight Acquire
// and the monitorSession goroutine get the write lock after the session's Done() closed is chosen by the schedule.

// VerifReadHold takes the read lock like an Owns() call in progress and returns its release.
func (m *LeaseManager) VerifReadHold() (release func()) {
	m.mu.RLock()
	return m.mu.RUnlock
}

// VerifWriterPending reports whether some goroutine is waiting for (or holds) the write lock.
func (m *LeaseManager) VerifWriterPending() bool {
	if m.mu.TryRLock() {
		m.mu.RUnlock()
		return false
	}
	return true
}

// VerifSessionDone returns the Done channel of the current session (nil when there is none).  The caller must not
// hold the lock.
func (m *LeaseManager) VerifSessionDone() <-chan struct{} {
	m.mu.RLock()
	defer m.mu.RUnlock()
	if m.session == nil {
		return nil
	}
	return m.session.Done()
}
