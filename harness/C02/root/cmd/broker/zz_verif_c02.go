//go:build verif

// C02/C03/C04 broker-level correspondence harness.  When VERIF_HARNESS=C02 the broker binary does not
// start a server: it drives the real handler.handleProduce / handleFetch (in-memory metadata store,
// in-memory S3) with the op lines on stdin and prints one canonical result line per op, in the format of
// lean/KafVerif/Model/PLogProto.lean (broker ops).
//
//	bnew <flushOnAck 0|1>
//	[@k] produce <acks> <hex record set>      k: 0 = orders/0, 1 = payments/0 (auto-created)
//	[@k] fetch <offset> <maxBytes>
//	brestart                                   new handler (new cache) over the same store and S3
package main

import (
	"bufio"
	"context"
	"encoding/hex"
	"fmt"
	"io"
	"log/slog"
	"os"
	"strconv"
	"strings"

	"github.com/twmb/franz-go/pkg/kmsg"

	"github.com/KafScale/platform/pkg/metadata"
	"github.com/KafScale/platform/pkg/protocol"
	"github.com/KafScale/platform/pkg/storage"
)

func init() {
	if os.Getenv("VERIF_HARNESS") != "C02" {
		return
	}
	verifC02Main()
	os.Exit(0)
}

func testLoggerVerifC02() *slog.Logger {
	return slog.New(slog.NewTextHandler(io.Discard, &slog.HandlerOptions{}))
}

type verifC02Part struct {
	topic string
	part  int32
}

var verifC02Parts = []verifC02Part{{"orders", 0}, {"payments", 0}}

type verifC02World struct {
	store metadata.Store
	s3    storage.S3Client
	h     *handler
	foa   bool
}

func (w *verifC02World) open() {
	info := protocol.MetadataBroker{NodeID: 1, Host: "localhost", Port: 19092}
	w.h = newHandler(w.store, w.s3, info, testLoggerVerifC02())
	w.h.flushOnAck = w.foa
	w.h.logConfig.ReadAheadSegments = 0 // prefetch goroutines only warm the cache; keep the path deterministic
	w.h.logConfig.Buffer = storage.WriteBufferConfig{MaxBytes: 1 << 30, FlushInterval: 0}
	for _, p := range verifC02Parts {
		if _, err := w.h.getPartitionLog(context.Background(), p.topic, p.part); err != nil {
			panic(err)
		}
	}
}

func (w *verifC02World) dump(k int) string {
	p := verifC02Parts[k]
	w.h.logMu.RLock()
	l := w.h.logs[p.topic][p.part]
	w.h.logMu.RUnlock()
	hw, _ := w.store.NextOffset(context.Background(), p.topic, p.part)
	if l == nil {
		return fmt.Sprintf("nolog hw=%d", hw)
	}
	st := l.VerifState()
	segs := make([]string, len(st.Segs))
	cached := []string{}
	for i, s := range st.Segs {
		es := make([]string, len(s.Entries))
		for j, e := range s.Entries {
			es[j] = fmt.Sprintf("%d@%d", e.Offset, e.Position)
		}
		segs[i] = fmt.Sprintf("%d:%d:%d[%s]", s.Base, s.Last, s.Size, strings.Join(es, ","))
		if l.VerifCached(s.Base) {
			cached = append(cached, strconv.FormatInt(s.Base, 10))
		}
	}
	bl := func(bs []storage.VerifBatch) string {
		if len(bs) == 0 {
			return "-"
		}
		xs := make([]string, len(bs))
		for i, b := range bs {
			xs[i] = fmt.Sprintf("%d:%d:%d:%d:%d", b.Base, b.LOD, b.Count, b.Len, b.Hdr)
		}
		return strings.Join(xs, ",")
	}
	sg, cs := strings.Join(segs, ";"), strings.Join(cached, ",")
	if sg == "" {
		sg = "-"
	}
	if cs == "" {
		cs = "-"
	}
	return fmt.Sprintf("n=%d hw=%d segs=%s buf=%s fl=%s c=%s", st.Next, hw, sg, bl(st.Buf), bl(st.Fl), cs)
}

func verifC02Decode[T kmsg.Response](version int16, payload []byte, resp T) bool {
	body, ok := protocol.SkipResponseHeader(resp.Key(), version, payload)
	if !ok {
		return false
	}
	resp.SetVersion(version)
	return resp.ReadFrom(body) == nil
}

func (w *verifC02World) op(f []string) (out string) {
	defer func() {
		if r := recover(); r != nil {
			out = "panic"
		}
	}()
	ctx := context.Background()
	k := 0
	if strings.HasPrefix(f[0], "@") {
		n, err := strconv.Atoi(f[0][1:])
		if err != nil || n < 0 || n >= len(verifC02Parts) || len(f) < 2 {
			return "bad-op"
		}
		k, f = n, f[1:]
	}
	if f[0] == "bnew" && len(f) == 2 {
		w.store = metadata.NewInMemoryStore(defaultMetadata())
		w.s3 = storage.NewMemoryS3Client()
		w.foa = f[1] == "1"
		w.open()
		return "bnew | " + w.dump(0)
	}
	if w.h == nil {
		return "bad-op"
	}
	p := verifC02Parts[k]
	switch {
	case f[0] == "produce" && len(f) == 3:
		acks, err := strconv.ParseInt(f[1], 10, 16)
		var data []byte
		if f[2] != "-" {
			var e2 error
			if data, e2 = hex.DecodeString(f[2]); e2 != nil {
				return "bad-op"
			}
		}
		if err != nil {
			return "bad-op"
		}
		req := &kmsg.ProduceRequest{Acks: int16(acks), TimeoutMillis: 1000, Topics: []kmsg.ProduceRequestTopic{{
			Topic: p.topic, Partitions: []kmsg.ProduceRequestTopicPartition{{Partition: p.part, Records: data}}}}}
		payload, err := w.h.handleProduce(ctx, &protocol.RequestHeader{CorrelationID: 7, APIVersion: 7}, req)
		if err != nil {
			return "handler-err | " + w.dump(k)
		}
		if payload == nil {
			return "noresp | " + w.dump(k)
		}
		resp := kmsg.NewPtrProduceResponse()
		if !verifC02Decode(7, payload, resp) || len(resp.Topics) != 1 || len(resp.Topics[0].Partitions) != 1 {
			return "bad-response | " + w.dump(k)
		}
		rp := resp.Topics[0].Partitions[0]
		if rp.ErrorCode != 0 {
			return fmt.Sprintf("rej %d | %s", rp.ErrorCode, w.dump(k))
		}
		return fmt.Sprintf("ok %d | %s", rp.BaseOffset, w.dump(k))
	case f[0] == "fetch" && len(f) == 3:
		off, e1 := strconv.ParseInt(f[1], 10, 64)
		max, e2 := strconv.ParseInt(f[2], 10, 32)
		if e1 != nil || e2 != nil {
			return "bad-op"
		}
		req := &kmsg.FetchRequest{MaxWaitMillis: 0, Topics: []kmsg.FetchRequestTopic{{
			Topic: p.topic, Partitions: []kmsg.FetchRequestTopicPartition{{Partition: p.part, FetchOffset: off, PartitionMaxBytes: int32(max)}}}}}
		payload, err := w.h.handleFetch(ctx, &protocol.RequestHeader{CorrelationID: 8, APIVersion: 11}, req)
		if err != nil {
			return "handler-err | " + w.dump(k)
		}
		resp := kmsg.NewPtrFetchResponse()
		if !verifC02Decode(11, payload, resp) || len(resp.Topics) != 1 || len(resp.Topics[0].Partitions) != 1 {
			return "bad-response | " + w.dump(k)
		}
		rp := resp.Topics[0].Partitions[0]
		if rp.ErrorCode != 0 {
			return fmt.Sprintf("err %d hw=%d | %s", rp.ErrorCode, rp.HighWatermark, w.dump(k))
		}
		hx := "-"
		if len(rp.RecordBatches) > 0 {
			hx = hex.EncodeToString(rp.RecordBatches)
		}
		return fmt.Sprintf("data %s hw=%d | %s", hx, rp.HighWatermark, w.dump(k))
	case f[0] == "brestart" && len(f) == 1:
		w.open()
		return "brestarted | " + w.dump(0)
	}
	return "bad-op"
}

func verifC02Main() {
	w := &verifC02World{}
	out := bufio.NewWriter(os.Stdout)
	defer out.Flush()
	sc := bufio.NewScanner(os.Stdin)
	sc.Buffer(make([]byte, 1<<20), 1<<26)
	for sc.Scan() {
		f := strings.Fields(sc.Text())
		if len(f) == 0 || strings.HasPrefix(f[0], "#") {
			continue
		}
		fmt.Fprintln(out, w.op(f))
		out.Flush()
	}
}
