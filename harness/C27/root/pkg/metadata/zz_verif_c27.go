//go:build verif

package metadata

import (
	"io"
	"log/slog"
)

// VerifNewPartitionRouter builds a PartitionRouter with a scripted routing table and no etcd
// client / watcher (C27 harness).  LookupOwner, Invalidate and AllRoutes are the real methods.
func VerifNewPartitionRouter(routes []PartitionRoute) *PartitionRouter {
	r := &PartitionRouter{
		logger: slog.New(slog.NewTextHandler(io.Discard, nil)),
		cancel: func() {},
		routes: make(map[string]string, len(routes)),
	}
	for _, rt := range routes {
		r.routes[partitionKey(rt.Topic, rt.Partition)] = rt.BrokerID
	}
	return r
}
