//go:build verif

// C27 correspondence harness (overlaid into cmd/proxy): a real proxy with a scripted
// PartitionRouter and scripted TCP backends.  Reads the op lines of lean/Driver/C27.lean, sends
// each produce / fetch through the real handleProduceRouting / handleFetchRouting, and prints the
// decoded client reply, what every backend received, and the routing table afterwards.
package main

import (
	"bufio"
	"context"
	"encoding/binary"
	"fmt"
	"io"
	"log/slog"
	"net"
	"os"
	"sort"
	"strconv"
	"strings"
	"sync"
	"time"

	"github.com/KafScale/platform/pkg/metadata"
	"github.com/KafScale/platform/pkg/protocol"
	"github.com/twmb/franz-go/pkg/kmsg"
)

func init() {
	if os.Getenv("VERIF_HARNESS") == "C27" {
		c27Main()
		os.Exit(0)
	}
}

const c27NB = 6

type c27TP struct{ t, p int }

type c27Sub struct {
	topics []int
	parts  map[int][]int
}

func (s *c27Sub) add(t, p int) {
	if s.parts == nil {
		s.parts = map[int][]int{}
	}
	if _, ok := s.parts[t]; !ok {
		s.topics = append(s.topics, t)
	}
	s.parts[t] = append(s.parts[t], p)
}
func (s *c27Sub) tps() []c27TP {
	var out []c27TP
	for _, t := range s.topics {
		for _, p := range s.parts[t] {
			out = append(out, c27TP{t, p})
		}
	}
	return out
}
func (s *c27Sub) String() string {
	var es []string
	for _, t := range s.topics {
		ps := make([]string, len(s.parts[t]))
		for i, p := range s.parts[t] {
			ps[i] = strconv.Itoa(p)
		}
		es = append(es, fmt.Sprintf("%d:%s", t, strings.Join(ps, "+")))
	}
	return strings.Join(es, ";")
}

type c27State struct {
	mu      sync.Mutex
	recv    map[c27TP]int
	codes   map[[3]int]int
	faults  map[[3]int]string
	log     []string
	anomaly []string
	// concurrent op: backends hold their replies until sub-requests of BOTH clients have arrived
	barrier  bool
	seen     [2]bool
	bothSeen chan struct{}
}

// c27Client: topics 0,1 belong to client 0, topics 2,3 to client 1 (concurrent op only).
func c27ClientOf(t int) int {
	if t >= 2 {
		return 1
	}
	return 0
}

func (s *c27State) arrive(t int) {
	s.mu.Lock()
	var wait chan struct{}
	if s.barrier {
		s.seen[c27ClientOf(t)] = true
		if s.seen[0] && s.seen[1] {
			select {
			case <-s.bothSeen:
			default:
				close(s.bothSeen)
			}
		} else {
			wait = s.bothSeen
		}
	}
	s.mu.Unlock()
	if wait != nil {
		select {
		case <-wait:
		case <-time.After(40 * time.Millisecond):
		}
	}
}

var c27 = &c27State{}

func c27TopicName(t int) string { return "t" + strconv.Itoa(t) }
func c27TopicID(t int) [16]byte {
	var id [16]byte
	id[0] = 0xC2
	binary.BigEndian.PutUint32(id[12:], uint32(t+1))
	return id
}
func c27TopicOfName(name string) int {
	n, err := strconv.Atoi(strings.TrimPrefix(name, "t"))
	if err != nil || !strings.HasPrefix(name, "t") {
		return -1
	}
	return n
}
func c27TopicOfID(id [16]byte) int {
	if id[0] != 0xC2 {
		return -1
	}
	return int(binary.BigEndian.Uint32(id[12:])) - 1
}
func c27Mark(t, p, k int) int64 { return int64(1000000*(k+1) + 1000*t + p) }

// c27Records is the record set the scripted backends put into a fetch reply entry for (topic, partition, k-th receipt):
// a reply entry that carries another partition's (or topic's) records is visible to the client side check below.
func c27Records(t, p, k int) []byte { return []byte(fmt.Sprintf("records-of-%d:%d#%d", t, p, k)) }

// c27CheckRecords notes an anomaly when a successful fetch reply entry does not carry the records of its own partition.
func c27CheckRecords(tn int, part int32, code int16, mark int64, recs []byte) {
	if code != 0 || mark < 1000000 {
		return
	}
	k := int(mark/1000000) - 1
	if want := c27Records(tn, int(part), k); string(recs) != string(want) {
		c27.note(fmt.Sprintf("records of %d:%d are %q", tn, part, recs))
	}
}

func c27Serve(idx int, ln net.Listener) {
	for {
		conn, err := ln.Accept()
		if err != nil {
			return
		}
		go c27Conn(idx, conn)
	}
}

func c27Conn(idx int, conn net.Conn) {
	defer conn.Close()
	for {
		frame, err := protocol.ReadFrame(conn)
		if err != nil {
			return
		}
		header, req, err := protocol.ParseRequest(frame.Payload)
		if err != nil {
			c27.note("backend could not parse a request: " + err.Error())
			return
		}
		sub := &c27Sub{}
		var isFetch, noReply bool
		switch r := req.(type) {
		case *kmsg.ProduceRequest:
			noReply = r.Acks == 0
			for _, t := range r.Topics {
				tn := c27TopicOfName(t.Topic)
				for _, p := range t.Partitions {
					sub.add(tn, int(p.Partition))
					if string(p.Records) != fmt.Sprintf("rec-%d-%d", tn, p.Partition) {
						c27.note(fmt.Sprintf("payload of %d:%d is %q", tn, p.Partition, p.Records))
					}
				}
			}
		case *kmsg.FetchRequest:
			isFetch = true
			for _, t := range r.Topics {
				tn := c27TopicOfName(t.Topic)
				if header.APIVersion >= 13 {
					tn = c27TopicOfID(t.TopicID)
				}
				for _, p := range t.Partitions {
					sub.add(tn, int(p.Partition))
					if p.FetchOffset != int64(100*tn)+int64(p.Partition) {
						c27.note(fmt.Sprintf("fetch offset of %d:%d is %d", tn, p.Partition, p.FetchOffset))
					}
				}
			}
		default:
			c27.note(fmt.Sprintf("backend got api key %d", header.APIKey))
			return
		}
		tps := sub.tps()
		c27.mu.Lock()
		k, fault := 0, ""
		if len(tps) == 0 {
			c27.anomaly = append(c27.anomaly, "empty sub-request")
		} else {
			k = c27.recv[tps[0]]
			for _, tp := range tps {
				if c27.recv[tp] != k {
					c27.anomaly = append(c27.anomaly, fmt.Sprintf("receipt counts differ inside %s", sub))
				}
				c27.recv[tp]++
			}
			fault = c27.faults[[3]int{tps[0].t, tps[0].p, k}]
		}
		c27.log = append(c27.log, fmt.Sprintf("b%d|%s", idx, sub))
		codes := c27.codes
		c27.mu.Unlock()
		if len(tps) > 0 {
			c27.arrive(tps[0].t)
		}
		if noReply {
			continue
		}
		switch fault {
		case "close":
			return
		case "short":
			_ = protocol.WriteFrame(conn, []byte{0, 1})
			return
		case "garbage":
			b := make([]byte, 4)
			binary.BigEndian.PutUint32(b, uint32(header.CorrelationID))
			b = append(b, 0x00, 0x7f, 0xff, 0xff, 0xff, 0x01, 0x02)
			_ = protocol.WriteFrame(conn, b)
			return
		}
		type ent struct {
			p    int
			code int16
			mark int64
		}
		var order []int
		ents := map[int][]ent{}
		for _, t := range sub.topics {
			order = append(order, t)
			for _, p := range sub.parts[t] {
				ents[t] = append(ents[t], ent{p, int16(codes[[3]int{t, p, k}]), c27Mark(t, p, k)})
			}
		}
		if len(order) > 0 {
			f := order[0]
			switch fault {
			case "omit":
				if len(ents[f]) > 0 {
					ents[f] = ents[f][1:]
				}
			case "dup":
				if len(ents[f]) > 0 {
					ents[f] = append([]ent{ents[f][0]}, ents[f]...)
				}
			case "extra":
				order = append(order, 9)
				ents[9] = append(ents[9], ent{9, 0, c27Mark(9, 9, k)})
			}
		}
		var resp kmsg.Response
		if isFetch {
			fr := kmsg.NewPtrFetchResponse()
			for _, t := range order {
				rt := kmsg.NewFetchResponseTopic()
				rt.Topic = c27TopicName(t)
				rt.TopicID = c27TopicID(t)
				for _, e := range ents[t] {
					rp := kmsg.NewFetchResponseTopicPartition()
					rp.Partition = int32(e.p)
					rp.ErrorCode = e.code
					rp.HighWatermark = e.mark
					rp.RecordBatches = c27Records(t, e.p, k)
					rt.Partitions = append(rt.Partitions, rp)
				}
				fr.Topics = append(fr.Topics, rt)
			}
			resp = fr
		} else {
			pr := kmsg.NewPtrProduceResponse()
			for _, t := range order {
				rt := kmsg.NewProduceResponseTopic()
				rt.Topic = c27TopicName(t)
				for _, e := range ents[t] {
					rp := kmsg.NewProduceResponseTopicPartition()
					rp.Partition = int32(e.p)
					rp.ErrorCode = e.code
					rp.BaseOffset = e.mark
					rt.Partitions = append(rt.Partitions, rp)
				}
				pr.Topics = append(pr.Topics, rt)
			}
			resp = pr
		}
		if err := protocol.WriteFrame(conn, protocol.EncodeResponse(header.CorrelationID, header.APIVersion, resp)); err != nil {
			return
		}
	}
}

func (s *c27State) note(msg string) {
	s.mu.Lock()
	s.anomaly = append(s.anomaly, msg)
	s.mu.Unlock()
}

func c27KV(ws []string, k string) string {
	for _, w := range ws {
		if strings.HasPrefix(w, k+"=") {
			return w[len(k)+1:]
		}
	}
	return "-"
}
func c27List(s, sep string) []string {
	if s == "-" || s == "" {
		return nil
	}
	return strings.Split(s, sep)
}
func c27Int(s string) int { n, _ := strconv.Atoi(s); return n }

func c27ParseReq(s string) *c27Sub {
	sub := &c27Sub{}
	for _, e := range c27List(s, ";") {
		f := strings.Split(e, ":")
		if len(f) != 2 {
			continue
		}
		t := c27Int(f[0])
		// a topic listed twice stays two request entries: keep entries, not a map
		for _, p := range c27List(f[1], "+") {
			sub.add(t, c27Int(p))
		}
	}
	return sub
}

// request entries in order (a topic may be listed twice)
func c27ParseEntries(s string) [][2]interface{} {
	var out [][2]interface{}
	for _, e := range c27List(s, ";") {
		f := strings.Split(e, ":")
		if len(f) != 2 {
			continue
		}
		var ps []int
		for _, p := range c27List(f[1], "+") {
			ps = append(ps, c27Int(p))
		}
		out = append(out, [2]interface{}{c27Int(f[0]), ps})
	}
	return out
}

func c27ParseScript(s string) map[[3]int]string {
	m := map[[3]int]string{}
	for _, e := range c27List(s, ",") {
		kv := strings.Split(e, "=")
		if len(kv) != 2 {
			continue
		}
		f := strings.Split(kv[0], ":")
		if len(f) != 3 {
			continue
		}
		m[[3]int{c27Int(f[0]), c27Int(f[1]), c27Int(f[2])}] = kv[1]
	}
	return m
}

func c27Encode(req kmsg.Request, corr int32) []byte {
	formatter := kmsg.NewRequestFormatter(kmsg.FormatterClientID("verif"))
	return formatter.AppendRequest(nil, req, corr)[4:]
}

// c27Send builds one produce / fetch request, sends it through the real routing path with the
// given per-client pool and returns the decoded reply entries (and checks the correlation id).
func c27Send(ctx context.Context, p *proxy, pool *connPool, kind string, v int16, entries [][2]interface{}, corr int32) string {
	var payload []byte
	if kind == "P" {
		req := kmsg.NewPtrProduceRequest()
		req.Version = v
		req.Acks = -1
		req.TimeoutMillis = 1000
		for _, e := range entries {
			rt := kmsg.NewProduceRequestTopic()
			rt.Topic = c27TopicName(e[0].(int))
			for _, pn := range e[1].([]int) {
				rp := kmsg.NewProduceRequestTopicPartition()
				rp.Partition = int32(pn)
				rp.Records = []byte(fmt.Sprintf("rec-%d-%d", e[0].(int), pn))
				rt.Partitions = append(rt.Partitions, rp)
			}
			req.Topics = append(req.Topics, rt)
		}
		payload = c27Encode(req, corr)
	} else {
		req := kmsg.NewPtrFetchRequest()
		req.Version = v
		req.MaxWaitMillis = 10
		req.MinBytes = 1
		req.MaxBytes = 1 << 20
		for _, e := range entries {
			rt := kmsg.NewFetchRequestTopic()
			rt.Topic = c27TopicName(e[0].(int))
			rt.TopicID = c27TopicID(e[0].(int))
			for _, pn := range e[1].([]int) {
				rp := kmsg.NewFetchRequestTopicPartition()
				rp.Partition = int32(pn)
				rp.FetchOffset = int64(100*e[0].(int)) + int64(pn)
				rp.PartitionMaxBytes = 1 << 20
				rt.Partitions = append(rt.Partitions, rp)
			}
			req.Topics = append(req.Topics, rt)
		}
		payload = c27Encode(req, corr)
	}
	header, _, err := protocol.ParseRequestHeader(payload)
	if err != nil {
		return "bad-op"
	}
	var respBytes []byte
	if kind == "P" {
		respBytes, err = p.handleProduceRouting(ctx, header, payload, pool)
	} else {
		respBytes, err = p.handleFetchRouting(ctx, header, payload, pool)
	}
	if err != nil {
		return "err"
	}
	if len(respBytes) < 4 || int32(binary.BigEndian.Uint32(respBytes)) != corr {
		c27.note(fmt.Sprintf("reply carries correlation id %x, request had %d", respBytes[:4], corr))
	}
	var es []string
	if kind == "P" {
		resp, err := parseProduceResponse(respBytes, v)
		if err != nil {
			return "undecodable"
		}
		for _, t := range resp.Topics {
			for _, pr := range t.Partitions {
				es = append(es, fmt.Sprintf("%d:%d=%d/%d", c27TopicOfName(t.Topic), pr.Partition, pr.ErrorCode, pr.BaseOffset))
			}
		}
	} else {
		resp, err := parseFetchResponse(respBytes, v)
		if err != nil {
			return "undecodable"
		}
		for _, t := range resp.Topics {
			tn := c27TopicOfName(t.Topic)
			if v >= 13 {
				tn = c27TopicOfID(t.TopicID)
			}
			for _, pr := range t.Partitions {
				c27CheckRecords(tn, pr.Partition, pr.ErrorCode, pr.HighWatermark, pr.RecordBatches)
				es = append(es, fmt.Sprintf("%d:%d=%d/%d", tn, pr.Partition, pr.ErrorCode, pr.HighWatermark))
			}
		}
	}
	if len(es) == 0 {
		return "-"
	}
	return strings.Join(es, ",")
}

func c27Main() {
	w := bufio.NewWriter(os.Stdout)
	defer w.Flush()
	live := make([]string, c27NB)
	dead := make([]string, c27NB)
	var deadLns []net.Listener
	for i := 0; i < c27NB; i++ {
		ln, err := net.Listen("tcp", "127.0.0.1:0")
		if err != nil {
			fmt.Fprintln(w, "listen-failed")
			return
		}
		live[i] = ln.Addr().String()
		go c27Serve(i, ln)
		dl, err := net.Listen("tcp", "127.0.0.1:0")
		if err != nil {
			fmt.Fprintln(w, "listen-failed")
			return
		}
		dead[i] = dl.Addr().String()
		deadLns = append(deadLns, dl)
	}
	for _, dl := range deadLns {
		dl.Close()
	}
	logger := slog.New(slog.NewTextHandler(io.Discard, nil))
	var p *proxy
	var pool *connPool
	unres := map[int]bool{}
	allDown := false
	corr := int32(100)
	ctx := context.Background()
	sc := bufio.NewScanner(os.Stdin)
	sc.Buffer(make([]byte, 1<<20), 1<<26)
	for sc.Scan() {
		f := strings.Fields(sc.Text())
		if len(f) == 0 || strings.HasPrefix(f[0], "#") {
			continue
		}
		out := func() (res string) {
			defer func() {
				if r := recover(); r != nil {
					res = fmt.Sprintf("panic %v", r)
				}
			}()
			switch f[0] {
			case "setup":
				if pool != nil {
					pool.Close()
				}
				down := map[int]bool{}
				d := c27KV(f, "down")
				allDown = d == "all"
				for i := 0; i < c27NB; i++ {
					down[i] = d == "all"
				}
				if d != "all" {
					for _, b := range c27List(d, ",") {
						down[c27Int(b)] = true
					}
				}
				addr := func(i int) string {
					if down[i] {
						return dead[i]
					}
					return live[i]
				}
				var routes []metadata.PartitionRoute
				for _, e := range c27List(c27KV(f, "route"), ",") {
					kv := strings.Split(e, "=")
					tp := strings.Split(kv[0], ":")
					routes = append(routes, metadata.PartitionRoute{Topic: c27TopicName(c27Int(tp[0])), Partition: int32(c27Int(tp[1])), BrokerID: kv[1]})
				}
				p = &proxy{
					logger:         logger,
					dialTimeout:    2 * time.Second,
					backendRetries: 1,
					backendBackoff: time.Millisecond,
					brokerAddrs:    make(map[string]string),
					topicNames:     make(map[[16]byte]string),
					router:         metadata.VerifNewPartitionRouter(routes),
				}
				if c27KV(f, "router") == "nil" {
					p.router = nil
				}
				for i := 0; i < c27NB; i++ {
					p.backends = append(p.backends, addr(i))
				}
				for _, b := range c27List(c27KV(f, "known"), ",") {
					if i := c27Int(b); i < c27NB {
						p.brokerAddrs[b] = addr(i)
					}
				}
				unres = map[int]bool{}
				for _, t := range c27List(c27KV(f, "unres"), ",") {
					unres[c27Int(t)] = true
				}
				for t := 0; t < 10; t++ {
					if !unres[t] {
						p.topicNames[c27TopicID(t)] = c27TopicName(t)
					}
				}
				p.setReady(true)
				pool = newConnPool(2 * time.Second)
				return "ok"
			case "C":
				// C <P|F ...> || <P|F ...> : two clients (own connection pools, as handleConnection gives
				// them) send at the same time through the same proxy; client 0 uses topics 0-1, client 1
				// topics 2-3; the backends hold their replies until both clients' sub-requests have arrived.
				if p == nil {
					return "bad-op"
				}
				var parts [][]string
				cur := []string{}
				for _, w := range f[1:] {
					if w == "||" {
						parts = append(parts, cur)
						cur = []string{}
					} else {
						cur = append(cur, w)
					}
				}
				parts = append(parts, cur)
				if len(parts) != 2 {
					return "bad-op"
				}
				c27.mu.Lock()
				c27.recv = map[c27TP]int{}
				c27.codes = map[[3]int]int{}
				c27.faults = map[[3]int]string{}
				for _, part := range parts {
					for k, val := range c27ParseScript(c27KV(part, "code")) {
						c27.codes[k] = c27Int(val)
					}
					for k, val := range c27ParseScript(c27KV(part, "fault")) {
						c27.faults[k] = val
					}
				}
				c27.log = nil
				c27.anomaly = nil
				c27.barrier = true
				c27.seen = [2]bool{}
				c27.bothSeen = make(chan struct{})
				c27.mu.Unlock()
				replies := make([]string, 2)
				var wg sync.WaitGroup
				for i, part := range parts {
					corr++
					wg.Add(1)
					go func(i int, part []string, corr int32) {
						defer wg.Done()
						defer func() {
							if r := recover(); r != nil {
								replies[i] = fmt.Sprintf("panic_%v", r)
							}
						}()
						cp := newConnPool(2 * time.Second)
						defer cp.Close()
						replies[i] = c27Send(ctx, p, cp, part[0], int16(c27Int(c27KV(part, "v"))), c27ParseEntries(c27KV(part, "req")), corr)
					}(i, part, corr)
				}
				wg.Wait()
				c27.mu.Lock()
				c27.barrier = false
				logAll := append([]string(nil), c27.log...)
				anomalies := append([]string(nil), c27.anomaly...)
				c27.mu.Unlock()
				route := "-"
				if p.router != nil {
					var rs []string
					for _, r := range p.router.AllRoutes() {
						rs = append(rs, fmt.Sprintf("%d:%d=%s", c27TopicOfName(r.Topic), r.Partition, r.BrokerID))
					}
					sort.Strings(rs)
					if len(rs) > 0 {
						route = strings.Join(rs, ",")
					}
				}
				var outs []string
				for i := range parts {
					var mine []string
					for _, l := range logAll {
						sub := l[strings.Index(l, "|")+1:]
						t := c27Int(strings.SplitN(sub, ":", 2)[0])
						if c27ClientOf(t) == i {
							mine = append(mine, l)
						}
					}
					recv := "-"
					if len(mine) > 0 {
						recv = strings.Join(mine, ",")
					}
					res := fmt.Sprintf("reply=%s recv=%s route=%s", replies[i], recv, route)
					if len(anomalies) > 0 {
						res += " anomaly=" + strings.ReplaceAll(strings.Join(anomalies, ";"), " ", "_")
					}
					outs = append(outs, res)
				}
				return strings.Join(outs, " || ")
			case "P", "F", "A":
				if p == nil {
					return "bad-op"
				}
				v := int16(c27Int(c27KV(f, "v")))
				entries := c27ParseEntries(c27KV(f, "req"))
				c27.mu.Lock()
				c27.recv = map[c27TP]int{}
				c27.codes = map[[3]int]int{}
				for k, val := range c27ParseScript(c27KV(f, "code")) {
					c27.codes[k] = c27Int(val)
				}
				c27.faults = c27ParseScript(c27KV(f, "fault"))
				c27.log = nil
				c27.anomaly = nil
				c27.mu.Unlock()
				corr++
				var reply string
				if f[0] == "P" || f[0] == "A" {
					req := kmsg.NewPtrProduceRequest()
					req.Version = v
					req.Acks = -1
					if f[0] == "A" {
						req.Acks = 0
					}
					req.TimeoutMillis = 1000
					for _, e := range entries {
						rt := kmsg.NewProduceRequestTopic()
						rt.Topic = c27TopicName(e[0].(int))
						for _, pn := range e[1].([]int) {
							rp := kmsg.NewProduceRequestTopicPartition()
							rp.Partition = int32(pn)
							rp.Records = []byte(fmt.Sprintf("rec-%d-%d", e[0].(int), pn))
							rt.Partitions = append(rt.Partitions, rp)
						}
						req.Topics = append(req.Topics, rt)
					}
					payload := c27Encode(req, corr)
					header, _, err := protocol.ParseRequestHeader(payload)
					if err != nil {
						return "bad-op"
					}
					respBytes, err := p.handleProduceRouting(ctx, header, payload, pool)
					if err != nil {
						return "err"
					}
					if f[0] == "A" {
						// acks=0: no reply; wait until the backends have logged every partition written
						if respBytes != nil {
							return "unexpected-reply"
						}
						want := 0
						for _, e := range entries {
							want += len(e[1].([]int))
						}
						if allDown {
							want = 0
						}
						deadline := time.Now().Add(1500 * time.Millisecond)
						if want == 0 {
							deadline = time.Now().Add(30 * time.Millisecond)
						}
						for time.Now().Before(deadline) {
							c27.mu.Lock()
							got := 0
							for _, n := range c27.recv {
								got += n
							}
							c27.mu.Unlock()
							if want > 0 && got >= want {
								break
							}
							time.Sleep(time.Millisecond)
						}
						respBytes = nil
					}
					if f[0] == "A" {
						reply = "none"
					} else {
						resp, err := parseProduceResponse(respBytes, v)
						if err != nil {
							return "undecodable"
						}
						var es []string
						for _, t := range resp.Topics {
							for _, pr := range t.Partitions {
								es = append(es, fmt.Sprintf("%d:%d=%d/%d", c27TopicOfName(t.Topic), pr.Partition, pr.ErrorCode, pr.BaseOffset))
							}
						}
						reply = strings.Join(es, ",")
					}
				} else {
					req := kmsg.NewPtrFetchRequest()
					req.Version = v
					req.MaxWaitMillis = 10
					req.MinBytes = 1
					req.MaxBytes = 1 << 20
					for _, e := range entries {
						rt := kmsg.NewFetchRequestTopic()
						rt.Topic = c27TopicName(e[0].(int))
						rt.TopicID = c27TopicID(e[0].(int))
						for _, pn := range e[1].([]int) {
							rp := kmsg.NewFetchRequestTopicPartition()
							rp.Partition = int32(pn)
							rp.FetchOffset = int64(100*e[0].(int)) + int64(pn)
							rp.PartitionMaxBytes = 1 << 20
							rt.Partitions = append(rt.Partitions, rp)
						}
						req.Topics = append(req.Topics, rt)
					}
					payload := c27Encode(req, corr)
					header, _, err := protocol.ParseRequestHeader(payload)
					if err != nil {
						return "bad-op"
					}
					respBytes, err := p.handleFetchRouting(ctx, header, payload, pool)
					if err != nil {
						return "err"
					}
					resp, err := parseFetchResponse(respBytes, v)
					if err != nil {
						return "undecodable"
					}
					var es []string
					for _, t := range resp.Topics {
						tn := c27TopicOfName(t.Topic)
						if v >= 13 {
							tn = c27TopicOfID(t.TopicID)
						}
						for _, pr := range t.Partitions {
							c27CheckRecords(tn, pr.Partition, pr.ErrorCode, pr.HighWatermark, pr.RecordBatches)
							es = append(es, fmt.Sprintf("%d:%d=%d/%d", tn, pr.Partition, pr.ErrorCode, pr.HighWatermark))
						}
					}
					reply = strings.Join(es, ",")
				}
				if reply == "" {
					reply = "-"
				}
				c27.mu.Lock()
				recv := strings.Join(c27.log, ",")
				anomalies := append([]string(nil), c27.anomaly...)
				c27.mu.Unlock()
				if recv == "" {
					recv = "-"
				}
				route := "-"
				if p.router != nil {
					var rs []string
					for _, r := range p.router.AllRoutes() {
						rs = append(rs, fmt.Sprintf("%d:%d=%s", c27TopicOfName(r.Topic), r.Partition, r.BrokerID))
					}
					sort.Strings(rs)
					if len(rs) > 0 {
						route = strings.Join(rs, ",")
					}
				}
				res := fmt.Sprintf("reply=%s recv=%s route=%s", reply, recv, route)
				if len(anomalies) > 0 {
					res += " anomaly=" + strings.ReplaceAll(strings.Join(anomalies, ";"), " ", "_")
				}
				return res
			}
			return "bad-op"
		}()
		fmt.Fprintln(w, out)
		w.Flush()
	}
}
