//go:build verif

// C30 correspondence harness, third reader: the iceberg processor's resolveLfsRecords.
// One line = one scenario: ONE Processor with several mappings (each its own config.LfsConfig) over ONE
// shared scripted lfs.S3Reader, then a sequence of resolveLfsRecords calls for segments of the mappings
// in the generated order, all on the same Processor (anything the Processor keeps between calls shows).
// Same line format in / out as lean/Driver/C30.lean (`ice …`).
package processor

import (
	"bufio"
	"bytes"
	"context"
	"encoding/hex"
	"encoding/json"
	"errors"
	"fmt"
	"io"
	"log"
	"strconv"
	"strings"
	"sync"

	"github.com/KafScale/platform/addons/processors/iceberg-processor/internal/config"
	"github.com/KafScale/platform/addons/processors/iceberg-processor/internal/sink"
	"github.com/KafScale/platform/pkg/lfs"
)

type c30Object struct {
	blob []byte
	fail bool
}

// c30Store is the Processor's lfsS3: key -> scripted object; unknown key and scripted failure are fetch errors.
type c30Store struct {
	mu      sync.Mutex
	objects map[string]c30Object
}

func (s *c30Store) Fetch(ctx context.Context, key string) ([]byte, error) {
	s.mu.Lock()
	defer s.mu.Unlock()
	o, ok := s.objects[key]
	if !ok || o.fail {
		return nil, errors.New("verif: fetch failed")
	}
	return append([]byte(nil), o.blob...), nil
}

func (s *c30Store) Stream(ctx context.Context, key string) (io.ReadCloser, int64, error) {
	return nil, 0, errors.New("not used")
}

func c30Unhex(s string) []byte {
	if s == "-" {
		return nil
	}
	b, err := hex.DecodeString(s)
	if err != nil {
		panic("bad hex " + s)
	}
	return b
}

func c30Hex(b []byte) string {
	if len(b) == 0 {
		return "-"
	}
	return hex.EncodeToString(b)
}

// c30Split cuts f at every token equal to sep (separators dropped).
func c30Split(f []string, sep string) [][]string {
	out := [][]string{nil}
	for _, x := range f {
		if x == sep {
			out = append(out, nil)
			continue
		}
		out[len(out)-1] = append(out[len(out)-1], x)
	}
	return out
}

func c30Value(f []string) []byte {
	if f[0] == "raw" {
		return c30Unhex(f[1])
	}
	ver, _ := strconv.Atoi(f[1])
	size, _ := strconv.ParseInt(f[7], 10, 64)
	env := lfs.Envelope{Version: ver, Bucket: string(c30Unhex(f[2])), Key: string(c30Unhex(f[3])),
		SHA256: string(c30Unhex(f[4])), Checksum: string(c30Unhex(f[5])), ChecksumAlg: string(c30Unhex(f[6])), Size: size}
	b, err := json.Marshal(env)
	if err != nil {
		panic(err)
	}
	return b
}

func c30Call(p *Processor, f []string) (out string) {
	defer func() {
		if r := recover(); r != nil {
			out = fmt.Sprintf("panic:%v", strings.ReplaceAll(fmt.Sprint(r), " ", "_"))
		}
	}()
	parts := c30Split(f, "R")
	m, _ := strconv.Atoi(parts[0][0])
	topic := fmt.Sprintf("topic-%d", m)
	var records []sink.Record
	var inputs [][]byte
	for i, r := range parts[1:] {
		v := c30Value(r)
		inputs = append(inputs, v)
		records = append(records, sink.Record{Topic: topic, Partition: 0, Offset: int64(i), Value: append([]byte(nil), v...)})
	}
	// the call site in Processor.Run
	mapping, ok := p.mappingByTopic[topic]
	if ok {
		resolved, err := p.resolveLfsRecords(context.Background(), records, mapping.Lfs, topic)
		if err != nil {
			return "err"
		}
		records = resolved
	}
	toks := []string{"ok"}
	for _, r := range records {
		i := int(r.Offset)
		if i < 0 || i >= len(inputs) {
			toks = append(toks, fmt.Sprintf("%d:unknown-record", i))
			continue
		}
		if bytes.Equal(r.Value, inputs[i]) {
			toks = append(toks, fmt.Sprintf("%d:k", i))
		} else {
			toks = append(toks, fmt.Sprintf("%d:b=%s", i, c30Hex(r.Value)))
		}
	}
	return strings.Join(toks, " ")
}

func c30Scenario(f []string) (out string) {
	defer func() {
		if r := recover(); r != nil {
			out = fmt.Sprintf("panic %v", r)
		}
	}()
	for i, x := range f { // drop the hash table (model side only)
		if x == "|" {
			f = f[:i]
			break
		}
	}
	if f[0] != "ice" {
		return "bad-op"
	}
	sections := c30Split(f[1:], "C")
	head := c30Split(sections[0], "K")
	mhead := c30Split(head[0], "M")
	store := &c30Store{objects: map[string]c30Object{}}
	for _, k := range head[1:] {
		store.objects[string(c30Unhex(k[0]))] = c30Object{blob: c30Unhex(k[2]), fail: k[1] != "ok"}
	}
	p := &Processor{mappingByTopic: map[string]config.Mapping{}}
	if mhead[0][0] != "nil" {
		p.lfsS3 = store
	}
	for i, mf := range mhead[1:] {
		max, _ := strconv.ParseInt(mf[1], 10, 64)
		conc, _ := strconv.Atoi(mf[4])
		lc := config.LfsConfig{Mode: mf[0], MaxInlineSize: max, StoreMetadata: mf[2] == "1", ResolveConcurrency: conc}
		switch mf[3] {
		case "1":
			v := true
			lc.ValidateChecksum = &v
		case "0":
			v := false
			lc.ValidateChecksum = &v
		}
		topic := fmt.Sprintf("topic-%d", i)
		mp := config.Mapping{Topic: topic, Table: "db.t" + strconv.Itoa(i), Mode: "append", Lfs: lc}
		p.cfg.Mappings = append(p.cfg.Mappings, mp)
		p.mappingByTopic[topic] = mp
	}
	var outs []string
	for _, c := range sections[1:] {
		outs = append(outs, c30Call(p, c))
	}
	return "ice " + strings.Join(outs, " ; ")
}

// VerifC30Run answers one line per scenario line.
func VerifC30Run(in io.Reader, out io.Writer) error {
	log.SetOutput(io.Discard)
	w := bufio.NewWriter(out)
	defer w.Flush()
	sc := bufio.NewScanner(in)
	sc.Buffer(make([]byte, 1<<20), 1<<26)
	for sc.Scan() {
		f := strings.Fields(sc.Text())
		if len(f) == 0 || strings.HasPrefix(f[0], "#") {
			continue
		}
		fmt.Fprintln(w, c30Scenario(f))
		w.Flush()
	}
	return sc.Err()
}
