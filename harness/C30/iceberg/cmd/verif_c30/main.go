//go:build verif

// C30 harness for the iceberg processor's LFS resolve stage: scenarios on stdin, one result line each on stdout.
package main

import (
	"fmt"
	"os"

	"github.com/KafScale/platform/addons/processors/iceberg-processor/internal/processor"
)

func main() {
	if err := processor.VerifC30Run(os.Stdin, os.Stdout); err != nil {
		fmt.Fprintln(os.Stderr, err)
		os.Exit(2)
	}
}
