//go:build verif

// C30 correspondence harness (overlay into cmd/proxy, active only when VERIF_HARNESS=C30):
// drives the real lfs.Resolver, lfs.Consumer and the proxy's handleHTTPDownload with scripted
// storage behaviour; one canonical result line per op (same format as lean/Driver/C30.lean).
package main

import (
	"bufio"
	"bytes"
	"context"
	"encoding/hex"
	"encoding/json"
	"errors"
	"fmt"
	"io"
	"net/http"
	"net/http/httptest"
	"os"
	"strconv"
	"strings"
	"sync"
	"time"

	"github.com/KafScale/platform/pkg/lfs"
)

// verifC30Concurrent runs n stream downloads through the real handler so that their verification
// and streaming phases overlap: download i is started once download i-1 has buffered its whole
// object and is parked inside the S3 fake right before EOF; then the EOFs are released in the
// scheduled order, each handler running to completion before the next release.
// f = <n> <release order, e.g. 1,0,2> then per download: <rid> <sha> <size> <obj>
func verifC30Concurrent(f []string) string {
	n, _ := strconv.Atoi(f[0])
	var order []int
	for _, x := range strings.Split(f[1], ",") {
		k, _ := strconv.Atoi(x)
		order = append(order, k)
	}
	fs3 := verifC3xNewS3()
	m := verifC3xModule(fs3, 0, "sha256", nil)
	type dl struct {
		key     string
		reached chan struct{}
		release chan struct{}
		done    chan struct{}
		rr      *httptest.ResponseRecorder
	}
	dls := make([]*dl, n)
	var mu sync.Mutex
	byKey := map[string]*dl{}
	fs3.onEOF = func(key string) {
		mu.Lock()
		d := byKey[key]
		mu.Unlock()
		if d == nil {
			return
		}
		close(d.reached)
		select {
		case <-d.release:
		case <-time.After(20 * time.Second):
		}
	}
	for i := 0; i < n; i++ {
		g := f[2+4*i : 6+4*i]
		d := &dl{key: fmt.Sprintf("ns/topic/lfs/2026/01/01/obj-verif-%d", i), reached: make(chan struct{}), release: make(chan struct{}),
			done: make(chan struct{}), rr: httptest.NewRecorder()}
		dls[i] = d
		mu.Lock()
		byKey[d.key] = d
		mu.Unlock()
		fs3.mu.Lock()
		fs3.objects[d.key] = verifC30Unhex(g[3])
		fs3.mu.Unlock()
		size, _ := strconv.ParseInt(g[2], 10, 64)
		body, _ := json.Marshal(lfsDownloadRequest{Bucket: "verif-bucket", Key: d.key, Mode: "stream",
			Integrity: &lfsIntegrityRequest{SHA256: string(verifC30Unhex(g[1])), Size: size}})
		hr := httptest.NewRequest(http.MethodPost, "/lfs/download", bytes.NewReader(body))
		if rid := string(verifC30Unhex(g[0])); rid != "" {
			hr.Header.Set(lfsHeaderRequestID, rid)
		}
		go func() {
			defer close(d.done)
			defer func() { _ = recover() }()
			m.handleHTTPDownload(d.rr, hr)
		}()
		select { // parked before EOF (object fully buffered) or already finished (refused early / over-long object)
		case <-d.reached:
		case <-d.done:
		case <-time.After(20 * time.Second):
		}
	}
	for _, k := range order {
		if k < 0 || k >= n {
			continue
		}
		close(dls[k].release)
		select {
		case <-dls[k].done:
		case <-time.After(20 * time.Second):
		}
	}
	outs := make([]string, n)
	for i, d := range dls {
		select {
		case <-d.done:
		default:
			outs[i] = "hung"
			continue
		}
		if d.rr.Code != http.StatusOK {
			outs[i] = fmt.Sprintf("status:%d", d.rr.Code)
		} else {
			outs[i] = "bytes:" + verifC30Hex(d.rr.Body.Bytes())
		}
	}
	return "cdl " + strings.Join(outs, " ")
}

func init() {
	if os.Getenv("VERIF_HARNESS") != "C30" {
		return
	}
	verifC30Main()
	os.Exit(0)
}

type verifC30Reader struct {
	payload []byte
	fail    bool
}

func (r *verifC30Reader) Fetch(ctx context.Context, key string) ([]byte, error) {
	if r.fail {
		return nil, errors.New("verif: fetch failed")
	}
	return append([]byte(nil), r.payload...), nil
}

func (r *verifC30Reader) Stream(ctx context.Context, key string) (io.ReadCloser, int64, error) {
	return nil, 0, errors.New("not used")
}

func verifC30Unhex(s string) []byte {
	if s == "-" {
		return nil
	}
	b, err := hex.DecodeString(s)
	if err != nil {
		panic("bad hex")
	}
	return b
}

func verifC30Hex(b []byte) string {
	if len(b) == 0 {
		return "-"
	}
	return hex.EncodeToString(b)
}

// value builds the record value from the `env …` / `raw …` tail of an op.
func verifC30Value(f []string) []byte {
	if f[0] == "raw" {
		return verifC30Unhex(f[1])
	}
	ver, _ := strconv.Atoi(f[1])
	env := lfs.Envelope{Version: ver, Bucket: string(verifC30Unhex(f[2])), Key: string(verifC30Unhex(f[3])),
		SHA256: string(verifC30Unhex(f[4])), Checksum: string(verifC30Unhex(f[5])), ChecksumAlg: string(verifC30Unhex(f[6])), Size: 1}
	b, err := json.Marshal(env)
	if err != nil {
		panic(err)
	}
	return b
}

func verifC30Line(f []string) (out string) {
	defer func() {
		if r := recover(); r != nil {
			out = fmt.Sprintf("panic %v", r)
		}
	}()
	for i, x := range f { // drop the hash table (model side only)
		if x == "|" {
			f = f[:i]
			break
		}
	}
	switch f[0] {
	case "cdl":
		return verifC30Concurrent(f[1:])
	case "resolve":
		max, _ := strconv.ParseInt(f[1], 10, 64)
		var rd lfs.S3Reader
		if f[3] != "nil" {
			rd = &verifC30Reader{payload: verifC30Unhex(f[4]), fail: f[3] == "err"}
		}
		r := lfs.NewResolver(lfs.ResolverConfig{MaxSize: max, ValidateChecksum: f[2] == "1"}, rd)
		value := verifC30Value(f[5:])
		rec, isEnv, err := r.Resolve(context.Background(), value)
		if err != nil {
			return "err"
		}
		if !isEnv {
			return "passthrough " + verifC30Hex(rec.Payload)
		}
		return fmt.Sprintf("ok blob=%s alg=%s exp=%s", verifC30Hex(rec.Payload), rec.ChecksumAlg, verifC30Hex([]byte(rec.Checksum)))
	case "unwrap":
		rd := &verifC30Reader{payload: verifC30Unhex(f[3]), fail: f[2] == "err"}
		c := lfs.NewConsumer(rd, lfs.WithChecksumValidation(f[1] == "1"))
		value := verifC30Value(f[4:])
		env, blob, err := c.Unwrap(context.Background(), value)
		if err != nil {
			return "err"
		}
		if env == nil {
			return "passthrough " + verifC30Hex(blob)
		}
		return "ok blob=" + verifC30Hex(blob)
	case "download":
		fs3 := verifC3xNewS3()
		maxBlob, _ := strconv.ParseInt(f[2], 10, 64)
		m := verifC3xModule(fs3, maxBlob, "sha256", nil)
		m.presignEnabled = f[1] == "1"
		key := "ns/topic/lfs/2026/01/01/obj-verif"
		switch f[8] {
		case "missing":
			fs3.getMissing = true
		case "body", "bodyerr":
			fs3.objects[key] = verifC30Unhex(f[9])
			fs3.getReadErr = f[8] == "bodyerr"
		}
		req := lfsDownloadRequest{Bucket: "verif-bucket", Key: key, Mode: string(verifC30Unhex(f[3]))}
		if f[4] == "some" {
			size, _ := strconv.ParseInt(f[7], 10, 64)
			req.Integrity = &lfsIntegrityRequest{SHA256: string(verifC30Unhex(f[5])), ChecksumAlg: string(verifC30Unhex(f[6])), Size: size}
		}
		body, _ := json.Marshal(req)
		hr := httptest.NewRequest(http.MethodPost, "/lfs/download", bytes.NewReader(body))
		if len(f) > 10 && strings.HasPrefix(f[10], "rid=") {
			hr.Header.Set(lfsHeaderRequestID, string(verifC30Unhex(f[10][4:])))
		}
		rr := httptest.NewRecorder()
		m.handleHTTPDownload(rr, hr)
		if rr.Code != http.StatusOK {
			return fmt.Sprintf("status %d", rr.Code)
		}
		if strings.HasPrefix(rr.Header().Get("Content-Type"), "application/json") {
			var resp lfsDownloadResponse
			if err := json.Unmarshal(rr.Body.Bytes(), &resp); err == nil && resp.Mode == "presign" && resp.Integrity != nil {
				return fmt.Sprintf("presigned sha=%s size=%d", verifC30Hex([]byte(resp.Integrity.SHA256)), resp.Integrity.Size)
			}
		}
		return "bytes " + verifC30Hex(rr.Body.Bytes())
	}
	return "bad-op"
}

func verifC30Main() {
	w := bufio.NewWriter(os.Stdout)
	defer w.Flush()
	sc := bufio.NewScanner(os.Stdin)
	sc.Buffer(make([]byte, 1<<20), 1<<26)
	for sc.Scan() {
		f := strings.Fields(sc.Text())
		if len(f) == 0 || strings.HasPrefix(f[0], "#") {
			continue
		}
		fmt.Fprintln(w, verifC30Line(f))
		w.Flush()
	}
}
