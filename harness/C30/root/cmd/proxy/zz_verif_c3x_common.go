//go:build verif

// Shared by the C30, C31 and C32 harnesses (overlay into cmd/proxy): an in-memory S3 that
// implements the proxy's s3API seam with real multipart semantics, and a constructor for an
// lfsModule wired to it.  Nothing here replaces repo code.
package main

import (
	"bytes"
	"context"
	"crypto/md5"
	"encoding/hex"
	"errors"
	"fmt"
	"io"
	"log/slog"
	"sort"
	"sync"
	"sync/atomic"
	"time"

	"github.com/aws/aws-sdk-go-v2/aws"
	v4 "github.com/aws/aws-sdk-go-v2/aws/signer/v4"
	"github.com/aws/aws-sdk-go-v2/service/s3"
)

type verifC3xUpload struct {
	key   string
	parts map[int32][]byte
	etags map[int32]string
}

// verifC3xS3 is the ghost S3: objects, in-flight multipart uploads, scripted failures.
type verifC3xS3 struct {
	mu          sync.Mutex
	objects     map[string][]byte
	uploads     map[string]*verifC3xUpload
	seq         int
	failPut     bool
	failPutAt   int // index (0-based, counted over successful object creations) of the PutObject that fails; -1 = none
	failCreate  bool
	failPart    int32 // part number whose upload fails (0 = none)
	failComplet bool
	failDelete  bool
	getMissing  bool   // GetObject returns an error
	getOverride []byte // if non-nil GetObject serves these bytes whatever the key
	getReadErr  bool   // the body ends with a read error instead of EOF
	putKeys     []string
	deleted     []string
	onEOF       func(key string) // called (outside the lock) by a GetObject body right before it reports EOF: a schedule gate
	script      []*verifC3xFault // scripted outcomes for any op (see outcome); a request context may carry its own script
	gate        func(op string, part int32) // schedule gate: called (outside the lock) by every op once the request body was read and the scripted outcome is known, before the op takes effect
	partCalls   int // UploadPart calls that reached the store step (diagnostics)
}

// verifC3xFault scripts the outcome of S3 calls: op = PutObject | CreateMultipartUpload | UploadPart |
// CompleteMultipartUpload | AbortMultipartUpload | DeleteObject | GetObject; part = part number (UploadPart; 0 = any);
// once = only the first matching call fails (a transient fault); before = the call fails BEFORE the request body is
// read ("fail-before-read": connection refused, DNS, request never sent), otherwise AFTER S3 consumed the body
// ("fail-after-read": 500 InternalError, response timeout, reset mid-transfer) — what real S3 clients see most often.
type verifC3xFault struct {
	op     string
	part   int32
	once   bool
	before bool
	used   bool
}

type verifC3xCtxKey struct{}

// verifC3xWithScript attaches a request-scoped fault script to a context (the proxy passes r.Context() down to the S3 seam).
func verifC3xWithScript(ctx context.Context, script []*verifC3xFault) context.Context {
	return context.WithValue(ctx, verifC3xCtxKey{}, script)
}

// outcome returns the scripted fault for this call (nil = the call proceeds normally) and consumes a `once` entry.
func (f *verifC3xS3) outcome(ctx context.Context, op string, part int32) *verifC3xFault {
	f.mu.Lock()
	defer f.mu.Unlock()
	lists := [][]*verifC3xFault{f.script}
	if cs, ok := ctx.Value(verifC3xCtxKey{}).([]*verifC3xFault); ok {
		lists = append(lists, cs)
	}
	for _, l := range lists {
		for _, e := range l {
			if e.op != op || (e.part != 0 && e.part != part) || (e.once && e.used) {
				continue
			}
			e.used = true
			return e
		}
	}
	return nil
}

func (f *verifC3xS3) enter(op string, part int32) {
	if g := f.gate; g != nil {
		g(op, part)
	}
}

func verifC3xFaultErr(op string, flt *verifC3xFault) error {
	when := "after-read"
	if flt.before {
		when = "before-read"
	}
	return fmt.Errorf("verif: %s scripted failure (fail-%s)", op, when)
}

// verifC3xGateReader delivers the data, then calls hook once before reporting EOF.
type verifC3xGateReader struct {
	r    io.Reader
	hook func()
	done bool
}

func (g *verifC3xGateReader) Read(p []byte) (int, error) {
	n, err := g.r.Read(p)
	if err == io.EOF && !g.done {
		if n > 0 {
			return n, nil // hand the last bytes over first; EOF (after the gate) on the next call
		}
		g.done = true
		g.hook()
	}
	return n, err
}

func verifC3xNewS3() *verifC3xS3 {
	return &verifC3xS3{objects: map[string][]byte{}, uploads: map[string]*verifC3xUpload{}, failPutAt: -1}
}

type verifC3xErrReader struct {
	r   io.Reader
	err error
}

func (e *verifC3xErrReader) Read(p []byte) (int, error) {
	n, err := e.r.Read(p)
	if err == io.EOF {
		return n, e.err
	}
	return n, err
}

func (f *verifC3xS3) CreateMultipartUpload(ctx context.Context, in *s3.CreateMultipartUploadInput, _ ...func(*s3.Options)) (*s3.CreateMultipartUploadOutput, error) {
	if flt := f.outcome(ctx, "CreateMultipartUpload", 0); flt != nil {
		return nil, verifC3xFaultErr("CreateMultipartUpload", flt)
	}
	f.enter("CreateMultipartUpload", 0)
	f.mu.Lock()
	defer f.mu.Unlock()
	if f.failCreate {
		return nil, errors.New("verif: create multipart failed")
	}
	f.seq++
	id := fmt.Sprintf("mpu-%d", f.seq)
	f.uploads[id] = &verifC3xUpload{key: aws.ToString(in.Key), parts: map[int32][]byte{}, etags: map[int32]string{}}
	return &s3.CreateMultipartUploadOutput{UploadId: aws.String(id)}, nil
}

func (f *verifC3xS3) UploadPart(ctx context.Context, in *s3.UploadPartInput, _ ...func(*s3.Options)) (*s3.UploadPartOutput, error) {
	flt := f.outcome(ctx, "UploadPart", aws.ToInt32(in.PartNumber))
	if flt != nil && flt.before {
		return nil, verifC3xFaultErr("UploadPart", flt)
	}
	// like a real S3 client: the request body is consumed whatever the outcome of the call
	body, err := io.ReadAll(in.Body)
	if err != nil {
		return nil, err
	}
	f.enter("UploadPart", aws.ToInt32(in.PartNumber))
	if flt != nil {
		return nil, verifC3xFaultErr("UploadPart", flt)
	}
	f.mu.Lock()
	defer f.mu.Unlock()
	f.partCalls++
	up, ok := f.uploads[aws.ToString(in.UploadId)]
	if !ok || up.key != aws.ToString(in.Key) {
		return nil, errors.New("verif: NoSuchUpload")
	}
	pn := aws.ToInt32(in.PartNumber)
	if f.failPart != 0 && f.failPart == pn {
		return nil, errors.New("verif: upload part failed")
	}
	sum := md5.Sum(body)
	etag := "\"" + hex.EncodeToString(sum[:]) + fmt.Sprintf("-%d", pn) + "\""
	up.parts[pn] = body
	up.etags[pn] = etag
	return &s3.UploadPartOutput{ETag: aws.String(etag)}, nil
}

// CompleteMultipartUpload follows S3: the listed parts must exist with the given ETag and be in
// strictly ascending part-number order; the object is the concatenation of the LISTED parts.
func (f *verifC3xS3) CompleteMultipartUpload(ctx context.Context, in *s3.CompleteMultipartUploadInput, _ ...func(*s3.Options)) (*s3.CompleteMultipartUploadOutput, error) {
	flt := f.outcome(ctx, "CompleteMultipartUpload", 0)
	f.enter("CompleteMultipartUpload", 0)
	if flt != nil {
		return nil, verifC3xFaultErr("CompleteMultipartUpload", flt)
	}
	f.mu.Lock()
	defer f.mu.Unlock()
	if f.failComplet {
		return nil, errors.New("verif: complete failed")
	}
	up, ok := f.uploads[aws.ToString(in.UploadId)]
	if !ok || up.key != aws.ToString(in.Key) {
		return nil, errors.New("verif: NoSuchUpload")
	}
	if in.MultipartUpload == nil || len(in.MultipartUpload.Parts) == 0 {
		return nil, errors.New("verif: MalformedXML (no parts)")
	}
	var obj []byte
	last := int32(0)
	for _, p := range in.MultipartUpload.Parts {
		pn := aws.ToInt32(p.PartNumber)
		if pn <= last {
			return nil, errors.New("verif: InvalidPartOrder")
		}
		last = pn
		data, ok := up.parts[pn]
		if !ok || up.etags[pn] != aws.ToString(p.ETag) {
			return nil, errors.New("verif: InvalidPart")
		}
		obj = append(obj, data...)
	}
	f.objects[up.key] = obj
	f.putKeys = append(f.putKeys, up.key)
	delete(f.uploads, aws.ToString(in.UploadId))
	return &s3.CompleteMultipartUploadOutput{}, nil
}

func (f *verifC3xS3) AbortMultipartUpload(ctx context.Context, in *s3.AbortMultipartUploadInput, _ ...func(*s3.Options)) (*s3.AbortMultipartUploadOutput, error) {
	flt := f.outcome(ctx, "AbortMultipartUpload", 0)
	f.enter("AbortMultipartUpload", 0)
	if flt != nil {
		return nil, verifC3xFaultErr("AbortMultipartUpload", flt)
	}
	f.mu.Lock()
	defer f.mu.Unlock()
	delete(f.uploads, aws.ToString(in.UploadId))
	return &s3.AbortMultipartUploadOutput{}, nil
}

func (f *verifC3xS3) PutObject(ctx context.Context, in *s3.PutObjectInput, _ ...func(*s3.Options)) (*s3.PutObjectOutput, error) {
	flt := f.outcome(ctx, "PutObject", 0)
	if flt != nil && flt.before {
		return nil, verifC3xFaultErr("PutObject", flt)
	}
	body, err := io.ReadAll(in.Body)
	if err != nil {
		return nil, err
	}
	f.enter("PutObject", 0)
	if flt != nil {
		return nil, verifC3xFaultErr("PutObject", flt)
	}
	f.mu.Lock()
	defer f.mu.Unlock()
	if f.failPut || (f.failPutAt >= 0 && f.failPutAt == len(f.putKeys)) {
		return nil, errors.New("verif: put failed")
	}
	f.objects[aws.ToString(in.Key)] = body
	f.putKeys = append(f.putKeys, aws.ToString(in.Key))
	return &s3.PutObjectOutput{}, nil
}

func (f *verifC3xS3) GetObject(ctx context.Context, in *s3.GetObjectInput, _ ...func(*s3.Options)) (*s3.GetObjectOutput, error) {
	if flt := f.outcome(ctx, "GetObject", 0); flt != nil {
		return nil, verifC3xFaultErr("GetObject", flt)
	}
	f.mu.Lock()
	defer f.mu.Unlock()
	if f.getMissing {
		return nil, errors.New("verif: NoSuchKey")
	}
	data, ok := f.objects[aws.ToString(in.Key)]
	if f.getOverride != nil {
		data, ok = f.getOverride, true
	}
	if !ok {
		return nil, errors.New("verif: NoSuchKey")
	}
	var r io.Reader = bytes.NewReader(append([]byte(nil), data...))
	if f.getReadErr {
		r = &verifC3xErrReader{r: r, err: errors.New("verif: connection reset")}
	}
	if hook := f.onEOF; hook != nil {
		key := aws.ToString(in.Key)
		r = &verifC3xGateReader{r: r, hook: func() { hook(key) }}
	}
	return &s3.GetObjectOutput{Body: io.NopCloser(r), ContentLength: aws.Int64(int64(len(data)))}, nil
}

func (f *verifC3xS3) DeleteObject(ctx context.Context, in *s3.DeleteObjectInput, _ ...func(*s3.Options)) (*s3.DeleteObjectOutput, error) {
	if flt := f.outcome(ctx, "DeleteObject", 0); flt != nil {
		return nil, verifC3xFaultErr("DeleteObject", flt)
	}
	f.mu.Lock()
	defer f.mu.Unlock()
	if f.failDelete {
		return nil, errors.New("verif: delete failed")
	}
	delete(f.objects, aws.ToString(in.Key))
	f.deleted = append(f.deleted, aws.ToString(in.Key))
	return &s3.DeleteObjectOutput{}, nil
}

func (f *verifC3xS3) HeadBucket(ctx context.Context, in *s3.HeadBucketInput, _ ...func(*s3.Options)) (*s3.HeadBucketOutput, error) {
	return &s3.HeadBucketOutput{}, nil
}

func (f *verifC3xS3) CreateBucket(ctx context.Context, in *s3.CreateBucketInput, _ ...func(*s3.Options)) (*s3.CreateBucketOutput, error) {
	return &s3.CreateBucketOutput{}, nil
}

func (f *verifC3xS3) object(key string) ([]byte, bool) {
	f.mu.Lock()
	defer f.mu.Unlock()
	d, ok := f.objects[key]
	return d, ok
}

func (f *verifC3xS3) keys() []string {
	f.mu.Lock()
	defer f.mu.Unlock()
	out := make([]string, 0, len(f.objects))
	for k := range f.objects {
		out = append(out, k)
	}
	sort.Strings(out)
	return out
}

type verifC3xPresign struct{}

func (verifC3xPresign) PresignGetObject(ctx context.Context, in *s3.GetObjectInput, _ ...func(*s3.PresignOptions)) (*v4.PresignedHTTPRequest, error) {
	return &v4.PresignedHTTPRequest{URL: "https://verif.invalid/" + aws.ToString(in.Key), Method: "GET"}, nil
}

type verifC3xDiscard struct{}

func (verifC3xDiscard) Write(p []byte) (int, error) { return len(p), nil }

// verifC3xModule builds an lfsModule the way the repo's own tests do, on the ghost S3.
func verifC3xModule(fs3 *verifC3xS3, maxBlob int64, checksumAlg string, backends []string) *lfsModule {
	logger := slog.New(slog.NewTextHandler(verifC3xDiscard{}, nil))
	m := &lfsModule{
		logger:           logger,
		s3Uploader:       &s3Uploader{bucket: "verif-bucket", region: "us-east-1", chunkSize: 5 << 20, api: fs3, presign: verifC3xPresign{}},
		s3Bucket:         "verif-bucket",
		s3Namespace:      "ns",
		maxBlob:          maxBlob,
		chunkSize:        5 << 20,
		checksumAlg:      checksumAlg,
		proxyID:          "verif-proxy",
		metrics:          newLfsMetrics(),
		tracker:          &LfsOpsTracker{config: TrackerConfig{}, logger: logger},
		topicMaxLength:   249,
		downloadTTLMax:   2 * time.Minute,
		uploadSessionTTL: time.Hour,
		uploadSessions:   make(map[string]*uploadSession),
		dialTimeout:      3 * time.Second,
		backendRetries:   1,
		backendBackoff:   time.Millisecond,
		backends:         backends,
	}
	atomic.StoreUint32(&m.s3Healthy, 1)
	return m
}
