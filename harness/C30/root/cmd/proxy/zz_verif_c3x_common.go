//go:build verif

// Shared by the C30, C31 and C32 harnesses (overlay into cmd/proxy): an in-memory S3 that
// implements the proxy's s3API seam with real multipart semantics, and a constructor for an
// lfsModule wired to it.  Nothing here replaces repo code.
package main

import (
	"bytes"
	"context"
	"crypto/md5"
	"encoding/hex"
	"errors"
	"fmt"
	"io"
	"log/slog"
	"sort"
	"sync"
	"sync/atomic"
	"time"

	"github.com/aws/aws-sdk-go-v2/aws"
	v4 "github.com/aws/aws-sdk-go-v2/aws/signer/v4"
	"github.com/aws/aws-sdk-go-v2/service/s3"
)

type verifC3xUpload struct {
	key   string
	parts map[int32][]byte
	etags map[int32]string
}

// verifC3xS3 is the ghost S3: objects, in-flight multipart uploads, scripted failures.
type verifC3xS3 struct {
	mu          sync.Mutex
	objects     map[string][]byte
	uploads     map[string]*verifC3xUpload
	seq         int
	failPut     bool
	failPutAt   int // index (0-based, counted over successful object creations) of the PutObject that fails; -1 = none
	failCreate  bool
	failPart    int32 // part number whose upload fails (0 = none)
	failComplet bool
	failDelete  bool
	getMissing  bool   // GetObject returns an error
	getOverride []byte // if non-nil GetObject serves these bytes whatever the key
	getReadErr  bool   // the body ends with a read error instead of EOF
	putKeys     []string
	deleted     []string
	onEOF       func(key string) // called (outside the lock) by a GetObject body right before it reports EOF: a schedule gate
}

// verifC3xGateReader delivers the data, then calls hook once before reporting EOF.
type verifC3xGateReader struct {
	r    io.Reader
	hook func()
	done bool
}

func (g *verifC3xGateReader) Read(p []byte) (int, error) {
	n, err := g.r.Read(p)
	if err == io.EOF && !g.done {
		if n > 0 {
			return n, nil // hand the last bytes over first; EOF (after the gate) on the next call
		}
		g.done = true
		g.hook()
	}
	return n, err
}

func verifC3xNewS3() *verifC3xS3 {
	return &verifC3xS3{objects: map[string][]byte{}, uploads: map[string]*verifC3xUpload{}, failPutAt: -1}
}

type verifC3xErrReader struct {
	r   io.Reader
	err error
}

func (e *verifC3xErrReader) Read(p []byte) (int, error) {
	n, err := e.r.Read(p)
	if err == io.EOF {
		return n, e.err
	}
	return n, err
}

func (f *verifC3xS3) CreateMultipartUpload(ctx context.Context, in *s3.CreateMultipartUploadInput, _ ...func(*s3.Options)) (*s3.CreateMultipartUploadOutput, error) {
	f.mu.Lock()
	defer f.mu.Unlock()
	if f.failCreate {
		return nil, errors.New("verif: create multipart failed")
	}
	f.seq++
	id := fmt.Sprintf("mpu-%d", f.seq)
	f.uploads[id] = &verifC3xUpload{key: aws.ToString(in.Key), parts: map[int32][]byte{}, etags: map[int32]string{}}
	return &s3.CreateMultipartUploadOutput{UploadId: aws.String(id)}, nil
}

func (f *verifC3xS3) UploadPart(ctx context.Context, in *s3.UploadPartInput, _ ...func(*s3.Options)) (*s3.UploadPartOutput, error) {
	body, err := io.ReadAll(in.Body)
	if err != nil {
		return nil, err
	}
	f.mu.Lock()
	defer f.mu.Unlock()
	up, ok := f.uploads[aws.ToString(in.UploadId)]
	if !ok || up.key != aws.ToString(in.Key) {
		return nil, errors.New("verif: NoSuchUpload")
	}
	pn := aws.ToInt32(in.PartNumber)
	if f.failPart != 0 && f.failPart == pn {
		return nil, errors.New("verif: upload part failed")
	}
	sum := md5.Sum(body)
	etag := "\"" + hex.EncodeToString(sum[:]) + fmt.Sprintf("-%d", pn) + "\""
	up.parts[pn] = body
	up.etags[pn] = etag
	return &s3.UploadPartOutput{ETag: aws.String(etag)}, nil
}

// CompleteMultipartUpload follows S3: the listed parts must exist with the given ETag and be in
// strictly ascending part-number order; the object is the concatenation of the LISTED parts.
func (f *verifC3xS3) CompleteMultipartUpload(ctx context.Context, in *s3.CompleteMultipartUploadInput, _ ...func(*s3.Options)) (*s3.CompleteMultipartUploadOutput, error) {
	f.mu.Lock()
	defer f.mu.Unlock()
	if f.failComplet {
		return nil, errors.New("verif: complete failed")
	}
	up, ok := f.uploads[aws.ToString(in.UploadId)]
	if !ok || up.key != aws.ToString(in.Key) {
		return nil, errors.New("verif: NoSuchUpload")
	}
	if in.MultipartUpload == nil || len(in.MultipartUpload.Parts) == 0 {
		return nil, errors.New("verif: MalformedXML (no parts)")
	}
	var obj []byte
	last := int32(0)
	for _, p := range in.MultipartUpload.Parts {
		pn := aws.ToInt32(p.PartNumber)
		if pn <= last {
			return nil, errors.New("verif: InvalidPartOrder")
		}
		last = pn
		data, ok := up.parts[pn]
		if !ok || up.etags[pn] != aws.ToString(p.ETag) {
			return nil, errors.New("verif: InvalidPart")
		}
		obj = append(obj, data...)
	}
	f.objects[up.key] = obj
	f.putKeys = append(f.putKeys, up.key)
	delete(f.uploads, aws.ToString(in.UploadId))
	return &s3.CompleteMultipartUploadOutput{}, nil
}

func (f *verifC3xS3) AbortMultipartUpload(ctx context.Context, in *s3.AbortMultipartUploadInput, _ ...func(*s3.Options)) (*s3.AbortMultipartUploadOutput, error) {
	f.mu.Lock()
	defer f.mu.Unlock()
	delete(f.uploads, aws.ToString(in.UploadId))
	return &s3.AbortMultipartUploadOutput{}, nil
}

func (f *verifC3xS3) PutObject(ctx context.Context, in *s3.PutObjectInput, _ ...func(*s3.Options)) (*s3.PutObjectOutput, error) {
	body, err := io.ReadAll(in.Body)
	if err != nil {
		return nil, err
	}
	f.mu.Lock()
	defer f.mu.Unlock()
	if f.failPut || (f.failPutAt >= 0 && f.failPutAt == len(f.putKeys)) {
		return nil, errors.New("verif: put failed")
	}
	f.objects[aws.ToString(in.Key)] = body
	f.putKeys = append(f.putKeys, aws.ToString(in.Key))
	return &s3.PutObjectOutput{}, nil
}

func (f *verifC3xS3) GetObject(ctx context.Context, in *s3.GetObjectInput, _ ...func(*s3.Options)) (*s3.GetObjectOutput, error) {
	f.mu.Lock()
	defer f.mu.Unlock()
	if f.getMissing {
		return nil, errors.New("verif: NoSuchKey")
	}
	data, ok := f.objects[aws.ToString(in.Key)]
	if f.getOverride != nil {
		data, ok = f.getOverride, true
	}
	if !ok {
		return nil, errors.New("verif: NoSuchKey")
	}
	var r io.Reader = bytes.NewReader(append([]byte(nil), data...))
	if f.getReadErr {
		r = &verifC3xErrReader{r: r, err: errors.New("verif: connection reset")}
	}
	if hook := f.onEOF; hook != nil {
		key := aws.ToString(in.Key)
		r = &verifC3xGateReader{r: r, hook: func() { hook(key) }}
	}
	return &s3.GetObjectOutput{Body: io.NopCloser(r), ContentLength: aws.Int64(int64(len(data)))}, nil
}

func (f *verifC3xS3) DeleteObject(ctx context.Context, in *s3.DeleteObjectInput, _ ...func(*s3.Options)) (*s3.DeleteObjectOutput, error) {
	f.mu.Lock()
	defer f.mu.Unlock()
	if f.failDelete {
		return nil, errors.New("verif: delete failed")
	}
	delete(f.objects, aws.ToString(in.Key))
	f.deleted = append(f.deleted, aws.ToString(in.Key))
	return &s3.DeleteObjectOutput{}, nil
}

func (f *verifC3xS3) HeadBucket(ctx context.Context, in *s3.HeadBucketInput, _ ...func(*s3.Options)) (*s3.HeadBucketOutput, error) {
	return &s3.HeadBucketOutput{}, nil
}

func (f *verifC3xS3) CreateBucket(ctx context.Context, in *s3.CreateBucketInput, _ ...func(*s3.Options)) (*s3.CreateBucketOutput, error) {
	return &s3.CreateBucketOutput{}, nil
}

func (f *verifC3xS3) object(key string) ([]byte, bool) {
	f.mu.Lock()
	defer f.mu.Unlock()
	d, ok := f.objects[key]
	return d, ok
}

func (f *verifC3xS3) keys() []string {
	f.mu.Lock()
	defer f.mu.Unlock()
	out := make([]string, 0, len(f.objects))
	for k := range f.objects {
		out = append(out, k)
	}
	sort.Strings(out)
	return out
}

type verifC3xPresign struct{}

func (verifC3xPresign) PresignGetObject(ctx context.Context, in *s3.GetObjectInput, _ ...func(*s3.PresignOptions)) (*v4.PresignedHTTPRequest, error) {
	return &v4.PresignedHTTPRequest{URL: "https://verif.invalid/" + aws.ToString(in.Key), Method: "GET"}, nil
}

type verifC3xDiscard struct{}

func (verifC3xDiscard) Write(p []byte) (int, error) { return len(p), nil }

// verifC3xModule builds an lfsModule the way the repo's own tests do, on the ghost S3.
func verifC3xModule(fs3 *verifC3xS3, maxBlob int64, checksumAlg string, backends []string) *lfsModule {
	logger := slog.New(slog.NewTextHandler(verifC3xDiscard{}, nil))
	m := &lfsModule{
		logger:           logger,
		s3Uploader:       &s3Uploader{bucket: "verif-bucket", region: "us-east-1", chunkSize: 5 << 20, api: fs3, presign: verifC3xPresign{}},
		s3Bucket:         "verif-bucket",
		s3Namespace:      "ns",
		maxBlob:          maxBlob,
		chunkSize:        5 << 20,
		checksumAlg:      checksumAlg,
		proxyID:          "verif-proxy",
		metrics:          newLfsMetrics(),
		tracker:          &LfsOpsTracker{config: TrackerConfig{}, logger: logger},
		topicMaxLength:   249,
		downloadTTLMax:   2 * time.Minute,
		uploadSessionTTL: time.Hour,
		uploadSessions:   make(map[string]*uploadSession),
		dialTimeout:      3 * time.Second,
		backendRetries:   1,
		backendBackoff:   time.Millisecond,
		backends:         backends,
	}
	atomic.StoreUint32(&m.s3Healthy, 1)
	return m
}
