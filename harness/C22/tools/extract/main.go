// C22 fact extractor (go/ast, run with `go run` by checks/C22.py on every check).
//
// Finds every call `<recv>.logInit.Do(key, …)` / `.DoChan(key, …)` in cmd/broker/main.go (the
// singleflight group that makes concurrent first requests for one partition share ONE
// initialisation and ONE *PartitionLog) and resolves the key expression to a list of pieces over
// the enclosing function's topic / partition parameters:
//
//	fmt.Sprintf("<fmt>", a, b, …)   %s %v %d %q-free formats, operands topic / partition / literals
//	fmt.Sprint(a, b, …)             (a blank is inserted only between two non-string operands)
//	a + b + …                       with strconv.Itoa(int(partition)) / strconv.FormatInt(int64(partition), 10)
//	an identifier                   defined exactly once in the function by `id := <expr>` / `var id = <expr>`
//
// Output: one JSON line per call site: {"fn","pos","src","pieces":[{"k":"topic"|"part"|"lit","s":…}]}
// or {"fn","pos","src","other":"<why>"} when the expression is not of that shape.
package main

import (
	"bytes"
	"encoding/json"
	"fmt"
	"go/ast"
	"go/parser"
	"go/printer"
	"go/token"
	"os"
	"path/filepath"
	"strconv"
	"strings"
)

type piece struct {
	K string `json:"k"`
	S string `json:"s,omitempty"`
}

type site struct {
	Fn     string  `json:"fn"`
	Pos    string  `json:"pos"`
	Src    string  `json:"src"`
	Pieces []piece `json:"pieces,omitempty"`
	Other  string  `json:"other,omitempty"`
}

type resolver struct {
	fset   *token.FileSet
	fn     *ast.FuncDecl
	topic  string // name of the string parameter
	part   string // name of the int32 parameter
	depth  int
	reason string
}

func (r *resolver) text(n ast.Node) string {
	var b bytes.Buffer
	_ = printer.Fprint(&b, r.fset, n)
	return strings.Join(strings.Fields(b.String()), " ")
}

func (r *resolver) fail(why string) []piece {
	if r.reason == "" {
		r.reason = why
	}
	return nil
}

// definitions of a local identifier inside the function (`id := e`, `id = e`, `var id = e`)
func (r *resolver) defs(name string) []ast.Expr {
	var out []ast.Expr
	ast.Inspect(r.fn.Body, func(n ast.Node) bool {
		switch s := n.(type) {
		case *ast.AssignStmt:
			if len(s.Lhs) == len(s.Rhs) {
				for i, l := range s.Lhs {
					if id, ok := l.(*ast.Ident); ok && id.Name == name {
						out = append(out, s.Rhs[i])
					}
				}
			} else {
				for _, l := range s.Lhs {
					if id, ok := l.(*ast.Ident); ok && id.Name == name {
						out = append(out, nil)
					}
				}
			}
		case *ast.ValueSpec:
			for i, id := range s.Names {
				if id.Name == name {
					if i < len(s.Values) {
						out = append(out, s.Values[i])
					} else {
						out = append(out, nil)
					}
				}
			}
		}
		return true
	})
	return out
}

func isCall(e ast.Expr, pkg, fn string) (*ast.CallExpr, bool) {
	c, ok := e.(*ast.CallExpr)
	if !ok {
		return nil, false
	}
	sel, ok := c.Fun.(*ast.SelectorExpr)
	if !ok || sel.Sel.Name != fn {
		return nil, false
	}
	id, ok := sel.X.(*ast.Ident)
	return c, ok && id.Name == pkg
}

// operand classifies one operand: "topic", "part", "lit" (+ value) or "" (unknown).
func (r *resolver) operand(e ast.Expr) (string, string) {
	switch x := e.(type) {
	case *ast.ParenExpr:
		return r.operand(x.X)
	case *ast.Ident:
		if x.Name == r.topic {
			return "topic", ""
		}
		if x.Name == r.part {
			return "part", ""
		}
	case *ast.BasicLit:
		if x.Kind == token.STRING {
			if s, err := strconv.Unquote(x.Value); err == nil {
				return "lit", s
			}
		}
	case *ast.CallExpr:
		// int(partition), int64(partition), int32(partition), string(topic)
		if id, ok := x.Fun.(*ast.Ident); ok && len(x.Args) == 1 {
			k, s := r.operand(x.Args[0])
			switch id.Name {
			case "int", "int32", "int64":
				if k == "part" {
					return "part", ""
				}
			case "string":
				if k == "topic" {
					return k, s
				}
			}
		}
	}
	return "", ""
}

func (r *resolver) resolve(e ast.Expr) []piece {
	r.depth++
	defer func() { r.depth-- }()
	if r.depth > 8 {
		return r.fail("expression too deep")
	}
	switch x := e.(type) {
	case *ast.ParenExpr:
		return r.resolve(x.X)
	case *ast.BinaryExpr:
		if x.Op != token.ADD {
			return r.fail("operator " + x.Op.String())
		}
		a := r.resolve(x.X)
		b := r.resolve(x.Y)
		if a == nil || b == nil {
			return nil
		}
		return append(a, b...)
	case *ast.BasicLit:
		if k, s := r.operand(x); k == "lit" {
			return []piece{{K: "lit", S: s}}
		}
		return r.fail("literal " + x.Value)
	case *ast.Ident:
		if x.Name == r.topic {
			return []piece{{K: "topic"}}
		}
		if x.Name == r.part {
			return r.fail("partition used as a string")
		}
		ds := r.defs(x.Name)
		if len(ds) != 1 || ds[0] == nil {
			return r.fail(fmt.Sprintf("identifier %s has %d definitions in %s", x.Name, len(ds), r.fn.Name.Name))
		}
		return r.resolve(ds[0])
	case *ast.CallExpr:
		if c, ok := isCall(x, "fmt", "Sprintf"); ok {
			return r.sprintf(c)
		}
		if c, ok := isCall(x, "fmt", "Sprint"); ok {
			return r.sprint(c)
		}
		if c, ok := isCall(x, "strconv", "Itoa"); ok && len(c.Args) == 1 {
			if k, _ := r.operand(c.Args[0]); k == "part" {
				return []piece{{K: "part"}}
			}
		}
		if c, ok := isCall(x, "strconv", "FormatInt"); ok && len(c.Args) == 2 {
			if k, _ := r.operand(c.Args[0]); k == "part" && r.text(c.Args[1]) == "10" {
				return []piece{{K: "part"}}
			}
		}
		if k, _ := r.operand(x); k == "topic" {
			return []piece{{K: "topic"}}
		}
		return r.fail("call " + r.text(x.Fun))
	}
	return r.fail(fmt.Sprintf("%T", e))
}

func (r *resolver) sprintf(c *ast.CallExpr) []piece {
	if len(c.Args) == 0 {
		return r.fail("Sprintf without format")
	}
	k, f := r.operand(c.Args[0])
	if k != "lit" {
		return r.fail("Sprintf format is not a string literal")
	}
	args := c.Args[1:]
	var out []piece
	lit := ""
	flush := func() {
		if lit != "" {
			out = append(out, piece{K: "lit", S: lit})
			lit = ""
		}
	}
	for i := 0; i < len(f); i++ {
		if f[i] != '%' {
			lit += string(f[i])
			continue
		}
		if i+1 >= len(f) {
			return r.fail("format ends in %")
		}
		i++
		v := f[i]
		if v == '%' {
			lit += "%"
			continue
		}
		if len(args) == 0 {
			return r.fail("format has more verbs than operands")
		}
		ak, as := r.operand(args[0])
		args = args[1:]
		switch {
		case (v == 's' || v == 'v') && ak == "topic":
			flush()
			out = append(out, piece{K: "topic"})
		case (v == 'd' || v == 'v') && ak == "part":
			flush()
			out = append(out, piece{K: "part"})
		case (v == 's' || v == 'v') && ak == "lit":
			lit += as
		default:
			return r.fail(fmt.Sprintf("verb %%%c with operand kind %q", v, ak))
		}
	}
	if len(args) != 0 {
		return r.fail("format has fewer verbs than operands")
	}
	flush()
	return out
}

func (r *resolver) sprint(c *ast.CallExpr) []piece {
	var out []piece
	prevString := true
	for i, a := range c.Args {
		k, s := r.operand(a)
		if k == "" {
			return r.fail("Sprint operand " + r.text(a))
		}
		isString := k != "part"
		if i > 0 && !isString && !prevString {
			out = append(out, piece{K: "lit", S: " "})
		}
		prevString = isString
		if k == "lit" {
			if s != "" {
				out = append(out, piece{K: "lit", S: s})
			}
		} else {
			out = append(out, piece{K: k})
		}
	}
	return out
}

// merge adjacent literals
func norm(ps []piece) []piece {
	var out []piece
	for _, p := range ps {
		if p.K == "lit" && p.S == "" {
			continue
		}
		if p.K == "lit" && len(out) > 0 && out[len(out)-1].K == "lit" {
			out[len(out)-1].S += p.S
			continue
		}
		out = append(out, p)
	}
	return out
}

func main() {
	if len(os.Args) != 2 {
		fmt.Fprintln(os.Stderr, "usage: extract <repo root>")
		os.Exit(2)
	}
	fn := filepath.Join(os.Args[1], "cmd", "broker", "main.go")
	fset := token.NewFileSet()
	file, err := parser.ParseFile(fset, fn, nil, 0)
	if err != nil {
		fmt.Fprintln(os.Stderr, err)
		os.Exit(1)
	}
	enc := json.NewEncoder(os.Stdout)
	for _, d := range file.Decls {
		fd, ok := d.(*ast.FuncDecl)
		if !ok || fd.Body == nil {
			continue
		}
		ast.Inspect(fd.Body, func(n ast.Node) bool {
			c, ok := n.(*ast.CallExpr)
			if !ok || len(c.Args) == 0 {
				return true
			}
			sel, ok := c.Fun.(*ast.SelectorExpr)
			if !ok || (sel.Sel.Name != "Do" && sel.Sel.Name != "DoChan") {
				return true
			}
			grp, ok := sel.X.(*ast.SelectorExpr)
			if !ok || grp.Sel.Name != "logInit" {
				return true
			}
			r := &resolver{fset: fset, fn: fd}
			if fd.Type.Params != nil {
				for _, f := range fd.Type.Params.List {
					t := r.text(f.Type)
					for _, nm := range f.Names {
						if t == "string" && r.topic == "" {
							r.topic = nm.Name
						}
						if t == "int32" && r.part == "" {
							r.part = nm.Name
						}
					}
				}
			}
			p := fset.Position(c.Pos())
			s := site{Fn: fd.Name.Name, Pos: fmt.Sprintf("cmd/broker/main.go:%d", p.Line)}
			ps := norm(r.resolve(c.Args[0]))
			s.Src = r.text(c.Args[0])
			if id, ok := c.Args[0].(*ast.Ident); ok {
				if ds := r.defs(id.Name); len(ds) == 1 && ds[0] != nil {
					s.Src = id.Name + " := " + r.text(ds[0])
				}
			}
			if r.reason != "" || len(ps) == 0 {
				s.Other = r.reason
				if s.Other == "" {
					s.Other = "empty key expression"
				}
			} else {
				s.Pieces = ps
			}
			_ = enc.Encode(s)
			return true
		})
	}
}
