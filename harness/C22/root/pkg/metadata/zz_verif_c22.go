//go:build verif

package metadata

import (
	"context"

	clientv3 "go.etcd.io/etcd/client/v3"
)

// VerifKeysC22 exposes the unexported key constructors that embed a topic name.
func VerifKeysC22(topic string, partition int32) (off, lease, res, mem string) {
	return offsetKey(topic, partition), partitionLeaseKey(topic, partition), partitionResourceID(topic, partition), partitionKey(topic, partition)
}

type verifCaptureKVC22 struct {
	clientv3.KV
	deleted []string
}

func (k *verifCaptureKVC22) Delete(ctx context.Context, key string, opts ...clientv3.OpOption) (*clientv3.DeleteResponse, error) {
	k.deleted = append(k.deleted, key)
	return &clientv3.DeleteResponse{}, nil
}

// VerifTopicDeletePrefixC22 runs the real EtcdStore.deleteTopicOffsets against a capturing KV
// and returns the key (prefix) it asks etcd to delete.
func VerifTopicDeletePrefixC22(topic string) string {
	kv := &verifCaptureKVC22{}
	s := &EtcdStore{client: &clientv3.Client{KV: kv}, metadata: NewInMemoryStore(ClusterMetadata{})}
	_ = s.deleteTopicOffsets(context.Background(), topic)
	if len(kv.deleted) != 1 {
		return "?"
	}
	return kv.deleted[0]
}
