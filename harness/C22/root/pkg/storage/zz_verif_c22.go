//go:build verif

package storage

// VerifKeysC22 returns the S3 keys / prefixes the real PartitionLog derives for
// (namespace, topic, partition, baseOffset).
func VerifKeysC22(namespace, topic string, partition int32, base int64) (seg, idx, pfx, ctk string) {
	l := NewPartitionLog(namespace, topic, partition, 0, nil, nil, PartitionLogConfig{}, nil, nil, nil)
	return l.segmentKey(base), l.indexKey(base), l.segmentPrefix(), l.cacheTopicKey()
}
