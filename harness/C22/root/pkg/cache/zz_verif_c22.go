//go:build verif

package cache

// VerifMakeKeyC22 exposes the cache's map key.
func VerifMakeKeyC22(topic string, partition int32, base int64) string {
	return makeKey(topic, partition, base)
}
