//go:build verif

// C22 correspondence harness: topic-name acceptance through the real CreateTopic and every key
// constructor that embeds a topic name; same line protocol as lean/Driver/C22.lean.
package main

import (
	"bufio"
	"context"
	"encoding/hex"
	"fmt"
	"os"
	"path"
	"strconv"
	"strings"

	"github.com/KafScale/platform/pkg/cache"
	"github.com/KafScale/platform/pkg/metadata"
	"github.com/KafScale/platform/pkg/protocol"
	"github.com/KafScale/platform/pkg/storage"
)

func hx(s string) string {
	if s == "" {
		return "-"
	}
	return hex.EncodeToString([]byte(s))
}

func unhx(s string) (string, bool) {
	if s == "-" {
		return "", true
	}
	b, err := hex.DecodeString(s)
	return string(b), err == nil
}

func newStore() *metadata.InMemoryStore {
	return metadata.NewInMemoryStore(metadata.ClusterMetadata{
		Brokers: []protocol.MetadataBroker{{NodeID: 1, Host: "b", Port: 9092}},
	})
}

func create(st metadata.Store, name string) string {
	_, err := st.CreateTopic(context.Background(), metadata.TopicSpec{Name: name, NumPartitions: 1, ReplicationFactor: 1})
	if err == nil {
		return "accept"
	}
	return "reject"
}

func do(f []string) (out string) {
	defer func() {
		if r := recover(); r != nil {
			out = "panic"
		}
	}()
	ctx := context.Background()
	switch {
	case f[0] == "accept" && len(f) == 2:
		t, ok := unhx(f[1])
		if !ok {
			return "bad-op"
		}
		return create(newStore(), t)
	case f[0] == "keys" && len(f) == 5:
		ns, ok1 := unhx(f[1])
		t, ok2 := unhx(f[2])
		p, err1 := strconv.ParseInt(f[3], 10, 32)
		b, err2 := strconv.ParseInt(f[4], 10, 64)
		if !ok1 || !ok2 || err1 != nil || err2 != nil {
			return "bad-op"
		}
		seg, idx, pfx, ctk := storage.VerifKeysC22(ns, t, int32(p), b)
		off, lease, res, mem := metadata.VerifKeysC22(t, int32(p))
		return strings.Join([]string{
			"seg=" + hx(seg), "idx=" + hx(idx), "pfx=" + hx(pfx), "ctk=" + hx(ctk),
			"cache=" + hx(cache.VerifMakeKeyC22(ctk, int32(p), b)),
			"off=" + hx(off), "cfg=" + hx(metadata.TopicConfigKey(t)), "pst=" + hx(metadata.PartitionStateKey(t, int32(p))),
			"del=" + hx(metadata.VerifTopicDeletePrefixC22(t)), "lease=" + hx(lease),
			"asg=" + hx(metadata.PartitionAssignmentKey(t, int32(p))), "res=" + hx(res), "mem=" + hx(mem),
		}, " ")
	case f[0] == "clean" && len(f) == 2:
		p, ok := unhx(f[1])
		if !ok {
			return "bad-op"
		}
		return "clean " + hx(path.Clean(p))
	case f[0] == "join":
		var es []string
		for _, e := range f[1:] {
			s, ok := unhx(e)
			if !ok {
				return "bad-op"
			}
			es = append(es, s)
		}
		return "join " + hx(path.Join(es...))
	case f[0] == "pair" && len(f) == 3:
		// behaviour-level aliasing probe on one real store: does deleting topic a disturb topic b?
		a, ok1 := unhx(f[1])
		b, ok2 := unhx(f[2])
		if !ok1 || !ok2 {
			return "bad-op"
		}
		st := newStore()
		ra, rb := create(st, a), create(st, b)
		if ra != "accept" || rb != "accept" {
			return fmt.Sprintf("pair a=%s b=%s", ra, rb)
		}
		_ = st.UpdateOffsets(ctx, a, 0, 41)
		_ = st.UpdateOffsets(ctx, b, 0, 17)
		derr := st.DeleteTopic(ctx, a)
		next, nerr := st.NextOffset(ctx, b, 0)
		return fmt.Sprintf("pair a=%s b=%s del=%v next=%d nerr=%v", ra, rb, derr == nil, next, nerr == nil)
	}
	return "bad-op"
}

func main() {
	w := bufio.NewWriter(os.Stdout)
	defer w.Flush()
	sc := bufio.NewScanner(os.Stdin)
	sc.Buffer(make([]byte, 1<<20), 1<<26)
	for sc.Scan() {
		f := strings.Fields(sc.Text())
		if len(f) == 0 || strings.HasPrefix(f[0], "#") {
			continue
		}
		fmt.Fprintln(w, do(f))
	}
}
