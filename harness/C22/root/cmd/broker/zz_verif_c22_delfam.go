//go:build verif

// C22 delete-selector scenario (op `delfam`, part of the harness in zz_verif_c22.go, one binary):
// a FAMILY of topic names — names that differ in one regex/glob metacharacter, names that are
// prefixes of each other, names equal to words of the key layout, one topic with more than 256 etcd
// keys — is created in a real InMemoryStore and in a real EtcdStore on an embedded etcd; every topic
// gets next offsets, a config, a partition-state key and committed offsets of several groups; then ONE
// topic is deleted and everything the others own is read back: through the Store API of both stores
// and as a raw etcd key dump.  Key ownership is observed, not computed: a key belongs to the topic
// during whose set-up phase (and only whose) it was written.
//
//	delfam <hexVictim> <hexGroup,hexGroup,…> <hexName:parts;hexName:parts;…>
//
// answer (one line):
//
//	delfam dM=<err> dE=<err> nkeys=<etcd keys of the victim> del=<n>:<checksum> lostE=<hexkey@owner,…|->
//	       leftE=<hexkey,…|-> apiM=<owner:item,…|-> apiE=… staleM=<item,…|-> staleE=…
package main

import (
	"context"
	"fmt"
	"net"
	"net/url"
	"os"
	"sort"
	"strconv"
	"strings"
	"time"

	clientv3 "go.etcd.io/etcd/client/v3"
	"go.etcd.io/etcd/server/v3/embed"

	metadatapb "github.com/KafScale/platform/pkg/gen/metadata"
	"github.com/KafScale/platform/pkg/metadata"
	"github.com/KafScale/platform/pkg/protocol"
)

type c22dWorld struct {
	endpoints []string
	admin     *clientv3.Client
	etcd      *embed.Etcd
	dir       string
}

var c22dW *c22dWorld

func c22dFreePort() int {
	ln, err := net.Listen("tcp", "127.0.0.1:0")
	if err != nil {
		panic(err)
	}
	defer ln.Close()
	return ln.Addr().(*net.TCPAddr).Port
}

func c22dStart() *c22dWorld {
	if c22dW != nil {
		return c22dW
	}
	dir, err := os.MkdirTemp("", "verif-c22-etcd-")
	if err != nil {
		panic(err)
	}
	cfg := embed.NewConfig()
	cfg.Dir = dir
	cfg.Logger = "zap"
	cfg.LogLevel = "error"
	cfg.UnsafeNoFsync = true // scratch data dir, removed on exit
	cfg.LogOutputs = []string{dir + "/etcd.log"}
	cu, _ := url.Parse(fmt.Sprintf("http://127.0.0.1:%d", c22dFreePort()))
	pu, _ := url.Parse(fmt.Sprintf("http://127.0.0.1:%d", c22dFreePort()))
	cfg.ListenClientUrls = []url.URL{*cu}
	cfg.AdvertiseClientUrls = cfg.ListenClientUrls
	cfg.ListenPeerUrls = []url.URL{*pu}
	cfg.AdvertisePeerUrls = cfg.ListenPeerUrls
	cfg.InitialCluster = cfg.InitialClusterFromName(cfg.Name)
	e, err := embed.StartEtcd(cfg)
	if err != nil {
		panic(err)
	}
	select {
	case <-e.Server.ReadyNotify():
	case <-time.After(30 * time.Second):
		panic("embedded etcd did not start")
	}
	w := &c22dWorld{endpoints: []string{"http://" + e.Clients[0].Addr().String()}, etcd: e, dir: dir}
	admin, err := clientv3.New(clientv3.Config{Endpoints: w.endpoints, DialTimeout: 5 * time.Second})
	if err != nil {
		panic(err)
	}
	w.admin = admin
	c22dW = w
	return w
}

// c22dStop is called by the harness main loop at end of input.
func c22dStop() {
	if c22dW == nil {
		return
	}
	_ = c22dW.admin.Close()
	c22dW.etcd.Close()
	os.RemoveAll(c22dW.dir)
	c22dW = nil
}

type c22dKV struct {
	val string
	mod int64
}

func (w *c22dWorld) dump(ctx context.Context) map[string]c22dKV {
	out := map[string]c22dKV{}
	resp, err := w.admin.Get(ctx, "\x00", clientv3.WithFromKey())
	if err != nil {
		panic(err)
	}
	for _, kv := range resp.Kvs {
		out[string(kv.Key)] = c22dKV{string(kv.Value), kv.ModRevision}
	}
	return out
}

func c22dErr(err error) string {
	switch {
	case err == nil:
		return "ok"
	case err == metadata.ErrUnknownTopic:
		return "unknown"
	case err == metadata.ErrInvalidTopic:
		return "invalid"
	case err == metadata.ErrTopicExists:
		return "exists"
	}
	return "err"
}

type c22dTopic struct {
	name  string
	parts int
}

// api reads everything the Store API exposes about one topic.
func c22dAPI(ctx context.Context, st metadata.Store, t c22dTopic, groups []string) map[string]string {
	items := map[string]string{}
	md, err := st.Metadata(ctx, []string{t.name})
	switch {
	case err != nil:
		items["md"] = "err"
	case len(md.Topics) != 1 || md.Topics[0].ErrorCode != 0:
		items["md"] = "?"
	default:
		items["md"] = strconv.Itoa(len(md.Topics[0].Partitions))
	}
	for p := 0; p <= t.parts; p++ {
		v, err := st.NextOffset(ctx, t.name, int32(p))
		if err != nil {
			items["no:"+strconv.Itoa(p)] = c22dErr(err)
		} else {
			items["no:"+strconv.Itoa(p)] = strconv.FormatInt(v, 10)
		}
	}
	cfg, err := st.FetchTopicConfig(ctx, t.name)
	if err != nil {
		items["cfg"] = c22dErr(err)
	} else {
		items["cfg"] = strconv.FormatInt(cfg.RetentionMs, 10)
	}
	for gi, g := range groups {
		for _, p := range []int{0, t.parts} {
			off, m, err := st.FetchConsumerOffset(ctx, g, t.name, int32(p))
			k := fmt.Sprintf("co:%d:%d", gi, p)
			if err != nil {
				items[k] = c22dErr(err)
			} else {
				items[k] = fmt.Sprintf("%d/%s", off, m)
			}
		}
	}
	return items
}

func c22dGroupsAPI(ctx context.Context, st metadata.Store, groups []string) map[string]string {
	items := map[string]string{}
	for gi, g := range groups {
		grp, err := st.FetchConsumerGroup(ctx, g)
		switch {
		case err != nil:
			items["grp:"+strconv.Itoa(gi)] = "err"
		case grp == nil:
			items["grp:"+strconv.Itoa(gi)] = "none"
		default:
			items["grp:"+strconv.Itoa(gi)] = grp.State
		}
	}
	return items
}

func c22dGone(item, v string) bool {
	switch {
	case item == "md":
		return v == "?"
	case strings.HasPrefix(item, "no:"), item == "cfg":
		return v == "unknown"
	case strings.HasPrefix(item, "co:"):
		return v == "0/"
	}
	return true
}

func c22dJoin(l []string) string {
	if len(l) == 0 {
		return "-"
	}
	sort.Strings(l)
	return strings.Join(l, ",")
}

func c22dSum(keys []string) string {
	const mod = 1000000007
	total := uint64(0)
	for _, k := range keys {
		h := uint64(7)
		for i := 0; i < len(k); i++ {
			h = (h*131 + uint64(k[i])) % mod
		}
		total = (total + h) % mod
	}
	return fmt.Sprintf("%d:%d", len(keys), total)
}

func c22dDelFam(f []string) (out string) {
	defer func() {
		if r := recover(); r != nil {
			out = fmt.Sprintf("delfam panic %v", r)
			out = strings.ReplaceAll(strings.ReplaceAll(out, "\n", " "), "=", ":")
		}
	}()
	if len(f) != 4 {
		return "bad-op"
	}
	victim, ok := c22kUnhx(f[1])
	if !ok {
		return "bad-op"
	}
	var groups []string
	for _, g := range strings.Split(f[2], ",") {
		s, ok := c22kUnhx(g)
		if !ok {
			return "bad-op"
		}
		groups = append(groups, s)
	}
	var topics []c22dTopic
	vi := -1
	for _, sp := range strings.Split(f[3], ";") {
		a := strings.SplitN(sp, ":", 2)
		if len(a) != 2 {
			return "bad-op"
		}
		name, ok := c22kUnhx(a[0])
		n, err := strconv.Atoi(a[1])
		if !ok || err != nil || n < 1 || n > 2000 {
			return "bad-op"
		}
		if name == victim {
			vi = len(topics)
		}
		topics = append(topics, c22dTopic{name, n})
	}
	if vi < 0 || len(topics) > 40 || len(groups) > 20 {
		return "bad-op"
	}
	w := c22dStart()
	ctx, cancel := context.WithTimeout(context.Background(), 120*time.Second)
	defer cancel()
	// fresh key space, fresh stores
	if _, err := w.admin.Delete(ctx, "\x00", clientv3.WithFromKey()); err != nil {
		panic(err)
	}
	initial := metadata.ClusterMetadata{Brokers: []protocol.MetadataBroker{{NodeID: 1, Host: "b", Port: 9092}}, ControllerID: 1}
	mem := metadata.NewInMemoryStore(initial)
	est, err := metadata.NewEtcdStore(ctx, initial, metadata.EtcdStoreConfig{Endpoints: w.endpoints})
	if err != nil {
		panic(err)
	}
	defer est.Close()
	stores := []metadata.Store{mem, est}

	touched := map[string]map[int]bool{} // etcd key -> phases that wrote it (phase = topic index, -1 = groups)
	mark := func(phase int, before map[string]c22dKV) map[string]c22dKV {
		now := w.dump(ctx)
		for k, v := range now {
			if b, ok := before[k]; !ok || b.mod != v.mod {
				if touched[k] == nil {
					touched[k] = map[int]bool{}
				}
				touched[k][phase] = true
			}
		}
		return now
	}
	state := w.dump(ctx)
	for gi, g := range groups {
		for _, st := range stores {
			_ = st.PutConsumerGroup(ctx, &metadatapb.ConsumerGroup{GroupId: g, State: "S" + strconv.Itoa(gi), ProtocolType: "consumer"})
		}
	}
	state = mark(-1, state)
	for i, t := range topics {
		for si, st := range stores {
			if _, err := st.CreateTopic(ctx, metadata.TopicSpec{Name: t.name, NumPartitions: int32(t.parts), ReplicationFactor: 1}); err != nil {
				return fmt.Sprintf("delfam rej=%s store=%d", c22kHx(t.name), si)
			}
			for p := 0; p < t.parts; p++ {
				if err := st.UpdateOffsets(ctx, t.name, int32(p), int64(10+p)); err != nil {
					panic(err)
				}
			}
			if err := st.UpdateTopicConfig(ctx, &metadatapb.TopicConfig{Name: t.name, Partitions: int32(t.parts), ReplicationFactor: 1,
				RetentionMs: int64(1000 + i), RetentionBytes: -1}); err != nil {
				panic(err)
			}
			if err := st.CreatePartitions(ctx, t.name, int32(t.parts+1)); err != nil {
				panic(err)
			}
			if err := st.UpdateOffsets(ctx, t.name, int32(t.parts), 5); err != nil {
				panic(err)
			}
			for gi, g := range groups {
				for _, p := range []int{0, t.parts} {
					if err := st.CommitConsumerOffset(ctx, g, t.name, int32(p), int64(100+10*i+gi), "m"+strconv.Itoa(p)); err != nil {
						panic(err)
					}
				}
			}
		}
		state = mark(i, state)
	}
	owner := func(k string) (int, bool) {
		ph := touched[k]
		if len(ph) != 1 {
			return 0, false // shared (the snapshot key)
		}
		for p := range ph {
			return p, true
		}
		return 0, false
	}
	before := state
	apiBefore := make([][]map[string]string, 2)
	grpBefore := make([]map[string]string, 2)
	for si, st := range stores {
		for _, t := range topics {
			apiBefore[si] = append(apiBefore[si], c22dAPI(ctx, st, t, groups))
		}
		grpBefore[si] = c22dGroupsAPI(ctx, st, groups)
	}

	dM := c22dErr(mem.DeleteTopic(ctx, victim))
	dE := c22dErr(est.DeleteTopic(ctx, victim))

	after := w.dump(ctx)
	var lost, left, deleted []string
	nkeys := 0
	for k, b := range before {
		o, owned := owner(k)
		if owned && o == vi {
			nkeys++
		}
		a, present := after[k]
		if !present {
			deleted = append(deleted, k)
		}
		if owned && o == vi && present {
			left = append(left, c22kHx(k))
		}
		if owned && o != vi && (!present || a.val != b.val) {
			os := strconv.Itoa(o)
			if o < 0 {
				os = "G"
			}
			lost = append(lost, c22kHx(k)+"@"+os)
		}
	}
	res := []string{"delfam", "dM=" + dM, "dE=" + dE, "nkeys=" + strconv.Itoa(nkeys), "del=" + c22dSum(deleted),
		"lostE=" + c22dJoin(lost), "leftE=" + c22dJoin(left)}
	var api, stale [2][]string
	for si, st := range stores {
		for i, t := range topics {
			now := c22dAPI(ctx, st, t, groups)
			for item, v := range now {
				if i == vi {
					if !c22dGone(item, v) {
						stale[si] = append(stale[si], item)
					}
				} else if apiBefore[si][i][item] != v {
					api[si] = append(api[si], strconv.Itoa(i)+":"+item)
				}
			}
		}
		for item, v := range c22dGroupsAPI(ctx, st, groups) {
			if grpBefore[si][item] != v {
				api[si] = append(api[si], "G:"+item)
			}
		}
	}
	res = append(res, "apiM="+c22dJoin(api[0]), "apiE="+c22dJoin(api[1]), "staleM="+c22dJoin(stale[0]), "staleE="+c22dJoin(stale[1]))
	return strings.Join(res, " ")
}
