//go:build verif

// C22 correspondence ops (part of the harness in zz_verif_c22.go, one binary): topic-name acceptance
// through the real CreateTopic and every key constructor that embeds a topic name; same line protocol
// as lean/Driver/C22.lean.
package main

import (
	"context"
	"encoding/hex"
	"fmt"
	"path"
	"strconv"
	"strings"

	"github.com/KafScale/platform/pkg/cache"
	"github.com/KafScale/platform/pkg/metadata"
	"github.com/KafScale/platform/pkg/protocol"
	"github.com/KafScale/platform/pkg/storage"
)

func c22kHx(s string) string {
	if s == "" {
		return "-"
	}
	return hex.EncodeToString([]byte(s))
}

func c22kUnhx(s string) (string, bool) {
	if s == "-" {
		return "", true
	}
	b, err := hex.DecodeString(s)
	return string(b), err == nil
}

func c22kNewstore() *metadata.InMemoryStore {
	return metadata.NewInMemoryStore(metadata.ClusterMetadata{
		Brokers: []protocol.MetadataBroker{{NodeID: 1, Host: "b", Port: 9092}},
	})
}

func c22kCreate(st metadata.Store, name string) string {
	_, err := st.CreateTopic(context.Background(), metadata.TopicSpec{Name: name, NumPartitions: 1, ReplicationFactor: 1})
	if err == nil {
		return "accept"
	}
	return "reject"
}

func c22kDo(f []string) (out string) {
	defer func() {
		if r := recover(); r != nil {
			out = "panic"
		}
	}()
	ctx := context.Background()
	switch {
	case f[0] == "accept" && len(f) == 2:
		t, ok := c22kUnhx(f[1])
		if !ok {
			return "bad-op"
		}
		return c22kCreate(c22kNewstore(), t)
	case f[0] == "keys" && len(f) == 5:
		ns, ok1 := c22kUnhx(f[1])
		t, ok2 := c22kUnhx(f[2])
		p, err1 := strconv.ParseInt(f[3], 10, 32)
		b, err2 := strconv.ParseInt(f[4], 10, 64)
		if !ok1 || !ok2 || err1 != nil || err2 != nil {
			return "bad-op"
		}
		seg, idx, pfx, ctk := storage.VerifKeysC22(ns, t, int32(p), b)
		off, lease, res, mem := metadata.VerifKeysC22(t, int32(p))
		return strings.Join([]string{
			"seg=" + c22kHx(seg), "idx=" + c22kHx(idx), "pfx=" + c22kHx(pfx), "ctk=" + c22kHx(ctk),
			"cache=" + c22kHx(cache.VerifMakeKeyC22(ctk, int32(p), b)),
			"off=" + c22kHx(off), "cfg=" + c22kHx(metadata.TopicConfigKey(t)), "pst=" + c22kHx(metadata.PartitionStateKey(t, int32(p))),
			"del=" + c22kHx(metadata.VerifTopicDeletePrefixC22(t)), "lease=" + c22kHx(lease),
			"asg=" + c22kHx(metadata.PartitionAssignmentKey(t, int32(p))), "res=" + c22kHx(res), "mem=" + c22kHx(mem),
		}, " ")
	case f[0] == "clean" && len(f) == 2:
		p, ok := c22kUnhx(f[1])
		if !ok {
			return "bad-op"
		}
		return "clean " + c22kHx(path.Clean(p))
	case f[0] == "join":
		var es []string
		for _, e := range f[1:] {
			s, ok := c22kUnhx(e)
			if !ok {
				return "bad-op"
			}
			es = append(es, s)
		}
		return "join " + c22kHx(path.Join(es...))
	case f[0] == "pair" && len(f) == 3:
		// behaviour-level aliasing probe on one real store: does deleting topic a disturb topic b?
		a, ok1 := c22kUnhx(f[1])
		b, ok2 := c22kUnhx(f[2])
		if !ok1 || !ok2 {
			return "bad-op"
		}
		st := c22kNewstore()
		ra, rb := c22kCreate(st, a), c22kCreate(st, b)
		if ra != "accept" || rb != "accept" {
			return fmt.Sprintf("pair a=%s b=%s", ra, rb)
		}
		_ = st.UpdateOffsets(ctx, a, 0, 41)
		_ = st.UpdateOffsets(ctx, b, 0, 17)
		derr := st.DeleteTopic(ctx, a)
		next, nerr := st.NextOffset(ctx, b, 0)
		return fmt.Sprintf("pair a=%s b=%s del=%v next=%d nerr=%v", ra, rb, derr == nil, next, nerr == nil)
	}
	return "bad-op"
}
