//go:build verif

// C22 scenario harness (compiled into cmd/broker only with -tags verif; active only when
// VERIF_HARNESS=C22): concurrent FIRST produce requests for two (topic, partition) pairs on a freshly
// started broker, through the real handleProduce -> getPartitionLog -> singleflight -> PartitionLog ->
// S3 / metadata store (op `first`; every other op is a key-constructor / acceptance op, see
// zz_verif_c22_keys.go).  The metadata store is gated so that the first pair's initialisation
// (store.NextOffset inside the singleflight callback) is still in flight when the second pair's first
// request arrives.  One canonical line per scenario; checks/C22.py decides whether every record landed
// under its own topic's S3 prefix and metadata offsets.
//
//	first <hexTopicA> <partA> <nA> <hexTopicB> <partB> <nB> <exists|auto> <follow 0|1>
//
// Only the FIRST NextOffset call for (topicA, partA) is gated, so with distinct singleflight keys the
// second request runs its own initialisation and finishes while the first is parked; every wait has a
// timeout and becomes a reported outcome.
package main

import (
	"bufio"
	"context"
	"encoding/binary"
	"encoding/hex"
	"fmt"
	"hash/crc32"
	"io"
	"log/slog"
	"os"
	"runtime"
	"sort"
	"strconv"
	"strings"
	"sync"
	"time"

	"github.com/twmb/franz-go/pkg/kmsg"

	"github.com/KafScale/platform/pkg/metadata"
	"github.com/KafScale/platform/pkg/protocol"
	"github.com/KafScale/platform/pkg/storage"
)

func init() {
	if os.Getenv("VERIF_HARNESS") == "C22" {
		verifC22Main()
		os.Exit(0)
	}
}

// ---------------------------------------------------------------- recording S3

type c22S3 struct {
	mu   sync.Mutex
	segs map[string][]byte
	idxs map[string][]byte
}

func (s *c22S3) UploadSegment(ctx context.Context, key string, body []byte) error {
	s.mu.Lock()
	defer s.mu.Unlock()
	s.segs[key] = append([]byte(nil), body...)
	return nil
}
func (s *c22S3) UploadIndex(ctx context.Context, key string, body []byte) error {
	s.mu.Lock()
	defer s.mu.Unlock()
	s.idxs[key] = append([]byte(nil), body...)
	return nil
}
func (s *c22S3) DeleteSegment(ctx context.Context, key string) error {
	s.mu.Lock()
	defer s.mu.Unlock()
	delete(s.segs, key)
	return nil
}
func (s *c22S3) DeleteIndex(ctx context.Context, key string) error {
	s.mu.Lock()
	defer s.mu.Unlock()
	delete(s.idxs, key)
	return nil
}
func (s *c22S3) EnsureBucket(ctx context.Context) error { return nil }
func (s *c22S3) DownloadSegment(ctx context.Context, key string, rng *storage.ByteRange) ([]byte, error) {
	s.mu.Lock()
	defer s.mu.Unlock()
	data, ok := s.segs[key]
	if !ok {
		return nil, fmt.Errorf("segment %s: %w", key, storage.ErrNotFound)
	}
	if rng == nil {
		return append([]byte(nil), data...), nil
	}
	start, end := rng.Start, rng.End
	if start < 0 {
		start = 0
	}
	if end >= int64(len(data)) {
		end = int64(len(data)) - 1
	}
	if start > end || start >= int64(len(data)) {
		return nil, fmt.Errorf("segment %s range %d-%d invalid", key, rng.Start, rng.End)
	}
	return append([]byte(nil), data[start:end+1]...), nil
}
func (s *c22S3) DownloadIndex(ctx context.Context, key string) ([]byte, error) {
	s.mu.Lock()
	defer s.mu.Unlock()
	data, ok := s.idxs[key]
	if !ok {
		return nil, fmt.Errorf("index %s: %w", key, storage.ErrNotFound)
	}
	return append([]byte(nil), data...), nil
}

// ListSegments lists every object under the prefix (segments and indexes, as a real bucket does).
func (s *c22S3) ListSegments(ctx context.Context, prefix string) ([]storage.S3Object, error) {
	s.mu.Lock()
	defer s.mu.Unlock()
	var out []storage.S3Object
	for _, m := range []map[string][]byte{s.segs, s.idxs} {
		for k, b := range m {
			if strings.HasPrefix(k, prefix) {
				out = append(out, storage.S3Object{Key: k, Size: int64(len(b))})
			}
		}
	}
	sort.Slice(out, func(i, j int) bool { return out[i].Key > out[j].Key })
	return out, nil
}

// ---------------------------------------------------------------- gated, recording store

type c22Store struct {
	metadata.Store
	gateTopic string
	gatePart  int32
	once      sync.Once
	entered   chan struct{}
	release   chan struct{}
	mu        sync.Mutex
	updates   []string
}

func (s *c22Store) NextOffset(ctx context.Context, topic string, partition int32) (int64, error) {
	if topic == s.gateTopic && partition == s.gatePart {
		first := false
		s.once.Do(func() { first = true })
		if first { // only the very first lookup parks: later ones (retry after auto-create, other callers) run through
			close(s.entered)
			select {
			case <-s.release:
			case <-time.After(30 * time.Second):
			}
		}
	}
	return s.Store.NextOffset(ctx, topic, partition)
}

func (s *c22Store) UpdateOffsets(ctx context.Context, topic string, partition int32, lastOffset int64) error {
	err := s.Store.UpdateOffsets(ctx, topic, partition, lastOffset)
	s.mu.Lock()
	s.updates = append(s.updates, fmt.Sprintf("%s/%d:%d", c22Esc(topic), partition, lastOffset))
	s.mu.Unlock()
	return err
}

// ---------------------------------------------------------------- batches (one-byte varints: n <= 63)

var c22Castagnoli = crc32.MakeTable(crc32.Castagnoli)

func c22BatchBytes(id, n int) []byte {
	b := make([]byte, 61, 61+11*n)
	b[16] = 2
	binary.BigEndian.PutUint32(b[23:27], uint32(n-1))
	binary.BigEndian.PutUint64(b[27:35], 1700000000000)
	binary.BigEndian.PutUint64(b[35:43], 1700000000000)
	binary.BigEndian.PutUint64(b[43:51], ^uint64(0))
	binary.BigEndian.PutUint16(b[51:53], ^uint16(0))
	binary.BigEndian.PutUint32(b[53:57], ^uint32(0))
	binary.BigEndian.PutUint32(b[57:61], uint32(n))
	for i := 0; i < n; i++ {
		rec := []byte{0x14, 0, 0, byte(2 * i), 0x01, 0x08, 0, 0, 0, 0, 0}
		binary.BigEndian.PutUint32(rec[6:10], uint32(id))
		b = append(b, rec...)
	}
	binary.BigEndian.PutUint32(b[8:12], uint32(len(b)-12))
	binary.BigEndian.PutUint32(b[17:21], crc32.Checksum(b[21:], c22Castagnoli))
	return b
}

// c22Describe walks the record batches of a segment object: "id@base+n.id@base+n".
func c22Describe(seg []byte) string {
	if len(seg) < 32+16 {
		return "?"
	}
	data := seg[32 : len(seg)-16]
	var parts []string
	p := 0
	for p+61 <= len(data) {
		blen := int(binary.BigEndian.Uint32(data[p+8 : p+12]))
		if blen <= 0 || p+12+blen > len(data) || 12+blen < 72 {
			parts = append(parts, "?")
			break
		}
		base := int64(binary.BigEndian.Uint64(data[p : p+8]))
		delta := int32(binary.BigEndian.Uint32(data[p+23 : p+27]))
		id := binary.BigEndian.Uint32(data[p+67 : p+71])
		parts = append(parts, fmt.Sprintf("%d@%d+%d", id, base, int64(delta)+1))
		p += 12 + blen
	}
	if p != len(data) && (len(parts) == 0 || parts[len(parts)-1] != "?") {
		parts = append(parts, "?")
	}
	if len(parts) == 0 {
		return "-"
	}
	return strings.Join(parts, ".")
}

// c22Esc keeps keys one token: bytes outside [A-Za-z0-9._/-] are %XX.
func c22Esc(s string) string {
	var b strings.Builder
	for i := 0; i < len(s); i++ {
		c := s[i]
		if c >= 'a' && c <= 'z' || c >= 'A' && c <= 'Z' || c >= '0' && c <= '9' || c == '.' || c == '_' || c == '/' || c == '-' {
			b.WriteByte(c)
		} else {
			fmt.Fprintf(&b, "%%%02X", c)
		}
	}
	if b.Len() == 0 {
		return "%"
	}
	return b.String()
}

// ---------------------------------------------------------------- goroutine inspection

func c22Goid() string {
	buf := make([]byte, 64)
	n := runtime.Stack(buf, false)
	f := strings.Fields(string(buf[:n]))
	if len(f) >= 2 {
		return f[1]
	}
	return "?"
}

var c22StackBuf = make([]byte, 1<<20)

// c22Joined: the goroutine waits inside singleflight.Group.Do for a call started by ANOTHER goroutine.
func c22Joined(goid string) bool {
	n := runtime.Stack(c22StackBuf, true)
	for n == len(c22StackBuf) {
		c22StackBuf = make([]byte, 2*len(c22StackBuf))
		n = runtime.Stack(c22StackBuf, true)
	}
	for _, blk := range strings.Split(string(c22StackBuf[:n]), "\n\n") {
		if !strings.HasPrefix(blk, "goroutine "+goid+" ") {
			continue
		}
		return strings.Contains(blk, "singleflight.(*Group).Do(") && !strings.Contains(blk, "singleflight.(*Group).doCall(") &&
			strings.Contains(blk, "sync.(*WaitGroup).Wait(")
	}
	return false
}

// ---------------------------------------------------------------- one scenario

type c22Res struct {
	goid chan string
	done chan string
}

func c22Produce(h *handler, topic string, part int32, id, n int) string {
	req := kmsg.NewPtrProduceRequest()
	req.Acks = -1
	req.TimeoutMillis = 1000
	rt := kmsg.NewProduceRequestTopic()
	rt.Topic = topic
	rp := kmsg.NewProduceRequestTopicPartition()
	rp.Partition = part
	rp.Records = c22BatchBytes(id, n)
	rt.Partitions = append(rt.Partitions, rp)
	req.Topics = append(req.Topics, rt)
	const version = 7
	out, err := h.handleProduce(context.Background(), &protocol.RequestHeader{APIKey: protocol.APIKeyProduce, APIVersion: version, CorrelationID: 7}, req)
	if err != nil || len(out) < 4 {
		return "err"
	}
	resp := kmsg.NewPtrProduceResponse()
	resp.SetVersion(version)
	if err := resp.ReadFrom(out[4:]); err != nil || len(resp.Topics) != 1 || len(resp.Topics[0].Partitions) != 1 {
		return "badresp"
	}
	p := resp.Topics[0].Partitions[0]
	return fmt.Sprintf("%d:%d", p.ErrorCode, p.BaseOffset)
}

func c22Start(h *handler, topic string, part int32, id, n int) *c22Res {
	r := &c22Res{goid: make(chan string, 1), done: make(chan string, 1)}
	go func() {
		r.goid <- c22Goid()
		defer func() {
			if x := recover(); x != nil {
				r.done <- "panic"
			}
		}()
		r.done <- c22Produce(h, topic, part, id, n)
	}()
	return r
}

func c22Create(st metadata.Store, name string, parts int32) bool {
	_, err := st.CreateTopic(context.Background(), metadata.TopicSpec{Name: name, NumPartitions: parts, ReplicationFactor: 1})
	return err == nil
}

func c22First(tA string, pA int32, nA int, tB string, pB int32, nB int, mode string, follow bool) string {
	ctx := context.Background()
	brokerInfo := protocol.MetadataBroker{NodeID: 1, Host: "localhost", Port: 19092}
	mem := metadata.NewInMemoryStore(metadata.ClusterMetadata{Brokers: []protocol.MetadataBroker{brokerInfo}, ControllerID: 1})
	// acceptance is decided by the real CreateTopic (on a scratch store in auto mode)
	probe := mem
	if mode == "auto" {
		probe = metadata.NewInMemoryStore(metadata.ClusterMetadata{Brokers: []protocol.MetadataBroker{brokerInfo}, ControllerID: 1})
	}
	acc := func(ok bool) string {
		if ok {
			return "a"
		}
		return "r"
	}
	var okA, okB bool
	if tA == tB {
		mx := pA
		if pB > mx {
			mx = pB
		}
		okA = c22Create(probe, tA, mx+1)
		okB = okA
	} else {
		okA = c22Create(probe, tA, pA+1)
		okB = c22Create(probe, tB, pB+1)
	}
	if !okA || !okB {
		return "first create=" + acc(okA) + acc(okB) + " skipped"
	}
	s3 := &c22S3{segs: map[string][]byte{}, idxs: map[string][]byte{}}
	st := &c22Store{Store: mem, gateTopic: tA, gatePart: pA, entered: make(chan struct{}), release: make(chan struct{})}
	os.Setenv("KAFSCALE_AUTO_CREATE_TOPICS", "true")
	os.Setenv("KAFSCALE_PRODUCE_SYNC_FLUSH", "true")
	h := newHandler(st, s3, brokerInfo, slog.New(slog.NewTextHandler(io.Discard, nil)))
	defer func() {
		if h.coordinator != nil {
			h.coordinator.Stop()
		}
	}()
	out := []string{"first create=aa"}

	ra := c22Start(h, tA, pA, 1, nA)
	<-ra.goid
	park := "ok"
	select {
	case <-st.entered:
	case <-time.After(5 * time.Second):
		park = "none"
	}
	out = append(out, "park="+park)

	rb := c22Start(h, tB, pB, 2, nB)
	gb := <-rb.goid
	resB, bwait := "", ""
	deadline := time.Now().Add(3 * time.Second)
	for bwait == "" {
		select {
		case resB = <-rb.done:
			bwait = "done"
		default:
			if c22Joined(gb) {
				bwait = "joined"
			} else if time.Now().After(deadline) {
				bwait = "timeout"
			} else {
				time.Sleep(200 * time.Microsecond)
			}
		}
	}
	out = append(out, "bwait="+bwait)
	close(st.release)
	wait := func(r *c22Res, have string) string {
		if have != "" {
			return have
		}
		select {
		case v := <-r.done:
			return v
		case <-time.After(10 * time.Second):
			return "hang"
		}
	}
	resA := wait(ra, "")
	resB = wait(rb, resB)
	out = append(out, "a="+resA, "b="+resB)
	if follow && resA != "hang" && resB != "hang" {
		// afterwards, sequentially: one more batch to each (whatever log each partition is bound to now)
		out = append(out, "a2="+wait(c22Start(h, tA, pA, 3, 1), ""), "b2="+wait(c22Start(h, tB, pB, 4, 1), ""))
	}

	s3.mu.Lock()
	var objs, idxs []string
	for k, b := range s3.segs {
		objs = append(objs, c22Esc(k)+"["+c22Describe(b)+"]")
	}
	for k := range s3.idxs {
		idxs = append(idxs, c22Esc(k))
	}
	s3.mu.Unlock()
	sort.Strings(objs)
	sort.Strings(idxs)
	st.mu.Lock()
	upd := append([]string(nil), st.updates...)
	st.mu.Unlock()
	sort.Strings(upd)
	join := func(l []string) string {
		if len(l) == 0 {
			return "-"
		}
		return strings.Join(l, ";")
	}
	next := func(t string, p int32) string {
		n, err := mem.NextOffset(ctx, t, p)
		if err != nil {
			return "err"
		}
		return strconv.FormatInt(n, 10)
	}
	out = append(out, "objs="+join(objs), "idx="+join(idxs), "upd="+join(upd), "nextA="+next(tA, pA), "nextB="+next(tB, pB))
	return strings.Join(out, " ")
}

func verifC22Main() {
	w := bufio.NewWriter(os.Stdout)
	defer w.Flush()
	defer c22dStop() // embedded etcd of the `delfam` op (zz_verif_c22_delfam.go), started on first use
	sc := bufio.NewScanner(os.Stdin)
	sc.Buffer(make([]byte, 1<<16), 1<<22)
	unhx := func(s string) (string, bool) {
		if s == "-" {
			return "", true
		}
		b, err := hex.DecodeString(s)
		return string(b), err == nil
	}
	for sc.Scan() {
		f := strings.Fields(sc.Text())
		if len(f) == 0 || strings.HasPrefix(f[0], "#") {
			continue
		}
		if f[0] == "delfam" { // delete-selector scenario on both real stores (zz_verif_c22_delfam.go)
			fmt.Fprintln(w, c22dDelFam(f))
			w.Flush()
			continue
		}
		if f[0] != "first" { // key-constructor / acceptance ops (zz_verif_c22_keys.go)
			fmt.Fprintln(w, c22kDo(f))
			continue
		}
		line := "bad-op"
		if len(f) == 9 {
			tA, ok1 := unhx(f[1])
			pA, e1 := strconv.ParseInt(f[2], 10, 32)
			nA, e2 := strconv.Atoi(f[3])
			tB, ok2 := unhx(f[4])
			pB, e3 := strconv.ParseInt(f[5], 10, 32)
			nB, e4 := strconv.Atoi(f[6])
			if ok1 && ok2 && e1 == nil && e2 == nil && e3 == nil && e4 == nil && pA >= 0 && pB >= 0 && pA <= 100000 && pB <= 100000 &&
				nA >= 1 && nA <= 63 && nB >= 1 && nB <= 63 && (f[7] == "exists" || f[7] == "auto") && (tA != tB || pA != pB) {
				func() {
					defer func() {
						if r := recover(); r != nil {
							line = "first panic"
						}
					}()
					line = c22First(tA, int32(pA), nA, tB, int32(pB), nB, f[7], f[8] == "1")
				}()
			}
		}
		fmt.Fprintln(w, line)
		w.Flush()
	}
}
