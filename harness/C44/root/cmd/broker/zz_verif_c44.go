//go:build verif

package main

// C44 correspondence harness: when VERIF_HARNESS=C44 the broker binary drives the real
// dualS3Client (newDualS3Client) over two instrumented storage.MemoryS3Client backends with the
// op lines on stdin and prints one canonical line per op (format of lean/Driver/C44.lean).

import (
	"bufio"
	"context"
	"encoding/binary"
	"encoding/hex"
	"errors"
	"fmt"
	"os"
	"sort"
	"strconv"
	"strings"
	"sync"
	"time"

	"github.com/KafScale/platform/pkg/storage"
)

// verifC44Mode is a per-key read behaviour of a backend: "" (answer at once), "slowok" (answer after ms),
// "slowfail"/"hang" (block for ms, then fail like a reset connection).  Every wait ends early when the
// caller's context is done and then returns ctx.Err(), like a real S3 client.
type verifC44Mode struct {
	kind string
	ms   int
}

// verifC44Gate makes the primary's download calls of one `conc` op overlap: a call waits until n calls
// have arrived (or 60 ms passed — coalesced calls never arrive).
type verifC44Gate struct {
	mu      sync.Mutex
	n, seen int
	ch      chan struct{}
}

func (g *verifC44Gate) arrive() {
	g.mu.Lock()
	g.seen++
	if g.seen == g.n {
		close(g.ch)
	}
	g.mu.Unlock()
	select {
	case <-g.ch:
	case <-time.After(60 * time.Millisecond):
	}
}

type verifC44Backend struct {
	tag             string
	inner           *storage.MemoryS3Client
	failing         map[string]bool
	mode            map[string]verifC44Mode
	gate            *verifC44Gate
	failIndexUpload bool
	log             *[]string
	// opFault: injected fault of a non-download method (by Go method name): 0 = healthy, n > 0 = the next n calls
	// fail (throttling / 5xx / network), -1 = every call fails until cleared.  A failing call changes nothing.
	opFault map[string]int
	// answers: what THIS backend answered to each non-download call of the current op ("ok", "err", "list:…")
	answers *[]string
}

// opGate notes the call, then applies context and the injected method fault.
func (b *verifC44Backend) opGate(ctx context.Context, method string) error {
	b.note(method)
	if err := ctx.Err(); err != nil {
		return b.answer(err, "")
	}
	if n := b.opFault[method]; n != 0 {
		if n > 0 {
			b.opFault[method] = n - 1
		}
		return b.answer(errVerifC44Injected, "")
	}
	return nil
}

// answer records what this backend returns to the current call.
func (b *verifC44Backend) answer(err error, okText string) error {
	if b.answers != nil {
		if err != nil {
			*b.answers = append(*b.answers, "err")
		} else if okText != "" {
			*b.answers = append(*b.answers, okText)
		} else {
			*b.answers = append(*b.answers, "ok")
		}
	}
	return err
}

// readGate applies context, slow/fail behaviour and the injected fault of a download of key.
func (b *verifC44Backend) readGate(ctx context.Context, key string) error {
	if err := ctx.Err(); err != nil {
		return err
	}
	if b.gate != nil {
		b.gate.arrive()
	}
	if m, ok := b.mode[key]; ok && m.kind != "" {
		t := time.NewTimer(time.Duration(m.ms) * time.Millisecond)
		select {
		case <-ctx.Done():
			t.Stop()
			return ctx.Err()
		case <-t.C:
		}
		if m.kind != "slowok" {
			return errVerifC44Injected
		}
	}
	if b.failing[key] {
		return errVerifC44Injected
	}
	return ctx.Err()
}

var errVerifC44Injected = errors.New("injected read fault")

func (b *verifC44Backend) note(m string) {
	if b.log != nil {
		*b.log = append(*b.log, b.tag+"."+m)
	}
}
func (b *verifC44Backend) UploadSegment(ctx context.Context, key string, body []byte) error {
	if err := b.opGate(ctx, "UploadSegment"); err != nil {
		return err
	}
	return b.answer(b.inner.UploadSegment(ctx, key, body), "")
}
func (b *verifC44Backend) UploadIndex(ctx context.Context, key string, body []byte) error {
	if err := b.opGate(ctx, "UploadIndex"); err != nil {
		return err
	}
	if b.failIndexUpload {
		return b.answer(errVerifC44Injected, "")
	}
	return b.answer(b.inner.UploadIndex(ctx, key, body), "")
}
func (b *verifC44Backend) DeleteSegment(ctx context.Context, key string) error {
	if err := b.opGate(ctx, "DeleteSegment"); err != nil {
		return err
	}
	return b.answer(b.inner.DeleteSegment(ctx, key), "")
}
func (b *verifC44Backend) DeleteIndex(ctx context.Context, key string) error {
	if err := b.opGate(ctx, "DeleteIndex"); err != nil {
		return err
	}
	return b.answer(b.inner.DeleteIndex(ctx, key), "")
}
func (b *verifC44Backend) DownloadSegment(ctx context.Context, key string, rng *storage.ByteRange) ([]byte, error) {
	b.note("DownloadSegment")
	if err := b.readGate(ctx, key); err != nil {
		return nil, err
	}
	data, err := b.inner.DownloadSegment(ctx, key, rng)
	if err != nil {
		// like the AWS client (NoSuchKey -> storage.ErrNotFound): a missing object is classified, a bad range is not
		if _, e2 := b.inner.DownloadSegment(ctx, key, nil); e2 != nil {
			return nil, fmt.Errorf("get object %s: %w", key, storage.ErrNotFound)
		}
	}
	return data, err
}
func (b *verifC44Backend) DownloadIndex(ctx context.Context, key string) ([]byte, error) {
	b.note("DownloadIndex")
	if err := b.readGate(ctx, key); err != nil {
		return nil, err
	}
	return b.inner.DownloadIndex(ctx, key)
}
func (b *verifC44Backend) ListSegments(ctx context.Context, prefix string) ([]storage.S3Object, error) {
	if err := b.opGate(ctx, "ListSegments"); err != nil {
		return nil, err
	}
	objs, err := b.inner.ListSegments(ctx, prefix)
	if err != nil {
		return nil, b.answer(err, "")
	}
	_ = b.answer(nil, "list:"+verifC44Listing(objs))
	return objs, nil
}
func (b *verifC44Backend) EnsureBucket(ctx context.Context) error {
	if err := b.opGate(ctx, "EnsureBucket"); err != nil {
		return err
	}
	return b.answer(b.inner.EnsureBucket(ctx), "")
}

// verifC44Listing is the canonical form of a listing: id:size sorted by id (-1 = not one of the harness keys).
func verifC44Listing(objs []storage.S3Object) string {
	type kv struct {
		k    int
		size int64
	}
	var kvs []kv
	for _, o := range objs {
		id := -1
		for k := 0; k < 64; k++ {
			if verifC44SegKey(k) == o.Key {
				id = k
			}
		}
		kvs = append(kvs, kv{id, o.Size})
	}
	sort.Slice(kvs, func(i, j int) bool { return kvs[i].k < kvs[j].k })
	var items []string
	for _, e := range kvs {
		items = append(items, fmt.Sprintf("%d:%d", e.k, e.size))
	}
	return strings.Join(items, ",")
}

var verifC44Methods = map[string]bool{"UploadSegment": true, "UploadIndex": true, "DeleteSegment": true, "DeleteIndex": true,
	"ListSegments": true, "EnsureBucket": true}

func verifC44SegKey(k int) string {
	return fmt.Sprintf("ns/topic-%d/%d/segment-%020d.kfs", k/4, k%2, (k%4)*100)
}
func verifC44IdxKey(k int) string {
	return fmt.Sprintf("ns/topic-%d/%d/segment-%020d.index", k/4, k%2, (k%4)*100)
}

func verifC44Res(d []byte, err error) string {
	if err != nil {
		return "err"
	}
	if len(d) == 0 {
		return "ok -"
	}
	return "ok " + hex.EncodeToString(d)
}

// verifC44Class is the error CLASS callers of an S3Client branch on (PartitionLog.RestoreFromS3 skips a segment as
// orphaned exactly when errors.Is(err, storage.ErrNotFound)): "-" no error, "nf" not found, "other" anything else.
func verifC44Class(err error) string {
	switch {
	case err == nil:
		return "-"
	case errors.Is(err, storage.ErrNotFound):
		return "nf"
	}
	return "other"
}

// verifC44OrphanScenario replays, on the real PartitionLog over the real dual client, the history
// that makes the broker overwrite an S3 key: flush 1 uploads segment-0.kfs but its index upload
// fails (orphan, not acknowledged); the replica copies the orphan; after a restart RestoreFromS3
// skips the orphan, the next append gets base offset 0 again and flush 2 overwrites segment-0.kfs
// on the primary; the replica still holds the orphan when offset 0 is read.
func verifC44OrphanScenario() string {
	ctx := context.Background()
	pri := &verifC44Backend{tag: "w", inner: storage.NewMemoryS3Client(), failing: map[string]bool{}}
	rep := &verifC44Backend{tag: "r", inner: storage.NewMemoryS3Client(), failing: map[string]bool{}}
	dual := newDualS3Client(pri, rep)
	cfg := storage.PartitionLogConfig{
		Buffer:  storage.WriteBufferConfig{MaxBytes: 1 << 20, FlushInterval: time.Hour},
		Segment: storage.SegmentWriterConfig{IndexIntervalMessages: 1},
	}
	mk := func(marker byte) storage.RecordBatch {
		data := make([]byte, 70)
		binary.BigEndian.PutUint32(data[57:61], 1)
		data[12] = marker
		b, _ := storage.NewRecordBatchFromBytes(data)
		return b
	}
	marker := func(d []byte, err error) string {
		if err != nil || len(d) < 13 {
			return "err"
		}
		return fmt.Sprintf("%02x", d[12])
	}
	st := func(err error) string {
		if err != nil {
			return "err"
		}
		return "ok"
	}
	log1 := storage.NewPartitionLog("ns", "orders", 0, 0, dual, nil, cfg, nil, nil, nil)
	if _, err := log1.AppendBatch(ctx, mk(0x11)); err != nil {
		return "scenario append1=err"
	}
	pri.failIndexUpload = true
	flush1 := st(log1.Flush(ctx))
	pri.failIndexUpload = false
	// replication catches up on the orphan segment object
	segKey := "ns/orders/0/segment-00000000000000000000.kfs"
	orphan, errO := pri.inner.DownloadSegment(ctx, segKey, nil)
	if errO == nil {
		_ = rep.inner.UploadSegment(ctx, segKey, orphan)
	}
	// restart
	log2 := storage.NewPartitionLog("ns", "orders", 0, 0, dual, nil, cfg, nil, nil, nil)
	restored, errR := log2.RestoreFromS3(ctx)
	if errR != nil {
		return "scenario flush1=" + flush1 + " restore=err"
	}
	res, err := log2.AppendBatch(ctx, mk(0x22))
	if err != nil {
		return "scenario append2=err"
	}
	flush2 := st(log2.Flush(ctx))
	// the index object replicates, the overwritten segment object lags
	idxKey := "ns/orders/0/segment-00000000000000000000.index"
	if d, e := pri.inner.DownloadIndex(ctx, idxKey); e == nil {
		_ = rep.inner.UploadIndex(ctx, idxKey, d)
	}
	got := marker(log2.Read(ctx, 0, 1<<20))
	// what the primary bucket alone serves
	log3 := storage.NewPartitionLog("ns", "orders", 0, 0, pri, nil, cfg, nil, nil, nil)
	_, _ = log3.RestoreFromS3(ctx)
	want := marker(log3.Read(ctx, 0, 1<<20))
	return fmt.Sprintf("scenario flush1=%s orphan=%s restore=%d base2=%d flush2=%s read=%s primary=%s",
		flush1, st(errO), restored, res.BaseOffset, flush2, got, want)
}

// verifC44RestoreScenario drives the real PartitionLog.RestoreFromS3 through the real dual client while the replica
// LAGS (it holds segment 0..4 with its index, the primary also holds segment 5..11) and the primary's ListSegments
// fails once (a1 = first attempt, a2 = the caller's retry), fails persistently (b1, b2) or is healthy (c).
// Every attempt must either fail or restore the primary's last offset (want); rbad = non-download calls that
// reached the replica.
func verifC44RestoreScenario() string {
	ctx := context.Background()
	var calls []string
	pri := &verifC44Backend{tag: "w", inner: storage.NewMemoryS3Client(), failing: map[string]bool{}, opFault: map[string]int{}, log: &calls}
	rep := &verifC44Backend{tag: "r", inner: storage.NewMemoryS3Client(), failing: map[string]bool{}, opFault: map[string]int{}, log: &calls}
	cfg := storage.PartitionLogConfig{
		Buffer:  storage.WriteBufferConfig{MaxBytes: 1 << 20, FlushInterval: time.Hour},
		Segment: storage.SegmentWriterConfig{IndexIntervalMessages: 1},
	}
	mk := func(records int32, marker byte) storage.RecordBatch {
		data := make([]byte, 70)
		binary.BigEndian.PutUint32(data[23:27], uint32(records-1))
		binary.BigEndian.PutUint32(data[57:61], uint32(records))
		data[12] = marker
		b, _ := storage.NewRecordBatchFromBytes(data)
		return b
	}
	newLog := func(c storage.S3Client) *storage.PartitionLog {
		return storage.NewPartitionLog("ns", "orders", 0, 0, c, nil, cfg, nil, nil, nil)
	}
	writer := newLog(pri.inner)
	if _, err := writer.AppendBatch(ctx, mk(5, 0x61)); err != nil {
		return "restore setup=append1-err"
	}
	if err := writer.Flush(ctx); err != nil {
		return "restore setup=flush1-err"
	}
	// replication catches up on everything written so far
	objs, err := pri.inner.ListSegments(ctx, "ns/orders/0/")
	if err != nil || len(objs) != 1 {
		return "restore setup=list-err"
	}
	for _, o := range objs {
		if d, e := pri.inner.DownloadSegment(ctx, o.Key, nil); e == nil {
			_ = rep.inner.UploadSegment(ctx, o.Key, d)
		}
		ik := strings.TrimSuffix(o.Key, ".kfs") + ".index"
		if d, e := pri.inner.DownloadIndex(ctx, ik); e == nil {
			_ = rep.inner.UploadIndex(ctx, ik, d)
		}
	}
	// the next segment reaches the primary only: the replica lags
	if _, err := writer.AppendBatch(ctx, mk(7, 0x62)); err != nil {
		return "restore setup=append2-err"
	}
	if err := writer.Flush(ctx); err != nil {
		return "restore setup=flush2-err"
	}
	want, err := newLog(pri.inner).RestoreFromS3(ctx)
	if err != nil {
		return "restore setup=primary-restore-err"
	}
	replicaAlone, _ := newLog(rep.inner).RestoreFromS3(ctx)
	attempt := func() (res string) {
		defer func() {
			if r := recover(); r != nil {
				res = "panic"
			}
		}()
		last, err := newLog(newDualS3Client(pri, rep)).RestoreFromS3(ctx)
		if err != nil {
			return "err"
		}
		return strconv.FormatInt(last, 10)
	}
	pri.opFault["ListSegments"] = 1
	a1, a2 := attempt(), attempt()
	pri.opFault["ListSegments"] = -1
	b1, b2 := attempt(), attempt()
	pri.opFault["ListSegments"] = 0
	c := attempt()
	// the replica lags on the INDEX of the second segment (not found there) and the primary's read of that index fails
	// transiently in the same restore: the primary alone reports the error (pd1); through the dual client the restore must
	// not treat the segment as an orphan (d1 = err or want); after the fault cleared the retry restores everything (d2)
	idx2 := "ns/orders/0/segment-00000000000000000005.index"
	if _, e := pri.inner.DownloadIndex(ctx, idx2); e != nil {
		return "restore setup=second-index-missing"
	}
	_, e0 := rep.inner.DownloadIndex(ctx, idx2)
	repcls := verifC44Class(e0)
	pri.failing[idx2] = true
	pd1 := func() string {
		last, err := newLog(pri).RestoreFromS3(ctx)
		if err != nil {
			return "err"
		}
		return strconv.FormatInt(last, 10)
	}()
	_, e1 := newDualS3Client(pri, rep).DownloadIndex(ctx, idx2)
	_, e2 := pri.DownloadIndex(ctx, idx2)
	d1 := attempt()
	pri.failing[idx2] = false
	d2 := attempt()
	var rbad []string
	for _, cl := range calls {
		if strings.HasPrefix(cl, "r.") && cl != "r.DownloadSegment" && cl != "r.DownloadIndex" {
			rbad = append(rbad, cl)
		}
	}
	rb := "-"
	if len(rbad) > 0 {
		rb = strings.Join(rbad, ",")
	}
	return fmt.Sprintf("restore want=%d replica=%d a1=%s a2=%s b1=%s b2=%s c=%s rbad=%s repcls=%s d1=%s pd1=%s d2=%s dcls=%s pcls=%s",
		want, replicaAlone, a1, a2, b1, b2, c, rb, repcls, d1, pd1, d2, verifC44Class(e1), verifC44Class(e2))
}

// verifC44SlowScenario: for every stall duration (ms) four reads run concurrently — all of them at once, each on its own
// dual client — against replicas that are slow to fail / hang then fail / are slow to answer an equal copy, under a caller
// context of 30 s.  The stalls straddle any plausible replica-side timeout (default list 50 ms, 2.5 s, 6 s, 12 s), so
// whether or not the dual client bounds the replica read, whenever the replica does not deliver the caller must get what
// the primary holds.  Each result is printed next to what the primary alone answers: `<kind><ms>=<dual>/<primary>`.
func verifC44SlowScenario(stalls []int) string {
	bg := context.Background()
	type rd struct {
		name string
		kind string // seg | idx
		rng  *storage.ByteRange
		mode string
		copy bool // replica holds an equal copy
	}
	kinds := []rd{
		{"a", "seg", &storage.ByteRange{Start: 1, End: 5}, "slowfail", false},
		{"b", "idx", nil, "slowfail", true},
		{"c", "seg", nil, "hang", false},
		{"d", "seg", &storage.ByteRange{Start: 0, End: 2}, "slowok", true},
	}
	var reads []rd
	var ms []int
	for _, st := range stalls {
		for _, k := range kinds {
			k.name = k.name + strconv.Itoa(st)
			reads = append(reads, k)
			ms = append(ms, st)
		}
	}
	out := make([]string, len(reads))
	var wg sync.WaitGroup
	for i, r := range reads {
		wg.Add(1)
		go func(i int, r rd) {
			defer wg.Done()
			defer func() {
				if rec := recover(); rec != nil {
					out[i] = r.name + "=panic/-"
				}
			}()
			pri := &verifC44Backend{tag: "w", inner: storage.NewMemoryS3Client(), failing: map[string]bool{}, mode: map[string]verifC44Mode{}}
			rep := &verifC44Backend{tag: "r", inner: storage.NewMemoryS3Client(), failing: map[string]bool{}, mode: map[string]verifC44Mode{}}
			dual := newDualS3Client(pri, rep)
			body := []byte{byte(0x10 + i), 2, 3, 4, 5, 6, 7, 8}
			sk, ik := verifC44SegKey(i%64), verifC44IdxKey(i%64)
			_ = pri.inner.UploadSegment(bg, sk, body)
			_ = pri.inner.UploadIndex(bg, ik, body[:4])
			if r.copy {
				_ = rep.inner.UploadSegment(bg, sk, body)
				_ = rep.inner.UploadIndex(bg, ik, body[:4])
			}
			m := verifC44Mode{r.mode, ms[i]}
			rep.mode[sk], rep.mode[ik] = m, m
			ctx, cancel := context.WithTimeout(bg, 30*time.Second)
			defer cancel()
			var got, want string
			if r.kind == "seg" {
				got = verifC44Res(dual.DownloadSegment(ctx, sk, r.rng))
				want = verifC44Res(pri.inner.DownloadSegment(bg, sk, r.rng))
			} else {
				got = verifC44Res(dual.DownloadIndex(ctx, ik))
				want = verifC44Res(pri.inner.DownloadIndex(bg, ik))
			}
			out[i] = r.name + "=" + strings.ReplaceAll(got, " ", ":") + "/" + strings.ReplaceAll(want, " ", ":")
		}(i, r)
	}
	wg.Wait()
	return "slow " + strings.Join(out, " ")
}

func init() {
	if os.Getenv("VERIF_HARNESS") != "C44" {
		return
	}
	ctx := context.Background()
	w := bufio.NewWriter(os.Stdout)
	var calls, pans []string
	var pri, rep *verifC44Backend
	var dual storage.S3Client
	reset := func() {
		pri = &verifC44Backend{tag: "w", inner: storage.NewMemoryS3Client(), failing: map[string]bool{}, mode: map[string]verifC44Mode{}, log: &calls,
			opFault: map[string]int{}, answers: &pans}
		rep = &verifC44Backend{tag: "r", inner: storage.NewMemoryS3Client(), failing: map[string]bool{}, mode: map[string]verifC44Mode{}, log: &calls,
			opFault: map[string]int{}}
		dual = newDualS3Client(pri, rep)
	}
	reset()
	quiet := func(b *verifC44Backend) *verifC44Backend {
		return &verifC44Backend{tag: b.tag, inner: b.inner, failing: b.failing}
	}
	sc := bufio.NewScanner(os.Stdin)
	sc.Buffer(make([]byte, 1<<20), 1<<26)
	for sc.Scan() {
		f := strings.Fields(sc.Text())
		if len(f) == 0 || strings.HasPrefix(f[0], "#") {
			continue
		}
		calls = calls[:0]
		pans = pans[:0]
		out := func() (res string) {
			defer func() {
				if r := recover(); r != nil {
					res = "panic"
				}
			}()
			withCalls := func(s string) string { return s + " calls=" + strings.Join(calls, ",") }
			// result of a write/list/ensure call + backend calls + what the primary backend itself answered to this op
			// ("none" when the primary was not asked)
			withPans := func(s string) string {
				p := "none"
				if len(pans) > 0 {
					p = strings.Join(pans, "+")
				}
				return withCalls(s) + " pans=" + p
			}
			key := func(i int) (int, bool) {
				if len(f) <= i {
					return 0, false
				}
				k, err := strconv.Atoi(f[i])
				return k, err == nil && k >= 0 && k < 64
			}
			body := func(i int) ([]byte, bool) {
				if len(f) <= i {
					return nil, false
				}
				if f[i] == "-" {
					return []byte{}, true
				}
				b, err := hex.DecodeString(f[i])
				return b, err == nil
			}
			errStr := func(err error) string {
				if err != nil {
					return "err"
				}
				return "ok"
			}
			switch f[0] {
			case "scenario":
				return verifC44OrphanScenario()
			case "slow":
				// slow [ms,ms,...]
				stalls := []int{50, 2500, 6000, 12000}
				if len(f) == 2 {
					stalls = nil
					for _, x := range strings.Split(f[1], ",") {
						v, err := strconv.Atoi(x)
						if err != nil || v < 0 || v > 25000 {
							return "bad-op"
						}
						stalls = append(stalls, v)
					}
				}
				return verifC44SlowScenario(stalls)
			case "restore":
				return verifC44RestoreScenario()
			case "popfail", "ropfail":
				// popfail|ropfail <Method> none|once|always
				if len(f) != 3 || !verifC44Methods[f[1]] {
					return "bad-op"
				}
				n, ok := map[string]int{"none": 0, "once": 1, "always": -1}[f[2]]
				if !ok {
					return "bad-op"
				}
				if f[0] == "popfail" {
					pri.opFault[f[1]] = n
				} else {
					rep.opFault[f[1]] = n
				}
				return "ok"
			case "rmode":
				// rmode k ok|fail|slowok|slowfail|hang [ms]
				k, ok1 := key(1)
				if !ok1 || len(f) < 3 {
					return "bad-op"
				}
				ms := 5
				if len(f) == 4 {
					if v, err := strconv.Atoi(f[3]); err == nil {
						ms = v
					}
				}
				fail := false
				m := verifC44Mode{}
				switch f[2] {
				case "ok":
				case "fail":
					fail = true
				case "slowok", "slowfail", "hang":
					m = verifC44Mode{f[2], ms}
				default:
					return "bad-op"
				}
				for _, kk := range []string{verifC44SegKey(k), verifC44IdxKey(k)} {
					rep.failing[kk] = fail
					rep.mode[kk] = m
				}
				return "ok"
			case "conc":
				// conc s:k:start:end,s:k:-,i:k,...   2-4 reads issued concurrently; the primary's downloads are gated to overlap
				if len(f) != 2 {
					return "bad-op"
				}
				items := strings.Split(f[1], ",")
				type req struct {
					idx bool
					k   int
					rng *storage.ByteRange
				}
				var reqs []req
				for _, it := range items {
					p := strings.Split(it, ":")
					if len(p) < 2 {
						return "bad-op"
					}
					k, err := strconv.Atoi(p[1])
					if err != nil || k < 0 || k >= 64 {
						return "bad-op"
					}
					r := req{idx: p[0] == "i", k: k}
					if p[0] == "s" && len(p) == 4 {
						a, e1 := strconv.ParseInt(p[2], 10, 64)
						b, e2 := strconv.ParseInt(p[3], 10, 64)
						if e1 != nil || e2 != nil {
							return "bad-op"
						}
						r.rng = &storage.ByteRange{Start: a, End: b}
					}
					reqs = append(reqs, r)
				}
				savedPri, savedRep := pri.log, rep.log
				pri.log, rep.log = nil, nil
				pri.gate = &verifC44Gate{n: len(reqs), ch: make(chan struct{})}
				got := make([]string, len(reqs))
				var wg sync.WaitGroup
				for i, r := range reqs {
					wg.Add(1)
					go func(i int, r req) {
						defer wg.Done()
						defer func() {
							if rec := recover(); rec != nil {
								got[i] = "panic"
							}
						}()
						cctx, cancel := context.WithTimeout(ctx, 20*time.Second)
						defer cancel()
						if r.idx {
							got[i] = verifC44Res(dual.DownloadIndex(cctx, verifC44IdxKey(r.k)))
						} else {
							got[i] = verifC44Res(dual.DownloadSegment(cctx, verifC44SegKey(r.k), r.rng))
						}
					}(i, r)
				}
				wg.Wait()
				pri.gate = nil
				pri.log, rep.log = savedPri, savedRep
				parts := make([]string, len(reqs))
				for i, r := range reqs {
					var p string
					if r.idx {
						p = verifC44Res(quiet(pri).DownloadIndex(ctx, verifC44IdxKey(r.k)))
					} else {
						p = verifC44Res(quiet(pri).DownloadSegment(ctx, verifC44SegKey(r.k), r.rng))
					}
					parts[i] = strings.ReplaceAll(got[i], " ", ":") + "/" + strings.ReplaceAll(p, " ", ":")
				}
				return "conc " + strings.Join(parts, " ")
			case "new":
				reset()
				return "ok"
			case "upseg", "upidx":
				k, ok1 := key(1)
				b, ok2 := body(2)
				if !ok1 || !ok2 || len(f) != 3 {
					return "bad-op"
				}
				if f[0] == "upseg" {
					return withPans(errStr(dual.UploadSegment(ctx, verifC44SegKey(k), b)))
				}
				return withPans(errStr(dual.UploadIndex(ctx, verifC44IdxKey(k), b)))
			case "delseg", "delidx":
				k, ok1 := key(1)
				if !ok1 || len(f) != 2 {
					return "bad-op"
				}
				if f[0] == "delseg" {
					return withPans(errStr(dual.DeleteSegment(ctx, verifC44SegKey(k))))
				}
				return withPans(errStr(dual.DeleteIndex(ctx, verifC44IdxKey(k))))
			case "replseg":
				k, ok1 := key(1)
				if !ok1 || len(f) != 2 {
					return "bad-op"
				}
				if d, err := pri.inner.DownloadSegment(ctx, verifC44SegKey(k), nil); err == nil {
					_ = rep.inner.UploadSegment(ctx, verifC44SegKey(k), d)
				} else {
					_ = rep.inner.DeleteSegment(ctx, verifC44SegKey(k))
				}
				return "ok"
			case "replidx":
				k, ok1 := key(1)
				if !ok1 || len(f) != 2 {
					return "bad-op"
				}
				if d, err := pri.inner.DownloadIndex(ctx, verifC44IdxKey(k)); err == nil {
					_ = rep.inner.UploadIndex(ctx, verifC44IdxKey(k), d)
				} else {
					_ = rep.inner.DeleteIndex(ctx, verifC44IdxKey(k))
				}
				return "ok"
			case "rfail", "pfail":
				k, ok1 := key(1)
				if !ok1 || len(f) != 3 {
					return "bad-op"
				}
				b := rep
				if f[0] == "pfail" {
					b = pri
				}
				b.failing[verifC44SegKey(k)] = f[2] == "1"
				b.failing[verifC44IdxKey(k)] = f[2] == "1"
				// rfail/pfail set the whole read behaviour of the key (a later one replaces an earlier rmode)
				delete(b.mode, verifC44SegKey(k))
				delete(b.mode, verifC44IdxKey(k))
				return "ok"
			case "rdseg":
				k, ok1 := key(1)
				if !ok1 || (len(f) != 2 && len(f) != 4) {
					return "bad-op"
				}
				var rng *storage.ByteRange
				if len(f) == 4 {
					a, e1 := strconv.ParseInt(f[2], 10, 64)
					b, e2 := strconv.ParseInt(f[3], 10, 64)
					if e1 != nil || e2 != nil {
						return "bad-op"
					}
					rng = &storage.ByteRange{Start: a, End: b}
				}
				cctx, cancel := context.WithTimeout(ctx, 20*time.Second)
				dd, derr := dual.DownloadSegment(cctx, verifC44SegKey(k), rng)
				res := verifC44Res(dd, derr)
				cancel()
				res = withCalls(res)
				pd, perr := quiet(pri).DownloadSegment(ctx, verifC44SegKey(k), rng)
				p := verifC44Res(pd, perr)
				return res + " pri=" + strings.ReplaceAll(p, " ", ":") + " cls=" + verifC44Class(derr) + " pcls=" + verifC44Class(perr)
			case "rdidx":
				k, ok1 := key(1)
				if !ok1 || len(f) != 2 {
					return "bad-op"
				}
				cctx, cancel := context.WithTimeout(ctx, 20*time.Second)
				dd, derr := dual.DownloadIndex(cctx, verifC44IdxKey(k))
				res := withCalls(verifC44Res(dd, derr))
				cancel()
				pd, perr := quiet(pri).DownloadIndex(ctx, verifC44IdxKey(k))
				p := verifC44Res(pd, perr)
				return res + " pri=" + strings.ReplaceAll(p, " ", ":") + " cls=" + verifC44Class(derr) + " pcls=" + verifC44Class(perr)
			case "list":
				objs, err := dual.ListSegments(ctx, "ns/")
				if err != nil {
					return withPans("err")
				}
				return withPans("list " + verifC44Listing(objs))
			case "ensure":
				return withPans(errStr(dual.EnsureBucket(ctx)))
			}
			return "bad-op"
		}()
		fmt.Fprintln(w, out)
		w.Flush()
	}
	w.Flush()
	os.Exit(0)
}
