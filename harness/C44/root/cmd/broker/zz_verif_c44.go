//go:build verif

package main

// C44 correspondence harness: when VERIF_HARNESS=C44 the broker binary drives the real
// dualS3Client (newDualS3Client) over two instrumented storage.MemoryS3Client backends with the
// op lines on stdin and prints one canonical line per op (format of lean/Driver/C44.lean).

import (
	"bufio"
	"context"
	"encoding/binary"
	"encoding/hex"
	"errors"
	"fmt"
	"os"
	"sort"
	"strconv"
	"strings"
	"time"

	"github.com/KafScale/platform/pkg/storage"
)

type verifC44Backend struct {
	tag             string
	inner           *storage.MemoryS3Client
	failing         map[string]bool
	failIndexUpload bool
	log             *[]string
}

var errVerifC44Injected = errors.New("injected read fault")

func (b *verifC44Backend) note(m string) {
	if b.log != nil {
		*b.log = append(*b.log, b.tag+"."+m)
	}
}
func (b *verifC44Backend) UploadSegment(ctx context.Context, key string, body []byte) error {
	b.note("UploadSegment")
	return b.inner.UploadSegment(ctx, key, body)
}
func (b *verifC44Backend) UploadIndex(ctx context.Context, key string, body []byte) error {
	b.note("UploadIndex")
	if b.failIndexUpload {
		return errVerifC44Injected
	}
	return b.inner.UploadIndex(ctx, key, body)
}
func (b *verifC44Backend) DeleteSegment(ctx context.Context, key string) error {
	b.note("DeleteSegment")
	return b.inner.DeleteSegment(ctx, key)
}
func (b *verifC44Backend) DeleteIndex(ctx context.Context, key string) error {
	b.note("DeleteIndex")
	return b.inner.DeleteIndex(ctx, key)
}
func (b *verifC44Backend) DownloadSegment(ctx context.Context, key string, rng *storage.ByteRange) ([]byte, error) {
	b.note("DownloadSegment")
	if b.failing[key] {
		return nil, errVerifC44Injected
	}
	return b.inner.DownloadSegment(ctx, key, rng)
}
func (b *verifC44Backend) DownloadIndex(ctx context.Context, key string) ([]byte, error) {
	b.note("DownloadIndex")
	if b.failing[key] {
		return nil, errVerifC44Injected
	}
	return b.inner.DownloadIndex(ctx, key)
}
func (b *verifC44Backend) ListSegments(ctx context.Context, prefix string) ([]storage.S3Object, error) {
	b.note("ListSegments")
	return b.inner.ListSegments(ctx, prefix)
}
func (b *verifC44Backend) EnsureBucket(ctx context.Context) error {
	b.note("EnsureBucket")
	return b.inner.EnsureBucket(ctx)
}

func verifC44SegKey(k int) string {
	return fmt.Sprintf("ns/topic-%d/%d/segment-%020d.kfs", k/4, k%2, (k%4)*100)
}
func verifC44IdxKey(k int) string {
	return fmt.Sprintf("ns/topic-%d/%d/segment-%020d.index", k/4, k%2, (k%4)*100)
}

func verifC44Res(d []byte, err error) string {
	if err != nil {
		return "err"
	}
	if len(d) == 0 {
		return "ok -"
	}
	return "ok " + hex.EncodeToString(d)
}

// verifC44OrphanScenario replays, on the real PartitionLog over the real dual client, the history
// that makes the broker overwrite an S3 key: flush 1 uploads segment-0.kfs but its index upload
// fails (orphan, not acknowledged); the replica copies the orphan; after a restart RestoreFromS3
// skips the orphan, the next append gets base offset 0 again and flush 2 overwrites segment-0.kfs
// on the primary; the replica still holds the orphan when offset 0 is read.
func verifC44OrphanScenario() string {
	ctx := context.Background()
	pri := &verifC44Backend{tag: "w", inner: storage.NewMemoryS3Client(), failing: map[string]bool{}}
	rep := &verifC44Backend{tag: "r", inner: storage.NewMemoryS3Client(), failing: map[string]bool{}}
	dual := newDualS3Client(pri, rep)
	cfg := storage.PartitionLogConfig{
		Buffer:  storage.WriteBufferConfig{MaxBytes: 1 << 20, FlushInterval: time.Hour},
		Segment: storage.SegmentWriterConfig{IndexIntervalMessages: 1},
	}
	mk := func(marker byte) storage.RecordBatch {
		data := make([]byte, 70)
		binary.BigEndian.PutUint32(data[57:61], 1)
		data[12] = marker
		b, _ := storage.NewRecordBatchFromBytes(data)
		return b
	}
	marker := func(d []byte, err error) string {
		if err != nil || len(d) < 13 {
			return "err"
		}
		return fmt.Sprintf("%02x", d[12])
	}
	st := func(err error) string {
		if err != nil {
			return "err"
		}
		return "ok"
	}
	log1 := storage.NewPartitionLog("ns", "orders", 0, 0, dual, nil, cfg, nil, nil, nil)
	if _, err := log1.AppendBatch(ctx, mk(0x11)); err != nil {
		return "scenario append1=err"
	}
	pri.failIndexUpload = true
	flush1 := st(log1.Flush(ctx))
	pri.failIndexUpload = false
	// replication catches up on the orphan segment object
	segKey := "ns/orders/0/segment-00000000000000000000.kfs"
	orphan, errO := pri.inner.DownloadSegment(ctx, segKey, nil)
	if errO == nil {
		_ = rep.inner.UploadSegment(ctx, segKey, orphan)
	}
	// restart
	log2 := storage.NewPartitionLog("ns", "orders", 0, 0, dual, nil, cfg, nil, nil, nil)
	restored, errR := log2.RestoreFromS3(ctx)
	if errR != nil {
		return "scenario flush1=" + flush1 + " restore=err"
	}
	res, err := log2.AppendBatch(ctx, mk(0x22))
	if err != nil {
		return "scenario append2=err"
	}
	flush2 := st(log2.Flush(ctx))
	// the index object replicates, the overwritten segment object lags
	idxKey := "ns/orders/0/segment-00000000000000000000.index"
	if d, e := pri.inner.DownloadIndex(ctx, idxKey); e == nil {
		_ = rep.inner.UploadIndex(ctx, idxKey, d)
	}
	got := marker(log2.Read(ctx, 0, 1<<20))
	// what the primary bucket alone serves
	log3 := storage.NewPartitionLog("ns", "orders", 0, 0, pri, nil, cfg, nil, nil, nil)
	_, _ = log3.RestoreFromS3(ctx)
	want := marker(log3.Read(ctx, 0, 1<<20))
	return fmt.Sprintf("scenario flush1=%s orphan=%s restore=%d base2=%d flush2=%s read=%s primary=%s",
		flush1, st(errO), restored, res.BaseOffset, flush2, got, want)
}

func init() {
	if os.Getenv("VERIF_HARNESS") != "C44" {
		return
	}
	ctx := context.Background()
	w := bufio.NewWriter(os.Stdout)
	var calls []string
	var pri, rep *verifC44Backend
	var dual storage.S3Client
	reset := func() {
		pri = &verifC44Backend{tag: "w", inner: storage.NewMemoryS3Client(), failing: map[string]bool{}, log: &calls}
		rep = &verifC44Backend{tag: "r", inner: storage.NewMemoryS3Client(), failing: map[string]bool{}, log: &calls}
		dual = newDualS3Client(pri, rep)
	}
	reset()
	quiet := func(b *verifC44Backend) *verifC44Backend {
		return &verifC44Backend{tag: b.tag, inner: b.inner, failing: b.failing}
	}
	sc := bufio.NewScanner(os.Stdin)
	sc.Buffer(make([]byte, 1<<20), 1<<26)
	for sc.Scan() {
		f := strings.Fields(sc.Text())
		if len(f) == 0 || strings.HasPrefix(f[0], "#") {
			continue
		}
		calls = calls[:0]
		out := func() (res string) {
			defer func() {
				if r := recover(); r != nil {
					res = "panic"
				}
			}()
			withCalls := func(s string) string { return s + " calls=" + strings.Join(calls, ",") }
			key := func(i int) (int, bool) {
				if len(f) <= i {
					return 0, false
				}
				k, err := strconv.Atoi(f[i])
				return k, err == nil && k >= 0 && k < 64
			}
			body := func(i int) ([]byte, bool) {
				if len(f) <= i {
					return nil, false
				}
				if f[i] == "-" {
					return []byte{}, true
				}
				b, err := hex.DecodeString(f[i])
				return b, err == nil
			}
			errStr := func(err error) string {
				if err != nil {
					return "err"
				}
				return "ok"
			}
			switch f[0] {
			case "scenario":
				return verifC44OrphanScenario()
			case "new":
				reset()
				return "ok"
			case "upseg", "upidx":
				k, ok1 := key(1)
				b, ok2 := body(2)
				if !ok1 || !ok2 || len(f) != 3 {
					return "bad-op"
				}
				if f[0] == "upseg" {
					return withCalls(errStr(dual.UploadSegment(ctx, verifC44SegKey(k), b)))
				}
				return withCalls(errStr(dual.UploadIndex(ctx, verifC44IdxKey(k), b)))
			case "delseg", "delidx":
				k, ok1 := key(1)
				if !ok1 || len(f) != 2 {
					return "bad-op"
				}
				if f[0] == "delseg" {
					return withCalls(errStr(dual.DeleteSegment(ctx, verifC44SegKey(k))))
				}
				return withCalls(errStr(dual.DeleteIndex(ctx, verifC44IdxKey(k))))
			case "replseg":
				k, ok1 := key(1)
				if !ok1 || len(f) != 2 {
					return "bad-op"
				}
				if d, err := pri.inner.DownloadSegment(ctx, verifC44SegKey(k), nil); err == nil {
					_ = rep.inner.UploadSegment(ctx, verifC44SegKey(k), d)
				} else {
					_ = rep.inner.DeleteSegment(ctx, verifC44SegKey(k))
				}
				return "ok"
			case "replidx":
				k, ok1 := key(1)
				if !ok1 || len(f) != 2 {
					return "bad-op"
				}
				if d, err := pri.inner.DownloadIndex(ctx, verifC44IdxKey(k)); err == nil {
					_ = rep.inner.UploadIndex(ctx, verifC44IdxKey(k), d)
				} else {
					_ = rep.inner.DeleteIndex(ctx, verifC44IdxKey(k))
				}
				return "ok"
			case "rfail", "pfail":
				k, ok1 := key(1)
				if !ok1 || len(f) != 3 {
					return "bad-op"
				}
				b := rep
				if f[0] == "pfail" {
					b = pri
				}
				b.failing[verifC44SegKey(k)] = f[2] == "1"
				b.failing[verifC44IdxKey(k)] = f[2] == "1"
				return "ok"
			case "rdseg":
				k, ok1 := key(1)
				if !ok1 || (len(f) != 2 && len(f) != 4) {
					return "bad-op"
				}
				var rng *storage.ByteRange
				if len(f) == 4 {
					a, e1 := strconv.ParseInt(f[2], 10, 64)
					b, e2 := strconv.ParseInt(f[3], 10, 64)
					if e1 != nil || e2 != nil {
						return "bad-op"
					}
					rng = &storage.ByteRange{Start: a, End: b}
				}
				res := verifC44Res(dual.DownloadSegment(ctx, verifC44SegKey(k), rng))
				res = withCalls(res)
				p := verifC44Res(quiet(pri).DownloadSegment(ctx, verifC44SegKey(k), rng))
				return res + " pri=" + strings.ReplaceAll(p, " ", ":")
			case "rdidx":
				k, ok1 := key(1)
				if !ok1 || len(f) != 2 {
					return "bad-op"
				}
				res := withCalls(verifC44Res(dual.DownloadIndex(ctx, verifC44IdxKey(k))))
				p := verifC44Res(quiet(pri).DownloadIndex(ctx, verifC44IdxKey(k)))
				return res + " pri=" + strings.ReplaceAll(p, " ", ":")
			case "list":
				objs, err := dual.ListSegments(ctx, "ns/")
				if err != nil {
					return withCalls("err")
				}
				var items []string
				type kv struct {
					k    int
					size int64
				}
				var kvs []kv
				for _, o := range objs {
					id := -1
					for k := 0; k < 64; k++ {
						if verifC44SegKey(k) == o.Key {
							id = k
						}
					}
					kvs = append(kvs, kv{id, o.Size})
				}
				sort.Slice(kvs, func(i, j int) bool { return kvs[i].k < kvs[j].k })
				for _, e := range kvs {
					items = append(items, fmt.Sprintf("%d:%d", e.k, e.size))
				}
				return withCalls("list " + strings.Join(items, ","))
			case "ensure":
				return withCalls(errStr(dual.EnsureBucket(ctx)))
			}
			return "bad-op"
		}()
		fmt.Fprintln(w, out)
		w.Flush()
	}
	w.Flush()
	os.Exit(0)
}
