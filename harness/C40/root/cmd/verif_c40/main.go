//go:build verif

// C40 harness.
//
//	verif_c40 extract <repo>   go/ast pass: methods of metadata.Store, and per registered MCP tool
//	                           the Store methods reachable from its handler inside internal/mcpserver
//	verif_c40                  line protocol on stdin: populate real stores (InMemoryStore and, with
//	                           VERIF_C40_ETCD=1, EtcdStore on an embedded etcd), call the tools through a
//	                           real MCP client session, snapshot the stores before and after every call
package main

import (
	"bufio"
	"context"
	"encoding/hex"
	"encoding/json"
	"fmt"
	"go/ast"
	"go/parser"
	"go/token"
	"io"
	"log"
	"net"
	"net/url"
	"os"
	"path/filepath"
	"sort"
	"strconv"
	"strings"
	"time"

	"github.com/KafScale/platform/internal/mcpserver"
	metadatapb "github.com/KafScale/platform/pkg/gen/metadata"
	"github.com/KafScale/platform/pkg/metadata"
	"github.com/KafScale/platform/pkg/protocol"
	"github.com/modelcontextprotocol/go-sdk/mcp"
	"github.com/twmb/franz-go/pkg/kmsg"
	clientv3 "go.etcd.io/etcd/client/v3"
	"go.etcd.io/etcd/server/v3/embed"
)

// ---------------------------------------------------------------- extractor

func storeMethods(repo string) ([]string, error) {
	fset := token.NewFileSet()
	f, err := parser.ParseFile(fset, filepath.Join(repo, "pkg/metadata/store.go"), nil, 0)
	if err != nil {
		return nil, err
	}
	var out []string
	ast.Inspect(f, func(n ast.Node) bool {
		ts, ok := n.(*ast.TypeSpec)
		if !ok || ts.Name.Name != "Store" {
			return true
		}
		if it, ok := ts.Type.(*ast.InterfaceType); ok {
			for _, m := range it.Methods.List {
				if len(m.Names) == 0 {
					out = append(out, "?embedded")
				}
				for _, nm := range m.Names {
					out = append(out, nm.Name)
				}
			}
		}
		return false
	})
	if len(out) == 0 {
		return nil, fmt.Errorf("type Store interface not found")
	}
	return out, nil
}

func mentionsStore(e ast.Expr) bool {
	found := false
	ast.Inspect(e, func(n ast.Node) bool {
		switch x := n.(type) {
		case *ast.Ident:
			if x.Name == "store" {
				found = true
			}
		case *ast.SelectorExpr:
			if x.Sel.Name == "Store" {
				found = true
			}
		}
		return !found
	})
	return found
}

func extract(repo string) int {
	methods, err := storeMethods(repo)
	if err != nil {
		fmt.Println("error", err)
		return 1
	}
	isMethod := map[string]bool{}
	for _, m := range methods {
		fmt.Println("method", m)
		isMethod[m] = true
	}
	fset := token.NewFileSet()
	pkgs, err := parser.ParseDir(fset, filepath.Join(repo, "internal/mcpserver"), func(fi os.FileInfo) bool {
		return !strings.HasSuffix(fi.Name(), "_test.go") && !strings.HasPrefix(fi.Name(), "zz_verif")
	}, 0)
	if err != nil {
		fmt.Println("error", err)
		return 1
	}
	consts := map[string]string{}
	funcs := map[string]*ast.FuncDecl{}
	for _, p := range pkgs {
		for _, f := range p.Files {
			for _, d := range f.Decls {
				switch x := d.(type) {
				case *ast.FuncDecl:
					name := x.Name.Name
					if x.Recv != nil {
						name = "(method)." + name
					}
					funcs[name] = x
				case *ast.GenDecl:
					if x.Tok != token.CONST {
						continue
					}
					for _, sp := range x.Specs {
						vs := sp.(*ast.ValueSpec)
						for i, nm := range vs.Names {
							if i < len(vs.Values) {
								if lit, ok := vs.Values[i].(*ast.BasicLit); ok && lit.Kind == token.STRING {
									s, _ := strconv.Unquote(lit.Value)
									consts[nm.Name] = s
								}
							}
						}
					}
				}
			}
		}
	}
	type facts struct {
		edges   map[string]bool
		calls   map[string]bool
		escapes []string
	}
	ff := map[string]*facts{}
	for name, fd := range funcs {
		fa := &facts{edges: map[string]bool{}, calls: map[string]bool{}}
		ff[name] = fa
		if fd.Body == nil {
			continue
		}
		ast.Inspect(fd.Body, func(n ast.Node) bool {
			switch x := n.(type) {
			case *ast.Ident:
				if _, ok := funcs[x.Name]; ok {
					fa.edges[x.Name] = true
				}
			case *ast.SelectorExpr:
				// method values / calls on anything: attribute every use of a Store method name
				if isMethod[x.Sel.Name] {
					fa.calls[x.Sel.Name] = true
				}
				if _, ok := funcs["(method)."+x.Sel.Name]; ok {
					fa.edges["(method)."+x.Sel.Name] = true
				}
			case *ast.CallExpr:
				callee := ""
				switch c := x.Fun.(type) {
				case *ast.Ident:
					callee = c.Name
				case *ast.SelectorExpr:
					callee = c.Sel.Name
					if isMethod[c.Sel.Name] {
						return true // a Store method call; its receiver naturally mentions the store
					}
				}
				if callee == "requireStore" {
					return true
				}
				for _, a := range x.Args {
					if mentionsStore(a) {
						pos := fset.Position(x.Pos())
						fa.escapes = append(fa.escapes, fmt.Sprintf("%s:%d:%s", filepath.Base(pos.Filename), pos.Line, callee))
					}
				}
			}
			return true
		})
	}
	reach := func(root string) (calls []string, escapes []string) {
		seen := map[string]bool{}
		cs := map[string]bool{}
		var walk func(string)
		walk = func(n string) {
			if seen[n] || ff[n] == nil {
				return
			}
			seen[n] = true
			for c := range ff[n].calls {
				cs[c] = true
			}
			escapes = append(escapes, ff[n].escapes...)
			for e := range ff[n].edges {
				walk(e)
			}
		}
		walk(root)
		for c := range cs {
			calls = append(calls, c)
		}
		sort.Strings(calls)
		sort.Strings(escapes)
		return
	}
	ntools := 0
	for _, fd := range funcs {
		if fd.Body == nil {
			continue
		}
		ast.Inspect(fd.Body, func(n ast.Node) bool {
			call, ok := n.(*ast.CallExpr)
			if !ok {
				return true
			}
			sel, ok := call.Fun.(*ast.SelectorExpr)
			if !ok || sel.Sel.Name != "AddTool" || len(call.Args) != 3 {
				return true
			}
			name := "?"
			ast.Inspect(call.Args[1], func(m ast.Node) bool {
				kv, ok := m.(*ast.KeyValueExpr)
				if !ok {
					return true
				}
				if k, ok := kv.Key.(*ast.Ident); ok && k.Name == "Name" {
					switch v := kv.Value.(type) {
					case *ast.BasicLit:
						name, _ = strconv.Unquote(v.Value)
					case *ast.Ident:
						if s, ok := consts[v.Name]; ok {
							name = s
						}
					}
				}
				return true
			})
			handler := "?"
			switch h := call.Args[2].(type) {
			case *ast.CallExpr:
				if id, ok := h.Fun.(*ast.Ident); ok {
					handler = id.Name
				}
			case *ast.Ident:
				handler = h.Name
			}
			calls, escapes := []string{"?unresolved-handler"}, []string(nil)
			if _, ok := funcs[handler]; ok {
				calls, escapes = reach(handler)
			}
			ntools++
			fmt.Printf("tool %s handler=%s calls=%s escapes=%s\n", strconv.Quote(name), handler, strings.Join(calls, ","), strings.Join(escapes, ","))
			return true
		})
	}
	fmt.Println("tools", ntools)
	return extractEtcd(repo, fset, methods)
}

// extractEtcd: what each Store method AS IMPLEMENTED BY EtcdStore does to etcd and to its cached in-memory
// snapshot.  Per method of *EtcdStore (pkg/metadata, non-test files), through every *EtcdStore method and package
// function it reaches: (a) etcd client operations = calls `<x>.<Op>(…)` with Op one of the clientv3 KV / Lease /
// Watcher / Maintenance operation names where <x> mentions the client (`s.client`, a local named *cli* / *kv*,
// `clientv3`), incl. the Op constructors `clientv3.OpPut/OpDelete/…`; (b) `s.metadata.<Store method>` calls.
// Line: `etcdmethod <Method> ops=Get,Txn,OpDelete inner=Metadata`.
func extractEtcd(repo string, fset *token.FileSet, methods []string) int {
	pkgs, err := parser.ParseDir(fset, filepath.Join(repo, "pkg/metadata"), func(fi os.FileInfo) bool {
		return !strings.HasSuffix(fi.Name(), "_test.go") && !strings.HasPrefix(fi.Name(), "zz_verif")
	}, 0)
	if err != nil {
		fmt.Println("error", err)
		return 1
	}
	etcdOps := map[string]bool{"Get": true, "Put": true, "Delete": true, "Txn": true, "Do": true, "Compact": true, "Watch": true,
		"Grant": true, "Revoke": true, "KeepAlive": true, "KeepAliveOnce": true, "Defragment": true,
		"OpGet": true, "OpPut": true, "OpDelete": true, "OpTxn": true}
	isStore := map[string]bool{}
	for _, m := range methods {
		isStore[m] = true
	}
	type ffacts struct {
		ops, inner, edges map[string]bool
	}
	fns := map[string]*ffacts{} // "(EtcdStore).Name" for methods, "Name" for package functions
	decls := map[string]*ast.FuncDecl{}
	recvName := func(fd *ast.FuncDecl) string {
		if fd.Recv == nil || len(fd.Recv.List) == 0 {
			return ""
		}
		t := fd.Recv.List[0].Type
		if st, ok := t.(*ast.StarExpr); ok {
			t = st.X
		}
		if id, ok := t.(*ast.Ident); ok {
			return id.Name
		}
		return "?"
	}
	for _, p := range pkgs {
		for _, f := range p.Files {
			for _, d := range f.Decls {
				fd, ok := d.(*ast.FuncDecl)
				if !ok || fd.Body == nil {
					continue
				}
				switch r := recvName(fd); r {
				case "":
					decls[fd.Name.Name] = fd
				case "EtcdStore":
					decls["(EtcdStore)."+fd.Name.Name] = fd
				}
			}
		}
	}
	exprText := func(e ast.Expr) string {
		var b strings.Builder
		ast.Inspect(e, func(n ast.Node) bool {
			if id, ok := n.(*ast.Ident); ok {
				b.WriteString(strings.ToLower(id.Name))
				b.WriteString(".")
			}
			return true
		})
		return b.String()
	}
	for name, fd := range decls {
		fa := &ffacts{ops: map[string]bool{}, inner: map[string]bool{}, edges: map[string]bool{}}
		fns[name] = fa
		ast.Inspect(fd.Body, func(n ast.Node) bool {
			switch x := n.(type) {
			case *ast.Ident:
				if _, ok := decls[x.Name]; ok {
					fa.edges[x.Name] = true
				}
			case *ast.SelectorExpr:
				if _, ok := decls["(EtcdStore)."+x.Sel.Name]; ok {
					// method value or call on anything; receivers are not typed here, so over-approximate:
					// a selector naming an EtcdStore method is an edge unless it goes through s.metadata
					if !strings.Contains(exprText(x.X), "metadata.") {
						fa.edges["(EtcdStore)."+x.Sel.Name] = true
					}
				}
				if isStore[x.Sel.Name] && strings.HasSuffix(exprText(x.X), "metadata.") {
					fa.inner[x.Sel.Name] = true
				}
				if etcdOps[x.Sel.Name] {
					t := exprText(x.X)
					if strings.Contains(t, "client") || strings.Contains(t, "cli.") || strings.Contains(t, "kv.") ||
						strings.Contains(t, "txn") || strings.Contains(t, "lease") || strings.Contains(t, "etcd") {
						fa.ops[x.Sel.Name] = true
					}
				}
			}
			return true
		})
	}
	n := 0
	for _, m := range methods {
		root := "(EtcdStore)." + m
		if fns[root] == nil {
			fmt.Printf("etcdmethod %s ops=?missing inner=\n", m)
			n++
			continue
		}
		seen := map[string]bool{}
		ops, inner := map[string]bool{}, map[string]bool{}
		var walk func(string)
		walk = func(k string) {
			if seen[k] || fns[k] == nil {
				return
			}
			seen[k] = true
			for o := range fns[k].ops {
				ops[o] = true
			}
			for o := range fns[k].inner {
				inner[o] = true
			}
			for e := range fns[k].edges {
				walk(e)
			}
		}
		walk(root)
		keys := func(mm map[string]bool) string {
			var xs []string
			for k := range mm {
				xs = append(xs, k)
			}
			sort.Strings(xs)
			return strings.Join(xs, ",")
		}
		fmt.Printf("etcdmethod %s ops=%s inner=%s\n", m, keys(ops), keys(inner))
		n++
	}
	fmt.Println("etcdmethods", n)
	return 0
}

// ---------------------------------------------------------------- stores and sessions

var stateNames = []string{"Stable", "Empty", "PreparingRebalance", "Dead"}

type env struct {
	mem      *metadata.InMemoryStore
	etcd     *metadata.EtcdStore
	memSess  *mcp.ClientSession
	etcdSess *mcp.ClientSession
	closers  []func()
	// etcdUnsettled: an etcd mutator of the population failed (timeout under load) while the in-memory one
	// succeeded; the write may still land later, so etcd before/after dumps of this case prove nothing
	etcdUnsettled bool
}

var (
	etcdEndpoints []string
	etcdClient    *clientv3.Client
)

func freePort() int {
	ln, err := net.Listen("tcp", "127.0.0.1:0")
	if err != nil {
		panic(err)
	}
	defer ln.Close()
	return ln.Addr().(*net.TCPAddr).Port
}

func startEtcd() error {
	dir, err := os.MkdirTemp("", "verif-c40-etcd-")
	if err != nil {
		return err
	}
	cfg := embed.NewConfig()
	cfg.Dir = dir
	cfg.Logger = "zap"
	cfg.LogLevel = "error"
	cfg.LogOutputs = []string{filepath.Join(dir, "etcd.log")}
	cu, _ := url.Parse(fmt.Sprintf("http://127.0.0.1:%d", freePort()))
	pu, _ := url.Parse(fmt.Sprintf("http://127.0.0.1:%d", freePort()))
	cfg.ListenClientUrls = []url.URL{*cu}
	cfg.AdvertiseClientUrls = cfg.ListenClientUrls
	cfg.ListenPeerUrls = []url.URL{*pu}
	cfg.AdvertisePeerUrls = cfg.ListenPeerUrls
	cfg.InitialCluster = cfg.InitialClusterFromName(cfg.Name)
	e, err := embed.StartEtcd(cfg)
	if err != nil {
		return err
	}
	select {
	case <-e.Server.ReadyNotify():
	case <-time.After(15 * time.Second):
		return fmt.Errorf("embedded etcd start timeout")
	}
	etcdEndpoints = []string{"http://" + e.Clients[0].Addr().String()}
	etcdClient, err = clientv3.New(clientv3.Config{Endpoints: etcdEndpoints, DialTimeout: 5 * time.Second})
	cleanup = append(cleanup, func() { e.Close(); os.RemoveAll(dir) })
	return err
}

var cleanup []func()

func etcdDump() string {
	ctx, cancel := context.WithTimeout(context.Background(), 5*time.Second)
	defer cancel()
	resp, err := etcdClient.Get(ctx, "\x00", clientv3.WithFromKey())
	if err != nil {
		return "dump-error " + err.Error()
	}
	var b strings.Builder
	for _, kv := range resp.Kvs {
		// keys, values AND revisions: a rewrite with identical bytes (read-repair, "touch") or a delete + re-put
		// still bumps mod_revision / create_revision / version, and watchers see it
		fmt.Fprintf(&b, "%q=%s@mod=%d,create=%d,ver=%d,lease=%d\n", kv.Key, hex.EncodeToString(kv.Value),
			kv.ModRevision, kv.CreateRevision, kv.Version, kv.Lease)
	}
	return b.String()
}

func connect(store metadata.Store) (*mcp.ClientSession, func(), error) {
	srv := mcpserver.NewServer(mcpserver.Options{Store: store, Logger: log.New(io.Discard, "", 0)})
	ct, st := mcp.NewInMemoryTransports()
	ctx := context.Background()
	ss, err := srv.Connect(ctx, st, nil)
	if err != nil {
		return nil, nil, err
	}
	cl := mcp.NewClient(&mcp.Implementation{Name: "verif", Version: "0"}, nil)
	cs, err := cl.Connect(ctx, ct, nil)
	if err != nil {
		return nil, nil, err
	}
	return cs, func() { cs.Close(); ss.Close() }, nil
}

func (e *env) close() {
	for _, c := range e.closers {
		c()
	}
	if e.etcd != nil {
		e.etcd.Close()
	}
}

// topicSpec: one topic of the initial snapshot.  v < 0: CreateTopic-like lists ([0]); v >= 0: non-ascending,
// rotated, duplicate-carrying Replicas/ISR/OfflineReplicas (rtopic).  order >= 0 (ptopic): the Partitions
// ARRAY itself is stored out of order — entry i carries partition id partOrderTable[order][i] (non-ascending,
// some rows with duplicate ids or gaps), as a snapshot listing partitions 2,0,1 would be loaded.
type topicSpec struct{ id, parts, v, order int }

var partOrderTable = [][]int32{{2, 0, 1}, {1, 0}, {2, 1, 0}, {1, 1, 0}, {0, 2, 1, 1}, {3, 0, 2, 1}, {4, 2}}

func build(brokers int, itopics []topicSpec, withEtcd bool) (*env, error) {
	cm := metadata.ClusterMetadata{ControllerID: 0, ClusterName: kmsg.StringPtr("verif"), ClusterID: kmsg.StringPtr("c40")}
	for i := 0; i < brokers; i++ {
		cm.Brokers = append(cm.Brokers, protocol.MetadataBroker{NodeID: int32(i), Host: fmt.Sprintf("b%d", i), Port: 9092})
	}
	for _, it := range itopics {
		t := protocol.MetadataTopic{Topic: kmsg.StringPtr(fmt.Sprintf("t%d", it.id))}
		for p := 0; p < it.parts; p++ {
			part := protocol.MetadataPartition{Partition: int32(p), Leader: 0, Replicas: []int32{0}, ISR: []int32{0}}
			if it.order >= 0 {
				part.Partition = partOrderTable[it.order%len(partOrderTable)][p] // p is the POSITION in the array
			}
			if v := it.v; v >= 0 {
				// rtopic: non-ascending, rotated, duplicate-carrying lists (same table as Lean's layoutOf)
				part.Replicas = layoutList((v + p) % 6)
				part.ISR = layoutList((v + 2*p + 3) % 6)
				part.OfflineReplicas = nil
				if v%2 == 1 {
					part.OfflineReplicas = layoutList((v + p + 1) % 6)
				}
				part.Leader = part.Replicas[0]
			}
			t.Partitions = append(t.Partitions, part)
		}
		cm.Topics = append(cm.Topics, t)
	}
	e := &env{mem: metadata.NewInMemoryStore(cm)}
	cs, cl, err := connect(e.mem)
	if err != nil {
		return nil, err
	}
	e.memSess = cs
	e.closers = append(e.closers, cl)
	if withEtcd {
		ctx, cancel := context.WithTimeout(context.Background(), 10*time.Second)
		defer cancel()
		if _, err := etcdClient.Delete(ctx, "\x00", clientv3.WithFromKey()); err != nil {
			return nil, err
		}
		es, err := metadata.NewEtcdStore(ctx, cm, metadata.EtcdStoreConfig{Endpoints: etcdEndpoints})
		if err != nil {
			return nil, err
		}
		e.etcd = es
		cs2, cl2, err := connect(es)
		if err != nil {
			return nil, err
		}
		e.etcdSess = cs2
		e.closers = append(e.closers, cl2)
	}
	return e, nil
}

// committedAt: the committed_at text of an old commit (row of the age table, same order as AGE_ROWS in checks/C40.py):
// 1 h, 6 d 23 h, 7 d + 1 s, 1 year, 30 d in a non-UTC zone, just under 7 d, zero time, unparsable, empty.
func committedAt(row int) string {
	now := time.Now().UTC()
	switch ((row % 9) + 9) % 9 {
	case 0:
		return now.Add(-time.Hour).Format(time.RFC3339Nano)
	case 1:
		return now.Add(-(6*24 + 23) * time.Hour).Format(time.RFC3339Nano)
	case 2:
		return now.Add(-7*24*time.Hour - time.Second).Format(time.RFC3339Nano)
	case 3:
		return now.Add(-365 * 24 * time.Hour).Format(time.RFC3339Nano)
	case 4:
		return now.Add(-30 * 24 * time.Hour).In(time.FixedZone("", 2*3600)).Format(time.RFC3339Nano)
	case 5:
		return now.Add(-7*24*time.Hour + 30*time.Second).Format(time.RFC3339Nano)
	case 6:
		return time.Time{}.Format(time.RFC3339Nano)
	case 7:
		return "yesterday"
	}
	return ""
}

func mustJSON(s string) string { b, _ := json.Marshal(s); return string(b) }

var layoutTable = [][]int32{{2, 0, 1}, {1, 2, 0}, {2, 1, 0}, {1, 0}, {2, 2, 0}, {0, 2, 1, 1}}

func layoutList(i int) []int32 { return append([]int32(nil), layoutTable[i]...) }

func (e *env) stores() []metadata.Store {
	out := []metadata.Store{e.mem}
	if e.etcd != nil {
		out = append(out, e.etcd)
	}
	return out
}

func (e *env) okErr(errs ...error) string {
	r := okErr(errs...)
	if strings.Contains(r, "etcd-differs") {
		e.etcdUnsettled = true
	}
	return r
}

func okErr(errs ...error) string {
	// the in-memory store's answer is the compared one; the etcd store's is reported when it differs
	r := "ok"
	if errs[0] != nil {
		r = "err"
	}
	for _, x := range errs[1:] {
		if (x != nil) != (errs[0] != nil) {
			r += " etcd-differs"
		}
	}
	return r
}

func ids(csv string) []int {
	if csv == "-" || csv == "" {
		return nil
	}
	var out []int
	for _, p := range strings.Split(csv, ",") {
		n, err := strconv.Atoi(p)
		if err == nil {
			out = append(out, n)
		}
	}
	return out
}

func names(prefix string, xs []int) []string {
	out := make([]string, 0, len(xs))
	for _, x := range xs {
		out = append(out, prefix+strconv.Itoa(x))
	}
	return out
}

func num(s string) string { // "t3" -> "t3" kept as is; helper for canonical lists
	return s
}

func join(xs []string) string {
	if len(xs) == 0 {
		return "-"
	}
	return strings.Join(xs, ",")
}

func decode(res *mcp.CallToolResult, into any) error {
	raw, err := json.Marshal(res.StructuredContent)
	if err != nil {
		return err
	}
	return json.Unmarshal(raw, into)
}

func callTool(cs *mcp.ClientSession, tool string, args any) (out string) {
	defer func() {
		if r := recover(); r != nil {
			out = "panic"
		}
	}()
	ctx, cancel := context.WithTimeout(context.Background(), 20*time.Second)
	defer cancel()
	res, err := cs.CallTool(ctx, &mcp.CallToolParams{Name: tool, Arguments: args})
	if err != nil || res == nil || res.IsError {
		return "err"
	}
	switch tool {
	case "cluster_status":
		var o mcpserver.ClusterStatusOutput
		if decode(res, &o) != nil {
			return "undecodable"
		}
		var ts []string
		for _, t := range o.Topics {
			ts = append(ts, fmt.Sprintf("%s:%d:%d", t.Name, t.PartitionCount, t.ErrorCode))
		}
		return fmt.Sprintf("topics[b=%d] %s", len(o.Brokers), join(ts))
	case "list_topics":
		var o mcpserver.TopicSummaryList
		if decode(res, &o) != nil {
			return "undecodable"
		}
		var ts []string
		for _, t := range o.Topics {
			ts = append(ts, fmt.Sprintf("%s:%d:%d", t.Name, t.PartitionCount, t.ErrorCode))
		}
		return "topics[b=-] " + join(ts)
	case "describe_topics":
		var o mcpserver.TopicDetailList
		if decode(res, &o) != nil {
			return "undecodable"
		}
		var ts []string
		for _, t := range o.Topics {
			var ps []string
			// canonical: partitions by id (stable).  The order in which the tool LISTS partitions is not part
			// of C40; the order in which the store HOLDS them is, and that is what the snapshots compare.
			sort.SliceStable(t.Partitions, func(i, j int) bool { return t.Partitions[i].Partition < t.Partitions[j].Partition })
			for _, p := range t.Partitions {
				ps = append(ps, fmt.Sprintf("%d=%s|%s|%s", p.Partition, dotted(p.ReplicaNodes), dotted(p.ISRNodes), dotted(p.OfflineReplicas)))
			}
			pp := "-"
			if len(ps) > 0 {
				pp = strings.Join(ps, ";")
			}
			ts = append(ts, fmt.Sprintf("%s:%d:%s", t.Name, t.ErrorCode, pp))
		}
		return "details " + join(ts)
	case "list_groups":
		var o mcpserver.GroupSummaryList
		if decode(res, &o) != nil {
			return "undecodable"
		}
		var gs []string
		for _, g := range o.Groups {
			gs = append(gs, fmt.Sprintf("%s:%d:%d", g.GroupID, stateIdx(g.State), g.MemberCount))
		}
		return "groups " + join(gs)
	case "describe_group":
		var o mcpserver.GroupDetails
		if decode(res, &o) != nil {
			return "undecodable"
		}
		var ms []string
		for _, m := range o.Members {
			ms = append(ms, m.MemberID)
		}
		mm := "-"
		if len(ms) > 0 {
			mm = strings.Join(ms, ".")
		}
		return fmt.Sprintf("group %s:%d:gen=%d:%s", o.GroupID, stateIdx(o.State), o.GenerationID, mm)
	case "fetch_offsets":
		var o mcpserver.FetchOffsetsOutput
		if decode(res, &o) != nil {
			return "undecodable"
		}
		var os []string
		for _, x := range o.Offsets {
			md := "0"
			if x.Metadata != "" {
				md = strings.TrimPrefix(x.Metadata, "m")
			}
			os = append(os, fmt.Sprintf("%s/%d=%d:%s", x.Topic, x.Partition, x.Offset, md))
		}
		return "offsets " + join(os)
	case "describe_configs":
		var o mcpserver.TopicConfigList
		if decode(res, &o) != nil {
			return "undecodable"
		}
		var cs []string
		for _, c := range o.Configs {
			cs = append(cs, fmt.Sprintf("%s:%d:%d", c.Name, c.Partitions, c.RetentionMS))
		}
		return "configs " + join(cs)
	}
	return "ok"
}

func dotted(xs []int32) string {
	if len(xs) == 0 {
		return "-"
	}
	out := make([]string, len(xs))
	for i, x := range xs {
		out[i] = strconv.Itoa(int(x))
	}
	return strings.Join(out, ".")
}

func stateIdx(s string) int {
	for i, n := range stateNames {
		if n == s {
			return i
		}
	}
	return 9
}

func firstDiff(a, b string) string {
	al, bl := strings.Split(a, "\n"), strings.Split(b, "\n")
	for i := 0; i < len(al) || i < len(bl); i++ {
		var x, y string
		if i < len(al) {
			x = al[i]
		}
		if i < len(bl) {
			y = bl[i]
		}
		if x != y {
			d := fmt.Sprintf("before[%s]after[%s]", x, y)
			d = strings.ReplaceAll(d, " ", "_")
			if len(d) > 200 {
				d = d[:200]
			}
			return d
		}
	}
	return "?"
}

func main() {
	log.SetOutput(io.Discard)
	if len(os.Args) >= 3 && os.Args[1] == "extract" {
		os.Exit(extract(os.Args[2]))
	}
	withEtcd := os.Getenv("VERIF_C40_ETCD") == "1"
	if withEtcd {
		if err := startEtcd(); err != nil {
			fmt.Println("etcd-start-failed", err)
			os.Exit(3)
		}
	}
	defer func() {
		for _, c := range cleanup {
			c()
		}
	}()
	w := bufio.NewWriter(os.Stdout)
	defer w.Flush()
	var e *env
	var pendingBrokers = -1
	var pending []topicSpec
	ensure := func() error {
		if pendingBrokers >= 0 {
			if e != nil {
				e.close()
			}
			var err error
			e, err = build(pendingBrokers, pending, withEtcd)
			pendingBrokers, pending = -1, nil
			return err
		}
		if e == nil {
			return fmt.Errorf("no store")
		}
		return nil
	}
	ctx := context.Background()
	sc := bufio.NewScanner(os.Stdin)
	sc.Buffer(make([]byte, 1<<20), 1<<24)
	for sc.Scan() {
		f := strings.Fields(sc.Text())
		if len(f) == 0 || strings.HasPrefix(f[0], "#") {
			continue
		}
		line := func() (out string) {
			defer func() {
				if r := recover(); r != nil {
					out = "panic"
				}
			}()
			atoi := func(s string) int { n, _ := strconv.Atoi(s); return n }
			switch {
			case f[0] == "new" && len(f) == 2:
				pendingBrokers, pending = atoi(f[1]), nil
				return "new"
			case f[0] == "itopic" && len(f) == 3:
				if pendingBrokers < 0 {
					return "bad-op"
				}
				pending = append(pending, topicSpec{atoi(f[1]), atoi(f[2]), -1, -1})
				return "ok"
			case f[0] == "rtopic" && len(f) == 4:
				if pendingBrokers < 0 {
					return "bad-op"
				}
				pending = append(pending, topicSpec{atoi(f[1]), atoi(f[2]), atoi(f[3]), -1})
				return "ok"
			case f[0] == "ptopic" && len(f) == 4:
				// ptopic <id> <row of partOrderTable> <v>: partitions array stored in non-ascending id order
				if pendingBrokers < 0 || atoi(f[2]) < 0 || atoi(f[3]) < 0 {
					return "bad-op"
				}
				o := atoi(f[2]) % len(partOrderTable)
				pending = append(pending, topicSpec{atoi(f[1]), len(partOrderTable[o]), atoi(f[3]), o})
				return "ok"
			}
			if err := ensure(); err != nil {
				return "bad-op"
			}
			switch {
			case f[0] == "topic" && len(f) == 3:
				var errs []error
				for _, s := range e.stores() {
					_, err := s.CreateTopic(ctx, metadata.TopicSpec{Name: "t" + f[1], NumPartitions: int32(atoi(f[2])), ReplicationFactor: 1})
					errs = append(errs, err)
				}
				return e.okErr(errs...)
			case f[0] == "commit" && len(f) == 6:
				md := ""
				if f[5] != "0" {
					md = "m" + f[5]
				}
				var errs []error
				for _, s := range e.stores() {
					off, _ := strconv.ParseInt(f[4], 10, 64)
					errs = append(errs, s.CommitConsumerOffset(ctx, "g"+f[1], "t"+f[2], int32(atoi(f[3])), off, md))
				}
				return e.okErr(errs...)
			case f[0] == "oldcommit" && len(f) == 6:
				// oldcommit <g> <t> <p> <offset> <age row>: a commit made LONG AGO.  In-memory store: an ordinary commit (it keeps
				// no timestamp).  Etcd store: the record CommitConsumerOffset would have written then, i.e. the same JSON with an
				// old / zero / unparsable committed_at, put with the raw client under the store's own key.
				off, _ := strconv.ParseInt(f[4], 10, 64)
				errs := []error{e.mem.CommitConsumerOffset(ctx, "g"+f[1], "t"+f[2], int32(atoi(f[3])), off, "")}
				if e.etcd != nil {
					// field order of consumerOffsetRecord: offset, metadata, committed_at
					raw := fmt.Sprintf(`{"offset":%d,"metadata":"","committed_at":%s}`, off, mustJSON(committedAt(atoi(f[5]))))
					pctx, cancel := context.WithTimeout(ctx, 5*time.Second)
					_, err := etcdClient.Put(pctx, fmt.Sprintf("/kafscale/consumers/g%s/offsets/t%s/%d", f[1], f[2], atoi(f[3])), raw)
					cancel()
					errs = append(errs, err)
				}
				return e.okErr(errs...)
			case f[0] == "group" && len(f) == 5:
				var errs []error
				for _, s := range e.stores() {
					st := "Unknown"
					if i := atoi(f[2]); i >= 0 && i < len(stateNames) {
						st = stateNames[i]
					}
					g := &metadatapb.ConsumerGroup{GroupId: "g" + f[1], State: st, ProtocolType: "consumer", Protocol: "range",
						GenerationId: int32(atoi(f[3])), Members: map[string]*metadatapb.GroupMember{}, RebalanceTimeoutMs: 30000}
					for _, m := range ids(f[4]) {
						id := "m" + strconv.Itoa(m)
						g.Members[id] = &metadatapb.GroupMember{ClientId: "c" + strconv.Itoa(m), ClientHost: "h", SessionTimeoutMs: 10000,
							// nested lists non-ascending too (subscriptions, assignments, assigned partitions)
							Subscriptions: []string{"t1", "t0"}, Assignments: []*metadatapb.Assignment{
								{Topic: "t1", Partitions: []int32{int32(m), 0}}, {Topic: "t0", Partitions: []int32{2, 0, 1}}}}
						if g.Leader == "" {
							g.Leader = id
						}
					}
					errs = append(errs, s.PutConsumerGroup(ctx, g))
				}
				return e.okErr(errs...)
			case f[0] == "config" && len(f) == 4:
				var errs []error
				for _, s := range e.stores() {
					ret, _ := strconv.ParseInt(f[3], 10, 64)
					errs = append(errs, s.UpdateTopicConfig(ctx, &metadatapb.TopicConfig{Name: "t" + f[1], Partitions: int32(atoi(f[2])),
						ReplicationFactor: 1, RetentionMs: ret, RetentionBytes: -1, Config: map[string]string{"k": "v"}}))
				}
				return e.okErr(errs...)
			case f[0] == "parts" && len(f) == 3:
				var errs []error
				for _, s := range e.stores() {
					errs = append(errs, s.CreatePartitions(ctx, "t"+f[1], int32(atoi(f[2]))))
				}
				return e.okErr(errs...)
			case f[0] == "offs" && len(f) == 4:
				var errs []error
				for _, s := range e.stores() {
					last, _ := strconv.ParseInt(f[3], 10, 64)
					errs = append(errs, s.UpdateOffsets(ctx, "t"+f[1], int32(atoi(f[2])), last))
				}
				return e.okErr(errs...)
			case (f[0] == "call" && len(f) >= 2) || (f[0] == "callraw" && len(f) == 3):
				tool := f[1]
				var args any = map[string]any{}
				if f[0] == "callraw" {
					raw, err := hex.DecodeString(f[2])
					if err != nil {
						return "bad-op"
					}
					args = json.RawMessage(raw)
				} else {
					arg := func(i int) string {
						if i < len(f) {
							return f[i]
						}
						return "-"
					}
					gid := func(s string) string {
						if s == "empty" || s == "-" {
							return ""
						}
						return "g" + s
					}
					switch tool {
					case "describe_topics":
						args = map[string]any{"names": names("t", ids(arg(2)))}
					case "describe_group":
						args = map[string]any{"group_id": gid(arg(2))}
					case "fetch_offsets":
						args = map[string]any{"group_id": gid(arg(2)), "topics": names("t", ids(arg(3)))}
					case "describe_configs":
						args = map[string]any{"topics": names("t", ids(arg(2)))}
					}
				}
				memBefore := e.mem.VerifC40Snapshot()
				var etcdBefore, innerBefore string
				if e.etcd != nil {
					etcdBefore, innerBefore = etcdDump(), e.etcd.VerifC40Inner().VerifC40Snapshot()
				}
				res := callTool(e.memSess, tool, args)
				memAfter := e.mem.VerifC40Snapshot()
				memState := "same"
				if memAfter != memBefore {
					memState = "CHANGED(" + firstDiff(memBefore, memAfter) + ")"
				}
				etcdState, agree := "-", "-"
				if e.etcd != nil && e.etcdUnsettled {
					etcdState, agree = "skipped", "-"
				} else if e.etcd != nil {
					res2 := callTool(e.etcdSess, tool, args)
					etcdAfter, innerAfter := etcdDump(), e.etcd.VerifC40Inner().VerifC40Snapshot()
					etcdState = "same"
					if etcdAfter != etcdBefore {
						etcdState = "CHANGED(" + firstDiff(etcdBefore, etcdAfter) + ")"
					} else if innerAfter != innerBefore {
						etcdState = "CHANGED(" + firstDiff(innerBefore, innerAfter) + ")"
					}
					agree = strconv.FormatBool(res == res2)
				}
				if f[0] == "callraw" {
					cls := "answered"
					if res == "err" || res == "panic" {
						cls = res
					}
					return fmt.Sprintf("callraw %s %s mem=%s etcd=%s agree=%s", tool, cls, memState, etcdState, agree)
				}
				return fmt.Sprintf("call %s %s mem=%s etcd=%s agree=%s", tool, res, memState, etcdState, agree)
			}
			return "bad-op"
		}()
		fmt.Fprintln(w, line)
		w.Flush()
	}
	if e != nil {
		e.close()
	}
}
