//go:build verif

package metadata

import (
	"encoding/hex"
	"fmt"
	"sort"
	"strings"

	"google.golang.org/protobuf/proto"
)

// VerifC40Snapshot is a canonical dump of everything the in-memory store holds: cluster
// metadata (every field of every topic and partition), next offsets, committed consumer offsets
// and their metadata, consumer groups and topic configs (deterministic protobuf bytes).
func (s *InMemoryStore) VerifC40Snapshot() string {
	s.mu.RLock()
	defer s.mu.RUnlock()
	var b strings.Builder
	st := s.state
	fmt.Fprintf(&b, "controller=%d name=%s id=%s\n", st.ControllerID, strp(st.ClusterName), strp(st.ClusterID))
	for _, br := range st.Brokers {
		fmt.Fprintf(&b, "broker %d %s %d %s\n", br.NodeID, br.Host, br.Port, strp(br.Rack))
	}
	for _, t := range st.Topics {
		fmt.Fprintf(&b, "topic %s err=%d id=%x internal=%v ops=%d\n", strp(t.Topic), t.ErrorCode, t.TopicID, t.IsInternal, t.AuthorizedOperations)
		for _, p := range t.Partitions {
			fmt.Fprintf(&b, "  part %d err=%d leader=%d epoch=%d replicas=%v isr=%v offline=%v\n",
				p.Partition, p.ErrorCode, p.Leader, p.LeaderEpoch, p.Replicas, p.ISR, p.OfflineReplicas)
		}
	}
	// keys are rendered with %+v so the dump does not depend on the key type of these maps
	// (string before, struct {group, topic, partition} after the C16 fix)
	dumpInt := func(tag string, lines []string) {
		sort.Strings(lines)
		for _, l := range lines {
			fmt.Fprintf(&b, "%s %s\n", tag, l)
		}
	}
	{
		var ls []string
		for k, v := range s.offsets {
			ls = append(ls, fmt.Sprintf("%q=%d", fmt.Sprintf("%+v", k), v))
		}
		dumpInt("offset", ls)
	}
	{
		var ls []string
		for k, v := range s.consumerOffsets {
			ls = append(ls, fmt.Sprintf("%q=%d", fmt.Sprintf("%+v", k), v))
		}
		dumpInt("committed", ls)
	}
	{
		var ls []string
		for k, v := range s.consumerMeta {
			ls = append(ls, fmt.Sprintf("%q=%q", fmt.Sprintf("%+v", k), v))
		}
		dumpInt("commitmeta", ls)
	}
	det := proto.MarshalOptions{Deterministic: true}
	{
		keys := make([]string, 0, len(s.consumerGroups))
		for k := range s.consumerGroups {
			keys = append(keys, k)
		}
		sort.Strings(keys)
		for _, k := range keys {
			raw, _ := det.Marshal(s.consumerGroups[k])
			fmt.Fprintf(&b, "group %q=%s\n", k, hex.EncodeToString(raw))
		}
	}
	{
		keys := make([]string, 0, len(s.topicConfigs))
		for k := range s.topicConfigs {
			keys = append(keys, k)
		}
		sort.Strings(keys)
		for _, k := range keys {
			raw, _ := det.Marshal(s.topicConfigs[k])
			fmt.Fprintf(&b, "config %q=%s\n", k, hex.EncodeToString(raw))
		}
	}
	return b.String()
}

// VerifC40Inner exposes the in-memory snapshot an EtcdStore answers Metadata from.
func (s *EtcdStore) VerifC40Inner() *InMemoryStore { return s.metadata }

func strp(p *string) string {
	if p == nil {
		return "<nil>"
	}
	return *p
}
