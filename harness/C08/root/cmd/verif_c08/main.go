//go:build verif

// C08 harness: runs the real storage.RecoverTopicToTimestamp against a fake S3 object store with a
// fault oracle (the i-th S3 call fails iff i is listed; a failed call has no effect) and prints the
// result, the target objects and whether the source was left untouched.
package main

import (
	"bufio"
	"bytes"
	"context"
	"encoding/hex"
	"errors"
	"fmt"
	"os"
	"sort"
	"strconv"
	"strings"
	"time"

	"github.com/KafScale/platform/pkg/storage"
)

type fakeS3 struct {
	seg, idx  map[string][]byte
	calls     int
	fails     map[int]bool
	delFailed bool
}

var errInjected = errors.New("injected S3 failure")

func (s *fakeS3) tick() bool {
	f := s.fails[s.calls]
	s.calls++
	return f
}

func (s *fakeS3) UploadSegment(_ context.Context, key string, body []byte) error {
	if s.tick() {
		return errInjected
	}
	s.seg[key] = append([]byte(nil), body...)
	return nil
}
func (s *fakeS3) UploadIndex(_ context.Context, key string, body []byte) error {
	if s.tick() {
		return errInjected
	}
	s.idx[key] = append([]byte(nil), body...)
	return nil
}
func (s *fakeS3) DeleteSegment(_ context.Context, key string) error {
	if s.tick() {
		s.delFailed = true
		return errInjected
	}
	delete(s.seg, key)
	return nil
}
func (s *fakeS3) DeleteIndex(_ context.Context, key string) error {
	if s.tick() {
		s.delFailed = true
		return errInjected
	}
	delete(s.idx, key)
	return nil
}
func (s *fakeS3) DownloadSegment(_ context.Context, key string, rng *storage.ByteRange) ([]byte, error) {
	if s.tick() {
		return nil, errInjected
	}
	data, ok := s.seg[key]
	if !ok {
		return nil, fmt.Errorf("segment %s: %w", key, storage.ErrNotFound)
	}
	if rng == nil {
		return append([]byte(nil), data...), nil
	}
	start, end := rng.Start, rng.End
	if start < 0 {
		start = 0
	}
	if end >= int64(len(data)) {
		end = int64(len(data)) - 1
	}
	if start > end || start >= int64(len(data)) {
		return nil, fmt.Errorf("range invalid")
	}
	return append([]byte(nil), data[start:end+1]...), nil
}
func (s *fakeS3) DownloadIndex(_ context.Context, key string) ([]byte, error) {
	if s.tick() {
		return nil, errInjected
	}
	data, ok := s.idx[key]
	if !ok {
		return nil, fmt.Errorf("index %s: %w", key, storage.ErrNotFound)
	}
	return append([]byte(nil), data...), nil
}
func (s *fakeS3) ListSegments(_ context.Context, prefix string) ([]storage.S3Object, error) {
	if s.tick() {
		return nil, errInjected
	}
	out := []storage.S3Object{}
	for k, v := range s.seg {
		if strings.HasPrefix(k, prefix) {
			out = append(out, storage.S3Object{Key: k, Size: int64(len(v))})
		}
	}
	for k, v := range s.idx {
		if strings.HasPrefix(k, prefix) {
			out = append(out, storage.S3Object{Key: k, Size: int64(len(v))})
		}
	}
	sort.Slice(out, func(i, j int) bool { return out[i].Key < out[j].Key })
	return out, nil
}
func (s *fakeS3) EnsureBucket(context.Context) error { return nil }

var topics = []string{"src", "dst", "zzz"}

func key(topic int, part int64, base int64, ext string) string {
	return fmt.Sprintf("ns/%s/%d/segment-%020d.%s", topics[topic], part, base, ext)
}

func hx(b []byte) string {
	if b == nil {
		return "N"
	}
	if len(b) == 0 {
		return "-"
	}
	return hex.EncodeToString(b)
}

func unhx(s string) []byte {
	if s == "N" {
		return nil
	}
	if s == "-" {
		return []byte{}
	}
	b, err := hex.DecodeString(s)
	if err != nil {
		panic("bad hex")
	}
	return b
}

func doRestore(f []string) (string, int) {
	// the restore time: `<ms>` (whole milliseconds, time.UnixMilli) or `<ns>ns` (nanoseconds since the epoch,
	// time.Unix(0, ns): any sub-millisecond fraction, negative = before 1970)
	var restoreTo time.Time
	if strings.HasSuffix(f[1], "ns") {
		ns, err := strconv.ParseInt(strings.TrimSuffix(f[1], "ns"), 10, 64)
		if err != nil {
			panic("bad restore time")
		}
		restoreTo = time.Unix(0, ns).UTC()
	} else {
		restoreMs, err := strconv.ParseInt(f[1], 10, 64)
		if err != nil {
			panic("bad restore time")
		}
		restoreTo = time.UnixMilli(restoreMs).UTC()
	}
	var parts []int32
	if f[2] != "*" {
		for _, p := range strings.Split(f[2], ",") {
			v, _ := strconv.ParseInt(p, 10, 32)
			parts = append(parts, int32(v))
		}
	}
	s3 := &fakeS3{seg: map[string][]byte{}, idx: map[string][]byte{}, fails: map[int]bool{}}
	if f[3] != "-" {
		for _, p := range strings.Split(f[3], ",") {
			v, _ := strconv.Atoi(p)
			s3.fails[v] = true
		}
	}
	i := 4
	for i < len(f) {
		if f[i] != "OBJ" || i+5 >= len(f) {
			panic("bad OBJ")
		}
		topic, _ := strconv.Atoi(f[i+1])
		part, _ := strconv.ParseInt(f[i+2], 10, 64)
		base, _ := strconv.ParseInt(f[i+3], 10, 64)
		if sb := unhx(f[i+4]); sb != nil {
			s3.seg[key(topic, part, base, "kfs")] = sb
		}
		if ib := unhx(f[i+5]); ib != nil {
			s3.idx[key(topic, part, base, "index")] = ib
		}
		i += 6
	}
	before := map[string][]byte{}
	for k, v := range s3.seg {
		if !strings.HasPrefix(k, "ns/dst/") {
			before["s:"+k] = v
		}
	}
	for k, v := range s3.idx {
		if !strings.HasPrefix(k, "ns/dst/") {
			before["i:"+k] = v
		}
	}
	res, err := storage.RecoverTopicToTimestamp(context.Background(), s3, storage.TopicRecoveryConfig{
		SourceNamespace: "ns", SourceTopic: "src", TargetNamespace: "ns", TargetTopic: "dst",
		RestoreTo: restoreTo, Partitions: parts,
	})
	var sb strings.Builder
	if err != nil {
		sb.WriteString("res=err parts=-")
	} else {
		sb.WriteString("res=ok parts=")
		if len(res.Partitions) == 0 {
			sb.WriteString("-")
		}
		for k, p := range res.Partitions {
			if k > 0 {
				sb.WriteByte(',')
			}
			fmt.Fprintf(&sb, "%d:%d:%d", p.Partition, p.SegmentsCopied, p.LastOffset)
		}
	}
	df := 0
	if s3.delFailed {
		df = 1
	}
	fmt.Fprintf(&sb, " delfail=%d", df)
	// target objects, by (partition, base)
	type tkey struct {
		part, base int64
	}
	tgt := map[tkey][2][]byte{}
	parse := func(k string) (tkey, string, bool) {
		rest := strings.TrimPrefix(k, "ns/dst/")
		ps := strings.Split(rest, "/")
		if len(ps) != 2 {
			return tkey{}, "", false
		}
		part, err1 := strconv.ParseInt(ps[0], 10, 64)
		name := strings.TrimPrefix(ps[1], "segment-")
		dot := strings.LastIndex(name, ".")
		if dot < 0 || err1 != nil {
			return tkey{}, "", false
		}
		base, err2 := strconv.ParseInt(name[:dot], 10, 64)
		if err2 != nil {
			return tkey{}, "", false
		}
		return tkey{part, base}, name[dot+1:], true
	}
	odd := 0
	for k, v := range s3.seg {
		if strings.HasPrefix(k, "ns/dst/") {
			if tk, ext, ok := parse(k); ok && ext == "kfs" {
				e := tgt[tk]
				e[0] = v
				tgt[tk] = e
			} else {
				odd++
			}
		}
	}
	for k, v := range s3.idx {
		if strings.HasPrefix(k, "ns/dst/") {
			if tk, ext, ok := parse(k); ok && ext == "index" {
				e := tgt[tk]
				e[1] = v
				tgt[tk] = e
			} else {
				odd++
			}
		}
	}
	keys := make([]tkey, 0, len(tgt))
	for k := range tgt {
		keys = append(keys, k)
	}
	sort.Slice(keys, func(i, j int) bool {
		if keys[i].part != keys[j].part {
			return keys[i].part < keys[j].part
		}
		return keys[i].base < keys[j].base
	})
	sb.WriteString(" target=")
	if len(keys) == 0 {
		sb.WriteString("-")
	}
	for i, k := range keys {
		if i > 0 {
			sb.WriteByte(';')
		}
		fmt.Fprintf(&sb, "%d/%d/%s/%s", k.part, k.base, hx(tgt[k][0]), hx(tgt[k][1]))
	}
	same := 1
	n := 0
	for k, v := range s3.seg {
		if !strings.HasPrefix(k, "ns/dst/") {
			n++
			if !bytes.Equal(before["s:"+k], v) {
				same = 0
			}
		}
	}
	for k, v := range s3.idx {
		if !strings.HasPrefix(k, "ns/dst/") {
			n++
			if !bytes.Equal(before["i:"+k], v) {
				same = 0
			}
		}
	}
	if n != len(before) || odd != 0 {
		same = 0
	}
	fmt.Fprintf(&sb, " srcsame=%d", same)
	return sb.String(), s3.calls
}

func main() {
	w := bufio.NewWriterSize(os.Stdout, 1<<20)
	defer w.Flush()
	sc := bufio.NewScanner(os.Stdin)
	sc.Buffer(make([]byte, 1<<20), 1<<28)
	for sc.Scan() {
		f := strings.Fields(sc.Text())
		if len(f) == 0 || strings.HasPrefix(f[0], "#") {
			continue
		}
		res, calls := func() (res string, calls int) {
			defer func() {
				if r := recover(); r != nil {
					res, calls = "panic", 0
				}
			}()
			if f[0] != "restore" || len(f) < 4 {
				return "bad-op", 0
			}
			return doRestore(f)
		}()
		fmt.Fprintf(w, "%s #alloc=%d\n", res, calls)
		w.Flush()
	}
}
