//go:build verif

package cache

// VerifEntry is one cache entry as the harness sees it (front of the LRU list first).
type VerifEntry struct {
	Topic      string
	Partition  int32
	BaseOffset int64
	Len        int
}

// VerifDump returns the capacity, the accounted size and the entries in LRU order.
func (c *SegmentCache) VerifDump() (capacity int, accounted int, entries []VerifEntry) {
	c.mu.Lock()
	defer c.mu.Unlock()
	for e := c.ll.Front(); e != nil; e = e.Next() {
		ent := e.Value.(*cacheEntry)
		entries = append(entries, VerifEntry{ent.topic, ent.partition, ent.baseOffset, len(ent.data)})
	}
	return c.capacity, c.size, entries
}
