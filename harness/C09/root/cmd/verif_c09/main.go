//go:build verif

// C09 correspondence harness: drives the real SegmentCache with the op lines on stdin and
// prints one canonical result line per op (same format as lean/Driver/C09.lean).
package main

import (
	"bufio"
	"bytes"
	"encoding/hex"
	"fmt"
	"os"
	"strconv"
	"strings"
	"sync"
	"sync/atomic"
	"time"

	"github.com/KafScale/platform/pkg/cache"
)

type triple struct {
	topic string
	part  int32
	base  int64
}

// key id -> (topic, partition, base); includes ':'-carrying topics that would alias under a
// non-injective makeKey.
var keys = []triple{
	{"t", 0, 0}, {"t", 0, 1}, {"t", 1, 0}, {"t:1", 0, 0}, {"t", 1, 10}, {"t:1:0", 0, 0}, {"orders", 2, 300}, {"t:0", 1, 0},
}

type handout struct {
	live []byte
	seen []byte
}

// stress: concurrent writers/readers over few keys; every payload is self-describing (all bytes
// equal, length = value%97+1) so a reader can tell a torn or later-overwritten slice.  Built
// with -race, so an unsynchronised access inside the cache is reported by the detector too.
func stress(ms int) {
	c := cache.NewSegmentCache(200)
	deadline := time.Now().Add(time.Duration(ms) * time.Millisecond)
	var wg sync.WaitGroup
	var bad, reads, over atomic.Int64
	for g := 0; g < 4; g++ {
		wg.Add(1)
		go func(g int) {
			defer wg.Done()
			n := uint32(g*7919 + 1)
			for time.Now().Before(deadline) {
				n = n*1664525 + 1013904223
				k := keys[int(n>>8)%4]
				v := byte(n >> 16)
				d := bytes.Repeat([]byte{v}, int(v)%97+1)
				c.SetSegment(k.topic, k.part, k.base, d)
				if capacity, _, ents := c.VerifDump(); true {
					t := 0
					for _, e := range ents {
						t += e.Len
					}
					if t > capacity {
						over.Add(1)
					}
				}
			}
		}(g)
	}
	for g := 0; g < 4; g++ {
		wg.Add(1)
		go func(g int) {
			defer wg.Done()
			n := uint32(g*104729 + 3)
			var held [][]byte
			check := func(d []byte) {
				if len(d) == 0 {
					return
				}
				if len(d) != int(d[0])%97+1 {
					bad.Add(1)
					return
				}
				for _, b := range d {
					if b != d[0] {
						bad.Add(1)
						return
					}
				}
			}
			for time.Now().Before(deadline) {
				n = n*1664525 + 1013904223
				k := keys[int(n>>8)%4]
				if d, ok := c.GetSegment(k.topic, k.part, k.base); ok {
					reads.Add(1)
					check(d)
					held = append(held, d)
					if len(held) > 64 {
						for _, h := range held {
							check(h)
						}
						held = held[:0]
					}
				}
			}
			for _, h := range held {
				check(h)
			}
		}(g)
	}
	wg.Wait()
	fmt.Printf("stress reads=%d torn=%d overcap=%d\n", reads.Load(), bad.Load(), over.Load())
}

func main() {
	if len(os.Args) == 3 && os.Args[1] == "stress" {
		ms, _ := strconv.Atoi(os.Args[2])
		stress(ms)
		return
	}
	var c *cache.SegmentCache = cache.NewSegmentCache(1)
	var outs []handout
	w := bufio.NewWriter(os.Stdout)
	defer w.Flush()
	dump := func() string {
		_, _, ents := c.VerifDump()
		total := 0
		ids := []string{}
		for _, e := range ents {
			total += e.Len
			id := -1
			for i, k := range keys {
				if k.topic == e.Topic && k.part == e.Partition && k.base == e.BaseOffset {
					id = i
				}
			}
			ids = append(ids, strconv.Itoa(id))
		}
		stable := true
		for _, h := range outs {
			if !bytes.Equal(h.live, h.seen) {
				stable = false
			}
		}
		return fmt.Sprintf("size=%d lru=%s stable=%v", total, strings.Join(ids, ","), stable)
	}
	sc := bufio.NewScanner(os.Stdin)
	sc.Buffer(make([]byte, 1<<20), 1<<26)
	for sc.Scan() {
		f := strings.Fields(sc.Text())
		if len(f) == 0 || strings.HasPrefix(f[0], "#") {
			continue
		}
		switch {
		case f[0] == "new" && len(f) == 2:
			n, err := strconv.Atoi(f[1])
			if err != nil {
				fmt.Fprintln(w, "bad-op")
				continue
			}
			c = cache.NewSegmentCache(n)
			outs = nil
			capacity, _, _ := c.VerifDump()
			fmt.Fprintf(w, "new cap=%d\n", capacity)
		case f[0] == "set" && len(f) == 3:
			k, err := strconv.Atoi(f[1])
			var d []byte
			if f[2] != "-" {
				d, _ = hex.DecodeString(f[2])
			}
			if err != nil || k < 0 || k >= len(keys) {
				fmt.Fprintln(w, "bad-op")
				continue
			}
			c.SetSegment(keys[k].topic, keys[k].part, keys[k].base, d)
			fmt.Fprintln(w, "set "+dump())
		case f[0] == "get" && len(f) == 2:
			k, err := strconv.Atoi(f[1])
			if err != nil || k < 0 || k >= len(keys) {
				fmt.Fprintln(w, "bad-op")
				continue
			}
			d, ok := c.GetSegment(keys[k].topic, keys[k].part, keys[k].base)
			if ok {
				outs = append(outs, handout{live: d, seen: append([]byte(nil), d...)})
				hx := "-"
				if len(d) > 0 {
					hx = hex.EncodeToString(d)
				}
				fmt.Fprintf(w, "hit %s %s\n", hx, dump())
			} else {
				fmt.Fprintln(w, "miss "+dump())
			}
		default:
			fmt.Fprintln(w, "bad-op")
		}
	}
}
