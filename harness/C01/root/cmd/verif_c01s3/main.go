//go:build verif

// C01, lower seam: drives the real storage.awsS3Client (pkg/storage/s3_aws.go: putObject with its
// bucket-missing retry, EnsureBucket, Download*, ListSegments, delete) over a fake of the S3 API with an
// outcome oracle per API call, and PartitionLog.Flush over that client.  One result line per op, in the
// format of lean/KafVerif/Model/StorageLogS3.lean (driver lean/Driver/C01S3.lean).
//
//	reset <bucket 0|1>
//	put <seg|idx> <key> <hex body|-> <script>         UploadSegment / UploadIndex
//	get <seg|idx> <key> <start:end|-> <script>        DownloadSegment(range) / DownloadIndex
//	del <seg|idx> <key> <script>                      DeleteSegment / DeleteIndex
//	list <prefix> <script>                            ListSegments
//	ensure <script>                                   EnsureBucket
//	flush <n batches> <segment script> <index script> a fresh PartitionLog over the client: n appends, Flush
//
// script = comma separated outcome tokens, one per API call in call order ("-" = none; exhausted = natural):
// "." natural outcome for the fake's state; nsb NoSuchBucket; nf NotFound; slow SlowDown (503); owned
// BucketAlreadyOwnedByYou; exists BucketAlreadyExists; h404 HTTP 404 response error; nokey NoSuchKey;
// badbody (GET) the body fails half way.  In `flush` the two scripts apply to the PUTs of the .kfs / .index key that
// arrive while the bucket exists (the two uploads run concurrently).
package main

import (
	"bufio"
	"bytes"
	"context"
	"encoding/binary"
	"encoding/hex"
	"errors"
	"fmt"
	"io"
	"net/http"
	"os"
	"sort"
	"strconv"
	"strings"
	"sync"

	"github.com/KafScale/platform/pkg/storage"
	awshttp "github.com/aws/aws-sdk-go-v2/aws/transport/http"
	"github.com/aws/aws-sdk-go-v2/service/s3"
	"github.com/aws/aws-sdk-go-v2/service/s3/types"
	"github.com/aws/smithy-go"
	smithyhttp "github.com/aws/smithy-go/transport/http"
)

type fakeAPI struct {
	mu      sync.Mutex
	bucket  bool
	objects map[string][]byte
	script  []string            // per-call oracle (sequential ops)
	byKey   map[string][]string // flush op: per key-suffix oracle for PUTs that arrive while the bucket exists
	calls   []string
	sent    map[string][]byte // flush op: the bytes of the first PutObject body seen per key
}

func newFake(bucket bool) *fakeAPI {
	return &fakeAPI{bucket: bucket, objects: map[string][]byte{}, sent: map[string][]byte{}}
}

func (f *fakeAPI) next() string {
	if len(f.script) == 0 {
		return "."
	}
	t := f.script[0]
	f.script = f.script[1:]
	return t
}

type failingBody struct {
	r io.Reader
}

func (b *failingBody) Read(p []byte) (int, error) {
	n, err := b.r.Read(p)
	if err == io.EOF {
		return n, errors.New("connection reset")
	}
	return n, err
}
func (b *failingBody) Close() error { return nil }

func apiErr(tok string) error {
	switch tok {
	case "nsb":
		return &smithy.GenericAPIError{Code: "NoSuchBucket", Message: "no such bucket"}
	case "nf":
		return &smithy.GenericAPIError{Code: "NotFound", Message: "not found"}
	case "slow":
		return &smithy.GenericAPIError{Code: "SlowDown", Message: "reduce your request rate", Fault: smithy.FaultServer}
	case "owned":
		return &smithy.GenericAPIError{Code: "BucketAlreadyOwnedByYou", Message: "yours"}
	case "exists":
		return &smithy.GenericAPIError{Code: "BucketAlreadyExists", Message: "taken"}
	case "nokey":
		return &smithy.GenericAPIError{Code: "NoSuchKey", Message: "no such key"}
	case "badrange":
		return &smithy.GenericAPIError{Code: "InvalidRange", Message: "range not satisfiable"}
	case "h404":
		return &awshttp.ResponseError{ResponseError: &smithyhttp.ResponseError{
			Response: &smithyhttp.Response{Response: &http.Response{StatusCode: 404}}, Err: errors.New("404")}}
	}
	return fmt.Errorf("unknown failure %q", tok)
}

func (f *fakeAPI) note(api, outcome string) { f.calls = append(f.calls, api+":"+outcome) }

func (f *fakeAPI) PutObject(ctx context.Context, in *s3.PutObjectInput, _ ...func(*s3.Options)) (*s3.PutObjectOutput, error) {
	f.mu.Lock()
	defer f.mu.Unlock()
	key := *in.Key
	// like the SDK: a seekable body is sent from its start on every attempt
	if sk, ok := in.Body.(io.Seeker); ok {
		_, _ = sk.Seek(0, io.SeekStart)
	}
	body, rerr := io.ReadAll(in.Body)
	if _, seen := f.sent[key]; !seen && rerr == nil {
		f.sent[key] = body
	}
	var tok string
	if f.byKey != nil {
		if !f.bucket {
			tok = "."
		} else {
			suffix := key[strings.LastIndex(key, "."):]
			if q := f.byKey[suffix]; len(q) > 0 {
				tok, f.byKey[suffix] = q[0], q[1:]
			} else {
				tok = "."
			}
		}
	} else {
		tok = f.next()
	}
	if tok == "." {
		if !f.bucket {
			tok = "nsb"
		} else if rerr != nil {
			tok = "slow"
		} else {
			f.objects[key] = body
			f.note("PUT", "ok")
			return &s3.PutObjectOutput{}, nil
		}
	}
	f.note("PUT", tok)
	return nil, apiErr(tok)
}

func (f *fakeAPI) GetObject(ctx context.Context, in *s3.GetObjectInput, _ ...func(*s3.Options)) (*s3.GetObjectOutput, error) {
	f.mu.Lock()
	defer f.mu.Unlock()
	tok := f.next()
	bad := tok == "badbody"
	if bad {
		tok = "."
	}
	if tok == "." {
		data, ok := f.objects[*in.Key]
		switch {
		case !f.bucket:
			tok = "nsb"
		case !ok:
			tok = "nokey"
		default:
			if in.Range != nil {
				var a, b int64
				if _, err := fmt.Sscanf(*in.Range, "bytes=%d-%d", &a, &b); err != nil || a < 0 || a > b || a >= int64(len(data)) {
					tok = "badrange"
					break
				}
				if b >= int64(len(data)) {
					b = int64(len(data)) - 1
				}
				data = data[a : b+1]
			}
			if tok == "." {
				if bad {
					f.note("GET", "badbody")
					return &s3.GetObjectOutput{Body: &failingBody{r: bytes.NewReader(data[:len(data)/2])}}, nil
				}
				f.note("GET", "ok")
				return &s3.GetObjectOutput{Body: io.NopCloser(bytes.NewReader(append([]byte(nil), data...)))}, nil
			}
		}
	}
	f.note("GET", tok)
	return nil, apiErr(tok)
}

func (f *fakeAPI) DeleteObject(ctx context.Context, in *s3.DeleteObjectInput, _ ...func(*s3.Options)) (*s3.DeleteObjectOutput, error) {
	f.mu.Lock()
	defer f.mu.Unlock()
	tok := f.next()
	if tok == "." {
		if !f.bucket {
			tok = "nsb"
		} else {
			delete(f.objects, *in.Key)
			f.note("DELETE", "ok")
			return &s3.DeleteObjectOutput{}, nil
		}
	}
	f.note("DELETE", tok)
	return nil, apiErr(tok)
}

func (f *fakeAPI) HeadBucket(ctx context.Context, in *s3.HeadBucketInput, _ ...func(*s3.Options)) (*s3.HeadBucketOutput, error) {
	f.mu.Lock()
	defer f.mu.Unlock()
	tok := "."
	if f.byKey == nil {
		tok = f.next()
	}
	if tok == "." {
		if f.bucket {
			f.note("HEAD", "ok")
			return &s3.HeadBucketOutput{}, nil
		}
		tok = "nf"
	}
	f.note("HEAD", tok)
	return nil, apiErr(tok)
}

func (f *fakeAPI) CreateBucket(ctx context.Context, in *s3.CreateBucketInput, _ ...func(*s3.Options)) (*s3.CreateBucketOutput, error) {
	f.mu.Lock()
	defer f.mu.Unlock()
	tok := "."
	if f.byKey == nil {
		tok = f.next()
	}
	if tok == "." {
		if !f.bucket {
			f.bucket = true
			f.note("CREATE", "ok")
			return &s3.CreateBucketOutput{}, nil
		}
		tok = "owned"
	}
	if tok == "owned" || tok == "exists" {
		f.bucket = true
	}
	f.note("CREATE", tok)
	return nil, apiErr(tok)
}

const pageSize = 2

func (f *fakeAPI) ListObjectsV2(ctx context.Context, in *s3.ListObjectsV2Input, _ ...func(*s3.Options)) (*s3.ListObjectsV2Output, error) {
	f.mu.Lock()
	defer f.mu.Unlock()
	tok := f.next()
	if tok == "." {
		if !f.bucket {
			tok = "nsb"
		} else {
			keys := []string{}
			for k := range f.objects {
				if strings.HasPrefix(k, *in.Prefix) && (in.ContinuationToken == nil || k > *in.ContinuationToken) {
					keys = append(keys, k)
				}
			}
			sort.Strings(keys)
			out := &s3.ListObjectsV2Output{}
			trunc := len(keys) > pageSize
			if trunc {
				keys = keys[:pageSize]
				last := keys[len(keys)-1]
				out.NextContinuationToken = &last
			}
			out.IsTruncated = &trunc
			for _, k := range keys {
				k := k
				sz := int64(len(f.objects[k]))
				out.Contents = append(out.Contents, types.Object{Key: &k, Size: &sz})
			}
			f.note("LIST", "ok")
			return out, nil
		}
	}
	f.note("LIST", tok)
	return nil, apiErr(tok)
}

// ---------------------------------------------------------------------------------------------------------------

var (
	api    = newFake(true)
	client = storage.VerifNewAWSClient("bucket", "us-east-1", "", api)
)

func hx(b []byte) string {
	if len(b) == 0 {
		return "-"
	}
	return hex.EncodeToString(b)
}

func parseScript(s string) []string {
	if s == "-" || s == "" {
		return nil
	}
	return strings.Split(s, ",")
}

func ret(err error) string {
	switch {
	case err == nil:
		return "nil"
	case errors.Is(err, storage.ErrNotFound):
		return "notfound"
	}
	return "err"
}

func obj(key string) string {
	api.mu.Lock()
	defer api.mu.Unlock()
	d, ok := api.objects[key]
	if !ok {
		return "none"
	}
	return hx(d)
}

func calls() string {
	api.mu.Lock()
	defer api.mu.Unlock()
	if len(api.calls) == 0 {
		return "-"
	}
	return strings.Join(api.calls, ",")
}

func batch(i int) []byte {
	b := make([]byte, 61+9)
	binary.BigEndian.PutUint32(b[8:12], uint32(len(b)-12))
	b[16] = 2
	binary.BigEndian.PutUint32(b[57:61], 1)
	for j := 61; j < len(b); j++ {
		b[j] = byte(0xA0 + i)
	}
	return b
}

func doOp(f []string) (out string) {
	defer func() {
		if r := recover(); r != nil {
			out = f[0] + " panic"
		}
	}()
	ctx := context.Background()
	api.mu.Lock()
	api.calls, api.script, api.byKey = nil, nil, nil
	api.mu.Unlock()
	switch {
	case f[0] == "reset" && len(f) == 2:
		api = newFake(f[1] == "1")
		client = storage.VerifNewAWSClient("bucket", "us-east-1", "", api)
		return "reset"
	case f[0] == "put" && len(f) == 5:
		var body []byte
		if f[3] != "-" {
			var err error
			if body, err = hex.DecodeString(f[3]); err != nil {
				return "bad-op"
			}
		}
		api.script = parseScript(f[4])
		var err error
		if f[1] == "seg" {
			err = client.UploadSegment(ctx, f[2], body)
		} else {
			err = client.UploadIndex(ctx, f[2], body)
		}
		return fmt.Sprintf("put ret=%s obj=%s calls=%s", ret(err), obj(f[2]), calls())
	case f[0] == "get" && len(f) == 5:
		api.script = parseScript(f[4])
		var data []byte
		var err error
		if f[1] == "seg" {
			var rng *storage.ByteRange
			if f[3] != "-" {
				ab := strings.SplitN(f[3], ":", 2)
				a, e1 := strconv.ParseInt(ab[0], 10, 64)
				b, e2 := strconv.ParseInt(ab[len(ab)-1], 10, 64)
				if e1 != nil || e2 != nil || len(ab) != 2 {
					return "bad-op"
				}
				rng = &storage.ByteRange{Start: a, End: b}
			}
			data, err = client.DownloadSegment(ctx, f[2], rng)
		} else {
			data, err = client.DownloadIndex(ctx, f[2])
		}
		if err != nil {
			data = nil
		}
		return fmt.Sprintf("get ret=%s data=%s calls=%s", ret(err), hx(data), calls())
	case f[0] == "del" && len(f) == 4:
		api.script = parseScript(f[3])
		var err error
		if f[1] == "seg" {
			err = client.DeleteSegment(ctx, f[2])
		} else {
			err = client.DeleteIndex(ctx, f[2])
		}
		return fmt.Sprintf("del ret=%s obj=%s calls=%s", ret(err), obj(f[2]), calls())
	case f[0] == "list" && len(f) == 3:
		api.script = parseScript(f[2])
		objs, err := client.ListSegments(ctx, f[1])
		ks := make([]string, 0, len(objs))
		for _, o := range objs {
			ks = append(ks, fmt.Sprintf("%s:%d", o.Key, o.Size))
		}
		k := strings.Join(ks, ",")
		if k == "" || err != nil {
			k = "-"
		}
		return fmt.Sprintf("list ret=%s keys=%s calls=%s", ret(err), k, calls())
	case f[0] == "ensure" && len(f) == 2:
		api.script = parseScript(f[1])
		err := client.EnsureBucket(ctx)
		api.mu.Lock()
		b := api.bucket
		api.mu.Unlock()
		return fmt.Sprintf("ensure ret=%s bucket=%v calls=%s", ret(err), b, calls())
	case f[0] == "flush" && len(f) == 4:
		n, err := strconv.Atoi(f[1])
		if err != nil || n < 1 || n > 8 {
			return "bad-op"
		}
		api.mu.Lock()
		api.byKey = map[string][]string{".kfs": parseScript(f[2]), ".index": parseScript(f[3])}
		api.sent = map[string][]byte{}
		api.mu.Unlock()
		acked := false
		l := storage.NewPartitionLog("default", "orders", 0, 0, client, nil, storage.PartitionLogConfig{
			Buffer:  storage.WriteBufferConfig{MaxBytes: 1 << 20},
			Segment: storage.SegmentWriterConfig{IndexIntervalMessages: 1},
		}, func(context.Context, *storage.SegmentArtifact) { acked = true }, nil, nil)
		var all []byte
		for i := 0; i < n; i++ {
			b, err := storage.NewRecordBatchFromBytes(batch(i))
			if err != nil {
				return "flush bad-batch"
			}
			if _, err := l.AppendBatch(ctx, b); err != nil {
				return "flush append-err"
			}
			all = append(all, batch(i)[8:]...)
		}
		ferr := l.Flush(ctx)
		state := func(suffix string, want []byte) string {
			api.mu.Lock()
			defer api.mu.Unlock()
			key := "default/orders/0/segment-00000000000000000000" + suffix
			d, ok := api.objects[key]
			switch {
			case !ok:
				return "absent"
			case !bytes.Equal(d, api.sent[key]) || (want != nil && !bytes.Contains(d, want[:53])):
				return "differs"
			}
			return "ok"
		}
		_ = acked
		return fmt.Sprintf("flush ret=%s seg=%s idx=%s", ret(ferr), state(".kfs", all), state(".index", nil))
	}
	return "bad-op"
}

func main() {
	w := bufio.NewWriter(os.Stdout)
	defer w.Flush()
	sc := bufio.NewScanner(os.Stdin)
	sc.Buffer(make([]byte, 1<<20), 1<<26)
	for sc.Scan() {
		f := strings.Fields(sc.Text())
		if len(f) == 0 || strings.HasPrefix(f[0], "#") {
			continue
		}
		fmt.Fprintln(w, doOp(f))
		w.Flush()
	}
}
