//go:build verif

// C01 / C05 / C06 correspondence harness (shared).  Activated with VERIF_HARNESS=C01: reads one
// schedule command per line on stdin, drives the REAL handler.handleProduce / getPartitionLog /
// storage.PartitionLog / metadata.InMemoryStore with gated fakes at the existing seams
// (storage.S3Client, metadata.Store.UpdateOffsets), waits until every goroutine is blocked again
// and prints one canonical state line (same format as lean/Driver/C01.lean).
package main

import (
	"bufio"
	"bytes"
	"context"
	"encoding/binary"
	"errors"
	"fmt"
	"hash/crc32"
	"io"
	"log/slog"
	"os"
	"runtime"
	"sort"
	"strconv"
	"strings"
	"sync"
	"time"

	"github.com/twmb/franz-go/pkg/kmsg"

	"github.com/KafScale/platform/pkg/broker"
	"github.com/KafScale/platform/pkg/metadata"
	"github.com/KafScale/platform/pkg/protocol"
	"github.com/KafScale/platform/pkg/storage"
)

func init() {
	if os.Getenv("VERIF_HARNESS") == "C01" {
		verifC01Main()
		os.Exit(0)
	}
}

const vPartition = int32(0)

// the partition under test: "orders" exists in the default metadata; "fresh" does not (auto-create)
var (
	vTopic  = "orders"
	vPrefix = "default/orders/0/"
)

func vSetTopic(t string) { vTopic, vPrefix = t, "default/"+t+"/0/" }

type vTidKey struct{}

var errVerifS3 = errors.New("verif: injected S3 failure")
var errVerifDead = errors.New("verif: broker crashed")

// ---------------------------------------------------------------- durable world (survives crashes)

type vObject struct {
	body []byte
	desc string // batches of the artifact the object was built from
}

type vWorld struct {
	mu    sync.Mutex
	segs  map[string]vObject
	idxs  map[string]vObject
	store *metadata.InMemoryStore
	acked []string
	nextI int
}

var vw *vWorld

// ---------------------------------------------------------------- one broker incarnation

type vArrival struct {
	key     string
	body    []byte
	last    int64
	release chan string // "ok" | "fail" | "dead"
}

type vThread struct {
	id      int
	ep      *vEpoch
	cmd     chan []string
	ready   chan struct{}
	goid    string
	auto    bool
	status  string // idle busy appended acked failed
	batchID int
	n       int
	mc      int32 // record count the batch header DECLARES (bytes 57..61); n unless the schedule says otherwise
	segArr  *vArrival
	idxArr  *vArrival
	pubArr  *vArrival
	nxtArr  *vArrival // parked in store.NextOffset (getPartitionLog's singleflight callback)
	mkArr   *vArrival // parked in store.CreateTopic (ensureTopic after ErrUnknownTopic)
	segOut  string
	idxOut  string
	segDesc string
}

type vEpoch struct {
	lazy    bool                    // the partition log is opened by the produce requests themselves
	seen    []*storage.PartitionLog // distinct logs ever registered in h.logs for the partition
	inits   int                     // successful NextOffset calls of getPartitionLog callbacks
	dead    bool
	h       *handler
	plog    *storage.PartitionLog
	threads map[int]*vThread
}

var vep *vEpoch

// ---------------------------------------------------------------- gated S3

type vS3 struct{ ep *vEpoch }

func vThreadOf(ctx context.Context) *vThread {
	th, _ := ctx.Value(vTidKey{}).(*vThread)
	return th
}

func (s *vS3) upload(ctx context.Context, key string, body []byte, isSeg bool) error {
	th := vThreadOf(ctx)
	vw.mu.Lock()
	if s.ep.dead {
		vw.mu.Unlock()
		return errVerifDead
	}
	if th == nil { // ungated caller (none on the produce path)
		if isSeg {
			vw.segs[key] = vObject{append([]byte(nil), body...), vDescribeSegment(body)}
		} else {
			vw.idxs[key] = vObject{append([]byte(nil), body...), "?"}
		}
		vw.mu.Unlock()
		return nil
	}
	if th.segOut != "-" && th.idxOut != "-" { // first arrival of a new flush of this thread
		th.segOut, th.idxOut = "-", "-"
	}
	arr := &vArrival{key: key, body: append([]byte(nil), body...), release: make(chan string, 1)}
	if isSeg {
		th.segArr = arr
		th.segDesc = vDescribeSegment(body)
	} else {
		th.idxArr = arr
	}
	vw.mu.Unlock()
	switch <-arr.release {
	case "ok":
		return nil
	case "dead":
		return errVerifDead
	default:
		return errVerifS3
	}
}

func (s *vS3) UploadSegment(ctx context.Context, key string, body []byte) error {
	return s.upload(ctx, key, body, true)
}
func (s *vS3) UploadIndex(ctx context.Context, key string, body []byte) error {
	return s.upload(ctx, key, body, false)
}
func (s *vS3) DeleteSegment(ctx context.Context, key string) error { return errors.New("verif: unexpected DeleteSegment") }
func (s *vS3) DeleteIndex(ctx context.Context, key string) error   { return errors.New("verif: unexpected DeleteIndex") }
func (s *vS3) EnsureBucket(ctx context.Context) error              { return nil }

func (s *vS3) DownloadSegment(ctx context.Context, key string, rng *storage.ByteRange) ([]byte, error) {
	vw.mu.Lock()
	defer vw.mu.Unlock()
	o, ok := vw.segs[key]
	if !ok {
		return nil, fmt.Errorf("segment %s: %w", key, storage.ErrNotFound)
	}
	data := o.body
	if rng == nil {
		return append([]byte(nil), data...), nil
	}
	start, end := rng.Start, rng.End
	if start < 0 {
		start = 0
	}
	if end >= int64(len(data)) {
		end = int64(len(data)) - 1
	}
	if start > end || start >= int64(len(data)) {
		return nil, fmt.Errorf("segment %s range %d-%d invalid", key, rng.Start, rng.End)
	}
	return append([]byte(nil), data[start:end+1]...), nil
}

func (s *vS3) DownloadIndex(ctx context.Context, key string) ([]byte, error) {
	vw.mu.Lock()
	defer vw.mu.Unlock()
	o, ok := vw.idxs[key]
	if !ok {
		return nil, fmt.Errorf("index %s: %w", key, storage.ErrNotFound)
	}
	return append([]byte(nil), o.body...), nil
}

// ListSegments lists every object under the prefix (segments AND indexes, as a real bucket
// does), in reverse key order so that the code's own sort is what orders them.
func (s *vS3) ListSegments(ctx context.Context, prefix string) ([]storage.S3Object, error) {
	vw.mu.Lock()
	defer vw.mu.Unlock()
	var out []storage.S3Object
	for k, o := range vw.segs {
		if strings.HasPrefix(k, prefix) {
			out = append(out, storage.S3Object{Key: k, Size: int64(len(o.body))})
		}
	}
	for k, o := range vw.idxs {
		if strings.HasPrefix(k, prefix) {
			out = append(out, storage.S3Object{Key: k, Size: int64(len(o.body))})
		}
	}
	sort.Slice(out, func(i, j int) bool { return out[i].Key > out[j].Key })
	return out, nil
}

// ---------------------------------------------------------------- gated store

type vStore struct {
	metadata.Store
	ep *vEpoch
}

func (s *vStore) UpdateOffsets(ctx context.Context, topic string, partition int32, lastOffset int64) error {
	th := vThreadOf(ctx)
	vw.mu.Lock()
	if s.ep.dead {
		vw.mu.Unlock()
		return errVerifDead
	}
	if th == nil {
		vw.mu.Unlock()
		return s.Store.UpdateOffsets(ctx, topic, partition, lastOffset)
	}
	arr := &vArrival{last: lastOffset, release: make(chan string, 1)}
	th.pubArr = arr
	vw.mu.Unlock()
	switch <-arr.release {
	case "ok":
		// the real store call was made by the scheduler at release time (deterministic order)
		return nil
	case "dead":
		return errVerifDead
	default:
		return errors.New("verif: injected store failure")
	}
}

// park blocks the calling goroutine at a store gate until the schedule releases it.
func (s *vStore) park(th *vThread, set func(*vArrival)) (string, bool) {
	vw.mu.Lock()
	if s.ep.dead {
		vw.mu.Unlock()
		return "dead", false
	}
	arr := &vArrival{release: make(chan string, 1)}
	set(arr)
	vw.mu.Unlock()
	return <-arr.release, true
}

func (s *vStore) NextOffset(ctx context.Context, topic string, partition int32) (int64, error) {
	th := vThreadOf(ctx)
	if th == nil {
		return s.Store.NextOffset(ctx, topic, partition)
	}
	switch out, _ := s.park(th, func(a *vArrival) { th.nxtArr = a }); out {
	case "ok":
		n, err := s.Store.NextOffset(ctx, topic, partition)
		if err == nil {
			vw.mu.Lock()
			s.ep.inits++
			vw.mu.Unlock()
		}
		return n, err
	case "dead":
		return 0, errVerifDead
	default:
		return 0, errors.New("verif: injected store failure")
	}
}

func (s *vStore) CreateTopic(ctx context.Context, spec metadata.TopicSpec) (*protocol.MetadataTopic, error) {
	th := vThreadOf(ctx)
	if th == nil {
		return s.Store.CreateTopic(ctx, spec)
	}
	switch out, _ := s.park(th, func(a *vArrival) { th.mkArr = a }); out {
	case "ok":
		return s.Store.CreateTopic(ctx, spec)
	case "dead":
		return nil, errVerifDead
	default:
		return nil, errors.New("verif: injected store failure")
	}
}

// ---------------------------------------------------------------- batches

var vCastagnoli = crc32.MakeTable(crc32.Castagnoli)

// vMc is the "#mc" suffix of a batch descriptor: present only when the declared record count is
// not the number of offsets the batch covers (a header lie; AppendBatch does not look at the field).
func vMc(n int64, mc int32) string {
	if int64(mc) == n {
		return ""
	}
	return fmt.Sprintf("#%d", mc)
}

// vBatchBytes builds a Kafka v2 record batch with n records whose values are the 4-byte batch id
// (n ≤ 63 keeps every varint one byte long); the header declares mc records (well-formed: mc = n).
func vBatchBytes(id, n int, mc int32) []byte {
	b := make([]byte, 61, 61+11*n)
	b[16] = 2
	binary.BigEndian.PutUint32(b[23:27], uint32(n-1))
	binary.BigEndian.PutUint64(b[27:35], 1700000000000)
	binary.BigEndian.PutUint64(b[35:43], 1700000000000)
	binary.BigEndian.PutUint64(b[43:51], ^uint64(0))
	binary.BigEndian.PutUint16(b[51:53], ^uint16(0))
	binary.BigEndian.PutUint32(b[53:57], ^uint32(0))
	binary.BigEndian.PutUint32(b[57:61], uint32(mc))
	for i := 0; i < n; i++ {
		rec := []byte{0x14, 0, 0, byte(2 * i), 0x01, 0x08, 0, 0, 0, 0, 0}
		binary.BigEndian.PutUint32(rec[6:10], uint32(id))
		b = append(b, rec...)
	}
	binary.BigEndian.PutUint32(b[8:12], uint32(len(b)-12))
	binary.BigEndian.PutUint32(b[17:21], crc32.Checksum(b[21:], vCastagnoli))
	return b
}

// vDescribeBatches walks concatenated record batches: "id@base+n.id@base+n".
func vDescribeBatches(data []byte) string {
	var parts []string
	p := 0
	for p+61 <= len(data) {
		blen := int(binary.BigEndian.Uint32(data[p+8 : p+12]))
		if blen <= 0 || p+12+blen > len(data) || 12+blen < 72 {
			parts = append(parts, "?")
			break
		}
		base := int64(binary.BigEndian.Uint64(data[p : p+8]))
		delta := int32(binary.BigEndian.Uint32(data[p+23 : p+27]))
		id := binary.BigEndian.Uint32(data[p+67 : p+71])
		mc := int32(binary.BigEndian.Uint32(data[p+57 : p+61]))
		parts = append(parts, fmt.Sprintf("%d@%d+%d%s", id, base, int64(delta)+1, vMc(int64(delta)+1, mc)))
		p += 12 + blen
	}
	if p != len(data) && (len(parts) == 0 || parts[len(parts)-1] != "?") {
		parts = append(parts, "?")
	}
	if len(parts) == 0 {
		return "-"
	}
	return strings.Join(parts, ".")
}

func vDescribeSegment(seg []byte) string {
	if len(seg) < 32+16 {
		return "?"
	}
	return vDescribeBatches(seg[32 : len(seg)-16])
}

func vDescribeRB(bs []storage.RecordBatch) string {
	if len(bs) == 0 {
		return "-"
	}
	var parts []string
	for _, b := range bs {
		id := uint32(0)
		if len(b.Bytes) >= 71 {
			id = binary.BigEndian.Uint32(b.Bytes[67:71])
		}
		parts = append(parts, fmt.Sprintf("%d@%d+%d%s", id, b.BaseOffset, int64(b.LastOffsetDelta)+1, vMc(int64(b.LastOffsetDelta)+1, b.MessageCount)))
	}
	return strings.Join(parts, ".")
}

// ---------------------------------------------------------------- goroutine inspection

func vGoid() string {
	buf := make([]byte, 64)
	n := runtime.Stack(buf, false)
	f := strings.Fields(string(buf[:n]))
	if len(f) >= 2 {
		return f[1]
	}
	return "?"
}

var vBlocked = map[string]bool{
	"chan receive": true, "chan send": true, "select": true, "sleep": true, "IO wait": true,
	"sync.Cond.Wait": true, "sync.WaitGroup.Wait": true,
	// NOT "semacquire": a goroutine that starts a GC cycle parks with that reason on the runtime's
	// worldsema while runtime.Stack (this observer) holds it, and runs on as soon as we return.
	"chan receive (nil chan)": true, "chan send (nil chan)": true, "select (no cases)": true,
	"finalizer wait": true, "GC sweep wait": true, "GC scavenge wait": true, "force gc (idle)": true,
	"GC worker (idle)": true, "cleanup wait": true,
}

var vStackBuf = make([]byte, 1<<20)

// vStacks returns goroutine id -> stack text, and whether every goroutine but the caller is blocked.
func vStacks(self string) (map[string]string, bool) {
	n := runtime.Stack(vStackBuf, true)
	for n == len(vStackBuf) {
		vStackBuf = make([]byte, 2*len(vStackBuf))
		n = runtime.Stack(vStackBuf, true)
	}
	out := map[string]string{}
	quiet := true
	for _, blk := range strings.Split(string(vStackBuf[:n]), "\n\n") {
		if !strings.HasPrefix(blk, "goroutine ") {
			continue
		}
		nl := strings.IndexByte(blk, '\n')
		head := blk
		if nl >= 0 {
			head = blk[:nl]
		}
		f := strings.Fields(head)
		if len(f) < 3 {
			continue
		}
		id := f[1]
		lb, rb := strings.IndexByte(head, '['), strings.LastIndexByte(head, ']')
		state := ""
		if lb >= 0 && rb > lb {
			state = head[lb+1 : rb]
		}
		if c := strings.IndexByte(state, ','); c >= 0 {
			state = state[:c]
		}
		out[id] = blk
		if id != self && !vBlocked[state] {
			quiet = false
		}
	}
	return out, quiet
}

var vSelf string

// vSettle waits until every other goroutine is blocked (at a gate, in Cond.Wait, in
// WaitGroup.Wait behind gated children, or idle) and returns the stacks seen then.
func vSettle() (map[string]string, bool) {
	deadline := time.Now().Add(10 * time.Second)
	for i := 0; ; i++ {
		runtime.Gosched()
		st, quiet := vStacks(vSelf)
		if quiet {
			// a stop-the-world snapshot in which every other goroutine is parked is stable:
			// nothing can run until this goroutine releases a gate or sends a command
			return st, true
		}
		if time.Now().After(deadline) {
			return st, false
		}
		if i > 50 {
			time.Sleep(20 * time.Microsecond)
		}
	}
}

// ---------------------------------------------------------------- threads

func (th *vThread) worker() {
	th.goid = vGoid()
	close(th.ready)
	ctx := context.WithValue(context.Background(), vTidKey{}, th)
	for c := range th.cmd {
		th.run(ctx, c)
	}
}

func (th *vThread) finish(status string, base int64) {
	vw.mu.Lock()
	defer vw.mu.Unlock()
	if th.ep.dead {
		th.status = "dead"
		return
	}
	th.status = status
	if status == "acked" {
		vw.acked = append(vw.acked, fmt.Sprintf("%d@%d+%d%s", th.batchID, base, th.n, vMc(int64(th.n), th.mc)))
	}
}

func (th *vThread) run(ctx context.Context, c []string) {
	defer func() {
		if r := recover(); r != nil {
			th.finish("panic", -1)
		}
	}()
	switch c[0] {
	case "append":
		batch, err := storage.NewRecordBatchFromBytes(vBatchBytes(th.batchID, th.n, th.mc))
		if err != nil {
			th.finish("failed", -1)
			return
		}
		res, err := th.ep.plog.AppendBatch(ctx, batch)
		if err != nil {
			th.finish("failed", -1)
			return
		}
		vw.mu.Lock()
		th.status = "appended"
		vw.mu.Unlock()
		th.baseSet(res.BaseOffset)
	case "flush":
		// the ack rule of handleProduce for a split thread: success iff AppendBatch and Flush returned nil
		if err := th.ep.plog.Flush(ctx); err != nil {
			th.finish("failed", -1)
			return
		}
		th.finish("acked", th.baseGet())
	case "produce":
		req := kmsg.NewPtrProduceRequest()
		req.Acks = -1
		req.TimeoutMillis = 1000
		rt := kmsg.NewProduceRequestTopic()
		rt.Topic = vTopic
		rp := kmsg.NewProduceRequestTopicPartition()
		rp.Partition = vPartition
		rp.Records = vBatchBytes(th.batchID, th.n, th.mc)
		rt.Partitions = append(rt.Partitions, rp)
		req.Topics = append(req.Topics, rt)
		const version = 7
		out, err := th.ep.h.handleProduce(ctx, &protocol.RequestHeader{APIKey: protocol.APIKeyProduce, APIVersion: version, CorrelationID: 7}, req)
		if err != nil || len(out) < 4 {
			th.finish("failed", -1)
			return
		}
		resp := kmsg.NewPtrProduceResponse()
		resp.SetVersion(version)
		if err := resp.ReadFrom(out[4:]); err != nil || len(resp.Topics) != 1 || len(resp.Topics[0].Partitions) != 1 {
			th.finish("failed", -1)
			return
		}
		p := resp.Topics[0].Partitions[0]
		if p.ErrorCode != 0 {
			th.finish("failed", -1)
			return
		}
		th.finish("acked", p.BaseOffset)
	}
}

var vBases sync.Map

func (th *vThread) baseSet(b int64) { vBases.Store(th, b) }
func (th *vThread) baseGet() int64 {
	v, ok := vBases.Load(th)
	if !ok {
		return -1
	}
	return v.(int64)
}

// ---------------------------------------------------------------- state line

func vPcOf(th *vThread, stacks map[string]string) string {
	switch th.status {
	case "idle", "appended", "acked", "failed", "panic", "dead":
		return th.status
	}
	st := stacks[th.goid]
	inA := strings.Contains(st, "(*PartitionLog).AppendBatch(")
	inF := strings.Contains(st, "(*PartitionLog).Flush(")
	tag := "?"
	if inA && !inF {
		tag = "A"
	} else if inF && !inA {
		tag = "F"
	}
	switch {
	case th.nxtArr != nil:
		return "nxt"
	case th.mkArr != nil:
		return "mk"
	case strings.Contains(st, "singleflight.(*Group).Do(") && !strings.Contains(st, "singleflight.(*Group).doCall("):
		return "wait"
	case th.pubArr != nil:
		return fmt.Sprintf("pub%s(%d)", tag, th.pubArr.last+1)
	case strings.Contains(st, "(*PartitionLog).uploadFlush("):
		return fmt.Sprintf("up%s(%s,%s)", tag, th.segOut, th.idxOut)
	case strings.Contains(st, "sync.(*Cond).Wait(") && inF:
		return "waitF"
	}
	if os.Getenv("VERIF_DEBUG") != "" {
		fmt.Fprintf(os.Stderr, "=== busy pc for thread %d goid %s\n%s\n=== all\n", th.id, th.goid, st)
		for id, blk := range stacks {
			fmt.Fprintf(os.Stderr, "--- %s\n%s\n", id, blk)
		}
	}
	return "busy" + tag
}

func vKeyBase(key string) (int64, bool) {
	name := strings.TrimPrefix(key, vPrefix)
	name = strings.TrimPrefix(name, "segment-")
	if i := strings.IndexByte(name, '.'); i >= 0 {
		name = name[:i]
	}
	b, err := strconv.ParseInt(name, 10, 64)
	return b, err == nil
}

func vShowObjects(m map[string]vObject) string {
	type kv struct {
		base int64
		s    string
	}
	var l []kv
	for k, o := range m {
		b, ok := vKeyBase(k)
		if !ok || !strings.HasPrefix(k, vPrefix) {
			l = append(l, kv{-1, "?" + k})
			continue
		}
		l = append(l, kv{b, fmt.Sprintf("%d[%s]", b, o.desc)})
	}
	if len(l) == 0 {
		return "-"
	}
	sort.Slice(l, func(i, j int) bool { return l[i].base < l[j].base })
	parts := make([]string, len(l))
	for i := range l {
		parts[i] = l[i].s
	}
	return strings.Join(parts, ";")
}

func vStateLine(stacks map[string]string) string {
	vw.mu.Lock()
	defer vw.mu.Unlock()
	pcs := "-"
	mem := "down"
	if vep != nil && !vep.dead && vep.lazy {
		vw.mu.Unlock()
		vep.h.logMu.RLock()
		cur := vep.h.logs[vTopic][vPartition]
		vep.h.logMu.RUnlock()
		vw.mu.Lock()
		if cur != nil {
			known := false
			for _, p := range vep.seen {
				known = known || p == cur
			}
			if !known {
				vep.seen = append(vep.seen, cur)
			}
		}
		vep.plog = cur
		if cur == nil {
			mem = "unopened"
		}
	}
	if vep != nil && !vep.dead && (vep.plog != nil || vep.lazy) {
		ids := make([]int, 0, len(vep.threads))
		for id := range vep.threads {
			ids = append(ids, id)
		}
		sort.Ints(ids)
		nt := 0
		if len(ids) > 0 {
			nt = ids[len(ids)-1] + 1
		}
		parts := make([]string, 0, nt)
		for t := 0; t < nt; t++ {
			if th, ok := vep.threads[t]; ok {
				parts = append(parts, fmt.Sprintf("%d:%s", t, vPcOf(th, stacks)))
			} else {
				parts = append(parts, fmt.Sprintf("%d:idle", t))
			}
		}
		if nt > 0 {
			pcs = strings.Join(parts, ",")
		}
		var ls storage.VerifLogState
		if vep.plog != nil {
			vw.mu.Unlock()
			ls = vep.plog.VerifLogState()
			vw.mu.Lock()
		}
		segs := "-"
		if len(ls.Segments) > 0 {
			sp := make([]string, len(ls.Segments))
			for i, s := range ls.Segments {
				sp[i] = fmt.Sprintf("%d-%d", s[0], s[1]+1)
			}
			segs = strings.Join(sp, ".")
		}
		fl := 0
		if ls.Flushing {
			fl = 1
		}
		if vep.plog != nil {
			mem = fmt.Sprintf("%d/%s/%s/%d/%s", ls.Next, vDescribeRB(ls.Buffer), vDescribeRB(ls.Inflight), fl, segs)
		}
	}
	extra := ""
	if vep != nil && !vep.dead && vep.lazy {
		logs := len(vep.seen)
		if vep.inits > logs {
			logs = vep.inits
		}
		exists := 0
		if _, err := vw.store.NextOffset(context.Background(), vTopic, vPartition); err == nil {
			exists = 1
		}
		extra = fmt.Sprintf(" logs=%d topic=%d", logs, exists)
	}
	hw, err := vw.store.NextOffset(context.Background(), vTopic, vPartition)
	hws := strconv.FormatInt(hw, 10)
	if err != nil {
		hws = "0" // unknown topic: nothing published yet
	}
	acked := "-"
	if len(vw.acked) > 0 {
		acked = strings.Join(vw.acked, ".")
	}
	return fmt.Sprintf("pcs=%s mem=%s s3=%s ix=%s hw=%s acked=%s%s", pcs, mem, vShowObjects(vw.segs), vShowObjects(vw.idxs), hws, acked, extra)
}

// ---------------------------------------------------------------- scheduler commands

func vNewWorld() {
	vKill()
	vw = &vWorld{segs: map[string]vObject{}, idxs: map[string]vObject{}, store: metadata.NewInMemoryStore(defaultMetadata())}
}

// vKill crashes the running incarnation: its goroutines are cut off from S3 and the store
// (every gate answers "dead") and left to unwind on their now unreachable PartitionLog.
func vKill() {
	if vep == nil {
		return
	}
	vw.mu.Lock()
	vep.dead = true
	for _, th := range vep.threads {
		for _, a := range []*vArrival{th.segArr, th.idxArr, th.pubArr, th.nxtArr, th.mkArr} {
			if a != nil {
				a.release <- "dead"
			}
		}
		th.segArr, th.idxArr, th.pubArr, th.nxtArr, th.mkArr = nil, nil, nil, nil, nil
		close(th.cmd)
	}
	vw.mu.Unlock()
	if vep.h != nil && vep.h.coordinator != nil {
		vep.h.coordinator.Stop() // its cleanup goroutine would otherwise outlive the incarnation
	}
	vep = nil
	vSettle()
}

// vBoot starts a broker incarnation WITHOUT opening the partition: the first produce requests do.
func vBoot(maxBatches, maxMessages int) {
	ep := vNewEpoch(maxBatches, maxMessages)
	ep.lazy = true
	vep = ep
}

func vOpen(maxBatches, maxMessages int) error {
	ep := vNewEpoch(maxBatches, maxMessages)
	plog, err := ep.h.getPartitionLog(context.Background(), vTopic, vPartition)
	if err != nil {
		ep.h.coordinator.Stop()
		return err
	}
	ep.plog = plog
	vep = ep
	return nil
}

// vRace: k goroutines ask a freshly started broker for the partition log at the same time
// (no gates: the window between the fast-path miss and logInit.Do has no seam); returns the
// number of rounds in which they did not all get the same PartitionLog.
func vRace(k, rounds, maxBatches, maxMessages int) int {
	bad := 0
	for r := 0; r < rounds; r++ {
		ep := vNewEpoch(maxBatches, maxMessages)
		got := make([]*storage.PartitionLog, k)
		var wg sync.WaitGroup
		start := make(chan struct{})
		for i := 0; i < k; i++ {
			wg.Add(1)
			go func(i int) {
				defer wg.Done()
				<-start
				got[i], _ = ep.h.getPartitionLog(context.Background(), vTopic, vPartition)
			}(i)
		}
		close(start)
		wg.Wait()
		for i := 1; i < k; i++ {
			if got[i] != got[0] {
				bad++
				break
			}
		}
		ep.h.coordinator.Stop()
	}
	return bad
}

func vNewEpoch(maxBatches, maxMessages int) *vEpoch {
	ep := &vEpoch{threads: map[int]*vThread{}}
	logger := slog.New(slog.NewTextHandler(io.Discard, &slog.HandlerOptions{}))
	brokerInfo := protocol.MetadataBroker{NodeID: 1, Host: "localhost", Port: 19092}
	h := newHandler(&vStore{Store: vw.store, ep: ep}, &vS3{ep: ep}, brokerInfo, logger)
	// thresholds under the schedule's control: no wall-clock flush, no byte threshold
	h.logConfig.Buffer = storage.WriteBufferConfig{MaxBatches: maxBatches, MaxMessages: maxMessages}
	h.logConfig.ReadAheadSegments = 0
	// injected upload failures must not trip the S3 health gate (that is property C25)
	h.s3Health = broker.NewS3HealthMonitor(broker.S3HealthConfig{ErrorWarn: 2, ErrorCrit: 3, LatencyWarn: time.Hour, LatencyCrit: 2 * time.Hour})
	h.flushOnAck = true
	ep.h = h
	return ep
}

func vThreadNew(t int, auto bool, n int, mc int32) *vThread {
	th := &vThread{id: t, ep: vep, cmd: make(chan []string, 1), ready: make(chan struct{}), auto: auto,
		status: "idle", n: n, mc: mc, segOut: "-", idxOut: "-"}
	vw.mu.Lock()
	th.batchID = vw.nextI
	vw.nextI++
	vep.threads[t] = th
	vw.mu.Unlock()
	go th.worker()
	<-th.ready
	return th
}

func vReadCheck() string {
	vw.mu.Lock()
	acked := append([]string(nil), vw.acked...)
	vw.mu.Unlock()
	var bad []string
	for _, a := range acked {
		at := strings.IndexByte(a, '@')
		plus := strings.IndexByte(a, '+')
		base, _ := strconv.ParseInt(a[at+1:plus], 10, 64)
		data, err := vep.plog.Read(context.Background(), base, 1<<20)
		found := false
		if err == nil {
			for _, d := range strings.Split(vDescribeBatches(data), ".") {
				if d == a {
					found = true
				}
			}
		}
		if !found {
			bad = append(bad, a)
		}
	}
	res := "-"
	if len(bad) > 0 {
		res = strings.Join(bad, ".")
	}
	return fmt.Sprintf("ok unreadable=%s next=%d", res, vep.plog.BufferedHighWatermark())
}

func verifC01Main() {
	vSelf = vGoid()
	w := bufio.NewWriter(os.Stdout)
	defer w.Flush()
	sc := bufio.NewScanner(os.Stdin)
	sc.Buffer(make([]byte, 1<<16), 1<<22)
	maxBatches, maxMessages := 0, 0
	vNewWorld()
	emit := func(res string) {
		st, ok := vSettle()
		line := vStateLine(st)
		// a thread that is neither parked at a gate / condvar nor finished cannot exist in a
		// quiescent state: if one shows up the snapshot was taken too early, look again
		for i := 0; i < 5 && ok && strings.Contains(line, ":busy"); i++ {
			time.Sleep(200 * time.Microsecond)
			st, ok = vSettle()
			line = vStateLine(st)
		}
		if !ok {
			res = "stuck"
		}
		fmt.Fprintln(w, res+" "+line)
		w.Flush()
	}
	up := func() bool { return vep != nil && (vep.plog != nil || vep.lazy) }
	for sc.Scan() {
		f := strings.Fields(sc.Text())
		for len(f) > 0 && strings.HasPrefix(f[len(f)-1], "~") { // wake-order hints are for the model only
			f = f[:len(f)-1]
		}
		if len(f) == 0 || strings.HasPrefix(f[0], "#") {
			continue
		}
		atoi := func(i int) (int, bool) {
			if i >= len(f) {
				return 0, false
			}
			v, err := strconv.Atoi(f[i])
			return v, err == nil && v >= 0
		}
		switch f[0] {
		case "new":
			kb, ok1 := atoi(1)
			km, ok2 := atoi(2)
			if !ok1 || !ok2 || len(f) != 4 {
				fmt.Fprintln(w, "bad-op")
				w.Flush()
				continue
			}
			maxBatches, maxMessages = kb, km
			vNewWorld()
			vSetTopic("orders")
			emit("ok")
		case "rnew":
			if len(f) != 3 || (f[1] != "exists" && f[1] != "auto") {
				fmt.Fprintln(w, "bad-op")
				w.Flush()
				continue
			}
			maxBatches, maxMessages = 0, 0
			vNewWorld()
			if f[1] == "exists" {
				vSetTopic("orders")
			} else {
				vSetTopic("fresh")
			}
			vBoot(maxBatches, maxMessages)
			emit("ok")
		case "rrace":
			k, ok1 := atoi(1)
			rounds, ok2 := atoi(2)
			if !ok1 || !ok2 || len(f) != 3 || up() {
				fmt.Fprintln(w, "bad-op")
				w.Flush()
				continue
			}
			bad := vRace(k, rounds, maxBatches, maxMessages)
			vSettle()
			fmt.Fprintf(w, "ok races=%d rounds=%d\n", bad, rounds)
			w.Flush()
		case "rprod":
			t, ok1 := atoi(1)
			if !ok1 || len(f) != 2 {
				fmt.Fprintln(w, "bad-op")
				w.Flush()
				continue
			}
			if vep == nil || !vep.lazy || vep.threads[t] != nil {
				emit("disabled")
				continue
			}
			th := vThreadNew(t, true, 1, 1)
			vw.mu.Lock()
			th.status = "busy"
			vw.mu.Unlock()
			th.cmd <- []string{"produce"}
			emit("ok")
		case "restore":
			if up() || len(f) != 1 {
				emit("disabled")
				continue
			}
			if err := vOpen(maxBatches, maxMessages); err != nil {
				emit("err")
			} else {
				emit("ok")
			}
		case "crash":
			if !up() || len(f) != 1 {
				emit("disabled")
				continue
			}
			vKill()
			emit("ok")
		case "append", "produce":
			// append|produce t n [mc]: mc = the record count the header declares (default n; any int32)
			t, ok1 := atoi(1)
			n, ok2 := atoi(2)
			mc, ok3 := int64(n), true
			if len(f) == 4 {
				v, err := strconv.ParseInt(f[3], 10, 32)
				mc, ok3 = v, err == nil
			}
			if !ok1 || !ok2 || !ok3 || (len(f) != 3 && len(f) != 4) {
				fmt.Fprintln(w, "bad-op")
				w.Flush()
				continue
			}
			if !up() || vep.plog == nil || n < 1 || n > 63 || vep.threads[t] != nil {
				emit("disabled")
				continue
			}
			th := vThreadNew(t, f[0] == "produce", n, int32(mc))
			vw.mu.Lock()
			th.status = "busy"
			vw.mu.Unlock()
			th.cmd <- []string{f[0]}
			emit("ok")
		case "flush":
			t, ok1 := atoi(1)
			if !ok1 || len(f) != 2 {
				fmt.Fprintln(w, "bad-op")
				w.Flush()
				continue
			}
			var th *vThread
			if up() {
				th = vep.threads[t]
			}
			vw.mu.Lock()
			okk := th != nil && !th.auto && th.status == "appended"
			if okk {
				th.status = "busy"
			}
			vw.mu.Unlock()
			if !okk {
				emit("disabled")
				continue
			}
			th.cmd <- []string{"flush"}
			emit("ok")
		case "seg", "idx", "pub", "nxt", "mk":
			t, ok1 := atoi(1)
			if !ok1 || len(f) != 3 || (f[2] != "ok" && f[2] != "fail") {
				fmt.Fprintln(w, "bad-op")
				w.Flush()
				continue
			}
			var th *vThread
			if up() {
				th = vep.threads[t]
			}
			if th == nil {
				emit("disabled")
				continue
			}
			vw.mu.Lock()
			var arr *vArrival
			switch f[0] {
			case "seg":
				arr = th.segArr
			case "idx":
				arr = th.idxArr
			case "pub":
				arr = th.pubArr
			case "nxt":
				arr = th.nxtArr
			case "mk":
				arr = th.mkArr
			}
			if arr == nil {
				vw.mu.Unlock()
				emit("disabled")
				continue
			}
			switch f[0] {
			case "seg":
				th.segArr, th.segOut = nil, f[2]
				if f[2] == "ok" {
					vw.segs[arr.key] = vObject{arr.body, th.segDesc}
				}
			case "idx":
				th.idxArr, th.idxOut = nil, f[2]
				if f[2] == "ok" {
					vw.idxs[arr.key] = vObject{arr.body, th.segDesc}
				}
			case "pub":
				th.pubArr = nil
			case "nxt":
				th.nxtArr = nil
			case "mk":
				th.mkArr = nil
			}
			vw.mu.Unlock()
			if f[0] == "pub" && f[2] == "ok" {
				// the REAL store implementation decides what an out-of-order update does
				_ = vw.store.UpdateOffsets(context.Background(), vTopic, vPartition, arr.last)
			}
			arr.release <- f[2]
			emit("ok")
		case "readcheck":
			if !up() || vep.plog == nil || len(f) != 1 {
				fmt.Fprintln(w, "disabled")
				w.Flush()
				continue
			}
			fmt.Fprintln(w, vReadCheck())
			w.Flush()
		default:
			fmt.Fprintln(w, "bad-op")
			w.Flush()
		}
	}
	_ = bytes.MinRead
}
