//go:build verif

package storage

// VerifLogState is the volatile state of a PartitionLog that C01/C05/C06 compare with the model.
type VerifLogState struct {
	Next     int64
	Buffer   []RecordBatch
	Inflight []RecordBatch
	Flushing bool
	Segments [][2]int64 // baseOffset, lastOffset
}

// VerifLogState snapshots the log under its own locks (no field is changed).
func (l *PartitionLog) VerifLogState() VerifLogState {
	l.mu.Lock()
	defer l.mu.Unlock()
	st := VerifLogState{Next: l.nextOffset, Flushing: l.flushing}
	l.buffer.mu.Lock()
	st.Buffer = append([]RecordBatch(nil), l.buffer.batches...)
	l.buffer.mu.Unlock()
	st.Inflight = append([]RecordBatch(nil), l.flushingBatches...)
	for _, s := range l.segments {
		st.Segments = append(st.Segments, [2]int64{s.baseOffset, s.lastOffset})
	}
	return st
}
