//go:build verif

package storage

// Lower seam of C01 ("acknowledged ==> durable"): the real awsS3Client driven over a fake of its `api`
// interface (harness/C01/root/cmd/verif_c01s3).

// VerifS3API is the interface awsS3Client talks to (the subset of *s3.Client it uses).
type VerifS3API = awsS3API

// VerifNewAWSClient builds the real AWS-backed client over the given API implementation.
func VerifNewAWSClient(bucket, region, kmsKey string, api VerifS3API) S3Client {
	return newAWSClientWithAPI(bucket, region, kmsKey, api)
}
