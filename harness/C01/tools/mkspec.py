#!/usr/bin/env python3
"""Rewrites the `expected` sections of lean/KafVerif/Model/StorageLogOpsSpec.lean from the CURRENT pkg/storage/log.go,
pkg/storage/buffer.go, cmd/broker/main.go, pkg/storage/segment.go (BuildSegment) and pkg/storage/index.go (BuildBytes).

    python3 harness/C01/tools/mkspec.py [repo root]        (default /repo; run from /verif)

Use it ONLY after a reviewed, intended change of those files made `KafVerif.C01.log_ops_match` fail and the model
(Model/StorageLog.lean) was brought in line: read the diff of the Lean file it produces — every changed row is a changed
lock scope, wait loop, S3 / store call, state write, snapshot of mutable state, protocol call, reply field or return of the code
the model mirrors.  The hand-written command lists (`prepareCmds`, `appendCmds`, `flushCmds`, `failCmds`, `commitCmds`) below the
sections must still be what the changed rows compile to (`KafVerif.C01.expected_compiles`), and the ∀-theorems about them
(`prepare_denotes`, `append_step_denotes`, ...) must still hold: that is what keeps this table from simply following the source.
"""
import os
import sys

ROOT = os.path.dirname(os.path.dirname(os.path.dirname(os.path.dirname(os.path.abspath(__file__)))))
sys.path.insert(0, ROOT)
from checks import C01_common as K  # noqa: E402
from checks import lib  # noqa: E402

MODEL = {
    "RestoreFromS3": "`scan` (second loop: a segment with its index is registered, an index-less one is skipped iff base >= nextOffset) and the "
                     "`restore` event's `next := max hw (segEnd l)` — the three writes are ONE critical section",
    "AppendBatch": "event `append t n`: the rows under l.mu are ONE step (`appendCmds`); the rows after the Unlock are the `up true` / `pub true` "
                   "program counters (uploadFlush, then onFlush)",
    "Flush": "events `flush t` / `wake t` = `flushEnter` (`flushCmds`: wait loop, prepareFlush, empty-flush target, ONE critical section); "
             "the rows after the Unlock are the `up false` / `pub false` program counters and `ackNow` (return nil)",
    "prepareFlush": "`prepareFlush` (`prepareCmds`), runs inside the caller's critical section",
    "uploadFlush": "events `seg t ok` (func1), `idx t ok` (func2), `finish t` (after g.Wait: `failCmds` = failure reset incl. Requeue, "
                   "`commitCmds` = commit), each ONE critical section",
    "Read": "`Readable` / the harness op `readcheck`: segments, in-flight batches and buffer are consulted under ONE hold of l.mu",
    "Append": "`buffer ++ [b]` of event `append`",
    "Drain": "`buffer := []`, the drained list is a COPY (`inflight` does not alias the buffer)",
    "Requeue": "`buffer := inflight ++ buffer` of event `finish` (failure)",
    "handleProduce": "`ackNow` / `.failed`: error code 0 only after AppendBatch and Flush returned nil",
    "getPartitionLog": "event `restore` (NextOffset, NewPartitionLog, RestoreFromS3, offset sync, registry write) and, func2, event `pub t ok` "
                       "(onFlush -> store.UpdateOffsets(artifact.LastOffset)); registry steps: Model/StorageLogRegistry.lean",
    "BuildSegment": "`buildOk false` (the `BuildSegment` call of `prepareFlush`, AFTER `Drain`): its error returns are `len(batches) == 0`, "
                    "`len(batch.Bytes) == 0` and the errors of two writes into a bytes.Buffer — `buildErrorsKnown`; a new error return "
                    "(e.g. a validation of `batch.MessageCount`) is `strictBuild`",
    "BuildBytes": "no error (`buildOk`): every error return of `IndexBuilder.BuildBytes` follows a write into its bytes.Buffer",
}


def main():
    repo = sys.argv[1] if len(sys.argv) > 1 else "/repo"
    rows = K.extract_rows(repo)
    order = []
    for r in rows:
        if r["fn"] not in order:
            order.append(r["fn"])
    out = []
    for fn in order:
        if fn not in MODEL:
            sys.exit("function %s is new to the table: say in MODEL which model definition it stands for" % fn)
        rs = [r for r in rows if r["fn"] == fn]
        out.append("/-- `%s` ↦ model %s -/" % (fn, MODEL[fn]))
        out.append(K.lean_table("sec_%s" % fn, rs))
    out.append("/-- function ↦ its rows, in the order of the extractor's function list -/")
    out.append("def sections : List (String × List Row) := [\n%s]\n" % ",\n".join('  ("%s", sec_%s)' % (f, f) for f in order))
    out.append("/-- the table the model was written against -/")
    out.append("def expected : List Row := sections.flatMap (·.2)")
    path = os.path.join(os.environ.get("VERIF_LEAN_DIR") or lib.LEAN, "KafVerif", "Model", "StorageLogOpsSpec.lean")
    s = open(path).read()
    a = s.index("-- BEGIN SECTIONS")
    a = s.index("\n", a) + 1
    b = s.index("-- END SECTIONS")
    open(path, "w").write(s[:a] + "\n".join(out) + "\n" + s[b:])
    print("rewrote %d rows of %d functions in %s" % (len(rows), len(order), path))


if __name__ == "__main__":
    main()
