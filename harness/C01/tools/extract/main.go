// Lock / flush-protocol skeleton extractor (go/ast, standard library only) for the partition log
// (C01 C05 C06; the three properties share the model `StorageLog` these facts justify).
//
//	go run main.go <repo root>      -> JSON lines on stdout, one per row
//
// A copy-and-adapt of harness/C12/tools/extract (abstract lock state held/free/inherit + lock region counter,
// path-insensitive joins) with the dominating-condition lists of harness/C18/tools/extract.  Reads
//
//	pkg/storage/log.go     PartitionLog: RestoreFromS3, AppendBatch, Flush, prepareFlush, uploadFlush, Read (rows under l.mu only)
//	pkg/storage/buffer.go  WriteBuffer:  Append, Drain, Requeue
//	cmd/broker/main.go     handler:      handleProduce (calls into the log, reply fields, jumps, returns), getPartitionLog
//	                                      (incl. the singleflight callback and the onFlush callback handed to NewPartitionLog)
//	pkg/storage/segment.go BuildSegment (plain function): its error returns with their dominating conditions, the fallible
//	                                      calls it makes (body.Write, index.BuildBytes) — prepareFlush calls it AFTER Drain
//	pkg/storage/index.go   IndexBuilder:  BuildBytes (every error return follows a write into its bytes.Buffer)
//
// One row per fact, in SOURCE ORDER, per function (`lit` = 0 for the function body, k for the k-th function
// literal written inside it):
//
//	lock / unlock / deferUnlock MU MODE   <self>.MU.Lock()/RLock()/Unlock()/RUnlock(), defer ...; MODE = w | r
//	wait COND LOOP LOOPCOND               <self>.COND.Wait(); LOOP = "for" when the call sits in the body of a `for`,
//	                                      else "if" (innermost enclosing `if`), else "none"; LOOPCOND = that header's condition
//	notify COND METHOD                    <self>.COND.Broadcast() / Signal()
//	ext SEAM METHOD args binds            call on <self>.s3 (SEAM "s3") / <self>.store (SEAM "store"); context arguments dropped;
//	                                      binds = the names the results are assigned to
//	sync WHAT binds                       X.Wait() on a local (errgroup: both upload goroutines have returned)
//	check FORM COND                       if / for / range / switch header that reads a mutable field of <self>
//	read LOCAL VALUE                      a local defined from an expression that reads a mutable field of <self> (or from a
//	                                      local so defined): `current := l.nextOffset - 1`, `target = &SegmentArtifact{LastOffset: current}`
//	write TARGET VALUE                    store to a field of <self> (x.f = v, x.f[k] = v, x.f += v, x.f++, delete(x.f, k) -> "delete x.f")
//	reply TARGET VALUE                    handler only: X.ErrorCode = v / X.BaseOffset = v (the produce response)
//	call RECV FN args binds async         call of one of the listed protocol functions (see `tracked`), incl. builtin copy
//	ret VALS KINDS unlocks                return; KINDS classifies each value: const | fresh | make | copy (make + copy(..), or
//	                                      append([]T(nil), x...)) | alias (a mutable field of <self>, a slice / index of it, or a local
//	                                      defined so) | call | param | local | mixed | other; unlocks = a deferred Unlock runs here
//	jump KIND                             continue / break / goto
//
// and with every row
//
//	lk      held (write-locked) | rheld (read-locked) | free | inherit (a helper that has not touched <self>.MU yet: whatever
//	        its caller holds), the state of the receiver's OWN mutex (l.mu / b.mu / h.logMu) on the paths that reach the row
//	region  number of Lock/RLock calls executed so far on the path (same region + held = no Unlock in between)
//	guard   the conditions that dominate the row: enclosing if/else/for/range/switch/case headers plus the negation of
//	        every earlier `if c { ...; return|continue|break }` of the enclosing blocks
//
// Function literals handed to X.Do(..) (singleflight) or called on the spot are walked in place with the lock state of
// that point; every other literal (g.Go(func..), go func.., defer func.., callbacks stored for later) is DETACHED: its rows
// carry lk = free.  Mutable fields = fields of the receiver type that some method of the file assigns.
package main

import (
	"bytes"
	"encoding/json"
	"fmt"
	"go/ast"
	"go/parser"
	"go/printer"
	"go/token"
	"os"
	"path/filepath"
	"regexp"
	"strings"
)

type Row struct {
	Fn     string   `json:"fn"`
	Fid    int      `json:"fid"` // position of Fn in the fixed list of extracted functions (1-based)
	Lit    int      `json:"lit"`
	Entry  bool     `json:"entry"`
	Line   int      `json:"line"`
	Lk     string   `json:"lk"`
	Region int      `json:"region"`
	Guard  []string `json:"guard"`
	Kind   string   `json:"kind"`
	A      string   `json:"a,omitempty"` // lock: mutex; wait/notify: cond; ext: seam; sync: what; check: form; read: local; write/reply: target; call: recv
	B      string   `json:"b,omitempty"` // lock: mode; wait: loop; notify: method; ext: method; check: cond; read/write/reply: value; call: fn; jump: kind
	C      string   `json:"c,omitempty"` // wait: loop condition
	Args   []string `json:"args"`        // ext / call: arguments; ret: values
	Binds  []string `json:"binds"`       // ext / call / sync: assigned names; ret: kinds
	Flag   bool     `json:"flag"`        // call: async; ret: unlocks
}

type target struct {
	file   string
	typ    string
	mu     string
	fns    []string
	entry  map[string]bool
	locked map[string]bool // functions of which only the rows under the lock are kept
	reply  bool            // emit reply rows (X.ErrorCode / X.BaseOffset)
	// from[fn] = F: only the rows from the first call of F on are kept, and the guard of that call row is stripped from the
	// front of the guards of the rows it dominates (the checks a request passes BEFORE it reaches the log — authorisation,
	// etcd availability, lease, S3 health — belong to other properties and may change without touching the ack path)
	from map[string]string
}

var targets = []target{
	{file: "pkg/storage/log.go", typ: "PartitionLog", mu: "mu",
		fns:    []string{"RestoreFromS3", "AppendBatch", "Flush", "prepareFlush", "uploadFlush", "Read"},
		entry:  map[string]bool{"RestoreFromS3": true, "AppendBatch": true, "Flush": true, "Read": true},
		locked: map[string]bool{"Read": true}},
	{file: "pkg/storage/buffer.go", typ: "WriteBuffer", mu: "mu",
		fns:   []string{"Append", "Drain", "Requeue"},
		entry: map[string]bool{"Append": true, "Drain": true, "Requeue": true}},
	{file: "cmd/broker/main.go", typ: "handler", mu: "logMu",
		fns:   []string{"handleProduce", "getPartitionLog"},
		entry: map[string]bool{"handleProduce": true, "getPartitionLog": true}, reply: true,
		from: map[string]string{"handleProduce": "getPartitionLog"}},
	// appended at the END: the fid of every earlier function stays what the Lean side knows it as
	{file: "pkg/storage/segment.go", typ: "", mu: "-", fns: []string{"BuildSegment"}, entry: map[string]bool{}},
	{file: "pkg/storage/index.go", typ: "IndexBuilder", mu: "-", fns: []string{"BuildBytes"}, entry: map[string]bool{}},
}

// protocol functions whose calls are rows
var tracked = map[string]bool{
	"prepareFlush": true, "uploadFlush": true, "onFlush": true,
	"Append": true, "ShouldFlush": true, "Drain": true, "Requeue": true, "RecordsFrom": true,
	"recordsFromBatches": true, "BuildSegment": true, "PatchRecordBatchBaseOffset": true, "copy": true,
	"getPartitionLog": true, "AppendBatch": true, "Flush": true, "RestoreFromS3": true, "NewPartitionLog": true,
	"ensureTopic": true, "Do": true,
}

// calls recognised by receiver AND name (the bare names are too common to track everywhere): the fallible calls of
// BuildSegment / IndexBuilder.BuildBytes
var trackedQ = map[string]bool{
	"body.Write": true, "index.BuildBytes": true, "index.MaybeAdd": true, "buf.WriteString": true, "binary.Write": true,
}

var seams = map[string]bool{"s3": true, "store": true}
var replyFields = map[string]bool{"ErrorCode": true, "BaseOffset": true}
var ctxRe = regexp.MustCompile(`(?i)^[a-z]*ctx$`)

var fset = token.NewFileSet()

func fail(f string, a ...interface{}) {
	fmt.Fprintf(os.Stderr, "extract: "+f+"\n", a...)
	os.Exit(2)
}

func raw(n ast.Node) string {
	var b bytes.Buffer
	printer.Fprint(&b, fset, n)
	return strings.Join(strings.Fields(b.String()), " ")
}

func recvInfo(fd *ast.FuncDecl) (typ, name string) {
	if fd.Recv == nil || len(fd.Recv.List) == 0 {
		return "", ""
	}
	t := fd.Recv.List[0].Type
	if s, ok := t.(*ast.StarExpr); ok {
		t = s.X
	}
	if id, ok := t.(*ast.Ident); ok {
		typ = id.Name
	}
	if len(fd.Recv.List[0].Names) > 0 {
		name = fd.Recv.List[0].Names[0].Name
	}
	return
}

// rootIdent: x in x.f, x.f[k], x[k].f, (*x).f, x.f[a:b] ...
func rootIdent(e ast.Expr) string {
	for {
		switch x := e.(type) {
		case *ast.Ident:
			return x.Name
		case *ast.SelectorExpr:
			e = x.X
		case *ast.IndexExpr:
			e = x.X
		case *ast.StarExpr:
			e = x.X
		case *ast.ParenExpr:
			e = x.X
		case *ast.SliceExpr:
			e = x.X
		default:
			return ""
		}
	}
}

// firstField: f in self.f, self.f[k], self.f.g ...   ("" when e is not rooted at self through a selector)
func firstField(e ast.Expr, self string) string {
	field := ""
	for {
		switch x := e.(type) {
		case *ast.Ident:
			if x.Name == self {
				return field
			}
			return ""
		case *ast.SelectorExpr:
			field = x.Sel.Name
			e = x.X
		case *ast.IndexExpr:
			e = x.X
		case *ast.StarExpr:
			e = x.X
		case *ast.ParenExpr:
			e = x.X
		case *ast.SliceExpr:
			e = x.X
		default:
			return ""
		}
	}
}

type typeInfo struct {
	funcs   map[string]*ast.FuncDecl
	mutable map[string]bool
}

func load(path string, t *target) *typeInfo {
	f, err := parser.ParseFile(fset, path, nil, 0)
	if err != nil {
		fail("%v", err)
	}
	ti := &typeInfo{funcs: map[string]*ast.FuncDecl{}, mutable: map[string]bool{}}
	for _, d := range f.Decls {
		fd, ok := d.(*ast.FuncDecl)
		if !ok || fd.Body == nil {
			continue
		}
		typ, self := recvInfo(fd)
		if typ != t.typ {
			continue
		}
		ti.funcs[fd.Name.Name] = fd
		ast.Inspect(fd.Body, func(n ast.Node) bool {
			switch x := n.(type) {
			case *ast.AssignStmt:
				for _, l := range x.Lhs {
					if fl := firstField(l, self); fl != "" {
						ti.mutable[fl] = true
					}
				}
			case *ast.IncDecStmt:
				if fl := firstField(x.X, self); fl != "" {
					ti.mutable[fl] = true
				}
			case *ast.CallExpr:
				if id, ok := x.Fun.(*ast.Ident); ok && id.Name == "delete" && len(x.Args) == 2 {
					if fl := firstField(x.Args[0], self); fl != "" {
						ti.mutable[fl] = true
					}
				}
			}
			return true
		})
	}
	for _, fn := range t.fns {
		if _, ok := ti.funcs[fn]; !ok {
			fail("method %s of %s not found in %s", fn, t.typ, path)
		}
	}
	return ti
}

// ---------------------------------------------------------------------------------- walker

type absState struct {
	lk       string
	region   int
	deferred bool
}

func join(a, b absState) absState {
	out := a
	if a.lk != b.lk {
		out.lk = "free"
	}
	if b.region > out.region {
		out.region = b.region
	}
	out.deferred = a.deferred || b.deferred
	return out
}

type encl struct{ kind, cond string }

type walker struct {
	t       *target
	ti      *typeInfo
	fn      string
	entry   bool
	self    string
	st      absState
	guards  []string
	encl    []encl
	rows    []Row
	lit     int
	nlits   int
	loops   []*[]absState
	tainted map[string]bool
	defs    map[string][]ast.Expr
	copied  map[string]bool
}

func (w *walker) emit(r Row, pos token.Pos) {
	r.Fn, r.Lit, r.Entry, r.Line = w.fn, w.lit, w.entry, fset.Position(pos).Line
	r.Lk, r.Region = w.st.lk, w.st.region
	r.Guard = append([]string{}, w.guards...)
	if r.Args == nil {
		r.Args = []string{}
	}
	if r.Binds == nil {
		r.Binds = []string{}
	}
	w.rows = append(w.rows, r)
}

func (w *walker) isMu(e ast.Expr) bool {
	s, ok := e.(*ast.SelectorExpr)
	if !ok || s.Sel.Name != w.t.mu {
		return false
	}
	id, ok := s.X.(*ast.Ident)
	return ok && id.Name == w.self
}

// mentions: does the expression read a mutable field of self, or a tainted local?  (function literals are skipped)
func (w *walker) mentions(e ast.Node, locals bool) bool {
	if e == nil {
		return false
	}
	found := false
	ast.Inspect(e, func(n ast.Node) bool {
		if found {
			return false
		}
		switch x := n.(type) {
		case *ast.FuncLit:
			return false
		case *ast.SelectorExpr:
			if id, ok := x.X.(*ast.Ident); ok && id.Name == w.self && w.ti.mutable[x.Sel.Name] {
				found = true
			}
		case *ast.Ident:
			if locals && w.tainted[x.Name] {
				found = true
			}
		}
		return true
	})
	return found
}

func (w *walker) args(list []ast.Expr) []string {
	out := []string{}
	for _, a := range list {
		if _, ok := a.(*ast.FuncLit); ok {
			out = append(out, "func")
			continue
		}
		s := raw(a)
		if ctxRe.MatchString(s) {
			continue
		}
		out = append(out, s)
	}
	return out
}

// expr emits the rows of the calls inside e, in evaluation order (receiver and arguments before the call).
// Returns true when e itself is a call that produced a row.
func (w *walker) expr(e ast.Node, binds []string, async bool) bool {
	if e == nil {
		return false
	}
	switch x := e.(type) {
	case *ast.FuncLit:
		w.funcLit(x, false)
		return false
	case *ast.CallExpr:
		name := ""
		switch f := x.Fun.(type) {
		case *ast.SelectorExpr:
			w.expr(f.X, nil, false)
			name = f.Sel.Name
		case *ast.Ident:
			name = f.Name
		case *ast.FuncLit:
			w.funcLit(f, true) // called on the spot
		default:
			w.expr(x.Fun, nil, false)
		}
		for _, a := range x.Args {
			if lit, ok := a.(*ast.FuncLit); ok {
				w.funcLit(lit, name == "Do")
				continue
			}
			w.expr(a, nil, false)
		}
		return w.call(x, binds, async)
	}
	var kids []ast.Node
	first := true
	ast.Inspect(e, func(n ast.Node) bool {
		if first {
			first = false
			return true
		}
		if n != nil {
			kids = append(kids, n)
		}
		return false
	})
	for _, k := range kids {
		w.expr(k, nil, false)
	}
	return false
}

// funcLit walks a function literal; inline = it runs here and now with the lock state of this point, otherwise it is
// detached (another goroutine / later): its rows carry lk = free.
func (w *walker) funcLit(lit *ast.FuncLit, inline bool) {
	w.nlits++
	savedSt, savedLit, savedLoops, savedEncl := w.st, w.lit, w.loops, w.encl
	w.lit = w.nlits
	w.loops, w.encl = nil, nil
	if !inline {
		w.st.lk = "free"
	}
	w.st.deferred = false
	n := len(w.guards)
	w.block(lit.Body.List)
	w.guards = w.guards[:n]
	w.st, w.lit, w.loops, w.encl = savedSt, savedLit, savedLoops, savedEncl
}

func (w *walker) call(c *ast.CallExpr, binds []string, async bool) bool {
	if s, ok := c.Fun.(*ast.SelectorExpr); ok {
		if w.isMu(s.X) {
			mu := raw(s.X)
			switch s.Sel.Name {
			case "Lock", "RLock":
				mode := "w"
				w.st.region++
				w.st.lk = "held"
				if s.Sel.Name == "RLock" {
					mode = "r"
					w.st.lk = "rheld"
				}
				w.emit(Row{Kind: "lock", A: mu, B: mode}, c.Pos())
			case "Unlock", "RUnlock":
				mode := "w"
				if s.Sel.Name == "RUnlock" {
					mode = "r"
				}
				w.emit(Row{Kind: "unlock", A: mu, B: mode}, c.Pos())
				w.st.lk = "free"
			default:
				w.emit(Row{Kind: "call", A: mu, B: s.Sel.Name, Args: w.args(c.Args), Binds: binds}, c.Pos())
			}
			return true
		}
		// condition variable of self
		if inner, ok := s.X.(*ast.SelectorExpr); ok && rootIdent(inner) == w.self {
			switch s.Sel.Name {
			case "Wait":
				if len(c.Args) == 0 {
					loop, cond := "none", ""
					for i := len(w.encl) - 1; i >= 0; i-- {
						if w.encl[i].kind == "for" {
							loop, cond = "for", w.encl[i].cond
							break
						}
					}
					if loop == "none" {
						for i := len(w.encl) - 1; i >= 0; i-- {
							if w.encl[i].kind == "if" {
								loop, cond = "if", w.encl[i].cond
								break
							}
						}
					}
					w.emit(Row{Kind: "wait", A: raw(s.X), B: loop, C: cond}, c.Pos())
					return true
				}
			case "Broadcast", "Signal":
				if len(c.Args) == 0 {
					w.emit(Row{Kind: "notify", A: raw(s.X), B: s.Sel.Name}, c.Pos())
					return true
				}
			}
			if id, ok := inner.X.(*ast.Ident); ok && id.Name == w.self && seams[inner.Sel.Name] {
				w.emit(Row{Kind: "ext", A: inner.Sel.Name, B: s.Sel.Name, Args: w.args(c.Args), Binds: binds}, c.Pos())
				return true
			}
		}
		if id, ok := s.X.(*ast.Ident); ok && s.Sel.Name == "Wait" && len(c.Args) == 0 && id.Name != w.self {
			w.emit(Row{Kind: "sync", A: id.Name + ".Wait", Binds: binds}, c.Pos())
			return true
		}
		if tracked[s.Sel.Name] || (w.t.mu == "-" && trackedQ[raw(s.X)+"."+s.Sel.Name]) {
			w.emit(Row{Kind: "call", A: raw(s.X), B: s.Sel.Name, Args: w.args(c.Args), Binds: binds, Flag: async}, c.Pos())
			return true
		}
		return false
	}
	if id, ok := c.Fun.(*ast.Ident); ok {
		if id.Name == "delete" && len(c.Args) == 2 && firstField(c.Args[0], w.self) != "" {
			w.emit(Row{Kind: "write", A: "delete " + raw(c.Args[0]), B: raw(c.Args[1])}, c.Pos())
			return true
		}
		if tracked[id.Name] {
			w.emit(Row{Kind: "call", A: "", B: id.Name, Args: w.args(c.Args), Binds: binds, Flag: async}, c.Pos())
			return true
		}
	}
	return false
}

func (w *walker) check(form string, cond ast.Node, text string) {
	if cond != nil && w.mentions(cond, false) {
		w.emit(Row{Kind: "check", A: form, B: text}, cond.Pos())
	}
}

func names(list []ast.Expr) []string {
	out := []string{}
	for _, l := range list {
		out = append(out, raw(l))
	}
	return out
}

// assign handles `lhs... op rhs...` after the right-hand sides were walked; rowCall = the single rhs is a call with a row
func (w *walker) assign(lhs []ast.Expr, rhs []ast.Expr, tok token.Token, rowCall bool, pos token.Pos) {
	for i, l := range lhs {
		var r ast.Expr
		if len(rhs) == len(lhs) {
			r = rhs[i]
		} else if len(rhs) == 1 {
			r = rhs[0]
		}
		v := ""
		if r != nil {
			v = raw(r)
		}
		if tok != token.ASSIGN && tok != token.DEFINE {
			v = tok.String() + " " + v
		}
		if firstField(l, w.self) != "" {
			w.emit(Row{Kind: "write", A: raw(l), B: v}, pos)
			continue
		}
		if sel, ok := l.(*ast.SelectorExpr); ok && w.t.reply && replyFields[sel.Sel.Name] {
			w.emit(Row{Kind: "reply", A: raw(l), B: v}, pos)
			continue
		}
	}
	// locals defined from mutable state (one read row per statement)
	var locals []string
	for _, l := range lhs {
		if id, ok := l.(*ast.Ident); ok && id.Name != "_" {
			locals = append(locals, id.Name)
		}
	}
	if len(locals) == 0 || len(rhs) == 0 {
		return
	}
	reads := false
	for _, r := range rhs {
		if w.mentions(r, true) {
			reads = true
		}
	}
	if !reads {
		return
	}
	for _, n := range locals {
		w.tainted[n] = true
	}
	if rowCall {
		return
	}
	w.emit(Row{Kind: "read", A: strings.Join(locals, ", "), B: strings.Join(names(rhs), ", ")}, pos)
}

func (w *walker) block(list []ast.Stmt) bool {
	n := len(w.guards)
	defer func() { w.guards = w.guards[:n] }()
	for _, s := range list {
		if x, ok := s.(*ast.IfStmt); ok {
			term, t1, t2 := w.ifStmt(x)
			if term {
				return true
			}
			cond := raw(x.Cond)
			if t1 {
				w.guards = append(w.guards, "!("+cond+")")
			} else if t2 {
				w.guards = append(w.guards, cond)
			}
			continue
		}
		if w.stmt(s) {
			return true
		}
	}
	return false
}

func (w *walker) ifStmt(x *ast.IfStmt) (term, t1, t2 bool) {
	n := len(w.guards)
	if x.Init != nil {
		w.stmt(x.Init)
	}
	w.expr(x.Cond, nil, false)
	cond := raw(x.Cond)
	w.check("if", x.Cond, cond)
	before := w.st
	w.guards = append(w.guards, cond)
	w.encl = append(w.encl, encl{"if", cond})
	t1 = w.block(x.Body.List)
	w.encl = w.encl[:len(w.encl)-1]
	w.guards = w.guards[:n]
	s1 := w.st
	w.st = before
	if x.Else != nil {
		w.guards = append(w.guards, "!("+cond+")")
		if e, ok := x.Else.(*ast.IfStmt); ok {
			t2, _, _ = w.ifStmt(e)
		} else {
			t2 = w.stmt(x.Else)
		}
		w.guards = w.guards[:n]
	}
	s2 := w.st
	switch {
	case t1 && t2:
		return true, t1, t2
	case t1:
		w.st = s2
	case t2:
		w.st = s1
	default:
		w.st = join(s1, s2)
	}
	return false, t1, t2
}

func (w *walker) stmt(s ast.Stmt) (terminated bool) {
	switch x := s.(type) {
	case nil:
		return false
	case *ast.ExprStmt:
		w.expr(x.X, nil, false)
	case *ast.GoStmt:
		if lit, ok := x.Call.Fun.(*ast.FuncLit); ok {
			for _, a := range x.Call.Args {
				w.expr(a, nil, false)
			}
			w.funcLit(lit, false)
			return false
		}
		w.expr(x.Call, nil, true)
	case *ast.DeferStmt:
		if sel, ok := x.Call.Fun.(*ast.SelectorExpr); ok && w.isMu(sel.X) && (sel.Sel.Name == "Unlock" || sel.Sel.Name == "RUnlock") {
			mode := "w"
			if sel.Sel.Name == "RUnlock" {
				mode = "r"
			}
			w.emit(Row{Kind: "deferUnlock", A: raw(sel.X), B: mode}, x.Pos())
			w.st.deferred = true
			return false
		}
		if lit, ok := x.Call.Fun.(*ast.FuncLit); ok {
			w.funcLit(lit, false)
			return false
		}
		w.expr(x.Call, nil, false)
	case *ast.AssignStmt:
		rowCall := false
		if len(x.Rhs) == 1 {
			rowCall = w.expr(x.Rhs[0], names(x.Lhs), false)
		} else {
			for _, r := range x.Rhs {
				w.expr(r, nil, false)
			}
		}
		w.assign(x.Lhs, x.Rhs, x.Tok, rowCall, x.Pos())
	case *ast.IncDecStmt:
		if firstField(x.X, w.self) != "" {
			w.emit(Row{Kind: "write", A: raw(x.X), B: x.Tok.String()}, x.Pos())
		}
	case *ast.DeclStmt:
		if gd, ok := x.Decl.(*ast.GenDecl); ok {
			for _, sp := range gd.Specs {
				if vs, ok := sp.(*ast.ValueSpec); ok && len(vs.Values) > 0 {
					var lhs []ast.Expr
					for _, n := range vs.Names {
						lhs = append(lhs, n)
					}
					rowCall := false
					if len(vs.Values) == 1 {
						rowCall = w.expr(vs.Values[0], names(lhs), false)
					} else {
						for _, v := range vs.Values {
							w.expr(v, nil, false)
						}
					}
					w.assign(lhs, vs.Values, token.DEFINE, rowCall, vs.Pos())
				}
			}
		}
	case *ast.ReturnStmt:
		for _, r := range x.Results {
			w.expr(r, nil, false)
		}
		vals, kinds := []string{}, []string{}
		for _, r := range x.Results {
			vals = append(vals, raw(r))
			kinds = append(kinds, w.kind(r, 0))
		}
		w.emit(Row{Kind: "ret", Args: vals, Binds: kinds, Flag: w.st.deferred}, x.Pos())
		return true
	case *ast.BranchStmt:
		w.emit(Row{Kind: "jump", B: x.Tok.String()}, x.Pos())
		if (x.Tok == token.CONTINUE || x.Tok == token.BREAK) && len(w.loops) > 0 {
			l := w.loops[len(w.loops)-1]
			*l = append(*l, w.st)
			return true
		}
		return x.Tok == token.GOTO
	case *ast.BlockStmt:
		return w.block(x.List)
	case *ast.LabeledStmt:
		return w.stmt(x.Stmt)
	case *ast.IfStmt:
		t, _, _ := w.ifStmt(x)
		return t
	case *ast.ForStmt:
		n := len(w.guards)
		if x.Init != nil {
			w.stmt(x.Init)
		}
		cond := ""
		if x.Cond != nil {
			w.expr(x.Cond, nil, false)
			cond = raw(x.Cond)
			w.check("for", x.Cond, cond)
		}
		w.guards = append(w.guards, strings.TrimSpace("for "+cond))
		w.encl = append(w.encl, encl{"for", cond})
		w.loop(x.Body, x.Post)
		w.encl = w.encl[:len(w.encl)-1]
		w.guards = w.guards[:n]
	case *ast.RangeStmt:
		n := len(w.guards)
		w.expr(x.X, nil, false)
		w.check("range", x.X, raw(x.X))
		if w.mentions(x.X, true) {
			for _, v := range []ast.Expr{x.Key, x.Value} {
				if id, ok := v.(*ast.Ident); ok && id.Name != "_" {
					w.tainted[id.Name] = true
				}
			}
		}
		w.guards = append(w.guards, "range "+raw(x.X))
		w.encl = append(w.encl, encl{"range", raw(x.X)})
		w.loop(x.Body, nil)
		w.encl = w.encl[:len(w.encl)-1]
		w.guards = w.guards[:n]
	case *ast.SwitchStmt:
		n := len(w.guards)
		if x.Init != nil {
			w.stmt(x.Init)
		}
		tag := ""
		if x.Tag != nil {
			w.expr(x.Tag, nil, false)
			tag = raw(x.Tag)
			w.check("switch", x.Tag, tag)
		}
		w.guards = append(w.guards, strings.TrimSpace("switch "+tag))
		t := w.clauses(x.Body, func(cc ast.Stmt) (string, []ast.Expr, []ast.Stmt, bool) {
			c := cc.(*ast.CaseClause)
			if c.List == nil {
				return "default", nil, c.Body, true
			}
			return "case " + strings.Join(names(c.List), ", "), c.List, c.Body, false
		})
		w.guards = w.guards[:n]
		return t
	case *ast.TypeSwitchStmt:
		n := len(w.guards)
		if x.Init != nil {
			w.stmt(x.Init)
		}
		w.stmt(x.Assign)
		w.guards = append(w.guards, "switch "+raw(x.Assign))
		t := w.clauses(x.Body, func(cc ast.Stmt) (string, []ast.Expr, []ast.Stmt, bool) {
			c := cc.(*ast.CaseClause)
			if c.List == nil {
				return "default", nil, c.Body, true
			}
			return "case " + strings.Join(names(c.List), ", "), nil, c.Body, false
		})
		w.guards = w.guards[:n]
		return t
	case *ast.SelectStmt:
		n := len(w.guards)
		w.guards = append(w.guards, "select")
		t := w.clauses(x.Body, func(cc ast.Stmt) (string, []ast.Expr, []ast.Stmt, bool) {
			c := cc.(*ast.CommClause)
			if c.Comm == nil {
				return "default", nil, c.Body, true
			}
			w.stmt(c.Comm)
			return "case " + raw(c.Comm), nil, c.Body, true
		})
		w.guards = w.guards[:n]
		return t
	case *ast.SendStmt:
		w.expr(x.Value, nil, false)
	}
	return false
}

func (w *walker) loop(body *ast.BlockStmt, post ast.Stmt) {
	before := w.st
	exits := []absState{}
	w.loops = append(w.loops, &exits)
	t := w.block(body.List)
	if !t && post != nil {
		w.stmt(post)
	}
	w.loops = w.loops[:len(w.loops)-1]
	out := before
	if !t {
		out = join(out, w.st)
	}
	for _, e := range exits {
		out = join(out, e)
	}
	w.st = out
}

func (w *walker) clauses(body *ast.BlockStmt, split func(ast.Stmt) (string, []ast.Expr, []ast.Stmt, bool)) bool {
	before := w.st
	var outs []absState
	hasDefault := false
	exits := []absState{}
	w.loops = append(w.loops, &exits) // `break` inside a switch leaves the switch
	for _, cc := range body.List {
		w.st = before
		n := len(w.guards)
		label, conds, stmts, def := split(cc)
		if def {
			hasDefault = true
		}
		for _, c := range conds {
			w.expr(c, nil, false)
		}
		w.guards = append(w.guards, label)
		if !w.block(stmts) {
			outs = append(outs, w.st)
		}
		w.guards = w.guards[:n]
	}
	w.loops = w.loops[:len(w.loops)-1]
	outs = append(outs, exits...)
	if !hasDefault {
		outs = append(outs, before)
	}
	if len(outs) == 0 {
		return true
	}
	st := outs[0]
	for _, o := range outs[1:] {
		st = join(st, o)
	}
	w.st = st
	return false
}

// ---------------------------------------------------------------------------------- value kinds of return statements

func isNilSlice(e ast.Expr) bool {
	switch x := e.(type) {
	case *ast.Ident:
		return x.Name == "nil"
	case *ast.CallExpr: // []T(nil)
		if _, ok := x.Fun.(*ast.ArrayType); ok && len(x.Args) == 1 {
			return isNilSlice(x.Args[0])
		}
	case *ast.CompositeLit: // []T{}
		return len(x.Elts) == 0
	case *ast.ParenExpr:
		return isNilSlice(x.X)
	}
	return false
}

// aliasOf: the expression denotes (a slice / element of) a mutable field of self without copying
func (w *walker) aliasOf(e ast.Expr) bool {
	fl := firstField(e, w.self)
	return fl != "" && w.ti.mutable[fl]
}

func (w *walker) kind(e ast.Expr, depth int) string {
	switch x := e.(type) {
	case *ast.BasicLit:
		return "const"
	case *ast.ParenExpr:
		return w.kind(x.X, depth)
	case *ast.CompositeLit:
		return "fresh"
	case *ast.UnaryExpr:
		if x.Op == token.AND {
			if _, ok := x.X.(*ast.CompositeLit); ok {
				return "fresh"
			}
		}
		return "other"
	case *ast.CallExpr:
		switch f := x.Fun.(type) {
		case *ast.Ident:
			if f.Name == "make" {
				return "make"
			}
			if f.Name == "append" && len(x.Args) >= 1 && isNilSlice(x.Args[0]) {
				return "copy"
			}
		case *ast.SelectorExpr:
			if f.Sel.Name == "Clone" {
				return "copy"
			}
		}
		return "call"
	case *ast.Ident:
		if x.Name == "nil" || x.Name == "true" || x.Name == "false" {
			return "const"
		}
		if x.Name == w.self {
			return "other"
		}
		defs := w.defs[x.Name]
		if len(defs) == 0 {
			return "param"
		}
		if depth > 3 {
			return "local"
		}
		kinds := map[string]bool{}
		for _, d := range defs {
			kinds[w.kind(d, depth+1)] = true
		}
		if kinds["alias"] {
			return "alias"
		}
		if len(kinds) == 1 {
			for k := range kinds {
				if k == "make" && w.copied[x.Name] {
					return "copy"
				}
				if k == "other" || k == "param" {
					return "local"
				}
				return k
			}
		}
		return "mixed"
	}
	if w.aliasOf(e) {
		return "alias"
	}
	return "other"
}

func (w *walker) scanDefs(body *ast.BlockStmt) {
	ast.Inspect(body, func(n ast.Node) bool {
		switch x := n.(type) {
		case *ast.AssignStmt:
			for i, l := range x.Lhs {
				id, ok := l.(*ast.Ident)
				if !ok || id.Name == "_" {
					continue
				}
				if len(x.Rhs) == len(x.Lhs) {
					w.defs[id.Name] = append(w.defs[id.Name], x.Rhs[i])
				} else if len(x.Rhs) == 1 {
					w.defs[id.Name] = append(w.defs[id.Name], x.Rhs[0])
				}
			}
		case *ast.ValueSpec:
			for i, id := range x.Names {
				if i < len(x.Values) {
					w.defs[id.Name] = append(w.defs[id.Name], x.Values[i])
				}
			}
		case *ast.CallExpr:
			if id, ok := x.Fun.(*ast.Ident); ok && id.Name == "copy" && len(x.Args) == 2 {
				if d, ok := x.Args[0].(*ast.Ident); ok {
					w.copied[d.Name] = true
				}
			}
		}
		return true
	})
}

func walk(t *target, ti *typeInfo, name string) []Row {
	fd := ti.funcs[name]
	_, self := recvInfo(fd)
	if self == "" {
		self = "<no receiver>" // a plain function: nothing is "a field of the receiver"
	}
	w := &walker{t: t, ti: ti, fn: name, entry: t.entry[name], self: self, tainted: map[string]bool{},
		defs: map[string][]ast.Expr{}, copied: map[string]bool{}}
	w.st = absState{lk: "inherit"}
	if w.entry {
		w.st.lk = "free"
	}
	w.scanDefs(fd.Body)
	w.block(fd.Body.List)
	rows := w.rows
	if t.locked[name] {
		var out []Row
		for _, r := range rows {
			if r.Lk == "held" || r.Lk == "rheld" {
				out = append(out, r)
			}
		}
		rows = out
	}
	if f, ok := t.from[name]; ok {
		start := -1
		for i, r := range rows {
			if r.Kind == "call" && r.B == f {
				start = i
				break
			}
		}
		if start < 0 {
			fail("%s no longer calls %s", name, f)
		}
		prefix := rows[start].Guard
		var out []Row
		for _, r := range rows[start:] {
			if len(r.Guard) >= len(prefix) {
				same := true
				for i := range prefix {
					if r.Guard[i] != prefix[i] {
						same = false
					}
				}
				if same {
					r.Guard = append([]string{}, r.Guard[len(prefix):]...)
				}
			}
			out = append(out, r)
		}
		rows = out
	}
	return rows
}

func main() {
	if len(os.Args) != 2 {
		fail("usage: extract <repo root>")
	}
	enc := json.NewEncoder(os.Stdout)
	enc.SetEscapeHTML(false)
	total := 0
	seen := map[string]bool{}
	fid := 0
	for i := range targets {
		t := &targets[i]
		ti := load(filepath.Join(os.Args[1], filepath.FromSlash(t.file)), t)
		for _, fn := range t.fns {
			if seen[fn] {
				fail("two functions named %s: the tables are keyed by bare name", fn)
			}
			seen[fn] = true
			fid++
			for _, r := range walk(t, ti, fn) {
				r.Fid = fid
				if err := enc.Encode(r); err != nil {
					fail("%v", err)
				}
				total++
			}
		}
	}
	if total == 0 {
		fail("no rows")
	}
}
