// C35 fact extractor: the slice / index provenance table of internal/sql/parser.go.
//
// For every SliceExpr / IndexExpr on a string or slice in the file it reports WHICH sequence is
// indexed and on WHICH sequences the index values were computed (keywordIndex / clauseEnd /
// regexp Find*Index / strings.Index / len / range keys, followed through assignments, `+=`
// rebasing and the int results of file-local functions).  A sequence is named by a ROOT and a
// byte OFFSET into it: a function parameter is a root; the result of a byte-length-preserving
// lowering (lowerASCII) keeps the root of its argument; the result of anything else that builds a
// new string (strings.ToLower, TrimSpace, Join, …) is a fresh root; `x[a:]` keeps x's root and
// adds `a` to the offset.  Calls between the file's functions are reported with the roots of the
// arguments so that the alignment of two parameters (raw / lower) can be checked at every call
// site.  The check turns this JSON into lean/KafVerif/Gen/C35Slices.lean.
//
// It also lists every package-level `var` of the package (all non-test files next to the given
// file) with its type class and the sites inside function bodies (init() excluded) that write it
// (assignment to it / an element / a field, ++, delete, clear, copy-into, sort, passing it to a
// package function that writes or aliases the parameter), alias it (&v, x := v, return v) or merely
// read it, and whether the enclosing function takes a lock (calls .Lock() / .RLock()).  Parse runs
// on one goroutine per client connection, so a written, lock-less package variable is shared
// mutable state (table `pkg_vars`, obligation KafVerif.C35.no_package_level_mutable_state).
//
// Usage: go run main.go -f <path to parser.go>     (standard library only)
package main

import (
	"bytes"
	"encoding/json"
	"fmt"
	"go/ast"
	"go/parser"
	"go/printer"
	"go/token"
	"os"
	"path/filepath"
	"sort"
	"strings"
)

// functions whose string result has exactly the byte offsets of their first argument
var preserving = map[string]bool{"lowerASCII": true}

var stringsSeq = map[string]bool{"ToLower": true, "ToUpper": true, "TrimSpace": true, "TrimSuffix": true, "TrimPrefix": true,
	"Trim": true, "TrimLeft": true, "TrimRight": true, "TrimFunc": true, "Join": true, "Replace": true, "ReplaceAll": true,
	"Repeat": true, "Title": true, "Map": true, "Fields": true, "Split": true, "SplitN": true, "FieldsFunc": true, "ToValidUTF8": true}
var stringsIdx = map[string]bool{"Index": true, "LastIndex": true, "IndexByte": true, "IndexRune": true, "IndexAny": true,
	"LastIndexByte": true, "LastIndexAny": true, "IndexFunc": true}
var regexpIdx = map[string]bool{"FindStringIndex": true, "FindStringSubmatchIndex": true, "FindIndex": true}
var regexpSeq = map[string]bool{"FindStringSubmatch": true, "FindAllString": true, "Split": true, "FindString": true, "ReplaceAllString": true}

type seqInfo struct {
	Root string `json:"root"`
	Off  string `json:"off"`
}

type sliceRow struct {
	Fn     string    `json:"fn"`
	Line   int       `json:"line"`
	Expr   string    `json:"expr"`
	Root   string    `json:"root"`
	Off    string    `json:"off"`
	Bounds []seqInfo `json:"bounds"`
}

type callRow struct {
	Caller string     `json:"caller"`
	Callee string     `json:"callee"`
	Line   int        `json:"line"`
	Args   []*seqInfo `json:"args"`
}

type lowering struct {
	Fn   string `json:"fn"`
	Line int    `json:"line"`
	Call string `json:"call"`
}

type param struct {
	Name string `json:"name"`
	Seq  bool   `json:"seq"`
}

type fnInfo struct {
	Name   string  `json:"name"`
	Params []param `json:"params"`
}

type kind int

const (
	kOther kind = iota
	kSeq
	kInt
	kIdxSlice
)

type analysis struct {
	fset    *token.FileSet
	decls   map[string]*ast.FuncDecl
	retIdx  map[string]int // function -> index of the parameter its int result indexes (-1 none)
	retKind map[string]kind
	slices  []sliceRow
	calls   []callRow
	lowers  []lowering
}

type fnState struct {
	a     *analysis
	name  string
	seq   map[string]seqInfo
	idx   map[string][]seqInfo
	kinds map[string]kind
	emit  bool
	ret   []seqInfo
}

func (a *analysis) text(e ast.Expr) string {
	if e == nil {
		return "0"
	}
	var b bytes.Buffer
	_ = printer.Fprint(&b, a.fset, e)
	return strings.Join(strings.Fields(b.String()), "")
}

func typeKind(t ast.Expr) kind {
	switch x := t.(type) {
	case *ast.Ident:
		switch x.Name {
		case "string":
			return kSeq
		case "int", "int64", "int32":
			return kInt
		}
	case *ast.ArrayType:
		if id, ok := x.Elt.(*ast.Ident); ok && id.Name == "int" {
			return kIdxSlice
		}
		return kSeq
	}
	return kOther
}

func (s *fnState) fresh(e ast.Node) seqInfo {
	p := s.a.fset.Position(e.Pos())
	return seqInfo{Root: fmt.Sprintf("F%d:%d", p.Line, p.Column), Off: "0"}
}

func addOff(a, b string) string {
	if b == "0" || b == "" {
		return a
	}
	if a == "0" {
		return b
	}
	return a + "+" + b
}

func calleeName(c *ast.CallExpr) (pkg, name string) {
	switch f := c.Fun.(type) {
	case *ast.Ident:
		return "", f.Name
	case *ast.SelectorExpr:
		if id, ok := f.X.(*ast.Ident); ok {
			return id.Name, f.Sel.Name
		}
		return "?", f.Sel.Name
	}
	return "?", "?"
}

func (s *fnState) kindOf(e ast.Expr) kind {
	switch x := e.(type) {
	case *ast.ParenExpr:
		return s.kindOf(x.X)
	case *ast.Ident:
		return s.kinds[x.Name]
	case *ast.BasicLit:
		if x.Kind == token.STRING {
			return kSeq
		}
		if x.Kind == token.INT {
			return kInt
		}
	case *ast.SliceExpr:
		return kSeq
	case *ast.IndexExpr:
		switch s.kindOf(x.X) {
		case kIdxSlice:
			return kInt
		case kSeq:
			return kSeq // element of a []string (or a byte, which is never sliced)
		}
	case *ast.BinaryExpr:
		l, r := s.kindOf(x.X), s.kindOf(x.Y)
		if l == kInt || r == kInt {
			return kInt
		}
		if l == kSeq || r == kSeq {
			return kSeq
		}
	case *ast.CallExpr:
		pkg, name := calleeName(x)
		if pkg == "" {
			if name == "len" {
				return kInt
			}
			if name == "string" {
				return kSeq
			}
			if k, ok := s.a.retKind[name]; ok {
				return k
			}
			if preserving[name] {
				return kSeq
			}
		}
		if pkg == "strings" {
			if stringsSeq[name] {
				return kSeq
			}
			if stringsIdx[name] {
				return kInt
			}
		}
		if regexpIdx[name] {
			return kIdxSlice
		}
		if regexpSeq[name] {
			return kSeq
		}
		if _, ok := x.Fun.(*ast.ArrayType); ok {
			return kSeq // []byte(s)
		}
	}
	return kOther
}

// seqOf: root and offset of a string / slice valued expression.
func (s *fnState) seqOf(e ast.Expr) seqInfo {
	switch x := e.(type) {
	case *ast.ParenExpr:
		return s.seqOf(x.X)
	case *ast.Ident:
		if v, ok := s.seq[x.Name]; ok {
			return v
		}
		v := seqInfo{Root: "G:" + x.Name, Off: "0"}
		s.seq[x.Name] = v
		return v
	case *ast.SliceExpr:
		base := s.seqOf(x.X)
		if x.Low != nil {
			base.Off = addOff(base.Off, s.a.text(x.Low))
		}
		return base
	case *ast.CallExpr:
		pkg, name := calleeName(x)
		if pkg == "" && preserving[name] && len(x.Args) == 1 {
			return s.seqOf(x.Args[0])
		}
	}
	return s.fresh(e)
}

func uniq(in []seqInfo) []seqInfo {
	seen := map[seqInfo]bool{}
	var out []seqInfo
	for _, o := range in {
		if !seen[o] {
			seen[o] = true
			out = append(out, o)
		}
	}
	return out
}

// idxOf: the sequences an int expression is an index into.
func (s *fnState) idxOf(e ast.Expr) []seqInfo {
	switch x := e.(type) {
	case nil:
		return nil
	case *ast.ParenExpr:
		return s.idxOf(x.X)
	case *ast.Ident:
		return s.idx[x.Name]
	case *ast.BinaryExpr:
		return uniq(append(append([]seqInfo{}, s.idxOf(x.X)...), s.idxOf(x.Y)...))
	case *ast.IndexExpr:
		if s.kindOf(x.X) == kIdxSlice {
			if id, ok := x.X.(*ast.Ident); ok {
				return s.idx[id.Name]
			}
			return s.idxOf(x.X)
		}
	case *ast.CallExpr:
		pkg, name := calleeName(x)
		if pkg == "" && name == "len" && len(x.Args) == 1 {
			if lit, ok := x.Args[0].(*ast.BasicLit); ok && lit.Kind == token.STRING {
				return nil // len("keyword"): a constant
			}
			if s.kindOf(x.Args[0]) == kSeq {
				return []seqInfo{s.seqOf(x.Args[0])}
			}
			return nil
		}
		if pkg == "" {
			if k, ok := s.a.retIdx[name]; ok && k >= 0 && k < len(x.Args) {
				return []seqInfo{s.seqOf(x.Args[k])}
			}
		}
		if (pkg == "strings" && stringsIdx[name]) || regexpIdx[name] {
			if len(x.Args) > 0 {
				return []seqInfo{s.seqOf(x.Args[0])}
			}
		}
	}
	return nil
}

func (s *fnState) assign(lhs ast.Expr, rhs ast.Expr, tok token.Token) {
	id, ok := lhs.(*ast.Ident)
	if !ok || id.Name == "_" {
		return
	}
	switch tok {
	case token.ADD_ASSIGN, token.SUB_ASSIGN:
		// `x += y`: an index relative to a suffix that starts at y becomes absolute
		y := s.a.text(rhs)
		var out []seqInfo
		for _, o := range s.idx[id.Name] {
			if tok == token.ADD_ASSIGN && o.Off == y {
				o.Off = "0"
			}
			out = append(out, o)
		}
		s.idx[id.Name] = uniq(append(out, s.idxOf(rhs)...))
		return
	}
	k := s.kindOf(rhs)
	if k == kOther {
		return
	}
	s.kinds[id.Name] = k
	switch k {
	case kSeq:
		s.seq[id.Name] = s.seqOf(rhs)
	case kInt, kIdxSlice:
		s.idx[id.Name] = s.idxOf(rhs)
	}
}

func (s *fnState) visit(n ast.Node) bool {
	switch x := n.(type) {
	case *ast.AssignStmt:
		if len(x.Lhs) == len(x.Rhs) {
			for i := range x.Lhs {
				s.assign(x.Lhs[i], x.Rhs[i], x.Tok)
			}
		} else if len(x.Rhs) == 1 {
			// multi-value call: give string / int results of file-local functions a fresh root
			if c, ok := x.Rhs[0].(*ast.CallExpr); ok {
				if _, name := calleeName(c); s.a.decls[name] != nil && s.a.decls[name].Type.Results != nil {
					i := 0
					for _, f := range s.a.decls[name].Type.Results.List {
						cnt := len(f.Names)
						if cnt == 0 {
							cnt = 1
						}
						for j := 0; j < cnt && i < len(x.Lhs); j++ {
							if id, ok := x.Lhs[i].(*ast.Ident); ok && id.Name != "_" {
								k := typeKind(f.Type)
								s.kinds[id.Name] = k
								if k == kSeq {
									s.seq[id.Name] = s.fresh(x.Lhs[i])
								}
							}
							i++
						}
					}
				}
			}
		}
	case *ast.ValueSpec:
		for i, nm := range x.Names {
			if i < len(x.Values) {
				s.assign(nm, x.Values[i], token.DEFINE)
			} else if x.Type != nil {
				s.kinds[nm.Name] = typeKind(x.Type)
				if s.kinds[nm.Name] == kSeq {
					s.seq[nm.Name] = s.fresh(nm)
				}
			}
		}
	case *ast.RangeStmt:
		if s.kindOf(x.X) == kSeq {
			if id, ok := x.Key.(*ast.Ident); ok && id.Name != "_" {
				s.kinds[id.Name] = kInt
				s.idx[id.Name] = []seqInfo{s.seqOf(x.X)}
			}
			if id, ok := x.Value.(*ast.Ident); ok && id.Name != "_" {
				s.kinds[id.Name] = kSeq
				s.seq[id.Name] = s.fresh(id)
			}
		}
	case *ast.SliceExpr:
		if s.emit {
			base := s.seqOf(x.X)
			b := uniq(append(append([]seqInfo{}, s.idxOf(x.Low)...), s.idxOf(x.High)...))
			s.a.slices = append(s.a.slices, sliceRow{Fn: s.name, Line: s.a.fset.Position(x.Pos()).Line, Expr: s.a.text(x),
				Root: base.Root, Off: base.Off, Bounds: b})
		}
	case *ast.IndexExpr:
		if s.emit && s.kindOf(x.X) == kSeq {
			base := s.seqOf(x.X)
			s.a.slices = append(s.a.slices, sliceRow{Fn: s.name, Line: s.a.fset.Position(x.Pos()).Line, Expr: s.a.text(x),
				Root: base.Root, Off: base.Off, Bounds: uniq(s.idxOf(x.Index))})
		}
	case *ast.CallExpr:
		pkg, name := calleeName(x)
		if s.emit && pkg == "strings" && (name == "ToLower" || name == "ToUpper") {
			s.a.lowers = append(s.a.lowers, lowering{Fn: s.name, Line: s.a.fset.Position(x.Pos()).Line, Call: s.a.text(x)})
		}
		if s.emit && pkg == "" && s.a.decls[name] != nil {
			row := callRow{Caller: s.name, Callee: name, Line: s.a.fset.Position(x.Pos()).Line}
			for _, arg := range x.Args {
				if s.kindOf(arg) == kSeq {
					v := s.seqOf(arg)
					row.Args = append(row.Args, &v)
				} else {
					row.Args = append(row.Args, nil)
				}
			}
			s.a.calls = append(s.a.calls, row)
		}
	case *ast.ReturnStmt:
		for _, r := range x.Results {
			if s.kindOf(r) == kInt {
				s.ret = append(s.ret, s.idxOf(r)...)
			}
		}
	}
	return true
}

func (a *analysis) run(fd *ast.FuncDecl, emit bool) *fnState {
	s := &fnState{a: a, name: fd.Name.Name, seq: map[string]seqInfo{}, idx: map[string][]seqInfo{}, kinds: map[string]kind{}, emit: emit}
	i := 0
	for _, f := range fd.Type.Params.List {
		for _, nm := range f.Names {
			k := typeKind(f.Type)
			s.kinds[nm.Name] = k
			if k == kSeq {
				s.seq[nm.Name] = seqInfo{Root: fmt.Sprintf("P%d", i), Off: "0"}
			}
			i++
		}
	}
	if fd.Body != nil {
		ast.Inspect(fd.Body, s.visit)
	}
	return s
}

// ---------------------------------------------------------------- package-level variables

type varRow struct {
	Name      string   `json:"name"`
	File      string   `json:"file"`
	Line      int      `json:"line"`
	Kind      string   `json:"kind"` // scalar map slice array pointer regexp sync func other
	Writes    int      `json:"writes"`
	Aliases   int      `json:"aliases"`
	Reads     int      `json:"reads"`
	Unguarded int      `json:"unguarded"` // access sites in functions that take no lock
	Sites     []string `json:"sites"`     // the write / alias sites, for the report
}

func typeClass(t ast.Expr) string {
	switch x := t.(type) {
	case *ast.ParenExpr:
		return typeClass(x.X)
	case *ast.MapType:
		return "map"
	case *ast.ArrayType:
		if x.Len == nil {
			return "slice"
		}
		return "array"
	case *ast.ChanType:
		return "sync"
	case *ast.FuncType:
		return "func"
	case *ast.StarExpr:
		if sel, ok := x.X.(*ast.SelectorExpr); ok {
			if id, ok := sel.X.(*ast.Ident); ok && id.Name == "regexp" && sel.Sel.Name == "Regexp" {
				return "regexp"
			}
		}
		return "pointer"
	case *ast.Ident:
		switch x.Name {
		case "string", "bool", "byte", "rune", "int", "int8", "int16", "int32", "int64", "uint", "uint8", "uint16",
			"uint32", "uint64", "uintptr", "float32", "float64", "error":
			return "scalar"
		}
	case *ast.SelectorExpr:
		if id, ok := x.X.(*ast.Ident); ok && (id.Name == "sync" || id.Name == "atomic") {
			return "sync"
		}
	}
	return "other"
}

func valueClass(v ast.Expr) string {
	switch x := v.(type) {
	case *ast.ParenExpr:
		return valueClass(x.X)
	case *ast.BasicLit:
		return "scalar"
	case *ast.FuncLit:
		return "func"
	case *ast.CompositeLit:
		if x.Type != nil {
			return typeClass(x.Type)
		}
	case *ast.UnaryExpr:
		if x.Op == token.AND {
			return "pointer"
		}
		return "scalar"
	case *ast.BinaryExpr:
		return "scalar"
	case *ast.CallExpr:
		pkg, name := calleeName(x)
		if pkg == "" && (name == "make" || name == "new") && len(x.Args) > 0 {
			if name == "new" {
				return "pointer"
			}
			return typeClass(x.Args[0])
		}
		if pkg == "regexp" && strings.Contains(name, "Compile") {
			return "regexp"
		}
		if _, ok := x.Fun.(*ast.ArrayType); ok {
			return "slice"
		}
		if _, ok := x.Fun.(*ast.MapType); ok {
			return "map"
		}
	}
	return "other"
}

var mutatingCallees = map[string]bool{"sort.Strings": true, "sort.Ints": true, "sort.Float64s": true, "sort.Slice": true,
	"sort.SliceStable": true, "sort.Sort": true, "sort.Stable": true, "slices.Sort": true, "slices.SortFunc": true,
	"slices.SortStableFunc": true, "slices.Reverse": true, "rand.Shuffle": true, "maps.Copy": true, "maps.DeleteFunc": true}

type role int

const (
	rNone role = iota
	rRead
	rWrite
	rAlias
)

// pvAnalysis classifies every reference to a tracked variable (a package-level var, or - for the
// callee summaries - a parameter of a package function).
type pvAnalysis struct {
	fset         *token.FileSet
	funcs        map[string]*ast.FuncDecl // package functions (no receiver) by name
	paramWritten map[string]map[int]bool
}

func contains(list []ast.Expr, e ast.Expr) int {
	for i, x := range list {
		if x == e {
			return i
		}
	}
	return -1
}

// classify the identifier at the top of the stack (stack[len-1]); aggregate = the variable is a
// map / slice / pointer / other (sharing its value shares the underlying storage).
func (p *pvAnalysis) classify(stack []ast.Node, aggregate bool) role {
	i := len(stack) - 1
	var top ast.Expr = stack[i].(*ast.Ident)
	elem := false
	for i > 0 {
		switch par := stack[i-1].(type) {
		case *ast.ParenExpr:
			top = par
		case *ast.IndexExpr:
			if par.X != top {
				return rRead // used as an index value
			}
			elem, top = true, par
		case *ast.SelectorExpr:
			if par.X != top {
				return rNone
			}
			elem, top = true, par
		case *ast.StarExpr:
			elem, top = true, par
		case *ast.SliceExpr:
			if par.X != top {
				return rRead
			}
			top = par
		default:
			goto done
		}
		i--
	}
done:
	if i == 0 {
		return rRead
	}
	switch par := stack[i-1].(type) {
	case *ast.AssignStmt:
		if contains(par.Lhs, top) >= 0 {
			if par.Tok == token.DEFINE && !elem {
				return rNone
			}
			return rWrite
		}
		if aggregate && !elem {
			return rAlias
		}
	case *ast.IncDecStmt:
		return rWrite
	case *ast.UnaryExpr:
		if par.Op == token.AND {
			return rAlias
		}
	case *ast.RangeStmt:
		if (par.Key == top || par.Value == top) && par.Tok == token.ASSIGN {
			return rWrite
		}
	case *ast.ValueSpec, *ast.ReturnStmt, *ast.CompositeLit, *ast.KeyValueExpr, *ast.SendStmt:
		if aggregate && !elem {
			return rAlias
		}
	case *ast.CallExpr:
		k := contains(par.Args, top)
		if k < 0 {
			return rRead // method call on the variable, or the callee itself
		}
		pkg, name := calleeName(par)
		if pkg == "" {
			switch name {
			case "delete", "clear":
				if k == 0 {
					return rWrite
				}
			case "copy":
				if k == 0 {
					return rWrite
				}
			case "len", "cap", "append", "string", "print", "println", "min", "max":
				return rRead
			}
			if p.funcs[name] != nil && aggregate && !elem && p.paramWritten[name][k] {
				return rWrite
			}
			return rRead
		}
		if mutatingCallees[pkg+"."+name] && k == 0 && aggregate {
			return rWrite
		}
	}
	return rRead
}

// takesLock: the function body calls x.Lock() / x.RLock(), or x.Do(...) (sync.Once: everything the
// function does after it happens after the one initialisation).
func takesLock(fd *ast.FuncDecl) bool {
	found := false
	ast.Inspect(fd.Body, func(n ast.Node) bool {
		if c, ok := n.(*ast.CallExpr); ok {
			if sel, ok := c.Fun.(*ast.SelectorExpr); ok && (sel.Sel.Name == "Lock" || sel.Sel.Name == "RLock" || sel.Sel.Name == "Do") {
				found = true
			}
		}
		return !found
	})
	return found
}

// onceFuncs: package functions passed by name to x.Do(f) run under the Once, like init().
func onceFuncs(files []*ast.File) map[string]bool {
	out := map[string]bool{}
	for _, f := range files {
		ast.Inspect(f, func(n ast.Node) bool {
			if c, ok := n.(*ast.CallExpr); ok && len(c.Args) == 1 {
				if sel, ok := c.Fun.(*ast.SelectorExpr); ok && sel.Sel.Name == "Do" {
					if id, ok := c.Args[0].(*ast.Ident); ok {
						out[id.Name] = true
					}
				}
			}
			return true
		})
	}
	return out
}

// walk visits every identifier of a function body with its ancestor stack (selector field names skipped).
func walkIdents(body ast.Node, f func(stack []ast.Node)) {
	var stack []ast.Node
	ast.Inspect(body, func(n ast.Node) bool {
		if n == nil {
			stack = stack[:len(stack)-1]
			return true
		}
		stack = append(stack, n)
		if id, ok := n.(*ast.Ident); ok && len(stack) >= 2 {
			if sel, ok := stack[len(stack)-2].(*ast.SelectorExpr); ok && sel.Sel == id {
				return true
			}
			f(stack)
		}
		return true
	})
}

func packageVars(fset *token.FileSet, mainFile string) ([]varRow, error) {
	dir := filepath.Dir(mainFile)
	ents, err := os.ReadDir(dir)
	if err != nil {
		return nil, err
	}
	var files []*ast.File
	var names []string
	for _, e := range ents {
		n := e.Name()
		if e.IsDir() || !strings.HasSuffix(n, ".go") || strings.HasSuffix(n, "_test.go") {
			continue
		}
		f, err := parser.ParseFile(fset, filepath.Join(dir, n), nil, 0)
		if err != nil {
			return nil, err
		}
		files = append(files, f)
		names = append(names, n)
	}
	p := &pvAnalysis{fset: fset, funcs: map[string]*ast.FuncDecl{}, paramWritten: map[string]map[int]bool{}}
	type pv struct {
		row  *varRow
		spec *ast.ValueSpec
	}
	byName := map[string]*pv{}
	var order []*pv
	for fi, f := range files {
		for _, d := range f.Decls {
			switch x := d.(type) {
			case *ast.FuncDecl:
				if x.Recv == nil && x.Body != nil {
					p.funcs[x.Name.Name] = x
				}
			case *ast.GenDecl:
				if x.Tok != token.VAR {
					continue
				}
				for _, sp := range x.Specs {
					vs := sp.(*ast.ValueSpec)
					for i, nm := range vs.Names {
						if nm.Name == "_" {
							continue
						}
						kind := "other"
						if vs.Type != nil {
							kind = typeClass(vs.Type)
						} else if i < len(vs.Values) {
							kind = valueClass(vs.Values[i])
						}
						v := &pv{row: &varRow{Name: nm.Name, File: names[fi], Line: fset.Position(nm.Pos()).Line, Kind: kind}, spec: vs}
						byName[nm.Name] = v
						order = append(order, v)
					}
				}
			}
		}
	}
	aggregateKind := func(k string) bool { return k == "map" || k == "slice" || k == "pointer" || k == "other" }
	// callee summaries: which parameters does a package function write or alias?  (fixpoint)
	for pass := 0; pass < 5; pass++ {
		for name, fd := range p.funcs {
			pos := map[*ast.Object]int{}
			k := 0
			for _, fld := range fd.Type.Params.List {
				for _, nm := range fld.Names {
					if nm.Obj != nil {
						c := typeClass(fld.Type)
						if aggregateKind(c) {
							pos[nm.Obj] = k
						}
					}
					k++
				}
			}
			if len(pos) == 0 {
				continue
			}
			walkIdents(fd.Body, func(stack []ast.Node) {
				id := stack[len(stack)-1].(*ast.Ident)
				k, ok := pos[id.Obj]
				if !ok || id.Obj == nil {
					return
				}
				if r := p.classify(stack, true); r == rWrite || r == rAlias {
					if p.paramWritten[name] == nil {
						p.paramWritten[name] = map[int]bool{}
					}
					p.paramWritten[name][k] = true
				}
			})
		}
	}
	once := onceFuncs(files)
	for _, f := range files {
		for _, d := range f.Decls {
			fd, ok := d.(*ast.FuncDecl)
			if !ok || fd.Body == nil || (fd.Recv == nil && fd.Name.Name == "init") {
				continue
			}
			locked := takesLock(fd) || (fd.Recv == nil && once[fd.Name.Name])
			walkIdents(fd.Body, func(stack []ast.Node) {
				id := stack[len(stack)-1].(*ast.Ident)
				v := byName[id.Name]
				if v == nil {
					return
				}
				if id.Obj != nil { // resolved inside this file: must be the package-level declaration itself
					if vs, ok := id.Obj.Decl.(*ast.ValueSpec); !ok || vs != v.spec {
						return
					}
				}
				r := p.classify(stack, aggregateKind(v.row.Kind))
				site := fmt.Sprintf("%s:%d", fd.Name.Name, fset.Position(id.Pos()).Line)
				switch r {
				case rNone:
					return
				case rRead:
					v.row.Reads++
				case rWrite:
					v.row.Writes++
					v.row.Sites = append(v.row.Sites, site+" write")
				case rAlias:
					v.row.Aliases++
					v.row.Sites = append(v.row.Sites, site+" alias")
				}
				if !locked {
					v.row.Unguarded++
				}
			})
		}
	}
	var out []varRow
	for _, v := range order {
		out = append(out, *v.row)
	}
	return out, nil
}

func main() {
	if len(os.Args) != 3 || os.Args[1] != "-f" {
		fmt.Fprintln(os.Stderr, "usage: extract -f <parser.go>")
		os.Exit(2)
	}
	fset := token.NewFileSet()
	file, err := parser.ParseFile(fset, os.Args[2], nil, 0)
	if err != nil {
		fmt.Fprintln(os.Stderr, err)
		os.Exit(1)
	}
	a := &analysis{fset: fset, decls: map[string]*ast.FuncDecl{}, retIdx: map[string]int{}, retKind: map[string]kind{}}
	var names []string
	for _, d := range file.Decls {
		if fd, ok := d.(*ast.FuncDecl); ok && fd.Recv == nil {
			a.decls[fd.Name.Name] = fd
			names = append(names, fd.Name.Name)
			if fd.Type.Results != nil && len(fd.Type.Results.List) > 0 {
				a.retKind[fd.Name.Name] = typeKind(fd.Type.Results.List[0].Type)
			}
		}
	}
	sort.Strings(names)
	// summaries: which parameter does a function's int result index?  (fixpoint, the call graph is shallow)
	for pass := 0; pass < 4; pass++ {
		for _, n := range names {
			if a.retKind[n] != kInt {
				continue
			}
			s := a.run(a.decls[n], false)
			k := -1
			for _, o := range uniq(s.ret) {
				if strings.HasPrefix(o.Root, "P") && o.Off == "0" {
					fmt.Sscanf(o.Root, "P%d", &k)
				}
			}
			a.retIdx[n] = k
		}
	}
	var fns []fnInfo
	for _, n := range names {
		a.run(a.decls[n], true)
		fi := fnInfo{Name: n}
		for _, f := range a.decls[n].Type.Params.List {
			for _, nm := range f.Names {
				fi.Params = append(fi.Params, param{Name: nm.Name, Seq: typeKind(f.Type) == kSeq})
			}
		}
		fns = append(fns, fi)
	}
	vars, err := packageVars(token.NewFileSet(), os.Args[2])
	if err != nil {
		fmt.Fprintln(os.Stderr, err)
		os.Exit(1)
	}
	if vars == nil {
		vars = []varRow{}
	}
	out := map[string]interface{}{"funcs": fns, "slices": a.slices, "calls": a.calls, "lowerings": a.lowers, "index_result_param": a.retIdx,
		"pkg_vars": vars}
	enc := json.NewEncoder(os.Stdout)
	enc.SetIndent("", " ")
	_ = enc.Encode(out)
}
