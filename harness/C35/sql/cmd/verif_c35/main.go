//go:build verif

// C35 correspondence harness: `p <hex query>` per line; prints the canonical form of
// sql.Parse's result (the fields the Lean model computes, same format as lean/Driver/C35.lean),
// then " ## " and a JSON dump of the whole Query (for the case-variant monitor).
// `l <hex>` prints `lower <hex of lowerASCII(s)>` (Lean: asciiLower).
//
// `verif_c35 conc <goroutines> [<statements per goroutine>]`: the `p` lines of stdin are parsed by
// <goroutines> goroutines that all start at the same moment in this (fresh) process - the SQL
// server runs one goroutine per client connection - each with a different first statement;
// afterwards the same statements are parsed sequentially and every concurrent answer must equal
// the sequential one.  A Go fatal
// error (concurrent map writes) or a race report (-race build) kills the process: the check reads
// the exit status and stderr.
package main

import (
	"bufio"
	"encoding/hex"
	"encoding/json"
	"fmt"
	"os"
	"strconv"
	"strings"
	"sync"

	kafsql "github.com/kafscale/platform/addons/processors/sql-processor/internal/sql"
)

func hx(s string) string {
	if s == "" {
		return "-"
	}
	return hex.EncodeToString([]byte(s))
}

func hxList(xs []string) string {
	if len(xs) == 0 {
		return "-"
	}
	out := make([]string, len(xs))
	for i, x := range xs {
		out[i] = hx(x)
	}
	return strings.Join(out, ",")
}

func optInt32(p *int32) string {
	if p == nil {
		return "-"
	}
	return strconv.FormatInt(int64(*p), 10)
}

func optInt64(p *int64) string {
	if p == nil {
		return "-"
	}
	return strconv.FormatInt(*p, 10)
}

func b01(b bool) string {
	if b {
		return "1"
	}
	return "0"
}

func joinExpr(e kafsql.JoinExpr) string {
	kind, side := "0", "0"
	if e.Kind == kafsql.JoinExprJSON {
		kind = "1"
	}
	if e.Side == "right" {
		side = "1"
	}
	return kind + ":" + hx(e.Source) + ":" + side + ":" + hx(e.JSONPath)
}

func sel(q kafsql.Query) string {
	jtype := "0"
	switch q.JoinType {
	case "inner":
		jtype = "1"
	case "left":
		jtype = "2"
	}
	jon := "-"
	if q.JoinOn != nil {
		jon = joinExpr(q.JoinOn.Left) + "/" + joinExpr(q.JoinOn.Right)
	}
	cols := make([]string, len(q.Select))
	for i, c := range q.Select {
		cols[i] = c.Raw
	}
	return fmt.Sprintf("topic=%s alias=%s jt=%s ja=%s jtype=%s jon=%s cols=%s group=%s order=%s desc=%s limit=%s part=%s omin=%s omax=%s within=%s last=%s tail=%s scan=%s",
		hx(q.Topic), hx(q.TopicAlias), hx(q.JoinTopic), hx(q.JoinAlias), jtype, jon, hxList(cols), hxList(q.GroupBy),
		hx(q.OrderBy), b01(q.OrderDesc), hx(q.Limit), optInt32(q.Partition), optInt64(q.OffsetMin), optInt64(q.OffsetMax),
		hx(q.TimeWindow), hx(q.Last), hx(q.Tail), b01(q.ScanFull))
}

func canon(q kafsql.Query) string {
	switch q.Type {
	case kafsql.QueryShowTopics:
		return "ok show_topics"
	case kafsql.QueryShowPartitions:
		return "ok show_partitions " + hx(q.Topic)
	case kafsql.QueryDescribe:
		return "ok describe " + hx(q.Topic)
	case kafsql.QuerySelect:
		return "ok select " + sel(q)
	case kafsql.QueryExplain:
		if q.Explain == nil {
			return "ok explain-nil"
		}
		return "ok explain " + sel(*q.Explain)
	default:
		return "ok unknown-type"
	}
}

func run(q string) (line string) {
	defer func() {
		if r := recover(); r != nil {
			line = "panic"
		}
	}()
	parsed, err := kafsql.Parse(q)
	if err != nil {
		return "err"
	}
	full, jerr := json.Marshal(parsed)
	if jerr != nil {
		full = []byte(`"json-error"`)
	}
	return canon(parsed) + " ## " + string(full)
}

func runLower(s string) (line string) {
	defer func() {
		if r := recover(); r != nil {
			line = "panic"
		}
	}()
	return "lower " + hx(kafsql.VerifLowerASCII(s))
}

// concurrent cold start: see the package comment.
func conc(n, per int) {
	var qs []string
	sc := bufio.NewScanner(os.Stdin)
	sc.Buffer(make([]byte, 1<<20), 1<<26)
	for sc.Scan() {
		f := strings.Fields(sc.Text())
		if len(f) != 2 || f[0] != "p" {
			continue
		}
		var q []byte
		if f[1] != "-" {
			q, _ = hex.DecodeString(f[1])
		}
		qs = append(qs, string(q))
	}
	if len(qs) == 0 || n <= 0 {
		fmt.Println("conc-bad-input")
		os.Exit(3)
	}
	res := make([][]string, n)
	start := make(chan struct{})
	var wg sync.WaitGroup
	for g := 0; g < n; g++ {
		res[g] = make([]string, len(qs))
		wg.Add(1)
		go func(g int) {
			defer wg.Done()
			mine := res[g]
			<-start
			for k := 0; k < per && k < len(qs); k++ {
				i := (g*7 + k) % len(qs) // a different first statement per connection
				mine[i] = run(qs[i])
			}
		}(g)
	}
	close(start)
	wg.Wait()
	mism, panics := 0, 0
	w := bufio.NewWriter(os.Stdout)
	for i, q := range qs {
		want := run(q)
		for g := 0; g < n; g++ {
			if res[g][i] == "panic" {
				panics++
			}
			if res[g][i] != "" && res[g][i] != want {
				mism++
				if mism <= 3 {
					fmt.Fprintf(w, "conc-mismatch %s goroutine=%d concurrent=%q sequential=%q\n", hx(q), g, res[g][i], want)
				}
			}
		}
	}
	fmt.Fprintf(w, "conc-done goroutines=%d statements=%d mismatches=%d panics=%d\n", n, len(qs), mism, panics)
	w.Flush()
}

func main() {
	if len(os.Args) >= 3 && os.Args[1] == "conc" {
		n, _ := strconv.Atoi(os.Args[2])
		per := 1 << 30
		if len(os.Args) >= 4 {
			per, _ = strconv.Atoi(os.Args[3])
		}
		conc(n, per)
		return
	}
	w := bufio.NewWriter(os.Stdout)
	defer w.Flush()
	sc := bufio.NewScanner(os.Stdin)
	sc.Buffer(make([]byte, 1<<20), 1<<26)
	for sc.Scan() {
		f := strings.Fields(sc.Text())
		if len(f) == 0 || strings.HasPrefix(f[0], "#") {
			continue
		}
		if (f[0] != "p" && f[0] != "l") || len(f) != 2 {
			fmt.Fprintln(w, "bad-op")
			continue
		}
		var q []byte
		if f[1] != "-" {
			var err error
			q, err = hex.DecodeString(f[1])
			if err != nil {
				fmt.Fprintln(w, "bad-op")
				continue
			}
		}
		if f[0] == "l" {
			fmt.Fprintln(w, runLower(string(q)))
			continue
		}
		fmt.Fprintln(w, run(string(q)))
	}
}
