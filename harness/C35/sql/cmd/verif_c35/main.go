//go:build verif

// C35 correspondence harness: `p <hex query>` per line; prints the canonical form of
// sql.Parse's result (the fields the Lean model computes, same format as lean/Driver/C35.lean),
// then " ## " and a JSON dump of the whole Query (for the case-variant monitor).
package main

import (
	"bufio"
	"encoding/hex"
	"encoding/json"
	"fmt"
	"os"
	"strconv"
	"strings"

	kafsql "github.com/kafscale/platform/addons/processors/sql-processor/internal/sql"
)

func hx(s string) string {
	if s == "" {
		return "-"
	}
	return hex.EncodeToString([]byte(s))
}

func hxList(xs []string) string {
	if len(xs) == 0 {
		return "-"
	}
	out := make([]string, len(xs))
	for i, x := range xs {
		out[i] = hx(x)
	}
	return strings.Join(out, ",")
}

func optInt32(p *int32) string {
	if p == nil {
		return "-"
	}
	return strconv.FormatInt(int64(*p), 10)
}

func optInt64(p *int64) string {
	if p == nil {
		return "-"
	}
	return strconv.FormatInt(*p, 10)
}

func b01(b bool) string {
	if b {
		return "1"
	}
	return "0"
}

func joinExpr(e kafsql.JoinExpr) string {
	kind, side := "0", "0"
	if e.Kind == kafsql.JoinExprJSON {
		kind = "1"
	}
	if e.Side == "right" {
		side = "1"
	}
	return kind + ":" + hx(e.Source) + ":" + side + ":" + hx(e.JSONPath)
}

func sel(q kafsql.Query) string {
	jtype := "0"
	switch q.JoinType {
	case "inner":
		jtype = "1"
	case "left":
		jtype = "2"
	}
	jon := "-"
	if q.JoinOn != nil {
		jon = joinExpr(q.JoinOn.Left) + "/" + joinExpr(q.JoinOn.Right)
	}
	cols := make([]string, len(q.Select))
	for i, c := range q.Select {
		cols[i] = c.Raw
	}
	return fmt.Sprintf("topic=%s alias=%s jt=%s ja=%s jtype=%s jon=%s cols=%s group=%s order=%s desc=%s limit=%s part=%s omin=%s omax=%s within=%s last=%s tail=%s scan=%s",
		hx(q.Topic), hx(q.TopicAlias), hx(q.JoinTopic), hx(q.JoinAlias), jtype, jon, hxList(cols), hxList(q.GroupBy),
		hx(q.OrderBy), b01(q.OrderDesc), hx(q.Limit), optInt32(q.Partition), optInt64(q.OffsetMin), optInt64(q.OffsetMax),
		hx(q.TimeWindow), hx(q.Last), hx(q.Tail), b01(q.ScanFull))
}

func canon(q kafsql.Query) string {
	switch q.Type {
	case kafsql.QueryShowTopics:
		return "ok show_topics"
	case kafsql.QueryShowPartitions:
		return "ok show_partitions " + hx(q.Topic)
	case kafsql.QueryDescribe:
		return "ok describe " + hx(q.Topic)
	case kafsql.QuerySelect:
		return "ok select " + sel(q)
	case kafsql.QueryExplain:
		if q.Explain == nil {
			return "ok explain-nil"
		}
		return "ok explain " + sel(*q.Explain)
	default:
		return "ok unknown-type"
	}
}

func run(q string) (line string) {
	defer func() {
		if r := recover(); r != nil {
			line = "panic"
		}
	}()
	parsed, err := kafsql.Parse(q)
	if err != nil {
		return "err"
	}
	full, jerr := json.Marshal(parsed)
	if jerr != nil {
		full = []byte(`"json-error"`)
	}
	return canon(parsed) + " ## " + string(full)
}

func main() {
	w := bufio.NewWriter(os.Stdout)
	defer w.Flush()
	sc := bufio.NewScanner(os.Stdin)
	sc.Buffer(make([]byte, 1<<20), 1<<26)
	for sc.Scan() {
		f := strings.Fields(sc.Text())
		if len(f) == 0 || strings.HasPrefix(f[0], "#") {
			continue
		}
		if f[0] != "p" || len(f) != 2 {
			fmt.Fprintln(w, "bad-op")
			continue
		}
		var q []byte
		if f[1] != "-" {
			var err error
			q, err = hex.DecodeString(f[1])
			if err != nil {
				fmt.Fprintln(w, "bad-op")
				continue
			}
		}
		fmt.Fprintln(w, run(string(q)))
	}
}
