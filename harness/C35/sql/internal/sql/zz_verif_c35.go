//go:build verif

package sql

// VerifLowerASCII exposes the statement-wide lowering of Parse (lowerASCII) to the C35 harness:
// the Lean model has it as the byte map `asciiLower`; the check compares the two byte by byte.
func VerifLowerASCII(s string) string { return lowerASCII(s) }
