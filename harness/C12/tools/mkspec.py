#!/usr/bin/env python3
"""Rewrites the `expected` sections of lean/KafVerif/Model/Group/CoordOpsSpec.lean from the CURRENT coordinator.go.

    python3 harness/C12/tools/mkspec.py [repo root]        (default /repo; run from /verif)

Use it ONLY after a reviewed, intended change of pkg/broker/coordinator.go made `KafVerif.C12.coord_ops_match` fail and the
model (Model/Group/Coordinator.lean) was brought in line: read the diff of the Lean file it produces — every changed row is
a changed lock scope, store call, state write, check or return of the code the model mirrors.  A function that is new to the
table needs a line in MODEL below (which model definition it stands for).
"""
import json
import os
import subprocess
import sys

ROOT = os.path.dirname(os.path.dirname(os.path.dirname(os.path.dirname(os.path.abspath(__file__)))))
sys.path.insert(0, ROOT)
from checks import C12_common as G  # noqa: E402
from checks import lib  # noqa: E402

MODEL = {
    "JoinGroup": "`join` (= ensureGroup, joinMember, joinPhase, joinMark, joinFinish, joinReply, persist) — ONE step of the model",
    "SyncGroup": "`sync` (= loadGroup, the four fencing checks, leaderAssign, syncFinish, persist) — ONE step",
    "Heartbeat": "`heartbeat` (= loadGroup, member / generation check, lastHb update, persist) — ONE step",
    "LeaveGroup": "`leave` (= loadGroup, member check, leaveCore, persist / delete) — ONE step",
    "OffsetCommit": "`commit` (= loadGroup, commitCheck, commitWrites) — ONE step since the C13 fix (defer Unlock)",
    "OffsetFetch": "`fetch` — takes no lock, reads the store only",
    "fetchCommittedOffset": "`fetchRows` (one row)",
    "ensureGroup": "`ensureGroup`",
    "loadGroupIfMissing": "`loadGroup` (the restore path: FetchConsumerGroup, restore, cache)",
    "persistGroupLocked": "`persist` (Delete when no member is left, Put otherwise)",
    "restoreGroupState": "`restore` (writes go to the freshly built object only)",
    "assignPartitions": "`assignPartitions` (first calls collectTopicPartitions = `partsOf` for every subscribed topic)",
    "collectTopicPartitions": "`partsOf` / the `metadata` fault: the one store READ of the leader's sync",
    "cleanupGroups": "`cleanup` (= cleanupOutcome, cleanupGroup per loaded group) — ONE step, whole loop under the lock",
    "ensureLeader": "`ensureLeader`",
    "startRebalance": "`startRebalance` (the only place the generation grows)",
    "bumpRebalanceDeadline": "`bump`",
    "completeIfReady": "`completeIfReady`",
    "markStable": "`markStable`",
    "removeExpiredMembers": "`removeExpired`",
    "dropRebalanceLaggers": "`dropLaggers`",
}


def main():
    repo = sys.argv[1] if len(sys.argv) > 1 else "/repo"
    p = subprocess.run(["go", "run", G.EXTRACTOR, repo], cwd="/tmp", env=lib.go_env(), capture_output=True, text=True)
    if p.returncode != 0:
        sys.exit("extractor failed: " + p.stderr)
    rows = [json.loads(l) for l in p.stdout.split("\n") if l.strip()]
    order = []
    for r in rows:
        if r["fn"] not in order:
            order.append(r["fn"])
    out = []
    for fn in order:
        if fn not in MODEL:
            sys.exit("function %s is new to the table: say in MODEL which model definition it stands for" % fn)
        rs = [r for r in rows if r["fn"] == fn]
        out.append("/-- `%s` ↦ model %s -/" % (fn, MODEL[fn]))
        out.append(G.lean_table("sec_%s" % fn, rs))
    out.append("/-- function ↦ its rows, in the order of the source file -/")
    out.append("def sections : List (String × List Row) := [\n%s]\n" % ",\n".join('  ("%s", sec_%s)' % (f, f) for f in order))
    out.append("/-- the table the model was written against -/")
    out.append("def expected : List Row := sections.flatMap (·.2)")
    path = os.path.join(lib.LEAN, "KafVerif", "Model", "Group", "CoordOpsSpec.lean")
    s = open(path).read()
    a = s.index("-- BEGIN SECTIONS")
    a = s.index("\n", a) + 1
    b = s.index("-- END SECTIONS")
    open(path, "w").write(s[:a] + "\n".join(out) + "\n" + s[b:])
    print("rewrote %d rows of %d functions in %s" % (len(rows), len(order), path))


if __name__ == "__main__":
    main()
