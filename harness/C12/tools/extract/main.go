// Lock/persist skeleton extractor (go/ast, standard library only) for the group coordinator
// (C12 C13 C15; the six coordinator properties share the model these facts justify).
//
//	go run main.go <repo root>      -> JSON lines on stdout, one per row
//
// Reads <root>/pkg/broker/coordinator.go.  ENTRY functions are the request paths the Lean model has a
// step for: JoinGroup, SyncGroup, Heartbeat, LeaveGroup, OffsetCommit, OffsetFetch, cleanupGroups.
// Every function of the file that an entry reaches (methods of *GroupCoordinator / *groupState and
// package-level functions) and that has an effect — a c.mu operation, a call on c.store, a write of a
// groupState / memberState / GroupCoordinator field — directly or through another such function is a
// HELPER and gets its own table (persistGroupLocked, loadGroupIfMissing, restoreGroupState = the restore
// path, startRebalance, ...).  Pure helpers (encodeAssignment, buildConsumerGroup, ...) stay expressions.
//
// One row per fact, in SOURCE ORDER, per function:
//
//	lock / unlock / deferUnlock   c.mu.Lock(), c.mu.Unlock(), defer c.mu.Unlock()
//	store M                       call c.store.M(..) (also through a local defined from c.store)
//	write T V fresh owner         T = V for a field T of groupState/memberState (owner "state") / GroupCoordinator ("coord")
//	                              (x.f = v, x.f[k] = v, x.f++, delete(x.f, k) -> target "delete x.f");
//	                              fresh = the object was built by a composite literal in this function
//	check C                       an if / switch header that reads group state (a state field, or a local
//	                              computed from state or from a helper / store call); a for / range header
//	                              only when it names a state field itself
//	call F async                  call of a helper (go statement: async)
//	reply F V K                   resp.F = V for the local `resp` the function returns, when V is computed from
//	                              group state or from a field of the coordinator; K = call | addr | field | other
//	ret VALS dirty unlocks        return; dirty = group state was written since the last persist on some
//	                              path to here; unlocks = a deferred c.mu.Unlock() runs at this return
//
// and with every row the abstract lock state on the paths that reach it:
//
//	lk      held | free | inherit (a helper that does not touch c.mu itself: whatever its caller holds)
//	region  number of c.mu.Lock() calls executed so far on the path (same region + held = no Unlock in between)
//
// The abstract interpretation is path-insensitive: after an `if` whose body ends in return/continue the state
// of the other branch continues; otherwise the two states are joined (held ⊔ free = free, dirty = or,
// region = max).  Function literals are walked where they are written (effects inside carry the state of
// that point; their return statements are not rows); the body of `go func(){..}()` and of a deferred closure
// carries lk = free.
package main

import (
	"bytes"
	"encoding/json"
	"fmt"
	"go/ast"
	"go/parser"
	"go/printer"
	"go/token"
	"hash/fnv"
	"os"
	"path/filepath"
	"sort"
	"strings"
)

type Row struct {
	Fn      string   `json:"fn"`
	Entry   bool     `json:"entry"`
	Line    int      `json:"line"`
	Lk      string   `json:"lk"`
	Region  int      `json:"region"`
	Kind    string   `json:"kind"`
	Method  string   `json:"method,omitempty"` // store / call
	Target  string   `json:"target,omitempty"` // write / reply
	Value   string   `json:"value,omitempty"`  // write / reply
	VKind   string   `json:"vkind,omitempty"`  // reply
	Fresh   bool     `json:"fresh,omitempty"`  // write
	Owner   string   `json:"owner,omitempty"`  // write: "state" (groupState/memberState field) | "coord" (GroupCoordinator field)
	Fid     int      `json:"fid"`              // id of Fn (FNV-1a of the name)
	Callee  int      `json:"callee,omitempty"` // call: Fid of the callee
	Cond    string   `json:"cond,omitempty"`   // check
	Async   bool     `json:"async,omitempty"`  // call
	Vals    []string `json:"vals,omitempty"`   // ret
	Dirty   bool     `json:"dirty,omitempty"`  // ret
	Unlocks bool     `json:"unlocks,omitempty"`
}

var fset = token.NewFileSet()

func fail(f string, a ...interface{}) {
	fmt.Fprintf(os.Stderr, "extract: "+f+"\n", a...)
	os.Exit(2)
}

func raw(n ast.Node) string {
	var b bytes.Buffer
	printer.Fprint(&b, fset, n)
	return strings.Join(strings.Fields(b.String()), " ")
}

var entries = []string{"JoinGroup", "SyncGroup", "Heartbeat", "LeaveGroup", "OffsetCommit", "OffsetFetch", "cleanupGroups"}

const (
	coordType  = "GroupCoordinator"
	groupType  = "groupState"
	memberType = "memberState"
)

// persisting store methods (the ones a lost lock region lets overtake each other)
var storeWrites = map[string]bool{"PutConsumerGroup": true, "DeleteConsumerGroup": true, "CommitConsumerOffset": true}

type fileInfo struct {
	funcs       map[string]*ast.FuncDecl // by bare name
	recvOf      map[string]string        // fn -> receiver type ("" for package level)
	stateFields map[string]bool          // fields of groupState / memberState
	coordFields map[string]bool          // fields of GroupCoordinator
	stateMeths  map[string]bool
	coordMeths  map[string]bool
}

func recvInfo(fd *ast.FuncDecl) (typ, name string) {
	if fd.Recv == nil || len(fd.Recv.List) == 0 {
		return "", ""
	}
	t := fd.Recv.List[0].Type
	if s, ok := t.(*ast.StarExpr); ok {
		t = s.X
	}
	if id, ok := t.(*ast.Ident); ok {
		typ = id.Name
	}
	if len(fd.Recv.List[0].Names) > 0 {
		name = fd.Recv.List[0].Names[0].Name
	}
	return
}

func load(path string) *fileInfo {
	f, err := parser.ParseFile(fset, path, nil, 0)
	if err != nil {
		fail("%v", err)
	}
	fi := &fileInfo{funcs: map[string]*ast.FuncDecl{}, recvOf: map[string]string{}, stateFields: map[string]bool{},
		coordFields: map[string]bool{}, stateMeths: map[string]bool{}, coordMeths: map[string]bool{}}
	for _, d := range f.Decls {
		switch x := d.(type) {
		case *ast.GenDecl:
			for _, sp := range x.Specs {
				ts, ok := sp.(*ast.TypeSpec)
				if !ok {
					continue
				}
				st, ok := ts.Type.(*ast.StructType)
				if !ok {
					continue
				}
				for _, fl := range st.Fields.List {
					for _, n := range fl.Names {
						switch ts.Name.Name {
						case groupType, memberType:
							fi.stateFields[n.Name] = true
						case coordType:
							fi.coordFields[n.Name] = true
						}
					}
				}
			}
		case *ast.FuncDecl:
			if x.Body == nil {
				continue
			}
			typ, _ := recvInfo(x)
			if typ != "" && typ != coordType && typ != groupType && typ != memberType {
				continue
			}
			if _, dup := fi.funcs[x.Name.Name]; dup {
				fail("two functions named %s: the tables are keyed by bare name", x.Name.Name)
			}
			fi.funcs[x.Name.Name] = x
			fi.recvOf[x.Name.Name] = typ
			switch typ {
			case coordType:
				fi.coordMeths[x.Name.Name] = true
			case groupType, memberType:
				fi.stateMeths[x.Name.Name] = true
			}
		}
	}
	if len(fi.stateFields) == 0 || !fi.coordFields["mu"] || !fi.coordFields["store"] {
		fail("groupState / GroupCoordinator{mu, store} not found in %s", path)
	}
	return fi
}

// ---------------------------------------------------------------------------------- summaries

type summary struct {
	effect   bool // has any row-worthy effect (directly or through a callee)
	dirties  bool // writes group state of a not-fresh object (directly or through a callee)
	persists bool // every return hands back the result of a store Put/Delete call
	lockOps  bool // touches c.mu itself
	endLk    string
}

// ---------------------------------------------------------------------------------- walker

type absState struct {
	lk       string
	region   int
	dirty    bool
	deferred bool
}

func join(a, b absState) absState {
	out := a
	if a.lk != b.lk {
		out.lk = "free"
		if a.lk == "inherit" || b.lk == "inherit" {
			// a helper that changes the lock on one branch only
			out.lk = "free"
		}
	}
	if b.region > out.region {
		out.region = b.region
	}
	out.dirty = a.dirty || b.dirty
	out.deferred = a.deferred || b.deferred
	return out
}

type walker struct {
	fi      *fileInfo
	sum     map[string]*summary
	fn      string
	entry   bool
	self    string          // receiver name
	selfTyp string          // receiver type
	params  map[string]bool // parameters (state-ish when their type is *groupState / *memberState)
	tainted map[string]bool // locals computed from group state / helper results
	fresh   map[string]bool // locals declared with a composite literal
	stores  map[string]bool // locals defined from c.store
	replies map[string]bool // locals that a return statement hands back
	rows    []Row
	st      absState
	inLit   int
	loops   []*[]absState
	calls   []string
	direct  bool
	dirtyFn bool
	lockOps bool
	retAll  bool // all returns so far are store Put/Delete results
	retSeen bool
}

func (w *walker) emit(r Row, pos token.Pos) {
	r.Fn, r.Entry, r.Line = w.fn, w.entry, fset.Position(pos).Line
	r.Lk, r.Region = w.st.lk, w.st.region
	w.rows = append(w.rows, r)
}

// rootIdent: x in x.f, x.f[k], x[k].f, (*x).f ...
func rootIdent(e ast.Expr) string {
	for {
		switch x := e.(type) {
		case *ast.Ident:
			return x.Name
		case *ast.SelectorExpr:
			e = x.X
		case *ast.IndexExpr:
			e = x.X
		case *ast.StarExpr:
			e = x.X
		case *ast.ParenExpr:
			e = x.X
		case *ast.SliceExpr:
			e = x.X
		default:
			return ""
		}
	}
}

// stateTarget: is e (the left side of a store) a field of group / member / coordinator state?  Returns the field selector.
func (w *walker) stateTarget(e ast.Expr) (*ast.SelectorExpr, bool) {
	for {
		switch x := e.(type) {
		case *ast.IndexExpr:
			e = x.X
			continue
		case *ast.ParenExpr:
			e = x.X
			continue
		case *ast.StarExpr:
			e = x.X
			continue
		case *ast.SelectorExpr:
			if w.fi.stateFields[x.Sel.Name] {
				return x, true
			}
			if w.fi.coordFields[x.Sel.Name] && rootIdent(x.X) == w.self && w.selfTyp == coordType {
				return x, true
			}
			return nil, false
		default:
			return nil, false
		}
	}
}

func (w *walker) isMu(e ast.Expr) bool {
	s, ok := e.(*ast.SelectorExpr)
	return ok && s.Sel.Name == "mu" && rootIdent(s.X) == w.self && w.selfTyp == coordType
}

func (w *walker) isStore(e ast.Expr) bool {
	switch x := e.(type) {
	case *ast.SelectorExpr:
		return x.Sel.Name == "store" && rootIdent(x.X) == w.self && w.selfTyp == coordType
	case *ast.Ident:
		return w.stores[x.Name]
	case *ast.ParenExpr:
		return w.isStore(x.X)
	case *ast.TypeAssertExpr:
		return w.isStore(x.X)
	}
	return false
}

// stateish: does the expression read group state (a state field, a tainted local, a helper / store result)?
func (w *walker) stateish(e ast.Node) bool {
	if e == nil {
		return false
	}
	found := false
	ast.Inspect(e, func(n ast.Node) bool {
		if found {
			return false
		}
		switch x := n.(type) {
		case *ast.FuncLit:
			return false
		case *ast.SelectorExpr:
			if w.fi.stateFields[x.Sel.Name] {
				found = true
			}
			if x.Sel.Name == "groups" && rootIdent(x.X) == w.self {
				found = true
			}
		case *ast.Ident:
			if w.tainted[x.Name] {
				found = true
			}
		case *ast.CallExpr:
			if w.calleeName(x) != "" {
				found = true
			}
			if s, ok := x.Fun.(*ast.SelectorExpr); ok && w.isStore(s.X) {
				found = true
			}
		}
		return true
	})
	return found
}

// calleeName: the helper (function of this file with a summary) a call goes to, "" otherwise
func (w *walker) calleeName(c *ast.CallExpr) string {
	switch f := c.Fun.(type) {
	case *ast.Ident:
		if _, ok := w.fi.funcs[f.Name]; ok && w.fi.recvOf[f.Name] == "" {
			return f.Name
		}
	case *ast.SelectorExpr:
		name := f.Sel.Name
		if _, ok := w.fi.funcs[name]; !ok {
			return ""
		}
		if w.fi.coordMeths[name] && rootIdent(f.X) == w.self && w.selfTyp == coordType {
			if _, direct := f.X.(*ast.Ident); direct {
				return name
			}
		}
		if w.fi.stateMeths[name] {
			return name
		}
	}
	return ""
}

func valueKind(e ast.Expr) string {
	switch x := e.(type) {
	case *ast.CallExpr:
		return "call"
	case *ast.UnaryExpr:
		if x.Op == token.AND {
			return "addr"
		}
		return "other"
	case *ast.Ident, *ast.SelectorExpr, *ast.IndexExpr, *ast.SliceExpr, *ast.StarExpr:
		return "field"
	case *ast.ParenExpr:
		return valueKind(x.X)
	}
	return "other"
}

func isConstLike(e ast.Expr) bool {
	switch x := e.(type) {
	case *ast.BasicLit:
		return true
	case *ast.CompositeLit:
		return true
	case *ast.Ident:
		return x.Name == "nil" || x.Name == "true" || x.Name == "false"
	case *ast.SelectorExpr:
		if id, ok := x.X.(*ast.Ident); ok && id.Name == "protocol" {
			return true
		}
	case *ast.UnaryExpr:
		return isConstLike(x.X)
	case *ast.ParenExpr:
		return isConstLike(x.X)
	}
	return false
}

// expr emits the rows of the calls inside e, in evaluation order (receiver and arguments before the call).
func (w *walker) expr(e ast.Node, async bool) {
	if e == nil {
		return
	}
	switch x := e.(type) {
	case *ast.FuncLit:
		w.inLit++
		saved := w.st
		w.block(x.Body.List)
		w.st = saved
		w.inLit--
		return
	case *ast.CallExpr:
		if s, ok := x.Fun.(*ast.SelectorExpr); ok {
			w.expr(s.X, false)
		} else if _, ok := x.Fun.(*ast.Ident); !ok {
			w.expr(x.Fun, false)
		}
		for _, a := range x.Args {
			w.expr(a, false)
		}
		w.call(x, async)
		return
	}
	// generic traversal of the direct children
	var kids []ast.Node
	first := true
	ast.Inspect(e, func(n ast.Node) bool {
		if first {
			first = false
			return true
		}
		if n != nil {
			kids = append(kids, n)
		}
		return false
	})
	for _, k := range kids {
		w.expr(k, false)
	}
}

func (w *walker) call(c *ast.CallExpr, async bool) {
	if s, ok := c.Fun.(*ast.SelectorExpr); ok {
		if w.isMu(s.X) {
			w.direct, w.lockOps = true, true
			switch s.Sel.Name {
			case "Lock":
				w.st.region++
				w.st.lk = "held"
				w.emit(Row{Kind: "lock"}, c.Pos())
			case "Unlock":
				w.emit(Row{Kind: "unlock"}, c.Pos())
				w.st.lk = "free"
			default:
				w.emit(Row{Kind: "store", Method: "mu." + s.Sel.Name}, c.Pos())
			}
			return
		}
		if w.isStore(s.X) {
			w.direct = true
			w.emit(Row{Kind: "store", Method: s.Sel.Name}, c.Pos())
			if s.Sel.Name == "PutConsumerGroup" || s.Sel.Name == "DeleteConsumerGroup" {
				w.st.dirty = false
			}
			return
		}
	}
	if id, ok := c.Fun.(*ast.Ident); ok && id.Name == "delete" && len(c.Args) == 2 {
		if sel, ok := w.stateTarget(c.Args[0]); ok {
			w.write("delete "+raw(c.Args[0]), raw(c.Args[1]), sel, c.Pos())
		}
		return
	}
	name := w.calleeName(c)
	if name == "" {
		return
	}
	w.calls = append(w.calls, name)
	sm := w.sum[name]
	if sm == nil || !sm.effect {
		return
	}
	w.emit(Row{Kind: "call", Method: name, Async: async}, c.Pos())
	recvFresh := false
	if s, ok := c.Fun.(*ast.SelectorExpr); ok && w.fresh[rootIdent(s.X)] && w.fi.stateMeths[name] {
		recvFresh = true
	}
	if sm.dirties && !recvFresh {
		w.st.dirty = true
		w.dirtyFn = true
	}
	if sm.persists {
		w.st.dirty = false
	}
	if sm.lockOps && sm.endLk != "" && sm.endLk != "inherit" {
		w.st.lk = sm.endLk
		w.st.region++
	}
}

func (w *walker) write(target, value string, sel *ast.SelectorExpr, pos token.Pos) {
	w.direct = true
	fresh := w.fresh[rootIdent(sel.X)]
	isCoordTable := rootIdent(sel.X) == w.self && w.selfTyp == coordType && w.fi.coordFields[sel.Sel.Name]
	owner := "state"
	if isCoordTable {
		owner = "coord"
	}
	w.emit(Row{Kind: "write", Target: target, Value: value, Fresh: fresh, Owner: owner}, pos)
	if !fresh && (!isCoordTable || strings.HasPrefix(target, "delete ")) {
		w.st.dirty = true
		w.dirtyFn = true
	}
}

func (w *walker) check(cond ast.Node, text string) {
	if cond != nil && w.stateish(cond) {
		w.emit(Row{Kind: "check", Cond: text}, cond.Pos())
	}
}

// readsField: does the expression mention a state field (or the group table) directly?  Loop headers are
// rows only then: loops over locals (sorted ids, partition lists) are not facts about locking.
func (w *walker) readsField(e ast.Node) bool {
	found := false
	ast.Inspect(e, func(n ast.Node) bool {
		if s, ok := n.(*ast.SelectorExpr); ok {
			if w.fi.stateFields[s.Sel.Name] || (s.Sel.Name == "groups" && rootIdent(s.X) == w.self) {
				found = true
			}
		}
		return !found
	})
	return found
}

func (w *walker) mentionsSelf(e ast.Node) bool {
	found := false
	ast.Inspect(e, func(n ast.Node) bool {
		if s, ok := n.(*ast.SelectorExpr); ok && w.selfTyp == coordType {
			if id, ok := s.X.(*ast.Ident); ok && id.Name == w.self && w.fi.coordFields[s.Sel.Name] {
				found = true
			}
		}
		return !found
	})
	return found
}

func (w *walker) define(lhs ast.Expr, rhs ast.Expr, decl bool) {
	id, ok := lhs.(*ast.Ident)
	if !ok || id.Name == "_" {
		return
	}
	if rhs == nil {
		return
	}
	if w.stateish(rhs) {
		w.tainted[id.Name] = true
	}
	if w.isStore(rhs) {
		w.stores[id.Name] = true
	}
	if decl {
		r := rhs
		if u, ok := r.(*ast.UnaryExpr); ok && u.Op == token.AND {
			r = u.X
		}
		if _, ok := r.(*ast.CompositeLit); ok {
			w.fresh[id.Name] = true
		}
	}
}

// block walks a statement list; returns true when control cannot fall off its end.
func (w *walker) block(list []ast.Stmt) bool {
	for _, s := range list {
		if w.stmt(s) {
			return true
		}
	}
	return false
}

func (w *walker) stmt(s ast.Stmt) (terminated bool) {
	switch x := s.(type) {
	case nil:
		return false
	case *ast.ExprStmt:
		w.expr(x.X, false)
	case *ast.GoStmt:
		if lit, ok := x.Call.Fun.(*ast.FuncLit); ok {
			// the body runs on another goroutine: whatever this one holds, that one does not
			for _, a := range x.Call.Args {
				w.expr(a, false)
			}
			w.detached(lit)
			return false
		}
		w.expr(x.Call, true)
	case *ast.DeferStmt:
		if sel, ok := x.Call.Fun.(*ast.SelectorExpr); ok && w.isMu(sel.X) && sel.Sel.Name == "Unlock" {
			w.direct, w.lockOps = true, true
			w.emit(Row{Kind: "deferUnlock"}, x.Pos())
			w.st.deferred = true
			return false
		}
		if lit, ok := x.Call.Fun.(*ast.FuncLit); ok {
			// runs at return time, after any explicit Unlock of the paths in between: not known to be under the lock
			w.detached(lit)
			return false
		}
		w.expr(x.Call, false)
	case *ast.AssignStmt:
		for _, r := range x.Rhs {
			w.expr(r, false)
		}
		for i, l := range x.Lhs {
			var rhs ast.Expr
			if len(x.Rhs) == len(x.Lhs) {
				rhs = x.Rhs[i]
			} else if len(x.Rhs) == 1 {
				rhs = x.Rhs[0]
			}
			if sel, ok := w.stateTarget(l); ok {
				v := ""
				if rhs != nil {
					v = raw(rhs)
				}
				if x.Tok != token.ASSIGN && x.Tok != token.DEFINE {
					v = x.Tok.String() + " " + v
				}
				w.write(raw(l), v, sel, x.Pos())
				continue
			}
			// resp.F = v for a local the function returns
			if ls, ok := l.(*ast.SelectorExpr); ok && w.inLit == 0 {
				if id, ok := ls.X.(*ast.Ident); ok && w.replies[id.Name] && rhs != nil && !isConstLike(rhs) && (w.stateish(rhs) || w.mentionsSelf(rhs)) {
					w.emit(Row{Kind: "reply", Target: raw(l), Value: raw(rhs), VKind: valueKind(rhs)}, x.Pos())
				}
			}
			w.define(l, rhs, x.Tok == token.DEFINE)
		}
	case *ast.IncDecStmt:
		if sel, ok := w.stateTarget(x.X); ok {
			w.write(raw(x.X), x.Tok.String(), sel, x.Pos())
		}
	case *ast.DeclStmt:
		if gd, ok := x.Decl.(*ast.GenDecl); ok {
			for _, sp := range gd.Specs {
				if vs, ok := sp.(*ast.ValueSpec); ok {
					for _, v := range vs.Values {
						w.expr(v, false)
					}
					for i, n := range vs.Names {
						if i < len(vs.Values) {
							w.define(n, vs.Values[i], true)
						}
					}
				}
			}
		}
	case *ast.ReturnStmt:
		for _, r := range x.Results {
			w.expr(r, false)
		}
		if w.inLit > 0 {
			return true
		}
		vals := []string{}
		for _, r := range x.Results {
			vals = append(vals, raw(r))
		}
		w.emit(Row{Kind: "ret", Vals: vals, Dirty: w.st.dirty, Unlocks: w.st.deferred}, x.Pos())
		isPersist := false
		if len(x.Results) == 1 {
			if c, ok := x.Results[0].(*ast.CallExpr); ok {
				if sel, ok := c.Fun.(*ast.SelectorExpr); ok && w.isStore(sel.X) &&
					(sel.Sel.Name == "PutConsumerGroup" || sel.Sel.Name == "DeleteConsumerGroup") {
					isPersist = true
				}
			}
		}
		if !w.retSeen {
			w.retSeen, w.retAll = true, isPersist
		} else {
			w.retAll = w.retAll && isPersist
		}
		return true
	case *ast.BranchStmt:
		if (x.Tok == token.CONTINUE || x.Tok == token.BREAK) && len(w.loops) > 0 {
			l := w.loops[len(w.loops)-1]
			*l = append(*l, w.st)
			return true
		}
		return x.Tok == token.GOTO
	case *ast.BlockStmt:
		return w.block(x.List)
	case *ast.LabeledStmt:
		return w.stmt(x.Stmt)
	case *ast.IfStmt:
		if x.Init != nil {
			w.stmt(x.Init)
		}
		w.expr(x.Cond, false)
		w.check(x.Cond, raw(x.Cond))
		before := w.st
		t1 := w.block(x.Body.List)
		s1 := w.st
		w.st = before
		t2 := false
		if x.Else != nil {
			t2 = w.stmt(x.Else)
		}
		s2 := w.st
		switch {
		case t1 && t2:
			return true
		case t1:
			w.st = s2
		case t2:
			w.st = s1
		default:
			w.st = join(s1, s2)
		}
	case *ast.ForStmt:
		if x.Init != nil {
			w.stmt(x.Init)
		}
		if x.Cond != nil {
			w.expr(x.Cond, false)
			if w.readsField(x.Cond) {
				w.check(x.Cond, "for "+raw(x.Cond))
			}
		}
		w.loop(x.Body, x.Post)
	case *ast.RangeStmt:
		w.expr(x.X, false)
		if w.readsField(x.X) {
			w.check(x.X, "range "+raw(x.X))
		}
		if w.stateish(x.X) {
			for _, v := range []ast.Expr{x.Key, x.Value} {
				if id, ok := v.(*ast.Ident); ok && id.Name != "_" {
					w.tainted[id.Name] = true
				}
			}
		}
		w.loop(x.Body, nil)
	case *ast.SwitchStmt:
		if x.Init != nil {
			w.stmt(x.Init)
		}
		if x.Tag != nil {
			w.expr(x.Tag, false)
			w.check(x.Tag, "switch "+raw(x.Tag))
		}
		return w.clauses(x.Body, func(cc ast.Stmt) ([]ast.Expr, []ast.Stmt, bool) {
			c := cc.(*ast.CaseClause)
			return c.List, c.Body, c.List == nil
		})
	case *ast.TypeSwitchStmt:
		if x.Init != nil {
			w.stmt(x.Init)
		}
		w.stmt(x.Assign)
		return w.clauses(x.Body, func(cc ast.Stmt) ([]ast.Expr, []ast.Stmt, bool) {
			c := cc.(*ast.CaseClause)
			return nil, c.Body, c.List == nil
		})
	case *ast.SelectStmt:
		return w.clauses(x.Body, func(cc ast.Stmt) ([]ast.Expr, []ast.Stmt, bool) {
			c := cc.(*ast.CommClause)
			if c.Comm != nil {
				w.stmt(c.Comm)
			}
			return nil, c.Body, true
		})
	case *ast.SendStmt:
		w.expr(x.Value, false)
	}
	return false
}

// detached walks a function literal that does not run here and now (go statement, deferred closure): its rows
// carry lk = free.
func (w *walker) detached(lit *ast.FuncLit) {
	saved := w.st
	w.st.lk = "free"
	w.inLit++
	w.block(lit.Body.List)
	w.inLit--
	w.st = saved
}

func (w *walker) loop(body *ast.BlockStmt, post ast.Stmt) {
	before := w.st
	exits := []absState{}
	w.loops = append(w.loops, &exits)
	t := w.block(body.List)
	if !t && post != nil {
		w.stmt(post)
	}
	w.loops = w.loops[:len(w.loops)-1]
	out := before
	if !t {
		out = join(out, w.st)
	}
	for _, e := range exits {
		out = join(out, e)
	}
	w.st = out
}

func (w *walker) clauses(body *ast.BlockStmt, split func(ast.Stmt) ([]ast.Expr, []ast.Stmt, bool)) bool {
	before := w.st
	var outs []absState
	hasDefault := false
	exits := []absState{}
	w.loops = append(w.loops, &exits) // `break` inside a switch leaves the switch
	for _, cc := range body.List {
		w.st = before
		conds, stmts, def := split(cc)
		if def {
			hasDefault = true
		}
		for _, c := range conds {
			w.expr(c, false)
			w.check(c, "case "+raw(c))
		}
		if !w.block(stmts) {
			outs = append(outs, w.st)
		}
	}
	w.loops = w.loops[:len(w.loops)-1]
	outs = append(outs, exits...)
	if !hasDefault {
		outs = append(outs, before)
	}
	if len(outs) == 0 {
		return true
	}
	st := outs[0]
	for _, o := range outs[1:] {
		st = join(st, o)
	}
	w.st = st
	return false
}

func (fi *fileInfo) walk(name string, sum map[string]*summary, entry bool) *walker {
	fd := fi.funcs[name]
	typ, self := recvInfo(fd)
	w := &walker{fi: fi, sum: sum, fn: name, entry: entry, self: self, selfTyp: typ, params: map[string]bool{},
		tainted: map[string]bool{}, fresh: map[string]bool{}, stores: map[string]bool{}, replies: map[string]bool{}}
	w.st = absState{lk: "inherit"}
	if entry {
		w.st.lk = "free"
	}
	if fd.Type.Params != nil {
		for _, p := range fd.Type.Params.List {
			t := raw(p.Type)
			if strings.Contains(t, groupType) || strings.Contains(t, memberType) {
				for _, n := range p.Names {
					w.tainted[n.Name] = true
				}
			}
		}
	}
	if typ == groupType || typ == memberType {
		w.tainted[self] = true
	}
	// locals handed back by a return statement (outside function literals)
	var scan func(n ast.Node) bool
	scan = func(n ast.Node) bool {
		switch x := n.(type) {
		case *ast.FuncLit:
			return false
		case *ast.ReturnStmt:
			for _, r := range x.Results {
				if id, ok := r.(*ast.Ident); ok && id.Name != "nil" && id.Name != "err" {
					w.replies[id.Name] = true
				}
			}
		}
		return true
	}
	ast.Inspect(fd.Body, scan)
	w.block(fd.Body.List)
	return w
}

func main() {
	if len(os.Args) != 2 {
		fail("usage: extract <repo root>")
	}
	fi := load(filepath.Join(os.Args[1], "pkg", "broker", "coordinator.go"))
	for _, e := range entries {
		if _, ok := fi.funcs[e]; !ok {
			fail("entry function %s not found in coordinator.go", e)
		}
	}
	// summaries by fixpoint (call graph is small; 8 rounds are plenty, recursion just stops changing)
	sum := map[string]*summary{}
	names := make([]string, 0, len(fi.funcs))
	for n := range fi.funcs {
		names = append(names, n)
		sum[n] = &summary{}
	}
	sort.Strings(names)
	for round := 0; round < 8; round++ {
		changed := false
		for _, n := range names {
			w := fi.walk(n, sum, false)
			s := summary{effect: w.direct, dirties: w.dirtyFn, persists: w.retSeen && w.retAll, lockOps: w.lockOps, endLk: w.st.lk}
			for _, c := range w.calls {
				if sum[c].effect {
					s.effect = true
				}
				if sum[c].lockOps {
					s.lockOps = true
				}
			}
			if s != *sum[n] {
				*sum[n] = s
				changed = true
			}
		}
		if !changed {
			break
		}
	}
	// reachable helpers, in source order
	reach := map[string]bool{}
	var visit func(n string)
	visit = func(n string) {
		if reach[n] {
			return
		}
		reach[n] = true
		for _, c := range fi.walk(n, sum, false).calls {
			if sum[c].effect {
				visit(c)
			}
		}
	}
	isEntry := map[string]bool{}
	for _, e := range entries {
		isEntry[e] = true
		visit(e)
	}
	var order []string
	for n := range reach {
		order = append(order, n)
	}
	sort.Slice(order, func(i, j int) bool { return fi.funcs[order[i]].Pos() < fi.funcs[order[j]].Pos() })
	enc := json.NewEncoder(os.Stdout)
	enc.SetEscapeHTML(false)
	total := 0
	// function ids: FNV-1a of the bare name, so that adding or removing a helper does not renumber the others
	fid := map[string]int{}
	taken := map[int]string{}
	for _, n := range order {
		h := fnv.New32a()
		h.Write([]byte(n))
		id := int(h.Sum32())
		if o, dup := taken[id]; dup {
			fail("function ids of %s and %s collide", o, n)
		}
		taken[id] = n
		fid[n] = id
	}
	for _, n := range order {
		w := fi.walk(n, sum, isEntry[n])
		for _, r := range w.rows {
			r.Fid = fid[n]
			if r.Kind == "call" {
				r.Callee = fid[r.Method]
			}
			if r.Vals == nil && r.Kind == "ret" {
				r.Vals = []string{}
			}
			if err := enc.Encode(r); err != nil {
				fail("%v", err)
			}
			total++
		}
	}
	if total == 0 {
		fail("no rows")
	}
}
