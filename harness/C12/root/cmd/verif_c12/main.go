//go:build verif

// Correspondence harness of the group coordinator (C12 C13 C14 C15 C43 C16): drives the real
// GroupCoordinator over a real InMemoryStore / EtcdStore (wrapped only to inject store failures and to
// park a request inside a store call for the two-request schedules `race` and `par`) with the op lines
// on stdin and prints one canonical result line per op, in the format of lean/Driver/C12.lean.
// Every byte slice a reply hands out is kept and re-read after every later op (HANDOUT[..] prefix when
// one changed).
package main

import (
	"bufio"
	"context"
	"encoding/hex"
	"errors"
	"fmt"
	"math"
	"net"
	"net/url"
	"os"
	"path/filepath"
	"runtime"
	"sort"
	"strconv"
	"strings"
	"sync"
	"time"

	"github.com/twmb/franz-go/pkg/kmsg"
	clientv3 "go.etcd.io/etcd/client/v3"
	"go.etcd.io/etcd/server/v3/embed"

	"github.com/KafScale/platform/pkg/broker"
	metadatapb "github.com/KafScale/platform/pkg/gen/metadata"
	"github.com/KafScale/platform/pkg/metadata"
	"github.com/KafScale/platform/pkg/protocol"
)

// index -> name tables (shared with checks/C12_common.py by convention: the check only uses indices)
var groupNames = []string{"", "g1", "g2", "a:b", "a", "a/offsets/b", "a:t", "grp é x", "a/b"}
var topicNames = []string{"t0", "t1", "t2", "t3", "b:c", "c", "b/offsets/c", "t:0", "t", "0", "offsets/c"}
var mdNames = []string{"", "m", "x:y", "meta with space", "ü"}

func groupName(i int) string {
	if i >= 0 && i < len(groupNames) {
		return groupNames[i]
	}
	return fmt.Sprintf("group-%d", i)
}
func topicName(i int) string {
	if i >= 0 && i < len(topicNames) {
		return topicNames[i]
	}
	return fmt.Sprintf("topic-%d", i)
}
func topicIndex(s string) string {
	for i, n := range topicNames {
		if n == s {
			return strconv.Itoa(i)
		}
	}
	return "?" + s
}
func groupIndex(s string) string {
	for i, n := range groupNames {
		if n == s && i > 0 {
			return strconv.Itoa(i)
		}
	}
	return "?" + s
}
func mdIndex(s string) string {
	for i, n := range mdNames {
		if n == s {
			return strconv.Itoa(i)
		}
	}
	return "?" + s
}
func numName(prefix, s string) string {
	if s == "" {
		return "0"
	}
	return strings.TrimPrefix(s, prefix)
}

// ---------------------------------------------------------------- fault-injecting store

type faultStore struct {
	metadata.Store
	inner metadata.Store
	mu    sync.Mutex
	fail  [6]bool // 0 put 1 delete 2 fetchGroup 3 commit 4 fetchOffset 5 metadata
	// gates for two-request schedules (`race`, `par`): when gate k is armed the next store call of kind k
	// (same numbering as fail) parks inside the store until released
	gateArmed   [6]bool
	gateArrived chan struct{}
	gateRelease chan struct{}
}

const (
	kPut = iota
	kDelete
	kFetchGroup
	kCommit
	kFetchOffset
	kMetadata
)

var gateNames = map[string]int{"put": kPut, "del": kDelete, "fetchg": kFetchGroup, "commit": kCommit, "meta": kMetadata}

// gate parks the calling goroutine when gate k is armed (one shot).
func (f *faultStore) gate(k int) {
	f.mu.Lock()
	armed := f.gateArmed[k]
	f.gateArmed[k] = false
	arrived, release := f.gateArrived, f.gateRelease
	f.mu.Unlock()
	if armed {
		close(arrived)
		<-release
	}
}

// arm arms gate k and returns the channels of this arming.
func (f *faultStore) arm(k int) (arrived, release chan struct{}) {
	f.mu.Lock()
	defer f.mu.Unlock()
	f.gateArmed[k] = true
	f.gateArrived = make(chan struct{})
	f.gateRelease = make(chan struct{})
	return f.gateArrived, f.gateRelease
}

func (f *faultStore) disarm(k int) {
	f.mu.Lock()
	f.gateArmed[k] = false
	f.mu.Unlock()
}

var errInjected = errors.New("verif: injected store failure")

func (f *faultStore) take(k int) bool {
	f.mu.Lock()
	defer f.mu.Unlock()
	if f.fail[k] {
		f.fail[k] = false
		return true
	}
	return false
}

func (f *faultStore) PutConsumerGroup(ctx context.Context, g *metadatapb.ConsumerGroup) error {
	f.gate(kPut)
	if f.take(0) {
		return errInjected
	}
	return f.inner.PutConsumerGroup(ctx, g)
}
func (f *faultStore) DeleteConsumerGroup(ctx context.Context, id string) error {
	f.gate(kDelete)
	if f.take(1) {
		return errInjected
	}
	return f.inner.DeleteConsumerGroup(ctx, id)
}
func (f *faultStore) FetchConsumerGroup(ctx context.Context, id string) (*metadatapb.ConsumerGroup, error) {
	f.gate(kFetchGroup)
	if f.take(2) {
		return nil, errInjected
	}
	return f.inner.FetchConsumerGroup(ctx, id)
}
func (f *faultStore) CommitConsumerOffset(ctx context.Context, group, topic string, partition int32, offset int64, md string) error {
	f.gate(kCommit)
	if f.take(3) {
		return errInjected
	}
	return f.inner.CommitConsumerOffset(ctx, group, topic, partition, offset, md)
}
func (f *faultStore) FetchConsumerOffset(ctx context.Context, group, topic string, partition int32) (int64, string, error) {
	if f.take(4) {
		return 0, "", errInjected
	}
	return f.inner.FetchConsumerOffset(ctx, group, topic, partition)
}

type offsetLookup interface {
	LookupConsumerOffset(ctx context.Context, group, topic string, partition int32) (int64, string, bool, error)
}

// LookupConsumerOffset forwards the optional found-flag lookup when the wrapped store has it.
func (f *faultStore) LookupConsumerOffset(ctx context.Context, group, topic string, partition int32) (int64, string, bool, error) {
	if f.take(4) {
		return 0, "", false, errInjected
	}
	if l, ok := f.inner.(offsetLookup); ok {
		return l.LookupConsumerOffset(ctx, group, topic, partition)
	}
	o, m, err := f.inner.FetchConsumerOffset(ctx, group, topic, partition)
	return o, m, true, err
}
func (f *faultStore) Metadata(ctx context.Context, topics []string) (*metadata.ClusterMetadata, error) {
	f.gate(kMetadata)
	if f.take(5) {
		return nil, errInjected
	}
	return f.inner.Metadata(ctx, topics)
}

// ---------------------------------------------------------------- harness state

type harness struct {
	ctx     context.Context
	inner   metadata.Store          // the store under test (in-memory or etcd), unwrapped
	mem     *metadata.InMemoryStore // == inner in memory mode
	etcd    *metadata.EtcdStore     // == inner in etcd mode
	store   *faultStore
	coord   *broker.GroupCoordinator
	names   map[string]int // real member id -> k
	byK     map[int]string
	created int
	lastGen map[int]int32
	clients map[string]string // client token c<i> -> member id of its last join reply
	keys    [][3]int64 // group idx, topic idx, partition
	keySet  map[[3]int64]bool
	groups  map[int]bool // group indices named by an op of this history (the dump looks these up in the store)
	mark    time.Time    // real time up to which the drift below is accounted
	skew    time.Duration
	// every byte slice a reply handed out in this history (SyncGroup assignment, JoinGroup member metadata): the
	// slice itself and a private copy taken when the call returned.  The broker serialises a reply after the
	// coordinator call has returned (and released its lock), so the bytes must stay what they were.
	handouts []handout
}

type handout struct {
	what string // "sync m1" / "join m2 member m1"
	live []byte
	copy []byte
}

func (h *harness) keep(what string, b []byte) {
	if len(b) == 0 {
		return
	}
	h.handouts = append(h.handouts, handout{what: what, live: b, copy: append([]byte(nil), b...)})
}

// checkHandouts re-reads every slice handed out so far; a changed one is reported once (decoded before / now).
func (h *harness) checkHandouts() string {
	var bad []string
	for i := range h.handouts {
		ho := &h.handouts[i]
		if ho.copy == nil || string(ho.live) == string(ho.copy) {
			continue
		}
		was, now := "", ""
		if strings.HasPrefix(ho.what, "sync") {
			was, now = decodeAssignment(ho.copy), decodeAssignment(ho.live)
		} else {
			was, now = decodeSubscription(ho.copy), decodeSubscription(ho.live)
		}
		bad = append(bad, fmt.Sprintf("%s:was=%s:now=%s", strings.ReplaceAll(ho.what, " ", "_"), was, now))
		ho.copy = nil
	}
	return strings.Join(bad, ",")
}

func decodeSubscription(b []byte) string {
	var md kmsg.ConsumerMemberMetadata
	if err := md.ReadFrom(b); err != nil {
		return "undecodable"
	}
	return showTopics(md.Topics)
}

// prepared is one coordinator request split into the part that resolves names (done up front, on the main
// goroutine), the call itself (may run on its own goroutine for `par`) and the formatting / bookkeeping of its
// reply (main goroutine again).
type prepared struct {
	run func() interface{}
	fin func(interface{}) string
}

type panicked struct{}

func runSafe(p *prepared) (res interface{}) {
	defer func() {
		if r := recover(); r != nil {
			res = panicked{}
		}
	}()
	return p.run()
}

func (p *prepared) finish(r interface{}) string {
	if _, ok := r.(panicked); ok {
		return "panic"
	}
	return p.fin(r)
}

// freeze keeps virtual time independent of how long the harness itself runs (etcd round trips, a
// loaded machine): real time that has passed since the last op is accumulated and, beyond 50 ms,
// taken back out of every stored timestamp.  Virtual time only advances through `tick`.
func (h *harness) freeze() {
	// The shift itself takes real time (etcd round trips; hundreds of ms on a starved machine): that time stays
	// accounted in skew — dropping it made virtual time creep forward by one shift duration per op.
	for i := 0; i < 3; i++ {
		now := time.Now()
		if !h.mark.IsZero() {
			h.skew += now.Sub(h.mark)
		}
		h.mark = now
		if h.skew <= 50*time.Millisecond {
			return
		}
		h.shift(-h.skew)
		h.skew = 0
	}
}

func (h *harness) shift(d time.Duration) {
	h.coord.VerifShift(d)
	if h.mem != nil {
		h.mem.VerifShiftHeartbeats(d)
	} else {
		h.etcd.VerifShiftHeartbeats(d)
	}
}

func newHarness() *harness {
	h := &harness{ctx: context.Background()}
	h.reset()
	return h
}

func (h *harness) newCoordinator() {
	if h.coord != nil {
		h.coord.Stop()
	}
	h.coord = broker.NewGroupCoordinator(h.store, protocol.MetadataBroker{NodeID: 1, Host: "127.0.0.1", Port: 9092},
		&broker.CoordinatorConfig{CleanupInterval: 24 * time.Hour})
}

var (
	etcdServer    *embed.Etcd
	etcdEndpoints []string
	etcdDir       string
)

// startEtcd starts one embedded etcd per harness process (offline, no fsync, temp dir).
func startEtcd() error {
	if etcdServer != nil {
		return nil
	}
	dir, err := os.MkdirTemp("", "verif-c12-etcd-")
	if err != nil {
		return err
	}
	etcdDir = dir
	cfg := embed.NewConfig()
	cfg.Dir = dir
	cfg.Logger = "zap"
	cfg.LogLevel = "error"
	cfg.LogOutputs = []string{filepath.Join(dir, "etcd.log")}
	cfg.UnsafeNoFsync = true
	mk := func() url.URL {
		ln, err := net.Listen("tcp", "127.0.0.1:0")
		if err != nil {
			panic(err)
		}
		defer ln.Close()
		u, _ := url.Parse("http://" + ln.Addr().String())
		return *u
	}
	cfg.ListenClientUrls = []url.URL{mk()}
	cfg.AdvertiseClientUrls = cfg.ListenClientUrls
	cfg.ListenPeerUrls = []url.URL{mk()}
	cfg.AdvertisePeerUrls = cfg.ListenPeerUrls
	cfg.InitialCluster = cfg.InitialClusterFromName(cfg.Name)
	e, err := embed.StartEtcd(cfg)
	if err != nil {
		return err
	}
	select {
	case <-e.Server.ReadyNotify():
	case <-time.After(20 * time.Second):
		e.Server.Stop()
		return errors.New("embedded etcd did not become ready")
	}
	etcdServer = e
	etcdEndpoints = []string{"http://" + e.Clients[0].Addr().String()}
	return nil
}

func stopEtcd() {
	if etcdServer != nil {
		etcdServer.Close()
		os.RemoveAll(etcdDir)
	}
}

func (h *harness) reset() { h.resetMode(false) }

func (h *harness) resetMode(useEtcd bool) {
	brokers := metadata.ClusterMetadata{Brokers: []protocol.MetadataBroker{{NodeID: 1, Host: "127.0.0.1", Port: 9092}}}
	if h.etcd != nil {
		_ = h.etcd.Close()
		h.etcd = nil
	}
	h.mem = nil
	if useEtcd {
		if err := startEtcd(); err != nil {
			fmt.Fprintln(os.Stderr, "etcd:", err)
			os.Exit(3)
		}
		cli, err := clientv3.New(clientv3.Config{Endpoints: etcdEndpoints, DialTimeout: 5 * time.Second})
		if err == nil {
			_, _ = cli.Delete(h.ctx, "/kafscale/", clientv3.WithPrefix())
			cli.Close()
		}
		es, err := metadata.NewEtcdStore(h.ctx, brokers, metadata.EtcdStoreConfig{Endpoints: etcdEndpoints})
		if err != nil {
			fmt.Fprintln(os.Stderr, "etcd store:", err)
			os.Exit(3)
		}
		h.etcd = es
		h.inner = es
	} else {
		h.mem = metadata.NewInMemoryStore(brokers)
		h.inner = h.mem
	}
	h.store = &faultStore{Store: h.inner, inner: h.inner}
	h.newCoordinator()
	h.names = map[string]int{}
	h.byK = map[int]string{}
	h.created = 0
	h.lastGen = map[int]int32{}
	h.clients = map[string]string{}
	h.keys = nil
	h.keySet = map[[3]int64]bool{}
	h.groups = map[int]bool{}
	h.mark = time.Time{}
	h.skew = 0
	h.handouts = nil
}

func (h *harness) mName(id string) string {
	if id == "" {
		return "-"
	}
	if k, ok := h.names[id]; ok {
		return fmt.Sprintf("m%d", k)
	}
	return "?" + id
}

// member token -> (k, real id)
func (h *harness) mID(tok string) (int, string) {
	if tok == "-" {
		return 0, ""
	}
	if strings.HasPrefix(tok, "c") {
		id := h.clients[tok]
		return h.names[id], id
	}
	if strings.HasPrefix(tok, "x") {
		return 0, "nosuch-" + tok[1:]
	}
	k, err := strconv.Atoi(strings.TrimPrefix(tok, "m"))
	if err != nil {
		return 0, ""
	}
	if id, ok := h.byK[k]; ok {
		return k, id
	}
	return 0, fmt.Sprintf("nosuch-m%d", k)
}

func (h *harness) genOf(k int, tok string) int32 {
	base := h.lastGen[k]
	switch tok {
	case "@":
		return base
	case "@+1":
		return base + 1
	case "@-1":
		if base == 0 {
			return 0
		}
		return base - 1
	}
	n, _ := strconv.Atoi(tok)
	return int32(n)
}

func showInts(xs []int32) string {
	if len(xs) == 0 {
		return "-"
	}
	s := make([]string, len(xs))
	for i, x := range xs {
		s[i] = strconv.Itoa(int(x))
	}
	return strings.Join(s, ",")
}

func showTopics(ts []string) string {
	if len(ts) == 0 {
		return "-"
	}
	s := make([]string, len(ts))
	for i, t := range ts {
		s[i] = topicIndex(t)
	}
	return strings.Join(s, ",")
}

func secs(d time.Duration) string {
	return strconv.FormatInt(int64(math.Round(d.Seconds())), 10)
}

var phaseNames = []string{"empty", "preparing", "completing", "stable", "dead"}

func phaseStr(p int) string {
	if p >= 0 && p < len(phaseNames) {
		return phaseNames[p]
	}
	return fmt.Sprintf("phase%d", p)
}

func persistedPhase(s string) string {
	switch s {
	case "empty":
		return "empty"
	case "preparing_rebalance":
		return "preparing"
	case "completing_rebalance":
		return "completing"
	case "stable":
		return "stable"
	case "dead":
		return "dead"
	}
	return "?" + s
}

func (h *harness) dump() string {
	now := time.Now()
	var parts []string
	groups := h.coord.VerifDump()
	sort.SliceStable(groups, func(i, j int) bool {
		a, _ := strconv.Atoi(groupIndex(groups[i].ID))
		b, _ := strconv.Atoi(groupIndex(groups[j].ID))
		return a < b
	})
	for _, g := range groups {
		var mem, asg []string
		for _, m := range g.Members {
			age := "zero"
			if !m.LastHeartbeat.IsZero() {
				age = secs(now.Sub(m.LastHeartbeat))
			}
			mem = append(mem, fmt.Sprintf("%s(t=%s s=%d age=%s jg=%d)", h.mName(m.ID), showTopics(m.Topics),
				m.SessionTimeout/time.Millisecond, age, m.JoinGeneration))
		}
		for _, a := range g.Assignments {
			asg = append(asg, h.mName(a.Member)+":"+showAsgV(a))
		}
		dl := "-"
		if !g.RebalanceDeadline.IsZero() {
			dl = secs(g.RebalanceDeadline.Sub(now))
		}
		parts = append(parts, fmt.Sprintf("G%s{ph=%s gen=%d ld=%s pn=%s pt=%s rt=%d dl=%s mem=[%s] asg=[%s]}",
			groupIndex(g.ID), phaseStr(g.Phase), g.Generation, h.mName(g.Leader), numName("proto", g.ProtocolName),
			numName("ptype", g.ProtocolType), g.RebalanceTimeout/time.Millisecond, dl, strings.Join(mem, ";"), strings.Join(asg, ";")))
	}
	for gi := 1; gi < len(groupNames); gi++ {
		if !h.groups[gi] {
			continue
		}
		pg, err := h.inner.FetchConsumerGroup(h.ctx, groupNames[gi])
		if err != nil || pg == nil {
			continue
		}
		ids := make([]string, 0, len(pg.Members))
		for id := range pg.Members {
			ids = append(ids, id)
		}
		sort.Strings(ids)
		var mem []string
		for _, id := range ids {
			m := pg.Members[id]
			age := "zero"
			if m.HeartbeatAt != "" {
				if t, err := time.Parse(time.RFC3339Nano, m.HeartbeatAt); err == nil {
					age = secs(now.Sub(t))
				} else {
					age = "bad"
				}
			}
			var as []string
			for _, a := range m.Assignments {
				as = append(as, topicIndex(a.Topic)+"="+showInts(a.Partitions))
			}
			asg := "nil"
			if len(as) > 0 {
				asg = strings.Join(as, "/")
			}
			mem = append(mem, fmt.Sprintf("%s(t=%s s=%d age=%s asg=%s)", h.mName(id), showTopics(m.Subscriptions), m.SessionTimeoutMs, age, asg))
		}
		parts = append(parts, fmt.Sprintf("P%d{st=%s gen=%d ld=%s pn=%s pt=%s rt=%d mem=[%s]}", gi, persistedPhase(pg.State),
			pg.GenerationId, h.mName(pg.Leader), numName("proto", pg.Protocol), numName("ptype", pg.ProtocolType),
			pg.RebalanceTimeoutMs, strings.Join(mem, ";")))
	}
	var os_ []string
	for _, k := range h.keys {
		off, md, err := h.inner.FetchConsumerOffset(h.ctx, groupName(int(k[0])), topicName(int(k[1])), int32(k[2]))
		if err != nil {
			os_ = append(os_, fmt.Sprintf("%d:%d:%d=err", k[0], k[1], k[2]))
			continue
		}
		os_ = append(os_, fmt.Sprintf("%d:%d:%d=%d/%s", k[0], k[1], k[2], off, mdIndex(md)))
	}
	parts = append(parts, "O["+strings.Join(os_, ",")+"]")
	return strings.Join(parts, " ")
}

func showAsgV(a broker.VerifAssignment) string {
	if a.Nil || len(a.Topics) == 0 {
		return "nil"
	}
	var s []string
	for _, t := range a.Topics {
		s = append(s, topicIndex(t.Name)+"="+showInts(t.Partitions))
	}
	return strings.Join(s, "/")
}

func (h *harness) addKey(g, t int, p int64) {
	k := [3]int64{int64(g), int64(t), p}
	if !h.keySet[k] {
		h.keySet[k] = true
		h.keys = append(h.keys, k)
	}
}

func parseIntList(s string) []int {
	if s == "-" || s == "" {
		return nil
	}
	var out []int
	for _, x := range strings.Split(s, ",") {
		if n, err := strconv.Atoi(x); err == nil {
			out = append(out, n)
		}
	}
	return out
}

// ---------------------------------------------------------------- ops

type joinOut struct {
	resp *kmsg.JoinGroupResponse
	err  error
}

func (h *harness) opJoin(f []string) string {
	p := h.prepJoin(f)
	return p.finish(runSafe(p))
}

func (h *harness) prepJoin(f []string) *prepared {
	g, _ := strconv.Atoi(f[1])
	_, mid := h.mID(f[2])
	se, _ := strconv.Atoi(f[3])
	rb, _ := strconv.Atoi(f[4])
	pt, _ := strconv.Atoi(f[5])
	req := kmsg.NewPtrJoinGroupRequest()
	req.Group = groupName(g)
	req.MemberID = mid
	req.SessionTimeoutMillis = int32(se)
	req.RebalanceTimeoutMillis = int32(rb)
	if pt != 0 {
		req.ProtocolType = fmt.Sprintf("ptype%d", pt)
	}
	if f[6] != "none" {
		pn, _ := strconv.Atoi(f[6])
		md := kmsg.NewConsumerMemberMetadata()
		md.Version = 0
		for _, t := range parseIntList(f[7]) {
			md.Topics = append(md.Topics, topicName(t))
		}
		p := kmsg.NewJoinGroupRequestProtocol()
		if pn != 0 {
			p.Name = fmt.Sprintf("proto%d", pn)
		}
		p.Metadata = md.AppendTo(nil)
		req.Protocols = append(req.Protocols, p)
	}
	run := func() interface{} {
		resp, err := h.coord.JoinGroup(h.ctx, req)
		return joinOut{resp, err}
	}
	return &prepared{run: run, fin: func(r interface{}) string { return h.finJoin(f, r.(joinOut)) }}
}

func (h *harness) finJoin(f []string, o joinOut) string {
	resp, err := o.resp, o.err
	if err != nil || resp == nil {
		return "goerr"
	}
	newTok := ""
	k, known := h.names[resp.MemberID]
	if !known {
		h.created++
		k = h.created
		h.names[resp.MemberID] = k
		h.byK[k] = resp.MemberID
		newTok = " new=" + hex.EncodeToString([]byte(resp.MemberID))
	}
	h.lastGen[k] = resp.Generation
	if strings.HasPrefix(f[2], "c") {
		h.clients[f[2]] = resp.MemberID
	}
	var mem []string
	for _, m := range resp.Members {
		var md kmsg.ConsumerMemberMetadata
		topics := "?"
		if err := md.ReadFrom(m.ProtocolMetadata); err == nil {
			topics = showTopics(md.Topics)
		}
		mem = append(mem, h.mName(m.MemberID)+":"+topics)
		h.keep("join "+h.mName(resp.MemberID)+" member "+h.mName(m.MemberID), m.ProtocolMetadata)
	}
	pn := ""
	if resp.Protocol != nil {
		pn = *resp.Protocol
	}
	return fmt.Sprintf("join code=%d gen=%d ld=%s me=%s pn=%s mem=[%s]%s", resp.ErrorCode, resp.Generation, h.mName(resp.LeaderID),
		h.mName(resp.MemberID), numName("proto", pn), strings.Join(mem, ";"), newTok)
}

func decodeAssignment(b []byte) string {
	var a kmsg.ConsumerMemberAssignment
	if err := a.ReadFrom(b); err != nil {
		return "undecodable"
	}
	if len(a.Topics) == 0 {
		return "nil"
	}
	var s []string
	for _, t := range a.Topics {
		s = append(s, topicIndex(t.Topic)+"="+showInts(t.Partitions))
	}
	return strings.Join(s, "/")
}

type syncOut struct {
	resp *kmsg.SyncGroupResponse
	err  error
}

func (h *harness) opSync(f []string) string {
	p := h.prepSync(f)
	return p.finish(runSafe(p))
}

func (h *harness) prepSync(f []string) *prepared {
	g, _ := strconv.Atoi(f[1])
	k, mid := h.mID(f[2])
	req := kmsg.NewPtrSyncGroupRequest()
	req.Group = groupName(g)
	req.MemberID = mid
	req.Generation = h.genOf(k, f[3])
	run := func() interface{} {
		resp, err := h.coord.SyncGroup(h.ctx, req)
		return syncOut{resp, err}
	}
	fin := func(r interface{}) string {
		resp, err := r.(syncOut).resp, r.(syncOut).err
		if err != nil || resp == nil {
			return "goerr"
		}
		asg := "nil"
		if len(resp.MemberAssignment) > 0 {
			asg = decodeAssignment(resp.MemberAssignment)
			h.keep("sync "+h.mName(mid), resp.MemberAssignment)
		}
		return fmt.Sprintf("sync code=%d asg=%s", resp.ErrorCode, asg)
	}
	return &prepared{run: run, fin: fin}
}

func (h *harness) opHeartbeat(f []string) string {
	p := h.prepHeartbeat(f)
	return p.finish(runSafe(p))
}

func (h *harness) prepHeartbeat(f []string) *prepared {
	g, _ := strconv.Atoi(f[1])
	k, mid := h.mID(f[2])
	req := kmsg.NewPtrHeartbeatRequest()
	req.Group = groupName(g)
	req.MemberID = mid
	req.Generation = h.genOf(k, f[3])
	return &prepared{
		run: func() interface{} { return h.coord.Heartbeat(h.ctx, req) },
		fin: func(r interface{}) string { return fmt.Sprintf("code=%d", r.(*kmsg.HeartbeatResponse).ErrorCode) },
	}
}

func (h *harness) opLeave(f []string) string {
	p := h.prepLeave(f)
	return p.finish(runSafe(p))
}

func (h *harness) prepLeave(f []string) *prepared {
	g, _ := strconv.Atoi(f[1])
	_, mid := h.mID(f[2])
	req := kmsg.NewPtrLeaveGroupRequest()
	req.Group = groupName(g)
	req.MemberID = mid
	return &prepared{
		run: func() interface{} { return h.coord.LeaveGroup(h.ctx, req) },
		fin: func(r interface{}) string { return fmt.Sprintf("code=%d", r.(*kmsg.LeaveGroupResponse).ErrorCode) },
	}
}

type commitOut struct {
	resp *kmsg.OffsetCommitResponse
	err  error
}

func (h *harness) prepCommit(f []string) *prepared {
	req := h.commitRequest(f)
	return &prepared{
		run: func() interface{} {
			resp, err := h.coord.OffsetCommit(h.ctx, req)
			return commitOut{resp, err}
		},
		fin: func(r interface{}) string { return showCommit(r.(commitOut).resp, r.(commitOut).err) },
	}
}

// prep builds one of the requests that take the coordinator lock (the ones `par` can schedule).
func (h *harness) prep(f []string) *prepared {
	if len(f) > 1 {
		if g, err := strconv.Atoi(f[1]); err == nil {
			h.groups[g] = true
		}
	}
	switch {
	case f[0] == "join" && len(f) >= 8:
		return h.prepJoin(f)
	case f[0] == "sync" && len(f) == 4:
		return h.prepSync(f)
	case f[0] == "hb" && len(f) == 4:
		return h.prepHeartbeat(f)
	case f[0] == "leave" && len(f) == 3:
		return h.prepLeave(f)
	case f[0] == "commit" && len(f) == 5:
		return h.prepCommit(f)
	case f[0] == "cleanup" && len(f) == 1:
		return &prepared{
			run: func() interface{} { h.coord.VerifCleanup(); return nil },
			fin: func(interface{}) string { return "ok" },
		}
	}
	return nil
}

// par GATE A... | B...: request A is started first with store gate GATE armed (put | del | fetchg | commit | meta);
// when A parks inside that store call, request B is issued on another goroutine.  Both requests take the
// coordinator lock, so on a coordinator that keeps its lock across the store call B has to wait: order=seq
// (A, then B — also when A never reaches the gate).  order=split: B ran to completion while A was parked,
// i.e. A had given up the lock in the middle of its work.  Names and `@` generations of both requests are
// resolved before either runs; the replies are formatted (and clients' member ids noted) A first, then B.
func (h *harness) opPar(f []string) string {
	bar := -1
	for i, w := range f {
		if w == "|" {
			bar = i
			break
		}
	}
	if len(f) < 5 || bar < 3 || bar+1 >= len(f) {
		return "bad-op"
	}
	k, ok := gateNames[f[1]]
	if !ok {
		return "bad-op"
	}
	pa, pb := h.prep(f[2:bar]), h.prep(f[bar+1:])
	if pa == nil || pb == nil {
		return "bad-op"
	}
	arrived, release := h.store.arm(k)
	aDone := make(chan interface{}, 1)
	go func() { aDone <- runSafe(pa) }()
	var ra, rb interface{}
	select {
	case <-arrived:
	case ra = <-aDone: // never reached the gate
		h.store.disarm(k)
		rb = runSafe(pb)
		return fmt.Sprintf("par order=seq %s ; %s", pa.finish(ra), pb.finish(rb))
	}
	bDone := make(chan interface{}, 1)
	go func() { bDone <- runSafe(pb) }()
	order := ""
	deadline := time.Now().Add(5 * time.Second)
	for order == "" {
		select {
		case rb = <-bDone:
			order = "split"
		default:
			if blockedOnCoordinatorLock() || time.Now().After(deadline) {
				order = "seq"
			} else {
				time.Sleep(200 * time.Microsecond)
			}
		}
	}
	close(release)
	ra = <-aDone
	if order == "seq" {
		rb = <-bDone
	}
	return fmt.Sprintf("par order=%s %s ; %s", order, pa.finish(ra), pb.finish(rb))
}

func (h *harness) commitRequest(f []string) *kmsg.OffsetCommitRequest {
	g, _ := strconv.Atoi(f[1])
	k, mid := h.mID(f[2])
	req := kmsg.NewPtrOffsetCommitRequest()
	req.Group = groupName(g)
	req.MemberID = mid
	req.Generation = h.genOf(k, f[3])
	for _, e := range strings.Split(f[4], ",") {
		x := strings.Split(e, ":")
		if len(x) != 4 {
			continue
		}
		t, _ := strconv.Atoi(x[0])
		p, _ := strconv.ParseInt(x[1], 10, 64)
		off, _ := strconv.ParseInt(x[2], 10, 64)
		md, _ := strconv.Atoi(x[3])
		h.addKey(g, t, p)
		part := kmsg.NewOffsetCommitRequestTopicPartition()
		part.Partition = int32(p)
		part.Offset = off
		if md != 0 && md < len(mdNames) {
			s := mdNames[md]
			part.Metadata = &s
		}
		// consecutive entries of one topic share a request topic
		if n := len(req.Topics); n > 0 && req.Topics[n-1].Topic == topicName(t) {
			req.Topics[n-1].Partitions = append(req.Topics[n-1].Partitions, part)
		} else {
			rt := kmsg.NewOffsetCommitRequestTopic()
			rt.Topic = topicName(t)
			rt.Partitions = append(rt.Partitions, part)
			req.Topics = append(req.Topics, rt)
		}
	}
	return req
}

func showCommit(resp *kmsg.OffsetCommitResponse, err error) string {
	if err != nil || resp == nil {
		return "goerr"
	}
	var s []string
	for _, t := range resp.Topics {
		for _, p := range t.Partitions {
			s = append(s, fmt.Sprintf("%s:%d=%d", topicIndex(t.Topic), p.Partition, p.ErrorCode))
		}
	}
	return "commit " + strings.Join(s, ",")
}

func (h *harness) opCommit(f []string) string {
	p := h.prepCommit(f)
	return p.finish(runSafe(p))
}

func (h *harness) opFetch(f []string) string {
	g, _ := strconv.Atoi(f[1])
	req := kmsg.NewPtrOffsetFetchRequest()
	req.Group = groupName(g)
	for _, e := range strings.Split(f[2], ",") {
		x := strings.Split(e, ":")
		if len(x) != 2 {
			continue
		}
		t, _ := strconv.Atoi(x[0])
		p, _ := strconv.ParseInt(x[1], 10, 64)
		h.addKey(g, t, p)
		if n := len(req.Topics); n > 0 && req.Topics[n-1].Topic == topicName(t) {
			req.Topics[n-1].Partitions = append(req.Topics[n-1].Partitions, int32(p))
		} else {
			rt := kmsg.NewOffsetFetchRequestTopic()
			rt.Topic = topicName(t)
			rt.Partitions = append(rt.Partitions, int32(p))
			req.Topics = append(req.Topics, rt)
		}
	}
	resp, err := h.coord.OffsetFetch(h.ctx, req)
	if err != nil || resp == nil {
		return "goerr"
	}
	var s []string
	for _, t := range resp.Topics {
		for _, p := range t.Partitions {
			md := ""
			if p.Metadata != nil {
				md = *p.Metadata
			}
			s = append(s, fmt.Sprintf("%s:%d=%d/%s/%d", topicIndex(t.Topic), p.Partition, p.Offset, mdIndex(md), p.ErrorCode))
		}
	}
	return "fetch " + strings.Join(s, ",")
}

func (h *harness) opMeta(f []string) string {
	var topics []protocol.MetadataTopic
	for _, w := range f[1:] {
		x := strings.SplitN(w, "=", 2)
		if len(x) != 2 {
			continue
		}
		t, _ := strconv.Atoi(x[0])
		mt := protocol.MetadataTopic{Topic: kmsg.StringPtr(topicName(t))}
		for _, p := range parseIntList(x[1]) {
			mt.Partitions = append(mt.Partitions, protocol.MetadataPartition{Partition: int32(p), Leader: 1})
		}
		topics = append(topics, mt)
	}
	cm := metadata.ClusterMetadata{
		Brokers: []protocol.MetadataBroker{{NodeID: 1, Host: "127.0.0.1", Port: 9092}},
		Topics:  topics,
	}
	if h.mem != nil {
		h.mem.Update(cm)
	} else {
		h.etcd.VerifSetMetadata(cm)
	}
	return "ok"
}

// blockedOnCoordinatorLock reports whether some goroutine waits for a sync.Mutex inside a
// GroupCoordinator method (used to order the two requests of a `race` op without sleeping).
func blockedOnCoordinatorLock() bool {
	buf := make([]byte, 1<<20)
	n := runtime.Stack(buf, true)
	for _, g := range strings.Split(string(buf[:n]), "\n\n") {
		if strings.Contains(g, "sync.(*Mutex).Lock") && strings.Contains(g, "broker.(*GroupCoordinator)") &&
			(strings.Contains(g, "[sync.Mutex.Lock") || strings.Contains(g, "[semacquire")) {
			return true
		}
	}
	return false
}

// race G M GEN parts | <other op>: OffsetCommit is started first and held inside the store's
// CommitConsumerOffset; the other request is issued while it is held.  The line reports in which
// order the two took effect: "commit,other" (the other request had to wait for the commit) or
// "check,other,write" (the other request ran between the commit's check and its write).
func (h *harness) opRace(f []string) string {
	bar := -1
	for i, w := range f {
		if w == "|" {
			bar = i
		}
	}
	if bar < 5 || bar+1 >= len(f) {
		return "bad-op"
	}
	if g, err := strconv.Atoi(f[1]); err == nil {
		h.groups[g] = true
	}
	req := h.commitRequest(f[:bar])
	arrived, release := h.store.arm(kCommit)
	commitDone := make(chan string, 1)
	go func() {
		defer func() {
			if r := recover(); r != nil {
				commitDone <- "panic"
			}
		}()
		resp, err := h.coord.OffsetCommit(h.ctx, req)
		commitDone <- showCommit(resp, err)
	}()
	var commitRes string
	gated := false
	select {
	case <-arrived:
		gated = true
	case commitRes = <-commitDone: // rejected (or nothing to write): never reached the store
	}
	if !gated {
		h.store.disarm(kCommit)
		other := h.exec(f[bar+1:])
		return fmt.Sprintf("race order=commit,other %s ; %s", commitRes, other)
	}
	otherDone := make(chan string, 1)
	go func() { otherDone <- h.exec(f[bar+1:]) }()
	order := ""
	var other string
	deadline := time.Now().Add(5 * time.Second)
	for order == "" {
		select {
		case other = <-otherDone:
			order = "check,other,write"
		default:
			if blockedOnCoordinatorLock() || time.Now().After(deadline) {
				order = "commit,other"
			} else {
				time.Sleep(200 * time.Microsecond)
			}
		}
	}
	close(release)
	commitRes = <-commitDone
	if order == "commit,other" {
		other = <-otherDone
	}
	return fmt.Sprintf("race order=%s %s ; %s", order, commitRes, other)
}

func (h *harness) exec(f []string) (res string) {
	defer func() {
		if r := recover(); r != nil {
			res = "panic"
		}
	}()
	switch f[0] {
	case "join", "sync", "hb", "leave", "commit", "fetch", "load":
		if len(f) > 1 {
			if g, err := strconv.Atoi(f[1]); err == nil {
				h.groups[g] = true
			}
		}
	}
	switch {
	case f[0] == "join" && len(f) >= 8:
		return h.opJoin(f)
	case f[0] == "sync" && len(f) == 4:
		return h.opSync(f)
	case f[0] == "hb" && len(f) == 4:
		return h.opHeartbeat(f)
	case f[0] == "leave" && len(f) == 3:
		return h.opLeave(f)
	case f[0] == "commit" && len(f) == 5:
		return h.opCommit(f)
	case f[0] == "fetch" && len(f) == 3:
		return h.opFetch(f)
	case f[0] == "meta":
		return h.opMeta(f)
	case f[0] == "tick" && len(f) == 2:
		ms, err := strconv.Atoi(f[1])
		if err != nil || ms < 0 {
			return "bad-op"
		}
		d := time.Duration(ms) * time.Millisecond
		h.shift(d)
		return "ok"
	case f[0] == "cleanup" && len(f) == 1:
		h.coord.VerifCleanup()
		return "ok"
	case f[0] == "failover" && len(f) == 1:
		h.newCoordinator()
		return "ok"
	case f[0] == "load" && len(f) == 2:
		g, _ := strconv.Atoi(f[1])
		_ = h.coord.VerifLoad(h.ctx, groupName(g))
		return "ok"
	case f[0] == "fail" && len(f) == 2:
		k, err := strconv.Atoi(f[1])
		if err == nil && k >= 0 && k < 6 {
			h.store.mu.Lock()
			h.store.fail[k] = true
			h.store.mu.Unlock()
		}
		return "ok"
	}
	return "bad-op"
}

func main() {
	h := newHarness()
	w := bufio.NewWriter(os.Stdout)
	defer w.Flush()
	defer stopEtcd()
	sc := bufio.NewScanner(os.Stdin)
	sc.Buffer(make([]byte, 1<<20), 1<<26)
	for sc.Scan() {
		f := strings.Fields(sc.Text())
		if len(f) == 0 || strings.HasPrefix(f[0], "#") {
			continue
		}
		if f[0] == "reset" {
			h.resetMode(len(f) > 1 && f[1] == "etcd")
			fmt.Fprintln(w, "reset")
			w.Flush()
			continue
		}
		h.freeze()
		t0 := time.Now()
		var res string
		if f[0] == "race" {
			res = h.opRace(f)
		} else if f[0] == "par" {
			res = h.opPar(f)
		} else {
			res = h.exec(f)
		}
		dur := time.Since(t0)
		if res != "bad-op" {
			if bad := h.checkHandouts(); bad != "" {
				res = "HANDOUT[" + bad + "] " + res
			}
		}
		if res == "bad-op" {
			fmt.Fprintln(w, res)
		} else {
			h.freeze()
			line := res + " || " + h.dump()
			if dur > 250*time.Millisecond || time.Since(t0) > 400*time.Millisecond {
				// virtual time cannot be kept exact across an op that itself took this long (starved machine):
				// the check discards the history instead of comparing timestamps it cannot trust
				line = "SLOW " + line
			}
			fmt.Fprintln(w, line)
		}
		w.Flush()
	}
}
