//go:build verif

package metadata

import "time"

// VerifShiftHeartbeats advances virtual time by d for the persisted consumer groups: every
// stored HeartbeatAt moves d into the past (same format the coordinator writes).
func (s *InMemoryStore) VerifShiftHeartbeats(d time.Duration) {
	s.mu.Lock()
	defer s.mu.Unlock()
	for _, g := range s.consumerGroups {
		for _, m := range g.Members {
			if m == nil || m.HeartbeatAt == "" {
				continue
			}
			if t, err := time.Parse(time.RFC3339Nano, m.HeartbeatAt); err == nil {
				m.HeartbeatAt = t.Add(-d).UTC().Format(time.RFC3339Nano)
			}
		}
	}
}
