//go:build verif

package metadata

import (
	"context"
	"time"
)

// VerifShiftHeartbeats advances virtual time by d for the persisted consumer groups: every
// stored HeartbeatAt moves d into the past (same format the coordinator writes).
func (s *InMemoryStore) VerifShiftHeartbeats(d time.Duration) {
	s.mu.Lock()
	defer s.mu.Unlock()
	for _, g := range s.consumerGroups {
		for _, m := range g.Members {
			if m == nil || m.HeartbeatAt == "" {
				continue
			}
			if t, err := time.Parse(time.RFC3339Nano, m.HeartbeatAt); err == nil {
				m.HeartbeatAt = t.Add(-d).UTC().Format(time.RFC3339Nano)
			}
		}
	}
}

// VerifShiftHeartbeats is the same for the etcd store: every stored group is read, shifted and written back.
func (s *EtcdStore) VerifShiftHeartbeats(d time.Duration) {
	ctx := context.Background()
	groups, err := s.ListConsumerGroups(ctx)
	if err != nil {
		return
	}
	for _, g := range groups {
		changed := false
		for _, m := range g.Members {
			if m == nil || m.HeartbeatAt == "" {
				continue
			}
			if t, err := time.Parse(time.RFC3339Nano, m.HeartbeatAt); err == nil {
				m.HeartbeatAt = t.Add(-d).UTC().Format(time.RFC3339Nano)
				changed = true
			}
		}
		if changed {
			_ = s.PutConsumerGroup(ctx, g)
		}
	}
}

// VerifSetMetadata replaces the topic metadata snapshot the etcd store answers Metadata() from.
func (s *EtcdStore) VerifSetMetadata(state ClusterMetadata) { s.metadata.Update(state) }
