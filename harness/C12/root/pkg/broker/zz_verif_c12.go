//go:build verif

package broker

import (
	"context"
	"sort"
	"time"
)

// Verification overlay for the group coordinator (C12 C13 C14 C15 C43 C16): virtual time by
// shifting stored timestamps backwards, an exported cleanup wrapper, an explicit load and a
// state dump.  Nothing here changes behaviour of the code under test.

type VerifMember struct {
	ID             string
	Topics         []string
	SessionTimeout time.Duration
	LastHeartbeat  time.Time
	JoinGeneration int32
}

type VerifAssignment struct {
	Member string
	Nil    bool
	Topics []VerifTopicAssignment
}

type VerifTopicAssignment struct {
	Name       string
	Partitions []int32
}

type VerifGroup struct {
	ID                string
	ProtocolName      string
	ProtocolType      string
	Generation        int32
	Leader            string
	Phase             int
	Members           []VerifMember
	Assignments       []VerifAssignment
	RebalanceTimeout  time.Duration
	RebalanceDeadline time.Time
}

// VerifCleanup runs one pass of the cleanup loop body.
func (c *GroupCoordinator) VerifCleanup() { c.cleanupGroups() }

// VerifShift advances virtual time by d: every stored timestamp moves d into the past.
func (c *GroupCoordinator) VerifShift(d time.Duration) {
	c.mu.Lock()
	defer c.mu.Unlock()
	for _, g := range c.groups {
		for _, m := range g.members {
			if !m.lastHeartbeat.IsZero() {
				m.lastHeartbeat = m.lastHeartbeat.Add(-d)
			}
		}
		if !g.rebalanceDeadline.IsZero() {
			g.rebalanceDeadline = g.rebalanceDeadline.Add(-d)
		}
	}
}

// VerifLoad is loadGroupIfMissing under the coordinator lock.
func (c *GroupCoordinator) VerifLoad(ctx context.Context, group string) error {
	c.mu.Lock()
	defer c.mu.Unlock()
	_, err := c.loadGroupIfMissing(ctx, group)
	return err
}

// VerifDump copies the in-memory group table (groups and members sorted by id).
func (c *GroupCoordinator) VerifDump() []VerifGroup {
	c.mu.Lock()
	defer c.mu.Unlock()
	out := make([]VerifGroup, 0, len(c.groups))
	for id, g := range c.groups {
		vg := VerifGroup{
			ID: id, ProtocolName: g.protocolName, ProtocolType: g.protocolType, Generation: g.generationID,
			Leader: g.leaderID, Phase: int(g.state), RebalanceTimeout: g.rebalanceTimeout, RebalanceDeadline: g.rebalanceDeadline,
		}
		for mid, m := range g.members {
			vg.Members = append(vg.Members, VerifMember{
				ID: mid, Topics: append([]string(nil), m.topics...), SessionTimeout: m.sessionTimeout,
				LastHeartbeat: m.lastHeartbeat, JoinGeneration: m.joinGeneration,
			})
		}
		sort.Slice(vg.Members, func(i, j int) bool { return vg.Members[i].ID < vg.Members[j].ID })
		for mid, a := range g.assignments {
			va := VerifAssignment{Member: mid, Nil: len(a) == 0}
			for _, t := range a {
				va.Topics = append(va.Topics, VerifTopicAssignment{Name: t.Name, Partitions: append([]int32(nil), t.Partitions...)})
			}
			vg.Assignments = append(vg.Assignments, va)
		}
		sort.Slice(vg.Assignments, func(i, j int) bool { return vg.Assignments[i].Member < vg.Assignments[j].Member })
		out = append(out, vg)
	}
	sort.Slice(out, func(i, j int) bool { return out[i].ID < out[j].ID })
	return out
}
