//go:build verif

// C36 harness: the real Server.handleSelect over a scripted lister/decoder.
//
//	reset
//	seg <topic id> <partition> <minOff|-> <maxOff|-> <minTs|-> <maxTs|-> <lastModified ms|-> <off:ts,off:ts,…|->
//	obj <topic id> <partition> <base> <flags: k=.kfs i=.index m=footer magic> <lastModified ms|-> <off:ts,…|->   an S3 object set
//	list <time index 0|1> <manifest 0|1> <cache ttl s>
//	               build the lister stack with the real discovery.New(cfg) against the in-process S3 endpoint
//	               (after the real TimeIndexBuilder.Build / ManifestBuilder.Build when asked for), list once, and
//	               serve every later `select` through that same stack (so its caches are hit)
//	    -> list <topic>/<partition>/<base>/<minOff>/<maxOff>/<minTs>/<maxTs>/<lastModified>;…
//	select <topic id> part=<n|-> omin=<n|-> omax=<n|-> tmin=<n|-> tmax=<n|-> limit=<n|-> tail=<n|-> order=<-|asc|desc> [fault=<-|item.item…>]
//	    -> rows <seg:partition:offset:ts,…|->   (DataRow messages, in order, of a query that completed with `SELECT n`)
//	     | err                                   (handleSelectWithCache returned an error: the client gets an ErrorResponse)
//	     | tag-mismatch …                        (completed, but the CommandComplete tag does not count the DataRows)
//	   every select goes through the real handleSelectWithCache of ONE Server per world state (result cache on: TTL 1 h);
//	   the query text (cache key) is the line without its fault token. Fault items, valid for this one query:
//	     l      lister.ListCompleted returns an error
//	     d<i>   Decoder.Decode of the segment at listing position i returns an error
//	     c<i>   the query context is cancelled when Decode of the segment at listing position i starts (Decode returns ctx.Err())
//	s3fault <-|item,item…>   persistent faults of the in-process S3 endpoint (HTTP 403 AccessDenied, not retried by the SDK):
//	     L  ListObjectsV2;  p:<key>  the ranged GetObject bytes=-4 of <key> (footer-magic probe);
//	     t:<key>  GetObject of <key> (a .kfst time-index footer);  g:<key>  any GetObject of <key>
package main

import (
	"bufio"
	"bytes"
	"context"
	"encoding/hex"
	"errors"
	"fmt"
	"net/http/httptest"
	"os"
	"strconv"
	"strings"
	"time"

	"github.com/jackc/pgproto3/v2"

	"github.com/kafscale/platform/addons/processors/sql-processor/internal/config"
	"github.com/kafscale/platform/addons/processors/sql-processor/internal/decoder"
	"github.com/kafscale/platform/addons/processors/sql-processor/internal/discovery"
	"github.com/kafscale/platform/addons/processors/sql-processor/internal/server"
	kafsql "github.com/kafscale/platform/addons/processors/sql-processor/internal/sql"
)

type seg struct {
	ref  discovery.SegmentRef
	recs []decoder.Record
}

type world struct {
	segs   []seg
	s3     *discovery.VerifS3
	objs   map[string][]decoder.Record // .kfs key -> records
	lister discovery.Lister            // the real stack built by `list`
	srv    *httptest.Server
	sql    *server.Server // the Server (and its result cache) that answers the selects; dropped when the world changes

	// faults of the query that is running
	faultList bool
	faultDec  map[int]byte // listing position -> 'd' (Decode error) | 'c' (cancel the context, return its error)
	cancel    context.CancelFunc
}

var errInjected = errors.New("verif: injected fault")

func (w *world) index(key string) int {
	for i, s := range w.segs {
		if s.ref.SegmentKey == key {
			return i
		}
	}
	return -1
}

func (w *world) ListCompleted(ctx context.Context) ([]discovery.SegmentRef, error) {
	if w.faultList {
		return nil, errInjected
	}
	if w.lister != nil {
		return w.lister.ListCompleted(ctx)
	}
	out := make([]discovery.SegmentRef, len(w.segs))
	for i, s := range w.segs {
		out[i] = s.ref
	}
	return out, nil
}

func (w *world) Decode(ctx context.Context, segmentKey, indexKey string, topic string, partition int32) ([]decoder.Record, error) {
	i := w.index(segmentKey)
	switch w.faultDec[i] {
	case 'd':
		return nil, errInjected
	case 'c':
		if w.cancel != nil {
			w.cancel()
		}
		return nil, ctx.Err()
	}
	if recs, ok := w.objs[segmentKey]; ok {
		return append([]decoder.Record(nil), recs...), nil
	}
	if i < 0 {
		return nil, fmt.Errorf("unknown segment %q", segmentKey)
	}
	return append([]decoder.Record(nil), w.segs[i].recs...), nil
}

func optInt64(s string) (*int64, error) {
	if s == "-" {
		return nil, nil
	}
	v, err := strconv.ParseInt(s, 10, 64)
	if err != nil {
		return nil, err
	}
	return &v, nil
}

func kv(f []string) map[string]string {
	m := map[string]string{}
	for _, x := range f {
		if i := strings.IndexByte(x, '='); i > 0 {
			m[x[:i]] = x[i+1:]
		}
	}
	return m
}

func runSelect(w *world, f []string) (line string) {
	defer func() {
		if r := recover(); r != nil {
			line = "panic"
		}
	}()
	m := kv(f[2:])
	q := kafsql.Query{Type: kafsql.QuerySelect, Topic: "t" + f[1], Select: []kafsql.SelectColumn{{Kind: kafsql.SelectColumnStar, Raw: "*"}}}
	if m["part"] != "-" {
		v, err := strconv.ParseInt(m["part"], 10, 32)
		if err != nil {
			return "bad-op"
		}
		p := int32(v)
		q.Partition = &p
	}
	var err error
	if q.OffsetMin, err = optInt64(m["omin"]); err != nil {
		return "bad-op"
	}
	if q.OffsetMax, err = optInt64(m["omax"]); err != nil {
		return "bad-op"
	}
	if q.TsMin, err = optInt64(m["tmin"]); err != nil {
		return "bad-op"
	}
	if q.TsMax, err = optInt64(m["tmax"]); err != nil {
		return "bad-op"
	}
	if m["limit"] != "-" {
		q.Limit = m["limit"]
	}
	if m["tail"] != "-" {
		q.Tail = m["tail"]
	}
	switch m["order"] {
	case "asc":
		q.OrderBy = "_ts"
	case "desc":
		q.OrderBy, q.OrderDesc = "_ts", true
	}
	if w.sql == nil {
		w.sql = server.VerifNewServer(config.Config{
			Query:       config.QueryConfig{DefaultLimit: 1000, MaxUnbounded: 100000},
			ResultCache: config.ResultCacheConfig{TTLSeconds: 3600, MaxEntries: 100000, MaxRows: 10000},
		}, w, w, nil)
	}
	w.faultList, w.faultDec = false, map[int]byte{}
	if spec := m["fault"]; spec != "" && spec != "-" {
		for _, it := range strings.Split(spec, ".") {
			switch {
			case it == "l":
				w.faultList = true
			case len(it) > 1 && (it[0] == 'd' || it[0] == 'c'):
				i, err := strconv.Atoi(it[1:])
				if err != nil {
					return "bad-op"
				}
				if _, dup := w.faultDec[i]; !dup {
					w.faultDec[i] = it[0]
				}
			default:
				return "bad-op"
			}
		}
	}
	ctx, cancel := context.WithCancel(context.Background())
	w.cancel = cancel
	defer func() {
		cancel()
		w.cancel, w.faultList, w.faultDec = nil, false, nil
	}()
	var buf bytes.Buffer
	if err := w.sql.VerifSelectCached(ctx, &buf, q, strings.Join(f[:10], " ")); err != nil {
		return "err"
	}
	fe := pgproto3.NewFrontend(pgproto3.NewChunkReader(&buf), &bytes.Buffer{})
	var rows []string
	tag := ""
	for {
		msg, err := fe.Receive()
		if err != nil {
			break
		}
		if cc, ok := msg.(*pgproto3.CommandComplete); ok {
			tag = string(cc.CommandTag)
			continue
		}
		dr, ok := msg.(*pgproto3.DataRow)
		if !ok {
			continue
		}
		if len(dr.Values) < 8 {
			rows = append(rows, "short-row")
			continue
		}
		key := string(dr.Values[4])
		ts := "?"
		if strings.HasPrefix(key, `\x`) {
			if b, err := hex.DecodeString(key[2:]); err == nil {
				ts = string(b)
			}
		}
		rows = append(rows, strconv.Itoa(w.index(string(dr.Values[7])))+":"+string(dr.Values[1])+":"+string(dr.Values[2])+":"+ts)
	}
	if tag != "SELECT "+strconv.Itoa(len(rows)) {
		return fmt.Sprintf("tag-mismatch %q rows=%d", tag, len(rows))
	}
	if len(rows) == 0 {
		return "rows -"
	}
	return "rows " + strings.Join(rows, ",")
}

func newWorld() *world {
	return &world{s3: &discovery.VerifS3{Objects: map[string][]byte{}, Modified: map[string]int64{}}, objs: map[string][]decoder.Record{}}
}

func (w *world) close() {
	if w != nil && w.srv != nil {
		w.srv.Close()
	}
}

func parseRecs(topic string, part int32, s string) ([]decoder.Record, bool) {
	var recs []decoder.Record
	if s == "-" {
		return nil, true
	}
	for _, x := range strings.Split(s, ",") {
		p := strings.Split(x, ":")
		if len(p) != 2 {
			return nil, false
		}
		o, e1 := strconv.ParseInt(p[0], 10, 64)
		t, e2 := strconv.ParseInt(p[1], 10, 64)
		if e1 != nil || e2 != nil {
			return nil, false
		}
		recs = append(recs, decoder.Record{Topic: topic, Partition: part, Offset: o, Timestamp: t, Key: []byte(p[1]), Value: []byte("v")})
	}
	return recs, true
}

func optStr(p *int64) string {
	if p == nil {
		return "-"
	}
	return strconv.FormatInt(*p, 10)
}

func lmStr(t time.Time) string {
	if t.IsZero() {
		return "-"
	}
	return strconv.FormatInt(t.UnixMilli(), 10)
}

func runList(w *world, withTimeIndex, manifest bool, ttl int) (line string) {
	defer func() {
		if r := recover(); r != nil {
			line = "panic"
		}
	}()
	ctx := context.Background()
	if w.srv == nil {
		w.srv = httptest.NewServer(w.s3)
	}
	cfg := config.Config{
		S3:             config.S3Config{Bucket: "b", Endpoint: w.srv.URL, Region: "us-east-1", PathStyle: true},
		TimeIndex:      config.TimeIndexConfig{Enabled: withTimeIndex},
		DiscoveryCache: config.DiscoveryCacheConfig{TTLSeconds: ttl, MaxEntries: 10000},
	}
	// the builders run before the faults of the endpoint apply: only the lister stack itself is faulted
	armed := w.s3.SetFaults(nil)
	if withTimeIndex {
		if err := w.s3.VerifBuildTimeIndex(ctx, "", w); err != nil {
			w.s3.SetFaults(armed)
			return "err-build"
		}
	}
	if manifest {
		base, err := discovery.New(config.Config{S3: cfg.S3, TimeIndex: cfg.TimeIndex})
		if err != nil {
			w.s3.SetFaults(armed)
			return "err-new"
		}
		if err := discovery.VerifBuildManifest(ctx, cfg, base); err != nil {
			w.s3.SetFaults(armed)
			return "err-manifest"
		}
		cfg.Manifest = config.ManifestConfig{Enabled: true, TTLSeconds: ttl}
	}
	w.s3.SetFaults(armed)
	l, err := discovery.New(cfg)
	if err != nil {
		return "err-new"
	}
	w.lister = nil
	refs, err := l.ListCompleted(ctx)
	if err != nil {
		// the stack stays in place: later selects list again through it
		w.lister, w.segs = l, nil
		return "err-list"
	}
	w.lister = l
	w.segs = nil
	var parts []string
	for _, r := range refs {
		w.segs = append(w.segs, seg{ref: r, recs: w.objs[r.SegmentKey]})
		parts = append(parts, fmt.Sprintf("%s/%d/%d/%s/%s/%s/%s/%s", strings.TrimPrefix(r.Topic, "t"), r.Partition, r.BaseOffset,
			optStr(r.MinOffset), optStr(r.MaxOffset), optStr(r.MinTimestamp), optStr(r.MaxTimestamp), lmStr(r.LastModified)))
	}
	if len(parts) == 0 {
		return "list -"
	}
	return "list " + strings.Join(parts, ";")
}

func main() {
	// static credentials so that discovery.New's aws config resolves without any lookup
	os.Setenv("AWS_ACCESS_KEY_ID", "verif")
	os.Setenv("AWS_SECRET_ACCESS_KEY", "verif")
	os.Setenv("AWS_EC2_METADATA_DISABLED", "true")
	out := bufio.NewWriter(os.Stdout)
	defer out.Flush()
	w := newWorld()
	sc := bufio.NewScanner(os.Stdin)
	sc.Buffer(make([]byte, 1<<20), 1<<26)
	for sc.Scan() {
		f := strings.Fields(sc.Text())
		if len(f) == 0 || strings.HasPrefix(f[0], "#") {
			continue
		}
		switch {
		case f[0] == "reset":
			w.close()
			w = newWorld()
			fmt.Fprintln(out, "reset")
		case f[0] == "obj" && len(f) == 7:
			part, e1 := strconv.ParseInt(f[2], 10, 32)
			base, e2 := strconv.ParseInt(f[3], 10, 64)
			topic := "t" + f[1]
			recs, ok := parseRecs(topic, int32(part), f[6])
			lm, e3 := optInt64(f[5])
			if e1 != nil || e2 != nil || e3 != nil || !ok {
				fmt.Fprintln(out, "bad-op")
				continue
			}
			stem := fmt.Sprintf("%s/%d/segment-%d", topic, part, base)
			if lm != nil {
				w.s3.Modified[stem+".kfs"] = *lm
			}
			if strings.Contains(f[4], "k") {
				body := []byte("segment-bytes")
				if strings.Contains(f[4], "m") {
					body = append(body, []byte("END!")...)
				} else {
					body = append(body, []byte("....")...)
				}
				w.s3.Objects[stem+".kfs"] = body
				w.objs[stem+".kfs"] = recs
			}
			if strings.Contains(f[4], "i") {
				w.s3.Objects[stem+".index"] = []byte("idx")
			}
			w.sql = nil
			fmt.Fprintln(out, "obj")
		case f[0] == "list" && len(f) == 4:
			ttl, err := strconv.Atoi(f[3])
			if err != nil {
				fmt.Fprintln(out, "bad-op")
				continue
			}
			w.sql = nil
			fmt.Fprintln(out, runList(w, f[1] == "1", f[2] == "1", ttl))
		case f[0] == "seg" && len(f) == 9:
			part, err := strconv.ParseInt(f[2], 10, 32)
			if err != nil {
				fmt.Fprintln(out, "bad-op")
				continue
			}
			i := len(w.segs)
			s := seg{ref: discovery.SegmentRef{Topic: "t" + f[1], Partition: int32(part), SegmentKey: "seg-" + strconv.Itoa(i), IndexKey: "idx-" + strconv.Itoa(i)}}
			_ = i
			bad := false
			for j, dst := range []**int64{&s.ref.MinOffset, &s.ref.MaxOffset, &s.ref.MinTimestamp, &s.ref.MaxTimestamp} {
				v, err := optInt64(f[3+j])
				if err != nil {
					bad = true
				}
				*dst = v
			}
			if lm, err := optInt64(f[7]); err != nil {
				bad = true
			} else if lm != nil {
				s.ref.LastModified = time.UnixMilli(*lm)
			}
			if f[8] != "-" {
				for _, x := range strings.Split(f[8], ",") {
					p := strings.Split(x, ":")
					if len(p) != 2 {
						bad = true
						continue
					}
					o, e1 := strconv.ParseInt(p[0], 10, 64)
					t, e2 := strconv.ParseInt(p[1], 10, 64)
					if e1 != nil || e2 != nil {
						bad = true
						continue
					}
					s.recs = append(s.recs, decoder.Record{Topic: s.ref.Topic, Partition: s.ref.Partition, Offset: o, Timestamp: t, Key: []byte(p[1]), Value: []byte("v")})
				}
			}
			if bad {
				fmt.Fprintln(out, "bad-op")
				continue
			}
			w.segs = append(w.segs, s)
			w.sql = nil
			fmt.Fprintln(out, "seg")
		case f[0] == "s3fault" && len(f) == 2:
			faults := map[string]bool{}
			if f[1] != "-" {
				for _, it := range strings.Split(f[1], ",") {
					faults[it] = true
				}
			}
			w.s3.SetFaults(faults)
			fmt.Fprintln(out, "s3fault")
		case f[0] == "select" && (len(f) == 10 || (len(f) == 11 && strings.HasPrefix(f[10], "fault="))):
			fmt.Fprintln(out, runSelect(w, f))
		default:
			fmt.Fprintln(out, "bad-op")
		}
	}
}
