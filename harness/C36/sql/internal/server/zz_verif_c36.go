//go:build verif

package server

import (
	"context"
	"io"
	"log"
	"net"

	"github.com/jackc/pgproto3/v2"

	"github.com/kafscale/platform/addons/processors/sql-processor/internal/config"
	"github.com/kafscale/platform/addons/processors/sql-processor/internal/decoder"
	"github.com/kafscale/platform/addons/processors/sql-processor/internal/discovery"
	"github.com/kafscale/platform/addons/processors/sql-processor/internal/metadata"
	kafsql "github.com/kafscale/platform/addons/processors/sql-processor/internal/sql"
)

// VerifNewServer builds a Server whose lister / decoder / resolver are the given ones
// (what the repo's own newTestServer does), used by the C36 and C37 harnesses.
func VerifNewServer(cfg config.Config, l discovery.Lister, d decoder.Decoder, r metadata.Resolver) *Server {
	s := New(cfg, log.New(io.Discard, "", 0))
	s.lister, s.listerInit = l, true
	s.decoder, s.decoderInit = d, true
	if r != nil {
		s.resolver, s.resolverInit = r, true
	}
	return s
}

// VerifHandleConnection runs the real connection handler on conn.
func (s *Server) VerifHandleConnection(ctx context.Context, conn net.Conn) {
	s.handleConnection(ctx, conn)
}

// VerifSelect runs the real handleSelect for an already parsed query and writes the backend
// messages (RowDescription, DataRow…, CommandComplete) to w.
func (s *Server) VerifSelect(ctx context.Context, w io.Writer, parsed kafsql.Query) error {
	backend := pgproto3.NewBackend(pgproto3.NewChunkReader(emptyReader{}), w)
	_, err := s.handleSelect(ctx, backend, parsed, nil)
	return err
}

// VerifSelectCached runs the real handleSelectWithCache (result-cache lookup, handleSelect with a
// row collector on a miss, store on success) for an already parsed query whose text is queryText.
func (s *Server) VerifSelectCached(ctx context.Context, w io.Writer, parsed kafsql.Query, queryText string) error {
	backend := pgproto3.NewBackend(pgproto3.NewChunkReader(emptyReader{}), w)
	_, _, err := s.handleSelectWithCache(ctx, backend, parsed, queryText)
	return err
}

// VerifFilterSegments exposes filterSegments.
func VerifFilterSegments(parsed kafsql.Query, segments []discovery.SegmentRef, timeMin, timeMax *int64) []discovery.SegmentRef {
	return filterSegments(parsed, segments, timeMin, timeMax)
}

type emptyReader struct{}

func (emptyReader) Read(p []byte) (int, error) { return 0, io.EOF }
