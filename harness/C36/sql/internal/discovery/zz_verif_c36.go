//go:build verif

package discovery

import (
	"bytes"
	"context"
	"encoding/xml"
	"fmt"
	"io"
	"net/http"
	"os"
	"sort"
	"strconv"
	"strings"
	"sync"
	"time"

	"github.com/aws/aws-sdk-go-v2/aws"
	"github.com/aws/aws-sdk-go-v2/service/s3"

	"github.com/kafscale/platform/addons/processors/sql-processor/internal/config"
	"github.com/kafscale/platform/addons/processors/sql-processor/internal/decoder"
)

// VerifS3 is an in-process S3 endpoint (an http round tripper for the real aws-sdk s3.Client):
// ListObjectsV2, ranged GetObject and PutObject over a map of objects.
type VerifS3 struct {
	mu       sync.Mutex
	Objects  map[string][]byte
	Modified map[string]int64 // LastModified of an object in Unix ms (default: 2024-01-01)
	// Faults: "L" ListObjectsV2, "p:<key>" ranged GetObject bytes=-4 of key, "t:<key>"/"g:<key>" GetObject of key
	// -> 403 AccessDenied (a client error: the SDK's retryer does not retry it, so no back-off sleeps)
	Faults map[string]bool
}

// SetFaults replaces the fault set and returns the previous one.
func (v *VerifS3) SetFaults(f map[string]bool) map[string]bool {
	v.mu.Lock()
	defer v.mu.Unlock()
	old := v.Faults
	v.Faults = f
	return old
}

// ServeHTTP makes the same endpoint reachable over a real socket (httptest), for discovery.New.
func (v *VerifS3) ServeHTTP(w http.ResponseWriter, req *http.Request) {
	resp, err := v.Do(req)
	if err != nil {
		http.Error(w, err.Error(), 500)
		return
	}
	for k, vals := range resp.Header {
		for _, val := range vals {
			w.Header().Add(k, val)
		}
	}
	w.WriteHeader(resp.StatusCode)
	_, _ = io.Copy(w, resp.Body)
}

type listResult struct {
	XMLName     xml.Name      `xml:"ListBucketResult"`
	Name        string        `xml:"Name"`
	Prefix      string        `xml:"Prefix"`
	KeyCount    int           `xml:"KeyCount"`
	MaxKeys     int           `xml:"MaxKeys"`
	IsTruncated bool          `xml:"IsTruncated"`
	Contents    []listContent `xml:"Contents"`
}

type listContent struct {
	Key          string `xml:"Key"`
	LastModified string `xml:"LastModified"`
	Size         int    `xml:"Size"`
}

func (v *VerifS3) Do(req *http.Request) (*http.Response, error) {
	v.mu.Lock()
	defer v.mu.Unlock()
	resp := func(code int, body []byte, hdr map[string]string) *http.Response {
		h := http.Header{}
		for k, val := range hdr {
			h.Set(k, val)
		}
		return &http.Response{StatusCode: code, Status: strconv.Itoa(code), Header: h, Body: io.NopCloser(bytes.NewReader(body)),
			ContentLength: int64(len(body)), Request: req, Proto: "HTTP/1.1", ProtoMajor: 1, ProtoMinor: 1}
	}
	path := strings.TrimPrefix(req.URL.Path, "/")
	parts := strings.SplitN(path, "/", 2)
	key := ""
	if len(parts) == 2 {
		key = parts[1]
	}
	if os.Getenv("VERIF_S3_TRACE") != "" {
		fmt.Fprintf(os.Stderr, "s3 %s %s range=%q faults=%v\n", req.Method, req.URL.String(), req.Header.Get("Range"), v.Faults)
	}
	denied := resp(403, []byte(`<?xml version="1.0" encoding="UTF-8"?><Error><Code>AccessDenied</Code><Message>verif: injected fault</Message></Error>`),
		map[string]string{"Content-Type": "application/xml"})
	switch {
	case req.Method == http.MethodGet && key == "" && req.URL.Query().Get("list-type") == "2" && v.Faults["L"]:
		return denied, nil
	case req.Method == http.MethodGet && key != "" && (v.Faults["g:"+key] || v.Faults["t:"+key] ||
		(v.Faults["p:"+key] && req.Header.Get("Range") == "bytes=-4")):
		return denied, nil
	case req.Method == http.MethodGet && key == "" && req.URL.Query().Get("list-type") == "2":
		prefix := req.URL.Query().Get("prefix")
		var keys []string
		for k := range v.Objects {
			if strings.HasPrefix(k, prefix) {
				keys = append(keys, k)
			}
		}
		sort.Strings(keys)
		out := listResult{Name: parts[0], Prefix: prefix, KeyCount: len(keys), MaxKeys: 1000}
		for _, k := range keys {
			lm := "2024-01-01T00:00:00.000Z"
			if ms, ok := v.Modified[k]; ok {
				lm = time.UnixMilli(ms).UTC().Format("2006-01-02T15:04:05.000Z")
			}
			out.Contents = append(out.Contents, listContent{Key: k, LastModified: lm, Size: len(v.Objects[k])})
		}
		body, _ := xml.Marshal(out)
		return resp(200, append([]byte(xml.Header), body...), map[string]string{"Content-Type": "application/xml"}), nil
	case req.Method == http.MethodGet:
		data, ok := v.Objects[key]
		if !ok {
			return resp(404, []byte(`<?xml version="1.0" encoding="UTF-8"?><Error><Code>NoSuchKey</Code><Message>no such key</Message></Error>`),
				map[string]string{"Content-Type": "application/xml"}), nil
		}
		if r := req.Header.Get("Range"); strings.HasPrefix(r, "bytes=-") {
			n, err := strconv.Atoi(strings.TrimPrefix(r, "bytes=-"))
			if err == nil && n < len(data) {
				data = data[len(data)-n:]
			}
			return resp(206, data, nil), nil
		}
		return resp(200, data, nil), nil
	case req.Method == http.MethodPut:
		body, err := io.ReadAll(req.Body)
		if err != nil {
			return nil, err
		}
		v.Objects[key] = body
		return resp(200, nil, map[string]string{"ETag": `"x"`}), nil
	}
	return resp(400, []byte(`<?xml version="1.0" encoding="UTF-8"?><Error><Code>BadRequest</Code><Message>unsupported</Message></Error>`), nil), nil
}

func (v *VerifS3) client() *s3.Client {
	return s3.New(s3.Options{
		Region:       "us-east-1",
		Credentials:  aws.AnonymousCredentials{},
		HTTPClient:   v,
		BaseEndpoint: aws.String("http://s3.verif.invalid"),
		UsePathStyle: true,
	})
}

// VerifList runs the real s3Lister.ListCompleted (with the time-index reader when withTimeIndex).
func (v *VerifS3) VerifList(ctx context.Context, prefix string, withTimeIndex bool) ([]SegmentRef, error) {
	c := v.client()
	l := &s3Lister{client: c, bucket: "b", prefix: normalizePrefix(prefix)}
	if withTimeIndex {
		l.timeIndex = newTimeIndexReader(c, "b", "")
	}
	return l.ListCompleted(ctx)
}

// VerifBuildTimeIndex runs the real TimeIndexBuilder.Build over the real lister.
func (v *VerifS3) VerifBuildTimeIndex(ctx context.Context, prefix string, dec decoder.Decoder) error {
	c := v.client()
	l := &s3Lister{client: c, bucket: "b", prefix: normalizePrefix(prefix)}
	b := newTimeIndexBuilder(c, "b", "", 0, 0, l, dec)
	return b.Build(ctx)
}

// VerifBuildManifest runs the real ManifestBuilder.Build (constructed by the real NewManifestBuilder).
func VerifBuildManifest(ctx context.Context, cfg config.Config, lister Lister) error {
	b, err := NewManifestBuilder(cfg, lister)
	if err != nil {
		return err
	}
	return b.Build(ctx)
}

// VerifFooter encodes a .kfst footer (to plant hand-made or stale footers).
func VerifFooter(minTS, maxTS, minOffset, maxOffset int64) []byte {
	return encodeTimeIndexFooter(minTS, maxTS, minOffset, maxOffset)
}

var _ = fmt.Sprintf
