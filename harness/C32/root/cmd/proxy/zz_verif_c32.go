//go:build verif

// C32 correspondence harness (overlay into cmd/proxy, active only when VERIF_HARNESS=C32):
// drives the real LFS HTTP handlers (single-request produce and the multipart session API) with
// httptest, the ghost S3 of zz_verif_c3x_common.go and a scripted broker socket.  One line per
// op: "<model-comparable part> | <monitor facts>".
package main

import (
	"bufio"
	"bytes"
	"context"
	"crypto/sha256"
	"encoding/hex"
	"encoding/json"
	"fmt"
	"net"
	"net/http"
	"net/http/httptest"
	"os"
	"reflect"
	"runtime"
	"strconv"
	"strings"
	"sync"
	"time"

	"github.com/KafScale/platform/pkg/lfs"
	"github.com/KafScale/platform/pkg/protocol"
	"github.com/aws/aws-sdk-go-v2/aws"
	"github.com/aws/aws-sdk-go-v2/service/s3"
	"github.com/aws/smithy-go"
	"github.com/twmb/franz-go/pkg/kmsg"
)

func init() {
	if os.Getenv("VERIF_HARNESS") != "C32" {
		return
	}
	if repo := os.Getenv("VERIF_C32_EXTRACT"); repo != "" {
		os.Exit(verifC32Extract(repo)) // lock-region skeleton of the upload-session handlers (zz_verif_c32_extract.go)
	}
	verifC32Main()
	os.Exit(0)
}

// ---------------------------------------------------------------- scripted broker

type verifC32Broker struct {
	ln       net.Listener
	mu       sync.Mutex
	mode     string // ack | code:<n> | nopart | garbage | close
	requests int
	lastVal  []byte // value of the first record of the last produce request
	lastAck  bool   // the last reply was a well-formed response with code 0 for the requested partition
}

func verifC32NewBroker() *verifC32Broker {
	ln, err := net.Listen("tcp", "127.0.0.1:0")
	if err != nil {
		panic(err)
	}
	b := &verifC32Broker{ln: ln, mode: "ack"}
	go func() {
		for {
			c, err := ln.Accept()
			if err != nil {
				return
			}
			go b.serve(c)
		}
	}()
	return b
}

func (b *verifC32Broker) serve(c net.Conn) {
	defer c.Close()
	_ = c.SetDeadline(time.Now().Add(5 * time.Second))
	frame, err := protocol.ReadFrame(c)
	if err != nil {
		return
	}
	p := frame.Payload
	// request header v2: api key, version, correlation id, client id (nullable string), tagged fields
	if len(p) < 10 {
		return
	}
	version := int16(uint16(p[2])<<8 | uint16(p[3]))
	corr := p[4:8]
	pos := 8
	cl := int(int16(uint16(p[pos])<<8 | uint16(p[pos+1])))
	pos += 2
	if cl > 0 {
		pos += cl
	}
	pos++ // empty tagged fields
	req := kmsg.NewPtrProduceRequest()
	req.SetVersion(version)
	var topic string
	var part int32
	var val []byte
	if err := req.ReadFrom(p[pos:]); err == nil && len(req.Topics) == 1 && len(req.Topics[0].Partitions) == 1 {
		topic = req.Topics[0].Topic
		part = req.Topics[0].Partitions[0].Partition
		var batch kmsg.RecordBatch
		if err := batch.ReadFrom(req.Topics[0].Partitions[0].Records); err == nil && batch.NumRecords == 1 {
			var rec kmsg.Record
			if err := rec.ReadFrom(batch.Records); err == nil {
				val = rec.Value
			}
		}
	}
	b.mu.Lock()
	mode := b.mode
	b.requests++
	b.lastVal = val
	b.lastAck = false
	b.mu.Unlock()
	if mode == "close" {
		return
	}
	out := append([]byte(nil), corr...)
	if mode == "garbage" {
		_ = protocol.WriteFrame(c, append(out, 0x00, 0xff, 0xff, 0xff, 0xff, 0x7f, 0x01))
		return
	}
	out = append(out, 0x00) // response header v1 tagged fields
	resp := kmsg.NewPtrProduceResponse()
	resp.SetVersion(version)
	code := int16(0)
	if strings.HasPrefix(mode, "code:") {
		n, _ := strconv.Atoi(mode[5:])
		code = int16(n)
	}
	rt := kmsg.NewProduceResponseTopic()
	rt.Topic = topic
	rp := kmsg.NewProduceResponseTopicPartition()
	rp.Partition = part
	if mode == "nopart" {
		rp.Partition = part + 1
	}
	rp.ErrorCode = code
	rp.BaseOffset = 7
	rt.Partitions = append(rt.Partitions, rp)
	resp.Topics = append(resp.Topics, rt)
	out = resp.AppendTo(out)
	// record what is being replied BEFORE the frame leaves (the handler may finish first otherwise)
	b.mu.Lock()
	b.lastAck = code == 0 && mode != "nopart" && topic != ""
	b.mu.Unlock()
	_ = protocol.WriteFrame(c, out)
}

// ---------------------------------------------------------------- S3 error codes of unknown upload ids

// verifC32S3 is the ghost S3 seen through the error surface of the real service: an upload id is UNKNOWN once the
// upload was completed OR aborted (by the proxy, or behind its back: `lifecycle-abort`), and every call that names an
// unknown id — UploadPart, CompleteMultipartUpload, AbortMultipartUpload — is answered with the API error
// `NoSuchUpload` (a smithy.APIError, what the SDK hands to the proxy), never with success.
type verifC32S3 struct {
	*verifC3xS3
	noSuchUpload int // calls answered NoSuchUpload (diagnostics)
}

func verifC32NoSuchUpload() error {
	return &smithy.GenericAPIError{Code: "NoSuchUpload", Message: "The specified upload does not exist. The upload ID may be invalid, or the upload may have been aborted or completed.", Fault: smithy.FaultClient}
}

func (w *verifC32S3) known(id *string) bool {
	w.verifC3xS3.mu.Lock()
	defer w.verifC3xS3.mu.Unlock()
	_, ok := w.verifC3xS3.uploads[aws.ToString(id)]
	return ok
}

func (w *verifC32S3) apiErr(err error) error {
	if err != nil && err.Error() == "verif: NoSuchUpload" {
		w.verifC3xS3.mu.Lock()
		w.noSuchUpload++
		w.verifC3xS3.mu.Unlock()
		return verifC32NoSuchUpload()
	}
	return err
}

func (w *verifC32S3) UploadPart(ctx context.Context, in *s3.UploadPartInput, o ...func(*s3.Options)) (*s3.UploadPartOutput, error) {
	out, err := w.verifC3xS3.UploadPart(ctx, in, o...)
	return out, w.apiErr(err)
}

func (w *verifC32S3) CompleteMultipartUpload(ctx context.Context, in *s3.CompleteMultipartUploadInput, o ...func(*s3.Options)) (*s3.CompleteMultipartUploadOutput, error) {
	out, err := w.verifC3xS3.CompleteMultipartUpload(ctx, in, o...)
	return out, w.apiErr(err)
}

func (w *verifC32S3) AbortMultipartUpload(ctx context.Context, in *s3.AbortMultipartUploadInput, o ...func(*s3.Options)) (*s3.AbortMultipartUploadOutput, error) {
	known := w.known(in.UploadId)
	out, err := w.verifC3xS3.AbortMultipartUpload(ctx, in, o...) // scripted faults and the schedule gate live there
	if err == nil && !known {
		return nil, w.apiErr(fmt.Errorf("verif: NoSuchUpload"))
	}
	return out, err
}

// lifecycleAbort removes every in-flight multipart upload behind the proxy's back (bucket lifecycle rule
// AbortIncompleteMultipartUpload, an operator's `aws s3api abort-multipart-upload`): the ids become unknown.
func (w *verifC32S3) lifecycleAbort() int {
	w.verifC3xS3.mu.Lock()
	defer w.verifC3xS3.mu.Unlock()
	n := len(w.verifC3xS3.uploads)
	for id := range w.verifC3xS3.uploads {
		delete(w.verifC3xS3.uploads, id)
	}
	return n
}

// ---------------------------------------------------------------- harness state

type verifC32State struct {
	fs3      *verifC3xS3
	api      *verifC32S3
	m        *lfsModule
	br       *verifC32Broker
	defAlg   string
	sessID   string
	sessKey  string
	etags    map[int]string
	lastPuts int
}

func verifC32Fill(n int, fill byte) []byte { return bytes.Repeat([]byte{fill}, n) }

func (s *verifC32State) setBroker(mode string) {
	if mode == "refuse" {
		s.m.backends = []string{"127.0.0.1:1"}
		return
	}
	s.m.backends = []string{s.br.ln.Addr().String()}
	s.br.mu.Lock()
	switch {
	case mode == "ack", mode == "garbage", mode == "close", strings.HasPrefix(mode, "code:"):
		s.br.mode = mode
	case mode == "nopartition":
		s.br.mode = "nopart"
	default:
		s.br.mode = "ack"
	}
	s.br.requests = 0
	s.br.lastVal = nil
	s.br.lastAck = false
	s.br.mu.Unlock()
}

// outcome renders the comparable part and the monitor facts of an op that may return an envelope.
func (s *verifC32State) outcome(op string, rr *httptest.ResponseRecorder, key string, tail string) string {
	envS, shaIs := "none", "na"
	var env lfs.Envelope
	haveEnv := false
	if rr.Code == http.StatusOK {
		if e, err := lfs.DecodeEnvelope(bytes.TrimSpace(rr.Body.Bytes())); err == nil {
			env, haveEnv = e, true
			envS = strconv.FormatInt(e.Size, 10)
			if key == "" {
				key = e.Key
			}
		}
	}
	objS := "none"
	obj, ok := []byte(nil), false
	if key != "" {
		obj, ok = s.fs3.object(key)
	}
	if ok {
		objS = strconv.Itoa(len(obj))
	}
	if haveEnv {
		shaIs = "false"
		if ok {
			sum := sha256.Sum256(obj)
			if hex.EncodeToString(sum[:]) == env.SHA256 {
				shaIs = "true"
			}
		}
	}
	s.br.mu.Lock()
	produced := s.br.requests > 0
	acked := s.br.lastAck
	recEnv := false
	if haveEnv && s.br.lastVal != nil {
		if e2, err := lfs.DecodeEnvelope(s.br.lastVal); err == nil && reflect.DeepEqual(e2, env) {
			recEnv = true
		}
	}
	s.br.mu.Unlock()
	keyOK := !haveEnv || (env.Key == key && env.Bucket == s.m.s3Bucket)
	return fmt.Sprintf("%s status=%d env=%s sha_is_obj=%s produced=%v%s obj=%s | acked=%v rec_env=%v key_ok=%v",
		op, rr.Code, envS, shaIs, produced, tail, objS, acked, recEnv, keyOK)
}

func (s *verifC32State) sessTail() string {
	if s.sessID == "" {
		return " sess=none"
	}
	s.m.uploadMu.Lock()
	sess, ok := s.m.uploadSessions[s.sessID]
	s.m.uploadMu.Unlock()
	if !ok {
		return " sess=none"
	}
	sess.mu.Lock()
	defer sess.mu.Unlock()
	return fmt.Sprintf(" sess=%d/%d", sess.NextPart, sess.TotalUploaded)
}

func (s *verifC32State) checksumFor(alg string, kind string, content []byte) string {
	if kind == "absent" {
		return ""
	}
	a, err := lfs.NormalizeChecksumAlg(alg)
	if err != nil || a == lfs.ChecksumNone {
		a = lfs.ChecksumSHA256
	}
	sum, _ := lfs.ComputeChecksum(a, content)
	if kind == "wrong" {
		return strings.Repeat("0", len(sum))
	}
	return strings.ToUpper(sum) // the comparison is case-insensitive
}

// completeBody renders the JSON body of a completion request from `<n>:<ok|bad|empty>,…|-` (ok = the ETag the proxy
// returned for that part number).
func (s *verifC32State) completeBody(list string) []byte {
	var creq lfsUploadCompleteRequest
	if list != "-" {
		for _, p := range strings.Split(list, ",") {
			ne := strings.Split(p, ":")
			n, _ := strconv.Atoi(ne[0])
			etag := s.etags[n]
			if etag == "" {
				etag = "\"never-issued\""
			}
			switch ne[1] {
			case "bad":
				etag = "\"deadbeef\""
			case "empty":
				etag = ""
			}
			creq.Parts = append(creq.Parts, struct {
				PartNumber int32  `json:"part_number"`
				ETag       string `json:"etag"`
			}{int32(n), etag})
		}
	}
	body, _ := json.Marshal(creq)
	return body
}

func (s *verifC32State) line(f []string) (out string) {
	defer func() {
		if r := recover(); r != nil {
			out = fmt.Sprintf("%s panic %v", f[0], r)
		}
	}()
	if s.br != nil && s.m != nil {
		s.setBroker("ack") // also clears the broker's request log for this op
	}
	switch f[0] {
	case "new":
		maxBlob, _ := strconv.ParseInt(f[1], 10, 64)
		if s.br == nil {
			s.br = verifC32NewBroker()
		}
		s.fs3 = verifC3xNewS3()
		s.defAlg = f[2]
		s.m = verifC3xModule(s.fs3, maxBlob, f[2], nil)
		s.api = &verifC32S3{verifC3xS3: s.fs3}
		s.m.s3Uploader.api = s.api // the same ghost S3, with the real service's error codes for unknown upload ids
		s.sessID, s.sessKey, s.etags = "", "", map[int]string{}
		return "new"
	case "produce":
		n, _ := strconv.Atoi(f[1])
		fill, _ := strconv.Atoi(f[2])
		body := verifC32Fill(n, byte(fill))
		alg := f[3]
		if alg == "-" {
			alg = ""
		}
		effAlg := alg
		if effAlg == "" {
			effAlg = s.defAlg
		}
		s.fs3.script = verifC32Script(f[5])
		s.setBroker(f[6])
		before := len(s.fs3.putKeys)
		req := httptest.NewRequest(http.MethodPost, "/lfs/produce", bytes.NewReader(body))
		req.Header.Set(lfsHeaderTopic, "verif-topic")
		req.Header.Set(lfsHeaderPartition, "3")
		if alg != "" {
			req.Header.Set(lfsHeaderChecksumAlg, alg)
		}
		if ck := s.checksumFor(effAlg, f[4], body); ck != "" {
			req.Header.Set(lfsHeaderChecksum, ck)
		}
		rr := httptest.NewRecorder()
		s.m.handleHTTPProduce(rr, req)
		s.fs3.script = nil
		key := ""
		if len(s.fs3.putKeys) > before {
			key = s.fs3.putKeys[len(s.fs3.putKeys)-1]
		}
		return s.outcome("produce", rr, key, "")
	case "init":
		size, _ := strconv.ParseInt(f[1], 10, 64)
		alg := f[2]
		if alg == "-" {
			alg = ""
		}
		effAlg := alg
		if effAlg == "" {
			effAlg = s.defAlg
		}
		var content []byte
		if f[5] != "-" {
			for _, p := range strings.Split(f[5], ",") {
				lf := strings.Split(p, ":")
				n, _ := strconv.Atoi(lf[0])
				fill, _ := strconv.Atoi(lf[1])
				content = append(content, verifC32Fill(n, byte(fill))...)
			}
		}
		s.fs3.failCreate = f[4] == "1"
		body, _ := json.Marshal(lfsUploadInitRequest{Topic: "verif-topic", ContentType: "application/octet-stream", SizeBytes: size,
			Checksum: s.checksumFor(effAlg, f[3], content), ChecksumAlg: alg})
		rr := httptest.NewRecorder()
		s.m.handleHTTPUploadInit(rr, httptest.NewRequest(http.MethodPost, "/lfs/uploads", bytes.NewReader(body)))
		s.fs3.failCreate = false
		if rr.Code == http.StatusOK {
			var resp lfsUploadInitResponse
			_ = json.Unmarshal(rr.Body.Bytes(), &resp)
			s.sessID, s.sessKey, s.etags = resp.UploadID, resp.S3Key, map[int]string{}
		}
		return s.outcome("init", rr, s.sessKey, s.sessTail())
	case "part":
		n, _ := strconv.Atoi(f[1])
		ln, _ := strconv.Atoi(f[2])
		fill, _ := strconv.Atoi(f[3])
		if f[4] == "1" {
			s.fs3.failPart = int32(n)
		}
		id := s.sessID
		if id == "" {
			id = "no-such-session"
		}
		rr := httptest.NewRecorder()
		s.m.handleHTTPUploadSession(rr, httptest.NewRequest(http.MethodPut, fmt.Sprintf("/lfs/uploads/%s/parts/%d", id, n), bytes.NewReader(verifC32Fill(ln, byte(fill)))))
		s.fs3.failPart = 0
		if rr.Code == http.StatusOK {
			var resp lfsUploadPartResponse
			if json.Unmarshal(rr.Body.Bytes(), &resp) == nil {
				s.etags[n] = resp.ETag
			}
		}
		return s.outcome("part", rr, s.sessKey, s.sessTail())
	case "complete":
		creq := s.completeBody(f[1])
		s.fs3.failComplet = f[2] == "1"
		s.setBroker(f[3])
		id := s.sessID
		if id == "" {
			id = "no-such-session"
		}
		rr := httptest.NewRecorder()
		s.m.handleHTTPUploadSession(rr, httptest.NewRequest(http.MethodPost, "/lfs/uploads/"+id+"/complete", bytes.NewReader(creq)))
		s.fs3.failComplet = false
		return s.outcome("complete", rr, s.sessKey, s.sessTail())
	case "par":
		return s.par(f[1:])
	case "abort":
		id := s.sessID
		if id == "" {
			id = "no-such-session"
		}
		rr := httptest.NewRecorder()
		s.m.handleHTTPUploadSession(rr, httptest.NewRequest(http.MethodDelete, "/lfs/uploads/"+id, nil))
		return s.outcome("abort", rr, s.sessKey, s.sessTail())
	case "lifecycle-abort":
		// S3 drops the in-flight multipart upload behind the proxy's back; the proxy's session stays
		s.api.lifecycleAbort()
		rr := httptest.NewRecorder()
		rr.Code = 0
		return s.outcome("lifecycle-abort", rr, s.sessKey, s.sessTail())
	case "expire":
		s.m.uploadMu.Lock()
		if sess, ok := s.m.uploadSessions[s.sessID]; ok {
			sess.mu.Lock()
			sess.ExpiresAt = sess.ExpiresAt.Add(-2 * time.Hour)
			sess.mu.Unlock()
		}
		s.m.uploadMu.Unlock()
		// any lookup runs the cleanup; use the module's own accessor
		_, _ = s.m.lfsGetUploadSession(s.sessID)
		rr := httptest.NewRecorder()
		rr.Code = 0
		return s.outcome("expire", rr, s.sessKey, s.sessTail())
	}
	return "bad-op"
}

// verifC32Script turns a fault token `<put|create|part<k>|complete|delete|abort>[.once][.before]` into a scripted S3
// outcome: persistent unless `.once`, fail-after-read (S3 consumed the request body) unless `.before`.
func verifC32Script(tok string) []*verifC3xFault {
	parts := strings.Split(tok, ".")
	flt := &verifC3xFault{}
	switch {
	case parts[0] == "put":
		flt.op = "PutObject"
	case parts[0] == "create":
		flt.op = "CreateMultipartUpload"
	case parts[0] == "complete":
		flt.op = "CompleteMultipartUpload"
	case parts[0] == "delete":
		flt.op = "DeleteObject"
	case parts[0] == "abort":
		flt.op = "AbortMultipartUpload"
	case strings.HasPrefix(parts[0], "part"):
		k, err := strconv.Atoi(parts[0][4:])
		if err != nil || k <= 0 {
			return nil
		}
		flt.op, flt.part = "UploadPart", int32(k)
	default:
		return nil
	}
	for _, fl := range parts[1:] {
		switch fl {
		case "once":
			flt.once = true
		case "before":
			flt.before = true
		}
	}
	return []*verifC3xFault{flt}
}

// verifC32MutexBlocked counts the upload-session handlers that are parked on a mutex (the session lock).
var verifC32StackBuf = make([]byte, 1<<20)

func verifC32MutexBlocked() int {
	buf := verifC32StackBuf
	n := runtime.Stack(buf, true)
	cnt := 0
	for _, g := range strings.Split(string(buf[:n]), "\n\n") {
		hdr, _, _ := strings.Cut(g, "\n")
		if (strings.Contains(hdr, "sync.Mutex.Lock") || strings.Contains(hdr, "semacquire")) && strings.Contains(g, "handleHTTPUpload") {
			cnt++
		}
	}
	return cnt
}

// par runs requests of the current session so that they OVERLAP: request 0 is started and held inside the S3
// UploadPart call (gate of the ghost S3, after S3 read the body); each further request is started once its
// predecessor is accounted for — inside the gate too, answered, or parked on the session mutex (the code as it is) —
// and the gate opens when all k are.  With the session lock held across the S3 call the requests are therefore
// served in arrival order; anything that lets a second request past the checks while the first is in its S3 round
// trip has both in the gate at once.  req = part:<n>:<len>:<fill>:<s3Fails> | abort.
func (s *verifC32State) par(reqs []string) string {
	k := len(reqs)
	var mu sync.Mutex
	gated, finished, maxGated := 0, 0, 0
	open := make(chan struct{})
	s.fs3.gate = func(op string, pn int32) {
		if op != "UploadPart" && op != "AbortMultipartUpload" {
			return
		}
		select {
		case <-open: // the gate is open: a request served after the overlapping ones were released
			return
		default:
		}
		mu.Lock()
		gated++
		if gated > maxGated {
			maxGated = gated
		}
		mu.Unlock()
		<-open
	}
	defer func() { s.fs3.gate = nil }()
	id := s.sessID
	if id == "" {
		id = "no-such-session"
	}
	codes := make([]int, k)
	recs := make([]*httptest.ResponseRecorder, k)
	completeAt := -1
	var wg sync.WaitGroup
	for i, rq := range reqs {
		g := strings.Split(rq, ":")
		var req *http.Request
		switch {
		case strings.HasPrefix(rq, "complete/"):
			// complete/<list>/<s3Fails>/<broker>: at most one per par (the scripted broker has one mode)
			c := strings.SplitN(rq, "/", 4)
			if len(c) != 4 || completeAt >= 0 {
				continue
			}
			completeAt = i
			s.setBroker(c[3])
			req = httptest.NewRequest(http.MethodPost, "/lfs/uploads/"+id+"/complete", bytes.NewReader(s.completeBody(c[1])))
			if c[2] == "1" {
				req = req.WithContext(verifC3xWithScript(context.Background(), []*verifC3xFault{{op: "CompleteMultipartUpload", once: true}}))
			}
		case g[0] == "part":
			n, _ := strconv.Atoi(g[1])
			ln, _ := strconv.Atoi(g[2])
			fill, _ := strconv.Atoi(g[3])
			req = httptest.NewRequest(http.MethodPut, fmt.Sprintf("/lfs/uploads/%s/parts/%d", id, n), bytes.NewReader(verifC32Fill(ln, byte(fill))))
			if g[4] == "1" {
				req = req.WithContext(verifC3xWithScript(context.Background(), []*verifC3xFault{{op: "UploadPart", once: true}}))
			}
		default:
			req = httptest.NewRequest(http.MethodDelete, "/lfs/uploads/"+id, nil)
		}
		recs[i] = httptest.NewRecorder()
		wg.Add(1)
		go func(i int, req *http.Request) {
			defer wg.Done()
			defer func() {
				if r := recover(); r != nil {
					codes[i] = -1
				}
				mu.Lock()
				finished++
				mu.Unlock()
			}()
			s.m.handleHTTPUploadSession(recs[i], req)
			codes[i] = recs[i].Code
		}(i, req)
		deadline := time.Now().Add(10 * time.Second)
		for time.Now().Before(deadline) {
			mu.Lock()
			acc, inGate := gated+finished, gated
			mu.Unlock()
			// a handler parked on a mutex counts only while some request sits in the gate (and so may hold the
			// session lock for as long as the gate is shut); with nobody in the gate a parked handler is a
			// transient state of a request that will be answered, and the harness waits for the answer — else
			// the order of `par complete/… abort` would depend on the scheduler.
			if acc >= i+1 || (inGate > 0 && acc+verifC32MutexBlocked() >= i+1) {
				break
			}
			time.Sleep(500 * time.Microsecond)
		}
	}
	close(open)
	wg.Wait()
	sts := make([]string, k)
	for i, rq := range reqs {
		sts[i] = strconv.Itoa(codes[i])
		if strings.HasPrefix(rq, "part:") && codes[i] == http.StatusOK {
			var resp lfsUploadPartResponse
			if json.Unmarshal(recs[i].Body.Bytes(), &resp) == nil {
				n, _ := strconv.Atoi(strings.Split(rq, ":")[1])
				s.etags[n] = resp.ETag
			}
		}
	}
	if completeAt >= 0 {
		// the completion's envelope / object / broker facts, rendered like a `complete` line
		ln := s.outcome("par", recs[completeAt], s.sessKey, s.sessTail())
		ln = strings.Replace(ln, fmt.Sprintf("par status=%d ", recs[completeAt].Code), "par status="+strings.Join(sts, ",")+" ", 1)
		return ln + fmt.Sprintf(" overlap=%d", maxGated)
	}
	objS := "none"
	if s.sessKey != "" {
		if obj, ok := s.fs3.object(s.sessKey); ok {
			objS = strconv.Itoa(len(obj))
		}
	}
	return fmt.Sprintf("par status=%s env=none sha_is_obj=na produced=false%s obj=%s | overlap=%d", strings.Join(sts, ","), s.sessTail(), objS, maxGated)
}

func verifC32Main() {
	st := &verifC32State{}
	st.line([]string{"new", "0", "sha256"})
	w := bufio.NewWriter(os.Stdout)
	defer w.Flush()
	sc := bufio.NewScanner(os.Stdin)
	sc.Buffer(make([]byte, 1<<20), 1<<26)
	for sc.Scan() {
		f := strings.Fields(sc.Text())
		if len(f) == 0 || strings.HasPrefix(f[0], "#") {
			continue
		}
		fmt.Fprintln(w, st.line(f))
		w.Flush()
	}
}
