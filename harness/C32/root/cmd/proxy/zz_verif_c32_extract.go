//go:build verif

// C32 lock-region extractor (overlay into cmd/proxy, active only when VERIF_HARNESS=C32 and
// VERIF_C32_EXTRACT=<repo root>): go/ast walk over the upload-session handlers of cmd/proxy/lfs_http.go that prints,
// in source order, every event the locking argument is about — session.mu.Lock / Unlock / defer Unlock, calls of the
// S3 seam (m.s3Uploader.X), uses of the session's mutable fields, reads of the request body, deletion of the session.
// checks/C32.py turns the lines into lean/KafVerif/Gen/C32Locks.lean.
package main

import (
	"fmt"
	"go/ast"
	"go/parser"
	"go/token"
	"path/filepath"
)

var verifC32Handlers = []string{"handleHTTPUploadPart", "handleHTTPUploadComplete", "handleHTTPUploadAbort"}

// fields of uploadSession that are written after the session was published
var verifC32Mutable = map[string]bool{"Parts": true, "PartSizes": true, "TotalUploaded": true, "NextPart": true,
	"sha256Hasher": true, "checksumHasher": true, "ExpiresAt": true}

func verifC32Sel(e ast.Expr) (string, string, bool) {
	s, ok := e.(*ast.SelectorExpr)
	if !ok {
		return "", "", false
	}
	x, ok := s.X.(*ast.Ident)
	if !ok {
		return "", "", false
	}
	return x.Name, s.Sel.Name, true
}

// verifC32MuCall recognises session.mu.<Method>()
func verifC32MuCall(c *ast.CallExpr) (string, bool) {
	f, ok := c.Fun.(*ast.SelectorExpr)
	if !ok {
		return "", false
	}
	if x, sel, ok := verifC32Sel(f.X); ok && x == "session" && sel == "mu" {
		return f.Sel.Name, true
	}
	return "", false
}

func verifC32Extract(repo string) int {
	fset := token.NewFileSet()
	file, err := parser.ParseFile(fset, filepath.Join(repo, "cmd", "proxy", "lfs_http.go"), nil, 0)
	if err != nil {
		fmt.Println("error", err)
		return 1
	}
	found := 0
	for _, want := range verifC32Handlers {
		for _, d := range file.Decls {
			fn, ok := d.(*ast.FuncDecl)
			if !ok || fn.Name.Name != want || fn.Body == nil {
				continue
			}
			found++
			fmt.Println("func", want)
			skip := map[ast.Node]bool{}
			ast.Inspect(fn.Body, func(n ast.Node) bool {
				if n == nil || skip[n] {
					return !skip[n]
				}
				line := fset.Position(n.Pos()).Line
				switch v := n.(type) {
				case *ast.DeferStmt:
					if m, ok := verifC32MuCall(v.Call); ok {
						fmt.Println("ev", "defer"+m, "-", line)
						return false
					}
				case *ast.GoStmt:
					fmt.Println("ev", "go", "-", line)
				case *ast.CallExpr:
					if m, ok := verifC32MuCall(v); ok {
						fmt.Println("ev", m, "-", line) // Lock | Unlock | TryLock | …
						return false
					}
					if f, ok := v.Fun.(*ast.SelectorExpr); ok {
						if x, sel, ok := verifC32Sel(f.X); ok && x == "m" && sel == "s3Uploader" {
							// arguments first (source order of evaluation), then the call
							for _, a := range v.Args {
								ast.Inspect(a, func(an ast.Node) bool {
									if s, ok := an.(*ast.SelectorExpr); ok {
										if x, sel, ok := verifC32Sel(s); ok && x == "session" && verifC32Mutable[sel] {
											fmt.Println("ev", "use", sel, line)
										}
									}
									return true
								})
							}
							fmt.Println("ev", "s3", f.Sel.Name, line)
							return false
						}
						if x, sel, ok := verifC32Sel(f); ok && x == "m" && sel == "lfsDeleteUploadSession" {
							fmt.Println("ev", "deleteSession", "-", line)
						}
					}
				case *ast.SelectorExpr:
					if x, sel, ok := verifC32Sel(v); ok {
						if x == "session" && verifC32Mutable[sel] {
							fmt.Println("ev", "use", sel, line)
						} else if x == "r" && sel == "Body" {
							fmt.Println("ev", "body", "-", line)
						}
					}
				}
				return true
			})
		}
	}
	if found != len(verifC32Handlers) {
		fmt.Println("error handlers found:", found)
		return 1
	}
	fmt.Println("done")
	return 0
}
