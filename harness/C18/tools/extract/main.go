// Fact extractor (go/ast, standard library only) for C18 and C20.
//
//	go run main.go <repo root>      -> JSON lines on stdout, one per row
//
// Reads <root>/pkg/metadata/lease_manager.go (table "lease", type LeaseManager),
// partition_router.go (table "partition", type PartitionRouter) and group_router.go (table "group",
// type GroupRouter).  For every method of the tracked type (and every constructor that builds a
// &T{...}) which has at least one effect, it prints a control skeleton in SOURCE ORDER:
//
//	txn      m.client.Txn(..).If(..).Then(..).Else(..).Commit() with its compares and Then/Else ops
//	etcd     any other call on <self>.client[.KV|.Lease|.Watcher] (Put/Get/Delete/Watch/Grant/Revoke ...)
//	session  concurrency.NewSession(..), X.Close(), X.Orphan(), X.Revoke(..), X.Grant(..)
//	write    assignment to a field of <self> (m.owned[k] = v: target m.owned, index k; m.session = x;
//	         delete(m.owned, k): target "delete m.owned", index k; m.closed.Store(v)) or to a local that
//	         is re-assigned / index-assigned (rev, fresh) and mentioned by another row,
//	         with `locked` = the write sits inside a <self>.mu.Lock() region
//	call     call of another extracted method of <self> (go-statement: async)
//	ret      return statement (a freshly built error reads `error(..)`)
//	jump     continue / break / goto
//
// Every row carries `reads` (the re-assigned locals its guard mentions, e.g. rev) and the list of
// conditions that dominate it (`guard`): enclosing if/else/switch/
// select/for conditions plus the negation of every earlier `if c { ...; return|continue|break }`
// of the enclosing blocks.  Local variables that are defined once are replaced by their defining
// expression; results of effects are named `<Method>#<n>.<i>` (n-th effect of that name in the
// function, i-th result), so that `txnResp.Succeeded` reads `Txn#1.0.Succeeded` and a guard such as
// `m.session != session` reads `m.session == getOrCreateSession#1.0` after negation.
// Package qualifiers clientv3./concurrency. are dropped, context arguments of etcd calls too.
//
// Two further tables (C18 key injectivity, C19 AcquireAll structure):
//
//	keyexpr     the expression returned by LeaseManager.leaseKey (etcd key of a resource id) and by
//	            partitionResourceID (resource id of a topic/partition), resolved to pieces over the
//	            manager's prefix field (pfx), the string parameter (id), the int parameter (part) and
//	            literals: form "concat" (fmt.Sprintf with %s/%v/%d, +, strings.Join over a literal slice:
//	            plain concatenation), "pathjoin" (path.Join / filepath.Join: concatenation FOLLOWED BY
//	            Clean) or "other" (not resolved)
//	acquireall  the control skeleton of PartitionLeaseManager.AcquireAll in the row format above; here
//	            every local that is returned (results) is tracked, so that each store into a result
//	            slot is a `write` row, and calls <local>.Add/Done/Wait/Go (sync.WaitGroup, errgroup)
//	            are `call` rows
package main

import (
	"bytes"
	"encoding/json"
	"fmt"
	"go/ast"
	"go/parser"
	"go/printer"
	"go/token"
	"os"
	"path/filepath"
	"regexp"
	"sort"
	"strings"
)

type Cmp struct {
	Target string `json:"target"`
	Key    string `json:"key"`
	Rel    string `json:"rel"`
	Val    string `json:"val"`
}

type KOp struct {
	Kind string   `json:"kind"`
	Args []string `json:"args"`
}

type Row struct {
	Table  string   `json:"table"`
	Fn     string   `json:"fn"`
	Line   int      `json:"line"`
	Guard  []string `json:"guard"`
	Reads  []string `json:"reads"` // re-assigned locals (rev, ...) the guard reads
	Kind   string   `json:"kind"`
	Ifs    []Cmp    `json:"ifs,omitempty"`
	Then   []KOp    `json:"then,omitempty"`
	Else   []KOp    `json:"else,omitempty"`
	Method string   `json:"method,omitempty"` // etcd / session / call: method name; jump: keyword
	Recv   string   `json:"recv,omitempty"`   // session
	Args   []string `json:"args,omitempty"`
	Target string   `json:"target,omitempty"` // write: m.owned / delete m.owned / m.session / rev ...
	Index  string   `json:"index,omitempty"`  // write: the map key of an indexed store or delete
	Value  string   `json:"value,omitempty"`  // write
	Locked bool     `json:"locked,omitempty"` // write
	Async  bool     `json:"async,omitempty"`  // call
	ID     string   `json:"id,omitempty"`     // effect id  <Method>#<n>
}

var fset = token.NewFileSet()

func fail(f string, a ...interface{}) {
	fmt.Fprintf(os.Stderr, "extract: "+f+"\n", a...)
	os.Exit(2)
}

// ---------------------------------------------------------------------------------- per function

type fnWalker struct {
	table   string
	fn      string
	self    string          // receiver / constructed object
	methods map[string]bool // candidate methods of the tracked type (for call rows)
	mutable map[string]bool // locals never substituted
	env     []map[string]string
	guards  []string
	lock    int // 0 none, 1 read lock, 2 write lock
	counts  map[string]int
	rows    []Row
	effects int
	sync    bool // also record <local>.Add/Done/Wait/Go calls (table acquireall)
}

func (w *fnWalker) push() { w.env = append(w.env, map[string]string{}) }
func (w *fnWalker) pop()  { w.env = w.env[:len(w.env)-1] }
func (w *fnWalker) define(name, val string) {
	if name == "_" || name == w.self {
		return
	}
	w.env[len(w.env)-1][name] = val
}
func (w *fnWalker) lookup(name string) (string, bool) {
	for i := len(w.env) - 1; i >= 0; i-- {
		if v, ok := w.env[i][name]; ok {
			return v, true
		}
	}
	return "", false
}

func (w *fnWalker) emit(r Row, pos token.Pos) {
	r.Table, r.Fn, r.Line = w.table, w.fn, fset.Position(pos).Line
	r.Guard = append([]string{}, w.guards...)
	r.Reads = []string{}
	seen := map[string]bool{}
	for _, g := range r.Guard {
		for _, id := range identRe.FindAllString(g, -1) {
			if w.mutable[id] && !seen[id] {
				seen[id] = true
				r.Reads = append(r.Reads, id)
			}
		}
	}
	sort.Strings(r.Reads)
	switch r.Kind {
	case "txn", "etcd", "session", "call":
		w.effects++
	case "write":
		if strings.HasPrefix(r.Target, w.self+".") || strings.HasPrefix(r.Target, "delete "+w.self+".") {
			w.effects++
		}
	}
	w.rows = append(w.rows, r)
}

func (w *fnWalker) newID(method string) string {
	w.counts[method]++
	return fmt.Sprintf("%s#%d", method, w.counts[method])
}

// ---------------------------------------------------------------------------------- rendering

func raw(n ast.Node) string {
	var b bytes.Buffer
	printer.Fprint(&b, fset, n)
	return strings.Join(strings.Fields(b.String()), " ")
}

func strip(s string) string {
	s = strings.ReplaceAll(s, "clientv3.", "")
	s = strings.ReplaceAll(s, "concurrency.", "")
	return s
}

// render prints an expression with single-definition locals substituted.
func (w *fnWalker) render(e ast.Expr) string {
	switch x := e.(type) {
	case nil:
		return ""
	case *ast.Ident:
		if !w.mutable[x.Name] {
			if v, ok := w.lookup(x.Name); ok {
				return v
			}
		}
		return x.Name
	case *ast.BasicLit:
		return x.Value
	case *ast.ParenExpr:
		return "(" + w.render(x.X) + ")"
	case *ast.SelectorExpr:
		if id, ok := x.X.(*ast.Ident); ok && (id.Name == "clientv3" || id.Name == "concurrency") {
			return x.Sel.Name
		}
		return w.render(x.X) + "." + x.Sel.Name
	case *ast.StarExpr:
		return "*" + w.render(x.X)
	case *ast.UnaryExpr:
		return x.Op.String() + w.render(x.X)
	case *ast.BinaryExpr:
		return w.render(x.X) + " " + x.Op.String() + " " + w.render(x.Y)
	case *ast.IndexExpr:
		return w.render(x.X) + "[" + w.render(x.Index) + "]"
	case *ast.SliceExpr:
		s := w.render(x.X) + "[" + w.render(x.Low) + ":" + w.render(x.High)
		if x.Slice3 {
			s += ":" + w.render(x.Max)
		}
		return s + "]"
	case *ast.TypeAssertExpr:
		if x.Type == nil {
			return w.render(x.X) + ".(type)"
		}
		return w.render(x.X) + ".(" + strip(raw(x.Type)) + ")"
	case *ast.KeyValueExpr:
		return w.render(x.Key) + ": " + w.render(x.Value)
	case *ast.FuncLit:
		return "func{...}"
	case *ast.CallExpr:
		fun := w.render(x.Fun)
		args := x.Args
		if fun == "fmt.Errorf" || fun == "errors.New" {
			return "error(..)" // which message an error carries is not a fact
		}
		var as []string
		for _, a := range args {
			as = append(as, w.render(a))
		}
		return fun + "(" + strings.Join(as, ", ") + ")"
	}
	return strip(raw(e))
}

func negate(e ast.Expr, w *fnWalker) string {
	switch x := e.(type) {
	case *ast.ParenExpr:
		return negate(x.X, w)
	case *ast.UnaryExpr:
		if x.Op == token.NOT {
			return w.render(x.X)
		}
	case *ast.BinaryExpr:
		flip := map[token.Token]string{token.EQL: "!=", token.NEQ: "==", token.LSS: ">=", token.GEQ: "<", token.GTR: "<=", token.LEQ: ">"}
		if op, ok := flip[x.Op]; ok {
			return w.render(x.X) + " " + op + " " + w.render(x.Y)
		}
		return "!(" + w.render(e) + ")"
	}
	return "!" + w.render(e)
}

// ---------------------------------------------------------------------------------- call classification

type link struct {
	name string
	args []ast.Expr
}

// chain flattens a.b(x).c(y).d() into base `a` and links b(x) c(y) d().
func chain(c *ast.CallExpr) (ast.Expr, []link) {
	var links []link
	var cur ast.Expr = c
	for {
		call, ok := cur.(*ast.CallExpr)
		if !ok {
			return cur, links
		}
		sel, ok := call.Fun.(*ast.SelectorExpr)
		if !ok {
			return cur, links
		}
		links = append([]link{{sel.Sel.Name, call.Args}}, links...)
		cur = sel.X
	}
}

func (w *fnWalker) isClient(base string) bool {
	for _, suf := range []string{".client", ".client.KV", ".client.Lease", ".client.Watcher"} {
		if base == w.self+suf {
			return true
		}
	}
	return false
}

func (w *fnWalker) kops(args []ast.Expr) []KOp {
	var out []KOp
	for _, a := range args {
		if c, ok := a.(*ast.CallExpr); ok {
			k := KOp{Kind: w.render(c.Fun), Args: []string{}}
			for _, x := range c.Args {
				k.Args = append(k.Args, w.render(x))
			}
			out = append(out, k)
		} else {
			out = append(out, KOp{Kind: "?", Args: []string{w.render(a)}})
		}
	}
	return out
}

func (w *fnWalker) cmps(args []ast.Expr) []Cmp {
	var out []Cmp
	for _, a := range args {
		c, ok := a.(*ast.CallExpr)
		if ok && w.render(c.Fun) == "Compare" && len(c.Args) == 3 {
			cm := Cmp{Rel: strings.Trim(w.render(c.Args[1]), "\""), Val: w.render(c.Args[2])}
			if t, ok := c.Args[0].(*ast.CallExpr); ok && len(t.Args) == 1 {
				cm.Target, cm.Key = w.render(t.Fun), w.render(t.Args[0])
			} else {
				cm.Target, cm.Key = "?", w.render(c.Args[0])
			}
			out = append(out, cm)
		} else {
			out = append(out, Cmp{Target: "?", Key: w.render(a)})
		}
	}
	return out
}

func ctxFree(args []string) []string {
	// the first argument of an etcd client call is its context: which one (and its timeout) is not a fact
	if len(args) > 0 {
		return args[1:]
	}
	return args
}

// effect classifies one call; returns the effect id ("" when the call is not an effect) and
// whether the walker should still look inside the call's arguments.
func (w *fnWalker) effect(c *ast.CallExpr, async bool) (string, bool) {
	base, links := chain(c)
	if len(links) > 0 {
		bs := w.render(base)
		// ---- transaction chains
		for i, l := range links {
			if l.name == "Txn" && i == 0 && w.isClient(bs) {
				id := w.newID("Txn")
				r := Row{Kind: "txn", ID: id, Ifs: []Cmp{}, Then: []KOp{}, Else: []KOp{}}
				committed := false
				for _, m := range links[1:] {
					switch m.name {
					case "If":
						r.Ifs = append(r.Ifs, w.cmps(m.args)...)
					case "Then":
						r.Then = append(r.Then, w.kops(m.args)...)
					case "Else":
						r.Else = append(r.Else, w.kops(m.args)...)
					case "Commit":
						committed = true
					default:
						r.Else = append(r.Else, KOp{Kind: "?" + m.name, Args: []string{}})
					}
				}
				if !committed {
					r.Then = append(r.Then, KOp{Kind: "NOT-COMMITTED", Args: []string{}})
				}
				w.emit(r, c.Pos())
				return id, false
			}
		}
		last := links[len(links)-1]
		var args []string
		for _, a := range last.args {
			args = append(args, w.render(a))
		}
		if args == nil {
			args = []string{}
		}
		if len(links) == 1 {
			// ---- plain etcd call
			if w.isClient(bs) {
				id := w.newID(last.name)
				w.emit(Row{Kind: "etcd", ID: id, Method: last.name, Args: ctxFree(args)}, c.Pos())
				return id, false
			}
			// ---- mutex
			if bs == w.self+".mu" {
				switch last.name {
				case "Lock":
					w.lock = 2
				case "RLock":
					w.lock = 1
				case "Unlock", "RUnlock":
					w.lock = 0
				}
				return "", false
			}
			// ---- atomic field store
			if strings.HasPrefix(bs, w.self+".") && last.name == "Store" && len(args) == 1 {
				w.emit(Row{Kind: "write", Target: bs, Value: args[0], Locked: w.lock == 2}, c.Pos())
				return "", false
			}
			// ---- session life cycle
			if bs == "concurrency" && last.name == "NewSession" {
				id := w.newID("NewSession")
				w.emit(Row{Kind: "session", ID: id, Method: "NewSession", Recv: "", Args: args}, c.Pos())
				return id, false
			}
			switch last.name {
			case "Close", "Orphan", "Revoke", "Grant", "KeepAlive", "KeepAliveOnce":
				id := w.newID(last.name)
				w.emit(Row{Kind: "session", ID: id, Method: last.name, Recv: bs, Args: args}, c.Pos())
				return id, false
			case "If", "Then", "Else", "Commit":
				// a transaction built in pieces: not the shape the model assumes
				id := w.newID(last.name)
				w.emit(Row{Kind: "etcd", ID: id, Method: "." + last.name, Args: append([]string{bs}, args...)}, c.Pos())
				return id, false
			}
			// ---- join protocol of a fan-out (table acquireall only)
			if _, isLocal := base.(*ast.Ident); isLocal && w.sync && bs != w.self {
				switch last.name {
				case "Add", "Done", "Wait", "Go":
					id := w.newID(bs + "." + last.name)
					w.emit(Row{Kind: "call", ID: id, Method: bs + "." + last.name, Args: args, Async: async}, c.Pos())
					return id, last.name == "Go"
				}
			}
			// ---- call of another method of the tracked type
			if bs == w.self && w.methods[last.name] {
				id := w.newID(last.name)
				w.emit(Row{Kind: "call", ID: id, Method: last.name, Args: args, Async: async}, c.Pos())
				return id, false
			}
		}
	}
	if id, ok := c.Fun.(*ast.Ident); ok && id.Name == "delete" && len(c.Args) == 2 {
		t := w.render(c.Args[0])
		if strings.HasPrefix(t, w.self+".") || w.mutable[t] {
			w.emit(Row{Kind: "write", Target: "delete " + t, Index: w.render(c.Args[1]), Value: "", Locked: w.lock == 2}, c.Pos())
			return "", false
		}
	}
	return "", true
}

// exprEffects finds the effects inside an expression, in source order.  Returns the id of the
// effect when the expression IS one effect call (so that its results can be named).
func (w *fnWalker) exprEffects(e ast.Expr, async bool) string {
	if e == nil {
		return ""
	}
	if c, ok := e.(*ast.CallExpr); ok {
		id, descend := w.effect(c, async)
		if !descend {
			return id
		}
	}
	ast.Inspect(e, func(n ast.Node) bool {
		switch x := n.(type) {
		case *ast.FuncLit:
			w.guards = append(w.guards, "in func literal")
			w.push()
			w.block(x.Body.List)
			w.pop()
			w.guards = w.guards[:len(w.guards)-1]
			return false
		case *ast.CallExpr:
			if n == ast.Node(e) {
				return true
			}
			_, descend := w.effect(x, false)
			return descend
		}
		return true
	})
	return ""
}

// ---------------------------------------------------------------------------------- statements

func terminates(s ast.Stmt) bool {
	switch x := s.(type) {
	case *ast.ReturnStmt:
		return true
	case *ast.BranchStmt:
		return x.Tok != token.FALLTHROUGH
	case *ast.BlockStmt:
		return len(x.List) > 0 && terminates(x.List[len(x.List)-1])
	case *ast.IfStmt:
		return x.Else != nil && terminates(x.Body) && terminates(x.Else)
	case *ast.ExprStmt:
		if c, ok := x.X.(*ast.CallExpr); ok {
			if id, ok := c.Fun.(*ast.Ident); ok && id.Name == "panic" {
				return true
			}
		}
	case *ast.SelectStmt:
		for _, cl := range x.Body.List {
			cc := cl.(*ast.CommClause)
			if len(cc.Body) == 0 || !terminates(cc.Body[len(cc.Body)-1]) {
				return false
			}
		}
		return true
	}
	return false
}

func (w *fnWalker) assign(s *ast.AssignStmt) {
	// effects of the right-hand sides first (source order: evaluated before the store)
	ids := make([]string, len(s.Rhs))
	for i, r := range s.Rhs {
		ids[i] = w.exprEffects(r, false)
	}
	for i, l := range s.Lhs {
		var val string
		if len(s.Rhs) == len(s.Lhs) {
			if ids[i] != "" {
				val = ids[i] + ".0"
			} else {
				val = w.render(s.Rhs[i])
				if se, ok := s.Rhs[i].(*ast.SelectorExpr); ok && s.Tok == token.DEFINE {
					if id, ok := se.X.(*ast.Ident); ok && id.Name == w.self {
						val = "old(" + val + ")" // a snapshot of a field that may be overwritten afterwards
					}
				}
			}
		} else { // a, b := f()
			if ids[0] != "" {
				val = fmt.Sprintf("%s.%d", ids[0], i)
			} else {
				val = fmt.Sprintf("%s.%d", w.render(s.Rhs[0]), i)
			}
		}
		switch t := l.(type) {
		case *ast.Ident:
			if t.Name == "_" {
				continue
			}
			if w.mutable[t.Name] {
				w.emit(Row{Kind: "write", Target: t.Name, Value: val, Locked: w.lock == 2}, s.Pos())
			} else {
				w.define(t.Name, val)
			}
		default:
			tt, idx := w.render(l), ""
			if ie, ok := l.(*ast.IndexExpr); ok {
				tt, idx = w.render(ie.X), w.render(ie.Index)
			}
			root := tt
			if j := strings.IndexAny(root, ".["); j >= 0 {
				root = root[:j]
			}
			if root == w.self || w.mutable[root] {
				w.emit(Row{Kind: "write", Target: tt, Index: idx, Value: val, Locked: w.lock == 2}, s.Pos())
			}
		}
	}
}

func (w *fnWalker) withGuard(g string, f func()) {
	w.guards = append(w.guards, g)
	w.push()
	f()
	w.pop()
	w.guards = w.guards[:len(w.guards)-1]
}

func mergeLock(states []int) int {
	if len(states) == 0 {
		return 0
	}
	for _, s := range states[1:] {
		if s != states[0] {
			return 0
		}
	}
	return states[0]
}

// block walks statements; an `if c { ...terminates }` adds !c to the guards of the rest of the block.
func (w *fnWalker) block(list []ast.Stmt) {
	added := 0
	for _, s := range list {
		added += w.stmt(s)
	}
	w.guards = w.guards[:len(w.guards)-added]
}

// stmt returns how many persistent guards it pushed for the remainder of the enclosing block.
func (w *fnWalker) stmt(s ast.Stmt) int {
	switch x := s.(type) {
	case *ast.AssignStmt:
		w.assign(x)
	case *ast.DeclStmt:
		if gd, ok := x.Decl.(*ast.GenDecl); ok {
			for _, sp := range gd.Specs {
				if vs, ok := sp.(*ast.ValueSpec); ok {
					for i, n := range vs.Names {
						if i < len(vs.Values) {
							id := w.exprEffects(vs.Values[i], false)
							val := w.render(vs.Values[i])
							if id != "" {
								val = id + ".0"
							}
							if w.mutable[n.Name] {
								w.emit(Row{Kind: "write", Target: n.Name, Value: val, Locked: w.lock == 2}, x.Pos())
							} else {
								w.define(n.Name, val)
							}
						}
					}
				}
			}
		}
	case *ast.ExprStmt:
		w.exprEffects(x.X, false)
	case *ast.GoStmt:
		w.exprEffects(x.Call, true)
	case *ast.DeferStmt:
		// deferred unlocks keep the region locked to the end; other deferred calls (cancel) are no facts
		if c := x.Call; c != nil {
			base, links := chain(c)
			if len(links) == 1 && w.render(base) == w.self+".mu" {
				return 0
			}
			w.withGuard("deferred", func() { w.exprEffects(c, false) })
		}
	case *ast.IncDecStmt:
		t := w.render(x.X)
		root := t
		if j := strings.IndexAny(root, ".["); j >= 0 {
			root = root[:j]
		}
		if root == w.self || w.mutable[root] {
			w.emit(Row{Kind: "write", Target: t, Value: t + " " + x.Tok.String(), Locked: w.lock == 2}, x.Pos())
		}
	case *ast.ReturnStmt:
		vals := []string{}
		for _, r := range x.Results {
			id := w.exprEffects(r, false)
			if id != "" {
				vals = append(vals, id)
			} else {
				vals = append(vals, w.render(r))
			}
		}
		w.emit(Row{Kind: "ret", Args: vals}, x.Pos())
	case *ast.BranchStmt:
		w.emit(Row{Kind: "jump", Method: x.Tok.String()}, x.Pos())
	case *ast.BlockStmt:
		w.push()
		w.block(x.List)
		w.pop()
	case *ast.LabeledStmt:
		return w.stmt(x.Stmt)
	case *ast.IfStmt:
		w.push() // scope of the init statement
		pushed := 0
		if x.Init != nil {
			w.stmt(x.Init)
		}
		w.exprEffects(x.Cond, false)
		pos, neg := w.render(x.Cond), negate(x.Cond, w)
		before := w.lock
		var ends []int
		w.withGuard(pos, func() { w.block(x.Body.List) })
		bodyTerm := terminates(x.Body)
		if !bodyTerm {
			ends = append(ends, w.lock)
		}
		elseTerm := false
		if x.Else != nil {
			w.lock = before
			w.withGuard(neg, func() { w.stmt(x.Else) })
			elseTerm = terminates(x.Else)
			if !elseTerm {
				ends = append(ends, w.lock)
			}
		} else {
			ends = append(ends, before)
		}
		w.lock = mergeLock(ends)
		// the init scope ends here, but the guard text has already been rendered with it
		w.pop()
		if bodyTerm && !elseTerm {
			w.guards = append(w.guards, neg)
			pushed = 1
		} else if elseTerm && !bodyTerm {
			w.guards = append(w.guards, pos)
			pushed = 1
		}
		return pushed
	case *ast.ForStmt:
		w.push()
		if x.Init != nil {
			w.stmt(x.Init)
		}
		g := "for"
		if x.Cond != nil {
			w.exprEffects(x.Cond, false)
			g = "for " + w.render(x.Cond)
		}
		w.withGuard(g, func() {
			w.block(x.Body.List)
			if x.Post != nil {
				w.stmt(x.Post)
			}
		})
		w.pop()
	case *ast.RangeStmt:
		id := w.exprEffects(x.X, false)
		src := w.render(x.X)
		if id != "" {
			src = id + ".0"
		}
		g := "range " + src
		vars := []string{}
		for _, v := range []ast.Expr{x.Key, x.Value} {
			if v == nil {
				vars = append(vars, "_")
			} else {
				vars = append(vars, raw(v))
			}
		}
		if x.Value == nil {
			vars = vars[:1]
		}
		g = "for " + strings.Join(vars, ", ") + " := " + g
		w.withGuard(g, func() {
			// range variables keep their names (the loop guard says what they range over)
			for _, v := range []ast.Expr{x.Key, x.Value} {
				if idn, ok := v.(*ast.Ident); ok && idn.Name != "_" {
					w.define(idn.Name, idn.Name)
				}
			}
			w.block(x.Body.List)
		})
	case *ast.SwitchStmt:
		w.push()
		if x.Init != nil {
			w.stmt(x.Init)
		}
		tag := ""
		if x.Tag != nil {
			w.exprEffects(x.Tag, false)
			tag = w.render(x.Tag)
		}
		before := w.lock
		var ends []int
		hasDefault := false
		for _, cl := range x.Body.List {
			cc := cl.(*ast.CaseClause)
			var g string
			if cc.List == nil {
				g = "default(" + tag + ")"
				hasDefault = true
			} else {
				var alts []string
				for _, e := range cc.List {
					if tag != "" {
						alts = append(alts, tag+" == "+w.render(e))
					} else {
						alts = append(alts, w.render(e))
					}
				}
				g = strings.Join(alts, " || ")
			}
			w.lock = before
			w.withGuard(g, func() { w.block(cc.Body) })
			if len(cc.Body) == 0 || !terminates(cc.Body[len(cc.Body)-1]) {
				ends = append(ends, w.lock)
			}
		}
		if !hasDefault {
			ends = append(ends, before)
		}
		w.lock = mergeLock(ends)
		w.pop()
	case *ast.TypeSwitchStmt:
		w.withGuard("typeswitch "+strip(raw(x.Assign)), func() {
			for _, cl := range x.Body.List {
				cc := cl.(*ast.CaseClause)
				w.withGuard("case "+strip(raw(cc)), func() { w.block(cc.Body) })
			}
		})
	case *ast.SelectStmt:
		before := w.lock
		var ends []int
		for _, cl := range x.Body.List {
			cc := cl.(*ast.CommClause)
			g := "select-default"
			if cc.Comm != nil {
				switch c := cc.Comm.(type) {
				case *ast.ExprStmt:
					g = "select " + w.render(c.X)
				case *ast.AssignStmt:
					g = "select " + w.render(c.Rhs[0])
				case *ast.SendStmt:
					g = "select " + w.render(c.Chan) + " <- " + w.render(c.Value)
				}
			}
			w.lock = before
			w.withGuard(g, func() {
				if a, ok := cc.Comm.(*ast.AssignStmt); ok {
					for _, l := range a.Lhs {
						if idn, ok := l.(*ast.Ident); ok {
							w.define(idn.Name, idn.Name)
						}
					}
				}
				w.block(cc.Body)
			})
			if len(cc.Body) == 0 || !terminates(cc.Body[len(cc.Body)-1]) {
				ends = append(ends, w.lock)
			}
		}
		w.lock = mergeLock(ends)
	case *ast.SendStmt:
		w.exprEffects(x.Value, false)
	}
	return 0
}

// ---------------------------------------------------------------------------------- driver

func recvType(fd *ast.FuncDecl) (string, string) {
	if fd.Recv == nil || len(fd.Recv.List) != 1 {
		return "", ""
	}
	f := fd.Recv.List[0]
	t := f.Type
	if st, ok := t.(*ast.StarExpr); ok {
		t = st.X
	}
	id, ok := t.(*ast.Ident)
	if !ok {
		return "", ""
	}
	name := "_"
	if len(f.Names) == 1 {
		name = f.Names[0].Name
	}
	return id.Name, name
}

// constructed returns the local that holds &T{...} in a plain function.
func constructed(fd *ast.FuncDecl, typ string) string {
	self := ""
	ast.Inspect(fd.Body, func(n ast.Node) bool {
		as, ok := n.(*ast.AssignStmt)
		if !ok || len(as.Lhs) != 1 || len(as.Rhs) != 1 {
			return true
		}
		u, ok := as.Rhs[0].(*ast.UnaryExpr)
		if !ok || u.Op != token.AND {
			return true
		}
		cl, ok := u.X.(*ast.CompositeLit)
		if !ok {
			return true
		}
		if id, ok := cl.Type.(*ast.Ident); ok && id.Name == typ {
			if l, ok := as.Lhs[0].(*ast.Ident); ok && self == "" {
				self = l.Name
			}
		}
		return true
	})
	return self
}

// mutables: locals assigned with `=`, inc/dec'ed or index-assigned, and parameters assigned with `=`.
func mutables(fd *ast.FuncDecl) map[string]bool {
	m := map[string]bool{}
	ast.Inspect(fd.Body, func(n ast.Node) bool {
		switch x := n.(type) {
		case *ast.AssignStmt:
			for _, l := range x.Lhs {
				switch t := l.(type) {
				case *ast.Ident:
					if x.Tok != token.DEFINE && t.Name != "_" {
						m[t.Name] = true
					}
				case *ast.IndexExpr:
					if id, ok := t.X.(*ast.Ident); ok {
						m[id.Name] = true
					}
				}
			}
		case *ast.IncDecStmt:
			if id, ok := x.X.(*ast.Ident); ok {
				m[id.Name] = true
			}
		}
		return true
	})
	// `err` is re-declared and re-assigned all over idiomatic Go; it is tracked flow-sensitively instead
	delete(m, "err")
	return m
}

func extractFile(path, table, typ string) []Row {
	f, err := parser.ParseFile(fset, path, nil, 0)
	if err != nil {
		fail("%v", err)
	}
	methods := map[string]bool{}
	var decls []*ast.FuncDecl
	selfOf := map[*ast.FuncDecl]string{}
	for _, d := range f.Decls {
		fd, ok := d.(*ast.FuncDecl)
		if !ok || fd.Body == nil {
			continue
		}
		t, name := recvType(fd)
		if t == typ {
			methods[fd.Name.Name] = true
			decls = append(decls, fd)
			selfOf[fd] = name
		} else if fd.Recv == nil {
			if s := constructed(fd, typ); s != "" {
				decls = append(decls, fd)
				selfOf[fd] = s
			}
		}
	}
	if len(decls) == 0 {
		fail("no method of %s found in %s", typ, path)
	}
	// Phase 1: which methods have effects (directly, or through another method of the type)?  Pure
	// helpers such as leaseKey() stay ordinary expressions.
	direct := map[string]bool{}
	calls := map[string][]string{}
	for _, fd := range decls {
		w := &fnWalker{table: table, fn: fd.Name.Name, self: selfOf[fd], methods: methods, mutable: mutables(fd), counts: map[string]int{}}
		w.push()
		w.block(fd.Body.List)
		for _, r := range w.rows {
			switch r.Kind {
			case "call":
				calls[fd.Name.Name] = append(calls[fd.Name.Name], r.Method)
			case "txn", "etcd", "session":
				direct[fd.Name.Name] = true
			case "write":
				if strings.HasPrefix(r.Target, w.self+".") || strings.HasPrefix(r.Target, "delete "+w.self+".") {
					direct[fd.Name.Name] = true
				}
			}
		}
	}
	for changed := true; changed; {
		changed = false
		for f, cs := range calls {
			for _, c := range cs {
				if direct[c] && !direct[f] {
					direct[f] = true
					changed = true
				}
			}
		}
	}
	effectful := map[string]bool{}
	for m := range methods {
		if direct[m] {
			effectful[m] = true
		}
	}
	// Phase 2: the rows.
	var out []Row
	for _, fd := range decls {
		w := &fnWalker{table: table, fn: fd.Name.Name, self: selfOf[fd], methods: effectful, mutable: mutables(fd), counts: map[string]int{}}
		w.push()
		w.block(fd.Body.List)
		if w.effects > 0 {
			out = append(out, relevant(w)...)
		}
	}
	return out
}

var identRe = regexp.MustCompile(`[A-Za-z_][A-Za-z0-9_]*`)

func localRoot(w *fnWalker, r Row) string {
	if r.Kind != "write" {
		return ""
	}
	t := strings.TrimPrefix(r.Target, "delete ")
	if j := strings.IndexAny(t, ".["); j >= 0 {
		t = t[:j]
	}
	if t == w.self {
		return ""
	}
	return t
}

// relevant drops writes to re-assigned locals that no other row mentions (logger = slog.Default() ...).
func relevant(w *fnWalker) []Row {
	mentioned := map[string]bool{}
	for _, r := range w.rows {
		root := localRoot(w, r)
		texts := append([]string{}, r.Guard...)
		texts = append(texts, r.Args...)
		texts = append(texts, r.Recv, r.Value)
		if root == "" {
			texts = append(texts, r.Target)
		}
		for _, c := range r.Ifs {
			texts = append(texts, c.Key, c.Val)
		}
		for _, o := range append(append([]KOp{}, r.Then...), r.Else...) {
			texts = append(texts, o.Args...)
		}
		for _, t := range texts {
			for _, id := range identRe.FindAllString(t, -1) {
				if id != root {
					mentioned[id] = true
				}
			}
		}
	}
	var out []Row
	for _, r := range w.rows {
		if root := localRoot(w, r); root != "" && !mentioned[root] {
			continue
		}
		out = append(out, r)
	}
	return out
}


// ---------------------------------------------------------------------------------- one function, every local result tracked

// extractFunc walks ONE method of `typ` (table acquireall): identifiers that are returned are tracked like re-assigned
// locals (every store into them is a `write` row) and the join protocol of a fan-out is recorded (fnWalker.sync).
func extractFunc(path, table, typ, fn string) []Row {
	f, err := parser.ParseFile(fset, path, nil, 0)
	if err != nil {
		fail("%v", err)
	}
	methods := map[string]bool{}
	var target *ast.FuncDecl
	self := ""
	for _, d := range f.Decls {
		fd, ok := d.(*ast.FuncDecl)
		if !ok || fd.Body == nil {
			continue
		}
		if t, name := recvType(fd); t == typ {
			methods[fd.Name.Name] = true
			if fd.Name.Name == fn {
				target, self = fd, name
			}
		}
	}
	if target == nil {
		fail("method %s.%s not found in %s", typ, fn, path)
	}
	mut := mutables(target)
	ast.Inspect(target.Body, func(n ast.Node) bool {
		if r, ok := n.(*ast.ReturnStmt); ok {
			for _, e := range r.Results {
				if id, ok := e.(*ast.Ident); ok && id.Name != "nil" && id.Name != "true" && id.Name != "false" {
					mut[id.Name] = true
				}
			}
		}
		return true
	})
	// stores through a selector of an element (results[i].Err = ...) make the root a tracked local too
	ast.Inspect(target.Body, func(n ast.Node) bool {
		if as, ok := n.(*ast.AssignStmt); ok {
			for _, l := range as.Lhs {
				if se, ok := l.(*ast.SelectorExpr); ok {
					if ie, ok := se.X.(*ast.IndexExpr); ok {
						if id, ok := ie.X.(*ast.Ident); ok {
							mut[id.Name] = true
						}
					}
				}
			}
		}
		return true
	})
	w := &fnWalker{table: table, fn: fn, self: self, methods: methods, mutable: mut, counts: map[string]int{}, sync: true}
	w.push()
	w.block(target.Body.List)
	return relevant(w)
}

// ---------------------------------------------------------------------------------- key expressions

type KPiece struct {
	K string `json:"k"` // pfx | id | part | lit
	S string `json:"s,omitempty"`
}

type KeyExpr struct {
	Table  string   `json:"table"` // "keyexpr"
	Fn     string   `json:"fn"`
	Form   string   `json:"form"` // concat | pathjoin | other
	Pieces []KPiece `json:"pieces"`
	Src    string   `json:"src"`
	Why    string   `json:"why,omitempty"`
}

type keyResolver struct {
	fd     *ast.FuncDecl
	self   string
	idPar  string // the string parameter
	numPar string // the integer parameter
	why    string
	depth  int
}

func (r *keyResolver) fail(why string) []KPiece {
	if r.why == "" {
		r.why = why
	}
	return nil
}

func unquote(l *ast.BasicLit) (string, bool) {
	if l.Kind != token.STRING {
		return "", false
	}
	v := l.Value
	if len(v) >= 2 && v[0] == '`' {
		return v[1 : len(v)-1], true
	}
	var out string
	if _, err := fmt.Sscanf(v, "%q", &out); err != nil {
		return "", false
	}
	return out, true
}

// defs of a local inside the function (id := e / var id = e); nil entries = not a plain definition
func (r *keyResolver) defs(name string) []ast.Expr {
	var out []ast.Expr
	ast.Inspect(r.fd.Body, func(n ast.Node) bool {
		switch s := n.(type) {
		case *ast.AssignStmt:
			for i, l := range s.Lhs {
				if id, ok := l.(*ast.Ident); ok && id.Name == name {
					if len(s.Lhs) == len(s.Rhs) {
						out = append(out, s.Rhs[i])
					} else {
						out = append(out, nil)
					}
				}
			}
		case *ast.ValueSpec:
			for i, id := range s.Names {
				if id.Name == name {
					if i < len(s.Values) {
						out = append(out, s.Values[i])
					} else {
						out = append(out, nil)
					}
				}
			}
		}
		return true
	})
	return out
}

// operand: one operand of a format / join: (kind, literal)
func (r *keyResolver) operand(e ast.Expr) (string, string) {
	switch x := e.(type) {
	case *ast.ParenExpr:
		return r.operand(x.X)
	case *ast.Ident:
		if x.Name == r.idPar {
			return "id", ""
		}
		if x.Name == r.numPar {
			return "part", ""
		}
	case *ast.SelectorExpr:
		if id, ok := x.X.(*ast.Ident); ok && id.Name == r.self && r.self != "" && x.Sel.Name == "prefix" {
			return "pfx", ""
		}
	case *ast.BasicLit:
		if s, ok := unquote(x); ok {
			return "lit", s
		}
	case *ast.CallExpr:
		if id, ok := x.Fun.(*ast.Ident); ok && len(x.Args) == 1 {
			k, s := r.operand(x.Args[0])
			switch id.Name {
			case "int", "int32", "int64":
				if k == "part" {
					return k, s
				}
			case "string":
				if k == "id" || k == "pfx" || k == "lit" {
					return k, s
				}
			}
		}
	}
	return "", ""
}

func pkgCall(e ast.Expr, pkg, fn string) (*ast.CallExpr, bool) {
	c, ok := e.(*ast.CallExpr)
	if !ok {
		return nil, false
	}
	sel, ok := c.Fun.(*ast.SelectorExpr)
	if !ok || sel.Sel.Name != fn {
		return nil, false
	}
	id, ok := sel.X.(*ast.Ident)
	return c, ok && id.Name == pkg
}

// concat resolves an expression that is a plain concatenation of its operands.
func (r *keyResolver) concat(e ast.Expr) []KPiece {
	r.depth++
	defer func() { r.depth-- }()
	if r.depth > 8 {
		return r.fail("expression too deep")
	}
	if k, s := r.operand(e); k != "" && k != "part" {
		return []KPiece{{K: k, S: s}}
	}
	switch x := e.(type) {
	case *ast.ParenExpr:
		return r.concat(x.X)
	case *ast.BinaryExpr:
		if x.Op != token.ADD {
			return r.fail("operator " + x.Op.String())
		}
		a := r.concat(x.X)
		b := r.concat(x.Y)
		if a == nil || b == nil {
			return nil
		}
		return append(a, b...)
	case *ast.Ident:
		ds := r.defs(x.Name)
		if len(ds) != 1 || ds[0] == nil {
			return r.fail(fmt.Sprintf("identifier %s has %d definitions", x.Name, len(ds)))
		}
		return r.concat(ds[0])
	case *ast.CallExpr:
		if c, ok := pkgCall(x, "fmt", "Sprintf"); ok {
			return r.sprintf(c)
		}
		if c, ok := pkgCall(x, "strconv", "Itoa"); ok && len(c.Args) == 1 {
			if k, _ := r.operand(c.Args[0]); k == "part" {
				return []KPiece{{K: "part"}}
			}
		}
		if c, ok := pkgCall(x, "strconv", "FormatInt"); ok && len(c.Args) == 2 && raw(c.Args[1]) == "10" {
			if k, _ := r.operand(c.Args[0]); k == "part" {
				return []KPiece{{K: "part"}}
			}
		}
		if c, ok := pkgCall(x, "strings", "Join"); ok && len(c.Args) == 2 {
			sepK, sep := r.operand(c.Args[1])
			cl, isLit := c.Args[0].(*ast.CompositeLit)
			if sepK == "lit" && isLit {
				var out []KPiece
				for i, el := range cl.Elts {
					if i > 0 {
						out = append(out, KPiece{K: "lit", S: sep})
					}
					p := r.concat(el)
					if p == nil {
						return nil
					}
					out = append(out, p...)
				}
				return out
			}
		}
		return r.fail("call " + raw(x.Fun))
	}
	return r.fail(fmt.Sprintf("%T", e))
}

func (r *keyResolver) sprintf(c *ast.CallExpr) []KPiece {
	if len(c.Args) == 0 {
		return r.fail("Sprintf without format")
	}
	k, f := r.operand(c.Args[0])
	if k != "lit" {
		return r.fail("Sprintf format is not a string literal")
	}
	args := c.Args[1:]
	var out []KPiece
	lit := ""
	flush := func() {
		if lit != "" {
			out = append(out, KPiece{K: "lit", S: lit})
			lit = ""
		}
	}
	for i := 0; i < len(f); i++ {
		if f[i] != '%' {
			lit += string(f[i])
			continue
		}
		if i+1 >= len(f) {
			return r.fail("format ends in %")
		}
		i++
		v := f[i]
		if v == '%' {
			lit += "%"
			continue
		}
		if len(args) == 0 {
			return r.fail("format has more verbs than operands")
		}
		ak, as := r.operand(args[0])
		args = args[1:]
		switch {
		case (v == 's' || v == 'v') && (ak == "id" || ak == "pfx"):
			flush()
			out = append(out, KPiece{K: ak})
		case (v == 'd' || v == 'v') && ak == "part":
			flush()
			out = append(out, KPiece{K: "part"})
		case (v == 's' || v == 'v') && ak == "lit":
			lit += as
		default:
			return r.fail(fmt.Sprintf("verb %%%c with operand kind %q", v, ak))
		}
	}
	if len(args) != 0 {
		return r.fail("format has fewer verbs than operands")
	}
	flush()
	return out
}

func normPieces(ps []KPiece) []KPiece {
	out := []KPiece{}
	for _, p := range ps {
		if p.K == "lit" && p.S == "" {
			continue
		}
		if p.K == "lit" && len(out) > 0 && out[len(out)-1].K == "lit" {
			out[len(out)-1].S += p.S
			continue
		}
		out = append(out, p)
	}
	return out
}

// keyExpr resolves the single returned expression of function `fn` (receiver type `typ`, "" = plain function).
func keyExpr(path, typ, fn string) KeyExpr {
	out := KeyExpr{Table: "keyexpr", Fn: fn, Form: "other", Pieces: []KPiece{}}
	f, err := parser.ParseFile(fset, path, nil, 0)
	if err != nil {
		fail("%v", err)
	}
	var fd *ast.FuncDecl
	self := ""
	for _, d := range f.Decls {
		x, ok := d.(*ast.FuncDecl)
		if !ok || x.Body == nil || x.Name.Name != fn {
			continue
		}
		t, name := recvType(x)
		if t == typ {
			fd, self = x, name
		}
	}
	if fd == nil {
		out.Why = "function not found"
		return out
	}
	r := &keyResolver{fd: fd, self: self}
	if fd.Type.Params != nil {
		for _, p := range fd.Type.Params.List {
			t := raw(p.Type)
			for _, nm := range p.Names {
				if t == "string" && r.idPar == "" {
					r.idPar = nm.Name
				}
				if (t == "int32" || t == "int" || t == "int64") && r.numPar == "" {
					r.numPar = nm.Name
				}
			}
		}
	}
	var rets []*ast.ReturnStmt
	ast.Inspect(fd.Body, func(n ast.Node) bool {
		if _, ok := n.(*ast.FuncLit); ok {
			return false
		}
		if rs, ok := n.(*ast.ReturnStmt); ok {
			rets = append(rets, rs)
		}
		return true
	})
	if len(rets) != 1 || len(rets[0].Results) != 1 {
		out.Why = fmt.Sprintf("%d return statements", len(rets))
		out.Src = raw(fd.Body)
		return out
	}
	e := rets[0].Results[0]
	out.Src = raw(e)
	if id, ok := e.(*ast.Ident); ok {
		if ds := r.defs(id.Name); len(ds) == 1 && ds[0] != nil {
			e = ds[0]
			out.Src = id.Name + " := " + raw(e)
		}
	}
	for _, pk := range []string{"path", "filepath"} {
		if c, ok := pkgCall(e, pk, "Join"); ok {
			var ps []KPiece
			for _, a := range c.Args {
				p := r.concat(a)
				if p == nil || len(normPieces(p)) != 1 {
					out.Why = "path.Join operand not resolved: " + raw(a) + " " + r.why
					return out
				}
				ps = append(ps, normPieces(p)[0])
			}
			out.Form, out.Pieces = "pathjoin", ps
			return out
		}
	}
	ps := r.concat(e)
	if ps == nil || r.why != "" {
		out.Why = r.why
		return out
	}
	out.Form, out.Pieces = "concat", normPieces(ps)
	return out
}

func main() {
	if len(os.Args) != 2 {
		fail("usage: extract <repo root>")
	}
	dir := filepath.Join(os.Args[1], "pkg", "metadata")
	var rows []Row
	rows = append(rows, extractFile(filepath.Join(dir, "lease_manager.go"), "lease", "LeaseManager")...)
	rows = append(rows, extractFile(filepath.Join(dir, "partition_router.go"), "partition", "PartitionRouter")...)
	rows = append(rows, extractFile(filepath.Join(dir, "group_router.go"), "group", "GroupRouter")...)
	rows = append(rows, extractFunc(filepath.Join(dir, "partition_lease.go"), "acquireall", "PartitionLeaseManager", "AcquireAll")...)
	enc := json.NewEncoder(os.Stdout)
	enc.SetEscapeHTML(false)
	for _, r := range rows {
		if r.Guard == nil {
			r.Guard = []string{}
		}
		if err := enc.Encode(r); err != nil {
			fail("%v", err)
		}
	}
	for _, k := range []KeyExpr{
		keyExpr(filepath.Join(dir, "lease_manager.go"), "LeaseManager", "leaseKey"),
		keyExpr(filepath.Join(dir, "partition_lease.go"), "", "partitionResourceID"),
	} {
		if err := enc.Encode(k); err != nil {
			fail("%v", err)
		}
	}
}
