//go:build verif

// C18 correspondence harness: real PartitionLeaseManager / GroupLeaseManager instances over an
// embedded etcd.  Every manager gets a clientv3.Client whose KV and Lease are gating interposers,
// so each API call (Acquire / Release / ReleaseAll) runs in its own goroutine and is advanced one
// etcd operation at a time by the schedule on stdin.  One canonical observation line per op, same
// format as lean/Driver/C18.lean.
package main

import (
	"bufio"
	"bytes"
	"context"
	"errors"
	"fmt"
	"io"
	"log/slog"
	"net/url"
	"os"
	"runtime"
	"sort"
	"strconv"
	"strings"
	"sync"
	"time"

	clientv3 "go.etcd.io/etcd/client/v3"
	"go.etcd.io/etcd/server/v3/embed"
	"go.uber.org/zap"

	"github.com/KafScale/platform/pkg/metadata"
)

// ---------------------------------------------------------------- threads and gates

type gateInfo struct {
	op    string // grant | revoke | txn | delete
	phase string // pre | post
}

type thread struct {
	kind     string // acq | rel | relall
	b, r     int
	inc      *incarnation
	arrived  chan gateInfo
	resume   chan bool
	done     chan string
	at       *gateInfo
	finished bool
	res      string
	gated    int              // number of gates passed (rel / relall gate only their first etcd write)
	granted  clientv3.LeaseID // lease this call was granted and has not yet published as session
}

var (
	errKilled = errors.New("verif: call aborted by schedule")
	thrMu     sync.Mutex
	thrByGoid = map[int64]*thread{}
)

func goid() int64 {
	var buf [64]byte
	n := runtime.Stack(buf[:], false)
	f := bytes.Fields(buf[:n])
	id, _ := strconv.ParseInt(string(f[1]), 10, 64)
	return id
}

func curThread() *thread {
	thrMu.Lock()
	defer thrMu.Unlock()
	return thrByGoid[goid()]
}

// gate blocks the calling API goroutine until the schedule advances it.
func gate(op, phase string) error {
	t := curThread()
	if t == nil {
		return nil
	}
	switch t.kind {
	case "acq":
		if op != "grant" && op != "txn" {
			return nil // e.g. the Revoke of a private, never-published session
		}
	case "rel":
		if !(op == "delete" || op == "txn") || phase != "pre" || t.gated > 0 {
			return nil
		}
	case "relall":
		if op != "revoke" || phase != "pre" || t.gated > 0 {
			return nil
		}
	}
	t.gated++
	t.arrived <- gateInfo{op, phase}
	if ok := <-t.resume; !ok {
		return errKilled
	}
	return nil
}

func wait(t *thread) {
	select {
	case g := <-t.arrived:
		t.at = &g
	case res := <-t.done:
		t.finished = true
		t.at = nil
		t.res = res
	case <-time.After(15 * time.Second):
		t.finished = true
		t.res = "hang"
	}
}

func start(t *thread, fn func() string) {
	t.arrived = make(chan gateInfo)
	t.resume = make(chan bool)
	t.done = make(chan string, 1)
	go func() {
		id := goid()
		thrMu.Lock()
		thrByGoid[id] = t
		thrMu.Unlock()
		res := "panic"
		defer func() {
			if r := recover(); r != nil {
				res = "panic"
			}
			thrMu.Lock()
			delete(thrByGoid, id)
			thrMu.Unlock()
			t.done <- res
		}()
		res = fn()
	}()
	wait(t)
}

func advance(t *thread) {
	if t.finished {
		return
	}
	t.resume <- true
	wait(t)
}

func kill(t *thread) {
	if t.finished {
		return
	}
	t.resume <- false
	for !t.finished { // a killed call may still reach further gates on its error path
		wait(t)
		if !t.finished {
			t.resume <- false
		}
	}
}

// ---------------------------------------------------------------- interposers

type world struct {
	admin     *clientv3.Client
	mu        sync.Mutex
	leaseName map[clientv3.LeaseID]int
	nextLease int
}

type gateKV struct {
	clientv3.KV
	w *world
}

func (k *gateKV) Delete(ctx context.Context, key string, opts ...clientv3.OpOption) (*clientv3.DeleteResponse, error) {
	if err := gate("delete", "pre"); err != nil {
		return nil, err
	}
	resp, err := k.KV.Delete(context.Background(), key, opts...)
	if gerr := gate("delete", "post"); gerr != nil {
		return nil, gerr
	}
	return resp, err
}

func (k *gateKV) Txn(ctx context.Context) clientv3.Txn {
	// the code's 5 s per-op timeouts must not fire while a call is parked at a gate
	return &gateTxn{Txn: k.KV.Txn(context.Background())}
}

type gateTxn struct{ clientv3.Txn }

func (t *gateTxn) If(cs ...clientv3.Cmp) clientv3.Txn   { t.Txn = t.Txn.If(cs...); return t }
func (t *gateTxn) Then(ops ...clientv3.Op) clientv3.Txn { t.Txn = t.Txn.Then(ops...); return t }
func (t *gateTxn) Else(ops ...clientv3.Op) clientv3.Txn { t.Txn = t.Txn.Else(ops...); return t }
func (t *gateTxn) Commit() (*clientv3.TxnResponse, error) {
	if err := gate("txn", "pre"); err != nil {
		return nil, err
	}
	resp, err := t.Txn.Commit()
	if gerr := gate("txn", "post"); gerr != nil {
		return nil, gerr
	}
	return resp, err
}

type gateLease struct {
	clientv3.Lease
	w   *world
	inc *incarnation
}

func (l *gateLease) Grant(ctx context.Context, ttl int64) (*clientv3.LeaseGrantResponse, error) {
	if err := gate("grant", "pre"); err != nil {
		return nil, err
	}
	resp, err := l.Lease.Grant(context.Background(), ttl)
	if err == nil {
		l.w.mu.Lock()
		l.w.leaseName[resp.ID] = l.w.nextLease
		l.w.nextLease++
		l.w.mu.Unlock()
		if t := curThread(); t != nil {
			t.granted = resp.ID
		}
	}
	if gerr := gate("grant", "post"); gerr != nil {
		return nil, gerr
	}
	return resp, err
}

func (l *gateLease) Revoke(ctx context.Context, id clientv3.LeaseID) (*clientv3.LeaseRevokeResponse, error) {
	if err := gate("revoke", "pre"); err != nil {
		return nil, err
	}
	resp, err := l.Lease.Revoke(context.Background(), id)
	if gerr := gate("revoke", "post"); gerr != nil {
		return nil, gerr
	}
	return resp, err
}

// KeepAlive hands the session a channel the schedule can close ("the broker observes the loss of
// its session") without the lease being gone on the server.
func (l *gateLease) KeepAlive(ctx context.Context, id clientv3.LeaseID) (<-chan *clientv3.LeaseKeepAliveResponse, error) {
	kctx, cancel := context.WithCancel(context.Background())
	in, err := l.Lease.KeepAlive(kctx, id)
	if err != nil {
		cancel()
		return nil, err
	}
	out := make(chan *clientv3.LeaseKeepAliveResponse, 4)
	stop := make(chan struct{})
	var once sync.Once
	lose := func() { once.Do(func() { close(stop); cancel() }) }
	l.inc.mu.Lock()
	l.inc.lose[id] = lose
	l.inc.mu.Unlock()
	go func() {
		defer close(out)
		for {
			select {
			case <-stop:
				return
			case <-ctx.Done():
				cancel()
				return
			case r, ok := <-in:
				if !ok {
					return
				}
				select {
				case out <- r:
				default:
				}
			}
		}
	}()
	return out, nil
}

// ---------------------------------------------------------------- managers

type incarnation struct {
	b      int
	client *clientv3.Client
	lm     *metadata.LeaseManager
	acq    func(ctx context.Context, r int) error
	rel    func(r int)
	relAll func()
	cur    func(r int) (string, error)
	mu     sync.Mutex
	lose   map[clientv3.LeaseID]func()
}

type sched struct {
	w       *world
	kind    string // partition | group | partition-noise1|2 | group-noise1|2 (ids that differ only in path noise)
	part    []metadata.PartitionID
	grp     []string
	nb, nr  int
	mgr     []*incarnation
	acq     map[[2]int]*thread
	dels    []*thread
	revokes []*thread
	orphans []*incarnation
}

var partRes = []metadata.PartitionID{{Topic: "orders", Partition: 0}, {Topic: "orders", Partition: 1}, {Topic: "pay.v1", Partition: 7}, {Topic: "orders", Partition: 10}}
var groupRes = []string{"g0", "g1", "billing", "g10"}

// Resource ids that are DIFFERENT strings (different entries of LeaseManager.owned, different lease keys as long as the key
// is prefix + "/" + id) but that a path-cleaning key function (path.Join, path.Clean) maps to one etcd key.  Group ids are
// not validated anywhere; the lease managers take topic names as they come.
var noisePart = map[string][]metadata.PartitionID{
	"partition-noise1": {{Topic: "a/b", Partition: 0}, {Topic: "a//b", Partition: 0}, {Topic: "a/./b", Partition: 0}, {Topic: "a/b/", Partition: 0}},
	"partition-noise2": {{Topic: "", Partition: 0}, {Topic: ".", Partition: 0}, {Topic: "x/../a", Partition: 0}, {Topic: "a", Partition: 0}},
}
var noiseGroup = map[string][]string{
	"group-noise1": {"team-a/ingest", "team-a//ingest", "team-a/./ingest", "team-a/ingest/"},
	"group-noise2": {"", ".", "g", "g/"},
}

func (s *sched) isGroup() bool { return strings.HasPrefix(s.kind, "group") }

func (s *sched) resID(r int) string {
	if s.isGroup() {
		return s.grp[r]
	}
	return fmt.Sprintf("%s/%d", s.part[r].Topic, s.part[r].Partition)
}

func (s *sched) prefix() string {
	if s.isGroup() {
		return metadata.GroupLeasePrefix()
	}
	return metadata.PartitionLeasePrefix()
}

func (s *sched) newIncarnation(b int) *incarnation {
	inc := &incarnation{b: b, lose: map[clientv3.LeaseID]func(){}}
	c := clientv3.NewCtxClient(context.Background())
	c.KV = &gateKV{KV: s.w.admin.KV, w: s.w}
	c.Lease = &gateLease{Lease: s.w.admin.Lease, w: s.w, inc: inc}
	c.Watcher = s.w.admin.Watcher
	inc.client = c
	logger := slog.New(slog.NewTextHandler(io.Discard, nil))
	id := fmt.Sprintf("b%d", b)
	partRes, groupRes := s.part, s.grp
	if s.isGroup() {
		m := metadata.NewGroupLeaseManager(c, metadata.GroupLeaseConfig{BrokerID: id, LeaseTTLSeconds: 120, Logger: logger})
		inc.lm = m.VerifLM()
		inc.acq = func(ctx context.Context, r int) error { return m.Acquire(ctx, groupRes[r]) }
		inc.rel = func(r int) { m.Release(groupRes[r]) }
		inc.relAll = m.ReleaseAll
		inc.cur = func(r int) (string, error) { return m.CurrentOwner(context.Background(), groupRes[r]) }
	} else {
		m := metadata.NewPartitionLeaseManager(c, metadata.PartitionLeaseConfig{BrokerID: id, LeaseTTLSeconds: 120, Logger: logger})
		inc.lm = m.VerifLM()
		inc.acq = func(ctx context.Context, r int) error { return m.Acquire(ctx, partRes[r].Topic, partRes[r].Partition) }
		inc.rel = func(r int) { m.Release(partRes[r].Topic, partRes[r].Partition) }
		inc.relAll = m.ReleaseAll
		inc.cur = func(r int) (string, error) {
			return m.CurrentOwner(context.Background(), partRes[r].Topic, partRes[r].Partition)
		}
	}
	return inc
}

func (inc *incarnation) stopKeepAlives() {
	inc.mu.Lock()
	defer inc.mu.Unlock()
	for _, f := range inc.lose {
		f()
	}
}

func (s *sched) teardown() {
	for _, t := range s.acq {
		kill(t)
	}
	for _, t := range s.dels {
		kill(t)
	}
	for _, t := range s.revokes {
		kill(t)
	}
	for _, inc := range append(append([]*incarnation{}, s.mgr...), s.orphans...) {
		inc.stopKeepAlives()
	}
	ctx := context.Background()
	if ls, err := s.w.admin.Leases(ctx); err == nil {
		for _, l := range ls.Leases {
			_, _ = s.w.admin.Revoke(ctx, l.ID)
		}
	}
	_, _ = s.w.admin.Delete(ctx, "/kafscale/", clientv3.WithPrefix())
}

func newSched(w *world, kind string, nb, nr int) *sched {
	w.mu.Lock()
	w.leaseName = map[clientv3.LeaseID]int{}
	w.nextLease = 0
	w.mu.Unlock()
	s := &sched{w: w, kind: kind, nb: nb, nr: nr, acq: map[[2]int]*thread{}, part: partRes, grp: groupRes}
	if ps, ok := noisePart[kind]; ok {
		s.part = ps
	}
	if gs, ok := noiseGroup[kind]; ok {
		s.grp = gs
	}
	for b := 0; b < nb; b++ {
		s.mgr = append(s.mgr, s.newIncarnation(b))
	}
	return s
}

func resName(err error) string {
	switch {
	case err == nil:
		return "ok"
	case errors.Is(err, metadata.ErrNotOwner):
		return "notowner"
	case errors.Is(err, metadata.ErrShuttingDown):
		return "shutdown"
	default:
		return "err"
	}
}

// ---------------------------------------------------------------- observation

func (s *sched) lname(id clientv3.LeaseID) string {
	s.w.mu.Lock()
	defer s.w.mu.Unlock()
	if n, ok := s.w.leaseName[id]; ok {
		return fmt.Sprintf("L%d", n)
	}
	return "L?"
}

func (s *sched) liveLeases() []int {
	var out []int
	ls, err := s.w.admin.Leases(context.Background())
	if err != nil {
		return out
	}
	s.w.mu.Lock()
	defer s.w.mu.Unlock()
	for _, l := range ls.Leases {
		if n, ok := s.w.leaseName[l.ID]; ok {
			out = append(out, n)
		} else {
			out = append(out, -1)
		}
	}
	sort.Ints(out)
	return out
}

func (s *sched) obs() string {
	idx := map[string]int{}
	for r := 0; r < s.nr; r++ {
		idx[s.resID(r)] = r
	}
	var own []string
	for b, inc := range s.mgr {
		var rs []string
		var ids []int
		for _, id := range inc.lm.VerifOwned() {
			if r, ok := idx[id]; ok {
				ids = append(ids, r)
			} else {
				rs = append(rs, "?"+id)
			}
		}
		sort.Ints(ids)
		for _, r := range ids {
			rs = append(rs, strconv.Itoa(r))
		}
		own = append(own, fmt.Sprintf("b%d:%s", b, strings.Join(rs, ",")))
	}
	kvs := make([]string, s.nr)
	for r := range kvs {
		kvs[r] = fmt.Sprintf("%d:-", r)
	}
	resp, err := s.w.admin.Get(context.Background(), "/kafscale/", clientv3.WithPrefix())
	if err == nil {
		for _, kv := range resp.Kvs {
			key := string(kv.Key)
			rid := strings.TrimPrefix(key, s.prefix()+"/")
			if r, ok := idx[rid]; ok && rid != key {
				kvs[r] = fmt.Sprintf("%d:%s@%s", r, string(kv.Value), s.lname(clientv3.LeaseID(kv.Lease)))
			} else {
				kvs = append(kvs, fmt.Sprintf("?%s=%s", key, string(kv.Value)))
			}
		}
	} else {
		kvs = append(kvs, "?get-error")
	}
	var live []string
	for _, n := range s.liveLeases() {
		if n < 0 {
			live = append(live, "L?")
		} else {
			live = append(live, fmt.Sprintf("L%d", n))
		}
	}
	var closed, sess []string
	for b, inc := range s.mgr {
		if inc.lm.VerifClosed() {
			closed = append(closed, fmt.Sprintf("b%d", b))
		}
		if id := inc.lm.VerifSessionLease(); id != 0 {
			sess = append(sess, fmt.Sprintf("b%d:%s", b, s.lname(clientv3.LeaseID(id))))
		} else {
			sess = append(sess, fmt.Sprintf("b%d:-", b))
		}
	}
	// CurrentOwner as answered by the API of the last broker (any manager must give the same answer)
	var cur []string
	for r := 0; r < s.nr; r++ {
		o, err := s.mgr[s.nb-1].cur(r)
		switch {
		case err != nil:
			cur = append(cur, fmt.Sprintf("%d:!", r))
		case o == "":
			cur = append(cur, fmt.Sprintf("%d:-", r))
		default:
			cur = append(cur, fmt.Sprintf("%d:%s", r, o))
		}
	}
	return fmt.Sprintf("own=%s kv=%s cur=%s live=%s closed=%s sess=%s dels=%d revokes=%d",
		strings.Join(own, "|"), strings.Join(kvs, ","), strings.Join(cur, ","), strings.Join(live, ","), strings.Join(closed, ","),
		strings.Join(sess, ","), len(s.dels), len(s.revokes))
}

// ---------------------------------------------------------------- ops

func (s *sched) expireEnabled(l int) (clientv3.LeaseID, bool) {
	var id clientv3.LeaseID
	s.w.mu.Lock()
	for k, n := range s.w.leaseName {
		if n == l {
			id = k
		}
	}
	s.w.mu.Unlock()
	if id == 0 {
		return 0, false
	}
	for _, inc := range s.mgr {
		if inc.lm.VerifSessionLease() == int64(id) {
			return id, false
		}
	}
	// a lease granted microseconds ago and about to be published as the session does not
	// expire first (the model allows it; the real keepalive would then report the loss at an
	// uncontrolled moment, so the generator stays away from it)
	for _, t := range s.acq {
		if !t.finished && t.at != nil && t.at.op == "grant" && t.granted == id {
			return id, false
		}
	}
	return id, true
}

func (s *sched) finishAcq(key [2]int, t *thread) string {
	if t.finished {
		delete(s.acq, key)
		return t.res
	}
	return "-"
}

// exec runs one concrete op; returns the result token ("-" when no call finished).
func (s *sched) exec(f []string) string {
	arg := func(i int) int {
		if i < len(f) {
			n, err := strconv.Atoi(f[i])
			if err == nil {
				return n
			}
		}
		return -1
	}
	switch f[0] {
	case "acquire":
		b, r := arg(1), arg(2)
		if b < 0 || b >= s.nb || r < 0 || r >= s.nr {
			return "bad-op"
		}
		key := [2]int{b, r}
		inc := s.mgr[b]
		if _, busy := s.acq[key]; busy {
			// singleflight: a real call would pass Acquire's entry checks and then join the
			// running flight (and block until it finishes); only the entry checks are observable
			if inc.lm.VerifClosed() {
				return "shutdown"
			}
			return "-"
		}
		t := &thread{kind: "acq", b: b, r: r, inc: inc}
		s.acq[key] = t
		start(t, func() string { return resName(inc.acq(context.Background(), r)) })
		return s.finishAcq(key, t)
	case "step":
		key := [2]int{arg(1), arg(2)}
		t := s.acq[key]
		if t == nil {
			return "-"
		}
		advance(t)
		return s.finishAcq(key, t)
	case "abort":
		key := [2]int{arg(1), arg(2)}
		if t := s.acq[key]; t != nil {
			kill(t)
			delete(s.acq, key)
		}
		return "-"
	case "release":
		b, r := arg(1), arg(2)
		if b < 0 || b >= s.nb || r < 0 || r >= s.nr {
			return "bad-op"
		}
		inc := s.mgr[b]
		t := &thread{kind: "rel", b: b, r: r, inc: inc}
		start(t, func() string { inc.rel(r); return "-" })
		if !t.finished {
			s.dels = append(s.dels, t)
		}
		return "-"
	case "del", "dropdel":
		i := arg(1)
		if i < 0 || i >= len(s.dels) {
			return "-"
		}
		t := s.dels[i]
		s.dels = append(s.dels[:i:i], s.dels[i+1:]...)
		if f[0] == "del" {
			advance(t)
			if !t.finished {
				return "stuck"
			}
		} else {
			kill(t)
		}
		return "-"
	case "releaseall":
		b := arg(1)
		if b < 0 || b >= s.nb {
			return "bad-op"
		}
		inc := s.mgr[b]
		t := &thread{kind: "relall", b: b, inc: inc}
		start(t, func() string { inc.relAll(); return "-" })
		if !t.finished {
			s.revokes = append(s.revokes, t)
		}
		return "-"
	case "revoke", "droprevoke":
		i := arg(1)
		if i < 0 || i >= len(s.revokes) {
			return "-"
		}
		t := s.revokes[i]
		s.revokes = append(s.revokes[:i:i], s.revokes[i+1:]...)
		if f[0] == "revoke" {
			advance(t)
			if !t.finished {
				return "stuck"
			}
		} else {
			kill(t)
		}
		return "-"
	case "lost":
		b := arg(1)
		if b < 0 || b >= s.nb {
			return "bad-op"
		}
		inc := s.mgr[b]
		id := inc.lm.VerifSessionLease()
		if id == 0 {
			return "-"
		}
		inc.mu.Lock()
		lose := inc.lose[clientv3.LeaseID(id)]
		inc.mu.Unlock()
		if lose == nil {
			return "no-keepalive"
		}
		lose()
		deadline := time.Now().Add(5 * time.Second)
		for inc.lm.VerifSessionLease() == id && time.Now().Before(deadline) {
			time.Sleep(200 * time.Microsecond)
		}
		if inc.lm.VerifSessionLease() == id {
			return "loss-not-observed"
		}
		return "-"
	case "expire":
		id, ok := s.expireEnabled(arg(1))
		if !ok {
			return "disabled"
		}
		if _, err := s.w.admin.Revoke(context.Background(), id); err != nil {
			return "-" // already gone
		}
		return "-"
	case "crash":
		b := arg(1)
		if b < 0 || b >= s.nb {
			return "bad-op"
		}
		for key, t := range s.acq {
			if key[0] == b {
				kill(t)
				delete(s.acq, key)
			}
		}
		old := s.mgr[b]
		old.stopKeepAlives() // the process is gone: nobody refreshes its lease any more
		s.orphans = append(s.orphans, old)
		s.mgr[b] = s.newIncarnation(b)
		return "-"
	}
	return "bad-op"
}

type wop struct {
	w  uint64
	op string
}

// enabled lists the schedule steps that make sense in the current state, with weights.
func (s *sched) enabled() []wop {
	var out []wop
	for b := 0; b < s.nb; b++ {
		owned := map[string]bool{}
		for _, id := range s.mgr[b].lm.VerifOwned() {
			owned[id] = true
		}
		for r := 0; r < s.nr; r++ {
			if _, busy := s.acq[[2]int{b, r}]; busy {
				out = append(out, wop{14, fmt.Sprintf("step %d %d", b, r)}, wop{1, fmt.Sprintf("abort %d %d", b, r)})
			} else {
				out = append(out, wop{5, fmt.Sprintf("acquire %d %d", b, r)})
			}
			if owned[s.resID(r)] {
				out = append(out, wop{6, fmt.Sprintf("release %d %d", b, r)})
			} else {
				out = append(out, wop{1, fmt.Sprintf("release %d %d", b, r)})
			}
		}
		if !s.mgr[b].lm.VerifClosed() {
			out = append(out, wop{1, fmt.Sprintf("releaseall %d", b)})
		}
		if s.mgr[b].lm.VerifSessionLease() != 0 {
			out = append(out, wop{3, fmt.Sprintf("lost %d", b)})
		}
		out = append(out, wop{1, fmt.Sprintf("crash %d", b)})
	}
	for i := range s.dels {
		out = append(out, wop{8, fmt.Sprintf("del %d", i)}, wop{1, fmt.Sprintf("dropdel %d", i)})
	}
	for i := range s.revokes {
		out = append(out, wop{8, fmt.Sprintf("revoke %d", i)}, wop{1, fmt.Sprintf("droprevoke %d", i)})
	}
	for _, l := range s.liveLeases() {
		if l < 0 {
			continue
		}
		if _, ok := s.expireEnabled(l); ok {
			out = append(out, wop{6, fmt.Sprintf("expire %d", l)})
		}
	}
	return out
}

// ---------------------------------------------------------------- main

func startEtcd() (*embed.Etcd, string, error) {
	dir, err := os.MkdirTemp("", "verif-c18-etcd-")
	if err != nil {
		return nil, "", err
	}
	cfg := embed.NewConfig()
	cfg.Dir = dir
	cfg.Logger = "zap"
	cfg.LogLevel = "error"
	cfg.LogOutputs = []string{dir + "/etcd.log"}
	cfg.UnsafeNoFsync = true
	u0, _ := url.Parse("http://127.0.0.1:0")
	cfg.ListenClientUrls = []url.URL{*u0}
	cfg.AdvertiseClientUrls = []url.URL{*u0}
	cfg.ListenPeerUrls = []url.URL{*u0}
	cfg.AdvertisePeerUrls = []url.URL{*u0}
	cfg.InitialCluster = cfg.InitialClusterFromName(cfg.Name)
	e, err := embed.StartEtcd(cfg)
	if err != nil {
		os.RemoveAll(dir)
		return nil, "", err
	}
	select {
	case <-e.Server.ReadyNotify():
	case <-time.After(20 * time.Second):
		e.Close()
		os.RemoveAll(dir)
		return nil, "", fmt.Errorf("etcd not ready")
	}
	return e, dir, nil
}

func main() {
	e, dir, err := startEtcd()
	if err != nil {
		fmt.Fprintln(os.Stderr, "start etcd:", err)
		os.Exit(3)
	}
	defer os.RemoveAll(dir)
	defer e.Close()
	admin, err := clientv3.New(clientv3.Config{Endpoints: []string{"http://" + e.Clients[0].Addr().String()}, DialTimeout: 5 * time.Second, Logger: zap.NewNop()})
	if err != nil {
		fmt.Fprintln(os.Stderr, "client:", err)
		os.Exit(3)
	}
	defer admin.Close()
	w := &world{admin: admin, leaseName: map[clientv3.LeaseID]int{}}
	var s *sched
	out := bufio.NewWriter(os.Stdout)
	defer out.Flush()
	sc := bufio.NewScanner(os.Stdin)
	sc.Buffer(make([]byte, 1<<20), 1<<24)
	for sc.Scan() {
		f := strings.Fields(sc.Text())
		if len(f) == 0 || strings.HasPrefix(f[0], "#") {
			continue
		}
		if f[0] == "reset" && len(f) == 5 {
			// reset <variant (model only)> <nb> <nr> <partition|group>
			if s != nil {
				s.teardown()
			}
			nb, _ := strconv.Atoi(f[2])
			nr, _ := strconv.Atoi(f[3])
			_, np := noisePart[f[4]]
			_, ng := noiseGroup[f[4]]
			if nb < 1 || nb > 4 || nr < 1 || nr > 4 || !(f[4] == "partition" || f[4] == "group" || np || ng) {
				fmt.Fprintln(out, "bad-op")
				continue
			}
			s = newSched(w, f[4], nb, nr)
			fmt.Fprintf(out, "reset %s %d %d => reset %s\n", f[1], nb, nr, s.obs())
			out.Flush()
			continue
		}
		if s == nil {
			fmt.Fprintln(out, "bad-op")
			continue
		}
		if f[0] == "rand" && len(f) == 2 {
			x, _ := strconv.ParseUint(f[1], 10, 64)
			en := s.enabled()
			var total uint64
			for _, o := range en {
				total += o.w
			}
			pick := x % total
			for _, o := range en {
				if pick < o.w {
					f = strings.Fields(o.op)
					break
				}
				pick -= o.w
			}
		}
		res := s.exec(f)
		fmt.Fprintf(out, "%s => %s %s\n", strings.Join(f, " "), res, s.obs())
		out.Flush()
	}
	if s != nil {
		s.teardown()
	}
}
