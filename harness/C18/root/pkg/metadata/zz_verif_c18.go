//go:build verif

package metadata

import "sort"

// Read-only accessors for the C18/C19 correspondence harnesses (never compiled without -tags verif).

// VerifSessionLease returns the etcd lease id of the manager's current session, 0 if none.
func (m *LeaseManager) VerifSessionLease() int64 {
	m.mu.RLock()
	defer m.mu.RUnlock()
	if m.session == nil {
		return 0
	}
	return int64(m.session.Lease())
}

// VerifOwned returns the sorted resource ids of the local ownership set.
func (m *LeaseManager) VerifOwned() []string {
	m.mu.RLock()
	defer m.mu.RUnlock()
	out := make([]string, 0, len(m.owned))
	for k := range m.owned {
		out = append(out, k)
	}
	sort.Strings(out)
	return out
}

func (m *LeaseManager) VerifClosed() bool { return m.closed.Load() }

func (m *PartitionLeaseManager) VerifLM() *LeaseManager { return m.lm }
func (m *GroupLeaseManager) VerifLM() *LeaseManager     { return m.lm }
