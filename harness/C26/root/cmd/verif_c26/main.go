//go:build verif

// C26 correspondence harness: feeds a byte stream through a net.Pipe in seeded chunk sizes into
// the real broker.ReadProxyProtocol, reads the wrapped connection to EOF, and prints one canonical
// line per op (same format as lean/Driver/C26.lean).  `conn <seed> <hex>`: result or `err`; `econn <seed> <hex>`: the same, and
// on a rejection also the bytes the wrapped connection still delivers (`err rest=<hex>`): how much the parser consumed.
package main

import (
	"bufio"
	"encoding/hex"
	"fmt"
	"io"
	"net"
	"os"
	"strconv"
	"strings"
	"time"

	"github.com/KafScale/platform/pkg/broker"
)

func hx(b []byte) string {
	if len(b) == 0 {
		return "-"
	}
	return hex.EncodeToString(b)
}

func canonIP(s string, v2 bool) string {
	if !v2 {
		return hx([]byte(s))
	}
	ip := net.ParseIP(s)
	if ip == nil {
		return "unparsable:" + hx([]byte(s))
	}
	if !strings.Contains(s, ":") {
		return hx(ip.To4()) // dotted text (IPv4 or v4-mapped IPv6) -> 4 bytes
	}
	return hx(ip.To16())
}

func doOp(seed uint64, data []byte, errRest bool) (out string) {
	client, server := net.Pipe()
	done := make(chan struct{})
	go func() {
		defer close(done)
		s := seed
		rest := data
		for len(rest) > 0 {
			s = s*6364136223846793005 + 1442695040888963407
			n := 1 + int((s>>33)%17)
			if seed == 0 || n > len(rest) {
				n = len(rest)
			}
			if _, err := client.Write(rest[:n]); err != nil {
				return
			}
			rest = rest[n:]
		}
		client.Close()
	}()
	defer func() {
		if r := recover(); r != nil {
			out = "panic"
		}
		server.Close()
		client.Close()
		<-done
	}()
	_ = server.SetReadDeadline(time.Now().Add(10 * time.Second))
	wrapped, info, err := broker.ReadProxyProtocol(server)
	if err != nil {
		if errRest {
			// how much did the parser consume before rejecting?  what the wrapped connection still delivers
			if wrapped == nil {
				return "err rest=nil-conn"
			}
			rest, rerr := io.ReadAll(wrapped)
			if rerr != nil {
				return "err rest=unreadable"
			}
			return "err rest=" + hx(rest)
		}
		return "err"
	}
	rest, rerr := io.ReadAll(wrapped)
	if rerr != nil {
		return "err-reading-rest"
	}
	switch {
	case info == nil:
		return "ok none rest=" + hx(rest)
	case info.Local:
		return "ok local rest=" + hx(rest)
	}
	v2 := len(data) > 0 && data[0] != 'P'
	if !v2 {
		return fmt.Sprintf("ok v1 src=%s dst=%s sp=%d dp=%d sa=%s da=%s rest=%s", canonIP(info.SourceIP, false), canonIP(info.DestIP, false),
			info.SourcePort, info.DestPort, hx([]byte(info.SourceAddr)), hx([]byte(info.DestAddr)), hx(rest))
	}
	addr := "ok"
	if info.SourceAddr != net.JoinHostPort(info.SourceIP, strconv.Itoa(info.SourcePort)) || info.DestAddr != net.JoinHostPort(info.DestIP, strconv.Itoa(info.DestPort)) {
		addr = "inconsistent"
	}
	return fmt.Sprintf("ok v2 src=%s dst=%s sp=%d dp=%d addr=%s rest=%s", canonIP(info.SourceIP, true), canonIP(info.DestIP, true),
		info.SourcePort, info.DestPort, addr, hx(rest))
}

func main() {
	w := bufio.NewWriter(os.Stdout)
	defer w.Flush()
	sc := bufio.NewScanner(os.Stdin)
	sc.Buffer(make([]byte, 1<<20), 1<<26)
	for sc.Scan() {
		f := strings.Fields(sc.Text())
		if len(f) == 0 || strings.HasPrefix(f[0], "#") {
			continue
		}
		if (f[0] != "conn" && f[0] != "econn") || len(f) < 2 || len(f) > 3 {
			fmt.Fprintln(w, "bad-op")
			continue
		}
		var seed uint64
		if len(f) == 3 {
			seed, _ = strconv.ParseUint(f[1], 10, 64)
		}
		h := f[len(f)-1]
		var data []byte
		if h != "-" {
			var err error
			if data, err = hex.DecodeString(h); err != nil {
				fmt.Fprintln(w, "bad-op")
				continue
			}
		}
		fmt.Fprintln(w, doOp(seed, data, f[0] == "econn"))
		w.Flush()
	}
}
