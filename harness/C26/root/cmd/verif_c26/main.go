//go:build verif

// C26 correspondence harness: feeds a byte stream through a net.Pipe in seeded chunk sizes into
// the real broker.ReadProxyProtocol, reads the wrapped connection to EOF, and prints one canonical
// line per op (same format as lean/Driver/C26.lean).  `conn <seed> <hex>`: result or `err`; `econn <seed> <hex>`: the same, and
// on a rejection also the bytes the wrapped connection still delivers (`err rest=<hex>`): how much the parser consumed.
// Connection lifecycles (several connections through ReadProxyProtocol in one process, model: lean/KafVerif/Model/ProxyConns.lean):
// `sess <seed> <ev>...` one goroutine drives the events a<i>=<hex> (accept: ReadProxyProtocol on a fresh net.Pipe whose peer
// writes that stream and closes), r<i>=<n> (io.ReadFull of n bytes from the wrapped connection), d<i> (read to EOF), c<i>
// (wrapped.Close(), may be repeated); `par <seed> <k>:<hex>... / ...` rounds of connections that run at the same time (barriers
// between ReadProxyProtocol, reading to EOF and the k Close calls).  One output token per event / connection.
package main

import (
	"bufio"
	"encoding/hex"
	"fmt"
	"io"
	"net"
	"os"
	"strconv"
	"strings"
	"sync"
	"time"

	"github.com/KafScale/platform/pkg/broker"
)

func hx(b []byte) string {
	if len(b) == 0 {
		return "-"
	}
	return hex.EncodeToString(b)
}

func canonIP(s string, v2 bool) string {
	if !v2 {
		return hx([]byte(s))
	}
	ip := net.ParseIP(s)
	if ip == nil {
		return "unparsable:" + hx([]byte(s))
	}
	if !strings.Contains(s, ":") {
		return hx(ip.To4()) // dotted text (IPv4 or v4-mapped IPv6) -> 4 bytes
	}
	return hx(ip.To16())
}

func doOp(seed uint64, data []byte, errRest bool) (out string) {
	client, server := net.Pipe()
	done := make(chan struct{})
	go func() {
		defer close(done)
		s := seed
		rest := data
		for len(rest) > 0 {
			s = s*6364136223846793005 + 1442695040888963407
			n := 1 + int((s>>33)%17)
			if seed == 0 || n > len(rest) {
				n = len(rest)
			}
			if _, err := client.Write(rest[:n]); err != nil {
				return
			}
			rest = rest[n:]
		}
		client.Close()
	}()
	defer func() {
		if r := recover(); r != nil {
			out = "panic"
		}
		server.Close()
		client.Close()
		<-done
	}()
	_ = server.SetReadDeadline(time.Now().Add(10 * time.Second))
	wrapped, info, err := broker.ReadProxyProtocol(server)
	if err != nil {
		if errRest {
			// how much did the parser consume before rejecting?  what the wrapped connection still delivers
			if wrapped == nil {
				return "err rest=nil-conn"
			}
			rest, rerr := io.ReadAll(wrapped)
			if rerr != nil {
				return "err rest=unreadable"
			}
			return "err rest=" + hx(rest)
		}
		return "err"
	}
	rest, rerr := io.ReadAll(wrapped)
	if rerr != nil {
		return "err-reading-rest"
	}
	return fmtHdr(info, data) + " rest=" + hx(rest)
}

// fmtHdr: what ReadProxyProtocol reported (without the remainder)
func fmtHdr(info *broker.ProxyInfo, data []byte) string {
	switch {
	case info == nil:
		return "ok none"
	case info.Local:
		return "ok local"
	}
	v2 := len(data) > 0 && data[0] != 'P'
	if !v2 {
		return fmt.Sprintf("ok v1 src=%s dst=%s sp=%d dp=%d sa=%s da=%s", canonIP(info.SourceIP, false), canonIP(info.DestIP, false),
			info.SourcePort, info.DestPort, hx([]byte(info.SourceAddr)), hx([]byte(info.DestAddr)))
	}
	addr := "ok"
	if info.SourceAddr != net.JoinHostPort(info.SourceIP, strconv.Itoa(info.SourcePort)) || info.DestAddr != net.JoinHostPort(info.DestIP, strconv.Itoa(info.DestPort)) {
		addr = "inconsistent"
	}
	return fmt.Sprintf("ok v2 src=%s dst=%s sp=%d dp=%d addr=%s", canonIP(info.SourceIP, true), canonIP(info.DestIP, true),
		info.SourcePort, info.DestPort, addr)
}

// ---- connection lifecycles ----

type sconn struct {
	client, server net.Conn
	wrapped        net.Conn
	done           chan struct{}
	closed         bool
}

func startPeer(seed uint64, data []byte) *sconn {
	c := &sconn{done: make(chan struct{})}
	c.client, c.server = net.Pipe()
	go func() {
		defer close(c.done)
		s := seed
		rest := data
		for len(rest) > 0 {
			s = s*6364136223846793005 + 1442695040888963407
			n := 1 + int((s>>33)%17)
			if seed == 0 || n > len(rest) {
				n = len(rest)
			}
			if _, err := c.client.Write(rest[:n]); err != nil {
				return
			}
			rest = rest[n:]
		}
		c.client.Close()
	}()
	_ = c.server.SetReadDeadline(time.Now().Add(3 * time.Second))
	return c
}

func (c *sconn) shutdown() {
	c.client.Close()
	c.server.Close()
	select {
	case <-c.done:
	case <-time.After(3 * time.Second):
	}
}

func commas(s string) string { return strings.ReplaceAll(s, " ", ",") }

func acceptHdr(c *sconn, data []byte) (out string) {
	defer func() {
		if r := recover(); r != nil {
			out = "panic"
		}
	}()
	wrapped, info, err := broker.ReadProxyProtocol(c.server)
	c.wrapped = wrapped
	if err != nil {
		return "err"
	}
	return commas(fmtHdr(info, data))
}

func readSome(c *sconn, n int) (out string) {
	defer func() {
		if r := recover(); r != nil {
			out = "panic"
		}
	}()
	if c.wrapped == nil {
		return "nil-conn"
	}
	if n < 0 {
		b, _ := io.ReadAll(c.wrapped)
		return hx(b)
	}
	buf := make([]byte, n)
	m, _ := io.ReadFull(c.wrapped, buf)
	return hx(buf[:m])
}

func closeWrapped(c *sconn) (out string) {
	defer func() {
		if r := recover(); r != nil {
			out = "panic"
		}
	}()
	if c.wrapped != nil {
		_ = c.wrapped.Close()
	} else {
		_ = c.server.Close()
	}
	return ""
}

func splitID(t string) (id int, arg string, ok bool) {
	body := t[1:]
	if k := strings.IndexByte(body, '='); k >= 0 {
		body, arg = body[:k], body[k+1:]
	}
	id, err := strconv.Atoi(body)
	return id, arg, err == nil
}

func doSess(seed uint64, toks []string) string {
	conns := map[int]*sconn{}
	defer func() {
		for _, c := range conns {
			c.shutdown()
		}
	}()
	var outs []string
	for _, t := range toks {
		if len(t) < 2 {
			return "bad-op"
		}
		id, arg, ok := splitID(t)
		if !ok {
			return "bad-op"
		}
		c := conns[id]
		switch t[0] {
		case 'a':
			var data []byte
			if arg != "-" {
				var err error
				if data, err = hex.DecodeString(arg); err != nil {
					return "bad-op"
				}
			}
			if c != nil {
				outs = append(outs, fmt.Sprintf("bad%d", id))
				continue
			}
			s := seed
			if s != 0 {
				s += uint64(id) * 7919
			}
			c = startPeer(s, data)
			conns[id] = c
			outs = append(outs, fmt.Sprintf("a%d:%s", id, acceptHdr(c, data)))
		case 'r', 'd':
			if c == nil || c.closed {
				outs = append(outs, fmt.Sprintf("bad%d", id))
				continue
			}
			n := -1
			if t[0] == 'r' {
				var err error
				if n, err = strconv.Atoi(arg); err != nil || n < 0 {
					return "bad-op"
				}
			}
			outs = append(outs, fmt.Sprintf("r%d:%s", id, readSome(c, n)))
		case 'c':
			if c == nil {
				outs = append(outs, fmt.Sprintf("bad%d", id))
				continue
			}
			c.closed = true
			outs = append(outs, fmt.Sprintf("c%d%s", id, closeWrapped(c)))
		default:
			return "bad-op"
		}
	}
	return strings.Join(outs, " ")
}

func doParRound(seed uint64, specs []string) ([]string, bool) {
	type one struct {
		k    int
		data []byte
	}
	var cs []one
	for _, sp := range specs {
		f := strings.SplitN(sp, ":", 2)
		if len(f) != 2 {
			return nil, false
		}
		k, err := strconv.Atoi(f[0])
		if err != nil || k < 0 || k > 8 {
			return nil, false
		}
		var data []byte
		if f[1] != "-" {
			if data, err = hex.DecodeString(f[1]); err != nil {
				return nil, false
			}
		}
		cs = append(cs, one{k, data})
	}
	n := len(cs)
	res := make([]string, n)
	var b0, b1, b2, fin sync.WaitGroup
	b0.Add(n)
	b1.Add(n)
	b2.Add(n)
	fin.Add(n)
	for i := range cs {
		go func(i int) {
			defer fin.Done()
			s := seed
			if s != 0 {
				s += uint64(i) * 104729
			}
			c := startPeer(s, cs[i].data)
			defer c.shutdown()
			b0.Done()
			b0.Wait()
			h := acceptHdr(c, cs[i].data)
			b1.Done()
			b1.Wait()
			rest := readSome(c, -1)
			b2.Done()
			b2.Wait()
			extra := ""
			for j := 0; j < cs[i].k; j++ {
				extra += closeWrapped(c)
			}
			if h == "err" {
				// like econn: what the wrapped connection still delivers after a rejection
				res[i] = "err,rest=" + rest + extra
			} else {
				res[i] = h + ",rest=" + rest + extra
			}
		}(i)
	}
	fin.Wait()
	return res, true
}

func doPar(seed uint64, toks []string) string {
	var outs []string
	var round []string
	flush := func() bool {
		if len(round) == 0 {
			return true
		}
		r, ok := doParRound(seed, round)
		if !ok {
			return false
		}
		outs = append(outs, r...)
		round = nil
		return true
	}
	for _, t := range toks {
		if t == "/" {
			if !flush() {
				return "bad-op"
			}
			outs = append(outs, "/")
			continue
		}
		round = append(round, t)
	}
	if !flush() {
		return "bad-op"
	}
	return strings.Join(outs, " ")
}

func main() {
	w := bufio.NewWriter(os.Stdout)
	defer w.Flush()
	sc := bufio.NewScanner(os.Stdin)
	sc.Buffer(make([]byte, 1<<20), 1<<26)
	for sc.Scan() {
		f := strings.Fields(sc.Text())
		if len(f) == 0 || strings.HasPrefix(f[0], "#") {
			continue
		}
		if (f[0] == "sess" || f[0] == "par") && len(f) >= 2 {
			seed, _ := strconv.ParseUint(f[1], 10, 64)
			if f[0] == "sess" {
				fmt.Fprintln(w, doSess(seed, f[2:]))
			} else {
				fmt.Fprintln(w, doPar(seed, f[2:]))
			}
			w.Flush()
			continue
		}
		if (f[0] != "conn" && f[0] != "econn") || len(f) < 2 || len(f) > 3 {
			fmt.Fprintln(w, "bad-op")
			continue
		}
		var seed uint64
		if len(f) == 3 {
			seed, _ = strconv.ParseUint(f[1], 10, 64)
		}
		h := f[len(f)-1]
		var data []byte
		if h != "-" {
			var err error
			if data, err = hex.DecodeString(h); err != nil {
				fmt.Fprintln(w, "bad-op")
				continue
			}
		}
		fmt.Fprintln(w, doOp(seed, data, f[0] == "econn"))
		w.Flush()
	}
}
