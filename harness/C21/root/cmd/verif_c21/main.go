//go:build verif

// C21 correspondence harness: three real EtcdStores (own clients, interposed KV) and the real
// operator publish on one embedded etcd; same line protocol as lean/Driver/C21.lean.
//
//	call <b> create|grow|delete <t> [<n>] [fail=<spec>] [with <call> ...]
//	    the injected calls (complete calls of other brokers, `op <crd>`, `late <b>`) run between the call's
//	    read + local mutation and its first etcd write; fail=get<k> | del0:pre|post | txn<k>:pre|post makes
//	    the k-th Get of the snapshot key / the offset-cleanup Delete / the k-th snapshot txn of THIS call
//	    return an etcd error (pre: never sent, post: applied, answer lost)
//	publish <crd> [with <call> ...]
//	    the real operator.PublishMetadataSnapshot, whose etcd traffic goes through a gRPC KV relay in front
//	    of the embedded etcd; the injected broker calls run after the operator's Get has been answered and
//	    right before its first Txn is forwarded
//	watch <b> | late <b> | reset | live | stress <seed> <n>
package main

import (
	"bufio"
	"context"
	"encoding/json"
	"errors"
	"fmt"
	"net"
	"net/url"
	"os"
	"sort"
	"strconv"
	"strings"
	"sync"
	"time"

	pb "go.etcd.io/etcd/api/v3/etcdserverpb"
	clientv3 "go.etcd.io/etcd/client/v3"
	"go.etcd.io/etcd/server/v3/embed"
	"google.golang.org/grpc"
	"google.golang.org/grpc/credentials/insecure"
	metav1 "k8s.io/apimachinery/pkg/apis/meta/v1"

	kafscalev1alpha1 "github.com/KafScale/platform/api/v1alpha1"
	"github.com/KafScale/platform/pkg/metadata"
	"github.com/KafScale/platform/pkg/operator"
	"github.com/KafScale/platform/pkg/protocol"
)

const snapshotKey = "/kafscale/metadata/snapshot"
const nBrokers = 3

// hookKV runs a one-shot hook right before the store writes the snapshot key (Txn commit after the
// fix, Put before it): the point between "read + local mutation" and "write".
type hookKV struct {
	clientv3.KV
	mu   sync.Mutex
	hook func()
}

func (k *hookKV) take() func() {
	k.mu.Lock()
	defer k.mu.Unlock()
	h := k.hook
	k.hook = nil
	return h
}

// fault = one injected transient etcd error of one call, carried by the call's context (so that the
// broker's watcher goroutine, which shares the KV, is never hit): the k-th Get of the snapshot key,
// the k-th Delete or the k-th txn commit issued under that context fails; post = the operation is
// executed by etcd and only its answer is lost.
type faultCtxKey struct{}

type fault struct {
	kind  string // get | del | txn
	k     int
	post  bool
	mu    sync.Mutex
	seen  int
	fired bool
}

var errInjected = errors.New("etcdserver: request timed out (injected by the C21 harness)")

func (f *fault) hit(kind string) bool {
	if f == nil || f.kind != kind {
		return false
	}
	f.mu.Lock()
	defer f.mu.Unlock()
	n := f.seen
	f.seen++
	if n == f.k && !f.fired {
		f.fired = true
		return true
	}
	return false
}

func faultOf(ctx context.Context) *fault {
	f, _ := ctx.Value(faultCtxKey{}).(*fault)
	return f
}

func (k *hookKV) Get(ctx context.Context, key string, opts ...clientv3.OpOption) (*clientv3.GetResponse, error) {
	if key == snapshotKey {
		if f := faultOf(ctx); f.hit("get") {
			return nil, errInjected
		}
	}
	return k.KV.Get(ctx, key, opts...)
}

func (k *hookKV) Put(ctx context.Context, key, val string, opts ...clientv3.OpOption) (*clientv3.PutResponse, error) {
	if key == snapshotKey {
		if h := k.take(); h != nil {
			h()
		}
	}
	return k.KV.Put(ctx, key, val, opts...)
}

// Delete: DeleteTopic's offset cleanup runs between its local mutation and the write-back, which is
// the earliest seam after the fresh read.
func (k *hookKV) Delete(ctx context.Context, key string, opts ...clientv3.OpOption) (*clientv3.DeleteResponse, error) {
	if h := k.take(); h != nil {
		h()
	}
	if f := faultOf(ctx); f.hit("del") {
		if f.post {
			if _, err := k.KV.Delete(ctx, key, opts...); err != nil {
				return nil, err
			}
		}
		return nil, errInjected
	}
	return k.KV.Delete(ctx, key, opts...)
}

func (k *hookKV) Txn(ctx context.Context) clientv3.Txn {
	return &hookTxn{Txn: k.KV.Txn(ctx), k: k, f: faultOf(ctx)}
}

type hookTxn struct {
	clientv3.Txn
	k *hookKV
	f *fault
}

func (t *hookTxn) If(cs ...clientv3.Cmp) clientv3.Txn  { t.Txn = t.Txn.If(cs...); return t }
func (t *hookTxn) Then(ops ...clientv3.Op) clientv3.Txn { t.Txn = t.Txn.Then(ops...); return t }
func (t *hookTxn) Else(ops ...clientv3.Op) clientv3.Txn { t.Txn = t.Txn.Else(ops...); return t }
func (t *hookTxn) Commit() (*clientv3.TxnResponse, error) {
	if h := t.k.take(); h != nil {
		h()
	}
	if t.f.hit("txn") {
		if t.f.post {
			if _, err := t.Txn.Commit(); err != nil {
				return nil, err
			}
		}
		return nil, errInjected
	}
	return t.Txn.Commit()
}

// kvRelay is an etcd KV endpoint of its own (gRPC) that forwards every request to the embedded etcd:
// the operator's PublishMetadataSnapshot builds its etcd client internally from the endpoint list, so
// the only seam between its Get and its Txn is the wire.  beforeTxn (one-shot) runs right before the
// next transaction is forwarded, i.e. after the operator has read and merged the snapshot.
type kvRelay struct {
	pb.UnimplementedKVServer
	backend   pb.KVClient
	mu        sync.Mutex
	beforeTxn func()
}

func (r *kvRelay) Range(ctx context.Context, in *pb.RangeRequest) (*pb.RangeResponse, error) {
	return r.backend.Range(ctx, in)
}
func (r *kvRelay) Put(ctx context.Context, in *pb.PutRequest) (*pb.PutResponse, error) {
	return r.backend.Put(ctx, in)
}
func (r *kvRelay) DeleteRange(ctx context.Context, in *pb.DeleteRangeRequest) (*pb.DeleteRangeResponse, error) {
	return r.backend.DeleteRange(ctx, in)
}
func (r *kvRelay) Txn(ctx context.Context, in *pb.TxnRequest) (*pb.TxnResponse, error) {
	r.mu.Lock()
	h := r.beforeTxn
	r.beforeTxn = nil
	r.mu.Unlock()
	if h != nil {
		h()
	}
	return r.backend.Txn(ctx, in)
}

func (r *kvRelay) arm(h func()) {
	r.mu.Lock()
	r.beforeTxn = h
	r.mu.Unlock()
}

func startRelay(etcdEndpoint string) (*kvRelay, string) {
	conn, err := grpc.NewClient(strings.TrimPrefix(etcdEndpoint, "http://"), grpc.WithTransportCredentials(insecure.NewCredentials()))
	if err != nil {
		panic(err)
	}
	lis, err := net.Listen("tcp", "127.0.0.1:0")
	if err != nil {
		panic(err)
	}
	r := &kvRelay{backend: pb.NewKVClient(conn)}
	srv := grpc.NewServer()
	pb.RegisterKVServer(srv, r)
	go func() { _ = srv.Serve(lis) }()
	return r, lis.Addr().String()
}

const probeKey = snapshotKey + "-verif-probe"

// lagWatcher makes the delivery of watch notifications a schedulable event: every notification
// for the snapshot key is held (one event per notification) until the harness hands it over.
// Events for the probe key (same watched prefix) only serve as a barrier and are swallowed.
type lagWatcher struct {
	clientv3.Watcher
	mu    sync.Mutex
	held  []clientv3.WatchResponse
	out   chan clientv3.WatchResponse
	probe string // last probe value seen
}

func (w *lagWatcher) Watch(ctx context.Context, key string, opts ...clientv3.OpOption) clientv3.WatchChan {
	in := w.Watcher.Watch(ctx, key, opts...)
	out := make(chan clientv3.WatchResponse) // unbuffered: a completed send means the loop took it
	w.mu.Lock()
	w.out = out
	w.mu.Unlock()
	go func() {
		for resp := range in {
			w.mu.Lock()
			for _, ev := range resp.Events {
				switch string(ev.Kv.Key) {
				case probeKey:
					w.probe = string(ev.Kv.Value)
				case snapshotKey:
					w.held = append(w.held, clientv3.WatchResponse{Header: resp.Header, Events: []*clientv3.Event{ev}})
				}
			}
			w.mu.Unlock()
		}
	}()
	return out
}

func (w *lagWatcher) sawProbe(v string) bool {
	w.mu.Lock()
	defer w.mu.Unlock()
	return w.out != nil && w.probe == v
}

func (w *lagWatcher) pop() (clientv3.WatchResponse, bool) {
	w.mu.Lock()
	defer w.mu.Unlock()
	if len(w.held) == 0 {
		return clientv3.WatchResponse{}, false
	}
	r := w.held[0]
	w.held = w.held[1:]
	return r, true
}

// barrier returns once the watcher loop has finished everything handed to it before: the
// sentinel carries an error, so the loop skips it without touching anything.
func (w *lagWatcher) barrier(timeout time.Duration) bool {
	select {
	case w.out <- clientv3.WatchResponse{CompactRevision: 1}:
		return true
	case <-time.After(timeout):
		return false
	}
}

type world struct {
	lags     []*lagWatcher
	inflight []bool // a handed-over notification whose processing has not been confirmed yet
	waiting  [][]clientv3.WatchResponse // notifications that arrived while the watcher loop was busy (blocked on persistMu)
	probeSeq int
	endpoints []string
	relay       *kvRelay // the operator's etcd endpoint
	opEndpoints []string
	admin     *clientv3.Client
	clients   []*clientv3.Client
	kvs       []*hookKV
	stores    []*metadata.EtcdStore
}

func freePort() int {
	ln, err := net.Listen("tcp", "127.0.0.1:0")
	if err != nil {
		panic(err)
	}
	defer ln.Close()
	return ln.Addr().(*net.TCPAddr).Port
}

func startEtcd() []string {
	dir, err := os.MkdirTemp("", "verif-c21-etcd-")
	if err != nil {
		panic(err)
	}
	cfg := embed.NewConfig()
	cfg.Dir = dir
	cfg.Logger = "zap"
	cfg.LogLevel = "error"
	cfg.UnsafeNoFsync = true // scratch data dir, removed on exit
	cfg.LogOutputs = []string{dir + "/etcd.log"}
	cu, _ := url.Parse(fmt.Sprintf("http://127.0.0.1:%d", freePort()))
	pu, _ := url.Parse(fmt.Sprintf("http://127.0.0.1:%d", freePort()))
	cfg.ListenClientUrls = []url.URL{*cu}
	cfg.AdvertiseClientUrls = cfg.ListenClientUrls
	cfg.ListenPeerUrls = []url.URL{*pu}
	cfg.AdvertisePeerUrls = cfg.ListenPeerUrls
	cfg.InitialCluster = cfg.InitialClusterFromName(cfg.Name)
	e, err := embed.StartEtcd(cfg)
	if err != nil {
		panic(err)
	}
	select {
	case <-e.Server.ReadyNotify():
	case <-time.After(15 * time.Second):
		panic("embedded etcd did not start")
	}
	cleanup = func() { e.Close(); os.RemoveAll(dir) }
	return []string{"http://" + e.Clients[0].Addr().String()}
}

var cleanup = func() {}

func (w *world) reset() {
	ctx := context.Background()
	for _, st := range w.stores {
		_ = st.Close()
	}
	w.clients, w.kvs, w.stores, w.lags, w.inflight, w.waiting = nil, nil, nil, nil, nil, nil
	if _, err := w.admin.Delete(ctx, "", clientv3.WithPrefix()); err != nil {
		panic(err)
	}
	if _, err := w.admin.Delete(ctx, "\x00", clientv3.WithFromKey()); err != nil {
		panic(err)
	}
	for i := 0; i < nBrokers; i++ {
		cli, err := clientv3.New(clientv3.Config{Endpoints: w.endpoints, DialTimeout: 5 * time.Second})
		if err != nil {
			panic(err)
		}
		kv := &hookKV{KV: cli.KV}
		cli.KV = kv
		lag := &lagWatcher{Watcher: cli.Watcher}
		cli.Watcher = lag
		w.clients = append(w.clients, cli)
		w.kvs = append(w.kvs, kv)
		w.lags = append(w.lags, lag)
		w.inflight = append(w.inflight, false)
		w.waiting = append(w.waiting, nil)
		w.stores = append(w.stores, metadata.VerifNewEtcdStoreC21(ctx, cli, metadata.ClusterMetadata{
			Brokers: []protocol.MetadataBroker{{NodeID: 1, Host: "b", Port: 9092}},
		}))
	}
	w.syncWatchers()
}

// syncWatchers returns once every broker's watch stream has received everything written so far
// (watch events arrive in revision order, so seeing the probe means all earlier ones are held).
func (w *world) syncWatchers() {
	deadline := time.Now().Add(30 * time.Second)
	for {
		// a fresh probe each round: a watch that registered after the previous probe never sees that one
		w.probeSeq++
		v := strconv.Itoa(w.probeSeq)
		if _, err := w.admin.Put(context.Background(), probeKey, v); err == nil {
			until := time.Now().Add(250 * time.Millisecond)
			for time.Now().Before(until) {
				all := true
				for _, l := range w.lags {
					if !l.sawProbe(v) {
						all = false
					}
				}
				if all {
					return
				}
				time.Sleep(time.Millisecond)
			}
		}
		if time.Now().After(deadline) {
			panic("watch streams did not catch up")
		}
	}
}

// deliver hands broker b its oldest held notification.  self = the delivery happens inside b's own
// call (the real watcher then blocks on persistMu until the call is over, so only wait briefly).
func (w *world) deliver(b int, self bool) bool {
	w.syncWatchers()
	resp, ok := w.lags[b].pop()
	if !ok {
		return false
	}
	if w.inflight[b] {
		// the loop is still inside refreshSnapshot waiting for persistMu: the notification queues up
		// behind it (as it would in the client's buffered watch channel) and is processed at settle()
		w.waiting[b] = append(w.waiting[b], resp)
		return true
	}
	w.lags[b].out <- resp
	wait := 30 * time.Second
	if self {
		wait = 300 * time.Millisecond
	}
	if !w.lags[b].barrier(wait) {
		w.inflight[b] = true
	}
	return true
}

// settle waits for deliveries that could not be confirmed while a call was running.
func (w *world) settle() {
	for b := range w.inflight {
		if w.inflight[b] {
			if !w.lags[b].barrier(30 * time.Second) {
				panic("watcher loop stuck")
			}
			w.inflight[b] = false
			for _, resp := range w.waiting[b] {
				w.lags[b].out <- resp
				if !w.lags[b].barrier(30 * time.Second) {
					panic("watcher loop stuck")
				}
			}
			w.waiting[b] = nil
		}
	}
}

func topicName(id int) string { return "t" + strconv.Itoa(id) }

func dumpTopics(ts []protocol.MetadataTopic) string {
	if len(ts) == 0 {
		return "-"
	}
	var parts []string
	for _, t := range ts {
		name := "?"
		if t.Topic != nil {
			name = strings.TrimPrefix(*t.Topic, "t")
		}
		// the partition ids must be 0..n-1 for the count to mean anything
		ids := make([]int, 0, len(t.Partitions))
		for _, p := range t.Partitions {
			ids = append(ids, int(p.Partition))
		}
		sort.Ints(ids)
		ok := true
		for i, id := range ids {
			if id != i {
				ok = false
			}
		}
		n := strconv.Itoa(len(t.Partitions))
		if !ok {
			n += "!"
		}
		parts = append(parts, name+":"+n)
	}
	return strings.Join(parts, ",")
}

func (w *world) dumpEtcd() string {
	resp, err := w.admin.Get(context.Background(), snapshotKey)
	if err != nil {
		return "err"
	}
	if len(resp.Kvs) == 0 {
		return "none"
	}
	var snap metadata.ClusterMetadata
	if err := json.Unmarshal(resp.Kvs[0].Value, &snap); err != nil {
		return "corrupt"
	}
	return dumpTopics(snap.Topics)
}

func (w *world) dumpAll() string {
	out := "etcd=" + w.dumpEtcd()
	for i, s := range w.stores {
		m, err := s.Metadata(context.Background(), nil)
		if err != nil {
			out += fmt.Sprintf(" b%d=err", i)
			continue
		}
		out += fmt.Sprintf(" b%d=%s", i, dumpTopics(m.Topics))
	}
	return out
}

func errName(err error) string {
	switch {
	case err == nil:
		return "ok"
	case errors.Is(err, metadata.ErrTopicExists):
		return "exists"
	case errors.Is(err, metadata.ErrInvalidTopic):
		return "invalid"
	case errors.Is(err, metadata.ErrUnknownTopic):
		return "unknown"
	case strings.Contains(err.Error(), "changed concurrently") || strings.Contains(err.Error(), "conflict"):
		return "conflict"
	}
	return "err"
}

type call struct {
	broker int // -1 = operator
	kind   string
	topic  int
	n      int
	crd    [][2]int
	fail   *fault // injected etcd error of this call (nil = none)
}

// parseFail: fail=get<k> | fail=del0:pre|post | fail=txn<k>:pre|post
func parseFail(tok string) (*fault, bool) {
	spec := strings.TrimPrefix(tok, "fail=")
	mode := ""
	if i := strings.IndexByte(spec, ':'); i >= 0 {
		spec, mode = spec[:i], spec[i+1:]
	}
	if len(spec) < 4 {
		return nil, false
	}
	kind := spec[:3]
	k, err := strconv.Atoi(spec[3:])
	if err != nil || k < 0 {
		return nil, false
	}
	switch kind {
	case "get":
		if mode != "" {
			return nil, false
		}
	case "del":
		if k != 0 || (mode != "pre" && mode != "post") {
			return nil, false
		}
	case "txn":
		if mode != "pre" && mode != "post" {
			return nil, false
		}
	default:
		return nil, false
	}
	return &fault{kind: kind, k: k, post: mode == "post"}, true
}

// parseCalls parses "<b> create <t> <n>" / "<b> grow <t> <n>" / "<b> delete <t>" / "op <crd>" groups
// separated by the word "with".
func parseCalls(f []string) ([]call, bool) {
	var calls []call
	var cur []string
	flush := func() bool {
		if len(cur) == 0 {
			return false
		}
		var c call
		if n := len(cur); strings.HasPrefix(cur[n-1], "fail=") {
			f, ok := parseFail(cur[n-1])
			if !ok || n == 1 || cur[0] == "op" || cur[0] == "late" {
				return false
			}
			c.fail = f
			cur = cur[:n-1]
		}
		if cur[0] == "op" {
			if len(cur) != 2 {
				return false
			}
			c.broker = -1
			crd, ok := parseCrd(cur[1])
			if !ok {
				return false
			}
			c.crd = crd
		} else if cur[0] == "late" {
			if len(cur) != 2 {
				return false
			}
			b, err := strconv.Atoi(cur[1])
			if err != nil || b < 0 || b >= nBrokers {
				return false
			}
			c.broker, c.kind = b, "late"
		} else {
			b, err := strconv.Atoi(cur[0])
			if err != nil || b < 0 || b >= nBrokers || len(cur) < 3 {
				return false
			}
			c.broker, c.kind = b, cur[1]
			t, err := strconv.Atoi(cur[2])
			if err != nil {
				return false
			}
			c.topic = t
			if c.kind == "delete" {
				if len(cur) != 3 {
					return false
				}
			} else if c.kind == "create" || c.kind == "grow" {
				if len(cur) != 4 {
					return false
				}
				n, err := strconv.Atoi(cur[3])
				if err != nil {
					return false
				}
				c.n = n
			} else {
				return false
			}
		}
		calls = append(calls, c)
		cur = nil
		return true
	}
	for _, x := range f {
		if x == "with" {
			if !flush() {
				return nil, false
			}
			continue
		}
		cur = append(cur, x)
	}
	if !flush() {
		return nil, false
	}
	return calls, true
}

func parseCrd(s string) ([][2]int, bool) {
	if s == "-" {
		return nil, true
	}
	var out [][2]int
	for _, e := range strings.Split(s, ",") {
		kv := strings.Split(e, ":")
		if len(kv) != 2 {
			return nil, false
		}
		t, err1 := strconv.Atoi(kv[0])
		n, err2 := strconv.Atoi(kv[1])
		if err1 != nil || err2 != nil {
			return nil, false
		}
		out = append(out, [2]int{t, n})
	}
	return out, true
}

// publish runs the real operator publish through the relay; `inject` (complete broker calls / late
// deliveries) run between the operator's Get (+ merge) and its first Txn.
func (w *world) publish(crd [][2]int, inject []call, injRes *[]string) string {
	one := int32(1)
	cluster := &kafscalev1alpha1.KafscaleCluster{
		ObjectMeta: metav1.ObjectMeta{Name: "c", Namespace: "ns"},
		Spec:       kafscalev1alpha1.KafscaleClusterSpec{Brokers: kafscalev1alpha1.BrokerSpec{Replicas: &one}},
	}
	var topics []kafscalev1alpha1.KafscaleTopic
	for _, e := range crd {
		topics = append(topics, kafscalev1alpha1.KafscaleTopic{
			ObjectMeta: metav1.ObjectMeta{Name: topicName(e[0]), Namespace: "ns"},
			Spec:       kafscalev1alpha1.KafscaleTopicSpec{ClusterRef: "c", Partitions: int32(e[1])},
		})
	}
	meta := operator.BuildClusterMetadata(cluster, topics)
	var hookPanic interface{}
	if len(inject) > 0 {
		w.relay.arm(func() {
			defer func() { hookPanic = recover() }()
			for _, ic := range inject {
				*injRes = append(*injRes, w.exec(ic, nil, nil, -1))
			}
		})
	}
	ctx, cancel := context.WithTimeout(context.Background(), 20*time.Second)
	defer cancel()
	res := errName(operator.PublishMetadataSnapshot(ctx, w.opEndpoints, meta))
	w.relay.arm(nil)
	if hookPanic != nil {
		panic(hookPanic)
	}
	return res
}

// exec runs one complete call; `inject` (if any) run between its read+mutation and its first write.
func (w *world) exec(c call, inject []call, injRes *[]string, outer int) string {
	if c.broker == -1 {
		return w.publish(c.crd, nil, nil)
	}
	if c.kind == "late" {
		if w.deliver(c.broker, c.broker == outer) {
			return "late"
		}
		return "none"
	}
	if len(inject) > 0 {
		w.kvs[c.broker].mu.Lock()
		w.kvs[c.broker].hook = func() {
			for _, ic := range inject {
				*injRes = append(*injRes, w.exec(ic, nil, nil, c.broker))
			}
		}
		w.kvs[c.broker].mu.Unlock()
	}
	ctx, cancel := context.WithTimeout(context.Background(), 20*time.Second)
	defer cancel()
	if c.fail != nil {
		ctx = context.WithValue(ctx, faultCtxKey{}, c.fail)
	}
	st := w.stores[c.broker]
	var err error
	switch c.kind {
	case "create":
		_, err = st.CreateTopic(ctx, metadata.TopicSpec{Name: topicName(c.topic), NumPartitions: int32(c.n), ReplicationFactor: 1})
	case "grow":
		err = st.CreatePartitions(ctx, topicName(c.topic), int32(c.n))
	case "delete":
		err = st.DeleteTopic(ctx, topicName(c.topic))
	}
	// a hook that was never reached (the call failed before writing) must not leak into the next call
	w.kvs[c.broker].take()
	return errName(err)
}

func (w *world) do(f []string) (out string) {
	defer func() {
		if r := recover(); r != nil {
			out = fmt.Sprintf("panic %v", r)
		}
	}()
	switch {
	case f[0] == "reset" && len(f) == 1:
		w.reset()
		return "reset " + w.dumpAll()
	case f[0] == "call":
		calls, ok := parseCalls(f[1:])
		if !ok || calls[0].broker == -1 || calls[0].kind == "late" {
			return "bad-op"
		}
		for _, c := range calls[1:] {
			if c.broker == calls[0].broker && c.kind != "late" {
				return "bad-op"
			}
		}
		var injRes []string
		res := w.exec(calls[0], calls[1:], &injRes, -1)
		w.settle()
		inj := "-"
		if len(injRes) > 0 {
			inj = strings.Join(injRes, ",")
		}
		return "call res=" + res + " inj=" + inj + " " + w.dumpAll()
	case f[0] == "watch" && len(f) == 2:
		b, err := strconv.Atoi(f[1])
		if err != nil || b < 0 || b >= nBrokers {
			return "bad-op"
		}
		// the watch stream catches up: every held notification is handed over, oldest first
		for w.deliver(b, false) {
		}
		return "watch " + w.dumpAll()
	case f[0] == "late" && len(f) == 2:
		b, err := strconv.Atoi(f[1])
		if err != nil || b < 0 || b >= nBrokers {
			return "bad-op"
		}
		if w.deliver(b, false) {
			return "late delivered " + w.dumpAll()
		}
		return "late none " + w.dumpAll()
	case f[0] == "publish" && (len(f) == 2 || (len(f) > 3 && f[2] == "with")):
		crd, ok := parseCrd(f[1])
		if !ok {
			return "bad-op"
		}
		var inject []call
		if len(f) > 3 {
			inject, ok = parseCalls(f[3:])
			if !ok {
				return "bad-op"
			}
			for _, c := range inject {
				if c.broker == -1 {
					return "bad-op"
				}
			}
		}
		var injRes []string
		res := w.publish(crd, inject, &injRes)
		w.settle()
		inj := "-"
		if len(injRes) > 0 {
			inj = strings.Join(injRes, ",")
		}
		return "publish res=" + res + " inj=" + inj + " " + w.dumpAll()
	case f[0] == "live" && len(f) == 1:
		return w.live()
	case f[0] == "stress" && len(f) == 3:
		seed, err1 := strconv.Atoi(f[1])
		n, err2 := strconv.Atoi(f[2])
		if err1 != nil || err2 != nil || n < 1 || n > 200 {
			return "bad-op"
		}
		return w.stress(uint64(seed), n)
	}
	return "bad-op"
}

// live checks the real watch path once: two stores built by the real NewEtcdStore (watchers
// running); a topic created on one must show up in the other's Metadata() without any explicit
// refresh.
func (w *world) live() string {
	ctx := context.Background()
	mk := func() *metadata.EtcdStore {
		s, err := metadata.NewEtcdStore(ctx, metadata.ClusterMetadata{
			Brokers: []protocol.MetadataBroker{{NodeID: 1, Host: "b", Port: 9092}},
		}, metadata.EtcdStoreConfig{Endpoints: w.endpoints})
		if err != nil {
			panic(err)
		}
		return s
	}
	a, b := mk(), mk()
	defer a.Close()
	defer b.Close()
	if _, err := a.CreateTopic(ctx, metadata.TopicSpec{Name: "live-topic", NumPartitions: 2, ReplicationFactor: 1}); err != nil {
		return "live create-" + errName(err)
	}
	// b's watch goroutine registers asynchronously (NewEtcdStore does not wait for it) and the
	// watch starts at "now": a write that lands before the registration is only seen with the
	// next event.  That start-up window is not part of C21, so the probe keeps producing events
	// (one more topic every 500 ms) until b has caught up; a watch path that never refreshes
	// still fails.
	deadline := time.Now().Add(30 * time.Second)
	nextKick := time.Now().Add(500 * time.Millisecond)
	kicks := 0
	for time.Now().Before(deadline) {
		m, err := b.Metadata(ctx, []string{"live-topic"})
		if err == nil && len(m.Topics) == 1 && m.Topics[0].ErrorCode == 0 && len(m.Topics[0].Partitions) == 2 {
			_ = a.DeleteTopic(ctx, "live-topic")
			for i := 0; i < kicks; i++ {
				_ = a.DeleteTopic(ctx, fmt.Sprintf("live-kick-%d", i))
			}
			return "live ok"
		}
		if time.Now().After(nextKick) {
			_, _ = a.CreateTopic(ctx, metadata.TopicSpec{Name: fmt.Sprintf("live-kick-%d", kicks), NumPartitions: 1, ReplicationFactor: 1})
			kicks++
			nextKick = time.Now().Add(500 * time.Millisecond)
		}
		time.Sleep(20 * time.Millisecond)
	}
	return "live not-propagated"
}

type splitmix struct{ s uint64 }

func (r *splitmix) next() uint64 {
	r.s += 0x9E3779B97F4A7C15
	z := r.s
	z = (z ^ (z >> 30)) * 0xBF58476D1CE4E5B9
	z = (z ^ (z >> 27)) * 0x94D049BB133111EB
	return z ^ (z >> 31)
}

// stress runs truly concurrent create/grow calls on three stores built by the real NewEtcdStore
// (watchers running) plus concurrent operator publishes, with no deletes, and then checks the
// property directly: every acknowledged (topic, n) is in the final etcd snapshot with >= n partitions
// and, after quiescence, in every broker's Metadata().  The interleaving is whatever the scheduler
// produces (not replayable step by step; the seed fixes the per-goroutine call sequences).
func (w *world) stress(seed uint64, n int) string {
	ctx := context.Background()
	if _, err := w.admin.Delete(ctx, snapshotKey); err != nil {
		return "stress err"
	}
	var stores []*metadata.EtcdStore
	for i := 0; i < nBrokers; i++ {
		s, err := metadata.NewEtcdStore(ctx, metadata.ClusterMetadata{
			Brokers: []protocol.MetadataBroker{{NodeID: 1, Host: "b", Port: 9092}},
		}, metadata.EtcdStoreConfig{Endpoints: w.endpoints})
		if err != nil {
			panic(err)
		}
		defer s.Close()
		stores = append(stores, s)
	}
	var mu sync.Mutex
	acked := map[int]int{}
	ack := func(t, c int) {
		mu.Lock()
		if c > acked[t] {
			acked[t] = c
		}
		mu.Unlock()
	}
	var wg sync.WaitGroup
	for b := 0; b < nBrokers; b++ {
		wg.Add(1)
		go func(b int) {
			defer wg.Done()
			r := &splitmix{s: seed*1000 + uint64(b)}
			for i := 0; i < n; i++ {
				t := 20 + int(r.next()%6)
				c := 1 + int(r.next()%6)
				cctx, cancel := context.WithTimeout(ctx, 20*time.Second)
				if r.next()%2 == 0 {
					if _, err := stores[b].CreateTopic(cctx, metadata.TopicSpec{Name: topicName(t), NumPartitions: int32(c), ReplicationFactor: 1}); err == nil {
						ack(t, c)
					}
				} else if err := stores[b].CreatePartitions(cctx, topicName(t), int32(c)); err == nil {
					ack(t, c)
				}
				cancel()
			}
		}(b)
	}
	wg.Add(1)
	go func() {
		defer wg.Done()
		r := &splitmix{s: seed*1000 + 99}
		for i := 0; i < n/3+1; i++ {
			var crd [][2]int
			for t := 20; t < 26; t++ {
				if r.next()%3 == 0 {
					crd = append(crd, [2]int{t, 1 + int(r.next()%3)})
				}
			}
			w.publish(crd, nil, nil)
		}
	}()
	wg.Wait()
	check := func(where string, have map[string]int) string {
		for t, c := range acked {
			got, ok := have[strconv.Itoa(t)]
			if !ok {
				return fmt.Sprintf("stress lost topic=%d acked=%d %s=missing", t, c, where)
			}
			if got < c {
				return fmt.Sprintf("stress lost topic=%d acked=%d %s=%d", t, c, where, got)
			}
		}
		return ""
	}
	parse := func(d string) map[string]int {
		m := map[string]int{}
		if d == "-" || d == "none" {
			return m
		}
		for _, e := range strings.Split(d, ",") {
			kv := strings.Split(e, ":")
			c, _ := strconv.Atoi(strings.TrimSuffix(kv[1], "!"))
			m[kv[0]] = c
		}
		return m
	}
	final := w.dumpEtcd()
	if r := check("etcd", parse(final)); r != "" {
		return r
	}
	// quiescence: every broker's view converges to the etcd snapshot through its own watcher
	deadline := time.Now().Add(15 * time.Second)
	for {
		all := true
		for _, s := range stores {
			m, err := s.Metadata(ctx, nil)
			if err != nil || dumpTopics(m.Topics) != final {
				all = false
			}
		}
		if all {
			break
		}
		if time.Now().After(deadline) {
			return "stress broker-view-not-converged"
		}
		time.Sleep(20 * time.Millisecond)
	}
	if len(acked) == 0 {
		return "stress nothing-acked"
	}
	return "stress ok"
}

func main() {
	w := &world{endpoints: startEtcd()}
	admin, err := clientv3.New(clientv3.Config{Endpoints: w.endpoints, DialTimeout: 5 * time.Second})
	if err != nil {
		panic(err)
	}
	w.admin = admin
	relay, addr := startRelay(w.endpoints[0])
	w.relay, w.opEndpoints = relay, []string{addr}
	w.reset()
	out := bufio.NewWriter(os.Stdout)
	sc := bufio.NewScanner(os.Stdin)
	sc.Buffer(make([]byte, 1<<20), 1<<26)
	for sc.Scan() {
		f := strings.Fields(sc.Text())
		if len(f) == 0 || strings.HasPrefix(f[0], "#") {
			continue
		}
		fmt.Fprintln(out, w.do(f))
		out.Flush()
	}
	out.Flush()
	cleanup()
}
