//go:build verif

package metadata

import (
	clientv3 "go.etcd.io/etcd/client/v3"
)

// VerifNewEtcdStoreC21 builds an EtcdStore exactly like NewEtcdStore but over a caller-supplied
// client (so its KV can be interposed) and WITHOUT starting the snapshot watcher: the harness
// delivers "the watch fired" explicitly through RefreshSnapshot, which is what watchSnapshot calls.
func VerifNewEtcdStoreC21(cli *clientv3.Client, snapshot ClusterMetadata) *EtcdStore {
	return &EtcdStore{
		client:    cli,
		metadata:  NewInMemoryStore(snapshot),
		available: 1,
	}
}
