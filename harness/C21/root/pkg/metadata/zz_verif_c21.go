//go:build verif

package metadata

import (
	"context"

	clientv3 "go.etcd.io/etcd/client/v3"
)

// VerifNewEtcdStoreC21 builds an EtcdStore exactly like NewEtcdStore (initial refresh, snapshot
// watcher started) but over a caller-supplied client, so that the harness can interpose the
// client's KV (to run other parties between a call's read and its write) and its Watcher (to make
// the delivery of watch notifications a schedulable event).
func VerifNewEtcdStoreC21(ctx context.Context, cli *clientv3.Client, snapshot ClusterMetadata) *EtcdStore {
	store := &EtcdStore{
		client:    cli,
		metadata:  NewInMemoryStore(snapshot),
		available: 1,
	}
	_ = store.refreshSnapshot(ctx)
	store.startWatchers()
	return store
}
