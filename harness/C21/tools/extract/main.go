// Fact extractor (go/ast, standard library only) for C21 — the shared metadata snapshot protocol.
// Derived from harness/C18/tools/extract (same row format, lean/KafVerif/Model/SrcOps.lean).
//
//	go run main.go <repo root>      -> JSON lines on stdout, one per row
//
// Tables:
//
//	store     pkg/metadata/etcd_store.go, type EtcdStore: updateSnapshot, refreshSnapshot,
//	          refreshSnapshotLocked, persistSnapshotLocked, UpdateOffsets
//	operator  pkg/operator/snapshot.go: PublishMetadataSnapshot (plain function; its etcd client is the
//	          local built by clientv3.New)
//	writers   every function of the non-test files of pkg/metadata and pkg/operator that names the snapshot key in a
//	          Put / Delete / OpPut / OpDelete (row: etcd <method> [key]) or calls persistSnapshotLocked (row: call)
//
// Rows (source order, with the conditions that dominate them — see the C18 extractor for the rules):
// txn / etcd / write / call / ret / jump.  Differences to the C18 extractor:
//   - package-level functions and constants that are one string literal (snapshotKey()) are inlined;
//   - calls on <self>.metadata (the local copy) and calls of function-typed parameters (mutate) are `call` rows;
//   - a transaction built in pieces (txn := cli.Txn(ctx); if c { txn = txn.If(A) } else { txn = txn.If(B) };
//     txn = txn.Then(..); txn.Commit()) becomes one txn row per alternative, each under the condition of its piece;
//     when the alternatives are not the two branches of one if/else, one more row (guard "no If piece") stands for
//     the path that adds none;
//   - a compare held in a variable (cmp := Compare(..); if c { cmp = Compare(..) }; Txn.If(cmp)) becomes one txn
//     row per assignment, under the assignment's conditions (an assignment that a later one may replace carries
//     the extra guard "unless reassigned").
package main

import (
	"bytes"
	"encoding/json"
	"fmt"
	"go/ast"
	"go/parser"
	"go/printer"
	"go/token"
	"os"
	"path/filepath"
	"regexp"
	"sort"
	"strings"
)

type Cmp struct {
	Target string `json:"target"`
	Key    string `json:"key"`
	Rel    string `json:"rel"`
	Val    string `json:"val"`
}

type KOp struct {
	Kind string   `json:"kind"`
	Args []string `json:"args"`
}

type Row struct {
	Table  string   `json:"table"`
	Fn     string   `json:"fn"`
	Line   int      `json:"line"`
	Guard  []string `json:"guard"`
	Reads  []string `json:"reads"` // re-assigned locals (rev, ...) the guard reads
	Kind   string   `json:"kind"`
	Ifs    []Cmp    `json:"ifs,omitempty"`
	Then   []KOp    `json:"then,omitempty"`
	Else   []KOp    `json:"else,omitempty"`
	Method string   `json:"method,omitempty"` // etcd / session / call: method name; jump: keyword
	Recv   string   `json:"recv,omitempty"`   // session
	Args   []string `json:"args,omitempty"`
	Target string   `json:"target,omitempty"` // write: m.owned / delete m.owned / m.session / rev ...
	Index  string   `json:"index,omitempty"`  // write: the map key of an indexed store or delete
	Value  string   `json:"value,omitempty"`  // write
	Locked bool     `json:"locked,omitempty"` // write
	Async  bool     `json:"async,omitempty"`  // call
	ID     string   `json:"id,omitempty"`     // effect id  <Method>#<n>
}

var fset = token.NewFileSet()

func fail(f string, a ...interface{}) {
	fmt.Fprintf(os.Stderr, "extract: "+f+"\n", a...)
	os.Exit(2)
}

// ---------------------------------------------------------------------------------- per function

type fnWalker struct {
	table   string
	fn      string
	self    string          // receiver / constructed object
	methods map[string]bool // candidate methods of the tracked type (for call rows)
	mutable map[string]bool // locals never substituted
	env     []map[string]string
	guards  []string
	lock    int // 0 none, 1 read lock, 2 write lock
	counts  map[string]int
	rows    []Row
	effects int
	pendingBuilder string // the variable a bare <client>.Txn(ctx) is being assigned to
	funcParams map[string]bool       // function-typed parameters (mutate)
	builders   map[string]*txnBuilder // transactions built in pieces, by variable
	cmpVars    map[string][]cmpDef    // compares held in variables, by variable
	negOf      map[string]string      // if/else: condition -> rendered negation
}

type txnPiece struct {
	guard []string
	ifs   []Cmp
	thn   []KOp
	els   []KOp
	isIf  bool
}

type txnBuilder struct {
	id     string
	pieces []txnPiece
}

type cmpDef struct {
	guard []string
	cmp   Cmp
}

// literals: package-level functions / constants that are one string literal
var literals = map[string]string{}

func (w *fnWalker) push() { w.env = append(w.env, map[string]string{}) }
func (w *fnWalker) pop()  { w.env = w.env[:len(w.env)-1] }
func (w *fnWalker) define(name, val string) {
	if name == "_" || name == w.self {
		return
	}
	w.env[len(w.env)-1][name] = val
}
func (w *fnWalker) lookup(name string) (string, bool) {
	for i := len(w.env) - 1; i >= 0; i-- {
		if v, ok := w.env[i][name]; ok {
			return v, true
		}
	}
	return "", false
}

func (w *fnWalker) emit(r Row, pos token.Pos) {
	r.Table, r.Fn, r.Line = w.table, w.fn, fset.Position(pos).Line
	r.Guard = append([]string{}, w.guards...)
	r.Reads = []string{}
	seen := map[string]bool{}
	for _, g := range r.Guard {
		for _, id := range identRe.FindAllString(g, -1) {
			if w.mutable[id] && !seen[id] {
				seen[id] = true
				r.Reads = append(r.Reads, id)
			}
		}
	}
	sort.Strings(r.Reads)
	switch r.Kind {
	case "txn", "etcd", "session", "call":
		w.effects++
	case "write":
		if strings.HasPrefix(r.Target, w.self+".") || strings.HasPrefix(r.Target, "delete "+w.self+".") {
			w.effects++
		}
	}
	w.rows = append(w.rows, r)
}

func (w *fnWalker) newID(method string) string {
	w.counts[method]++
	return fmt.Sprintf("%s#%d", method, w.counts[method])
}

// ---------------------------------------------------------------------------------- rendering

func raw(n ast.Node) string {
	var b bytes.Buffer
	printer.Fprint(&b, fset, n)
	return strings.Join(strings.Fields(b.String()), " ")
}

func strip(s string) string {
	s = strings.ReplaceAll(s, "clientv3.", "")
	s = strings.ReplaceAll(s, "concurrency.", "")
	return s
}

// render prints an expression with single-definition locals substituted.
func (w *fnWalker) render(e ast.Expr) string {
	switch x := e.(type) {
	case nil:
		return ""
	case *ast.Ident:
		if !w.mutable[x.Name] {
			if v, ok := w.lookup(x.Name); ok {
				return v
			}
		}
		if v, ok := literals[x.Name]; ok && !w.mutable[x.Name] {
			return v
		}
		return x.Name
	case *ast.BasicLit:
		return x.Value
	case *ast.ParenExpr:
		return "(" + w.render(x.X) + ")"
	case *ast.SelectorExpr:
		if id, ok := x.X.(*ast.Ident); ok && (id.Name == "clientv3" || id.Name == "concurrency") {
			return x.Sel.Name
		}
		return w.render(x.X) + "." + x.Sel.Name
	case *ast.StarExpr:
		return "*" + w.render(x.X)
	case *ast.UnaryExpr:
		return x.Op.String() + w.render(x.X)
	case *ast.BinaryExpr:
		return w.render(x.X) + " " + x.Op.String() + " " + w.render(x.Y)
	case *ast.IndexExpr:
		return w.render(x.X) + "[" + w.render(x.Index) + "]"
	case *ast.SliceExpr:
		s := w.render(x.X) + "[" + w.render(x.Low) + ":" + w.render(x.High)
		if x.Slice3 {
			s += ":" + w.render(x.Max)
		}
		return s + "]"
	case *ast.TypeAssertExpr:
		if x.Type == nil {
			return w.render(x.X) + ".(type)"
		}
		return w.render(x.X) + ".(" + strip(raw(x.Type)) + ")"
	case *ast.KeyValueExpr:
		return w.render(x.Key) + ": " + w.render(x.Value)
	case *ast.FuncLit:
		return "func{...}"
	case *ast.CallExpr:
		if id, ok := x.Fun.(*ast.Ident); ok && len(x.Args) == 0 {
			if v, ok := literals[id.Name+"()"]; ok {
				return v
			}
		}
		fun := w.render(x.Fun)
		args := x.Args
		if fun == "fmt.Errorf" || fun == "errors.New" {
			return "error(..)" // which message an error carries is not a fact
		}
		var as []string
		for _, a := range args {
			as = append(as, w.render(a))
		}
		return fun + "(" + strings.Join(as, ", ") + ")"
	}
	return strip(raw(e))
}

func negate(e ast.Expr, w *fnWalker) string {
	switch x := e.(type) {
	case *ast.ParenExpr:
		return negate(x.X, w)
	case *ast.UnaryExpr:
		if x.Op == token.NOT {
			return w.render(x.X)
		}
	case *ast.BinaryExpr:
		flip := map[token.Token]string{token.EQL: "!=", token.NEQ: "==", token.LSS: ">=", token.GEQ: "<", token.GTR: "<=", token.LEQ: ">"}
		if op, ok := flip[x.Op]; ok {
			return w.render(x.X) + " " + op + " " + w.render(x.Y)
		}
		return "!(" + w.render(e) + ")"
	}
	return "!" + w.render(e)
}

// ---------------------------------------------------------------------------------- call classification

type link struct {
	name string
	args []ast.Expr
}

// chain flattens a.b(x).c(y).d() into base `a` and links b(x) c(y) d().
func chain(c *ast.CallExpr) (ast.Expr, []link) {
	var links []link
	var cur ast.Expr = c
	for {
		call, ok := cur.(*ast.CallExpr)
		if !ok {
			return cur, links
		}
		sel, ok := call.Fun.(*ast.SelectorExpr)
		if !ok {
			return cur, links
		}
		links = append([]link{{sel.Sel.Name, call.Args}}, links...)
		cur = sel.X
	}
}

func (w *fnWalker) isClient(base string) bool {
	if strings.HasPrefix(base, "New(") && strings.HasSuffix(base, ").0") {
		return true // cli, err := clientv3.New(cfg)
	}
	for _, suf := range []string{".client", ".client.KV", ".client.Lease", ".client.Watcher"} {
		if base == w.self+suf {
			return true
		}
	}
	return false
}

func (w *fnWalker) kops(args []ast.Expr) []KOp {
	var out []KOp
	for _, a := range args {
		if c, ok := a.(*ast.CallExpr); ok {
			k := KOp{Kind: w.render(c.Fun), Args: []string{}}
			for _, x := range c.Args {
				k.Args = append(k.Args, w.render(x))
			}
			out = append(out, k)
		} else {
			out = append(out, KOp{Kind: "?", Args: []string{w.render(a)}})
		}
	}
	return out
}

func (w *fnWalker) cmps(args []ast.Expr) []Cmp {
	var out []Cmp
	for _, a := range args {
		c, ok := a.(*ast.CallExpr)
		if ok && w.render(c.Fun) == "Compare" && len(c.Args) == 3 {
			cm := Cmp{Rel: strings.Trim(w.render(c.Args[1]), "\""), Val: w.render(c.Args[2])}
			if t, ok := c.Args[0].(*ast.CallExpr); ok && len(t.Args) == 1 {
				cm.Target, cm.Key = w.render(t.Fun), w.render(t.Args[0])
			} else {
				cm.Target, cm.Key = "?", w.render(c.Args[0])
			}
			out = append(out, cm)
		} else {
			out = append(out, Cmp{Target: "?", Key: w.render(a)})
		}
	}
	return out
}

func prefixOf(a, b []string) bool {
	if len(a) > len(b) {
		return false
	}
	for i := range a {
		if a[i] != b[i] {
			return false
		}
	}
	return true
}

func common(a, b []string) int {
	n := 0
	for n < len(a) && n < len(b) && a[n] == b[n] {
		n++
	}
	return n
}

// emitTxn emits the row(s) of one committed transaction.  ifArgs: the arguments of an inline If (may name a
// compare variable); alternatives: conditional pieces of a builder.
func (w *fnWalker) emitTxn(id string, ifArgs []ast.Expr, base Row, pos token.Pos) {
	// a compare variable: one row per assignment
	if len(ifArgs) == 1 {
		if idn, ok := ifArgs[0].(*ast.Ident); ok && len(w.cmpVars[idn.Name]) > 0 {
			defs := w.cmpVars[idn.Name]
			for i, d := range defs {
				r := base
				r.Ifs = []Cmp{d.cmp}
				extra := append([]string{}, d.guard[common(d.guard, w.guards):]...)
				if i < len(defs)-1 {
					extra = append(extra, "unless reassigned")
				}
				w.emitWith(r, pos, extra)
			}
			return
		}
	}
	base.Ifs = append(base.Ifs, w.cmps(ifArgs)...)
	w.emitWith(base, pos, nil)
}

func (w *fnWalker) emitWith(r Row, pos token.Pos, extra []string) {
	saved := w.guards
	w.guards = append(append([]string{}, w.guards...), extra...)
	w.emit(r, pos)
	w.guards = saved
}

// commitBuilder assembles the rows of a transaction built in pieces.
func (w *fnWalker) commitBuilder(b *txnBuilder, pos token.Pos) {
	var uncondIfs []Cmp
	var uncondThen, uncondElse []KOp
	type alt struct {
		extra []string
		p     txnPiece
	}
	var alts []alt
	hasUncondIf := false
	for _, p := range b.pieces {
		if prefixOf(p.guard, w.guards) {
			uncondIfs = append(uncondIfs, p.ifs...)
			uncondThen = append(uncondThen, p.thn...)
			uncondElse = append(uncondElse, p.els...)
			hasUncondIf = hasUncondIf || p.isIf
		} else {
			alts = append(alts, alt{append([]string{}, p.guard[common(p.guard, w.guards):]...), p})
		}
	}
	mk := func(extra []string, p *txnPiece) {
		r := Row{Kind: "txn", ID: b.id, Ifs: append([]Cmp{}, uncondIfs...), Then: append([]KOp{}, uncondThen...), Else: append([]KOp{}, uncondElse...)}
		if p != nil {
			r.Ifs = append(r.Ifs, p.ifs...)
			r.Then = append(r.Then, p.thn...)
			r.Else = append(r.Else, p.els...)
		}
		w.emitWith(r, pos, extra)
	}
	if len(alts) == 0 {
		mk(nil, nil)
		return
	}
	for i := range alts {
		mk(alts[i].extra, &alts[i].p)
	}
	exhaustive := len(alts) == 2 && len(alts[0].extra) == 1 && len(alts[1].extra) == 1 &&
		(w.negOf[alts[0].extra[0]] == alts[1].extra[0] || w.negOf[alts[1].extra[0]] == alts[0].extra[0])
	if !exhaustive {
		mk([]string{"no conditional piece"}, nil)
	}
}

func ctxFree(args []string) []string {
	// the first argument of an etcd client call is its context: which one (and its timeout) is not a fact
	if len(args) > 0 {
		return args[1:]
	}
	return args
}

// effect classifies one call; returns the effect id ("" when the call is not an effect) and
// whether the walker should still look inside the call's arguments.
func (w *fnWalker) effect(c *ast.CallExpr, async bool) (string, bool) {
	base, links := chain(c)
	if len(links) > 0 {
		bs := w.render(base)
		// ---- transaction chains
		for i, l := range links {
			if l.name == "Txn" && i == 0 && w.isClient(bs) {
				id := w.newID("Txn")
				r := Row{Kind: "txn", ID: id, Ifs: []Cmp{}, Then: []KOp{}, Else: []KOp{}}
				committed := false
				var ifArgs []ast.Expr
				for _, m := range links[1:] {
					switch m.name {
					case "If":
						ifArgs = append(ifArgs, m.args...)
					case "Then":
						r.Then = append(r.Then, w.kops(m.args)...)
					case "Else":
						r.Else = append(r.Else, w.kops(m.args)...)
					case "Commit":
						committed = true
					default:
						r.Else = append(r.Else, KOp{Kind: "?" + m.name, Args: []string{}})
					}
				}
				if !committed {
					if len(links) == 1 && w.pendingBuilder != "" {
						// txn := cli.Txn(ctx): a transaction built in pieces
						w.builders[w.pendingBuilder] = &txnBuilder{id: id}
						return id, false
					}
					r.Then = append(r.Then, KOp{Kind: "NOT-COMMITTED", Args: []string{}})
				}
				w.emitTxn(id, ifArgs, r, c.Pos())
				return id, false
			}
		}
		// ---- pieces of a transaction held in a variable
		if idn, ok := base.(*ast.Ident); ok && w.builders[idn.Name] != nil {
			b := w.builders[idn.Name]
			for _, m := range links {
				p := txnPiece{guard: append([]string{}, w.guards...)}
				switch m.name {
				case "If":
					p.ifs, p.isIf = w.cmps(m.args), true
				case "Then":
					p.thn = w.kops(m.args)
				case "Else":
					p.els = w.kops(m.args)
				case "Commit":
					w.commitBuilder(b, c.Pos())
					return b.id, false
				default:
					p.els = []KOp{{Kind: "?" + m.name, Args: []string{}}}
				}
				b.pieces = append(b.pieces, p)
			}
			return "", false
		}
		last := links[len(links)-1]
		var args []string
		for _, a := range last.args {
			args = append(args, w.render(a))
		}
		if args == nil {
			args = []string{}
		}
		if len(links) == 1 {
			// ---- plain etcd call
			if w.isClient(bs) {
				id := w.newID(last.name)
				w.emit(Row{Kind: "etcd", ID: id, Method: last.name, Args: ctxFree(args)}, c.Pos())
				return id, false
			}
			// ---- mutex
			if bs == w.self+".mu" {
				switch last.name {
				case "Lock":
					w.lock = 2
				case "RLock":
					w.lock = 1
				case "Unlock", "RUnlock":
					w.lock = 0
				}
				return "", false
			}
			// ---- atomic field store
			if strings.HasPrefix(bs, w.self+".") && last.name == "Store" && len(args) == 1 {
				w.emit(Row{Kind: "write", Target: bs, Value: args[0], Locked: w.lock == 2}, c.Pos())
				return "", false
			}
			// ---- session life cycle
			if bs == "concurrency" && last.name == "NewSession" {
				id := w.newID("NewSession")
				w.emit(Row{Kind: "session", ID: id, Method: "NewSession", Recv: "", Args: args}, c.Pos())
				return id, false
			}
			switch last.name {
			case "Close", "Orphan", "Revoke", "Grant", "KeepAlive", "KeepAliveOnce":
				id := w.newID(last.name)
				w.emit(Row{Kind: "session", ID: id, Method: last.name, Recv: bs, Args: args}, c.Pos())
				return id, false
			case "If", "Then", "Else", "Commit":
				// a transaction built in pieces: not the shape the model assumes
				id := w.newID(last.name)
				w.emit(Row{Kind: "etcd", ID: id, Method: "." + last.name, Args: append([]string{bs}, args...)}, c.Pos())
				return id, false
			}
			// ---- the local copy
			if w.self != "" && bs == w.self+".metadata" {
				id := w.newID("metadata." + last.name)
				if len(args) > 0 && (args[0] == "ctx" || strings.HasPrefix(args[0], "context.")) {
					args = args[1:]
				}
				w.emit(Row{Kind: "call", ID: id, Method: "metadata." + last.name, Args: args, Async: async}, c.Pos())
				return id, false
			}
			// ---- call of another method of the tracked type
			if bs == w.self && w.methods[last.name] {
				id := w.newID(last.name)
				w.emit(Row{Kind: "call", ID: id, Method: last.name, Args: args, Async: async}, c.Pos())
				return id, false
			}
		}
	}
	if id, ok := c.Fun.(*ast.Ident); ok && w.funcParams[id.Name] {
		var args []string
		for _, a := range c.Args {
			args = append(args, w.render(a))
		}
		if args == nil {
			args = []string{}
		}
		eid := w.newID(id.Name)
		w.emit(Row{Kind: "call", ID: eid, Method: id.Name, Args: args, Async: async}, c.Pos())
		return eid, false
	}
	if id, ok := c.Fun.(*ast.Ident); ok && id.Name == "delete" && len(c.Args) == 2 {
		t := w.render(c.Args[0])
		if strings.HasPrefix(t, w.self+".") || w.mutable[t] {
			w.emit(Row{Kind: "write", Target: "delete " + t, Index: w.render(c.Args[1]), Value: "", Locked: w.lock == 2}, c.Pos())
			return "", false
		}
	}
	return "", true
}

// exprEffects finds the effects inside an expression, in source order.  Returns the id of the
// effect when the expression IS one effect call (so that its results can be named).
func (w *fnWalker) exprEffects(e ast.Expr, async bool) string {
	if e == nil {
		return ""
	}
	if c, ok := e.(*ast.CallExpr); ok {
		id, descend := w.effect(c, async)
		if !descend {
			return id
		}
	}
	ast.Inspect(e, func(n ast.Node) bool {
		switch x := n.(type) {
		case *ast.FuncLit:
			w.guards = append(w.guards, "in func literal")
			w.push()
			w.block(x.Body.List)
			w.pop()
			w.guards = w.guards[:len(w.guards)-1]
			return false
		case *ast.CallExpr:
			if n == ast.Node(e) {
				return true
			}
			_, descend := w.effect(x, false)
			return descend
		}
		return true
	})
	return ""
}

// ---------------------------------------------------------------------------------- statements

func terminates(s ast.Stmt) bool {
	switch x := s.(type) {
	case *ast.ReturnStmt:
		return true
	case *ast.BranchStmt:
		return x.Tok != token.FALLTHROUGH
	case *ast.BlockStmt:
		return len(x.List) > 0 && terminates(x.List[len(x.List)-1])
	case *ast.IfStmt:
		return x.Else != nil && terminates(x.Body) && terminates(x.Else)
	case *ast.ExprStmt:
		if c, ok := x.X.(*ast.CallExpr); ok {
			if id, ok := c.Fun.(*ast.Ident); ok && id.Name == "panic" {
				return true
			}
		}
	case *ast.SelectStmt:
		for _, cl := range x.Body.List {
			cc := cl.(*ast.CommClause)
			if len(cc.Body) == 0 || !terminates(cc.Body[len(cc.Body)-1]) {
				return false
			}
		}
		return true
	}
	return false
}

func (w *fnWalker) assign(s *ast.AssignStmt) {
	if len(s.Lhs) == 1 && len(s.Rhs) == 1 {
		if l, ok := s.Lhs[0].(*ast.Ident); ok {
			if c, ok := s.Rhs[0].(*ast.CallExpr); ok {
				// cmp := clientv3.Compare(..) / cmp = clientv3.Compare(..)
				if w.render(c.Fun) == "Compare" && len(c.Args) == 3 {
					w.cmpVars[l.Name] = append(w.cmpVars[l.Name], cmpDef{append([]string{}, w.guards...), w.cmps([]ast.Expr{c})[0]})
					return
				}
				base, links := chain(c)
				// txn = txn.If(..) / txn = txn.Then(..)
				if idn, ok := base.(*ast.Ident); ok && idn.Name == l.Name && w.builders[l.Name] != nil {
					w.exprEffects(c, false)
					return
				}
				// txn := cli.Txn(ctx)
				if len(links) == 1 && links[0].name == "Txn" && w.isClient(w.render(base)) {
					w.pendingBuilder = l.Name
					w.exprEffects(c, false)
					w.pendingBuilder = ""
					return
				}
			}
		}
	}
	// effects of the right-hand sides first (source order: evaluated before the store)
	ids := make([]string, len(s.Rhs))
	for i, r := range s.Rhs {
		ids[i] = w.exprEffects(r, false)
	}
	for i, l := range s.Lhs {
		var val string
		if len(s.Rhs) == len(s.Lhs) {
			if ids[i] != "" {
				val = ids[i] + ".0"
			} else {
				val = w.render(s.Rhs[i])
				if se, ok := s.Rhs[i].(*ast.SelectorExpr); ok && s.Tok == token.DEFINE {
					if id, ok := se.X.(*ast.Ident); ok && id.Name == w.self {
						val = "old(" + val + ")" // a snapshot of a field that may be overwritten afterwards
					}
				}
			}
		} else { // a, b := f()
			if ids[0] != "" {
				val = fmt.Sprintf("%s.%d", ids[0], i)
			} else {
				val = fmt.Sprintf("%s.%d", w.render(s.Rhs[0]), i)
			}
		}
		switch t := l.(type) {
		case *ast.Ident:
			if t.Name == "_" {
				continue
			}
			if w.mutable[t.Name] {
				w.emit(Row{Kind: "write", Target: t.Name, Value: val, Locked: w.lock == 2}, s.Pos())
			} else {
				w.define(t.Name, val)
			}
		default:
			tt, idx := w.render(l), ""
			if ie, ok := l.(*ast.IndexExpr); ok {
				tt, idx = w.render(ie.X), w.render(ie.Index)
			}
			root := tt
			if j := strings.IndexAny(root, ".["); j >= 0 {
				root = root[:j]
			}
			if root == w.self || w.mutable[root] {
				w.emit(Row{Kind: "write", Target: tt, Index: idx, Value: val, Locked: w.lock == 2}, s.Pos())
			}
		}
	}
}

func (w *fnWalker) withGuard(g string, f func()) {
	w.guards = append(w.guards, g)
	w.push()
	f()
	w.pop()
	w.guards = w.guards[:len(w.guards)-1]
}

func mergeLock(states []int) int {
	if len(states) == 0 {
		return 0
	}
	for _, s := range states[1:] {
		if s != states[0] {
			return 0
		}
	}
	return states[0]
}

// block walks statements; an `if c { ...terminates }` adds !c to the guards of the rest of the block.
func (w *fnWalker) block(list []ast.Stmt) {
	added := 0
	for _, s := range list {
		added += w.stmt(s)
	}
	w.guards = w.guards[:len(w.guards)-added]
}

// stmt returns how many persistent guards it pushed for the remainder of the enclosing block.
func (w *fnWalker) stmt(s ast.Stmt) int {
	switch x := s.(type) {
	case *ast.AssignStmt:
		w.assign(x)
	case *ast.DeclStmt:
		if gd, ok := x.Decl.(*ast.GenDecl); ok {
			for _, sp := range gd.Specs {
				if vs, ok := sp.(*ast.ValueSpec); ok {
					for i, n := range vs.Names {
						if i < len(vs.Values) {
							id := w.exprEffects(vs.Values[i], false)
							val := w.render(vs.Values[i])
							if id != "" {
								val = id + ".0"
							}
							if w.mutable[n.Name] {
								w.emit(Row{Kind: "write", Target: n.Name, Value: val, Locked: w.lock == 2}, x.Pos())
							} else {
								w.define(n.Name, val)
							}
						}
					}
				}
			}
		}
	case *ast.ExprStmt:
		w.exprEffects(x.X, false)
	case *ast.GoStmt:
		w.exprEffects(x.Call, true)
	case *ast.DeferStmt:
		// deferred unlocks keep the region locked to the end; other deferred calls (cancel) are no facts
		if c := x.Call; c != nil {
			base, links := chain(c)
			if len(links) == 1 && w.render(base) == w.self+".mu" {
				return 0
			}
			w.withGuard("deferred", func() { w.exprEffects(c, false) })
		}
	case *ast.IncDecStmt:
		t := w.render(x.X)
		root := t
		if j := strings.IndexAny(root, ".["); j >= 0 {
			root = root[:j]
		}
		if root == w.self || w.mutable[root] {
			w.emit(Row{Kind: "write", Target: t, Value: t + " " + x.Tok.String(), Locked: w.lock == 2}, x.Pos())
		}
	case *ast.ReturnStmt:
		vals := []string{}
		for _, r := range x.Results {
			id := w.exprEffects(r, false)
			if id != "" {
				vals = append(vals, id)
			} else {
				vals = append(vals, w.render(r))
			}
		}
		w.emit(Row{Kind: "ret", Args: vals}, x.Pos())
	case *ast.BranchStmt:
		w.emit(Row{Kind: "jump", Method: x.Tok.String()}, x.Pos())
	case *ast.BlockStmt:
		w.push()
		w.block(x.List)
		w.pop()
	case *ast.LabeledStmt:
		return w.stmt(x.Stmt)
	case *ast.IfStmt:
		w.push() // scope of the init statement
		pushed := 0
		if x.Init != nil {
			w.stmt(x.Init)
		}
		w.exprEffects(x.Cond, false)
		pos, neg := w.render(x.Cond), negate(x.Cond, w)
		if x.Else != nil {
			w.negOf[pos] = neg
		}
		before := w.lock
		var ends []int
		w.withGuard(pos, func() { w.block(x.Body.List) })
		bodyTerm := terminates(x.Body)
		if !bodyTerm {
			ends = append(ends, w.lock)
		}
		elseTerm := false
		if x.Else != nil {
			w.lock = before
			w.withGuard(neg, func() { w.stmt(x.Else) })
			elseTerm = terminates(x.Else)
			if !elseTerm {
				ends = append(ends, w.lock)
			}
		} else {
			ends = append(ends, before)
		}
		w.lock = mergeLock(ends)
		// the init scope ends here, but the guard text has already been rendered with it
		w.pop()
		if bodyTerm && !elseTerm {
			w.guards = append(w.guards, neg)
			pushed = 1
		} else if elseTerm && !bodyTerm {
			w.guards = append(w.guards, pos)
			pushed = 1
		}
		return pushed
	case *ast.ForStmt:
		w.push()
		if x.Init != nil {
			w.stmt(x.Init)
		}
		g := "for"
		if x.Cond != nil {
			w.exprEffects(x.Cond, false)
			g = "for " + w.render(x.Cond)
		}
		w.withGuard(g, func() {
			w.block(x.Body.List)
			if x.Post != nil {
				w.stmt(x.Post)
			}
		})
		w.pop()
	case *ast.RangeStmt:
		id := w.exprEffects(x.X, false)
		src := w.render(x.X)
		if id != "" {
			src = id + ".0"
		}
		g := "range " + src
		vars := []string{}
		for _, v := range []ast.Expr{x.Key, x.Value} {
			if v == nil {
				vars = append(vars, "_")
			} else {
				vars = append(vars, raw(v))
			}
		}
		if x.Value == nil {
			vars = vars[:1]
		}
		g = "for " + strings.Join(vars, ", ") + " := " + g
		w.withGuard(g, func() {
			// range variables keep their names (the loop guard says what they range over)
			for _, v := range []ast.Expr{x.Key, x.Value} {
				if idn, ok := v.(*ast.Ident); ok && idn.Name != "_" {
					w.define(idn.Name, idn.Name)
				}
			}
			w.block(x.Body.List)
		})
	case *ast.SwitchStmt:
		w.push()
		if x.Init != nil {
			w.stmt(x.Init)
		}
		tag := ""
		if x.Tag != nil {
			w.exprEffects(x.Tag, false)
			tag = w.render(x.Tag)
		}
		before := w.lock
		var ends []int
		hasDefault := false
		for _, cl := range x.Body.List {
			cc := cl.(*ast.CaseClause)
			var g string
			if cc.List == nil {
				g = "default(" + tag + ")"
				hasDefault = true
			} else {
				var alts []string
				for _, e := range cc.List {
					if tag != "" {
						alts = append(alts, tag+" == "+w.render(e))
					} else {
						alts = append(alts, w.render(e))
					}
				}
				g = strings.Join(alts, " || ")
			}
			w.lock = before
			w.withGuard(g, func() { w.block(cc.Body) })
			if len(cc.Body) == 0 || !terminates(cc.Body[len(cc.Body)-1]) {
				ends = append(ends, w.lock)
			}
		}
		if !hasDefault {
			ends = append(ends, before)
		}
		w.lock = mergeLock(ends)
		w.pop()
	case *ast.TypeSwitchStmt:
		w.withGuard("typeswitch "+strip(raw(x.Assign)), func() {
			for _, cl := range x.Body.List {
				cc := cl.(*ast.CaseClause)
				w.withGuard("case "+strip(raw(cc)), func() { w.block(cc.Body) })
			}
		})
	case *ast.SelectStmt:
		before := w.lock
		var ends []int
		for _, cl := range x.Body.List {
			cc := cl.(*ast.CommClause)
			g := "select-default"
			if cc.Comm != nil {
				switch c := cc.Comm.(type) {
				case *ast.ExprStmt:
					g = "select " + w.render(c.X)
				case *ast.AssignStmt:
					g = "select " + w.render(c.Rhs[0])
				case *ast.SendStmt:
					g = "select " + w.render(c.Chan) + " <- " + w.render(c.Value)
				}
			}
			w.lock = before
			w.withGuard(g, func() {
				if a, ok := cc.Comm.(*ast.AssignStmt); ok {
					for _, l := range a.Lhs {
						if idn, ok := l.(*ast.Ident); ok {
							w.define(idn.Name, idn.Name)
						}
					}
				}
				w.block(cc.Body)
			})
			if len(cc.Body) == 0 || !terminates(cc.Body[len(cc.Body)-1]) {
				ends = append(ends, w.lock)
			}
		}
		w.lock = mergeLock(ends)
	case *ast.SendStmt:
		w.exprEffects(x.Value, false)
	}
	return 0
}

// ---------------------------------------------------------------------------------- driver

func recvType(fd *ast.FuncDecl) (string, string) {
	if fd.Recv == nil || len(fd.Recv.List) != 1 {
		return "", ""
	}
	f := fd.Recv.List[0]
	t := f.Type
	if st, ok := t.(*ast.StarExpr); ok {
		t = st.X
	}
	id, ok := t.(*ast.Ident)
	if !ok {
		return "", ""
	}
	name := "_"
	if len(f.Names) == 1 {
		name = f.Names[0].Name
	}
	return id.Name, name
}

// constructed returns the local that holds &T{...} in a plain function.
func constructed(fd *ast.FuncDecl, typ string) string {
	self := ""
	ast.Inspect(fd.Body, func(n ast.Node) bool {
		as, ok := n.(*ast.AssignStmt)
		if !ok || len(as.Lhs) != 1 || len(as.Rhs) != 1 {
			return true
		}
		u, ok := as.Rhs[0].(*ast.UnaryExpr)
		if !ok || u.Op != token.AND {
			return true
		}
		cl, ok := u.X.(*ast.CompositeLit)
		if !ok {
			return true
		}
		if id, ok := cl.Type.(*ast.Ident); ok && id.Name == typ {
			if l, ok := as.Lhs[0].(*ast.Ident); ok && self == "" {
				self = l.Name
			}
		}
		return true
	})
	return self
}

// mutables: locals assigned with `=`, inc/dec'ed or index-assigned, and parameters assigned with `=`.
func mutables(fd *ast.FuncDecl) map[string]bool {
	m := map[string]bool{}
	ast.Inspect(fd.Body, func(n ast.Node) bool {
		switch x := n.(type) {
		case *ast.AssignStmt:
			for _, l := range x.Lhs {
				switch t := l.(type) {
				case *ast.Ident:
					if x.Tok != token.DEFINE && t.Name != "_" {
						m[t.Name] = true
					}
				case *ast.IndexExpr:
					if id, ok := t.X.(*ast.Ident); ok {
						m[id.Name] = true
					}
				}
			}
		case *ast.IncDecStmt:
			if id, ok := x.X.(*ast.Ident); ok {
				m[id.Name] = true
			}
		}
		return true
	})
	// `err` is re-declared and re-assigned all over idiomatic Go; it is tracked flow-sensitively instead
	delete(m, "err")
	return m
}

func newWalker(table string, fd *ast.FuncDecl, self string, methods map[string]bool) *fnWalker {
	w := &fnWalker{table: table, fn: fd.Name.Name, self: self, methods: methods, mutable: mutables(fd), counts: map[string]int{},
		funcParams: map[string]bool{}, builders: map[string]*txnBuilder{}, cmpVars: map[string][]cmpDef{}, negOf: map[string]string{}}
	if fd.Type.Params != nil {
		for _, f := range fd.Type.Params.List {
			if _, ok := f.Type.(*ast.FuncType); ok {
				for _, n := range f.Names {
					w.funcParams[n.Name] = true
				}
			}
		}
	}
	// compare variables are expanded at the transaction, never written as plain locals
	ast.Inspect(fd.Body, func(n ast.Node) bool {
		if as, ok := n.(*ast.AssignStmt); ok && len(as.Lhs) == 1 && len(as.Rhs) == 1 {
			if c, ok := as.Rhs[0].(*ast.CallExpr); ok {
				if sel, ok := c.Fun.(*ast.SelectorExpr); ok && sel.Sel.Name == "Compare" {
					if l, ok := as.Lhs[0].(*ast.Ident); ok {
						delete(w.mutable, l.Name)
					}
				}
			}
		}
		return true
	})
	return w
}

// collectLiterals: `func snapshotKey() string { return "lit" }` and package-level `const k = "lit"`.
func collectLiterals(f *ast.File) {
	for _, d := range f.Decls {
		switch x := d.(type) {
		case *ast.FuncDecl:
			if x.Recv == nil && x.Body != nil && len(x.Body.List) == 1 && (x.Type.Params == nil || len(x.Type.Params.List) == 0) {
				if r, ok := x.Body.List[0].(*ast.ReturnStmt); ok && len(r.Results) == 1 {
					if lit, ok := r.Results[0].(*ast.BasicLit); ok && lit.Kind == token.STRING {
						literals[x.Name.Name+"()"] = lit.Value
					}
				}
			}
		case *ast.GenDecl:
			if x.Tok == token.CONST {
				for _, sp := range x.Specs {
					if vs, ok := sp.(*ast.ValueSpec); ok {
						for i, n := range vs.Names {
							if i < len(vs.Values) {
								if lit, ok := vs.Values[i].(*ast.BasicLit); ok && lit.Kind == token.STRING {
									literals[n.Name] = lit.Value
								}
							}
						}
					}
				}
			}
		}
	}
}

// extractFile: typ != "" -> the methods of typ named in `only`; typ == "" -> the plain functions named in `only`.
func extractFile(path, table, typ string, only map[string]bool) []Row {
	f, err := parser.ParseFile(fset, path, nil, 0)
	if err != nil {
		fail("%v", err)
	}
	literals = map[string]string{}
	collectLiterals(f)
	methods := map[string]bool{}
	var decls []*ast.FuncDecl
	selfOf := map[*ast.FuncDecl]string{}
	for _, d := range f.Decls {
		fd, ok := d.(*ast.FuncDecl)
		if !ok || fd.Body == nil {
			continue
		}
		t, name := recvType(fd)
		if typ != "" && t == typ {
			methods[fd.Name.Name] = true
			decls = append(decls, fd)
			selfOf[fd] = name
		} else if typ == "" && fd.Recv == nil && only[fd.Name.Name] {
			decls = append(decls, fd)
			selfOf[fd] = ""
		}
	}
	found := map[string]bool{}
	var out []Row
	for _, fd := range decls {
		if !only[fd.Name.Name] {
			continue
		}
		found[fd.Name.Name] = true
		w := newWalker(table, fd, selfOf[fd], methods)
		w.push()
		w.block(fd.Body.List)
		out = append(out, relevant(w)...)
	}
	for n := range only {
		if !found[n] {
			fail("%s: function %s not found", path, n)
		}
	}
	return out
}

// writers: every function of the package's non-test files whose Put / Delete / OpPut / OpDelete names `key`.
func writers(dir, key string) []Row {
	ents, err := os.ReadDir(dir)
	if err != nil {
		fail("%v", err)
	}
	var out []Row
	for _, e := range ents {
		n := e.Name()
		if e.IsDir() || !strings.HasSuffix(n, ".go") || strings.HasSuffix(n, "_test.go") {
			continue
		}
		f, err := parser.ParseFile(fset, filepath.Join(dir, n), nil, 0)
		if err != nil {
			fail("%v", err)
		}
		literals = map[string]string{}
		collectLiterals(f)
		for _, d := range f.Decls {
			fd, ok := d.(*ast.FuncDecl)
			if !ok || fd.Body == nil {
				continue
			}
			// function-local constants
			w := newWalker("writers", fd, "", map[string]bool{})
			w.push()
			ast.Inspect(fd.Body, func(nd ast.Node) bool {
				if gd, ok := nd.(*ast.GenDecl); ok && gd.Tok == token.CONST {
					for _, sp := range gd.Specs {
						if vs, ok := sp.(*ast.ValueSpec); ok {
							for i, nm := range vs.Names {
								if i < len(vs.Values) {
									w.define(nm.Name, w.render(vs.Values[i]))
								}
							}
						}
					}
				}
				return true
			})
			ast.Inspect(fd.Body, func(nd ast.Node) bool {
				c, ok := nd.(*ast.CallExpr)
				if !ok {
					return true
				}
				sel, ok := c.Fun.(*ast.SelectorExpr)
				if !ok {
					return true
				}
				if sel.Sel.Name == "persistSnapshotLocked" {
					args := []string{}
					for _, a := range c.Args {
						args = append(args, w.render(a))
					}
					out = append(out, Row{Table: "writers", Fn: fd.Name.Name, Line: fset.Position(c.Pos()).Line, Guard: []string{}, Reads: []string{},
						Kind: "call", Method: "persistSnapshotLocked", Args: args})
					return true
				}
				ki := -1
				switch sel.Sel.Name {
				case "Put", "Delete":
					ki = 1
				case "OpPut", "OpDelete":
					ki = 0
				}
				if ki >= 0 && ki < len(c.Args) && w.render(c.Args[ki]) == key {
					out = append(out, Row{Table: "writers", Fn: fd.Name.Name, Line: fset.Position(c.Pos()).Line, Guard: []string{}, Reads: []string{},
						Kind: "etcd", Method: sel.Sel.Name, Args: []string{key}})
				}
				return true
			})
		}
	}
	return out
}

var identRe = regexp.MustCompile(`[A-Za-z_][A-Za-z0-9_]*`)

func localRoot(w *fnWalker, r Row) string {
	if r.Kind != "write" {
		return ""
	}
	t := strings.TrimPrefix(r.Target, "delete ")
	if j := strings.IndexAny(t, ".["); j >= 0 {
		t = t[:j]
	}
	if t == w.self {
		return ""
	}
	return t
}

// relevant drops writes to re-assigned locals that no other row mentions (logger = slog.Default() ...).
func relevant(w *fnWalker) []Row {
	mentioned := map[string]bool{}
	for _, r := range w.rows {
		root := localRoot(w, r)
		texts := append([]string{}, r.Guard...)
		texts = append(texts, r.Args...)
		texts = append(texts, r.Recv, r.Value)
		if root == "" {
			texts = append(texts, r.Target)
		}
		for _, c := range r.Ifs {
			texts = append(texts, c.Key, c.Val)
		}
		for _, o := range append(append([]KOp{}, r.Then...), r.Else...) {
			texts = append(texts, o.Args...)
		}
		for _, t := range texts {
			for _, id := range identRe.FindAllString(t, -1) {
				if id != root {
					mentioned[id] = true
				}
			}
		}
	}
	var out []Row
	for _, r := range w.rows {
		if root := localRoot(w, r); root != "" && !mentioned[root] {
			continue
		}
		out = append(out, r)
	}
	return out
}

const snapshotKeyLit = "\"/kafscale/metadata/snapshot\""

func set(xs ...string) map[string]bool {
	m := map[string]bool{}
	for _, x := range xs {
		m[x] = true
	}
	return m
}

func main() {
	if len(os.Args) != 2 {
		fail("usage: extract <repo root>")
	}
	root := os.Args[1]
	var rows []Row
	rows = append(rows, extractFile(filepath.Join(root, "pkg", "metadata", "etcd_store.go"), "store", "EtcdStore",
		set("updateSnapshot", "refreshSnapshot", "refreshSnapshotLocked", "persistSnapshotLocked", "UpdateOffsets"))...)
	rows = append(rows, extractFile(filepath.Join(root, "pkg", "operator", "snapshot.go"), "operator", "",
		set("PublishMetadataSnapshot"))...)
	rows = append(rows, writers(filepath.Join(root, "pkg", "metadata"), snapshotKeyLit)...)
	rows = append(rows, writers(filepath.Join(root, "pkg", "operator"), snapshotKeyLit)...)
	enc := json.NewEncoder(os.Stdout)
	enc.SetEscapeHTML(false)
	for _, r := range rows {
		if r.Guard == nil {
			r.Guard = []string{}
		}
		if err := enc.Encode(r); err != nil {
			fail("%v", err)
		}
	}
}
