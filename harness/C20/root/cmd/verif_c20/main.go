//go:build verif

// C20 correspondence harness: a real PartitionRouter / GroupRouter over an embedded etcd.  The
// router's clientv3.Client has an interposed KV (its Get = loadAll's read is gated and can be
// failed) and an interposed Watcher (the Watch call is gated; the returned channel is a wrapper
// the schedule can close).  Lease puts/deletes are committed by an admin client exactly where the
// schedule says: before the load, between load and watch registration, while the watch is down.
// `sync` waits until everything the watch owes has been applied and prints table vs etcd.
package main

import (
	"bufio"
	"context"
	"errors"
	"fmt"
	"io"
	"log/slog"
	"net/url"
	"os"
	"sort"
	"strconv"
	"strings"
	"sync"
	"time"

	clientv3 "go.etcd.io/etcd/client/v3"
	"go.etcd.io/etcd/server/v3/embed"
	"go.uber.org/zap"

	"github.com/KafScale/platform/pkg/metadata"
)

const sentinel = "~verif-sync"

type partKey struct {
	topic string
	part  int32
}

// key id -> suffix under the prefix; the same table is in checks/C20.py (ACCEPTED)
var partSuffix = []string{"orders/0", "orders/1", "a/b/2", "a:b/3", "pay.v1/10", "noslash", "t/x", "t/5/", "/3", "t/99999999999", "t/-1", "orders/2147483647"}
var partParsed = map[int]partKey{0: {"orders", 0}, 1: {"orders", 1}, 2: {"a/b", 2}, 3: {"a:b", 3}, 4: {"pay.v1", 10}, 10: {"t", -1}, 11: {"orders", 2147483647}}
var groupSuffix = []string{"g0", "g1", "billing", "a/b", "g:x", ""}

const stepTimeout = 6 * time.Second

type harness struct {
	admin  *clientv3.Client
	kind   string
	prefix string

	arrive chan string
	resume chan string // "go" | "fail"
	at     string      // gate the router goroutine is parked at: "get" | "watch" | ""
	dead   string      // first stuck marker of this case; later ops are skipped

	mu        sync.Mutex
	watchOn   bool
	cancelW   context.CancelFunc
	sentSeen  chan int64
	barrier   chan chan struct{}
	compacted int64 // last revision passed to Compact

	pr          *metadata.PartitionRouter
	gr          *metadata.GroupRouter
	started     bool
	constructed bool
	result      chan error
	stop        context.CancelFunc
}

var errInjected = errors.New("verif: injected etcd read failure")

func (h *harness) sentinelKey() string {
	if h.kind == "group" {
		return h.prefix + "/" // empty group id: rejected by groupLeaseKeyToGroupID
	}
	return h.prefix + "/~verif-sync" // no partition component: rejected by leaseKeyToRouteKey
}

// park blocks the router goroutine at a gate; false when the case was torn down meanwhile.
func (h *harness) park(what string) (string, bool) {
	select {
	case h.arrive <- what:
	case <-time.After(60 * time.Second):
		return "", false
	}
	select {
	case cmd := <-h.resume:
		return cmd, true
	case <-time.After(120 * time.Second):
		return "", false
	}
}

// ---------------------------------------------------------------- interposers

type gKV struct {
	clientv3.KV
	h *harness
}

func (k *gKV) Get(ctx context.Context, key string, opts ...clientv3.OpOption) (*clientv3.GetResponse, error) {
	cmd, ok := k.h.park("get")
	if !ok || cmd == "fail" {
		return nil, errInjected
	}
	return k.KV.Get(ctx, key, opts...)
}

type gWatcher struct {
	clientv3.Watcher
	h *harness
}

func (w *gWatcher) Watch(ctx context.Context, key string, opts ...clientv3.OpOption) clientv3.WatchChan {
	h := w.h
	cmd, ok := h.park("watch")
	out := make(chan clientv3.WatchResponse, 1)
	if !ok || cmd == "fail" || ctx.Err() != nil {
		close(out)
		return out
	}
	// A start revision before the compaction point: etcd answers with a compacted/cancelled
	// response and closes the stream.  Produced here deterministically (the server would do it
	// from its 100 ms sync loop).
	start := clientv3.OpGet(key, opts...).Rev()
	h.mu.Lock()
	compacted := h.compacted
	h.mu.Unlock()
	if start != 0 && start < compacted {
		out <- clientv3.WatchResponse{CompactRevision: compacted, Canceled: true}
		close(out)
		return out
	}
	wctx, cancel := context.WithCancel(ctx)
	real := w.Watcher.Watch(wctx, key, append(append([]clientv3.OpOption{}, opts...), clientv3.WithCreatedNotify())...)
	// the server has registered the watch once the created notification arrives
	select {
	case first, ok := <-real:
		if !ok || first.Err() != nil {
			cancel()
			close(out)
			return out
		}
	case <-time.After(stepTimeout):
		cancel()
		close(out)
		return out
	}
	fwd := make(chan clientv3.WatchResponse)
	h.mu.Lock()
	h.watchOn = true
	h.cancelW = cancel
	h.mu.Unlock()
	go func() {
		defer func() {
			h.mu.Lock()
			h.watchOn = false
			h.mu.Unlock()
			close(fwd)
		}()
		for {
			select {
			case resp, ok := <-real:
				if !ok {
					return
				}
				var seen int64
				for _, ev := range resp.Events {
					if string(ev.Kv.Key) == h.sentinelKey() && ev.Type == clientv3.EventTypePut && ev.Kv.ModRevision > seen {
						seen = ev.Kv.ModRevision
					}
				}
				select {
				case fwd <- resp:
				case <-wctx.Done():
					return
				}
				if seen > 0 {
					select {
					case h.sentSeen <- seen:
					default:
					}
				}
			case done := <-h.barrier:
				// an empty response: the router can only receive it after it has completely
				// applied everything forwarded before
				select {
				case fwd <- clientv3.WatchResponse{}:
				case <-wctx.Done():
				}
				close(done)
			case <-wctx.Done():
				return
			}
		}
	}()
	return fwd
}

// ---------------------------------------------------------------- ops

func (h *harness) key(k int) (string, bool) {
	if h.kind == "group" {
		if k < 0 || k >= len(groupSuffix) {
			return "", false
		}
		return h.prefix + "/" + groupSuffix[k], true
	}
	if k < 0 || k >= len(partSuffix) {
		return "", false
	}
	return h.prefix + "/" + partSuffix[k], true
}

// waitArrive waits for the router goroutine to park at its next gate and records which.
func (h *harness) waitArrive() string {
	select {
	case a := <-h.arrive:
		h.at = a
		return a
	case <-time.After(stepTimeout):
		h.at = ""
		return ""
	}
}

func (h *harness) release(cmd string) bool {
	select {
	case h.resume <- cmd:
		h.at = ""
		return true
	case <-time.After(stepTimeout):
		return false
	}
}

func (h *harness) dump() string {
	table := map[string]string{}
	lookup := map[int]string{}
	var extra []string
	h.mu.Lock()
	defer h.mu.Unlock()
	if h.kind == "group" && h.gr != nil {
		idx := map[string]int{}
		for i, s := range groupSuffix {
			idx[s] = i
		}
		for _, r := range h.gr.AllRoutes() {
			if i, ok := idx[r.GroupID]; ok {
				table[strconv.Itoa(i)] = r.BrokerID
			} else {
				extra = append(extra, "?"+r.GroupID+"="+r.BrokerID)
			}
		}
		for i, s := range groupSuffix {
			if s == "" {
				continue
			}
			if o := h.gr.LookupOwner(s); o != "" {
				lookup[i] = o
			}
		}
	} else if h.pr != nil {
		for _, r := range h.pr.AllRoutes() {
			found := false
			for i, pk := range partParsed {
				if pk.topic == r.Topic && pk.part == r.Partition {
					table[strconv.Itoa(i)] = r.BrokerID
					found = true
				}
			}
			if !found {
				extra = append(extra, fmt.Sprintf("?%s/%d=%s", r.Topic, r.Partition, r.BrokerID))
			}
		}
		for i, pk := range partParsed {
			if o := h.pr.LookupOwner(pk.topic, pk.part); o != "" {
				lookup[i] = o
			}
		}
	}
	etcd := map[int]string{}
	resp, err := h.admin.Get(context.Background(), h.prefix+"/", clientv3.WithPrefix())
	if err == nil {
		for _, kv := range resp.Kvs {
			suf := strings.TrimPrefix(string(kv.Key), h.prefix+"/")
			if h.kind == "group" {
				for i, s := range groupSuffix {
					if s == suf && s != "" {
						etcd[i] = string(kv.Value)
					}
				}
			} else {
				for i, s := range partSuffix {
					if _, acc := partParsed[i]; acc && s == suf {
						etcd[i] = string(kv.Value)
					}
				}
			}
		}
	}
	fm := func(m map[int]string) string {
		var ks []int
		for k := range m {
			ks = append(ks, k)
		}
		sort.Ints(ks)
		var out []string
		for _, k := range ks {
			out = append(out, fmt.Sprintf("%d:%s", k, m[k]))
		}
		return strings.Join(out, ",")
	}
	tm := map[int]string{}
	for k, v := range table {
		i, _ := strconv.Atoi(k)
		tm[i] = v
	}
	sort.Strings(extra)
	ts := fm(tm)
	if len(extra) > 0 {
		ts += "," + strings.Join(extra, ",")
	}
	return fmt.Sprintf("table=%s lookup=%s etcd=%s", strings.TrimPrefix(ts, ","), fm(lookup), fm(etcd))
}

func (h *harness) sync() string {
	h.mu.Lock()
	on := h.watchOn
	h.mu.Unlock()
	pre := fmt.Sprintf("watching=%v ", on)
	if on {
		for len(h.sentSeen) > 0 {
			<-h.sentSeen
		}
		ctx := context.Background()
		put, err := h.admin.Put(ctx, h.sentinelKey(), "x")
		if err != nil {
			return "stuck-sync-error " + pre + h.dump()
		}
		_, _ = h.admin.Delete(ctx, h.sentinelKey())
		deadline := time.After(stepTimeout)
		for got := int64(0); got < put.Header.Revision; {
			select {
			case got = <-h.sentSeen:
			case <-deadline:
				return "stuck-sync " + pre + h.dump()
			}
		}
		done := make(chan struct{})
		select {
		case h.barrier <- done:
			select {
			case <-done:
			case <-time.After(stepTimeout):
				return "stuck-sync " + pre + h.dump()
			}
		case <-time.After(stepTimeout):
			return "stuck-sync " + pre + h.dump()
		}
	}
	return pre + h.dump()
}

func (h *harness) exec(f []string) string {
	ctx := context.Background()
	switch f[0] {
	case "put":
		if len(f) != 3 {
			return "bad-op"
		}
		k, _ := strconv.Atoi(f[1])
		key, ok := h.key(k)
		if !ok {
			return "bad-op"
		}
		if _, err := h.admin.Put(ctx, key, "b"+f[2]); err != nil {
			return "put-error"
		}
		return "-"
	case "del":
		if len(f) != 2 {
			return "bad-op"
		}
		k, _ := strconv.Atoi(f[1])
		key, ok := h.key(k)
		if !ok {
			return "bad-op"
		}
		if _, err := h.admin.Delete(ctx, key); err != nil {
			return "del-error"
		}
		return "-"
	case "start":
		if h.started {
			return "bad-op"
		}
		h.started = true
		c := clientv3.NewCtxClient(ctx)
		c.KV = &gKV{KV: h.admin.KV, h: h}
		c.Watcher = &gWatcher{Watcher: h.admin.Watcher, h: h}
		c.Lease = h.admin.Lease
		rctx, cancel := context.WithCancel(ctx)
		h.stop = cancel
		logger := slog.New(slog.NewTextHandler(io.Discard, nil))
		go func() {
			var err error
			if h.kind == "group" {
				var r *metadata.GroupRouter
				r, err = metadata.NewGroupRouter(rctx, c, logger)
				h.mu.Lock()
				h.gr = r
				h.mu.Unlock()
			} else {
				var r *metadata.PartitionRouter
				r, err = metadata.NewPartitionRouter(rctx, c, logger)
				h.mu.Lock()
				h.pr = r
				h.mu.Unlock()
			}
			h.result <- err
		}()
		if h.waitArrive() != "get" {
			return "stuck-start"
		}
		return "-"
	case "load":
		if len(f) != 2 || !h.started {
			return "bad-op"
		}
		h.mu.Lock()
		running := h.watchOn
		h.mu.Unlock()
		if running && h.at == "" {
			return "-" // the watch is running: nothing to reload (no-op in the model as well)
		}
		if h.at == "watch" {
			return "no-reload" // the loop went straight to Watch without re-reading
		}
		if h.at != "get" {
			return "stuck-load"
		}
		cmd := "go"
		if f[1] == "fail" {
			cmd = "fail"
		}
		if !h.release(cmd) {
			return "stuck-load"
		}
		if !h.constructed {
			// the constructor returns first (nil router on a failed initial read)
			select {
			case err := <-h.result:
				if err != nil {
					h.started = false
					return "start-failed"
				}
				h.constructed = true
			case <-time.After(stepTimeout):
				return "stuck-constructor"
			}
		}
		if a := h.waitArrive(); a == "" {
			return "stuck-after-load"
		}
		return "-"
	case "watch":
		if !h.started {
			return "bad-op"
		}
		h.mu.Lock()
		running := h.watchOn
		h.mu.Unlock()
		if running && h.at == "" {
			return "-"
		}
		if h.at != "watch" {
			return "stuck-watch"
		}
		if !h.release("go") {
			return "stuck-watch"
		}
		// either the watch gets established, or it fails at once (compacted) and the loop comes
		// back to a gate after its 1 s sleep
		deadline := time.Now().Add(stepTimeout)
		for time.Now().Before(deadline) {
			h.mu.Lock()
			on := h.watchOn
			h.mu.Unlock()
			if on {
				return "-"
			}
			select {
			case a := <-h.arrive:
				h.at = a
				return "watch-failed"
			case <-time.After(300 * time.Microsecond):
			}
		}
		return "stuck-watch"
	case "close":
		h.mu.Lock()
		cancel, on := h.cancelW, h.watchOn
		h.mu.Unlock()
		if !on {
			return "bad-op"
		}
		cancel()
		switch h.waitArrive() { // the loop sleeps 1 s, then reloads
		case "get":
			return "-"
		case "watch":
			return "skipped-reload"
		}
		return "stuck-close"
	case "batch":
		var ops []clientv3.Op
		for _, x := range f[1:] {
			p := strings.Split(x, ":")
			k := -1
			if len(p) >= 2 {
				k, _ = strconv.Atoi(p[1])
			}
			key, ok := h.key(k)
			switch {
			case ok && p[0] == "p" && len(p) == 3:
				ops = append(ops, clientv3.OpPut(key, "b"+p[2]))
			case ok && p[0] == "d" && len(p) == 2:
				ops = append(ops, clientv3.OpDelete(key))
			default:
				return "bad-op"
			}
		}
		if len(ops) == 0 {
			return "bad-op"
		}
		if _, err := h.admin.Txn(ctx).Then(ops...).Commit(); err != nil {
			return "batch-error"
		}
		return "-"
	case "compact":
		resp, err := h.admin.Get(ctx, h.prefix+"/", clientv3.WithPrefix(), clientv3.WithCountOnly())
		if err != nil {
			return "compact-error"
		}
		h.mu.Lock()
		already := h.compacted == resp.Header.Revision
		h.mu.Unlock()
		if _, err := h.admin.Compact(ctx, resp.Header.Revision); err != nil && !already {
			return "compact-error"
		}
		h.mu.Lock()
		h.compacted = resp.Header.Revision
		h.mu.Unlock()
		return "-"
	case "invalidate":
		if len(f) != 2 {
			return "bad-op"
		}
		k, _ := strconv.Atoi(f[1])
		if h.kind == "group" {
			if h.gr == nil || k < 0 || k >= len(groupSuffix) {
				return "bad-op"
			}
			h.gr.Invalidate(groupSuffix[k])
		} else {
			pk, ok := partParsed[k]
			if h.pr == nil || !ok {
				return "bad-op"
			}
			h.pr.Invalidate(pk.topic, pk.part)
		}
		return "-"
	case "sync":
		return h.sync()
	}
	return "bad-op"
}

func (h *harness) teardown() {
	if h.stop != nil {
		h.stop()
	}
	h.mu.Lock()
	if h.cancelW != nil {
		h.cancelW()
	}
	h.mu.Unlock()
	// unblock a router goroutine parked at a gate (it then runs into the cancelled context)
	for i := 0; i < 6; i++ {
		select {
		case h.resume <- "fail":
		case <-h.arrive:
		case <-h.result:
		case <-time.After(10 * time.Millisecond):
		}
	}
	_, _ = h.admin.Delete(context.Background(), "/kafscale/", clientv3.WithPrefix())
}

func startEtcd() (*embed.Etcd, string, error) {
	dir, err := os.MkdirTemp("", "verif-c20-etcd-")
	if err != nil {
		return nil, "", err
	}
	cfg := embed.NewConfig()
	cfg.Dir = dir
	cfg.Logger = "zap"
	cfg.LogLevel = "error"
	cfg.LogOutputs = []string{dir + "/etcd.log"}
	cfg.UnsafeNoFsync = true
	u0, _ := url.Parse("http://127.0.0.1:0")
	cfg.ListenClientUrls = []url.URL{*u0}
	cfg.AdvertiseClientUrls = []url.URL{*u0}
	cfg.ListenPeerUrls = []url.URL{*u0}
	cfg.AdvertisePeerUrls = []url.URL{*u0}
	cfg.InitialCluster = cfg.InitialClusterFromName(cfg.Name)
	e, err := embed.StartEtcd(cfg)
	if err != nil {
		os.RemoveAll(dir)
		return nil, "", err
	}
	select {
	case <-e.Server.ReadyNotify():
	case <-time.After(20 * time.Second):
		e.Close()
		os.RemoveAll(dir)
		return nil, "", fmt.Errorf("etcd not ready")
	}
	return e, dir, nil
}

func main() {
	e, dir, err := startEtcd()
	if err != nil {
		fmt.Fprintln(os.Stderr, "start etcd:", err)
		os.Exit(3)
	}
	defer os.RemoveAll(dir)
	defer e.Close()
	admin, err := clientv3.New(clientv3.Config{Endpoints: []string{"http://" + e.Clients[0].Addr().String()}, DialTimeout: 5 * time.Second, Logger: zap.NewNop()})
	if err != nil {
		fmt.Fprintln(os.Stderr, "client:", err)
		os.Exit(3)
	}
	defer admin.Close()
	var h *harness
	out := bufio.NewWriter(os.Stdout)
	defer out.Flush()
	sc := bufio.NewScanner(os.Stdin)
	sc.Buffer(make([]byte, 1<<20), 1<<24)
	for sc.Scan() {
		f := strings.Fields(sc.Text())
		if len(f) == 0 || strings.HasPrefix(f[0], "#") {
			continue
		}
		if f[0] == "reset" && len(f) == 4 {
			// reset <variant (model only)> <accepted ids (model only)> <partition|group>
			if h != nil {
				h.teardown()
			}
			h = &harness{admin: admin, kind: f[3], arrive: make(chan string), resume: make(chan string),
				sentSeen: make(chan int64, 64), barrier: make(chan chan struct{}), result: make(chan error, 1)}
			if h.kind == "group" {
				h.prefix = metadata.GroupLeasePrefix()
			} else {
				h.prefix = metadata.PartitionLeasePrefix()
			}
			fmt.Fprintln(out, "reset")
			out.Flush()
			continue
		}
		if h == nil {
			fmt.Fprintln(out, "bad-op")
			continue
		}
		if h.dead != "" {
			fmt.Fprintln(out, "skipped-after-"+h.dead)
			out.Flush()
			continue
		}
		res := h.exec(f)
		if strings.HasPrefix(res, "stuck-") {
			h.dead = strings.Fields(res)[0]
		}
		fmt.Fprintln(out, res)
		out.Flush()
	}
	if h != nil {
		h.teardown()
	}
}
