//go:build verif

// A chunking / faulting fake of the S3 API as the clients of this repository see it (the `api` interface of
// storage.awsS3Client, the getObjectAPI of the processors' decoders).  ONE file, copied verbatim into
//
//	harness/C03s3/root/cmd/verif_c03s3/        (C03 / C06: real awsS3Client Download*/ListSegments, PartitionLog over it)
//	harness/C07/iceberg/cmd/verif_c07s3/       (C07: iceberg decoder's object fetch feeding Decode)
//	harness/C07/sql/cmd/verif_c07s3/           (C07: sql decoder's object fetch feeding Decode)
//
// (three Go modules, so it cannot be one package; checks/S3chunks.py refuses to run when the copies differ).
//
// The endpoint is an object map; every API kind (GET, LIST, PUT, DELETE, HEAD, CREATE) has its own queue of outcome
// tokens, one token per call of that kind in call order; an exhausted queue answers naturally.
//
//	.            natural answer for the endpoint's state
//	nsb nf slow nokey owned exists badrange     that API error
//	GET body token   b[:cl=none|exact|+K][:ch=a/b/c][:cut=Ju|Jr][:ew]
//	     cl=exact (default) ContentLength = length of the selected bytes; cl=none ContentLength unset;
//	     cl=+K    the endpoint announces K bytes more than it sends (an S3-compatible store that announces the requested
//	              range length although the range reaches past the object): like net/http the body then ends with
//	              io.ErrUnexpectedEOF after the last byte;
//	     ch=a/b/c the sizes of the successive Reads (a Read never returns more than len(p)); after the list the rest
//	              arrives in one Read per call; 0 = a Read that returns (0, nil);
//	     cut=Ju   the transfer ends after J bytes (J < length) with io.ErrUnexpectedEOF (what net/http reports when the
//	              connection closes before Content-Length bytes arrived), cut=Jr: with a connection-reset error;
//	     ew       the terminal condition (io.EOF or the error) is returned by the same Read as the last bytes.
//	LIST page token  pN   a page of at most N keys (N may be 0) — a SHORT page: IsTruncated and NextContinuationToken
//	              are set whenever keys remain, whatever the page's length; "." = min(MaxKeys, 1000) keys.
package main

import (
	"bytes"
	"context"
	"errors"
	"fmt"
	"io"
	"sort"
	"strconv"
	"strings"
	"sync"

	"github.com/aws/aws-sdk-go-v2/service/s3"
	"github.com/aws/aws-sdk-go-v2/service/s3/types"
)

const s3FakeMaxPage = 1000

type s3Fake struct {
	mu      sync.Mutex
	bucket  bool
	objects map[string][]byte
	q       map[string][]string // per API kind
	calls   []string
}

func newS3Fake(bucket bool) *s3Fake {
	return &s3Fake{bucket: bucket, objects: map[string][]byte{}, q: map[string][]string{}}
}

// script sets the token queue of one API kind ("-" or "" = empty).
func (f *s3Fake) script(kind, s string) {
	f.mu.Lock()
	defer f.mu.Unlock()
	if s == "-" || s == "" {
		delete(f.q, kind)
		return
	}
	f.q[kind] = strings.Split(s, ",")
}

func (f *s3Fake) clearScripts() {
	f.mu.Lock()
	defer f.mu.Unlock()
	f.q = map[string][]string{}
	f.calls = nil
}

func (f *s3Fake) callLog() string {
	f.mu.Lock()
	defer f.mu.Unlock()
	if len(f.calls) == 0 {
		return "-"
	}
	return strings.Join(f.calls, ",")
}

func (f *s3Fake) next(kind string) string {
	q := f.q[kind]
	if len(q) == 0 {
		return "."
	}
	f.q[kind] = q[1:]
	return q[0]
}

func (f *s3Fake) note(api, outcome string) { f.calls = append(f.calls, api+":"+outcome) }

// s3FakeErr: the typed API errors of the s3 package (they carry the error codes the clients switch on; no import
// of smithy-go, which is only an indirect dependency of the processors' modules).
func s3FakeErr(tok string) error {
	msg := "injected " + tok
	switch tok {
	case "nsb":
		return &types.NoSuchBucket{Message: &msg}
	case "nf":
		return &types.NotFound{Message: &msg}
	case "slow":
		return errors.New("api error SlowDown: reduce your request rate")
	case "owned":
		return &types.BucketAlreadyOwnedByYou{Message: &msg}
	case "exists":
		return &types.BucketAlreadyExists{Message: &msg}
	case "nokey":
		return &types.NoSuchKey{Message: &msg}
	case "badrange":
		return errors.New("api error InvalidRange: range not satisfiable")
	}
	return fmt.Errorf("unknown failure %q", tok)
}

// chunkBody is a response body that hands its bytes out in scripted pieces and ends with a scripted condition.
type chunkBody struct {
	data   []byte // the bytes that arrive
	sizes  []int  // sizes of the successive Reads
	term   error  // io.EOF or the transfer error
	ew     bool   // terminal condition together with the last bytes
	closed bool
}

func (b *chunkBody) Read(p []byte) (int, error) {
	if b.closed {
		return 0, errors.New("read on closed body")
	}
	if len(b.data) == 0 {
		return 0, b.term
	}
	if len(p) == 0 {
		return 0, nil
	}
	n := len(b.data)
	if len(b.sizes) > 0 {
		if b.sizes[0] < n {
			n = b.sizes[0]
		}
		b.sizes = b.sizes[1:]
	}
	if n > len(p) {
		n = len(p)
	}
	copy(p, b.data[:n])
	b.data = b.data[n:]
	if len(b.data) == 0 && b.ew && n > 0 {
		return n, b.term
	}
	return n, nil
}

func (b *chunkBody) Close() error { b.closed = true; return nil }

var errConnReset = errors.New("read tcp: connection reset by peer")

// s3FakeBody builds the GetObject answer for the selected bytes under a body token ("." = b).
func s3FakeBody(sel []byte, tok string) (*s3.GetObjectOutput, bool) {
	body := &chunkBody{data: append([]byte(nil), sel...), term: io.EOF}
	cl := int64(len(sel))
	out := &s3.GetObjectOutput{ContentLength: &cl}
	if tok == "." {
		out.Body = body
		return out, true
	}
	parts := strings.Split(tok, ":")
	if parts[0] != "b" {
		return nil, false
	}
	for _, p := range parts[1:] {
		switch {
		case p == "cl=none":
			out.ContentLength = nil
		case p == "cl=exact":
		case strings.HasPrefix(p, "cl=+"):
			k, err := strconv.Atoi(p[4:])
			if err != nil || k <= 0 {
				return nil, false
			}
			cl += int64(k)
			body.term = io.ErrUnexpectedEOF
		case strings.HasPrefix(p, "ch="):
			for _, x := range strings.Split(p[3:], "/") {
				n, err := strconv.Atoi(x)
				if err != nil || n < 0 {
					return nil, false
				}
				body.sizes = append(body.sizes, n)
			}
		case strings.HasPrefix(p, "cut=") && len(p) > 5:
			j, err := strconv.Atoi(p[4 : len(p)-1])
			if err != nil || j < 0 {
				return nil, false
			}
			if j < len(body.data) {
				body.data = body.data[:j]
				if p[len(p)-1] == 'r' {
					body.term = errConnReset
				} else {
					body.term = io.ErrUnexpectedEOF
				}
			}
		case p == "ew":
			body.ew = true
		default:
			return nil, false
		}
	}
	out.Body = body
	return out, true
}

func (f *s3Fake) GetObject(ctx context.Context, in *s3.GetObjectInput, _ ...func(*s3.Options)) (*s3.GetObjectOutput, error) {
	f.mu.Lock()
	defer f.mu.Unlock()
	tok := f.next("GET")
	if tok == "." || tok == "b" || strings.HasPrefix(tok, "b:") {
		data, ok := f.objects[*in.Key]
		switch {
		case !f.bucket:
			tok = "nsb"
		case !ok:
			tok = "nokey"
		default:
			if in.Range != nil {
				var a, b int64
				if _, err := fmt.Sscanf(*in.Range, "bytes=%d-%d", &a, &b); err != nil || a < 0 || a > b || a >= int64(len(data)) {
					tok = "badrange"
					break
				}
				if b >= int64(len(data)) {
					b = int64(len(data)) - 1
				}
				data = data[a : b+1]
			}
			out, good := s3FakeBody(data, tok)
			if !good {
				f.note("GET", "bad-token")
				return nil, fmt.Errorf("bad body token %q", tok)
			}
			f.note("GET", "ok")
			return out, nil
		}
	}
	f.note("GET", tok)
	return nil, s3FakeErr(tok)
}

func (f *s3Fake) sortedKeys(prefix string) []string {
	keys := []string{}
	for k := range f.objects {
		if strings.HasPrefix(k, prefix) {
			keys = append(keys, k)
		}
	}
	sort.Strings(keys)
	return keys
}

func (f *s3Fake) ListObjectsV2(ctx context.Context, in *s3.ListObjectsV2Input, _ ...func(*s3.Options)) (*s3.ListObjectsV2Output, error) {
	f.mu.Lock()
	defer f.mu.Unlock()
	tok := f.next("LIST")
	page := -1
	if tok == "." {
		page = s3FakeMaxPage
	} else if strings.HasPrefix(tok, "p") {
		if n, err := strconv.Atoi(tok[1:]); err == nil && n >= 0 {
			page = n
		}
	}
	if page >= 0 {
		if !f.bucket {
			tok = "nsb"
		} else {
			if page > s3FakeMaxPage {
				page = s3FakeMaxPage
			}
			if in.MaxKeys != nil && *in.MaxKeys > 0 && int(*in.MaxKeys) < page {
				page = int(*in.MaxKeys)
			}
			prefix := ""
			if in.Prefix != nil {
				prefix = *in.Prefix
			}
			keys := f.sortedKeys(prefix)
			from := 0
			if in.ContinuationToken != nil {
				n, err := strconv.Atoi(strings.TrimPrefix(*in.ContinuationToken, "n="))
				if err != nil || n < 0 || n > len(keys) {
					f.note("LIST", "bad-continuation-token")
					return nil, errors.New("api error InvalidArgument: continuation token")
				}
				from = n
			}
			keys = keys[from:]
			out := &s3.ListObjectsV2Output{}
			trunc := len(keys) > page
			if trunc {
				keys = keys[:page]
				next := fmt.Sprintf("n=%d", from+page)
				out.NextContinuationToken = &next
			}
			out.IsTruncated = &trunc
			kc := int32(len(keys))
			out.KeyCount = &kc
			for _, k := range keys {
				k := k
				sz := int64(len(f.objects[k]))
				out.Contents = append(out.Contents, types.Object{Key: &k, Size: &sz})
			}
			f.note("LIST", fmt.Sprintf("ok%d", len(keys)))
			return out, nil
		}
	}
	f.note("LIST", tok)
	return nil, s3FakeErr(tok)
}

func (f *s3Fake) PutObject(ctx context.Context, in *s3.PutObjectInput, _ ...func(*s3.Options)) (*s3.PutObjectOutput, error) {
	f.mu.Lock()
	defer f.mu.Unlock()
	if sk, ok := in.Body.(io.Seeker); ok { // like the SDK: a seekable body is sent from its start on every attempt
		_, _ = sk.Seek(0, io.SeekStart)
	}
	body, rerr := io.ReadAll(in.Body)
	tok := f.next("PUT")
	if tok == "." {
		switch {
		case !f.bucket:
			tok = "nsb"
		case rerr != nil:
			tok = "slow"
		default:
			f.objects[*in.Key] = bytes.Clone(body)
			f.note("PUT", "ok")
			return &s3.PutObjectOutput{}, nil
		}
	}
	f.note("PUT", tok)
	return nil, s3FakeErr(tok)
}

func (f *s3Fake) DeleteObject(ctx context.Context, in *s3.DeleteObjectInput, _ ...func(*s3.Options)) (*s3.DeleteObjectOutput, error) {
	f.mu.Lock()
	defer f.mu.Unlock()
	tok := f.next("DELETE")
	if tok == "." {
		if f.bucket {
			delete(f.objects, *in.Key)
			f.note("DELETE", "ok")
			return &s3.DeleteObjectOutput{}, nil
		}
		tok = "nsb"
	}
	f.note("DELETE", tok)
	return nil, s3FakeErr(tok)
}

func (f *s3Fake) HeadBucket(ctx context.Context, in *s3.HeadBucketInput, _ ...func(*s3.Options)) (*s3.HeadBucketOutput, error) {
	f.mu.Lock()
	defer f.mu.Unlock()
	tok := f.next("HEAD")
	if tok == "." {
		if f.bucket {
			f.note("HEAD", "ok")
			return &s3.HeadBucketOutput{}, nil
		}
		tok = "nf"
	}
	f.note("HEAD", tok)
	return nil, s3FakeErr(tok)
}

func (f *s3Fake) CreateBucket(ctx context.Context, in *s3.CreateBucketInput, _ ...func(*s3.Options)) (*s3.CreateBucketOutput, error) {
	f.mu.Lock()
	defer f.mu.Unlock()
	tok := f.next("CREATE")
	if tok == "." {
		if !f.bucket {
			f.bucket = true
			f.note("CREATE", "ok")
			return &s3.CreateBucketOutput{}, nil
		}
		tok = "owned"
	}
	if tok == "owned" || tok == "exists" {
		f.bucket = true
	}
	f.note("CREATE", tok)
	return nil, s3FakeErr(tok)
}
