//go:build verif

// C03 / C06, lower seam of the READ and RESTART paths: the real storage.awsS3Client (pkg/storage/s3_aws.go:
// DownloadSegment, DownloadIndex, ListSegments) over the chunking / faulting fake of its `api` interface
// (zz_verif_c07_s3chunks_fake.go), and the real PartitionLog (RestoreFromS3, Read, AppendBatch) over that client.
// One result line per op; the lines of reset/obj/objs/get/list are those of lean/Driver/C03S3.lean.
//
//	reset <bucket 0|1>
//	obj <key> <hex|->                         store an object in the endpoint (ground truth)
//	objs <prefix> <first> <count> <size>      bulk: keys <prefix>segment-%020d.kfs, i = first.., each <size> bytes byte(i)
//	get <seg|idx> <key> <a:b|-> <GET script>  DownloadSegment(range) / DownloadIndex
//	list <prefix> <LIST script>               ListSegments
//	mkseg <start> <hex batch>...              a real PartitionLog(start) over the client: AppendBatch each, Flush (natural endpoint)
//	restore <start> <LIST script> <GET script> <hex batch>   new PartitionLog(start): RestoreFromS3, then AppendBatch
//	open <start> <cache 0|1>                  new PartitionLog(start), RestoreFromS3 on the natural endpoint, kept
//	read <offset> <maxBytes> <GET script>     Read on the kept log
//
// scripts: see the fake's header ("-" = empty; one token per API call of that kind).
package main

import (
	"bufio"
	"context"
	"encoding/hex"
	"errors"
	"fmt"
	"os"
	"sort"
	"strconv"
	"strings"

	"github.com/KafScale/platform/pkg/cache"
	"github.com/KafScale/platform/pkg/storage"
)

var (
	api    = newS3Fake(true)
	client = storage.VerifC03S3NewAWSClient("bucket", "us-east-1", "", api)
	kept   *storage.PartitionLog
)

func hx(b []byte) string {
	if len(b) == 0 {
		return "-"
	}
	return hex.EncodeToString(b)
}

func unhx(s string) ([]byte, bool) {
	if s == "-" {
		return []byte{}, true
	}
	b, err := hex.DecodeString(s)
	return b, err == nil
}

func ret(err error) string {
	switch {
	case err == nil:
		return "nil"
	case errors.Is(err, storage.ErrNotFound):
		return "notfound"
	case errors.Is(err, storage.ErrOffsetOutOfRange):
		return "oor"
	}
	return "err"
}

func newLog(start int64, c *cache.SegmentCache) *storage.PartitionLog {
	return storage.NewPartitionLog("default", "orders", 0, start, client, c, storage.PartitionLogConfig{
		Buffer:       storage.WriteBufferConfig{MaxBytes: 1 << 24},
		Segment:      storage.SegmentWriterConfig{IndexIntervalMessages: 1},
		CacheEnabled: c != nil,
	}, func(context.Context, *storage.SegmentArtifact) {}, nil, nil)
}

func doOp(f []string) (out string) {
	defer func() {
		if r := recover(); r != nil {
			out = f[0] + " panic"
		}
	}()
	ctx := context.Background()
	api.clearScripts()
	switch {
	case f[0] == "reset" && len(f) == 2:
		api = newS3Fake(f[1] == "1")
		client = storage.VerifC03S3NewAWSClient("bucket", "us-east-1", "", api)
		kept = nil
		return "reset"
	case f[0] == "obj" && len(f) == 3:
		body, ok := unhx(f[2])
		if !ok {
			return "bad-op"
		}
		api.mu.Lock()
		api.objects[f[1]] = body
		api.mu.Unlock()
		return "obj"
	case f[0] == "objs" && len(f) == 5:
		first, e1 := strconv.Atoi(f[2])
		count, e2 := strconv.Atoi(f[3])
		size, e3 := strconv.Atoi(f[4])
		if e1 != nil || e2 != nil || e3 != nil || count < 0 || count > 5000 || size < 0 || size > 64 {
			return "bad-op"
		}
		api.mu.Lock()
		for i := first; i < first+count; i++ {
			b := make([]byte, size)
			for j := range b {
				b[j] = byte(i)
			}
			api.objects[fmt.Sprintf("%ssegment-%020d.kfs", f[1], i)] = b
		}
		api.mu.Unlock()
		return "objs"
	case f[0] == "get" && len(f) == 5:
		api.script("GET", f[4])
		var data []byte
		var err error
		if f[1] == "seg" {
			var rng *storage.ByteRange
			if f[3] != "-" {
				ab := strings.SplitN(f[3], ":", 2)
				a, e1 := strconv.ParseInt(ab[0], 10, 64)
				b, e2 := strconv.ParseInt(ab[len(ab)-1], 10, 64)
				if e1 != nil || e2 != nil || len(ab) != 2 {
					return "bad-op"
				}
				rng = &storage.ByteRange{Start: a, End: b}
			}
			data, err = client.DownloadSegment(ctx, f[2], rng)
		} else {
			data, err = client.DownloadIndex(ctx, f[2])
		}
		if err != nil {
			data = nil
		}
		return fmt.Sprintf("get ret=%s data=%s calls=%s", ret(err), hx(data), api.callLog())
	case f[0] == "list" && len(f) == 3:
		api.script("LIST", f[2])
		objs, err := client.ListSegments(ctx, f[1])
		return fmt.Sprintf("list ret=%s n=%d keys=%s calls=%s", ret(err), len(objs), keyDigest(objs, err), api.callLog())
	case f[0] == "mkseg" && len(f) >= 3:
		start, err := strconv.ParseInt(f[1], 10, 64)
		if err != nil {
			return "bad-op"
		}
		l := newLog(start, nil)
		for _, h := range f[2:] {
			raw, ok := unhx(h)
			if !ok {
				return "bad-op"
			}
			b, err := storage.NewRecordBatchFromBytes(raw)
			if err != nil {
				return "mkseg bad-batch"
			}
			if _, err := l.AppendBatch(ctx, b); err != nil {
				return "mkseg append-err"
			}
		}
		ferr := l.Flush(ctx)
		base := fmt.Sprintf("default/orders/0/segment-%020d", start)
		api.mu.Lock()
		seg, idx := api.objects[base+".kfs"], api.objects[base+".index"]
		api.mu.Unlock()
		return fmt.Sprintf("mkseg ret=%s key=%s seg=%s idx=%s", ret(ferr), base, hx(seg), hx(idx))
	case f[0] == "restore" && len(f) == 5:
		start, err := strconv.ParseInt(f[1], 10, 64)
		raw, ok := unhx(f[4])
		if err != nil || !ok {
			return "bad-op"
		}
		api.script("LIST", f[2])
		api.script("GET", f[3])
		l := newLog(start, nil)
		last, rerr := l.RestoreFromS3(ctx)
		calls := api.callLog()
		if rerr != nil {
			return fmt.Sprintf("restore ret=%s last=- appendbase=- calls=%s", ret(rerr), calls)
		}
		b, berr := storage.NewRecordBatchFromBytes(raw)
		if berr != nil {
			return "restore bad-batch"
		}
		res, aerr := l.AppendBatch(ctx, b)
		if aerr != nil {
			return fmt.Sprintf("restore ret=nil last=%d appendbase=err calls=%s", last, calls)
		}
		return fmt.Sprintf("restore ret=nil last=%d appendbase=%d calls=%s", last, res.BaseOffset, calls)
	case f[0] == "open" && len(f) == 3:
		start, err := strconv.ParseInt(f[1], 10, 64)
		if err != nil {
			return "bad-op"
		}
		var c *cache.SegmentCache
		if f[2] == "1" {
			c = cache.NewSegmentCache(1 << 24)
		}
		kept = newLog(start, c)
		last, rerr := kept.RestoreFromS3(ctx)
		return fmt.Sprintf("open ret=%s last=%d", ret(rerr), last)
	case f[0] == "read" && len(f) == 4:
		off, e1 := strconv.ParseInt(f[1], 10, 64)
		mb, e2 := strconv.ParseInt(f[2], 10, 32)
		if e1 != nil || e2 != nil || kept == nil {
			return "bad-op"
		}
		api.script("GET", f[3])
		data, err := kept.Read(ctx, off, int32(mb))
		if err != nil {
			data = nil
		}
		return fmt.Sprintf("read ret=%s data=%s calls=%s", ret(err), hx(data), api.callLog())
	}
	return "bad-op"
}

// keyDigest prints a listing compactly: the keys with sizes when there are few, else count + first + last + whether
// the keys are strictly increasing (S3 order, no duplicates) + the sum of the sizes.
func keyDigest(objs []storage.S3Object, err error) string {
	if err != nil || len(objs) == 0 {
		return "-"
	}
	if len(objs) <= 12 {
		ks := make([]string, 0, len(objs))
		for _, o := range objs {
			ks = append(ks, fmt.Sprintf("%s:%d", o.Key, o.Size))
		}
		return strings.Join(ks, ",")
	}
	keys := make([]string, 0, len(objs))
	var sum int64
	for _, o := range objs {
		keys = append(keys, o.Key)
		sum += o.Size
	}
	inc := sort.SliceIsSorted(keys, func(i, j int) bool { return keys[i] < keys[j] })
	for i := 1; i < len(keys) && inc; i++ {
		inc = keys[i-1] != keys[i]
	}
	return fmt.Sprintf("%s..%s;inc=%v;bytes=%d", keys[0], keys[len(keys)-1], inc, sum)
}

func main() {
	w := bufio.NewWriter(os.Stdout)
	defer w.Flush()
	sc := bufio.NewScanner(os.Stdin)
	sc.Buffer(make([]byte, 1<<20), 1<<26)
	for sc.Scan() {
		f := strings.Fields(sc.Text())
		if len(f) == 0 || strings.HasPrefix(f[0], "#") {
			continue
		}
		fmt.Fprintln(w, doOp(f))
		w.Flush()
	}
}
