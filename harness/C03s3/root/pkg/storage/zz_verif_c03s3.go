//go:build verif

package storage

// Lower seam of the read / restart paths (C03, C06): the real awsS3Client driven over the chunking / faulting fake
// of its `api` interface (harness/C03s3/root/cmd/verif_c03s3).  Own names, so that this overlay can be combined
// with harness/C01 (VerifNewAWSClient) in one build.

// VerifC03S3API is the interface awsS3Client talks to (the subset of *s3.Client it uses).
type VerifC03S3API = awsS3API

// VerifC03S3NewAWSClient builds the real AWS-backed client over the given API implementation.
func VerifC03S3NewAWSClient(bucket, region, kmsKey string, api VerifC03S3API) S3Client {
	return newAWSClientWithAPI(bucket, region, kmsKey, api)
}
