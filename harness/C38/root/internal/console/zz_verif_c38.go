//go:build verif

package console

import (
	"net/http"
	"time"
)

// VerifAuth wraps a real authManager so the C38 harness can drive the real handlers on
// virtual time (stored timestamps are shifted backwards; time.Now is untouched).
type VerifAuth struct{ a *authManager }

// VerifDefaults reports what newAuthManager (the constructor NewMux uses) configures.
func VerifDefaults(cfg AuthConfig) (enabled bool, ttlSec, limit, windowSec int) {
	a := newAuthManager(cfg)
	enabled = a.enabled
	ttlSec = int(a.ttl / time.Second)
	if a.limiter != nil {
		limit = a.limiter.limit
		windowSec = int(a.limiter.window / time.Second)
	}
	return
}

// VerifNewAuth builds the manager with newAuthManager and then overrides ttl / limiter
// parameters (seconds) so that expiry and the sliding window can be explored.
func VerifNewAuth(cfg AuthConfig, ttlSec, limit, windowSec int) *VerifAuth {
	a := newAuthManager(cfg)
	a.ttl = time.Duration(ttlSec) * time.Second
	a.limiter = newLoginRateLimiter(limit, time.Duration(windowSec)*time.Second)
	return &VerifAuth{a: a}
}

// Mux registers the real auth handlers and requireAuth(next) the way NewMux does.
func (v *VerifAuth) Mux(next http.HandlerFunc) http.Handler {
	mux := http.NewServeMux()
	mux.HandleFunc("/ui/api/auth/config", v.a.handleConfig)
	mux.HandleFunc("/ui/api/auth/session", v.a.handleSession)
	mux.HandleFunc("/ui/api/auth/login", v.a.handleLogin)
	mux.HandleFunc("/ui/api/auth/logout", v.a.handleLogout)
	mux.HandleFunc("/protected", v.a.requireAuth(next))
	return mux
}

// Shift advances the virtual clock by d: every stored timestamp moves d into the past.
func (v *VerifAuth) Shift(d time.Duration) {
	v.a.mu.Lock()
	for k, t := range v.a.sessions {
		v.a.sessions[k] = t.Add(-d)
	}
	v.a.mu.Unlock()
	if l := v.a.limiter; l != nil {
		l.mu.Lock()
		for k, hs := range l.hits {
			for i := range hs {
				hs[i] = hs[i].Add(-d)
			}
			l.hits[k] = hs
		}
		l.mu.Unlock()
	}
}

// Dump returns the number of stored sessions and the number of recorded hits of one address.
func (v *VerifAuth) Dump(ip string) (sessions int, hits int) {
	v.a.mu.Lock()
	sessions = len(v.a.sessions)
	v.a.mu.Unlock()
	if l := v.a.limiter; l != nil {
		l.mu.Lock()
		hits = len(l.hits[ip])
		l.mu.Unlock()
	}
	return
}

// Expiry returns the STORED expiry of a session token (what hasValidSession compares against).
func (v *VerifAuth) Expiry(token string) (time.Time, bool) {
	v.a.mu.Lock()
	defer v.a.mu.Unlock()
	t, ok := v.a.sessions[token]
	return t, ok
}

// TTL is the configured session lifetime.
func (v *VerifAuth) TTL() time.Duration { return v.a.ttl }

// Tracked is the number of client addresses the limiter currently keeps a history for.
func (v *VerifAuth) Tracked() int {
	l := v.a.limiter
	if l == nil {
		return 0
	}
	l.mu.Lock()
	defer l.mu.Unlock()
	return len(l.hits)
}

// VerifCookieName is the session cookie name.
const VerifCookieName = sessionCookieName
