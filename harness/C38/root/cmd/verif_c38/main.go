//go:build verif

// C38 harness.
//
//	verif_c38 extract <dir>   go/ast pass over the console package: every mux.Handle/HandleFunc
//	                          registration with its pattern and whether the handler is wrapped by
//	                          requireAuth (the regenerated route table)
//	verif_c38 defaults        what newAuthManager configures (ttl, limiter)
//	verif_c38                 line protocol on stdin (same format as lean/Driver/C38.lean)
package main

import (
	"bufio"
	"bytes"
	"context"
	"fmt"
	"go/ast"
	"go/parser"
	"go/printer"
	"go/token"
	"io"
	"log"
	"net/http"
	"net/http/httptest"
	"os"
	"sort"
	"strconv"
	"strings"
	"time"

	"github.com/KafScale/platform/internal/console"
	"github.com/KafScale/platform/pkg/metadata"
)

const user, pass = "admin", "s3cret"

func extract(dir string) int {
	fset := token.NewFileSet()
	pkgs, err := parser.ParseDir(fset, dir, func(fi os.FileInfo) bool {
		return !strings.HasSuffix(fi.Name(), "_test.go") && !strings.HasPrefix(fi.Name(), "zz_verif")
	}, 0)
	if err != nil {
		fmt.Println("error", err)
		return 1
	}
	type row struct {
		file string
		line int
		text string
	}
	var rows []row
	for _, p := range pkgs {
		for fn, f := range p.Files {
			var stack []ast.Node
			ast.Inspect(f, func(n ast.Node) bool {
				if n == nil {
					stack = stack[:len(stack)-1]
					return true
				}
				stack = append(stack, n)
				call, ok := n.(*ast.CallExpr)
				if !ok {
					return true
				}
				sel, ok := call.Fun.(*ast.SelectorExpr)
				if !ok || (sel.Sel.Name != "HandleFunc" && sel.Sel.Name != "Handle") || len(call.Args) != 2 {
					return true
				}
				pat := "?"
				if lit, ok := call.Args[0].(*ast.BasicLit); ok && lit.Kind == token.STRING {
					if s, err := strconv.Unquote(lit.Value); err == nil {
						pat = strconv.Quote(s)
					}
				}
				wrapped := 0
				if inner, ok := call.Args[1].(*ast.CallExpr); ok {
					if isel, ok := inner.Fun.(*ast.SelectorExpr); ok && isel.Sel.Name == "requireAuth" && len(inner.Args) == 1 {
						wrapped = 1
					}
				}
				cond := 0
				for _, s := range stack[:len(stack)-1] {
					switch s.(type) {
					case *ast.IfStmt, *ast.SwitchStmt, *ast.ForStmt, *ast.RangeStmt, *ast.SelectStmt, *ast.TypeSwitchStmt:
						cond = 1
					}
				}
				var hb bytes.Buffer
				_ = printer.Fprint(&hb, fset, call.Args[1])
				h := strings.Join(strings.Fields(hb.String()), " ")
				if len(h) > 60 {
					h = h[:60]
				}
				pos := fset.Position(call.Pos())
				rows = append(rows, row{fn, pos.Line, fmt.Sprintf("route %s wrapped=%d cond=%d handler=%s", pat, wrapped, cond, strconv.Quote(h))})
				return true
			})
		}
	}
	sort.Slice(rows, func(i, j int) bool {
		if rows[i].file != rows[j].file {
			return rows[i].file < rows[j].file
		}
		return rows[i].line < rows[j].line
	})
	for _, r := range rows {
		fmt.Println(r.text)
	}
	// the wrapper itself must still be the one method of authManager
	n := 0
	for _, p := range pkgs {
		for _, f := range p.Files {
			for _, d := range f.Decls {
				if fd, ok := d.(*ast.FuncDecl); ok && fd.Name.Name == "requireAuth" {
					n++
				}
			}
		}
	}
	fmt.Printf("requireAuthDecls %d\n", n)
	// limiter table facts: the model never deletes an address from `hits` and writes `hits[key]`
	// only inside Allow.  Reported so that the check can widen its many-addresses search when the
	// code starts pruning the table (the pruning rule itself is then tested dynamically).
	deletes, writesOutside := 0, 0
	for _, p := range pkgs {
		for _, f := range p.Files {
			for _, d := range f.Decls {
				fd, ok := d.(*ast.FuncDecl)
				if !ok || fd.Body == nil {
					continue
				}
				ast.Inspect(fd.Body, func(n ast.Node) bool {
					switch x := n.(type) {
					case *ast.CallExpr:
						if id, ok := x.Fun.(*ast.Ident); ok && id.Name == "delete" && len(x.Args) == 2 {
							if sel, ok := x.Args[0].(*ast.SelectorExpr); ok && sel.Sel.Name == "hits" {
								deletes++
							}
						}
					case *ast.AssignStmt:
						for _, lhs := range x.Lhs {
							if ix, ok := lhs.(*ast.IndexExpr); ok {
								lhs = ix.X
							}
							if sel, ok := lhs.(*ast.SelectorExpr); ok && sel.Sel.Name == "hits" && fd.Name.Name != "Allow" {
								writesOutside++
							}
						}
					}
					return true
				})
			}
		}
	}
	fmt.Printf("limiterHitsDeletes %d\nlimiterHitsWritesOutsideAllow %d\n", deletes, writesOutside)
	return 0
}

type harness struct {
	ran     int    // how often the stub behind requireAuth was invoked (auth mode)
	mode    string // auth | mux
	enabled bool
	va      *console.VerifAuth
	h       http.Handler
	tokens  []string
	// real-time observations of the last successful login (auth mode)
	lastAfter time.Time // time.Now() right after the login handler returned
	lastOK    bool
}

// sleepToPhase sleeps until the wall clock is `ms` milliseconds into a second.
func sleepToPhase(ms int) {
	now := time.Now()
	cur := now.Nanosecond() / 1e6
	d := (ms - cur + 1000) % 1000
	time.Sleep(time.Duration(d) * time.Millisecond)
}

// expiryClass compares the STORED expiry of a fresh session with login instant + ttl.  The login
// instant is only known to lie in [before, after] (both read around the handler call), so the
// stored expiry must lie in [before+ttl, after+ttl]; no fixed tolerance is involved.
func (s *harness) expiryClass(tok string, before, after time.Time) string {
	if s.mode != "auth" || s.va == nil {
		return ""
	}
	exp, ok := s.va.Expiry(tok)
	if !ok {
		return " exp=missing"
	}
	ttl := s.va.TTL()
	switch {
	case exp.After(after.Add(ttl)):
		return " exp=late"
	case exp.Before(before.Add(ttl)):
		return " exp=early"
	}
	return " exp=ok"
}

func (s *harness) cookie(ref string) *http.Cookie {
	switch {
	case ref == "none":
		return nil
	case ref == "empty":
		return &http.Cookie{Name: console.VerifCookieName, Value: ""}
	case ref == "other":
		v := "x"
		if len(s.tokens) > 0 {
			v = s.tokens[len(s.tokens)-1]
		}
		return &http.Cookie{Name: "session", Value: v}
	case strings.HasPrefix(ref, "t"):
		i, err := strconv.Atoi(ref[1:])
		if err != nil || i < 0 {
			return nil
		}
		if i < len(s.tokens) {
			return &http.Cookie{Name: console.VerifCookieName, Value: s.tokens[i]}
		}
		return &http.Cookie{Name: console.VerifCookieName, Value: "junk-" + ref[1:]}
	case strings.HasPrefix(ref, "junk"):
		return &http.Cookie{Name: console.VerifCookieName, Value: "junk-x" + ref[4:]}
	}
	return nil
}

// do runs one request; handlers that stream (SSE) are cancelled after a short while.
func (s *harness) do(method, path, remote string, c *http.Cookie, body string) *httptest.ResponseRecorder {
	ctx, cancel := context.WithCancel(context.Background())
	defer cancel()
	var rd io.Reader
	if body != "" {
		rd = strings.NewReader(body)
	}
	req := httptest.NewRequest(method, "http://console.test"+path, rd).WithContext(ctx)
	req.RemoteAddr = remote
	if c != nil {
		req.AddCookie(c)
	}
	rec := httptest.NewRecorder()
	done := make(chan any, 1)
	go func() {
		defer func() { done <- recover() }()
		s.h.ServeHTTP(rec, req)
	}()
	select {
	case p := <-done:
		if p != nil {
			rec.Code = -1
		}
	case <-time.After(40 * time.Millisecond):
		cancel()
		if p := <-done; p != nil {
			rec.Code = -1
		}
	}
	return rec
}

// extraBody: a 401 whose body holds more than the one error line means something ran after the
// rejection was written (the status of the first WriteHeader sticks, the handler still executed).
func extraBody(rec *httptest.ResponseRecorder) bool {
	if rec.Code != 401 {
		return false
	}
	b := strings.TrimRight(rec.Body.String(), "\n")
	return strings.Contains(b, "\n")
}

func statusClass(code int) string {
	switch {
	case code == -1:
		return "panic"
	case code == 401:
		return "unauth"
	case code >= 300 && code < 400:
		return "redirect"
	}
	return "s" + strconv.Itoa(code)
}

func (s *harness) dump(ip string) string {
	if s.mode != "auth" {
		return ""
	}
	n, h := s.va.Dump(ip)
	if ip == "" {
		return fmt.Sprintf(" sessions=%d", n)
	}
	return fmt.Sprintf(" sessions=%d hits=%d", n, h)
}

func credValue(kind, right string) string {
	switch kind {
	case "ok":
		return right
	case "empty":
		return ""
	}
	return right + "x"
}

func main() {
	log.SetOutput(io.Discard)
	if len(os.Args) >= 3 && os.Args[1] == "extract" {
		os.Exit(extract(os.Args[2]))
	}
	if len(os.Args) >= 2 && os.Args[1] == "defaults" {
		en, ttl, lim, win := console.VerifDefaults(console.AuthConfig{Username: user, Password: pass})
		fmt.Printf("defaults enabled=%v ttl=%d limit=%d window=%d\n", en, ttl, lim, win)
		return
	}
	w := bufio.NewWriter(os.Stdout)
	defer w.Flush()
	s := &harness{}
	sc := bufio.NewScanner(os.Stdin)
	sc.Buffer(make([]byte, 1<<20), 1<<24)
	for sc.Scan() {
		f := strings.Fields(sc.Text())
		if len(f) == 0 || strings.HasPrefix(f[0], "#") {
			continue
		}
		line := func() (out string) {
			defer func() {
				if r := recover(); r != nil {
					out = "panic"
				}
			}()
			if f[0] != "new" && s.h == nil {
				return "bad-op"
			}
			switch {
			case f[0] == "new" && len(f) == 6:
				en := f[2] == "1"
				ttl, _ := strconv.Atoi(f[3])
				lim, _ := strconv.Atoi(f[4])
				win, _ := strconv.Atoi(f[5])
				cfg := console.AuthConfig{Username: user, Password: pass}
				if !en {
					cfg.Password = ""
				}
				s.tokens = nil
				s.lastOK = false
				s.mode = f[1]
				s.enabled = en
				if f[1] == "auth" {
					s.va = console.VerifNewAuth(cfg, ttl, lim, win)
					s.h = s.va.Mux(func(w http.ResponseWriter, _ *http.Request) { s.ran++; w.WriteHeader(204) })
					return fmt.Sprintf("new enabled=%v ttl=%d limit=%d window=%d", en, ttl, lim, win)
				}
				st := metadata.NewInMemoryStore(metadata.ClusterMetadata{})
				lfs := console.NewLFSHandlers(console.LFSConfig{}, log.New(io.Discard, "", 0))
				h, err := console.NewMux(console.ServerOptions{Store: st, Auth: cfg, LFSHandlers: lfs, Logger: log.New(io.Discard, "", 0)})
				if err != nil {
					return "new error"
				}
				s.h = h
				s.va = nil
				e2, t2, l2, w2 := console.VerifDefaults(cfg)
				return fmt.Sprintf("new enabled=%v ttl=%d limit=%d window=%d", e2, t2, l2, w2)
			case f[0] == "tick" && len(f) == 2:
				d, err := strconv.Atoi(f[1])
				if err != nil || s.mode != "auth" {
					return "bad-op"
				}
				s.va.Shift(time.Duration(d) * time.Second)
				return "tick"
			case f[0] == "login" && len(f) == 7:
				ip := "10.0.0." + f[1]
				remote := ip + ":" + f[2]
				body := fmt.Sprintf(`{"username":%q,"password":%q}`, credValue(f[5], user), credValue(f[6], pass))
				if f[4] != "ok" {
					body = `{"username": [`
				}
				before := time.Now()
				rec := s.do(f[3], "/ui/api/auth/login", remote, nil, body)
				after := time.Now()
				cls := map[int]string{200: "ok", 401: "denied", 429: "limited", 400: "badpayload", 405: "method", 503: "disabled"}[rec.Code]
				if cls == "" {
					cls = "other" + strconv.Itoa(rec.Code)
				}
				got := ""
				for _, c := range rec.Result().Cookies() {
					if c.Name == console.VerifCookieName && c.Value != "" {
						got = c.Value
					}
				}
				if cls == "ok" {
					if got == "" {
						cls = "ok-without-cookie"
					} else {
						for _, t := range s.tokens {
							if t == got {
								cls = "ok-reused-token"
							}
						}
						s.tokens = append(s.tokens, got)
						cls += " tok=" + strconv.Itoa(len(s.tokens)-1) + s.expiryClass(got, before, after)
						s.lastAfter, s.lastOK = after, true
					}
				} else if got != "" {
					cls += " cookie-on-failure"
				}
				return "login " + cls + s.dump(ip)
			case f[0] == "logout" && len(f) == 3:
				rec := s.do(f[1], "/ui/api/auth/logout", "10.0.0.9:1", s.cookie(f[2]), "")
				cls := map[int]string{200: "ok", 405: "method"}[rec.Code]
				if cls == "" {
					cls = "other" + strconv.Itoa(rec.Code)
				}
				return "logout " + cls + s.dump("")
			case f[0] == "preq" && len(f) == 2:
				path, method := "/protected", "GET"
				if s.mode == "mux" {
					path, method = "/ui/api/status/topics", "POST"
				}
				before := s.ran
				rec := s.do(method, path, "10.0.0.9:1", s.cookie(f[1]), "")
				cls := statusClass(rec.Code)
				if s.mode == "auth" && s.ran != before && !strings.HasPrefix(cls, "s2") {
					cls = "s" + strconv.Itoa(rec.Code) + "+handler-ran" // rejected on the wire, yet the endpoint executed
				} else if s.mode == "auth" && s.ran == before && strings.HasPrefix(cls, "s2") {
					cls = "unauth" // 2xx without the endpoint running is not an answer of the endpoint
				} else if extraBody(rec) {
					cls = "s" + strconv.Itoa(rec.Code) + "+handler-ran"
				}
				return "preq " + cls + s.dump("")
			case f[0] == "phase" && len(f) == 2:
				// real time: wait until the wall clock is f[1] ms into a second (no virtual time passes)
				ms, err := strconv.Atoi(f[1])
				if err != nil || ms < 0 || ms > 999 || s.mode != "auth" {
					return "bad-op"
				}
				sleepToPhase(ms)
				return "phase"
			case f[0] == "await" && len(f) == 2:
				// real time: wait until the last login's ttl has really elapsed (login returned at
				// lastAfter, so any correct expiry is <= lastAfter+ttl), issue the request right then,
				// and top the virtual clock up so that exactly ttl+1 s have passed in total.
				if s.mode != "auth" {
					return "bad-op"
				}
				ttl := s.va.TTL()
				total := ttl + time.Second
				start := time.Now()
				if s.lastOK && ttl <= 3*time.Second {
					target := s.lastAfter.Add(ttl)
					for !time.Now().After(target) {
						time.Sleep(time.Until(target) + 200*time.Microsecond)
					}
				} else {
					s.va.Shift(total)
					total = 0
				}
				s.lastOK = false
				before := s.ran
				rec := s.do("GET", "/protected", "10.0.0.9:1", s.cookie(f[1]), "")
				cls := statusClass(rec.Code)
				if s.ran != before && !strings.HasPrefix(cls, "s2") {
					cls = "s" + strconv.Itoa(rec.Code) + "+handler-ran"
				} else if s.ran == before && strings.HasPrefix(cls, "s2") {
					cls = "unauth"
				}
				if rest := total - time.Since(start); rest > 0 {
					s.va.Shift(rest)
				}
				return "await " + cls + s.dump("")
			case f[0] == "sess" && len(f) == 2:
				rec := s.do("GET", "/ui/api/auth/session", "10.0.0.9:1", s.cookie(f[1]), "")
				a := "false"
				if strings.Contains(rec.Body.String(), `"authenticated":true`) {
					a = "true"
				}
				if rec.Code != 200 {
					a = "other" + strconv.Itoa(rec.Code)
				}
				return "sess " + a + s.dump("")
			case f[0] == "req" && len(f) == 4:
				if s.mode != "mux" {
					return "bad-op"
				}
				rec := s.do(f[1], f[2], "10.0.0.9:1", s.cookie(f[3]), "")
				if extraBody(rec) {
					return "req s" + strconv.Itoa(rec.Code) + "+handler-ran"
				}
				return "req " + statusClass(rec.Code)
			}
			return "bad-op"
		}()
		fmt.Fprintln(w, line)
		w.Flush()
	}
}
