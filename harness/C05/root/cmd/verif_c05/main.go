//go:build verif

// C05 harness, etcd part: drives the REAL metadata.EtcdStore.UpdateOffsets over an embedded etcd
// server with an interposed clientv3.KV that parks every Get / Txn.Commit of a caller until the
// schedule (stdin, one command per line) releases it.  After each command it prints the state
// of every caller and the value stored under the partition's next_offset key (read through an
// independent client), in the format of lean/Driver/C05.lean.
package main

import (
	"bufio"
	"context"
	"errors"
	"fmt"
	"net"
	"net/url"
	"os"
	"path/filepath"
	"strconv"
	"strings"
	"time"

	clientv3 "go.etcd.io/etcd/client/v3"
	"go.etcd.io/etcd/server/v3/embed"

	"github.com/KafScale/platform/pkg/metadata"
	"github.com/KafScale/platform/pkg/protocol"
)

const (
	topic = "orders"
	key   = "/kafscale/topics/orders/partitions/0/next_offset"
)

type callerKey struct{}

type caller struct {
	id      int
	state   string      // get txn done err
	events  chan string // "get" | "txn" | "done" | "err"  (caller -> scheduler)
	release chan bool   // scheduler -> caller: true = perform the operation, false = fail it
}

var errInjected = errors.New("verif: injected etcd failure")

func callerOf(ctx context.Context) *caller {
	c, _ := ctx.Value(callerKey{}).(*caller)
	return c
}

type gateKV struct{ clientv3.KV }

func (g *gateKV) Get(ctx context.Context, k string, opts ...clientv3.OpOption) (*clientv3.GetResponse, error) {
	c := callerOf(ctx)
	if c == nil || !strings.HasSuffix(k, "/next_offset") {
		return g.KV.Get(ctx, k, opts...)
	}
	c.events <- "get"
	if !<-c.release {
		return nil, errInjected
	}
	return g.KV.Get(ctx, k, opts...)
}

func (g *gateKV) Txn(ctx context.Context) clientv3.Txn {
	c := callerOf(ctx)
	if c == nil {
		return g.KV.Txn(ctx)
	}
	return &gateTxn{inner: g.KV.Txn(ctx), c: c}
}

type gateTxn struct {
	inner clientv3.Txn
	c     *caller
}

func (t *gateTxn) If(cs ...clientv3.Cmp) clientv3.Txn  { t.inner = t.inner.If(cs...); return t }
func (t *gateTxn) Then(ops ...clientv3.Op) clientv3.Txn { t.inner = t.inner.Then(ops...); return t }
func (t *gateTxn) Else(ops ...clientv3.Op) clientv3.Txn { t.inner = t.inner.Else(ops...); return t }
func (t *gateTxn) Commit() (*clientv3.TxnResponse, error) {
	t.c.events <- "txn"
	if !<-t.c.release {
		return nil, errInjected
	}
	return t.inner.Commit()
}

func freePort() int {
	ln, err := net.Listen("tcp", "127.0.0.1:0")
	if err != nil {
		panic(err)
	}
	defer ln.Close()
	return ln.Addr().(*net.TCPAddr).Port
}

func startEtcd(dir string) (*embed.Etcd, string, error) {
	var lastErr error
	for attempt := 0; attempt < 5; attempt++ {
		cfg := embed.NewConfig()
		cfg.Dir = filepath.Join(dir, fmt.Sprintf("data%d", attempt))
		cfg.Logger = "zap"
		cfg.LogLevel = "error"
		cfg.UnsafeNoFsync = true // throw-away data dir: durability of the test server is irrelevant
		cfg.LogOutputs = []string{filepath.Join(dir, "etcd.log")}
		cu, _ := url.Parse(fmt.Sprintf("http://127.0.0.1:%d", freePort()))
		pu, _ := url.Parse(fmt.Sprintf("http://127.0.0.1:%d", freePort()))
		cfg.ListenClientUrls, cfg.AdvertiseClientUrls = []url.URL{*cu}, []url.URL{*cu}
		cfg.ListenPeerUrls, cfg.AdvertisePeerUrls = []url.URL{*pu}, []url.URL{*pu}
		cfg.InitialCluster = cfg.InitialClusterFromName(cfg.Name)
		e, err := embed.StartEtcd(cfg)
		if err != nil {
			lastErr = err
			continue
		}
		select {
		case <-e.Server.ReadyNotify():
			return e, "http://" + e.Clients[0].Addr().String(), nil
		case <-time.After(15 * time.Second):
			e.Server.Stop()
			lastErr = errors.New("embedded etcd took too long to start")
		}
	}
	return nil, "", lastErr
}

func main() {
	dir, err := os.MkdirTemp(".", "verif-c05-etcd-")
	if err != nil {
		fmt.Println("fatal mkdtemp", err)
		os.Exit(2)
	}
	defer os.RemoveAll(dir)
	e, endpoint, err := startEtcd(dir)
	if err != nil {
		fmt.Println("fatal etcd", err)
		os.RemoveAll(dir)
		os.Exit(2)
	}
	defer e.Close()
	ctx := context.Background()
	store, err := metadata.NewEtcdStore(ctx, metadata.ClusterMetadata{
		Brokers:      []protocol.MetadataBroker{{NodeID: 1, Host: "b0", Port: 9092}},
		ControllerID: 1,
	}, metadata.EtcdStoreConfig{Endpoints: []string{endpoint}})
	if err != nil {
		fmt.Println("fatal store", err)
		os.Exit(2)
	}
	raw, err := clientv3.New(clientv3.Config{Endpoints: []string{endpoint}, DialTimeout: 5 * time.Second})
	if err != nil {
		fmt.Println("fatal client", err)
		os.Exit(2)
	}
	cli := store.EtcdClient()
	cli.KV = &gateKV{KV: cli.KV}

	callers := map[int]*caller{}
	w := bufio.NewWriter(os.Stdout)
	defer w.Flush()

	// wait for the caller's next event (arrival at a gate, or return)
	await := func(c *caller) bool {
		select {
		case ev := <-c.events:
			c.state = ev
			return true
		case <-time.After(8 * time.Second):
			c.state = "stuck"
			return false
		}
	}
	state := func() string {
		n := 0
		for id := range callers {
			if id+1 > n {
				n = id + 1
			}
		}
		parts := make([]string, 0, n)
		for i := 0; i < n; i++ {
			st := "idle"
			if c, ok := callers[i]; ok {
				st = c.state
			}
			parts = append(parts, fmt.Sprintf("%d:%s", i, st))
		}
		pcs := "-"
		if n > 0 {
			pcs = strings.Join(parts, ",")
		}
		val := "-"
		rctx, cancel := context.WithTimeout(ctx, 5*time.Second)
		resp, err := raw.Get(rctx, key)
		cancel()
		if err != nil {
			val = "err"
		} else if len(resp.Kvs) > 0 {
			val = strings.TrimSpace(string(resp.Kvs[0].Value))
		}
		return fmt.Sprintf("pcs=%s val=%s", pcs, val)
	}
	emit := func(res string) {
		fmt.Fprintln(w, res+" "+state())
		w.Flush()
	}
	drain := func() {
		for _, c := range callers {
			for c.state == "get" || c.state == "txn" {
				c.release <- false
				await(c)
			}
		}
		callers = map[int]*caller{}
	}

	sc := bufio.NewScanner(os.Stdin)
	for sc.Scan() {
		f := strings.Fields(sc.Text())
		if len(f) == 0 || strings.HasPrefix(f[0], "#") {
			continue
		}
		num := func(i int) (int, bool) {
			if i >= len(f) {
				return 0, false
			}
			v, err := strconv.Atoi(f[i])
			return v, err == nil && v >= 0
		}
		switch {
		case f[0] == "new" && len(f) == 2:
			drain()
			dctx, cancel := context.WithTimeout(ctx, 5*time.Second)
			_, derr := raw.Delete(dctx, key)
			cancel()
			if derr != nil {
				emit("err")
			} else {
				emit("ok")
			}
		case f[0] == "call" && len(f) == 3:
			i, ok1 := num(1)
			last, ok2 := num(2)
			if !ok1 || !ok2 {
				fmt.Fprintln(w, "bad-op")
				w.Flush()
				continue
			}
			if callers[i] != nil {
				emit("disabled")
				continue
			}
			c := &caller{id: i, state: "idle", events: make(chan string, 1), release: make(chan bool)}
			callers[i] = c
			go func() {
				cctx := context.WithValue(ctx, callerKey{}, c)
				defer func() {
					if r := recover(); r != nil {
						c.events <- "panic"
					}
				}()
				if err := store.UpdateOffsets(cctx, topic, 0, int64(last)); err != nil {
					c.events <- "err"
				} else {
					c.events <- "done"
				}
			}()
			if await(c) {
				emit("ok")
			} else {
				emit("stuck")
			}
		case (f[0] == "get" || f[0] == "txn") && len(f) == 3 && (f[2] == "ok" || f[2] == "fail"):
			i, ok1 := num(1)
			if !ok1 {
				fmt.Fprintln(w, "bad-op")
				w.Flush()
				continue
			}
			c := callers[i]
			if c == nil || c.state != f[0] {
				emit("disabled")
				continue
			}
			c.release <- f[2] == "ok"
			if await(c) {
				emit("ok")
			} else {
				emit("stuck")
			}
		default:
			fmt.Fprintln(w, "bad-op")
			w.Flush()
		}
	}
	drain()
	// no graceful shutdown (it takes seconds): the data directory is thrown away
	w.Flush()
	os.RemoveAll(dir)
	os.Exit(0)
}
