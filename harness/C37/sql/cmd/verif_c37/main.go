//go:build verif

// C37 harness: the real SQL proxy in front of the real SQL server (recording lister, decoder and
// metadata resolver), connected by in-memory pipes.
//
//	topics <hex,hex,…>                      topic universe the upstream knows
//	conn <ttl s> <max entries> <allow hex,…|-> <deny hex,…|->   new proxy + client connection
//	q <hex text>                            simple-protocol query
//	acl <allow hex,…|-> <deny hex,…|-> <topic hex>   the real ACL (matchPatterns / Allows / AllowShowTopics) on one topic
//
// Output per `q`: `fwd <hex of the text the upstream received> reads=<topic hex,…|-> listed=<0|1>
// plan=<topic hex,…|-> desc=<topic hex,…|-> err=<0|1>` or `deny`.
//
//	reads   topics handed to the decoder (SELECT) or to the resolver's Partitions (SHOW PARTITIONS)
//	listed  the resolver's Topics was called (SHOW TOPICS, catalog tables)
//	plan    topics named by the plan rows the client received (EXPLAIN: `Scan: t`, `Join: t TYPE u`)
//	desc    topics whose configured schema the client received (DESCRIBE: every topic of the universe
//	        has one schema column whose path is `$.verif_<hex topic>`)
//	err     the client received an ErrorResponse for the forwarded text (the upstream's)
//
// Everything in reads/listed/plan/desc is produced by the REAL server.handleConnection/handleQuery
// for the text the REAL proxy forwarded.
package main

import (
	"bufio"
	"context"
	"encoding/binary"
	"encoding/hex"
	"fmt"
	"io"
	"log"
	"net"
	"os"
	"sort"
	"strconv"
	"strings"
	"sync"
	"time"

	"github.com/jackc/pgproto3/v2"

	"github.com/kafscale/platform/addons/processors/sql-processor/internal/config"
	"github.com/kafscale/platform/addons/processors/sql-processor/internal/decoder"
	"github.com/kafscale/platform/addons/processors/sql-processor/internal/discovery"
	"github.com/kafscale/platform/addons/processors/sql-processor/internal/proxy"
	"github.com/kafscale/platform/addons/processors/sql-processor/internal/server"
)

type recorder struct {
	mu     sync.Mutex
	topics []string
	reads  map[string]bool
	listed bool
}

func (r *recorder) read(t string) { r.mu.Lock(); r.reads[t] = true; r.mu.Unlock() }

func (r *recorder) take() ([]string, bool) {
	r.mu.Lock()
	defer r.mu.Unlock()
	var out []string
	for t := range r.reads {
		out = append(out, t)
	}
	sort.Strings(out)
	l := r.listed
	r.reads, r.listed = map[string]bool{}, false
	return out, l
}

// ListCompleted: one segment per known topic (listing alone does not read a topic's data).
func (r *recorder) ListCompleted(ctx context.Context) ([]discovery.SegmentRef, error) {
	var out []discovery.SegmentRef
	for _, t := range r.topics {
		out = append(out, discovery.SegmentRef{Topic: t, Partition: 0, SegmentKey: t + "/0/segment-0.kfs", IndexKey: t + "/0/segment-0.index"})
	}
	return out, nil
}

func (r *recorder) Decode(ctx context.Context, segmentKey, indexKey string, topic string, partition int32) ([]decoder.Record, error) {
	r.read(topic)
	return []decoder.Record{{Topic: topic, Partition: partition, Offset: 0, Timestamp: time.Now().UnixMilli(), Key: []byte("k"), Value: []byte(`{"a":1}`)}}, nil
}

func (r *recorder) Topics(ctx context.Context) ([]string, error) {
	r.mu.Lock()
	r.listed = true
	r.mu.Unlock()
	return append([]string(nil), r.topics...), nil
}

func (r *recorder) Partitions(ctx context.Context, topic string) ([]int32, error) {
	r.read(topic)
	return []int32{0}, nil
}

// tee records the Query messages the proxy writes to the upstream connection.
type tee struct {
	net.Conn
	mu      sync.Mutex
	buf     []byte
	started bool
	queries []string
}

func (t *tee) Write(p []byte) (int, error) {
	t.mu.Lock()
	t.buf = append(t.buf, p...)
	for {
		if !t.started {
			if len(t.buf) < 4 {
				break
			}
			n := int(binary.BigEndian.Uint32(t.buf[:4]))
			if len(t.buf) < n {
				break
			}
			t.buf = t.buf[n:]
			t.started = true
			continue
		}
		if len(t.buf) < 5 {
			break
		}
		n := int(binary.BigEndian.Uint32(t.buf[1:5]))
		if len(t.buf) < 1+n {
			break
		}
		if t.buf[0] == 'Q' {
			body := t.buf[5 : 1+n]
			if len(body) > 0 && body[len(body)-1] == 0 {
				body = body[:len(body)-1]
			}
			t.queries = append(t.queries, string(body))
		}
		t.buf = t.buf[1+n:]
	}
	t.mu.Unlock()
	return t.Conn.Write(p)
}

func (t *tee) take() []string {
	t.mu.Lock()
	defer t.mu.Unlock()
	q := t.queries
	t.queries = nil
	return q
}

type session struct {
	client   net.Conn
	frontend *pgproto3.Frontend
	up       *tee
	cancel   context.CancelFunc
}

func (s *session) close() {
	if s == nil {
		return
	}
	_ = s.frontend.Send(&pgproto3.Terminate{})
	s.cancel()
	_ = s.client.Close()
}

const descPrefix = "$.verif_"

// answer is what the client saw for one query.
type answer struct {
	sawError bool
	plan     []string // topics named in EXPLAIN plan rows
	desc     []string // topics whose schema column was sent (DESCRIBE)
}

func readUntilReady(f *pgproto3.Frontend) (answer, error) {
	var a answer
	for {
		msg, err := f.Receive()
		if err != nil {
			return a, err
		}
		switch m := msg.(type) {
		case *pgproto3.ErrorResponse:
			a.sawError = true
		case *pgproto3.DataRow:
			if len(m.Values) == 1 {
				line := strings.TrimSpace(string(m.Values[0]))
				if strings.HasPrefix(line, "Scan: ") {
					a.plan = append(a.plan, strings.TrimPrefix(line, "Scan: "))
				} else if strings.HasPrefix(line, "Join: ") {
					fs := strings.Split(strings.TrimPrefix(line, "Join: "), " ")
					if len(fs) >= 3 {
						a.plan = append(a.plan, fs[0], fs[len(fs)-1])
					}
				}
			}
			if len(m.Values) == 3 && strings.HasPrefix(string(m.Values[2]), descPrefix) {
				if b, err := hex.DecodeString(strings.TrimPrefix(string(m.Values[2]), descPrefix)); err == nil {
					a.desc = append(a.desc, string(b))
				}
			}
		case *pgproto3.ReadyForQuery:
			return a, nil
		}
	}
}

func hexList(xs []string) string {
	if len(xs) == 0 {
		return "-"
	}
	seen := map[string]bool{}
	var out []string
	for _, x := range xs {
		if !seen[x] {
			seen[x] = true
			out = append(out, x)
		}
	}
	sort.Strings(out)
	for i, x := range out {
		out[i] = hx(x)
	}
	return strings.Join(out, ",")
}

func decodeList(s string) ([]string, error) {
	if s == "-" {
		return nil, nil
	}
	var out []string
	for _, h := range strings.Split(s, ",") {
		if h == "-" || h == "~" { // an empty element (`~`: unambiguous also for a one-element list)
			out = append(out, "")
			continue
		}
		b, err := hex.DecodeString(h)
		if err != nil {
			return nil, err
		}
		out = append(out, string(b))
	}
	return out, nil
}

func newSession(rec *recorder, ttl, max int, allow, deny []string) (*session, error) {
	cfg := config.Config{Query: config.QueryConfig{DefaultLimit: 100, MaxUnbounded: 10000}}
	for _, t := range rec.topics {
		// the schema of a topic names the topic: DESCRIBE <t> becomes observable at the client
		cfg.Metadata.Topics = append(cfg.Metadata.Topics, config.TopicConfig{Name: t, Partitions: []int32{0},
			Schema: config.SchemaConfig{Columns: []config.SchemaColumn{{Name: "verif", Type: "int", Path: descPrefix + hex.EncodeToString([]byte(t))}}}})
	}
	upstream := server.VerifNewServer(cfg, rec, rec, rec)
	px := proxy.New(config.ProxyConfig{Listen: ":0", Upstreams: []string{"upstream"}, CacheTTLSeconds: ttl, CacheMaxEntries: max,
		ACL: config.ProxyACLConfig{Allow: allow, Deny: deny}}, log.New(io.Discard, "", 0))
	ctx, cancel := context.WithCancel(context.Background())
	s := &session{cancel: cancel}
	px.VerifSetDialer(func(ctx context.Context, addr string) (net.Conn, error) {
		a, b := net.Pipe()
		go func() { upstream.VerifHandleConnection(ctx, b) }()
		s.up = &tee{Conn: a}
		return s.up, nil
	})
	serverSide, clientSide := net.Pipe()
	go func() { _ = px.VerifHandleConn(ctx, serverSide) }()
	s.client = clientSide
	s.frontend = pgproto3.NewFrontend(pgproto3.NewChunkReader(clientSide), clientSide)
	startup := &pgproto3.StartupMessage{ProtocolVersion: pgproto3.ProtocolVersionNumber, Parameters: map[string]string{"user": "verif"}}
	buf, err := startup.Encode(nil)
	if err != nil {
		return nil, err
	}
	if _, err := clientSide.Write(buf); err != nil {
		return nil, err
	}
	if _, err := readUntilReady(s.frontend); err != nil {
		return nil, err
	}
	return s, nil
}

func hx(s string) string {
	if s == "" {
		return "-"
	}
	return hex.EncodeToString([]byte(s))
}

func main() {
	w := bufio.NewWriter(os.Stdout)
	defer w.Flush()
	rec := &recorder{reads: map[string]bool{}}
	var cur *session
	sc := bufio.NewScanner(os.Stdin)
	sc.Buffer(make([]byte, 1<<20), 1<<26)
	for sc.Scan() {
		f := strings.Fields(sc.Text())
		if len(f) == 0 || strings.HasPrefix(f[0], "#") {
			continue
		}
		switch {
		case f[0] == "topics" && len(f) == 2:
			ts, err := decodeList(f[1])
			if err != nil {
				fmt.Fprintln(w, "bad-op")
				continue
			}
			rec.topics = ts
			fmt.Fprintln(w, "topics")
		case f[0] == "conn" && len(f) == 5:
			cur.close()
			ttl, e1 := strconv.Atoi(f[1])
			max, e2 := strconv.Atoi(f[2])
			allow, e3 := decodeList(f[3])
			deny, e4 := decodeList(f[4])
			if e1 != nil || e2 != nil || e3 != nil || e4 != nil {
				fmt.Fprintln(w, "bad-op")
				continue
			}
			s, err := newSession(rec, ttl, max, allow, deny)
			if err != nil {
				fmt.Fprintln(w, "conn-failed")
				cur = nil
				continue
			}
			cur = s
			rec.take()
			fmt.Fprintln(w, "conn")
		case f[0] == "acl" && len(f) == 4:
			allow, e1 := decodeList(f[1])
			deny, e2 := decodeList(f[2])
			topic, e3 := hex.DecodeString(f[3])
			if e1 != nil || e2 != nil || (e3 != nil && f[3] != "-") {
				fmt.Fprintln(w, "bad-op")
				continue
			}
			b := func(v bool) int {
				if v {
					return 1
				}
				return 0
			}
			ma, md, al, sh := proxy.VerifACLProbe(allow, deny, string(topic))
			fmt.Fprintf(w, "acl ma=%d md=%d allows=%d show=%d\n", b(ma), b(md), b(al), b(sh))
		case f[0] == "q" && len(f) == 2 && cur != nil:
			text, err := hex.DecodeString(f[1])
			if err != nil && f[1] != "-" {
				fmt.Fprintln(w, "bad-op")
				continue
			}
			if err := cur.frontend.Send(&pgproto3.Query{String: string(text)}); err != nil {
				fmt.Fprintln(w, "send-failed")
				continue
			}
			ans, err := readUntilReady(cur.frontend)
			if err != nil {
				fmt.Fprintln(w, "connection-lost")
				continue
			}
			qs := cur.up.take()
			reads, listed := rec.take()
			if len(qs) == 0 {
				fmt.Fprintln(w, "deny")
				continue
			}
			parts := make([]string, len(qs))
			for i, q := range qs {
				parts[i] = hx(q)
			}
			rs := make([]string, len(reads))
			for i, r := range reads {
				rs[i] = hx(r)
			}
			rl := "-"
			if len(rs) > 0 {
				rl = strings.Join(rs, ",")
			}
			l := "0"
			if listed {
				l = "1"
			}
			e := "0"
			if ans.sawError {
				e = "1"
			}
			fmt.Fprintf(w, "fwd %s reads=%s listed=%s plan=%s desc=%s err=%s\n", strings.Join(parts, "+"), rl, l, hexList(ans.plan), hexList(ans.desc), e)
		default:
			fmt.Fprintln(w, "bad-op")
		}
		w.Flush()
	}
	cur.close()
}
