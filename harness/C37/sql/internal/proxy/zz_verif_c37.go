//go:build verif

package proxy

import (
	"context"
	"net"
)

// VerifHandleConn runs the real per-connection loop of the proxy.
func (s *Server) VerifHandleConn(ctx context.Context, conn net.Conn) error { return s.handleConn(ctx, conn) }

// VerifSetDialer replaces the upstream dialer (the repo's own tests do the same).
func (s *Server) VerifSetDialer(d func(ctx context.Context, addr string) (net.Conn, error)) { s.dialer = d }

// VerifACLProbe asks the real ACL (acl.go) about one topic: matchPatterns on either list, Allows, AllowShowTopics.
func VerifACLProbe(allow, deny []string, topic string) (ma, md, allows, show bool) {
	a := ACL{Allow: allow, Deny: deny}
	return matchPatterns(allow, topic), matchPatterns(deny, topic), a.Allows(topic), a.AllowShowTopics()
}
