//go:build verif

// C10 correspondence harness: drives the real pkg/protocol frame/header/body parsers with the
// op lines on stdin, one canonical result line per op (same format as lean/Driver/C10.lean).
//
//	verif_c10 flex            print kmsg's request flexibility table as a `flex` op line
//	verif_c10 gen <seed> <n>  print n rounds of `rt` ops: every kmsg request key x version,
//	                          generated field values, encoded by kmsg's RequestFormatter
//	verif_c10 conc <seed> <ms>  concurrent scenario: GOMAXPROCS goroutines parse valid generated frames of the
//	                          SAME api key at versions on both sides of its flexible boundary for <ms> milliseconds;
//	                          every result is compared with what was encoded (header fields, body bytes, re-encoded
//	                          decoded request).  Prints `conc ok parses=N` or `conc mismatch <what> rt <k> <v> <corr> <cid> <payload>`
//	verif_c10                 op loop (hdr / skip / frame / frames / rt / enc / kdec / preq lines)
//
// kdec k v <bodyhex>        the ORACLE for the body stage: kmsg alone (RequestForKey, SetVersion, ReadFrom) -> `kdec unk|ok|err|panic`
// preq <oracle> <hex>       protocol.ParseRequest (header AND body) on the payload; the first word is the kdec result for the
//                           body (input of the model, ignored here) -> `ok k v corr cid=..` / `err` / `panic`
package main

import (
	"bufio"
	"bytes"
	"encoding/binary"
	"encoding/hex"
	"errors"
	"fmt"
	"io"
	"os"
	"runtime"
	"strconv"
	"strings"
	"sync"
	"sync/atomic"
	"time"

	"github.com/KafScale/platform/pkg/protocol"
	"github.com/twmb/franz-go/pkg/kmsg"
)

func hx(b []byte) string {
	if len(b) == 0 {
		return "-"
	}
	return hex.EncodeToString(b)
}

func unhx(s string) ([]byte, bool) {
	if s == "-" {
		return []byte{}, true
	}
	b, err := hex.DecodeString(s)
	return b, err == nil
}

func cidStr(p *string) string {
	if p == nil {
		return "null"
	}
	return hx([]byte(*p))
}

// supported = the API keys pkg/protocol/api.go declares.
var supported = map[int16]bool{
	protocol.APIKeyProduce: true, protocol.APIKeyFetch: true, protocol.APIKeyListOffsets: true,
	protocol.APIKeyMetadata: true, protocol.APIKeyOffsetCommit: true, protocol.APIKeyOffsetFetch: true,
	protocol.APIKeyFindCoordinator: true, protocol.APIKeyJoinGroup: true, protocol.APIKeyHeartbeat: true,
	protocol.APIKeyLeaveGroup: true, protocol.APIKeySyncGroup: true, protocol.APIKeyDescribeGroups: true,
	protocol.APIKeyListGroups: true, protocol.APIKeyApiVersion: true, protocol.APIKeyCreateTopics: true,
	protocol.APIKeyDeleteTopics: true, protocol.APIKeyOffsetForLeaderEpoch: true, protocol.APIKeyDescribeConfigs: true,
	protocol.APIKeyAlterConfigs: true, protocol.APIKeyCreatePartitions: true, protocol.APIKeyDeleteGroups: true,
}

func flexLine() string {
	var sb strings.Builder
	sb.WriteString("flex")
	for k := int16(0); k <= kmsg.MaxKey+2; k++ {
		req := kmsg.RequestForKey(k)
		if req == nil {
			continue
		}
		first := int16(-1)
		for v := int16(0); v <= req.MaxVersion()+3; v++ {
			req.SetVersion(v)
			if req.IsFlexible() {
				first = v
				break
			}
		}
		if first < 0 {
			first = 32767 // never flexible within int16 versions probed
		}
		// the table is a threshold iff IsFlexible is monotone; checked here so the model's
		// `first ≤ v` reading is justified on every run
		for v := int16(-3); v <= req.MaxVersion()+40; v++ {
			req.SetVersion(v)
			if req.IsFlexible() != (v >= first) {
				fmt.Fprintf(os.Stderr, "flex table not a threshold for key %d at v%d\n", k, v)
				os.Exit(3)
			}
		}
		fmt.Fprintf(&sb, " %d:%d", k, first)
	}
	return sb.String()
}

func gen(seed uint64, rounds int) {
	w := bufio.NewWriter(os.Stdout)
	defer w.Flush()
	rng := &protocol.VerifRng{S: seed}
	cids := []*string{nil, kmsg.StringPtr(""), kmsg.StringPtr("c"), kmsg.StringPtr("client-ä"), kmsg.StringPtr(strings.Repeat("x", 300))}
	for round := 0; round < rounds; round++ {
		for k := int16(0); k <= kmsg.MaxKey; k++ {
			probe := kmsg.RequestForKey(k)
			if probe == nil || (k == 7) { // ControlledShutdown v0 has no client id (not served)
				continue
			}
			for v := int16(0); v <= probe.MaxVersion(); v++ {
				req := protocol.VerifFillRequest(k, v, rng)
				corr := int32(rng.Next())
				cid := cids[rng.Below(len(cids))]
				var f *kmsg.RequestFormatter
				if cid == nil {
					f = kmsg.NewRequestFormatter()
				} else {
					f = kmsg.NewRequestFormatter(kmsg.FormatterClientID(*cid))
				}
				frame := f.AppendRequest(nil, req, corr)
				fmt.Fprintf(w, "rt %d %d %d %s %s\n", k, v, corr, cidStr(cid), hx(frame[4:]))
			}
		}
	}
}

// chunkReader delivers data like a TCP connection might: mode 0 = everything that fits the caller's buffer,
// 1 = one byte per Read, 2 = split inside every 4-byte length prefix, other = seeded chunk sizes 1..40.
type chunkReader struct {
	data []byte
	pos  int
	mode uint64
	s    uint64
}

func (c *chunkReader) Read(p []byte) (int, error) {
	if c.pos >= len(c.data) {
		return 0, io.EOF
	}
	n := len(c.data) - c.pos
	switch c.mode {
	case 0:
	case 1:
		n = 1
	case 2:
		n = 2
	default:
		c.s = c.s*6364136223846793005 + 1442695040888963407
		n = 1 + int((c.s>>33)%40)
	}
	if n > len(c.data)-c.pos {
		n = len(c.data) - c.pos
	}
	if n > len(p) {
		n = len(p)
	}
	copy(p, c.data[c.pos:c.pos+n])
	c.pos += n
	return n, nil
}

func doOp(f []string) (out string) {
	defer func() {
		if r := recover(); r != nil {
			if f[0] == "rt" {
				out = "rt panic"
			} else if f[0] == "kdec" {
				out = "kdec panic"
			} else {
				out = "panic"
			}
		}
	}()
	switch {
	case f[0] == "flex":
		return fmt.Sprintf("flex %d", len(f)-1)
	case f[0] == "hdr" && len(f) == 2:
		b, ok := unhx(f[1])
		if !ok {
			return "bad-op"
		}
		h, body, err := protocol.ParseRequestHeader(b)
		if err != nil {
			return "err"
		}
		return fmt.Sprintf("ok %d %d %d cid=%s body=%s", h.APIKey, h.APIVersion, h.CorrelationID, cidStr(h.ClientID), hx(body))
	case f[0] == "skip" && len(f) == 2:
		b, ok := unhx(f[1])
		if !ok {
			return "bad-op"
		}
		pos, err := protocol.VerifSkipTagged(b)
		if err != nil {
			return "err"
		}
		return fmt.Sprintf("ok %d", pos)
	case f[0] == "frame" && len(f) == 2:
		b, ok := unhx(f[1])
		if !ok {
			return "bad-op"
		}
		rd := bytes.NewReader(b)
		fr, err := protocol.ReadFrame(rd)
		if err != nil {
			return "err"
		}
		rest := b[len(b)-rd.Len():]
		if int(fr.Length) != len(fr.Payload) {
			return "ok LENGTH-MISMATCH"
		}
		return fmt.Sprintf("ok %s rest=%s", hx(fr.Payload), hx(rest))
	case f[0] == "frames" && len(f) == 3:
		// the connection loop: ReadFrame until it fails, on ONE reader that delivers the stream in chunks
		b, ok := unhx(f[2])
		mode, err := strconv.ParseUint(f[1], 10, 64)
		if !ok || err != nil {
			return "bad-op"
		}
		rd := &chunkReader{data: b, mode: mode, s: mode}
		var ps []string
		end := "err"
		for {
			fr, err := protocol.ReadFrame(rd)
			if err != nil {
				if errors.Is(err, io.EOF) && !errors.Is(err, io.ErrUnexpectedEOF) {
					end = "eof"
				}
				break
			}
			ps = append(ps, hx(fr.Payload))
		}
		return fmt.Sprintf("frames n=%d payloads=%s end=%s", len(ps), strings.Join(ps, "|"), end)
	case f[0] == "enc" && len(f) == 6:
		// what a client writes: header fields + (flexible versions) a tagged-field section, built with encoding/binary
		// (binary.AppendUvarint) — ties the model's encodeHeader/putUvarint (the encoder of the round-trip theorem) to Go's
		k, e1 := strconv.ParseInt(f[1], 10, 16)
		v, e2 := strconv.ParseInt(f[2], 10, 16)
		c, e3 := strconv.ParseInt(f[3], 10, 32)
		if e1 != nil || e2 != nil || e3 != nil {
			return "bad-op"
		}
		out := binary.BigEndian.AppendUint16(nil, uint16(int16(k)))
		out = binary.BigEndian.AppendUint16(out, uint16(int16(v)))
		out = binary.BigEndian.AppendUint32(out, uint32(int32(c)))
		if f[4] == "null" {
			out = append(out, 0xff, 0xff)
		} else {
			cid, ok := unhx(f[4])
			if !ok || len(cid) > 65535 {
				return "bad-op"
			}
			// above 32767 the int16 length wraps, exactly as a careless writer's int16(len(s)) would
			out = binary.BigEndian.AppendUint16(out, uint16(len(cid)))
			out = append(out, cid...)
		}
		flexible := false
		if req := kmsg.RequestForKey(int16(k)); req != nil {
			req.SetVersion(int16(v))
			flexible = req.IsFlexible()
		}
		if flexible {
			var tags []string
			if f[5] != "-" {
				tags = strings.Split(f[5], ",")
			}
			out = binary.AppendUvarint(out, uint64(len(tags)))
			for _, t := range tags {
				kv := strings.SplitN(t, ":", 2)
				if len(kv) != 2 {
					return "bad-op"
				}
				tag, err := strconv.ParseUint(kv[0], 10, 64)
				data, ok := unhx(kv[1])
				if err != nil || !ok {
					return "bad-op"
				}
				out = binary.AppendUvarint(out, tag)
				out = binary.AppendUvarint(out, uint64(len(data)))
				out = append(out, data...)
			}
		}
		return "enc " + hx(out)
	case f[0] == "kdec" && len(f) == 4:
		k, e1 := strconv.ParseInt(f[1], 10, 16)
		v, e2 := strconv.ParseInt(f[2], 10, 16)
		b, ok := unhx(f[3])
		if e1 != nil || e2 != nil || !ok {
			return "bad-op"
		}
		req := kmsg.RequestForKey(int16(k))
		if req == nil {
			return "kdec unk"
		}
		req.SetVersion(int16(v))
		if err := req.ReadFrom(b); err != nil {
			return "kdec err"
		}
		return "kdec ok"
	case f[0] == "preq" && len(f) == 3:
		b, ok := unhx(f[2])
		if !ok {
			return "bad-op"
		}
		h, req, err := protocol.ParseRequest(b)
		if err != nil {
			if h != nil || req != nil {
				return "err WITH-VALUE"
			}
			return "err"
		}
		if h == nil || req == nil {
			return "ok NIL-VALUE"
		}
		if req.Key() != h.APIKey || req.GetVersion() != h.APIVersion {
			return fmt.Sprintf("ok %d %d %d cid=%s DECODED-AS %d v%d", h.APIKey, h.APIVersion, h.CorrelationID, cidStr(h.ClientID), req.Key(), req.GetVersion())
		}
		return fmt.Sprintf("ok %d %d %d cid=%s", h.APIKey, h.APIVersion, h.CorrelationID, cidStr(h.ClientID))
	case f[0] == "rt" && len(f) == 6:
		k, e1 := strconv.Atoi(f[1])
		v, e2 := strconv.Atoi(f[2])
		c, e3 := strconv.Atoi(f[3])
		b, ok := unhx(f[5])
		if e1 != nil || e2 != nil || e3 != nil || !ok {
			return "bad-op"
		}
		h, body, err := protocol.ParseRequestHeader(b)
		if err != nil {
			return "rt err"
		}
		if int(h.APIKey) != k || int(h.APIVersion) != v || int(h.CorrelationID) != c || cidStr(h.ClientID) != f[4] {
			return fmt.Sprintf("rt mismatch ok %d %d %d cid=%s body=%s", h.APIKey, h.APIVersion, h.CorrelationID, cidStr(h.ClientID), hx(body))
		}
		// body: the decoded request must carry everything that was encoded
		h2, req, err := protocol.ParseRequest(b)
		if err != nil {
			if supported[int16(k)] {
				return "rt body-decode-failed"
			}
			return "rt ok"
		}
		if h2.APIKey != h.APIKey || req.Key() != h.APIKey || req.GetVersion() != h.APIVersion {
			return "rt body-key-mismatch"
		}
		if supported[int16(k)] && !bytes.Equal(req.AppendTo(nil), body) {
			return "rt body-mismatch"
		}
		return "rt ok"
	}
	return "bad-op"
}

type concFrame struct {
	key, ver int16
	corr     int32
	cid      *string
	payload  []byte // frame without the 4-byte length
	body     []byte // what the client encoded as the body
}

// conc: no parse may be disturbed by other parses running at the same time.
func conc(seed uint64, ms int) string {
	rng := &protocol.VerifRng{S: seed}
	// per supported key: frames at every version (the interesting ones straddle the first flexible version)
	byKey := map[int16][]concFrame{}
	var keys []int16
	for k := int16(0); k <= kmsg.MaxKey; k++ {
		if !supported[k] {
			continue
		}
		probe := kmsg.RequestForKey(k)
		keys = append(keys, k)
		for rep := 0; rep < 3; rep++ {
			for v := int16(0); v <= probe.MaxVersion(); v++ {
				req := protocol.VerifFillRequest(k, v, rng)
				corr := int32(rng.Next())
				cid := fmt.Sprintf("client-%d", rng.Below(1000))
				frame := kmsg.NewRequestFormatter(kmsg.FormatterClientID(cid)).AppendRequest(nil, req, corr)
				byKey[k] = append(byKey[k], concFrame{k, v, corr, &cid, frame[4:], req.AppendTo(nil)})
			}
		}
	}
	var current atomic.Int64 // index of the key everybody hammers right now
	var parses atomic.Int64
	var stop atomic.Bool
	var mu sync.Mutex
	first := ""
	report := func(what string, f concFrame) {
		mu.Lock()
		if first == "" {
			first = fmt.Sprintf("conc mismatch %s rt %d %d %d %s %s", what, f.key, f.ver, f.corr, cidStr(f.cid), hx(f.payload))
		}
		mu.Unlock()
		stop.Store(true)
	}
	deadline := time.Now().Add(time.Duration(ms) * time.Millisecond)
	n := runtime.GOMAXPROCS(0)
	if n < 2 {
		n = 2
	}
	var wg sync.WaitGroup
	for g := 0; g < n; g++ {
		wg.Add(1)
		go func(g int) {
			defer wg.Done()
			defer func() {
				if r := recover(); r != nil {
					report(fmt.Sprintf("panic:%v", r), concFrame{})
				}
			}()
			local := &protocol.VerifRng{S: seed + uint64(g)*7919}
			for i := 0; !stop.Load(); i++ {
				if i%256 == 0 && time.Now().After(deadline) {
					return
				}
				fs := byKey[keys[int(current.Load())%len(keys)]]
				f := fs[local.Below(len(fs))]
				h, body, err := protocol.ParseRequestHeader(f.payload)
				if err != nil {
					report("header-error", f)
					return
				}
				if h.APIKey != f.key || h.APIVersion != f.ver || h.CorrelationID != f.corr || cidStr(h.ClientID) != cidStr(f.cid) {
					report("header-fields", f)
					return
				}
				if !bytes.Equal(body, f.body) {
					report("body-bytes", f)
					return
				}
				_, req, err := protocol.ParseRequest(f.payload)
				if err != nil {
					report("body-decode-failed", f)
					return
				}
				if req.Key() != f.key || req.GetVersion() != f.ver || !bytes.Equal(req.AppendTo(nil), f.body) {
					report("decoded-request-differs", f)
					return
				}
				parses.Add(1)
			}
		}(g)
	}
	// move everybody to the next key every 40 ms
	for !stop.Load() && time.Now().Before(deadline) {
		time.Sleep(40 * time.Millisecond)
		current.Add(1)
	}
	wg.Wait()
	if first != "" {
		return first
	}
	return fmt.Sprintf("conc ok parses=%d goroutines=%d", parses.Load(), n)
}

func main() {
	if len(os.Args) > 3 && os.Args[1] == "conc" {
		seed, _ := strconv.ParseUint(os.Args[2], 10, 64)
		ms, _ := strconv.Atoi(os.Args[3])
		fmt.Println(conc(seed, ms))
		return
	}
	if len(os.Args) > 1 && os.Args[1] == "flex" {
		fmt.Println(flexLine())
		return
	}
	if len(os.Args) > 3 && os.Args[1] == "gen" {
		seed, _ := strconv.ParseUint(os.Args[2], 10, 64)
		n, _ := strconv.Atoi(os.Args[3])
		gen(seed, n)
		return
	}
	w := bufio.NewWriter(os.Stdout)
	defer w.Flush()
	sc := bufio.NewScanner(os.Stdin)
	sc.Buffer(make([]byte, 1<<20), 1<<28)
	for sc.Scan() {
		f := strings.Fields(sc.Text())
		if len(f) == 0 || strings.HasPrefix(f[0], "#") {
			continue
		}
		fmt.Fprintln(w, doOp(f))
		w.Flush()
	}
}
