//go:build verif

package protocol

import (
	"reflect"

	"github.com/twmb/franz-go/pkg/kmsg"
)

// VerifSkipTagged runs byteReader.SkipTaggedFields on b from position 0 and returns the
// reader position afterwards.
func VerifSkipTagged(b []byte) (int, error) {
	r := newByteReader(b)
	err := r.SkipTaggedFields()
	return r.pos, err
}

// VerifRng is the SplitMix64 generator every harness derives its choices from.
type VerifRng struct{ S uint64 }

func (r *VerifRng) Next() uint64 {
	r.S += 0x9E3779B97F4A7C15
	z := r.S
	z = (z ^ (z >> 30)) * 0xBF58476D1CE4E5B9
	z = (z ^ (z >> 27)) * 0x94D049BB133111EB
	return z ^ (z >> 31)
}
func (r *VerifRng) Below(n int) int {
	if n <= 0 {
		return 0
	}
	return int(r.Next() % uint64(n))
}

var verifStrings = []string{"", "a", "orders", "t-1", "group-a", "x.y_z", "Ünï", "0123456789abcdef0123456789abcdef"}

// VerifFill fills every settable field of a kmsg request/response struct with generated
// values (boundary integers, short strings, nil/empty/non-empty slices), to the given depth.
// Fields called Version and UnknownTags are left alone.
func VerifFill(v reflect.Value, r *VerifRng, depth int) {
	switch v.Kind() {
	case reflect.Ptr:
		if v.IsNil() {
			if r.Below(3) == 0 {
				return
			}
			v.Set(reflect.New(v.Type().Elem()))
		}
		VerifFill(v.Elem(), r, depth)
	case reflect.Struct:
		t := v.Type()
		for i := 0; i < v.NumField(); i++ {
			f := t.Field(i)
			if f.PkgPath != "" || f.Name == "Version" || f.Name == "UnknownTags" {
				continue
			}
			VerifFill(v.Field(i), r, depth)
		}
	case reflect.Bool:
		v.SetBool(r.Below(2) == 0)
	case reflect.Int8, reflect.Int16, reflect.Int32, reflect.Int64:
		bits := v.Type().Bits()
		var x int64
		switch r.Below(7) {
		case 0:
			x = 0
		case 1:
			x = 1
		case 2:
			x = -1
		case 3:
			x = int64(1)<<(bits-1) - 1
		case 4:
			x = -(int64(1) << (bits - 1))
		default:
			x = int64(r.Below(1000))
		}
		v.SetInt(x)
	case reflect.Uint8, reflect.Uint16, reflect.Uint32, reflect.Uint64:
		v.SetUint(uint64(r.Below(200)))
	case reflect.Float64:
		v.SetFloat(float64(r.Below(4)) / 2)
	case reflect.String:
		v.SetString(verifStrings[r.Below(len(verifStrings))])
	case reflect.Array:
		if r.Below(2) == 0 {
			for i := 0; i < v.Len(); i++ {
				VerifFill(v.Index(i), r, depth)
			}
		}
	case reflect.Slice:
		if v.Type().Elem().Kind() == reflect.Uint8 {
			switch r.Below(3) {
			case 0:
				v.Set(reflect.Zero(v.Type()))
			case 1:
				v.SetBytes([]byte{})
			default:
				b := make([]byte, 1+r.Below(12))
				for i := range b {
					b[i] = byte(r.Next())
				}
				v.SetBytes(b)
			}
			return
		}
		n := 0
		if depth > 0 {
			n = r.Below(3)
		}
		if n == 0 {
			if r.Below(2) == 0 {
				v.Set(reflect.Zero(v.Type()))
			} else {
				v.Set(reflect.MakeSlice(v.Type(), 0, 0))
			}
			return
		}
		s := reflect.MakeSlice(v.Type(), n, n)
		for i := 0; i < n; i++ {
			VerifFill(s.Index(i), r, depth-1)
		}
		v.Set(s)
	}
}

// VerifFillRequest: a fresh request for key at version with generated field values.
func VerifFillRequest(key, version int16, r *VerifRng) kmsg.Request {
	req := kmsg.RequestForKey(key)
	if req == nil {
		return nil
	}
	VerifFill(reflect.ValueOf(req), r, 2)
	req.SetVersion(version)
	return req
}
