// C45 fact extractor: the package-level variables of pkg/idoc and what function bodies do to them.
//
// ExplodeXML must be a function of the configuration and the document of the CALL; the only thing
// that survives from one call to the next inside the package is a package-level variable.  For
// every package-level `var` of the package (all non-test .go files next to the given file) this
// lists the sites inside function bodies (init() excluded) that can change what a later call
// sees through it:
//
//	write   assignment to it / one of its fields / elements (=, op=, ++, --, range … =),
//	        delete / clear / copy-into / append-assign, &v
//	method  a method call on the variable itself or on one of its fields when the variable is a
//	        struct / array / sync.* / other named value (v.Lock(), v.Get(), v.buf.Reset() …);
//	        variables initialised by regexp.MustCompile, errors.New, fmt.Errorf are exempt
//	alias   a map / slice / pointer variable that escapes whole: x := v, f(v), return v
//	        (len / cap / range-read / indexing are reads)
//
// The check turns the JSON into lean/KafVerif/Gen/C45Vars.lean (obligation
// KafVerif.C45.no_package_level_state: every variable has 0 such sites).
//
// Usage: go run main.go -f <path to explode.go>     (standard library only)
package main

import (
	"encoding/json"
	"flag"
	"fmt"
	"go/ast"
	"go/parser"
	"go/token"
	"os"
	"path/filepath"
	"sort"
	"strings"
)

type varRow struct {
	File    string   `json:"file"`
	Line    int      `json:"line"`
	Name    string   `json:"name"`
	Kind    string   `json:"kind"`
	Writes  int      `json:"writes"`
	Methods int      `json:"methods"`
	Aliases int      `json:"aliases"`
	Reads   int      `json:"reads"`
	Sites   []string `json:"sites"`
}

type pkgVar struct {
	row  *varRow
	spec *ast.ValueSpec
}

func selName(e ast.Expr) string {
	if s, ok := e.(*ast.SelectorExpr); ok {
		if x, ok := s.X.(*ast.Ident); ok {
			return x.Name + "." + s.Sel.Name
		}
	}
	return ""
}

var basic = map[string]bool{"string": true, "bool": true, "int": true, "int8": true, "int16": true, "int32": true, "int64": true,
	"uint": true, "uint8": true, "uint16": true, "uint32": true, "uint64": true, "uintptr": true, "byte": true, "rune": true,
	"float32": true, "float64": true, "complex64": true, "complex128": true, "error": true}

func kindOfType(t ast.Expr) string {
	switch x := t.(type) {
	case *ast.MapType:
		return "map"
	case *ast.ArrayType:
		if x.Len == nil {
			return "slice"
		}
		return "array"
	case *ast.StarExpr:
		return "pointer"
	case *ast.StructType:
		return "struct"
	case *ast.FuncType:
		return "func"
	case *ast.ChanType:
		return "pointer"
	case *ast.InterfaceType:
		return "other"
	case *ast.SelectorExpr:
		if strings.HasPrefix(selName(x), "sync.") || strings.HasPrefix(selName(x), "atomic.") {
			return "sync"
		}
		return "other"
	case *ast.Ident:
		if basic[x.Name] {
			return "scalar"
		}
		return "other"
	case *ast.ParenExpr:
		return kindOfType(x.X)
	case *ast.IndexExpr: // generic instantiation, e.g. atomic.Pointer[T]
		return kindOfType(x.X)
	}
	return "other"
}

func kindOfValue(v ast.Expr) string {
	switch x := v.(type) {
	case *ast.BasicLit:
		return "scalar"
	case *ast.FuncLit:
		return "func"
	case *ast.CompositeLit:
		if x.Type != nil {
			return kindOfType(x.Type)
		}
		return "other"
	case *ast.UnaryExpr:
		if x.Op == token.AND {
			return "pointer"
		}
		return "scalar"
	case *ast.BinaryExpr:
		return "scalar"
	case *ast.CallExpr:
		switch selName(x.Fun) {
		case "regexp.MustCompile", "regexp.MustCompilePOSIX":
			return "regexp"
		case "errors.New", "fmt.Errorf":
			return "error"
		case "strings.NewReplacer":
			return "regexp" // immutable after construction, like a compiled regexp
		}
		if id, ok := x.Fun.(*ast.Ident); ok && (id.Name == "make" || id.Name == "new") && len(x.Args) > 0 {
			if id.Name == "new" {
				return "pointer"
			}
			return kindOfType(x.Args[0])
		}
		if _, ok := x.Fun.(*ast.ArrayType); ok { // conversion []byte("…")
			return "slice"
		}
		return "other"
	}
	return "other"
}

type walker struct {
	fset *token.FileSet
	vars map[string]*pkgVar
	fn   string
}

// isPkgVar: the identifier denotes the package-level variable of that name (not a local that shadows it).
func (w *walker) isPkgVar(id *ast.Ident) *pkgVar {
	v := w.vars[id.Name]
	if v == nil {
		return nil
	}
	if id.Obj == nil { // declared in another file of the package: unresolved by the single-file resolver
		return v
	}
	if id.Obj.Decl == v.spec {
		return v
	}
	return nil
}

// root strips selectors / indexing / slicing / dereference / parentheses down to the base identifier;
// exact reports whether nothing was stripped (the variable itself, possibly parenthesised or re-sliced).
func (w *walker) root(e ast.Expr) (v *pkgVar, exact bool) {
	exact = true
	for {
		switch x := e.(type) {
		case *ast.Ident:
			return w.isPkgVar(x), exact
		case *ast.ParenExpr:
			e = x.X
		case *ast.SliceExpr:
			e = x.X
		case *ast.SelectorExpr:
			e, exact = x.X, false
		case *ast.IndexExpr:
			e, exact = x.X, false
		case *ast.StarExpr:
			e, exact = x.X, false
		default:
			return nil, false
		}
	}
}

func (w *walker) site(v *pkgVar, what string, pos token.Pos) {
	p := w.fset.Position(pos)
	v.row.Sites = append(v.row.Sites, fmt.Sprintf("%s %s:%d (%s)", what, filepath.Base(p.Filename), p.Line, w.fn))
}

func (w *walker) write(e ast.Expr) bool {
	if v, _ := w.root(e); v != nil {
		v.row.Writes++
		w.site(v, "write", e.Pos())
		return true
	}
	return false
}

func refKind(k string) bool { return k == "map" || k == "slice" || k == "pointer" }

func (w *walker) alias(e ast.Expr) {
	if v, exact := w.root(e); v != nil && exact && refKind(v.row.Kind) {
		v.row.Aliases++
		w.site(v, "alias", e.Pos())
	}
}

var readOnlyBuiltins = map[string]bool{"len": true, "cap": true, "string": true, "print": true, "println": true, "min": true, "max": true}

func (w *walker) Visit(n ast.Node) ast.Visitor {
	switch x := n.(type) {
	case *ast.AssignStmt:
		if x.Tok != token.DEFINE {
			for _, l := range x.Lhs {
				w.write(l)
			}
		}
		for _, r := range x.Rhs {
			w.alias(r)
		}
	case *ast.IncDecStmt:
		w.write(x.X)
	case *ast.RangeStmt:
		if x.Tok == token.ASSIGN {
			if x.Key != nil {
				w.write(x.Key)
			}
			if x.Value != nil {
				w.write(x.Value)
			}
		}
	case *ast.UnaryExpr:
		if x.Op == token.AND {
			w.write(x.X)
		}
	case *ast.ReturnStmt:
		for _, r := range x.Results {
			w.alias(r)
		}
	case *ast.ValueSpec: // local `var x = v`
		for _, r := range x.Values {
			w.alias(r)
		}
	case *ast.SendStmt:
		w.alias(x.Value)
	case *ast.CompositeLit:
		for _, el := range x.Elts {
			if kv, ok := el.(*ast.KeyValueExpr); ok {
				w.alias(kv.Value)
			} else {
				w.alias(el)
			}
		}
	case *ast.CallExpr:
		if id, ok := x.Fun.(*ast.Ident); ok && id.Obj == nil {
			switch {
			case (id.Name == "delete" || id.Name == "clear" || id.Name == "copy") && len(x.Args) > 0:
				w.write(x.Args[0])
				return w
			case id.Name == "append":
				for _, a := range x.Args[1:] {
					w.alias(a)
				}
				return w
			case readOnlyBuiltins[id.Name]:
				return w
			}
		}
		if s, ok := x.Fun.(*ast.SelectorExpr); ok {
			if v, _ := w.root(s.X); v != nil {
				switch v.row.Kind {
				case "struct", "array", "sync", "other", "scalar":
					v.row.Methods++
					w.site(v, "method ."+s.Sel.Name+"()", x.Pos())
				}
			}
		}
		for _, a := range x.Args {
			w.alias(a)
		}
	case *ast.Ident:
		if v := w.isPkgVar(x); v != nil {
			v.row.Reads++ // every mention, including the ones classified above
		}
	case *ast.SelectorExpr:
		ast.Walk(w, x.X) // x.Sel is a field / method name, never a variable
		return nil
	case *ast.KeyValueExpr:
		if _, ok := x.Key.(*ast.Ident); !ok {
			ast.Walk(w, x.Key)
		}
		ast.Walk(w, x.Value)
		return nil
	}
	return w
}

func main() {
	file := flag.String("f", "", "a .go file of the package")
	flag.Parse()
	dir := filepath.Dir(*file)
	names, err := filepath.Glob(filepath.Join(dir, "*.go"))
	if err != nil || len(names) == 0 {
		fmt.Fprintln(os.Stderr, "no go files in", dir)
		os.Exit(1)
	}
	sort.Strings(names)
	fset := token.NewFileSet()
	var files []*ast.File
	for _, fn := range names {
		if strings.HasSuffix(fn, "_test.go") {
			continue
		}
		f, err := parser.ParseFile(fset, fn, nil, 0)
		if err != nil {
			fmt.Fprintln(os.Stderr, err)
			os.Exit(1)
		}
		files = append(files, f)
	}
	vars := map[string]*pkgVar{}
	var order []*varRow
	for _, f := range files {
		for _, d := range f.Decls {
			g, ok := d.(*ast.GenDecl)
			if !ok || g.Tok != token.VAR {
				continue
			}
			for _, sp := range g.Specs {
				vs := sp.(*ast.ValueSpec)
				for i, id := range vs.Names {
					if id.Name == "_" {
						continue
					}
					kind := "other"
					if vs.Type != nil {
						kind = kindOfType(vs.Type)
					} else if i < len(vs.Values) {
						kind = kindOfValue(vs.Values[i])
					}
					p := fset.Position(id.Pos())
					row := &varRow{File: filepath.Base(p.Filename), Line: p.Line, Name: id.Name, Kind: kind, Sites: []string{}}
					vars[id.Name] = &pkgVar{row: row, spec: vs}
					order = append(order, row)
				}
			}
		}
	}
	nfuncs := 0
	for _, f := range files {
		for _, d := range f.Decls {
			fd, ok := d.(*ast.FuncDecl)
			if !ok || fd.Body == nil || (fd.Recv == nil && fd.Name.Name == "init") {
				continue
			}
			nfuncs++
			w := &walker{fset: fset, vars: vars, fn: fd.Name.Name}
			ast.Walk(w, fd.Body)
		}
		// function literals in package-level initialisers run at start-up only: not walked
	}
	if order == nil {
		order = []*varRow{}
	}
	var fnames []string
	for _, f := range files {
		fnames = append(fnames, filepath.Base(fset.Position(f.Pos()).Filename))
	}
	out := map[string]interface{}{"files": fnames, "funcs": nfuncs, "pkg_vars": order}
	enc := json.NewEncoder(os.Stdout)
	enc.SetIndent("", " ")
	_ = enc.Encode(out)
}
