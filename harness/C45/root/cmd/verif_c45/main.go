//go:build verif

// C45 correspondence harness: serialises the token list of each `doc` line to XML text, feeds the
// real idoc.ExplodeXML and prints the Result canonically (format of lean/Driver/C45.lean).
// `raw <hex>` lines feed arbitrary bytes (totality monitor only).
//
// The whole op file is ONE process, so the calls form a sequence.  `call <mode> <items> <partners>
// <statuses> <dates> <toks>` is `doc` with a prescribed way of handing the configuration to
// ExplodeXML, the way a long-running caller does it:
//
//	fresh    newly allocated slices (what `doc` does)
//	reuse    names = append(names[:0], ...) into the harness's persistent buffers (same backing
//	         arrays as the previous reuse/inplace call whenever the capacity suffices)
//	inplace  cfg.ItemSegments[i] = ... element by element into the persistent config when the
//	         lengths match (otherwise like reuse)
//	same     the persistent config is passed again untouched (the op's lists must equal it)
//
// After every doc/call the harness also (a) checks that ExplodeXML left the caller's configuration
// and input bytes alone and (b) re-renders the Results of the previous calls: a Result that changed
// after it was returned gets ` changed-after-return=<age>` appended to the CURRENT line.
package main

import (
	"bufio"
	"bytes"
	"encoding/hex"
	"encoding/xml"
	"fmt"
	"os"
	"sort"
	"strings"

	"github.com/KafScale/platform/pkg/idoc"
)

func unhex(s string) (string, bool) {
	if s == "-" {
		return "", true
	}
	b, err := hex.DecodeString(s)
	return string(b), err == nil
}

func hx(s string) string {
	if s == "" {
		return "-"
	}
	return hex.EncodeToString([]byte(s))
}

func parseList(s string) ([]string, bool) {
	if s == "_" {
		return nil, true
	}
	var out []string
	for _, h := range strings.Split(s, ",") {
		v, ok := unhex(h)
		if !ok {
			return nil, false
		}
		out = append(out, v)
	}
	return out, true
}

func esc(s string) string {
	var b bytes.Buffer
	_ = xml.EscapeText(&b, []byte(s))
	return b.String()
}

// serialise turns the token list into XML text.
func serialise(toks []string) (string, bool) {
	var b strings.Builder
	var stack []string
	for _, t := range toks {
		switch t[0] {
		case 'P':
			b.WriteString("<?xml version=\"1.0\" encoding=\"UTF-8\"?>\n")
		case 'S', 's':
			parts := strings.SplitN(t[1:], ":", 2)
			name, ok := unhex(parts[0])
			if !ok {
				return "", false
			}
			b.WriteString("<" + name)
			if len(parts) == 2 {
				for _, kv := range strings.Split(parts[1], ",") {
					p := strings.SplitN(kv, "=", 2)
					if len(p) != 2 {
						return "", false
					}
					k, ok1 := unhex(p[0])
					v, ok2 := unhex(p[1])
					if !ok1 || !ok2 {
						return "", false
					}
					b.WriteString(" " + k + "=\"" + esc(v) + "\"")
				}
			}
			if t[0] == 's' {
				b.WriteString("/>")
				stack = append(stack, "")
			} else {
				b.WriteString(">")
				stack = append(stack, name)
			}
		case 'E':
			if len(stack) == 0 {
				return "", false
			}
			name := stack[len(stack)-1]
			stack = stack[:len(stack)-1]
			if name != "" {
				b.WriteString("</" + name + ">")
			}
		case 'T':
			s, ok := unhex(t[1:])
			if !ok {
				return "", false
			}
			b.WriteString(esc(s))
		case 'C':
			s, ok := unhex(t[1:])
			if !ok {
				return "", false
			}
			b.WriteString("<![CDATA[" + s + "]]>")
		case 'K':
			s, ok := unhex(t[1:])
			if !ok {
				return "", false
			}
			b.WriteString("<!--" + s + "-->")
		default:
			return "", false
		}
	}
	return b.String(), true
}

func showMap(m map[string]string) string {
	items := make([]string, 0, len(m))
	for k, v := range m {
		items = append(items, hx(k)+"="+hx(v))
	}
	sort.Strings(items)
	return strings.Join(items, ",")
}

func showSegs(segs []idoc.Segment) string {
	out := make([]string, len(segs))
	for i, s := range segs {
		out[i] = hx(s.Name) + "~" + hx(s.Path) + "~" + showMap(s.Attributes) + "~" + hx(s.Value) + "~" + showMap(s.Fields)
	}
	return strings.Join(out, "|")
}

// persistent caller-side configuration (modes reuse / inplace / same)
var (
	bufs [4][]string
	cur  idoc.ExplodeConfig
)

func curLists() [4]*[]string {
	return [4]*[]string{&cur.ItemSegments, &cur.PartnerSegments, &cur.StatusSegments, &cur.DateSegments}
}

func sameList(a, b []string) bool {
	if len(a) != len(b) {
		return false
	}
	for i := range a {
		if a[i] != b[i] {
			return false
		}
	}
	return true
}

// deliver builds the ExplodeConfig for this call the way `mode` prescribes.
func deliver(mode string, lists [4][]string) (idoc.ExplodeConfig, bool) {
	switch mode {
	case "fresh":
		var c [4][]string
		for k, l := range lists {
			if l != nil {
				c[k] = make([]string, len(l))
				copy(c[k], l)
			}
		}
		return idoc.ExplodeConfig{ItemSegments: c[0], PartnerSegments: c[1], StatusSegments: c[2], DateSegments: c[3]}, true
	case "reuse", "inplace":
		for k, dst := range curLists() {
			if mode == "inplace" && len(*dst) == len(lists[k]) {
				for i := range lists[k] {
					(*dst)[i] = lists[k][i]
				}
				continue
			}
			bufs[k] = append(bufs[k][:0], lists[k]...)
			*dst = bufs[k]
		}
		return cur, true
	case "same":
		for k, dst := range curLists() {
			if !sameList(*dst, lists[k]) {
				return cur, false
			}
		}
		return cur, true
	}
	return cur, false
}

type kept struct {
	res  idoc.Result
	show string
}

var history []kept // most recent last; at most 4

func showResult(r idoc.Result) string {
	root := "-"
	if r.Header.Root != "" {
		root = hx(r.Header.Root)
	}
	return fmt.Sprintf("ok root=%s hattrs=%s n=%d segs=%s items=%s partners=%s statuses=%s dates=%s", root,
		showMap(r.Header.Attributes), len(r.Segments), showSegs(r.Segments), showSegs(r.Items), showSegs(r.Partners),
		showSegs(r.Statuses), showSegs(r.Dates))
}

// explodeOnce runs one call and the caller-side monitors around it.
func explodeOnce(text string, cfg idoc.ExplodeConfig, lists [4][]string) string {
	raw := []byte(text)
	r, err := idoc.ExplodeXML(raw, cfg)
	suffix := ""
	if string(raw) != text {
		suffix += " input-bytes-modified"
	}
	for k, l := range [4][]string{cfg.ItemSegments, cfg.PartnerSegments, cfg.StatusSegments, cfg.DateSegments} {
		if !sameList(l, lists[k]) {
			suffix += " config-modified"
			break
		}
	}
	for i, h := range history {
		if showResult(h.res) != h.show {
			suffix += fmt.Sprintf(" changed-after-return=%d", len(history)-i)
			history[i].show = showResult(h.res)
		}
	}
	if err != nil {
		return "err" + suffix
	}
	out := showResult(r)
	history = append(history, kept{r, out})
	if len(history) > 4 {
		history = history[1:]
	}
	return out + suffix
}

func main() {
	w := bufio.NewWriter(os.Stdout)
	defer w.Flush()
	sc := bufio.NewScanner(os.Stdin)
	sc.Buffer(make([]byte, 1<<20), 1<<26)
	for sc.Scan() {
		f := strings.Fields(sc.Text())
		if len(f) == 0 || strings.HasPrefix(f[0], "#") {
			continue
		}
		out := func() (res string) {
			defer func() {
				if r := recover(); r != nil {
					res = "panic"
				}
			}()
			switch {
			case f[0] == "mode":
				return "ok"
			case f[0] == "raw" && len(f) == 2:
				b, ok := unhex(f[1])
				if !ok {
					return "bad-op"
				}
				if _, err := idoc.ExplodeXML([]byte(b), idoc.ExplodeConfig{ItemSegments: []string{"A"}}); err != nil {
					return "raw err"
				}
				return "raw ok"
			case (f[0] == "doc" && len(f) == 6) || (f[0] == "call" && len(f) == 7):
				mode := "fresh"
				if f[0] == "call" {
					mode = f[1]
					f = f[1:]
				}
				items, ok1 := parseList(f[1])
				partners, ok2 := parseList(f[2])
				statuses, ok3 := parseList(f[3])
				dates, ok4 := parseList(f[4])
				text, ok5 := serialise(strings.Split(f[5], ";"))
				if !(ok1 && ok2 && ok3 && ok4 && ok5) {
					return "bad-op"
				}
				lists := [4][]string{items, partners, statuses, dates}
				cfg, ok := deliver(mode, lists)
				if !ok {
					return "bad-op"
				}
				return explodeOnce(text, cfg, lists)
			}
			return "bad-op"
		}()
		fmt.Fprintln(w, out)
	}
}
