//go:build verif

// C02/C03/C04 storage-level correspondence harness: drives real storage.PartitionLog instances
// (shared in-memory S3 + shared segment cache) with the op lines on stdin and prints one canonical
// result line per op, in the format of lean/KafVerif/Model/PLogProto.lean.
//
//	[@k] new <indexInterval> <cache 0|1> <startOffset> [<readAheadSegments>]
//	[@k] append <hex record set>
//	[@k] flush | gate | release | restart | restartat <storeOffset> | dropcache | read <offset> <maxBytes> | find <offset>
//	[@k] read2 <o1> <m1> <o2> <m2>        two goroutines call Read at the same time
//	[@k] delindex <base> | badindex <base> | delseg <base>   object loss in S3 (index gone / index corrupt / segment and index gone)
//
// Hand-out stability: every byte slice returned by Read is kept together with a private copy taken right after the
// call returned; after EVERY later op all of them are compared again.  A slice whose contents changed is reported as
// `handout-changed <index of the read op>` in place of the op's own result line.
//
// k selects one of the logs (default 0): 0 = orders/0, 1 = orders/1, 2 = orders/10 (S3 prefix of 1 is a string prefix of 2's).
package main

import (
	"bufio"
	"bytes"
	"context"
	"encoding/hex"
	"errors"
	"fmt"
	"os"
	"strconv"
	"strings"
	"sync"
	"time"

	"github.com/KafScale/platform/pkg/cache"
	"github.com/KafScale/platform/pkg/storage"
)

type gateS3 struct {
	storage.S3Client
	mu      sync.Mutex
	on      bool
	arrived chan struct{}
	open    chan struct{}
}

func (g *gateS3) wait() {
	g.mu.Lock()
	on, arrived, open := g.on, g.arrived, g.open
	g.mu.Unlock()
	if !on {
		return
	}
	arrived <- struct{}{}
	<-open
}

func (g *gateS3) UploadSegment(ctx context.Context, key string, body []byte) error {
	g.wait()
	return g.S3Client.UploadSegment(ctx, key, body)
}

func (g *gateS3) UploadIndex(ctx context.Context, key string, body []byte) error {
	g.wait()
	return g.S3Client.UploadIndex(ctx, key, body)
}

type logID struct {
	topic string
	part  int32
}

var ids = []logID{{"orders", 0}, {"orders", 1}, {"orders", 10}}

type plog struct {
	l         *storage.PartitionLog
	interval  int32
	cacheOn   bool
	published int64
	origin    int64
	id        logID
}

var (
	s3     = &gateS3{S3Client: storage.NewMemoryS3Client()}
	shared = cache.NewSegmentCache(256 << 20)
	logs   = make([]*plog, len(ids))
	gated  *plog
	done   chan error

	readAhead int

	// slices handed out by Read (with the private copy taken when Read returned) of the current world
	handouts []handout
	opNo     int
)

type handout struct {
	op        int
	got, want []byte
}

func keep(data []byte) {
	if len(handouts) >= 512 {
		handouts = handouts[1:]
	}
	handouts = append(handouts, handout{op: opNo, got: data, want: append([]byte(nil), data...)})
}

// staleHandout returns the op number of the first handed-out slice whose bytes are no longer what Read returned.
func staleHandout() int {
	for i, h := range handouts {
		if !bytes.Equal(h.got, h.want) {
			handouts = append(handouts[:i:i], handouts[i+1:]...)
			return h.op
		}
	}
	return -1
}

type readRes struct {
	data []byte
	copy []byte
	err  error
	pan  bool
}

func (r readRes) String() string {
	switch {
	case r.pan:
		return "panic"
	case r.err != nil && errors.Is(r.err, storage.ErrOffsetOutOfRange):
		return "oor"
	case r.err != nil:
		return "err"
	}
	return "d:" + hx(r.copy)
}

func (p *plog) open(start int64) {
	cfg := storage.PartitionLogConfig{
		Buffer:            storage.WriteBufferConfig{},
		Segment:           storage.SegmentWriterConfig{IndexIntervalMessages: p.interval},
		ReadAheadSegments: readAhead,
		CacheEnabled:      p.cacheOn,
	}
	var c *cache.SegmentCache
	if p.cacheOn {
		c = shared
	}
	p.l = storage.NewPartitionLog("default", p.id.topic, p.id.part, start, s3, c, cfg,
		func(_ context.Context, a *storage.SegmentArtifact) { p.published = a.LastOffset + 1 }, nil, nil)
}

func bl(bs []storage.VerifBatch) string {
	if len(bs) == 0 {
		return "-"
	}
	xs := make([]string, len(bs))
	for i, b := range bs {
		xs[i] = fmt.Sprintf("%d:%d:%d:%d:%d", b.Base, b.LOD, b.Count, b.Len, b.Hdr)
	}
	return strings.Join(xs, ",")
}

func (p *plog) dump() string {
	st := p.l.VerifState()
	segs := make([]string, len(st.Segs))
	cached := []string{}
	for i, s := range st.Segs {
		es := make([]string, len(s.Entries))
		for j, e := range s.Entries {
			es[j] = fmt.Sprintf("%d@%d", e.Offset, e.Position)
		}
		segs[i] = fmt.Sprintf("%d:%d:%d[%s]", s.Base, s.Last, s.Size, strings.Join(es, ","))
		if p.l.VerifCached(s.Base) {
			cached = append(cached, strconv.FormatInt(s.Base, 10))
		}
	}
	sg := strings.Join(segs, ";")
	if sg == "" {
		sg = "-"
	}
	cs := strings.Join(cached, ",")
	if cs == "" {
		cs = "-"
	}
	return fmt.Sprintf("n=%d hw=%d segs=%s buf=%s fl=%s c=%s", st.Next, p.published, sg, bl(st.Buf), bl(st.Fl), cs)
}

func hx(b []byte) string {
	if len(b) == 0 {
		return "-"
	}
	return hex.EncodeToString(b)
}

func doOp(f []string) (out string) {
	defer func() {
		if r := recover(); r != nil {
			out = "panic"
		}
	}()
	k := 0
	if strings.HasPrefix(f[0], "@") {
		n, err := strconv.Atoi(f[0][1:])
		if err != nil || n < 0 || n >= len(ids) || len(f) < 2 {
			return "bad-op"
		}
		k, f = n, f[1:]
	}
	ctx := context.Background()
	if f[0] == "new" && (len(f) == 4 || len(f) == 5) {
		readAhead = 0
		if len(f) == 5 { // monitor-only streams: prefetch goroutines on
			ra, err := strconv.Atoi(f[4])
			if err != nil {
				return "bad-op"
			}
			readAhead = ra
		}
		iv, e1 := strconv.ParseInt(f[1], 10, 32)
		start, e3 := strconv.ParseInt(f[3], 10, 64)
		if e1 != nil || e3 != nil || (f[2] != "0" && f[2] != "1") || gated != nil {
			return "bad-op"
		}
		if k == 0 { // a fresh world
			handouts = nil
			s3 = &gateS3{S3Client: storage.NewMemoryS3Client()}
			shared = cache.NewSegmentCache(256 << 20)
			logs = make([]*plog, len(ids))
		}
		p := &plog{interval: int32(iv), cacheOn: f[2] == "1", published: start, origin: start, id: ids[k]}
		p.open(start)
		logs[k] = p
		return "new | " + p.dump()
	}
	p := logs[k]
	if p == nil {
		return "bad-op"
	}
	switch {
	case f[0] == "append" && len(f) == 2:
		var data []byte
		if f[1] != "-" {
			var err error
			if data, err = hex.DecodeString(f[1]); err != nil {
				return "bad-op"
			}
		}
		b, err := storage.NewRecordBatchFromBytes(data)
		if err != nil {
			return "parse-err | " + p.dump()
		}
		res, err := p.l.AppendBatch(ctx, b)
		if err != nil {
			return "rej | " + p.dump()
		}
		return fmt.Sprintf("ok %d %d | %s", res.BaseOffset, res.LastOffset, p.dump())
	case f[0] == "flush" && len(f) == 1:
		if gated != nil {
			return "busy"
		}
		if err := p.l.Flush(ctx); err != nil {
			return "err | " + p.dump()
		}
		return "flushed | " + p.dump()
	case f[0] == "gate" && len(f) == 1:
		if gated != nil {
			return "busy"
		}
		s3.mu.Lock()
		s3.on, s3.arrived, s3.open = true, make(chan struct{}, 4), make(chan struct{})
		s3.mu.Unlock()
		done = make(chan error, 1)
		go func() { done <- p.l.Flush(ctx) }()
		// wait until the flush is blocked inside S3: the first upload must arrive; a second one (segment and
		// index are uploaded concurrently today) gets a short grace period so that a sequential upload
		// order would not hang the harness
		for n := 0; n < 2; {
			grace := 20 * time.Second
			if n == 1 {
				grace = 200 * time.Millisecond
			}
			select {
			case <-s3.arrived:
				n++
			case err := <-done: // nothing to upload
				s3.mu.Lock()
				s3.on = false
				s3.mu.Unlock()
				if err != nil {
					return "err | " + p.dump()
				}
				return "nogate | " + p.dump()
			case <-time.After(grace):
				if n == 0 {
					return "stuck"
				}
				n = 2
			}
		}
		gated = p
		return "gated | " + p.dump()
	case f[0] == "release" && len(f) == 1:
		if gated != p {
			return "busy"
		}
		s3.mu.Lock()
		s3.on = false
		close(s3.open)
		s3.mu.Unlock()
		var err error
		select {
		case err = <-done:
		case <-time.After(20 * time.Second):
			return "stuck"
		}
		gated = nil
		if err != nil {
			return "err | " + p.dump()
		}
		return "released | " + p.dump()
	case (f[0] == "restart" && len(f) == 1) || (f[0] == "restartat" && len(f) == 2):
		if gated != nil {
			return "busy"
		}
		// the metadata store's offset: the published watermark, or (restartat) an older value, as after a
		// crash between the S3 upload and UpdateOffsets
		start := p.published
		if f[0] == "restartat" {
			s, err := strconv.ParseInt(f[1], 10, 64)
			if err != nil || s < p.origin || s > p.published {
				return "bad-op"
			}
			start = s
		}
		p.open(start)
		p.published = start
		last, err := p.l.RestoreFromS3(ctx)
		if err != nil {
			return "err | " + p.dump()
		}
		if last >= start {
			p.published = last + 1
		}
		return fmt.Sprintf("restarted %d | %s", last, p.dump())
	case f[0] == "dropcache" && len(f) == 1:
		if p.cacheOn {
			shared = cache.NewSegmentCache(256 << 20)
			for _, q := range logs {
				if q != nil && q.cacheOn {
					q.l.VerifSetCache(shared)
				}
			}
		}
		return "dropped | " + p.dump()
	case f[0] == "read" && len(f) == 3:
		off, e1 := strconv.ParseInt(f[1], 10, 64)
		max, e2 := strconv.ParseInt(f[2], 10, 32)
		if e1 != nil || e2 != nil {
			return "bad-op"
		}
		data, err := p.l.Read(ctx, off, int32(max))
		if err != nil {
			if errors.Is(err, storage.ErrOffsetOutOfRange) {
				return "oor | " + p.dump()
			}
			return "err | " + p.dump()
		}
		keep(data)
		return "data " + hx(data) + " | " + p.dump()
	case f[0] == "read2" && len(f) == 5:
		var off [2]int64
		var max [2]int64
		for i := 0; i < 2; i++ {
			var e1, e2 error
			off[i], e1 = strconv.ParseInt(f[1+2*i], 10, 64)
			max[i], e2 = strconv.ParseInt(f[2+2*i], 10, 32)
			if e1 != nil || e2 != nil {
				return "bad-op"
			}
		}
		var res [2]readRes
		var wg sync.WaitGroup
		start := make(chan struct{})
		for i := 0; i < 2; i++ {
			wg.Add(1)
			go func(i int) {
				defer wg.Done()
				defer func() {
					if r := recover(); r != nil {
						res[i].pan = true
					}
				}()
				<-start
				d, err := p.l.Read(ctx, off[i], int32(max[i]))
				res[i] = readRes{data: d, copy: append([]byte(nil), d...), err: err}
			}(i)
		}
		close(start)
		wg.Wait()
		for i := 0; i < 2; i++ {
			if !res[i].pan && res[i].err == nil {
				if len(handouts) >= 512 {
					handouts = handouts[1:]
				}
				handouts = append(handouts, handout{op: opNo, got: res[i].data, want: res[i].copy})
			}
		}
		return "read2 " + res[0].String() + " " + res[1].String() + " | " + p.dump()
	case (f[0] == "delindex" || f[0] == "badindex" || f[0] == "delseg") && len(f) == 2:
		base, err := strconv.ParseInt(f[1], 10, 64)
		if err != nil || gated != nil {
			return "bad-op"
		}
		switch f[0] {
		case "delindex":
			_ = s3.S3Client.DeleteIndex(ctx, p.l.VerifIndexKey(base))
		case "badindex":
			if _, err := s3.S3Client.DownloadIndex(ctx, p.l.VerifIndexKey(base)); err == nil {
				_ = s3.S3Client.UploadIndex(ctx, p.l.VerifIndexKey(base), []byte("not an index"))
			}
		case "delseg":
			_ = s3.S3Client.DeleteSegment(ctx, p.l.VerifSegmentKey(base))
			_ = s3.S3Client.DeleteIndex(ctx, p.l.VerifIndexKey(base))
		}
		return "lost | " + p.dump()
	case f[0] == "find" && len(f) >= 2: // find <offset> <off@pos>... : findIndexEntry on an explicit table
		off, e1 := strconv.ParseInt(f[1], 10, 64)
		if e1 != nil {
			return "bad-op"
		}
		var ents []storage.IndexEntry
		for _, w := range f[2:] {
			a := strings.SplitN(w, "@", 2)
			if len(a) != 2 {
				return "bad-op"
			}
			o, e1 := strconv.ParseInt(a[0], 10, 64)
			ps, e2 := strconv.ParseInt(a[1], 10, 32)
			if e1 != nil || e2 != nil {
				return "bad-op"
			}
			ents = append(ents, storage.IndexEntry{Offset: o, Position: int32(ps)})
		}
		e := storage.VerifFindIndexEntry(ents, off)
		return fmt.Sprintf("entry %d@%d", e.Offset, e.Position)
	}
	return "bad-op"
}

func main() {
	w := bufio.NewWriter(os.Stdout)
	defer w.Flush()
	sc := bufio.NewScanner(os.Stdin)
	sc.Buffer(make([]byte, 1<<20), 1<<26)
	for sc.Scan() {
		f := strings.Fields(sc.Text())
		if len(f) == 0 || strings.HasPrefix(f[0], "#") {
			continue
		}
		opNo++
		line := doOp(f)
		if at := staleHandout(); at >= 0 {
			line = fmt.Sprintf("handout-changed %d", at)
		}
		fmt.Fprintln(w, line)
		w.Flush()
	}
}
