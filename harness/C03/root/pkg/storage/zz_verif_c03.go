//go:build verif

package storage

import "github.com/KafScale/platform/pkg/cache"

// Read-only views of PartitionLog state for the C02/C03/C04 correspondence harness.

type VerifBatch struct {
	Base  int64
	LOD   int32
	Count int32
	Len   int
	Hdr   int64 // int64 stored in Bytes[0:8]
}

type VerifSeg struct {
	Base, Last, Size int64
	Entries          []IndexEntry
	HasEntries       bool
}

type VerifState struct {
	Next     int64
	Flushing bool
	Segs     []VerifSeg
	Buf, Fl  []VerifBatch
}

func verifBatches(bs []RecordBatch) []VerifBatch {
	out := make([]VerifBatch, 0, len(bs))
	for _, b := range bs {
		v := VerifBatch{Base: b.BaseOffset, LOD: b.LastOffsetDelta, Count: b.MessageCount, Len: len(b.Bytes)}
		if len(b.Bytes) >= 8 {
			var h uint64
			for i := 0; i < 8; i++ {
				h = h<<8 | uint64(b.Bytes[i])
			}
			v.Hdr = int64(h)
		}
		out = append(out, v)
	}
	return out
}

// VerifState snapshots the offset/segment/buffer state under the log's own locks.
func (l *PartitionLog) VerifState() VerifState {
	l.mu.Lock()
	defer l.mu.Unlock()
	st := VerifState{Next: l.nextOffset, Flushing: l.flushing}
	for _, s := range l.segments {
		vs := VerifSeg{Base: s.baseOffset, Last: s.lastOffset, Size: s.size}
		ents, ok := l.indexEntries[s.baseOffset]
		vs.HasEntries = ok
		for _, e := range ents {
			vs.Entries = append(vs.Entries, *e)
		}
		st.Segs = append(st.Segs, vs)
	}
	l.buffer.mu.Lock()
	st.Buf = verifBatches(l.buffer.batches)
	l.buffer.mu.Unlock()
	st.Fl = verifBatches(l.flushingBatches)
	return st
}

// VerifSetCache swaps the segment cache (nil disables the cached path together with CacheEnabled=false).
func (l *PartitionLog) VerifSetCache(c *cache.SegmentCache) {
	l.mu.Lock()
	defer l.mu.Unlock()
	l.cache = c
}

// VerifCached reports whether the segment with the given base offset is in the cache.
func (l *PartitionLog) VerifCached(base int64) bool {
	if l.cache == nil || !l.cfg.CacheEnabled {
		return false
	}
	_, ok := l.cache.GetSegment(l.cacheTopicKey(), l.partition, base)
	return ok
}

// VerifFindIndexEntry exposes findIndexEntry.
func VerifFindIndexEntry(entries []IndexEntry, offset int64) IndexEntry {
	ps := make([]*IndexEntry, len(entries))
	for i := range entries {
		ps[i] = &entries[i]
	}
	return *findIndexEntry(ps, offset)
}

// VerifSegmentKey exposes the S3 key of a segment.
func (l *PartitionLog) VerifSegmentKey(base int64) string { return l.segmentKey(base) }

// VerifIndexKey exposes the S3 key of a segment's index object.
func (l *PartitionLog) VerifIndexKey(base int64) string { return l.indexKey(base) }
