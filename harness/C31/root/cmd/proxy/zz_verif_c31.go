//go:build verif

// C31 correspondence harness (overlay into cmd/proxy, active only when VERIF_HARNESS=C31):
// builds real produce requests (franz-go encoders + real compression codecs) from the op line,
// runs the proxy's rewriteProduceRecords on the ghost S3 and prints the decoded result.
package main

import (
	"bufio"
	"bytes"
	"context"
	"crypto/sha256"
	"encoding/binary"
	"encoding/hex"
	"fmt"
	"hash/crc32"
	"os"
	"sort"
	"strconv"
	"strings"

	"github.com/KafScale/platform/pkg/lfs"
	"github.com/KafScale/platform/pkg/protocol"
	"github.com/twmb/franz-go/pkg/kgo"
	"github.com/twmb/franz-go/pkg/kmsg"
)

func init() {
	if os.Getenv("VERIF_HARNESS") != "C31" {
		return
	}
	verifC31Main()
	os.Exit(0)
}

func verifC31Tok(s string) []byte { // nil | - | hex
	switch s {
	case "nil":
		return nil
	case "-":
		return []byte{}
	}
	b, err := hex.DecodeString(s)
	if err != nil {
		panic("bad hex " + s)
	}
	return b
}

func verifC31Show(b []byte) string {
	if b == nil {
		return "nil"
	}
	if len(b) == 0 {
		return "-"
	}
	return hex.EncodeToString(b)
}

var verifC31CRC = crc32.MakeTable(crc32.Castagnoli)

var verifC31Comps = map[int]kgo.Compressor{}

func verifC31Compress(codec int, raw []byte) []byte {
	var opt kgo.CompressionCodec
	switch codec {
	case 0:
		return raw
	case 1:
		opt = kgo.GzipCompression()
	case 2:
		opt = kgo.SnappyCompression()
	case 3:
		opt = kgo.Lz4Compression()
	case 4:
		opt = kgo.ZstdCompression()
	default:
		return raw // unknown codec bits: payload left as is
	}
	comp := verifC31Comps[codec]
	if comp == nil {
		c, err := kgo.DefaultCompressor(opt)
		if err != nil || c == nil {
			panic("compressor")
		}
		comp = c
		verifC31Comps[codec] = c
	}
	out, used := comp.Compress(bytes.NewBuffer(nil), raw)
	if int(used) != codec {
		panic("compressor used another codec")
	}
	return append([]byte(nil), out...)
}

type verifC31In struct {
	value []byte
}

// parse builds the request; origs[topic][part][batch][record] = original values
func verifC31Build(f []string) (*kmsg.ProduceRequest, [][][][]verifC31In, [][][][]byte) {
	req := kmsg.NewPtrProduceRequest()
	req.SetVersion(9)
	req.Acks = 1
	var origs [][][][]verifC31In
	var rawBatches [][][][]byte
	i := 0
	var curRecs []kmsg.Record
	var curVals []verifC31In
	codec, numRecords := 0, 0
	inBatch := false
	flush := func() {
		if !inBatch {
			return
		}
		var payload []byte
		for _, r := range curRecs {
			payload = r.AppendTo(payload)
		}
		b := kmsg.RecordBatch{FirstOffset: 100, PartitionLeaderEpoch: -1, Magic: 2, Attributes: int16(codec) | 0x10,
			LastOffsetDelta: int32(len(curRecs) - 1), FirstTimestamp: 1700000000000, MaxTimestamp: 1700000000999, ProducerID: 42,
			ProducerEpoch: 3, FirstSequence: 5, NumRecords: int32(numRecords), Records: verifC31Compress(codec, payload)}
		raw := b.AppendTo(nil)
		b.Length = int32(len(raw) - 12)
		raw = b.AppendTo(nil)
		b.CRC = int32(crc32.Checksum(raw[21:], verifC31CRC))
		raw = b.AppendTo(nil)
		t := &req.Topics[len(req.Topics)-1]
		p := &t.Partitions[len(t.Partitions)-1]
		p.Records = append(p.Records, raw...)
		ti, pi := len(origs)-1, len(origs[len(origs)-1])-1
		origs[ti][pi] = append(origs[ti][pi], curVals)
		rawBatches[ti][pi] = append(rawBatches[ti][pi], raw)
		curRecs, curVals, inBatch = nil, nil, false
	}
	for i < len(f) {
		switch f[i] {
		case "T":
			flush()
			t := kmsg.NewProduceRequestTopic()
			t.Topic = string(verifC31Tok(f[i+1]))
			req.Topics = append(req.Topics, t)
			origs = append(origs, nil)
			rawBatches = append(rawBatches, nil)
			i += 2
		case "P":
			flush()
			p := kmsg.NewProduceRequestTopicPartition()
			n, _ := strconv.Atoi(f[i+1])
			p.Partition = int32(n)
			t := &req.Topics[len(req.Topics)-1]
			t.Partitions = append(t.Partitions, p)
			origs[len(origs)-1] = append(origs[len(origs)-1], nil)
			rawBatches[len(rawBatches)-1] = append(rawBatches[len(rawBatches)-1], nil)
			i += 2
		case "B":
			flush()
			codec, _ = strconv.Atoi(f[i+1])
			numRecords, _ = strconv.Atoi(f[i+2])
			inBatch = true
			i += 3
		case "R":
			attrs, _ := strconv.Atoi(f[i+1])
			ts, _ := strconv.ParseInt(f[i+2], 10, 64)
			off, _ := strconv.Atoi(f[i+3])
			nh, _ := strconv.Atoi(f[i+6])
			r := kmsg.Record{Attributes: int8(attrs), TimestampDelta64: ts, OffsetDelta: int32(off), Key: verifC31Tok(f[i+4]), Value: verifC31Tok(f[i+5])}
			i += 7
			for h := 0; h < nh; h++ {
				r.Headers = append(r.Headers, kmsg.Header{Key: string(verifC31Tok(f[i])), Value: verifC31Tok(f[i+1])})
				i += 2
			}
			// franz-go's Record.AppendTo writes the Length field from the struct: compute it
			tmp := r.AppendTo(nil)
			_, n := binary.Varint(tmp)
			r.Length = int32(len(tmp) - n)
			curRecs = append(curRecs, r)
			curVals = append(curVals, verifC31In{value: r.Value})
		default:
			panic("bad token " + f[i])
		}
	}
	flush()
	return req, origs, rawBatches
}

func verifC31SplitBatches(b []byte) ([][]byte, bool) {
	var out [][]byte
	for len(b) > 0 {
		if len(b) < 12 {
			return out, false
		}
		l := int(int32(binary.BigEndian.Uint32(b[8:12])))
		if l < 0 || len(b) < 12+l {
			return out, false
		}
		out = append(out, b[:12+l])
		b = b[12+l:]
	}
	return out, true
}

func verifC31Line(f []string) (out string) {
	defer func() {
		if r := recover(); r != nil {
			out = fmt.Sprintf("panic %v", r)
		}
	}()
	for i, x := range f { // the hash table after `|` is for the model side only
		if x == "|" {
			f = f[:i]
			break
		}
	}
	maxBlob, _ := strconv.ParseInt(f[1], 10, 64)
	defAlg := string(verifC31Tok(f[2]))
	failAt, _ := strconv.Atoi(f[3])
	fs3 := verifC3xNewS3()
	m := verifC3xModule(fs3, maxBlob, defAlg, nil)
	fs3.failDelete = f[4] == "1"
	if failAt >= 0 {
		fs3.failPutAt = failAt
	} else {
		fs3.failPutAt = -1
	}
	req, origs, rawIn := verifC31Build(f[5:])
	hdr := &protocol.RequestHeader{APIKey: protocol.APIKeyProduce, APIVersion: 9, CorrelationID: 1}
	res, err := m.rewriteProduceRecords(context.Background(), hdr, req)
	if err != nil {
		return "err"
	}
	decomp := kgo.DefaultDecompressor()
	var sb strings.Builder
	sb.WriteString("ok")
	crcOK, lenOK, framing, unmodSame := true, true, true, true
	for ti, t := range req.Topics {
		fmt.Fprintf(&sb, " T %s", verifC31Show([]byte(t.Topic)))
		for pi, p := range t.Partitions {
			fmt.Fprintf(&sb, " P %d", p.Partition)
			batches, ok := verifC31SplitBatches(p.Records)
			if !ok {
				framing = false
			}
			for bi, raw := range batches {
				var b kmsg.RecordBatch
				if err := b.ReadFrom(raw); err != nil {
					framing = false
					continue
				}
				mod := !(bi < len(rawIn[ti][pi]) && bytes.Equal(rawIn[ti][pi][bi], raw))
				if int(b.Length) != len(raw)-12 {
					lenOK = false
				}
				if uint32(b.CRC) != crc32.Checksum(raw[21:], verifC31CRC) {
					crcOK = false
				}
				if b.Attributes&^0x7 != 0x10 || b.FirstOffset != 100 || b.ProducerID != 42 || b.ProducerEpoch != 3 || b.FirstSequence != 5 ||
					b.FirstTimestamp != 1700000000000 || b.MaxTimestamp != 1700000000999 || b.Magic != 2 || b.PartitionLeaderEpoch != -1 {
					unmodSame = false // some other header field was touched
				}
				codec := int(b.Attributes & 7)
				fmt.Fprintf(&sb, " B mod=%d codec=%d n=%d", map[bool]int{false: 0, true: 1}[mod], codec, b.NumRecords)
				payload := b.Records
				if codec != 0 {
					d, err := decomp.Decompress(payload, kgo.CompressionCodecType(codec))
					if err != nil {
						framing = false
						continue
					}
					payload = d
				}
				ri := 0
				for len(payload) > 0 {
					l, n := binary.Varint(payload)
					if n <= 0 || l < 0 || len(payload) < n+int(l) {
						framing = false
						break
					}
					var r kmsg.Record
					if err := r.ReadFrom(payload[:n+int(l)]); err != nil {
						framing = false
						break
					}
					payload = payload[n+int(l):]
					hs := []string{}
					for _, h := range r.Headers {
						hs = append(hs, verifC31Show([]byte(h.Key))+":"+verifC31Show(h.Value))
					}
					hS := "-"
					if len(hs) > 0 {
						hS = strings.Join(hs, ";")
					}
					var orig []byte
					haveOrig := bi < len(origs[ti][pi]) && ri < len(origs[ti][pi][bi])
					if haveOrig {
						orig = origs[ti][pi][bi][ri].value
					}
					v := "RAW:" + verifC31Show(r.Value)
					if mod && lfs.IsLfsEnvelope(r.Value) {
						if env, err := lfs.DecodeEnvelope(r.Value); err == nil {
							idx := -1
							for i, k := range fs3.putKeys {
								if k == env.Key {
									idx = i
								}
							}
							obj, okObj := fs3.object(env.Key)
							sum := sha256.Sum256(orig)
							ck := "none"
							if env.Checksum != "" {
								want, _ := lfs.ComputeChecksum(lfs.ChecksumAlg(env.ChecksumAlg), orig)
								ck = strconv.FormatBool(want == env.Checksum)
							}
							keys := make([]string, 0, len(env.OriginalHeaders))
							for k := range env.OriginalHeaders {
								keys = append(keys, k)
							}
							sort.Strings(keys)
							oh := []string{}
							for _, k := range keys {
								oh = append(oh, verifC31Show([]byte(k))+":"+verifC31Show([]byte(env.OriginalHeaders[k])))
							}
							ohS := "-"
							if len(oh) > 0 {
								ohS = strings.Join(oh, "/")
							}
							valid := env.Version == 1 && env.Bucket == m.s3Bucket && env.ProxyID == m.proxyID
							v = fmt.Sprintf("ENV:key=%d,size=%d,orig=%v,sha=%v,alg=%s,ck=%s,ct=%s,oh=%s,valid=%v", idx, env.Size,
								okObj && haveOrig && bytes.Equal(obj, orig), env.SHA256 == hex.EncodeToString(sum[:]), env.ChecksumAlg, ck,
								verifC31Show([]byte(env.ContentType)), ohS, valid)
						}
					}
					fmt.Fprintf(&sb, " R %d %d %d %s %s %s", r.Attributes, r.TimestampDelta64, r.OffsetDelta, verifC31Show(r.Key), v, hS)
					ri++
				}
			}
		}
	}
	fmt.Fprintf(&sb, " | modified=%v uploads=%d crc=%v len=%v framing=%v hdr_same=%v", res.modified, len(fs3.putKeys), crcOK, lenOK, framing, unmodSame)
	return sb.String()
}

func verifC31EncRec(f []string) (out string) {
	defer func() {
		if r := recover(); r != nil {
			out = fmt.Sprintf("panic %v", r)
		}
	}()
	attrs, _ := strconv.Atoi(f[1])
	ts, _ := strconv.ParseInt(f[2], 10, 64)
	off, _ := strconv.Atoi(f[3])
	nh, _ := strconv.Atoi(f[6])
	r := kmsg.Record{Attributes: int8(attrs), TimestampDelta64: ts, OffsetDelta: int32(off), Key: verifC31Tok(f[4]), Value: verifC31Tok(f[5])}
	for h := 0; h < nh; h++ {
		r.Headers = append(r.Headers, kmsg.Header{Key: string(verifC31Tok(f[7+2*h])), Value: verifC31Tok(f[8+2*h])})
	}
	enc := lfsEncodeRecord(r)
	// the proxy's bytes must decode with franz-go to the same record (direct monitor of the encoder)
	var back kmsg.Record
	same := back.ReadFrom(enc) == nil && back.Attributes == r.Attributes && back.TimestampDelta64 == r.TimestampDelta64 &&
		back.OffsetDelta == r.OffsetDelta && bytes.Equal(back.Key, r.Key) && (back.Key == nil) == (r.Key == nil) &&
		bytes.Equal(back.Value, r.Value) && (back.Value == nil) == (r.Value == nil) && len(back.Headers) == len(r.Headers)
	if same {
		for i := range r.Headers {
			if back.Headers[i].Key != r.Headers[i].Key || !bytes.Equal(back.Headers[i].Value, r.Headers[i].Value) ||
				(back.Headers[i].Value == nil) != (r.Headers[i].Value == nil) {
				same = false
			}
		}
	}
	return fmt.Sprintf("encrec %s | kmsg_roundtrip=%v", hex.EncodeToString(enc), same)
}

func verifC31Main() {
	w := bufio.NewWriter(os.Stdout)
	defer w.Flush()
	sc := bufio.NewScanner(os.Stdin)
	sc.Buffer(make([]byte, 1<<20), 1<<28)
	for sc.Scan() {
		f := strings.Fields(sc.Text())
		if len(f) == 0 || strings.HasPrefix(f[0], "#") {
			continue
		}
		if f[0] == "encrec" { // `encrec R <attrs> <ts> <off> <key> <value> <nh> {<hk> <hv>}` -> bytes of lfsEncodeRecord
			fmt.Fprintln(w, verifC31EncRec(f[1:]))
			w.Flush()
			continue
		}
		if f[0] != "rewrite" {
			fmt.Fprintln(w, "bad-op")
			continue
		}
		fmt.Fprintln(w, verifC31Line(f))
		w.Flush()
	}
}
