#!/usr/bin/env python3
"""Copy core.go.tmpl into the three processor overlay packages and s3.go.tmpl into the two discovery
overlay packages that have a real S3 lister (identical text)."""
import os
here = os.path.dirname(os.path.abspath(__file__))
src = open(os.path.join(here, "core.go.tmpl")).read()
for m in ("iceberg", "sql", "skeleton"):
    d = os.path.join(here, m, "internal", "processor")
    os.makedirs(d, exist_ok=True)
    open(os.path.join(d, "zz_verif_c33_core.go"), "w").write(src)
s3 = open(os.path.join(here, "s3.go.tmpl")).read()
for m in ("iceberg", "sql"):
    d = os.path.join(here, m, "internal", "discovery")
    os.makedirs(d, exist_ok=True)
    open(os.path.join(d, "zz_verif_c33_s3.go"), "w").write(s3)
