#!/usr/bin/env python3
"""Copy core.go.tmpl into the three processor overlay packages (identical text)."""
import os
here = os.path.dirname(os.path.abspath(__file__))
src = open(os.path.join(here, "core.go.tmpl")).read()
for m in ("iceberg", "sql", "skeleton"):
    d = os.path.join(here, m, "internal", "processor")
    os.makedirs(d, exist_ok=True)
    open(os.path.join(d, "zz_verif_c33_core.go"), "w").write(src)
