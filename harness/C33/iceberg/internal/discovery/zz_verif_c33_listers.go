//go:build verif

package discovery

// VerifC33Lister returns the REAL s3Lister (discovery.go) reading bucket "b" of this endpoint.
func (v *VerifC33S3) VerifC33Lister(namespace string) Lister {
	return &s3Lister{client: v.client(), bucket: "b", prefix: normalizePrefix(namespace)}
}

// VerifC33FooterMagic is what a completed segment ends with.
const VerifC33FooterMagic = segmentFooterMagic
