//go:build verif

package discovery

import "github.com/aws/aws-sdk-go-v2/service/s3"

// VerifC33Lister returns the REAL s3Lister (discovery.go) reading bucket "b" of this endpoint.
func (v *VerifC33S3) VerifC33Lister(namespace string) Lister {
	return &s3Lister{client: v.client(), bucket: "b", prefix: normalizePrefix(namespace)}
}

// VerifC33FooterMagic is what a completed segment ends with.
const VerifC33FooterMagic = segmentFooterMagic

// VerifC33Client is the real aws-sdk S3 client over this endpoint (for the module's real s3Decoder).
func (v *VerifC33S3) VerifC33Client() *s3.Client { return v.client() }
