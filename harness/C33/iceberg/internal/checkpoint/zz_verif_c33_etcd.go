//go:build verif

package checkpoint

import (
	"context"
	"errors"
	"reflect"
	"sort"
	"sync"

	pb "go.etcd.io/etcd/api/v3/etcdserverpb"
	"go.etcd.io/etcd/api/v3/mvccpb"
	clientv3 "go.etcd.io/etcd/client/v3"
)

// VerifNewEtcdStore returns the REAL etcdStore (LoadOffset / CommitOffset / ClaimLease / RenewLease /
// ReleaseLease of etcd.go) over an in-memory clientv3.KV + clientv3.Lease, for the C33 harness.
func VerifNewEtcdStore() Store {
	kv := &verifKV{data: map[string]verifVal{}}
	return &etcdStore{client: &clientv3.Client{KV: kv, Lease: &verifLease{kv: kv}}, prefix: defaultKeyPrefix, leaseTTLSeconds: defaultLeaseTTLSeconds}
}

type verifVal struct {
	value   []byte
	version int64
	lease   clientv3.LeaseID
}

type verifKV struct {
	mu   sync.Mutex
	data map[string]verifVal
	rev  int64
}

func (k *verifKV) put(key string, val []byte, lease clientv3.LeaseID) {
	v := k.data[key]
	k.data[key] = verifVal{value: append([]byte(nil), val...), version: v.version + 1, lease: lease}
	k.rev++
}

func (k *verifKV) Put(ctx context.Context, key, val string, opts ...clientv3.OpOption) (*clientv3.PutResponse, error) {
	k.mu.Lock()
	defer k.mu.Unlock()
	op := clientv3.OpPut(key, val, opts...)
	k.put(key, []byte(val), clientv3.LeaseID(opLease(op)))
	return &clientv3.PutResponse{Header: &pb.ResponseHeader{Revision: k.rev}}, nil
}

func (k *verifKV) Get(ctx context.Context, key string, opts ...clientv3.OpOption) (*clientv3.GetResponse, error) {
	k.mu.Lock()
	defer k.mu.Unlock()
	op := clientv3.OpGet(key, opts...)
	end := string(op.RangeBytes())
	var keys []string
	for c := range k.data {
		if end == "" {
			if c == key {
				keys = append(keys, c)
			}
		} else if c >= key && c < end {
			keys = append(keys, c)
		}
	}
	sort.Strings(keys)
	resp := &clientv3.GetResponse{Header: &pb.ResponseHeader{Revision: k.rev}}
	for _, c := range keys {
		v := k.data[c]
		resp.Kvs = append(resp.Kvs, &mvccpb.KeyValue{Key: []byte(c), Value: v.value, Version: v.version, Lease: int64(v.lease)})
	}
	resp.Count = int64(len(resp.Kvs))
	return resp, nil
}

func (k *verifKV) Delete(ctx context.Context, key string, opts ...clientv3.OpOption) (*clientv3.DeleteResponse, error) {
	k.mu.Lock()
	defer k.mu.Unlock()
	n := int64(0)
	if _, ok := k.data[key]; ok {
		delete(k.data, key)
		n = 1
		k.rev++
	}
	return &clientv3.DeleteResponse{Header: &pb.ResponseHeader{Revision: k.rev}, Deleted: n}, nil
}

func (k *verifKV) Compact(ctx context.Context, rev int64, opts ...clientv3.CompactOption) (*clientv3.CompactResponse, error) {
	return nil, errors.New("verif: not supported")
}

func (k *verifKV) Do(ctx context.Context, op clientv3.Op) (clientv3.OpResponse, error) {
	return clientv3.OpResponse{}, errors.New("verif: not supported")
}

func (k *verifKV) Txn(ctx context.Context) clientv3.Txn { return &verifTxn{kv: k} }

type verifTxn struct {
	kv   *verifKV
	cmps []clientv3.Cmp
	then []clientv3.Op
	els  []clientv3.Op
}

func (t *verifTxn) If(cs ...clientv3.Cmp) clientv3.Txn   { t.cmps = append(t.cmps, cs...); return t }
func (t *verifTxn) Then(ops ...clientv3.Op) clientv3.Txn { t.then = append(t.then, ops...); return t }
func (t *verifTxn) Else(ops ...clientv3.Op) clientv3.Txn { t.els = append(t.els, ops...); return t }

func (t *verifTxn) Commit() (*clientv3.TxnResponse, error) {
	t.kv.mu.Lock()
	defer t.kv.mu.Unlock()
	ok := true
	for _, c := range t.cmps {
		cmp := pb.Compare(c)
		if cmp.Target != pb.Compare_VERSION || cmp.Result != pb.Compare_EQUAL {
			return nil, errors.New("verif: unsupported compare")
		}
		want := cmp.GetVersion()
		if t.kv.data[string(cmp.Key)].version != want {
			ok = false
		}
	}
	ops := t.then
	if !ok {
		ops = t.els
	}
	for _, op := range ops {
		if !op.IsPut() {
			return nil, errors.New("verif: unsupported txn op")
		}
		t.kv.put(string(op.KeyBytes()), op.ValueBytes(), clientv3.LeaseID(opLease(op)))
	}
	return &clientv3.TxnResponse{Header: &pb.ResponseHeader{Revision: t.kv.rev}, Succeeded: ok}, nil
}

type verifLease struct {
	mu   sync.Mutex
	kv   *verifKV
	next clientv3.LeaseID
	live map[clientv3.LeaseID]bool
}

func (l *verifLease) Grant(ctx context.Context, ttl int64) (*clientv3.LeaseGrantResponse, error) {
	l.mu.Lock()
	defer l.mu.Unlock()
	if l.live == nil {
		l.live = map[clientv3.LeaseID]bool{}
	}
	l.next++
	l.live[l.next] = true
	return &clientv3.LeaseGrantResponse{ID: l.next, TTL: ttl}, nil
}

// Revoke deletes the keys attached to the lease, as etcd does.
func (l *verifLease) Revoke(ctx context.Context, id clientv3.LeaseID) (*clientv3.LeaseRevokeResponse, error) {
	l.mu.Lock()
	delete(l.live, id)
	l.mu.Unlock()
	l.kv.mu.Lock()
	for k, v := range l.kv.data {
		if v.lease == id {
			delete(l.kv.data, k)
		}
	}
	l.kv.mu.Unlock()
	return &clientv3.LeaseRevokeResponse{}, nil
}

func (l *verifLease) KeepAliveOnce(ctx context.Context, id clientv3.LeaseID) (*clientv3.LeaseKeepAliveResponse, error) {
	l.mu.Lock()
	defer l.mu.Unlock()
	if !l.live[id] {
		return nil, errors.New("verif: lease not found")
	}
	return &clientv3.LeaseKeepAliveResponse{ID: id, TTL: 30}, nil
}

func (l *verifLease) TimeToLive(ctx context.Context, id clientv3.LeaseID, opts ...clientv3.LeaseOption) (*clientv3.LeaseTimeToLiveResponse, error) {
	return nil, errors.New("verif: not supported")
}

func (l *verifLease) Leases(ctx context.Context) (*clientv3.LeaseLeasesResponse, error) {
	return nil, errors.New("verif: not supported")
}

func (l *verifLease) KeepAlive(ctx context.Context, id clientv3.LeaseID) (<-chan *clientv3.LeaseKeepAliveResponse, error) {
	return nil, errors.New("verif: not supported")
}

func (l *verifLease) Close() error { return nil }

// opLease reads the lease id a Put was built with (clientv3.Op has no exported accessor for it).
func opLease(op clientv3.Op) int64 {
	f := reflect.ValueOf(op).FieldByName("leaseID")
	if !f.IsValid() {
		return 0
	}
	return f.Int()
}
