//go:build verif

// C33 correspondence harness, package-independent core (identical copy in the three processor
// packages; generated from harness/C33/core.go.tmpl — edit the template, then run
// `python3 harness/C33/sync.py`).
//
// A scenario file holds cases; every case is a list of completed segments and a timeline of
// polling cycles, each with a failure oracle (which step fails for which listed segment), and
// `lost` directives (the next lease renewal fails).  The real `Processor.Run` loop is driven
// through scripted Lister/Decoder/Store/Writer(/S3Reader) fakes; after every tick one line is
// printed with the lease, the records the sink accepted during the tick and the checkpoints.
package processor

import (
	"bufio"
	"errors"
	"fmt"
	"io"
	"sort"
	"strconv"
	"strings"
	"sync"
	"time"
)

var errVerifInjected = errors.New("verif: injected failure")

type vSeg struct {
	tp   int
	offs []int64
}

type vFault struct {
	kind byte // n l d f s c
	bad  map[int64]bool
}

type vOracle struct {
	listFail  bool
	claimFail []bool
	faults    []vFault // per segment, indexed by the position of its `seg` line
	// real-lister cases: which S3 requests of this tick's ListCompleted fail once — "L" ListObjectsV2,
	// "m" the GetObject of the manifest, "p<i>" the footer probe (ranged GetObject) of segment i
	s3 []string
}

type vOp struct {
	lost   bool
	addSeg *vSeg // a segment completes: it is listed from the next tick on
	oracle vOracle
}

type vCase struct {
	variant string
	store   string // mem | noop
	stats   string // "" | next | footer: which offset statistics the fake Lister puts on a SegmentRef (sql only)
	// "" = scripted Lister (listing = the seg lines in order); "s3" = the REAL s3Lister of the module's
	// discovery package over an in-process S3 endpoint holding one .kfs/.index pair per seg line;
	// "manifest" (sql) = the real manifestLister over a manifest.json that names the segments in the
	// order of the seg lines, with the real s3Lister as fallback; "stale" (sql) = the same with a
	// manifest that is never refreshed after the first tick
	lister string
	// real-lister cases: page = keys per ListObjectsV2 page of the in-process S3 endpoint (0: 1000, as S3);
	// fill = filler objects (not segment keys) sorting before every segment, so that a 1000-key page boundary can be
	// placed anywhere; decoder = "real": the .kfs objects are real segments and the module's REAL s3Decoder
	// downloads + decodes them inside the loop (sql); s3 items c<i> / h<i> cut that tick's download of segment i
	// mid-body (one byte short / half), Content-Length announcing the whole object
	page    int
	fill    int
	decoder string
	segs    []vSeg
	ops     []vOp
	head    []string // the case/seg lines, echoed
}

func vTopic(tp int) (string, int32) { return "t" + strconv.Itoa(tp/2), int32(tp % 2) }

func vTP(topic string, partition int32) int {
	n, _ := strconv.Atoi(strings.TrimPrefix(topic, "t"))
	return n*2 + int(partition)
}

// vBase is the BaseOffset the fake Lister reports for listing entry i: the first record's offset;
// for a segment without records, one past the last offset of the partition's earlier segments.
func vBase(segs []vSeg, i int) int64 {
	if len(segs[i].offs) > 0 {
		return segs[i].offs[0]
	}
	base := int64(0)
	for j := 0; j < i; j++ {
		if segs[j].tp == segs[i].tp && len(segs[j].offs) > 0 {
			base = segs[j].offs[len(segs[j].offs)-1] + 1
		}
	}
	return base
}

// vStats gives the MinOffset/MaxOffset statistics of listing entry i the way the real s3Lister
// fills them in (discovery.go): mode "next" = MinOffset is the base offset, MaxOffset is one
// below the base offset of the partition's next listed segment and absent for the newest one;
// mode "footer" = both come from the segment itself (time-index footer: first and last record),
// absent for a segment without records.  ok flags say which of the two is present.
func vStats(mode string, segs []vSeg, i int) (min int64, hasMin bool, max int64, hasMax bool) {
	switch mode {
	case "next":
		min, hasMin = vBase(segs, i), true
		for j := i + 1; j < len(segs); j++ {
			if segs[j].tp == segs[i].tp {
				if b := vBase(segs, j); b > 0 {
					max, hasMax = b-1, true
				}
				break
			}
		}
	case "footer":
		if n := len(segs[i].offs); n > 0 {
			min, hasMin = segs[i].offs[0], true
			max, hasMax = segs[i].offs[n-1], true
		}
	}
	return
}

func vSegKey(i int) string { return "seg-" + strconv.Itoa(i) + ".kfs" }

func vSegIndex(key string) int {
	n, err := strconv.Atoi(strings.TrimSuffix(strings.TrimPrefix(key, "seg-"), ".kfs"))
	if err != nil {
		return -1
	}
	return n
}

func vParseCases(r io.Reader) ([]*vCase, error) {
	var cases []*vCase
	var cur *vCase
	sc := bufio.NewScanner(r)
	sc.Buffer(make([]byte, 1<<20), 1<<26)
	for sc.Scan() {
		f := strings.Fields(sc.Text())
		if len(f) == 0 || strings.HasPrefix(f[0], "#") {
			continue
		}
		switch f[0] {
		case "case":
			if len(f) < 3 {
				return nil, fmt.Errorf("bad case line %q", sc.Text())
			}
			cur = &vCase{variant: f[1], store: f[2]}
			for _, opt := range f[3:] {
				switch {
				case strings.HasPrefix(opt, "stats="):
					cur.stats = strings.TrimPrefix(opt, "stats=")
				case strings.HasPrefix(opt, "lister="):
					cur.lister = strings.TrimPrefix(opt, "lister=")
				case strings.HasPrefix(opt, "page="):
					cur.page, _ = strconv.Atoi(strings.TrimPrefix(opt, "page="))
				case strings.HasPrefix(opt, "fill="):
					cur.fill, _ = strconv.Atoi(strings.TrimPrefix(opt, "fill="))
				case strings.HasPrefix(opt, "decoder="):
					cur.decoder = strings.TrimPrefix(opt, "decoder=")
				default:
					return nil, fmt.Errorf("bad case line %q", sc.Text())
				}
			}
			cases = append(cases, cur)
		case "seg":
			if cur == nil || len(f) != 3 {
				return nil, fmt.Errorf("bad seg line %q", sc.Text())
			}
			tp, err := strconv.Atoi(f[1])
			if err != nil {
				return nil, err
			}
			seg := vSeg{tp: tp}
			if f[2] != "-" {
				for _, x := range strings.Split(f[2], ",") {
					o, err := strconv.ParseInt(x, 10, 64)
					if err != nil {
						return nil, err
					}
					seg.offs = append(seg.offs, o)
				}
			}
			if cur.lister != "" && len(seg.offs) == 0 {
				return nil, fmt.Errorf("real-lister case with an empty segment %q (its key would collide)", sc.Text())
			}
			if len(cur.ops) > 0 {
				sg := seg
				cur.ops = append(cur.ops, vOp{addSeg: &sg})
			} else {
				cur.segs = append(cur.segs, seg)
			}
		case "cycle":
			if cur == nil || (len(f) != 4 && len(f) != 5) {
				return nil, fmt.Errorf("bad cycle line %q", sc.Text())
			}
			o := vOracle{listFail: f[1] == "1"}
			if len(f) == 5 {
				if !strings.HasPrefix(f[4], "s3=") {
					return nil, fmt.Errorf("bad cycle line %q", sc.Text())
				}
				for _, x := range strings.Split(strings.TrimPrefix(f[4], "s3="), "+") {
					if x != "" && x != "-" {
						o.s3 = append(o.s3, x)
					}
				}
			}
			if f[2] != "-" {
				for _, c := range f[2] {
					o.claimFail = append(o.claimFail, c == '1')
				}
			}
			if f[3] != "-" {
				for _, x := range strings.Split(f[3], ",") {
					ft := vFault{kind: x[0]}
					if x[0] == 'f' {
						ft.bad = map[int64]bool{}
						for _, y := range strings.Split(x[1:], "+") {
							if y == "" {
								continue
							}
							v, err := strconv.ParseInt(y, 10, 64)
							if err != nil {
								return nil, err
							}
							ft.bad[v] = true
						}
					}
					o.faults = append(o.faults, ft)
				}
			}
			cur.ops = append(cur.ops, vOp{oracle: o})
		case "lost":
			if cur == nil {
				return nil, fmt.Errorf("lost before case")
			}
			cur.ops = append(cur.ops, vOp{lost: true})
		default:
			return nil, fmt.Errorf("bad line %q", sc.Text())
		}
		if f[0] == "case" || (f[0] == "seg" && len(cur.ops) == 0) {
			cur.head = append(cur.head, f[0])
		}
	}
	return cases, sc.Err()
}

// vHarness is the scripted environment of one processor instance.
type vHarness struct {
	mu        sync.Mutex
	c         *vCase
	segs      []vSeg // the current listing (grows when a segment completes)
	cur       *vOracle
	lease     int
	curSeg    int
	cursor    int
	listed    []int  // real-lister cases: this tick's listing as indices into segs (-1: not a scripted segment)
	hasListed bool   // listed is valid (the real lister answered this tick)
	listedStr string // what the cycle line reports as listed=
	keyIdx    map[string]int // real-lister cases: S3 key of a .kfs object -> index into segs
	claimCall int
	wrote     []string
	sink      map[[2]int64]bool
	mem       map[int]int64
	early     []string
	failRenew bool
	stopped   bool
	ops       []vOp    // the part of the timeline not yet consumed
	out       []string // result lines, in the order things happened
	inFlight  bool     // a cycle ran and its line has not been emitted yet
	done      chan struct{}
	doneOnce  bool
	// innerLoad / innerCommit are the checkpoint store under test (real noopStore or the
	// in-memory store below).
	innerLoad   func(tp int) (int64, error)
	innerCommit func(tp int, off int64) error
}

func newVHarness(c *vCase) *vHarness {
	h := &vHarness{c: c, lease: -1, curSeg: -1, sink: map[[2]int64]bool{}, mem: map[int]int64{}, done: make(chan struct{})}
	h.segs = append(h.segs, c.segs...)
	h.ops = append(h.ops, c.ops...)
	h.out = append(h.out, c.head...)
	h.innerLoad = func(tp int) (int64, error) {
		if v, ok := h.mem[tp]; ok {
			return v, nil
		}
		return -1, nil
	}
	h.innerCommit = func(tp int, off int64) error { h.mem[tp] = off; return nil }
	return h
}

// listing returns the current listing (the adapters' Lister fakes call it under onList).
func (h *vHarness) listing() []vSeg {
	h.mu.Lock()
	defer h.mu.Unlock()
	return append([]vSeg(nil), h.segs...)
}

func (h *vHarness) fault() vFault {
	if h.cur == nil || h.curSeg < 0 || h.curSeg >= len(h.cur.faults) {
		return vFault{kind: 'n'}
	}
	return h.cur.faults[h.curSeg]
}

// onList: a new polling cycle starts (first call of every tick, on the loop's own goroutine).
// The timeline is driven from here, so no wall-clock alignment is needed: the previous tick's
// result line is emitted, pending `lost` / segment-completion directives are applied and the
// next cycle's oracle is installed.  When the timeline is exhausted listing fails (nothing
// happens any more) and `done` is closed.  Returns whether listing fails.
func (h *vHarness) onList() bool {
	h.mu.Lock()
	defer h.mu.Unlock()
	h.flushLocked()
	h.cursor, h.curSeg, h.claimCall = 0, -1, 0
	h.listed, h.hasListed, h.listedStr = nil, false, "err"
	for len(h.ops) > 0 && (h.ops[0].lost || h.ops[0].addSeg != nil) {
		op := h.ops[0]
		h.ops = h.ops[1:]
		if op.lost {
			h.failRenew = true
			continue
		}
		h.segs = append(h.segs, *op.addSeg)
		h.out = append(h.out, "seg")
	}
	if len(h.ops) == 0 {
		h.cur = nil
		if !h.doneOnce {
			h.doneOnce = true
			close(h.done)
		}
		return true
	}
	o := h.ops[0].oracle
	h.ops = h.ops[1:]
	h.cur = &o
	h.inFlight = true
	return o.listFail
}

// flushLocked emits the line of the cycle that has run, if it was not emitted yet.
func (h *vHarness) flushLocked() {
	if h.inFlight {
		h.inFlight = false
		h.out = append(h.out, h.lineLocked())
	}
}

func (h *vHarness) onClaim(tp int) error {
	h.mu.Lock()
	defer h.mu.Unlock()
	i := h.claimCall
	h.claimCall++
	if h.cur != nil && i < len(h.cur.claimFail) && h.cur.claimFail[i] {
		return errVerifInjected
	}
	h.lease = tp
	return nil
}

func (h *vHarness) onRenew() error {
	h.mu.Lock()
	fail := h.failRenew
	h.failRenew = false
	h.mu.Unlock()
	if fail {
		time.Sleep(time.Second) // the loss reaches the loop strictly between two ticks
		return errVerifInjected
	}
	return nil
}

// onRelease: the loop gave the lease up (a renewal failed).  It runs on the loop's goroutine
// after the cycle in flight, so that cycle's line comes first, then `lost`.
func (h *vHarness) onRelease() {
	h.mu.Lock()
	defer h.mu.Unlock()
	if !h.stopped {
		h.flushLocked()
		h.out = append(h.out, "lost")
	}
	h.lease = -1
}

func (h *vHarness) onLoad(tp int) (int64, error) {
	h.mu.Lock()
	defer h.mu.Unlock()
	// the segment the loop is at: the next one of the leased partition in THIS tick's listing order
	at := func(i int) int {
		if h.hasListed {
			return h.listed[i]
		}
		return i
	}
	n := len(h.segs)
	if h.hasListed {
		n = len(h.listed)
	}
	for h.cursor < n && (at(h.cursor) < 0 || h.segs[at(h.cursor)].tp != tp) {
		h.cursor++
	}
	if h.cursor < n {
		h.curSeg = at(h.cursor)
	} else {
		h.curSeg = len(h.segs)
	}
	h.cursor++
	if h.fault().kind == 'l' {
		return 0, errVerifInjected
	}
	return h.innerLoad(tp)
}

func (h *vHarness) onDecode(segKey string) ([]int64, int, error) {
	h.mu.Lock()
	defer h.mu.Unlock()
	i, ok := h.keyIdx[segKey]
	if !ok {
		i = vSegIndex(segKey)
	}
	if i < 0 || i >= len(h.segs) {
		return nil, 0, fmt.Errorf("verif: unknown segment %q", segKey)
	}
	h.curSeg = i
	if h.fault().kind == 'd' {
		return nil, 0, errVerifInjected
	}
	return h.segs[i].offs, h.segs[i].tp, nil
}

func (h *vHarness) onFetch(off int64) error {
	h.mu.Lock()
	defer h.mu.Unlock()
	f := h.fault()
	if f.kind == 'f' && f.bad[off] {
		return errVerifInjected
	}
	return nil
}

func (h *vHarness) onWrite(tp int, offs []int64) error {
	h.mu.Lock()
	defer h.mu.Unlock()
	if h.fault().kind == 's' {
		return errVerifInjected
	}
	for _, o := range offs {
		h.wrote = append(h.wrote, fmt.Sprintf("%d:%d", tp, o))
		h.sink[[2]int64{int64(tp), o}] = true
	}
	return nil
}

func (h *vHarness) onCommit(tp int, off int64) error {
	h.mu.Lock()
	defer h.mu.Unlock()
	if h.fault().kind == 'c' {
		return errVerifInjected
	}
	// direct monitor at the commit instant: nothing at or below the new checkpoint is unwritten
	for _, seg := range h.segs {
		if seg.tp != tp {
			continue
		}
		for _, o := range seg.offs {
			if o <= off && !h.sink[[2]int64{int64(tp), o}] {
				h.early = append(h.early, fmt.Sprintf("%d:%d", tp, o))
			}
		}
	}
	return h.innerCommit(tp, off)
}

// lineLocked reports the tick that just ran.
func (h *vHarness) lineLocked() string {
	lease := "-"
	if h.lease >= 0 {
		lease = strconv.Itoa(h.lease)
	}
	wrote := "-"
	if len(h.wrote) > 0 {
		wrote = strings.Join(h.wrote, ",")
	}
	h.wrote = nil
	tps := map[int]bool{}
	for _, s := range h.segs {
		tps[s.tp] = true
	}
	var ids []int
	for tp := range tps {
		ids = append(ids, tp)
	}
	sort.Ints(ids)
	var cps []string
	for _, tp := range ids {
		v, err := h.innerLoad(tp)
		if err != nil {
			cps = append(cps, fmt.Sprintf("%d=err", tp))
		} else {
			cps = append(cps, fmt.Sprintf("%d=%d", tp, v))
		}
	}
	cp := "-"
	if len(cps) > 0 {
		cp = strings.Join(cps, ",")
	}
	early := "-"
	if len(h.early) > 0 {
		early = strings.Join(h.early, ",")
	}
	h.early = nil
	line := fmt.Sprintf("cycle lease=%s wrote=%s cp=%s early=%s", lease, wrote, cp, early)
	if h.c.lister != "" {
		line += " listed=" + h.listedStr
	}
	return line
}

// s3Oracle is the S3 fault oracle of the cycle in flight (real-lister cases).
func (h *vHarness) s3Oracle() []string {
	h.mu.Lock()
	defer h.mu.Unlock()
	if h.cur == nil {
		return nil
	}
	return append([]string(nil), h.cur.s3...)
}

// setKey registers the S3 key of segment i's .kfs object.
func (h *vHarness) setKey(key string, i int) {
	h.mu.Lock()
	defer h.mu.Unlock()
	if h.keyIdx == nil {
		h.keyIdx = map[string]int{}
	}
	h.keyIdx[key] = i
}

// setListed records what the real lister answered this tick: the .kfs keys in listing order.
func (h *vHarness) setListed(keys []string) {
	h.mu.Lock()
	defer h.mu.Unlock()
	h.listed, h.hasListed = nil, true
	var parts []string
	for _, k := range keys {
		i, ok := h.keyIdx[k]
		if !ok {
			i = -1
		}
		h.listed = append(h.listed, i)
		parts = append(parts, strconv.Itoa(i))
	}
	h.listedStr = "-"
	if len(parts) > 0 {
		h.listedStr = strings.Join(parts, ",")
	}
}

// vSegObjectKey is the S3 key stem of a segment: <topic>/<partition>/segment-<base offset, 20 digits>.
func vSegObjectKey(segs []vSeg, i int) string {
	topic, part := vTopic(segs[i].tp)
	return fmt.Sprintf("%s/%d/segment-%020d", topic, part, vBase(segs, i))
}

// vDrive waits until the processor has consumed the whole timeline (the fakes drive it from
// inside the loop, see onList) or the budget of (cycles+3) tick periods is exhausted, and returns
// the result lines.  Works on the real clock and inside a testing/synctest bubble.
func vDrive(h *vHarness, poll time.Duration) []string {
	cycles := 0
	for _, op := range h.c.ops {
		if !op.lost && op.addSeg == nil {
			cycles++
		}
	}
	timer := time.NewTimer(time.Duration(cycles+3) * poll)
	defer timer.Stop()
	select {
	case <-h.done:
	case <-timer.C:
	}
	h.mu.Lock()
	defer h.mu.Unlock()
	h.flushLocked()
	h.stopped = true
	return append([]string(nil), h.out...)
}
