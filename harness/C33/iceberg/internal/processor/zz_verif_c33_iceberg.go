//go:build verif

package processor

import (
	"bytes"
	"context"
	"fmt"
	"io"
	"strconv"
	"strings"
	"time"

	"github.com/KafScale/platform/addons/processors/iceberg-processor/internal/checkpoint"
	"github.com/KafScale/platform/addons/processors/iceberg-processor/internal/config"
	"github.com/KafScale/platform/addons/processors/iceberg-processor/internal/decoder"
	"github.com/KafScale/platform/addons/processors/iceberg-processor/internal/discovery"
	"github.com/KafScale/platform/addons/processors/iceberg-processor/internal/sink"
	"github.com/KafScale/platform/pkg/lfs"
)

type vLister struct{ h *vHarness }

func (l vLister) ListCompleted(ctx context.Context) ([]discovery.SegmentRef, error) {
	if l.h.onList() {
		return nil, errVerifInjected
	}
	segs := l.h.listing()
	refs := make([]discovery.SegmentRef, 0, len(segs))
	for i, s := range segs {
		topic, part := vTopic(s.tp)
		base := vBase(segs, i)
		refs = append(refs, discovery.SegmentRef{Topic: topic, Partition: part, BaseOffset: base, SegmentKey: vSegKey(i), IndexKey: vSegKey(i) + ".index"})
	}
	return refs, nil
}

// vRealLister drives the REAL s3Lister (discovery.go) over an in-process S3 endpoint: the bucket
// holds one completed .kfs/.index pair per scripted segment (plus two decoys per partition that are
// not completed segments), the cycle's S3 fault oracle is armed for exactly this ListCompleted call.
type vRealLister struct {
	h     *vHarness
	s3    *discovery.VerifC33S3
	inner discovery.Lister
	put   map[int]bool
}

func (l *vRealLister) sync() {
	segs := l.h.listing()
	if !l.put[-1000] {
		l.put[-1000] = true
		l.s3.PageSize = l.h.c.page
		// filler objects that are no segment keys, sorting before every topic ("t…")
		for k := 0; k < l.h.c.fill; k++ {
			l.s3.Put(fmt.Sprintf("a-fill/%06d", k), []byte("x"))
		}
	}
	for i := range segs {
		if l.put[i] {
			continue
		}
		l.put[i] = true
		stem := vSegObjectKey(segs, i)
		l.h.setKey(stem+".kfs", i)
		l.s3.Put(stem+".kfs", []byte("records"+discovery.VerifC33FooterMagic))
		l.s3.Put(stem+".index", []byte("idx"))
		if !l.put[-1-segs[i].tp] {
			// decoys at the far end of the partition: a .kfs still without the footer magic, a .kfs
			// without its .index, an .index without its .kfs — none is a completed segment
			l.put[-1-segs[i].tp] = true
			topic, part := vTopic(segs[i].tp)
			l.s3.Put(fmt.Sprintf("%s/%d/segment-%020d.kfs", topic, part, 900000), []byte("records still being writ"))
			l.s3.Put(fmt.Sprintf("%s/%d/segment-%020d.index", topic, part, 900000), []byte("idx"))
			l.s3.Put(fmt.Sprintf("%s/%d/segment-%020d.kfs", topic, part, 900100), []byte("records"+discovery.VerifC33FooterMagic))
			l.s3.Put(fmt.Sprintf("%s/%d/segment-%020d.index", topic, part, 900200), []byte("idx"))
		}
	}
}

func (l *vRealLister) ListCompleted(ctx context.Context) ([]discovery.SegmentRef, error) {
	fail := l.h.onList()
	l.sync() // the bucket (and manifest.json) follow the timeline also on a tick whose listing is scripted to fail
	if fail {
		return nil, errVerifInjected
	}
	segs := l.h.listing()
	var arm []string
	for _, x := range l.h.s3Oracle() {
		switch {
		case x == "L":
			arm = append(arm, "L")
		case strings.HasPrefix(x, "p"):
			if i, err := strconv.Atoi(x[1:]); err == nil && i >= 0 && i < len(segs) {
				arm = append(arm, "p:"+vSegObjectKey(segs, i)+".kfs")
			}
		}
	}
	l.s3.Arm(arm)
	refs, err := l.inner.ListCompleted(ctx)
	l.s3.Arm(nil)
	if err != nil {
		return nil, err
	}
	keys := make([]string, 0, len(refs))
	for _, r := range refs {
		keys = append(keys, r.SegmentKey)
	}
	l.h.setListed(keys)
	return refs, nil
}

type vDecoder struct{ h *vHarness }

// Every record value is an LFS envelope pointing at blob "o/<offset>", so that the LFS
// resolution step of the loop runs for every record.
func (d vDecoder) Decode(ctx context.Context, segmentKey, indexKey string, topic string, partition int32) ([]decoder.Record, error) {
	offs, tp, err := d.h.onDecode(segmentKey)
	if err != nil {
		return nil, err
	}
	t, p := vTopic(tp)
	out := make([]decoder.Record, 0, len(offs))
	for _, o := range offs {
		env, err := lfs.EncodeEnvelope(lfs.Envelope{Version: 1, Bucket: "b", Key: "o/" + strconv.FormatInt(o, 10), Size: 1, SHA256: "00"})
		if err != nil {
			return nil, err
		}
		out = append(out, decoder.Record{Topic: t, Partition: p, Offset: o, Timestamp: o, Value: env})
	}
	return out, nil
}

type vS3 struct{ h *vHarness }

func (s vS3) Fetch(ctx context.Context, key string) ([]byte, error) {
	off, err := strconv.ParseInt(strings.TrimPrefix(key, "o/"), 10, 64)
	if err != nil {
		return nil, fmt.Errorf("verif: bad blob key %q", key)
	}
	if err := s.h.onFetch(off); err != nil {
		return nil, err
	}
	return []byte("p"), nil
}

func (s vS3) Stream(ctx context.Context, key string) (io.ReadCloser, int64, error) {
	return io.NopCloser(bytes.NewReader(nil)), 0, nil
}

type vStore struct {
	h     *vHarness
	inner checkpoint.Store
}

func (s vStore) ClaimLease(ctx context.Context, topic string, partition int32, ownerID string) (checkpoint.Lease, error) {
	if err := s.h.onClaim(vTP(topic, partition)); err != nil {
		return checkpoint.Lease{}, err
	}
	return s.inner.ClaimLease(ctx, topic, partition, ownerID)
}

func (s vStore) RenewLease(ctx context.Context, lease checkpoint.Lease) error {
	if err := s.h.onRenew(); err != nil {
		return err
	}
	return s.inner.RenewLease(ctx, lease)
}

func (s vStore) ReleaseLease(ctx context.Context, lease checkpoint.Lease) error {
	s.h.onRelease()
	return s.inner.ReleaseLease(ctx, lease)
}

func (s vStore) LoadOffset(ctx context.Context, topic string, partition int32) (checkpoint.OffsetState, error) {
	v, err := s.h.onLoad(vTP(topic, partition))
	if err != nil {
		return checkpoint.OffsetState{}, err
	}
	return checkpoint.OffsetState{Topic: topic, Partition: partition, Offset: v}, nil
}

func (s vStore) CommitOffset(ctx context.Context, state checkpoint.OffsetState) error {
	return s.h.onCommit(vTP(state.Topic, state.Partition), state.Offset)
}

type vSink struct{ h *vHarness }

func (k vSink) Write(ctx context.Context, records []sink.Record) error {
	if len(records) == 0 {
		return nil
	}
	offs := make([]int64, 0, len(records))
	for _, r := range records {
		offs = append(offs, r.Offset)
	}
	return k.h.onWrite(vTP(records[0].Topic, records[0].Partition), offs)
}

func (k vSink) Close(ctx context.Context) error { return nil }

// vRunCase drives the real Processor.Run through one case.
func vRunCase(c *vCase, settle func()) []string {
	h := newVHarness(c)
	real, err := checkpoint.New(config.Config{}) // backend "" -> the noopStore
	if err != nil {
		return []string{"panic"}
	}
	if c.store == "etcd" {
		// the real etcdStore (etcd.go) over an in-memory KV/Lease
		real = checkpoint.VerifNewEtcdStore()
	}
	if c.store == "noop" || c.store == "etcd" {
		h.innerLoad = func(tp int) (int64, error) {
			t, p := vTopic(tp)
			st, err := real.LoadOffset(context.Background(), t, p)
			return st.Offset, err
		}
		h.innerCommit = func(tp int, off int64) error {
			t, p := vTopic(tp)
			return real.CommitOffset(context.Background(), checkpoint.OffsetState{Topic: t, Partition: p, Offset: off})
		}
	}
	off := false
	lfsCfg := config.LfsConfig{Mode: lfsModeResolve, ResolveConcurrency: 2, ValidateChecksum: &off}
	mappings := map[string]config.Mapping{}
	for _, s := range c.segs {
		t, _ := vTopic(s.tp)
		mappings[t] = config.Mapping{Topic: t, Lfs: lfsCfg}
	}
	for _, op := range c.ops {
		if op.addSeg != nil {
			t, _ := vTopic(op.addSeg.tp)
			mappings[t] = config.Mapping{Topic: t, Lfs: lfsCfg}
		}
	}
	var lister discovery.Lister = vLister{h}
	if c.lister == "s3" {
		s3 := discovery.VerifC33NewS3()
		lister = &vRealLister{h: h, s3: s3, inner: s3.VerifC33Lister(""), put: map[int]bool{}}
	} else if c.lister != "" {
		return []string{"panic"}
	}
	p := &Processor{
		cfg:            config.Config{Processor: config.ProcessorConfig{PollIntervalSeconds: 5}},
		discover:       lister,
		decode:         vDecoder{h},
		store:          vStore{h: h, inner: real},
		sink:           vSink{h},
		validator:      nil,
		lfsS3:          vS3{h},
		mappingByTopic: mappings,
	}
	ctx, cancel := context.WithCancel(context.Background())
	done := make(chan error, 1)
	go func() { done <- p.Run(ctx) }()
	lines := vDrive(h, 5*time.Second)
	_ = settle
	cancel()
	<-done
	// a failing renewal may still be inside its one-second delay (see onRenew): let it finish, a
	// synctest bubble must not be left with a sleeping goroutine
	time.Sleep(1500 * time.Millisecond)
	return lines
}
