//go:build verif

package discovery

import (
	"time"

	"github.com/aws/aws-sdk-go-v2/service/s3"
)

// VerifC33Lister returns the REAL s3Lister (discovery.go) reading bucket "b" of this endpoint.
func (v *VerifC33S3) VerifC33Lister(namespace string) Lister {
	return &s3Lister{client: v.client(), bucket: "b", prefix: normalizePrefix(namespace)}
}

// VerifC33ManifestLister returns the REAL manifestLister (manifest.go) over <namespace>/manifest.json
// with the real s3Lister as its fallback, as discovery.New wires them when manifest.enabled is set.
func (v *VerifC33S3) VerifC33ManifestLister(namespace string, ttl time.Duration) Lister {
	c := v.client()
	base := &s3Lister{client: c, bucket: "b", prefix: normalizePrefix(namespace)}
	return newManifestLister(c, "b", base.prefix, "", ttl, base)
}

// VerifC33FooterMagic is what a completed segment ends with.
const VerifC33FooterMagic = segmentFooterMagic

// VerifC33Client is the real aws-sdk S3 client over this endpoint (for the module's real s3Decoder).
func (v *VerifC33S3) VerifC33Client() *s3.Client { return v.client() }
