//go:build verif

// Identical copy in the iceberg and sql discovery packages; generated from harness/C33/s3.go.tmpl —
// edit the template, then run `python3 harness/C33/sync.py`.
package discovery

import (
	"bytes"
	"encoding/xml"
	"io"
	"net/http"
	"sort"
	"strconv"
	"strings"
	"sync"

	"github.com/aws/aws-sdk-go-v2/aws"
	"github.com/aws/aws-sdk-go-v2/service/s3"
)

// VerifC33S3 is an in-process S3 endpoint (an http round tripper handed to the real aws-sdk
// s3.Client): ListObjectsV2 and (ranged) GetObject over a map of objects, with a per-request fault
// oracle.  Same approach as harness/C36 (sql module), kept separate so that the C33 and C36 overlays
// never collide in one build.
type VerifC33S3 struct {
	mu      sync.Mutex
	Objects map[string][]byte
	// faults: request -> how many more times it fails.  "L" = ListObjectsV2, "p:<key>" = the ranged
	// GetObject bytes=-4 of key (the footer probe), "g:<key>" = a whole-object GetObject of key.
	// A fault answers 403 AccessDenied: a client error, which the SDK's retryer does not retry (no
	// back-off sleeps; the caller sees the error of this one request).
	faults map[string]int
	// Requests counts the requests served, by the same names (for the harness' coverage counters).
	Requests map[string]int
	// PageSize: ListObjectsV2 answers at most this many keys per page (0: 1000, S3's own limit; a
	// request's max-keys lowers it further) with IsTruncated + NextContinuationToken while keys remain.
	PageSize int
	// cuts: key -> n: the next whole-object GetObject of key announces the full Content-Length but the
	// body ends after n bytes with io.ErrUnexpectedEOF, which is what net/http reports for a connection
	// closed mid-transfer (one shot).
	cuts map[string]int
}

// verifC33CutBody delivers data, then ends with io.ErrUnexpectedEOF instead of a clean EOF.
type verifC33CutBody struct{ r *bytes.Reader }

func (b *verifC33CutBody) Read(p []byte) (int, error) {
	n, err := b.r.Read(p)
	if err == io.EOF {
		return n, io.ErrUnexpectedEOF
	}
	return n, err
}

func (b *verifC33CutBody) Close() error { return nil }

// ArmCuts replaces the cut oracle (see cuts).
func (v *VerifC33S3) ArmCuts(cuts map[string]int) {
	v.mu.Lock()
	defer v.mu.Unlock()
	v.cuts = cuts
}

// Size is the length of a stored object (-1: absent).
func (v *VerifC33S3) Size(key string) int {
	v.mu.Lock()
	defer v.mu.Unlock()
	d, ok := v.Objects[key]
	if !ok {
		return -1
	}
	return len(d)
}

func VerifC33NewS3() *VerifC33S3 {
	return &VerifC33S3{Objects: map[string][]byte{}, faults: map[string]int{}, Requests: map[string]int{}}
}

// Put stores an object.
func (v *VerifC33S3) Put(key string, data []byte) {
	v.mu.Lock()
	defer v.mu.Unlock()
	v.Objects[key] = data
}

// Arm replaces the fault oracle: every named request fails once.
func (v *VerifC33S3) Arm(names []string) {
	v.mu.Lock()
	defer v.mu.Unlock()
	v.faults = map[string]int{}
	for _, n := range names {
		v.faults[n]++
	}
}

func (v *VerifC33S3) hit(name string) bool {
	v.Requests[name]++
	if v.faults[name] > 0 {
		v.faults[name]--
		return true
	}
	return false
}

type verifC33ListResult struct {
	XMLName     xml.Name              `xml:"ListBucketResult"`
	Name        string                `xml:"Name"`
	Prefix      string                `xml:"Prefix"`
	KeyCount    int                   `xml:"KeyCount"`
	MaxKeys     int                   `xml:"MaxKeys"`
	IsTruncated bool                  `xml:"IsTruncated"`
	Token       string                `xml:"ContinuationToken,omitempty"`
	NextToken   string                `xml:"NextContinuationToken,omitempty"`
	Contents    []verifC33ListContent `xml:"Contents"`
}

type verifC33ListContent struct {
	Key          string `xml:"Key"`
	LastModified string `xml:"LastModified"`
	Size         int    `xml:"Size"`
}

const verifC33Denied = `<?xml version="1.0" encoding="UTF-8"?><Error><Code>AccessDenied</Code><Message>verif: injected fault</Message></Error>`

func (v *VerifC33S3) Do(req *http.Request) (*http.Response, error) {
	v.mu.Lock()
	defer v.mu.Unlock()
	resp := func(code int, body []byte, hdr map[string]string) *http.Response {
		h := http.Header{}
		for k, val := range hdr {
			h.Set(k, val)
		}
		return &http.Response{StatusCode: code, Status: strconv.Itoa(code), Header: h, Body: io.NopCloser(bytes.NewReader(body)),
			ContentLength: int64(len(body)), Request: req, Proto: "HTTP/1.1", ProtoMajor: 1, ProtoMinor: 1}
	}
	xmlHdr := map[string]string{"Content-Type": "application/xml"}
	path := strings.TrimPrefix(req.URL.Path, "/")
	parts := strings.SplitN(path, "/", 2)
	key := ""
	if len(parts) == 2 {
		key = parts[1]
	}
	switch {
	case req.Method == http.MethodGet && key == "" && req.URL.Query().Get("list-type") == "2":
		if v.hit("L") {
			return resp(403, []byte(verifC33Denied), xmlHdr), nil
		}
		prefix := req.URL.Query().Get("prefix")
		var keys []string
		for k := range v.Objects {
			if strings.HasPrefix(k, prefix) {
				keys = append(keys, k)
			}
		}
		sort.Strings(keys)
		// pages: keys after the continuation token ("k:" + last key of the previous page), at most
		// min(PageSize, max-keys, 1000) of them
		limit := 1000
		if v.PageSize > 0 && v.PageSize < limit {
			limit = v.PageSize
		}
		if mk, err := strconv.Atoi(req.URL.Query().Get("max-keys")); err == nil && mk > 0 && mk < limit {
			limit = mk
		}
		token := req.URL.Query().Get("continuation-token")
		if strings.HasPrefix(token, "k:") {
			after := strings.TrimPrefix(token, "k:")
			keys = keys[sort.Search(len(keys), func(i int) bool { return keys[i] > after }):]
		}
		out := verifC33ListResult{Name: parts[0], Prefix: prefix, MaxKeys: limit, Token: token}
		if len(keys) > limit {
			keys = keys[:limit]
			out.IsTruncated = true
			out.NextToken = "k:" + keys[limit-1]
		}
		out.KeyCount = len(keys)
		v.Requests["pages"]++
		for _, k := range keys {
			out.Contents = append(out.Contents, verifC33ListContent{Key: k, LastModified: "2024-01-01T00:00:00.000Z", Size: len(v.Objects[k])})
		}
		body, _ := xml.Marshal(out)
		return resp(200, append([]byte(xml.Header), body...), xmlHdr), nil
	case req.Method == http.MethodGet && key != "":
		rng := req.Header.Get("Range")
		name := "g:" + key
		if rng == "bytes=-4" {
			name = "p:" + key
		}
		if v.hit(name) {
			return resp(403, []byte(verifC33Denied), xmlHdr), nil
		}
		data, ok := v.Objects[key]
		if !ok {
			return resp(404, []byte(`<?xml version="1.0" encoding="UTF-8"?><Error><Code>NoSuchKey</Code><Message>no such key</Message></Error>`), xmlHdr), nil
		}
		if strings.HasPrefix(rng, "bytes=-") {
			n, err := strconv.Atoi(strings.TrimPrefix(rng, "bytes=-"))
			if err == nil && n < len(data) {
				data = data[len(data)-n:]
			}
			return resp(206, data, map[string]string{"Content-Length": strconv.Itoa(len(data))}), nil
		}
		if n, cut := v.cuts[key]; cut && rng == "" {
			delete(v.cuts, key)
			v.Requests["cut"]++
			if n > len(data) {
				n = len(data)
			}
			r := resp(200, nil, map[string]string{"Content-Length": strconv.Itoa(len(data))})
			r.ContentLength = int64(len(data))
			r.Body = &verifC33CutBody{r: bytes.NewReader(data[:n])}
			return r, nil
		}
		return resp(200, data, map[string]string{"Content-Length": strconv.Itoa(len(data))}), nil
	}
	return resp(400, []byte(`<?xml version="1.0" encoding="UTF-8"?><Error><Code>BadRequest</Code><Message>unsupported</Message></Error>`), xmlHdr), nil
}

func (v *VerifC33S3) client() *s3.Client {
	return s3.New(s3.Options{
		Region:       "us-east-1",
		Credentials:  aws.AnonymousCredentials{},
		HTTPClient:   v,
		BaseEndpoint: aws.String("http://s3.verif.invalid"),
		UsePathStyle: true,
	})
}
