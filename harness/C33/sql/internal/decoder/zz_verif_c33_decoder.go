//go:build verif

package decoder

// VerifC33NewDecoder returns the REAL s3Decoder (decoder.go: getObject + decodeSegment) over the given
// GetObject client, as New wires it.
func VerifC33NewDecoder(client getObjectAPI, bucket string) Decoder {
	return &s3Decoder{client: client, bucket: bucket, metrics: newS3Metrics()}
}
