//go:build verif

package processor

import (
	"context"
	"time"

	"github.com/kafscale/platform/addons/processors/sql-processor/internal/checkpoint"
	"github.com/kafscale/platform/addons/processors/sql-processor/internal/config"
	"github.com/kafscale/platform/addons/processors/sql-processor/internal/decoder"
	"github.com/kafscale/platform/addons/processors/sql-processor/internal/discovery"
	"github.com/kafscale/platform/addons/processors/sql-processor/internal/sink"
)

type vLister struct{ h *vHarness }

func (l vLister) ListCompleted(ctx context.Context) ([]discovery.SegmentRef, error) {
	if l.h.onList() {
		return nil, errVerifInjected
	}
	segs := l.h.listing()
	refs := make([]discovery.SegmentRef, 0, len(segs))
	for i, s := range segs {
		topic, part := vTopic(s.tp)
		base := vBase(segs, i)
		ref := discovery.SegmentRef{Topic: topic, Partition: part, BaseOffset: base, SegmentKey: vSegKey(i), IndexKey: vSegKey(i) + ".index"}
		// offset statistics as the real s3Lister / time index fill them in (see vStats)
		if min, hasMin, max, hasMax := vStats(l.h.c.stats, segs, i); hasMin || hasMax {
			if hasMin {
				v := min
				ref.MinOffset = &v
			}
			if hasMax {
				v := max
				ref.MaxOffset = &v
			}
		}
		refs = append(refs, ref)
	}
	return refs, nil
}

type vDecoder struct{ h *vHarness }

func (d vDecoder) Decode(ctx context.Context, segmentKey, indexKey string, topic string, partition int32) ([]decoder.Record, error) {
	offs, tp, err := d.h.onDecode(segmentKey)
	if err != nil {
		return nil, err
	}
	t, p := vTopic(tp)
	out := make([]decoder.Record, 0, len(offs))
	for _, o := range offs {
		out = append(out, decoder.Record{Topic: t, Partition: p, Offset: o, Timestamp: o, Value: []byte("v")})
	}
	return out, nil
}

type vStore struct {
	h     *vHarness
	inner checkpoint.Store
}

func (s vStore) ClaimLease(ctx context.Context, topic string, partition int32, ownerID string) (checkpoint.Lease, error) {
	if err := s.h.onClaim(vTP(topic, partition)); err != nil {
		return checkpoint.Lease{}, err
	}
	return s.inner.ClaimLease(ctx, topic, partition, ownerID)
}

func (s vStore) RenewLease(ctx context.Context, lease checkpoint.Lease) error {
	if err := s.h.onRenew(); err != nil {
		return err
	}
	return s.inner.RenewLease(ctx, lease)
}

func (s vStore) ReleaseLease(ctx context.Context, lease checkpoint.Lease) error {
	s.h.onRelease()
	return s.inner.ReleaseLease(ctx, lease)
}

func (s vStore) LoadOffset(ctx context.Context, topic string, partition int32) (checkpoint.OffsetState, error) {
	v, err := s.h.onLoad(vTP(topic, partition))
	if err != nil {
		return checkpoint.OffsetState{}, err
	}
	return checkpoint.OffsetState{Topic: topic, Partition: partition, Offset: v}, nil
}

func (s vStore) CommitOffset(ctx context.Context, state checkpoint.OffsetState) error {
	return s.h.onCommit(vTP(state.Topic, state.Partition), state.Offset)
}

type vSink struct{ h *vHarness }

func (k vSink) Write(ctx context.Context, records []sink.Record) error {
	if len(records) == 0 {
		return nil
	}
	offs := make([]int64, 0, len(records))
	for _, r := range records {
		offs = append(offs, r.Offset)
	}
	return k.h.onWrite(vTP(records[0].Topic, records[0].Partition), offs)
}

func (k vSink) Close(ctx context.Context) error { return nil }

// vRunCase drives the real Processor.Run through one case.
func vRunCase(c *vCase, settle func()) []string {
	h := newVHarness(c)
	real := checkpoint.New() // the noopStore
	if c.store == "noop" {
		h.innerLoad = func(tp int) (int64, error) {
			t, p := vTopic(tp)
			st, err := real.LoadOffset(context.Background(), t, p)
			return st.Offset, err
		}
		h.innerCommit = func(tp int, off int64) error {
			t, p := vTopic(tp)
			return real.CommitOffset(context.Background(), checkpoint.OffsetState{Topic: t, Partition: p, Offset: off})
		}
	}
	p := &Processor{
		cfg:      config.Config{},
		discover: vLister{h},
		decode:   vDecoder{h},
		store:    vStore{h: h, inner: real},
		sink:     vSink{h},
		locks:    newTopicLocker(),
	}
	ctx, cancel := context.WithCancel(context.Background())
	done := make(chan error, 1)
	go func() { done <- p.Run(ctx) }()
	lines := vDrive(h, 5*time.Second)
	_ = settle
	cancel()
	<-done
	// a failing renewal may still be inside its one-second delay (see onRenew): let it finish, a
	// synctest bubble must not be left with a sleeping goroutine
	time.Sleep(1500 * time.Millisecond)
	return lines
}
