//go:build verif

package processor

import (
	"context"
	"encoding/binary"
	"encoding/json"
	"fmt"
	"strconv"
	"strings"
	"time"

	"github.com/kafscale/platform/addons/processors/sql-processor/internal/checkpoint"
	"github.com/kafscale/platform/addons/processors/sql-processor/internal/config"
	"github.com/kafscale/platform/addons/processors/sql-processor/internal/decoder"
	"github.com/kafscale/platform/addons/processors/sql-processor/internal/discovery"
	"github.com/kafscale/platform/addons/processors/sql-processor/internal/sink"
)

type vLister struct{ h *vHarness }

func (l vLister) ListCompleted(ctx context.Context) ([]discovery.SegmentRef, error) {
	if l.h.onList() {
		return nil, errVerifInjected
	}
	segs := l.h.listing()
	refs := make([]discovery.SegmentRef, 0, len(segs))
	for i, s := range segs {
		topic, part := vTopic(s.tp)
		base := vBase(segs, i)
		ref := discovery.SegmentRef{Topic: topic, Partition: part, BaseOffset: base, SegmentKey: vSegKey(i), IndexKey: vSegKey(i) + ".index"}
		// offset statistics as the real s3Lister / time index fill them in (see vStats)
		if min, hasMin, max, hasMax := vStats(l.h.c.stats, segs, i); hasMin || hasMax {
			if hasMin {
				v := min
				ref.MinOffset = &v
			}
			if hasMax {
				v := max
				ref.MaxOffset = &v
			}
		}
		refs = append(refs, ref)
	}
	return refs, nil
}

// vRealLister drives the REAL listers of internal/discovery over an in-process S3 endpoint: the
// bucket holds one completed .kfs/.index pair per scripted segment (plus decoys that are not
// completed segments) and, for lister=manifest, a manifest.json naming the segments in the order
// of the seg lines (rewritten whenever a segment completes; with lister=stale written at the first
// tick only, so it falls behind the bucket); the cycle's S3 fault oracle is armed for exactly this
// ListCompleted call.
type vRealLister struct {
	h        *vHarness
	s3       *discovery.VerifC33S3
	inner    discovery.Lister
	manifest bool
	stale    bool // lister=stale: manifest.json is written once (first tick) and never refreshed
	written  bool
	put      map[int]bool
}

func (l *vRealLister) sync() {
	segs := l.h.listing()
	changed := false
	if !l.put[-1000] {
		l.put[-1000] = true
		l.s3.PageSize = l.h.c.page
		// filler objects that are no segment keys, sorting before every topic ("t…") and before manifest.json
		for k := 0; k < l.h.c.fill; k++ {
			l.s3.Put(fmt.Sprintf("a-fill/%06d", k), []byte("x"))
		}
	}
	for i := range segs {
		if l.put[i] {
			continue
		}
		l.put[i] = true
		changed = true
		stem := vSegObjectKey(segs, i)
		l.h.setKey(stem+".kfs", i)
		if l.h.c.decoder == "real" {
			l.s3.Put(stem+".kfs", vEncodeSegment(segs[i].offs))
		} else {
			l.s3.Put(stem+".kfs", []byte("records"+discovery.VerifC33FooterMagic))
		}
		l.s3.Put(stem+".index", []byte("idx"))
		if !l.put[-1-segs[i].tp] {
			l.put[-1-segs[i].tp] = true
			topic, part := vTopic(segs[i].tp)
			l.s3.Put(fmt.Sprintf("%s/%d/segment-%020d.kfs", topic, part, 900000), []byte("records still being writ"))
			l.s3.Put(fmt.Sprintf("%s/%d/segment-%020d.index", topic, part, 900000), []byte("idx"))
			l.s3.Put(fmt.Sprintf("%s/%d/segment-%020d.kfs", topic, part, 900100), []byte("records"+discovery.VerifC33FooterMagic))
			l.s3.Put(fmt.Sprintf("%s/%d/segment-%020d.index", topic, part, 900200), []byte("idx"))
		}
	}
	if l.manifest && changed && !(l.stale && l.written) {
		l.written = true
		// what ManifestBuilder.Build writes per entry (manifest_builder.go), in seg-line order
		type entry struct {
			Topic      string `json:"topic"`
			Partition  int32  `json:"partition"`
			SegmentKey string `json:"segment_key"`
			IndexKey   string `json:"index_key"`
			SizeBytes  int64  `json:"size_bytes"`
			MinOffset  int64  `json:"min_offset"`
		}
		var entries []entry
		for i := range segs {
			topic, part := vTopic(segs[i].tp)
			stem := vSegObjectKey(segs, i)
			entries = append(entries, entry{Topic: topic, Partition: part, SegmentKey: stem + ".kfs", IndexKey: stem + ".index", SizeBytes: 11, MinOffset: vBase(segs, i)})
		}
		body, _ := json.Marshal(entries)
		l.s3.Put("manifest.json", body)
	}
}

func (l *vRealLister) ListCompleted(ctx context.Context) ([]discovery.SegmentRef, error) {
	fail := l.h.onList()
	l.sync() // the bucket (and manifest.json) follow the timeline also on a tick whose listing is scripted to fail
	if fail {
		return nil, errVerifInjected
	}
	segs := l.h.listing()
	var arm []string
	for _, x := range l.h.s3Oracle() {
		switch {
		case x == "L":
			arm = append(arm, "L")
		case x == "m":
			arm = append(arm, "g:manifest.json")
		case strings.HasPrefix(x, "p"):
			if i, err := strconv.Atoi(x[1:]); err == nil && i >= 0 && i < len(segs) {
				arm = append(arm, "p:"+vSegObjectKey(segs, i)+".kfs")
			}
		}
	}
	l.s3.Arm(arm)
	// c<i> / h<i>: this tick's download of segment i is cut mid-body (stays armed until the next tick)
	cuts := map[string]int{}
	for _, x := range l.h.s3Oracle() {
		if len(x) > 1 && (x[0] == 'c' || x[0] == 'h') {
			if i, err := strconv.Atoi(x[1:]); err == nil && i >= 0 && i < len(segs) {
				key := vSegObjectKey(segs, i) + ".kfs"
				n := l.s3.Size(key) - 1
				if x[0] == 'h' {
					n = (n + 1) / 2
					if n < 48 {
						n = 48
					}
				}
				cuts[key] = n
			}
		}
	}
	l.s3.ArmCuts(cuts)
	refs, err := l.inner.ListCompleted(ctx)
	l.s3.Arm(nil)
	if err != nil {
		return nil, err
	}
	keys := make([]string, 0, len(refs))
	for _, r := range refs {
		keys = append(keys, r.SegmentKey)
	}
	l.h.setListed(keys)
	return refs, nil
}

type vDecoder struct{ h *vHarness }

func (d vDecoder) Decode(ctx context.Context, segmentKey, indexKey string, topic string, partition int32) ([]decoder.Record, error) {
	offs, tp, err := d.h.onDecode(segmentKey)
	if err != nil {
		return nil, err
	}
	t, p := vTopic(tp)
	out := make([]decoder.Record, 0, len(offs))
	for _, o := range offs {
		out = append(out, decoder.Record{Topic: t, Partition: p, Offset: o, Timestamp: o, Value: []byte("v")})
	}
	return out, nil
}

// vEncodeSegment builds a segment object the way the broker lays it out: 32-byte header ("KAFS"…), one
// record batch per record (61-byte v2 batch header + one record: attributes 0, timestamp delta 0, offset
// delta 0, null key, value "v", no headers), 16-byte footer ending in the footer magic.
func vEncodeSegment(offs []int64) []byte {
	out := make([]byte, 32)
	copy(out, "KAFS")
	for _, o := range offs {
		rec := []byte{0, 0, 0, 1, 2, 'v', 0} // attrs, tsDelta, offDelta, keyLen -1, valueLen 1, value, headers 0
		rec = append([]byte{byte(len(rec) << 1)}, rec...)
		b := make([]byte, 61)
		binary.BigEndian.PutUint64(b[0:8], uint64(o))
		binary.BigEndian.PutUint32(b[8:12], uint32(61-12+len(rec)))
		b[16] = 2
		binary.BigEndian.PutUint64(b[27:35], uint64(1000+o))
		binary.BigEndian.PutUint64(b[35:43], uint64(1000+o))
		binary.BigEndian.PutUint32(b[57:61], 1)
		out = append(out, b...)
		out = append(out, rec...)
	}
	foot := make([]byte, 16)
	copy(foot[12:], discovery.VerifC33FooterMagic)
	return append(out, foot...)
}

// vRealDecoder runs the module's REAL s3Decoder (download over the in-process S3 endpoint + decodeSegment)
// inside the loop; the scripted decode fault of the segment is still honoured first.
type vRealDecoder struct {
	h     *vHarness
	inner decoder.Decoder
}

func (d vRealDecoder) Decode(ctx context.Context, segmentKey, indexKey string, topic string, partition int32) ([]decoder.Record, error) {
	if _, _, err := d.h.onDecode(segmentKey); err != nil {
		return nil, err
	}
	return d.inner.Decode(ctx, segmentKey, indexKey, topic, partition)
}

type vStore struct {
	h     *vHarness
	inner checkpoint.Store
}

func (s vStore) ClaimLease(ctx context.Context, topic string, partition int32, ownerID string) (checkpoint.Lease, error) {
	if err := s.h.onClaim(vTP(topic, partition)); err != nil {
		return checkpoint.Lease{}, err
	}
	return s.inner.ClaimLease(ctx, topic, partition, ownerID)
}

func (s vStore) RenewLease(ctx context.Context, lease checkpoint.Lease) error {
	if err := s.h.onRenew(); err != nil {
		return err
	}
	return s.inner.RenewLease(ctx, lease)
}

func (s vStore) ReleaseLease(ctx context.Context, lease checkpoint.Lease) error {
	s.h.onRelease()
	return s.inner.ReleaseLease(ctx, lease)
}

func (s vStore) LoadOffset(ctx context.Context, topic string, partition int32) (checkpoint.OffsetState, error) {
	v, err := s.h.onLoad(vTP(topic, partition))
	if err != nil {
		return checkpoint.OffsetState{}, err
	}
	return checkpoint.OffsetState{Topic: topic, Partition: partition, Offset: v}, nil
}

func (s vStore) CommitOffset(ctx context.Context, state checkpoint.OffsetState) error {
	return s.h.onCommit(vTP(state.Topic, state.Partition), state.Offset)
}

type vSink struct{ h *vHarness }

func (k vSink) Write(ctx context.Context, records []sink.Record) error {
	if len(records) == 0 {
		return nil
	}
	offs := make([]int64, 0, len(records))
	for _, r := range records {
		offs = append(offs, r.Offset)
	}
	return k.h.onWrite(vTP(records[0].Topic, records[0].Partition), offs)
}

func (k vSink) Close(ctx context.Context) error { return nil }

// vRunCase drives the real Processor.Run through one case.
func vRunCase(c *vCase, settle func()) []string {
	h := newVHarness(c)
	real := checkpoint.New() // the noopStore
	if c.store == "noop" {
		h.innerLoad = func(tp int) (int64, error) {
			t, p := vTopic(tp)
			st, err := real.LoadOffset(context.Background(), t, p)
			return st.Offset, err
		}
		h.innerCommit = func(tp int, off int64) error {
			t, p := vTopic(tp)
			return real.CommitOffset(context.Background(), checkpoint.OffsetState{Topic: t, Partition: p, Offset: off})
		}
	}
	var lister discovery.Lister = vLister{h}
	var dec decoder.Decoder = vDecoder{h}
	switch c.lister {
	case "":
	case "s3":
		s3 := discovery.VerifC33NewS3()
		lister = &vRealLister{h: h, s3: s3, inner: s3.VerifC33Lister(""), put: map[int]bool{}}
		if c.decoder == "real" {
			dec = vRealDecoder{h: h, inner: decoder.VerifC33NewDecoder(s3.VerifC33Client(), "b")}
		}
	case "manifest":
		s3 := discovery.VerifC33NewS3()
		lister = &vRealLister{h: h, s3: s3, inner: s3.VerifC33ManifestLister("", 0), manifest: true, put: map[int]bool{}}
	case "stale":
		s3 := discovery.VerifC33NewS3()
		lister = &vRealLister{h: h, s3: s3, inner: s3.VerifC33ManifestLister("", 0), manifest: true, stale: true, put: map[int]bool{}}
	default:
		return []string{"panic"}
	}
	p := &Processor{
		cfg:      config.Config{},
		discover: lister,
		decode:   dec,
		store:    vStore{h: h, inner: real},
		sink:     vSink{h},
		locks:    newTopicLocker(),
	}
	ctx, cancel := context.WithCancel(context.Background())
	done := make(chan error, 1)
	go func() { done <- p.Run(ctx) }()
	lines := vDrive(h, 5*time.Second)
	_ = settle
	cancel()
	<-done
	// a failing renewal may still be inside its one-second delay (see onRenew): let it finish, a
	// synctest bubble must not be left with a sleeping goroutine
	time.Sleep(1500 * time.Millisecond)
	return lines
}
