//go:build verif

package processor

import (
	"bufio"
	"fmt"
	"os"
	"testing"
	"testing/synctest"
)

// TestVerifC33 is the harness entry point (virtual time): VERIF_C33_OPS names the scenario
// file, VERIF_C33_OUT the file that receives one result line per scenario line.
func TestVerifC33(t *testing.T) {
	in, outp := os.Getenv("VERIF_C33_OPS"), os.Getenv("VERIF_C33_OUT")
	if in == "" || outp == "" {
		t.Skip("verification harness only")
	}
	f, err := os.Open(in)
	if err != nil {
		t.Fatal(err)
	}
	defer f.Close()
	cases, err := vParseCases(f)
	if err != nil {
		t.Fatal(err)
	}
	o, err := os.Create(outp)
	if err != nil {
		t.Fatal(err)
	}
	defer o.Close()
	w := bufio.NewWriter(o)
	defer w.Flush()
	for _, c := range cases {
		var lines []string
		func() {
			defer func() {
				if r := recover(); r != nil {
					fmt.Fprintf(os.Stderr, "verif: case panicked: %v\n", r)
					lines = append(lines, "panic")
				}
			}()
			synctest.Test(t, func(t *testing.T) { lines = vRunCase(c, synctest.Wait) })
		}()
		for _, l := range lines {
			w.WriteString(l + "\n")
		}
		w.WriteString("end\n")
		w.Flush()
	}
}
