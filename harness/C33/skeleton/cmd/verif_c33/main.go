//go:build verif

// C33 harness for the skeleton processor (real clock): scenario on stdin, result lines on stdout.
package main

import (
	"fmt"
	"os"

	"github.com/KafScale/platform/addons/processors/skeleton/internal/processor"
)

func main() {
	if err := processor.VerifC33RunCases(os.Stdin, os.Stdout); err != nil {
		fmt.Fprintln(os.Stderr, err)
		os.Exit(2)
	}
}
