// Fact extractor (go/ast) for C11 and C24: walks handler.Handle's type switch in cmd/broker/main.go and
// prints, per `case *kmsg.XRequest` arm (following one level into h.handleX / withAdminMetrics closures),
// in source order: ACL guard calls (h.allow*), effectful calls, and API-version guards.
//
//	go run main.go <repo root>      -> JSON lines on stdout (reads <root>/cmd/broker/main.go)
package main

import (
	"encoding/json"
	"fmt"
	"go/ast"
	"go/parser"
	"go/token"
	"os"
	"strings"
)

type Event struct {
	Kind    string `json:"kind"`    // guard | effect | read | vguard | ret
	Acks0   bool   `json:"acks0"`   // ret: lexically inside `if req.Acks == 0 { ... }`
	Call    string `json:"call"`    // allowTopic / store.CreateTopic / ...; ret: nilnil | nilerr | value (a two-result return)
	Action  string `json:"action"`  // ActionProduce ...
	InLoop  bool   `json:"inLoop"`  // lexically inside a for/range statement
	InCond  bool   `json:"inCond"`  // the guard call is (part of) an if condition
	Op      string `json:"op"`      // vguard: "<" or ">"
	Lit     string `json:"lit"`     // vguard literal
	Line    int    `json:"line"`
	Callee  string `json:"callee"`  // function the event was found in
}

type Arm struct {
	Types  []string `json:"types"`
	Line   int      `json:"line"`
	Events []Event  `json:"events"`
}

var fset = token.NewFileSet()
var funcs = map[string]*ast.FuncDecl{}

// store/coordinator methods that only read
var readOnly = map[string]bool{
	"Metadata": true, "NextOffset": true, "FetchTopicConfig": true, "FetchConsumerOffset": true, "ListConsumerGroups": true,
	"FetchConsumerGroup": true, "Available": true, "DescribeGroups": true, "ListGroups": true, "OffsetFetch": true,
}

func sel(e ast.Expr) string {
	switch x := e.(type) {
	case *ast.Ident:
		return x.Name
	case *ast.SelectorExpr:
		return sel(x.X) + "." + x.Sel.Name
	}
	return "?"
}

type walker struct {
	arm    *Arm
	callee string
	depth  int
	seen   map[string]bool
	acks0  int // > 0 while inside the body of `if <x>.Acks == 0`
}

// `<x>.Acks == 0` (the fire-and-forget test of handleProduce)
func isAcks0Cond(e ast.Expr) bool {
	b, ok := e.(*ast.BinaryExpr)
	if !ok || b.Op != token.EQL {
		return false
	}
	lit, ok := b.Y.(*ast.BasicLit)
	return ok && lit.Value == "0" && strings.HasSuffix(sel(b.X), ".Acks")
}

func (w *walker) add(e Event, pos token.Pos) {
	e.Line = fset.Position(pos).Line
	e.Callee = w.callee
	w.arm.Events = append(w.arm.Events, e)
}

func (w *walker) walk(n ast.Node, inLoop bool, inCond bool) {
	if n == nil {
		return
	}
	switch x := n.(type) {
	case *ast.ForStmt:
		w.walk(x.Init, inLoop, false)
		w.walk(x.Cond, inLoop, false)
		w.walk(x.Body, true, false)
		return
	case *ast.RangeStmt:
		w.walk(x.X, inLoop, false)
		w.walk(x.Body, true, false)
		return
	case *ast.IfStmt:
		w.walk(x.Init, inLoop, false)
		w.vguard(x)
		w.walk(x.Cond, inLoop, true)
		if isAcks0Cond(x.Cond) {
			w.acks0++
			w.walk(x.Body, inLoop, false)
			w.acks0--
		} else {
			w.walk(x.Body, inLoop, false)
		}
		w.walk(x.Else, inLoop, false)
		return
	case *ast.ReturnStmt:
		// what the arm hands back to the connection loop: (payload, nil) = a reply, (nil, nil) = NO reply, (nil, err) = error reply
		if len(x.Results) == 2 {
			class := "value"
			if sel(x.Results[0]) == "nil" {
				class = "nilerr"
				if sel(x.Results[1]) == "nil" {
					class = "nilnil"
				}
			}
			w.add(Event{Kind: "ret", Call: class, Acks0: w.acks0 > 0, InLoop: inLoop}, x.Pos())
		}
		for _, r := range x.Results {
			w.walk(r, inLoop, inCond)
		}
		return
	case *ast.CallExpr:
		name := sel(x.Fun)
		switch {
		case strings.HasPrefix(name, "h.allow"):
			ev := Event{Kind: "guard", Call: strings.TrimPrefix(name, "h."), InLoop: inLoop, InCond: inCond}
			for _, a := range x.Args {
				if s := sel(a); strings.HasPrefix(s, "acl.Action") {
					ev.Action = strings.TrimPrefix(s, "acl.")
				}
			}
			if ev.Call == "allowAdmin" {
				ev.Action = "ActionAdmin"
			}
			w.add(ev, x.Pos())
		case name == "h.ensureTopic" || name == "h.getPartitionLog" || name == "plog.AppendBatch" || name == "plog.Flush":
			w.add(Event{Kind: "effect", Call: strings.TrimPrefix(name, "h."), InLoop: inLoop}, x.Pos())
		case strings.HasPrefix(name, "h.store.") || strings.HasPrefix(name, "h.coordinator."):
			m := name[strings.LastIndex(name, ".")+1:]
			if !readOnly[m] {
				w.add(Event{Kind: "effect", Call: strings.TrimPrefix(name, "h."), InLoop: inLoop}, x.Pos())
			} else if strings.HasPrefix(name, "h.coordinator.") || m == "FetchTopicConfig" || m == "NextOffset" {
				w.add(Event{Kind: "read", Call: strings.TrimPrefix(name, "h."), InLoop: inLoop}, x.Pos())
			}
		case name == "plog.Read":
			w.add(Event{Kind: "read", Call: "plog.Read", InLoop: inLoop}, x.Pos())
		}
		// follow h.handleX / h.unauthorizedX one level, in place (source order of the caller)
		if strings.HasPrefix(name, "h.handle") && w.depth < 2 {
			fn := strings.TrimPrefix(name, "h.")
			if fd := funcs[fn]; fd != nil && !w.seen[fn] {
				w.seen[fn] = true
				sub := &walker{arm: w.arm, callee: fn, depth: w.depth + 1, seen: w.seen, acks0: w.acks0}
				sub.walk(fd.Body, inLoop, false)
			}
		}
		for _, a := range x.Args {
			w.walk(a, inLoop, inCond)
		}
		w.walk(x.Fun, inLoop, inCond)
		return
	case *ast.FuncLit:
		w.walk(x.Body, inLoop, false)
		return
	}
	// generic traversal preserving source order
	ast.Inspect(n, func(c ast.Node) bool {
		if c == nil || c == n {
			return true
		}
		switch c.(type) {
		case *ast.ForStmt, *ast.RangeStmt, *ast.IfStmt, *ast.CallExpr, *ast.FuncLit, *ast.ReturnStmt:
			w.walk(c, inLoop, inCond)
			return false
		}
		return true
	})
}

// if header.APIVersion < A || header.APIVersion > B { return nil, fmt.Errorf(...) }
func (w *walker) vguard(s *ast.IfStmt) {
	rejects := false
	for _, st := range s.Body.List {
		if r, ok := st.(*ast.ReturnStmt); ok && len(r.Results) == 2 && sel(r.Results[0]) == "nil" {
			rejects = true
		}
	}
	if !rejects {
		return
	}
	ast.Inspect(s.Cond, func(c ast.Node) bool {
		if b, ok := c.(*ast.BinaryExpr); ok && (b.Op == token.LSS || b.Op == token.GTR || b.Op == token.LEQ || b.Op == token.GEQ) {
			if sel(b.X) == "header.APIVersion" {
				if lit, ok := b.Y.(*ast.BasicLit); ok {
					w.add(Event{Kind: "vguard", Op: b.Op.String(), Lit: lit.Value}, b.Pos())
				}
			}
		}
		return true
	})
}

func main() {
	f, err := parser.ParseFile(fset, os.Args[1]+"/cmd/broker/main.go", nil, 0)
	if err != nil {
		fmt.Fprintln(os.Stderr, err)
		os.Exit(1)
	}
	for _, d := range f.Decls {
		if fd, ok := d.(*ast.FuncDecl); ok && fd.Recv != nil && fd.Body != nil {
			funcs[fd.Name.Name] = fd
		}
	}
	h := funcs["Handle"]
	if h == nil {
		fmt.Fprintln(os.Stderr, "no Handle method")
		os.Exit(1)
	}
	enc := json.NewEncoder(os.Stdout)
	found := false
	ast.Inspect(h.Body, func(n ast.Node) bool {
		ts, ok := n.(*ast.TypeSwitchStmt)
		if !ok {
			return true
		}
		found = true
		for _, c := range ts.Body.List {
			cc := c.(*ast.CaseClause)
			arm := &Arm{Line: fset.Position(cc.Pos()).Line}
			for _, t := range cc.List {
				if st, ok := t.(*ast.StarExpr); ok {
					arm.Types = append(arm.Types, strings.TrimPrefix(sel(st.X), "kmsg."))
				}
			}
			if len(arm.Types) == 0 {
				arm.Types = []string{"default"}
			}
			w := &walker{arm: arm, callee: "Handle", seen: map[string]bool{}}
			for _, st := range cc.Body {
				w.walk(st, false, false)
			}
			if arm.Events == nil {
				arm.Events = []Event{}
			}
			_ = enc.Encode(arm)
		}
		return false
	})
	if !found {
		fmt.Fprintln(os.Stderr, "no type switch in Handle")
		os.Exit(1)
	}
}
