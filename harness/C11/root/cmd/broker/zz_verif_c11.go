//go:build verif

package main

// C11 harness (VERIF_HARNESS=C11): dumps the advertised table + kmsg facts, and runs generated requests
// for a (key, version) through the real ParseRequest -> handler.Handle (-> buildErrorResponse on error)
// path, then decodes the reply with kmsg at the request version.

import (
	"bufio"
	"bytes"
	"context"
	"encoding/binary"
	"fmt"
	"io"
	"log/slog"
	"os"
	"reflect"
	"strconv"
	"strings"
	"time"

	"github.com/KafScale/platform/pkg/broker"
	"github.com/KafScale/platform/pkg/metadata"
	"github.com/KafScale/platform/pkg/protocol"
	"github.com/KafScale/platform/pkg/storage"
	"github.com/twmb/franz-go/pkg/kmsg"
)

func verifC11Tables(w io.Writer) {
	for _, e := range generateApiVersions() {
		fmt.Fprintf(w, "adv broker %d %d %d\n", e.ApiKey, e.MinVersion, e.MaxVersion)
	}
	for k := int16(0); k <= kmsg.MaxKey; k++ {
		req := kmsg.RequestForKey(k)
		resp := kmsg.ResponseForKey(k)
		if req == nil || resp == nil {
			continue
		}
		first := func(set func(int16), flex func() bool) int16 {
			for v := int16(0); v <= 64; v++ {
				set(v)
				if flex() {
					return v
				}
			}
			return 32767
		}
		rq := first(req.SetVersion, req.IsFlexible)
		rs := first(resp.SetVersion, resp.IsFlexible)
		// threshold shape check (justifies the `first <= v` reading of the table)
		for v := int16(-2); v <= 64; v++ {
			req.SetVersion(v)
			resp.SetVersion(v)
			if req.IsFlexible() != (v >= rq) || resp.IsFlexible() != (v >= rs) {
				fmt.Fprintf(w, "error flex-not-threshold %d %d\n", k, v)
			}
		}
		fmt.Fprintf(w, "kmsg %d %d %d %d %s\n", k, req.MaxVersion(), rq, rs, reflect.TypeOf(req).Elem().Name())
	}
}

func verifC11Handler() *handler {
	brokerInfo := protocol.MetadataBroker{NodeID: 1, Host: "localhost", Port: 19092}
	store := metadata.NewInMemoryStore(metadataForBroker(brokerInfo))
	return newHandler(store, storage.NewMemoryS3Client(), brokerInfo, slog.New(slog.NewTextHandler(io.Discard, nil)))
}

func verifC11Batch() []byte {
	data := make([]byte, 70)
	binary.BigEndian.PutUint32(data[8:12], 58)
	data[16] = 2
	binary.BigEndian.PutUint32(data[57:61], 1)
	return data
}

// keep generated requests inside what a client can sensibly send without making the handler wait or
// allocate by request (those are noted separately, not part of C11)
func verifC11Part(p int32) int32 {
	if p < 0 || p > 3 {
		return p & 3
	}
	return p
}

func verifC11Fixup(req kmsg.Request, rng *protocol.VerifRng) {
	switch r := req.(type) {
	case *kmsg.OffsetForLeaderEpochRequest:
		for i := range r.Topics {
			for j := range r.Topics[i].Partitions {
				r.Topics[i].Partitions[j].Partition = verifC11Part(r.Topics[i].Partitions[j].Partition)
			}
		}
	case *kmsg.ProduceRequest:
		r.Acks = []int16{-1, 1}[rng.Below(2)]
		r.TimeoutMillis = 100
		for i := range r.Topics {
			if rng.Below(2) == 0 {
				r.Topics[i].Topic = "orders"
			}
			for j := range r.Topics[i].Partitions {
				if rng.Below(2) == 0 {
					r.Topics[i].Partitions[j].Records = verifC11Batch()
				}
				r.Topics[i].Partitions[j].Partition = verifC11Part(r.Topics[i].Partitions[j].Partition)
			}
		}
	case *kmsg.FetchRequest:
		r.MaxWaitMillis = 0
		for i := range r.Topics {
			if rng.Below(2) == 0 {
				r.Topics[i].Topic = "orders"
				r.Topics[i].TopicID = [16]byte{}
			}
			for j := range r.Topics[i].Partitions {
				r.Topics[i].Partitions[j].Partition = verifC11Part(r.Topics[i].Partitions[j].Partition)
			}
		}
	case *kmsg.ListOffsetsRequest:
		for i := range r.Topics {
			for j := range r.Topics[i].Partitions {
				if r.Topics[i].Partitions[j].MaxNumOffsets > 16 {
					r.Topics[i].Partitions[j].MaxNumOffsets = 16
				}
				r.Topics[i].Partitions[j].Partition = verifC11Part(r.Topics[i].Partitions[j].Partition)
			}
		}
	case *kmsg.CreateTopicsRequest:
		for i := range r.Topics {
			if r.Topics[i].NumPartitions > 8 {
				r.Topics[i].NumPartitions = 8
			}
		}
	case *kmsg.CreatePartitionsRequest:
		for i := range r.Topics {
			if r.Topics[i].Count > 8 {
				r.Topics[i].Count = 8
			}
		}
	}
}

type verifC11Reply struct {
	payload []byte
	path    string
}

func verifC11Run(key, ver int16, corr int32, seed uint64) (out string) {
	defer func() {
		if r := recover(); r != nil {
			out = fmt.Sprintf("panic %v", r)
		}
	}()
	rng := &protocol.VerifRng{S: seed}
	req := protocol.VerifFillRequest(key, ver, rng)
	if req == nil {
		return "no-such-key"
	}
	verifC11Fixup(req, rng)
	cid := "verif-c11"
	frame := kmsg.NewRequestFormatter(kmsg.FormatterClientID(cid)).AppendRequest(nil, req, corr)
	header, parsed, err := protocol.ParseRequest(frame[4:])
	if err != nil {
		return "request-parse-error " + err.Error()
	}
	h := verifC11Handler()
	done := make(chan verifC11Reply, 1)
	go func() {
		defer func() {
			if r := recover(); r != nil {
				done <- verifC11Reply{nil, fmt.Sprintf("panic %v", r)}
			}
		}()
		payload, err := h.Handle(context.Background(), header, parsed)
		if err != nil {
			// what Server.handleConnection does with a handler error
			done <- verifC11Reply{broker.VerifBuildErrorResponse(header), "err"}
			return
		}
		done <- verifC11Reply{payload, "ok"}
	}()
	var rep verifC11Reply
	select {
	case rep = <-done:
	case <-time.After(10 * time.Second):
		return "timeout"
	}
	if strings.HasPrefix(rep.path, "panic") {
		return rep.path
	}
	if rep.payload == nil {
		return "noreply | path=" + rep.path
	}
	p := rep.payload
	if len(p) < 4 {
		return "reply-too-short"
	}
	gotCorr := int32(binary.BigEndian.Uint32(p[:4]))
	try := func(off int, v int16) (bool, bool) { // decodes, exact
		if len(p) < off {
			return false, false
		}
		resp := kmsg.ResponseForKey(key)
		if resp == nil {
			return false, false
		}
		resp.SetVersion(v)
		if err := resp.ReadFrom(p[off:]); err != nil {
			return false, false
		}
		return true, bytes.Equal(resp.AppendTo(nil), p[off:])
	}
	d4, e4 := try(4, ver)
	d5, e5 := false, false
	if len(p) >= 5 && p[4] == 0 {
		d5, e5 = try(5, ver)
	}
	hdr, dec, usedVer := 0, "fail", strconv.Itoa(int(ver))
	_, v0exact := false, false
	if key == protocol.APIKeyApiVersion {
		// KIP-511: an unsupported ApiVersions version is answered in the v0 format
		_, v0exact = try(4, 0)
	}
	switch {
	case e4 && !e5:
		hdr, dec = 4, "exact"
	case e5 && !e4:
		hdr, dec = 5, "exact"
	case e4 && e5:
		hdr, dec = 0, "ambiguous"
	case v0exact:
		hdr, dec, usedVer = 4, "exact", "v0-fallback"
	case d4 && !d5:
		hdr, dec = 4, "loose"
	case d5 && !d4:
		hdr, dec = 5, "loose"
	case d4 && d5:
		hdr, dec = 0, "ambiguous-loose"
	}
	return fmt.Sprintf("reply hdr=%d corr=%d | path=%s decode=%s ver=%s len=%d", hdr, gotCorr, rep.path, dec, usedVer, len(p))
}

func init() {
	if os.Getenv("VERIF_HARNESS") != "C11" {
		return
	}
	w := bufio.NewWriter(os.Stdout)
	if len(os.Args) > 1 && os.Args[1] == "tables" {
		verifC11Tables(w)
		w.Flush()
		os.Exit(0)
	}
	sc := bufio.NewScanner(os.Stdin)
	for sc.Scan() {
		f := strings.Fields(sc.Text())
		if len(f) == 0 || strings.HasPrefix(f[0], "#") {
			continue
		}
		if f[0] == "req" && len(f) == 5 {
			k, _ := strconv.Atoi(f[1])
			v, _ := strconv.Atoi(f[2])
			c, _ := strconv.ParseInt(f[3], 10, 64)
			s, _ := strconv.ParseUint(f[4], 10, 64)
			res := verifC11Run(int16(k), int16(v), int32(c), s)
			fmt.Fprintln(w, res)
			if res == "timeout" {
				// the handler goroutine is still running (possibly spinning): do not let it disturb later ops
				w.Flush()
				os.Exit(3)
			}
		} else {
			fmt.Fprintln(w, "bad-op")
		}
		w.Flush()
	}
	os.Exit(0)
}
