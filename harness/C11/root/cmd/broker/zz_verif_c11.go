//go:build verif

package main

// C11 harness (VERIF_HARNESS=C11): dumps the advertised table + kmsg facts, and runs generated requests
// for a (key, version) through the real ParseRequest -> handler.Handle (-> buildErrorResponse on error)
// path, then decodes the reply with kmsg at the request version.

import (
	"bufio"
	"bytes"
	"context"
	"encoding/binary"
	"encoding/hex"
	"errors"
	"fmt"
	"io"
	"log/slog"
	"net"
	"os"
	"reflect"
	"runtime"
	"strconv"
	"strings"
	"sync"
	"sync/atomic"
	"time"

	"github.com/KafScale/platform/pkg/acl"
	"github.com/KafScale/platform/pkg/broker"
	"github.com/KafScale/platform/pkg/metadata"
	"github.com/KafScale/platform/pkg/protocol"
	"github.com/KafScale/platform/pkg/storage"
	"github.com/twmb/franz-go/pkg/kmsg"
)

func verifC11Tables(w io.Writer) {
	for _, e := range generateApiVersions() {
		fmt.Fprintf(w, "adv broker %d %d %d\n", e.ApiKey, e.MinVersion, e.MaxVersion)
	}
	for k := int16(0); k <= kmsg.MaxKey; k++ {
		req := kmsg.RequestForKey(k)
		resp := kmsg.ResponseForKey(k)
		if req == nil || resp == nil {
			continue
		}
		first := func(set func(int16), flex func() bool) int16 {
			for v := int16(0); v <= 64; v++ {
				set(v)
				if flex() {
					return v
				}
			}
			return 32767
		}
		rq := first(req.SetVersion, req.IsFlexible)
		rs := first(resp.SetVersion, resp.IsFlexible)
		// threshold shape check (justifies the `first <= v` reading of the table)
		for v := int16(-2); v <= 64; v++ {
			req.SetVersion(v)
			resp.SetVersion(v)
			if req.IsFlexible() != (v >= rq) || resp.IsFlexible() != (v >= rs) {
				fmt.Fprintf(w, "error flex-not-threshold %d %d\n", k, v)
			}
		}
		fmt.Fprintf(w, "kmsg %d %d %d %d %s\n", k, req.MaxVersion(), rq, rs, reflect.TypeOf(req).Elem().Name())
	}
}

func verifC11Handler() *handler {
	brokerInfo := protocol.MetadataBroker{NodeID: 1, Host: "localhost", Port: 19092}
	store := metadata.NewInMemoryStore(metadataForBroker(brokerInfo))
	return newHandler(store, storage.NewMemoryS3Client(), brokerInfo, slog.New(slog.NewTextHandler(io.Discard, nil)))
}

func verifC11Batch() []byte {
	data := make([]byte, 70)
	binary.BigEndian.PutUint32(data[8:12], 58)
	data[16] = 2
	binary.BigEndian.PutUint32(data[57:61], 1)
	return data
}

// keep generated requests inside what a client can sensibly send without making the handler wait or
// allocate by request (those are noted separately, not part of C11)
func verifC11Part(p int32) int32 {
	if p < 0 || p > 3 {
		return p & 3
	}
	return p
}

// verifC11BoundaryNames: topic names at the edges of what a request can carry and of what the broker accepts (249 = longest
// valid topic name; 32767 = longest string of a non-flexible request, int16 length; control bytes and quotes expand under
// %q / escaping).  Handlers echo request strings into replies (names, error messages): the reply must stay decodable at the
// request version.  32768 bytes only fit a flexible (compact string) request.
var verifC11BoundaryNames = []string{
	strings.Repeat("a", 249), strings.Repeat("a", 250), strings.Repeat("b", 32766), strings.Repeat("b", 32767),
	strings.Repeat("\x00", 9000), strings.Repeat("\"", 16384), strings.Repeat("é", 16383), strings.Repeat("\x7f", 32767),
	"orders", "..", strings.Repeat("c", 32768),
}

// verifC11SetTopicName puts a boundary name into the first element of the request's `Topics` list (appending one if the
// list is empty).  Returns false when the request has no such list (or the name does not fit the version).
func verifC11SetTopicName(req kmsg.Request, idx int) bool {
	name := verifC11BoundaryNames[idx%len(verifC11BoundaryNames)]
	if len(name) > 32767 && !req.IsFlexible() {
		return false
	}
	v := reflect.ValueOf(req)
	if v.Kind() != reflect.Ptr || v.Elem().Kind() != reflect.Struct {
		return false
	}
	topics := v.Elem().FieldByName("Topics")
	if !topics.IsValid() || !topics.CanSet() || topics.Kind() != reflect.Slice || topics.Type().Elem().Kind() != reflect.Struct {
		return false
	}
	if topics.Len() == 0 {
		topics.Set(reflect.Append(topics, reflect.Zero(topics.Type().Elem())))
	}
	f := topics.Index(0).FieldByName("Topic")
	switch {
	case !f.IsValid() || !f.CanSet():
		return false
	case f.Kind() == reflect.String:
		f.SetString(name)
	case f.Kind() == reflect.Ptr && f.Type().Elem().Kind() == reflect.String:
		f.Set(reflect.ValueOf(&name))
	default:
		return false
	}
	return true
}

// verifC11LongNames: in one generated request out of four, a boundary topic name.
func verifC11LongNames(req kmsg.Request, rng *protocol.VerifRng) {
	if rng.Below(4) == 0 {
		verifC11SetTopicName(req, rng.Below(len(verifC11BoundaryNames)))
	}
}

func verifC11Fixup(req kmsg.Request, rng *protocol.VerifRng) {
	defer verifC11LongNames(req, rng)
	switch r := req.(type) {
	case *kmsg.OffsetForLeaderEpochRequest:
		for i := range r.Topics {
			for j := range r.Topics[i].Partitions {
				r.Topics[i].Partitions[j].Partition = verifC11Part(r.Topics[i].Partitions[j].Partition)
			}
		}
	case *kmsg.ProduceRequest:
		r.Acks = []int16{-1, 1}[rng.Below(2)]
		r.TimeoutMillis = 100
		for i := range r.Topics {
			if rng.Below(2) == 0 {
				r.Topics[i].Topic = "orders"
			}
			for j := range r.Topics[i].Partitions {
				if rng.Below(2) == 0 {
					r.Topics[i].Partitions[j].Records = verifC11Batch()
				}
				r.Topics[i].Partitions[j].Partition = verifC11Part(r.Topics[i].Partitions[j].Partition)
			}
		}
	case *kmsg.FetchRequest:
		r.MaxWaitMillis = 0
		for i := range r.Topics {
			if rng.Below(2) == 0 {
				r.Topics[i].Topic = "orders"
				r.Topics[i].TopicID = [16]byte{}
			}
			for j := range r.Topics[i].Partitions {
				r.Topics[i].Partitions[j].Partition = verifC11Part(r.Topics[i].Partitions[j].Partition)
			}
		}
	case *kmsg.ListOffsetsRequest:
		for i := range r.Topics {
			for j := range r.Topics[i].Partitions {
				if r.Topics[i].Partitions[j].MaxNumOffsets > 16 {
					r.Topics[i].Partitions[j].MaxNumOffsets = 16
				}
				r.Topics[i].Partitions[j].Partition = verifC11Part(r.Topics[i].Partitions[j].Partition)
			}
		}
	case *kmsg.CreateTopicsRequest:
		for i := range r.Topics {
			if r.Topics[i].NumPartitions > 8 {
				r.Topics[i].NumPartitions = 8
			}
		}
	case *kmsg.CreatePartitionsRequest:
		for i := range r.Topics {
			if r.Topics[i].Count > 8 {
				r.Topics[i].Count = 8
			}
		}
	}
}

type verifC11Reply struct {
	payload []byte
	path    string
}

func verifC11Run(key, ver int16, corr int32, seed uint64, nameIdx int) (out string) {
	defer func() {
		if r := recover(); r != nil {
			out = fmt.Sprintf("panic %v", r)
		}
	}()
	rng := &protocol.VerifRng{S: seed}
	req := protocol.VerifFillRequest(key, ver, rng)
	if req == nil {
		return "no-such-key"
	}
	verifC11Fixup(req, rng)
	if nameIdx >= 0 && !verifC11SetTopicName(req, nameIdx) {
		return "reply not-applicable"
	}
	cid := "verif-c11"
	frame := kmsg.NewRequestFormatter(kmsg.FormatterClientID(cid)).AppendRequest(nil, req, corr)
	header, parsed, err := protocol.ParseRequest(frame[4:])
	if err != nil {
		return "request-parse-error " + err.Error()
	}
	h := verifC11Handler()
	done := make(chan verifC11Reply, 1)
	go func() {
		defer func() {
			if r := recover(); r != nil {
				done <- verifC11Reply{nil, fmt.Sprintf("panic %v", r)}
			}
		}()
		payload, err := h.Handle(context.Background(), header, parsed)
		if err != nil {
			// what Server.handleConnection does with a handler error
			done <- verifC11Reply{broker.VerifBuildErrorResponse(header), "err"}
			return
		}
		done <- verifC11Reply{payload, "ok"}
	}()
	var rep verifC11Reply
	select {
	case rep = <-done:
	case <-time.After(10 * time.Second):
		return "timeout"
	}
	if strings.HasPrefix(rep.path, "panic") {
		return rep.path
	}
	if rep.payload == nil {
		return "noreply | path=" + rep.path
	}
	p := rep.payload
	if len(p) < 4 {
		return "reply-too-short"
	}
	gotCorr := int32(binary.BigEndian.Uint32(p[:4]))
	try := func(off int, v int16) (bool, bool) { // decodes, exact
		if len(p) < off {
			return false, false
		}
		resp := kmsg.ResponseForKey(key)
		if resp == nil {
			return false, false
		}
		resp.SetVersion(v)
		if err := resp.ReadFrom(p[off:]); err != nil {
			return false, false
		}
		return true, bytes.Equal(resp.AppendTo(nil), p[off:])
	}
	d4, e4 := try(4, ver)
	d5, e5 := false, false
	if len(p) >= 5 && p[4] == 0 {
		d5, e5 = try(5, ver)
	}
	hdr, dec, usedVer := 0, "fail", strconv.Itoa(int(ver))
	_, v0exact := false, false
	if key == protocol.APIKeyApiVersion {
		// KIP-511: an unsupported ApiVersions version is answered in the v0 format
		_, v0exact = try(4, 0)
	}
	switch {
	case e4 && !e5:
		hdr, dec = 4, "exact"
	case e5 && !e4:
		hdr, dec = 5, "exact"
	case e4 && e5:
		hdr, dec = 0, "ambiguous"
	case v0exact:
		hdr, dec, usedVer = 4, "exact", "v0-fallback"
	case d4 && !d5:
		hdr, dec = 4, "loose"
	case d5 && !d4:
		hdr, dec = 5, "loose"
	case d4 && d5:
		hdr, dec = 0, "ambiguous-loose"
	}
	return fmt.Sprintf("reply hdr=%d corr=%d | path=%s decode=%s ver=%s len=%d", hdr, gotCorr, rep.path, dec, usedVer, len(p))
}

// verifC11Acks0Produce: a fire-and-forget Produce (acks=0) — the one request kind that must get NO reply, whatever happens to
// its partitions.  Variants: 0 valid partition, 1 record set that is not a batch, 2 invalid topic name (cannot be auto-created),
// 3 partition the topic does not have, 4 topic the ACL of config 1 denies, 5 one good + one bad partition, 6 reflectively
// generated topics/partitions/records, 7 no topics at all.
var verifC11Acks0Names = []string{"valid", "bad-batch", "invalid-topic", "foreign-partition", "acl-denied", "mixed", "generated", "empty"}

const verifC11DeniedTopic = "verif-denied"

func verifC11Acks0Produce(variant int, ver int16, rng *protocol.VerifRng) *kmsg.ProduceRequest {
	var req *kmsg.ProduceRequest
	if variant == 6 {
		req = protocol.VerifFillRequest(protocol.APIKeyProduce, ver, rng).(*kmsg.ProduceRequest)
		verifC11Fixup(req, rng)
	} else {
		req = kmsg.NewPtrProduceRequest()
		req.SetVersion(ver)
	}
	req.Acks = 0
	req.TimeoutMillis = 100
	add := func(topic string, part int32, records []byte) {
		t := kmsg.NewProduceRequestTopic()
		t.Topic = topic
		p := kmsg.NewProduceRequestTopicPartition()
		p.Partition = part
		p.Records = records
		t.Partitions = append(t.Partitions, p)
		req.Topics = append(req.Topics, t)
	}
	switch variant {
	case 0:
		add("orders", 0, verifC11Batch())
	case 1:
		add("orders", 0, []byte("definitely not a record batch"))
	case 2:
		add("..", 0, verifC11Batch())
	case 3:
		add("orders", 3, verifC11Batch())
	case 4:
		add(verifC11DeniedTopic, 0, verifC11Batch())
	case 5:
		add("orders", 0, verifC11Batch())
		add("orders", 2, nil)
		add(verifC11DeniedTopic, 0, []byte{1, 2, 3})
	}
	return req
}

// verifC11PipeHandler: the handler behind the pipelined connection.  cfg 0 = default; 1 = ACL enabled, principal of the harness's
// client id may not produce to verifC11DeniedTopic (everything else allowed); 2 = S3 reported unavailable (every produce partition is
// rejected with the backpressure code).
func verifC11PipeHandler(cfg uint64, clientID string) *handler {
	h := verifC11Handler()
	switch cfg {
	case 1:
		h.authorizer = acl.NewAuthorizer(acl.Config{Enabled: true, DefaultPolicy: "allow", Principals: []acl.PrincipalRules{{
			Name: clientID,
			Deny: []acl.Rule{{Action: acl.ActionProduce, Resource: acl.ResourceTopic, Name: verifC11DeniedTopic}},
		}}})
	case 2:
		for i := 0; i < 400; i++ {
			h.s3Health.RecordOperation("upload", time.Millisecond, errors.New("verif: s3 down"))
		}
	}
	return h
}

// verifC11Acks0Probe: generator self-check — the same produce variants with acks=1 through the handler of config cfg; prints how
// many partitions each variant gets rejected (so the check can record that the "failing" acks=0 variants really fail).
func verifC11Acks0Probe(cfg uint64) string {
	const clientID = "verif-c11p"
	h := verifC11PipeHandler(cfg, clientID)
	rng := &protocol.VerifRng{S: 7}
	var out []string
	for variant, name := range verifC11Acks0Names {
		req := verifC11Acks0Produce(variant, 7, rng)
		req.Acks = 1
		cid := clientID
		header := &protocol.RequestHeader{APIKey: protocol.APIKeyProduce, APIVersion: 7, CorrelationID: 1, ClientID: &cid}
		rejected, total := -1, 0
		func() {
			defer func() { _ = recover() }()
			p, err := h.Handle(context.Background(), header, req)
			if err != nil || len(p) < 4 {
				return
			}
			resp := kmsg.NewPtrProduceResponse()
			resp.SetVersion(7)
			if resp.ReadFrom(p[4:]) != nil {
				return
			}
			rejected = 0
			for _, t := range resp.Topics {
				for _, pp := range t.Partitions {
					total++
					if pp.ErrorCode != 0 {
						rejected++
					}
				}
			}
		}()
		out = append(out, fmt.Sprintf("%s=%d/%d", name, rejected, total))
	}
	return "probe " + strings.Join(out, " ")
}

// verifC11Pipe: ONE client connection into the real broker.Server connection loop; one generated request for every
// advertised (key, version) is written back to back (pipelined) in the given chunking (0 = a single Write of all
// frames, 1 = one Write per frame, other = seeded chunk sizes that ignore frame boundaries), INTERLEAVED with acks=0 Produce
// requests (all variants above, every advertised Produce version), which must get no reply.  The client must read exactly one
// reply per reply-expecting request, in order: the k-th reply carries the correlation id of the k-th reply-expecting request
// and decodes at that request's version; after the last one nothing more may arrive.
func verifC11Pipe(seed uint64, mode uint64, cfg uint64) string {
	type fr struct {
		key, ver int16
		corr     int32
		expects  bool
	}
	const clientID = "verif-c11p"
	rng := &protocol.VerifRng{S: seed}
	var frames []fr
	var stream []byte
	var bounds []int
	corr := int32(1000)
	var prodVers []int16
	for _, e := range generateApiVersions() {
		if e.ApiKey == protocol.APIKeyProduce && e.MinVersion >= 0 {
			for v := e.MinVersion; v <= e.MaxVersion; v++ {
				prodVers = append(prodVers, v)
			}
		}
	}
	put := func(req kmsg.Request, expects bool) {
		corr++
		stream = append(stream, kmsg.NewRequestFormatter(kmsg.FormatterClientID(clientID)).AppendRequest(nil, req, corr)...)
		bounds = append(bounds, len(stream))
		frames = append(frames, fr{req.Key(), req.GetVersion(), corr, expects})
	}
	n0 := 0
	acks0 := func() {
		if len(prodVers) == 0 {
			return
		}
		variant := n0 % len(verifC11Acks0Names)
		ver := prodVers[(n0/len(verifC11Acks0Names)+n0)%len(prodVers)]
		n0++
		put(verifC11Acks0Produce(variant, ver, rng), false)
	}
	i := 0
	for _, e := range generateApiVersions() {
		if e.MinVersion < 0 {
			continue
		}
		for v := e.MinVersion; v <= e.MaxVersion; v++ {
			if i%2 == 0 || rng.Below(3) == 0 {
				acks0()
				if rng.Below(4) == 0 {
					acks0()
				}
			}
			i++
			req := protocol.VerifFillRequest(e.ApiKey, v, rng)
			verifC11Fixup(req, rng)
			put(req, true)
		}
	}
	// the connection ends with a fire-and-forget produce followed by one more ordinary request
	acks0()
	last := kmsg.NewPtrApiVersionsRequest()
	last.SetVersion(0)
	put(last, true)

	srv := &broker.Server{Handler: verifC11PipeHandler(cfg, clientID)}
	client, server := net.Pipe()
	go broker.VerifServeConn(srv, server)
	go func() {
		s, pos, i := mode, 0, 0
		for pos < len(stream) {
			n := len(stream) - pos
			switch mode {
			case 0:
			case 1:
				n = bounds[i] - pos
				i++
			default:
				s = s*6364136223846793005 + 1442695040888963407
				n = 1 + int((s>>33)%700)
				if n > len(stream)-pos {
					n = len(stream) - pos
				}
			}
			if _, err := client.Write(stream[pos : pos+n]); err != nil {
				return
			}
			pos += n
		}
	}()
	defer client.Close()
	defer server.Close()
	var reqs, got []string
	expecting := 0
	for _, f := range frames {
		e := 0
		if f.expects {
			e = 1
			expecting++
		}
		reqs = append(reqs, fmt.Sprintf("%d:%d:%d:%d", f.key, f.ver, f.corr, e))
	}
	k := 0
	for i, f := range frames {
		if !f.expects {
			continue
		}
		_ = client.SetReadDeadline(time.Now().Add(3 * time.Second))
		rf, err := protocol.ReadFrame(client)
		if err != nil {
			return fmt.Sprintf("pipe mismatch no-reply at=%d of=%d reply=%d key=%d ver=%d (%v)", i, len(frames), k, f.key, f.ver, err)
		}
		p := rf.Payload
		if len(p) < 4 || int32(binary.BigEndian.Uint32(p[:4])) != f.corr {
			whose := "nobody"
			if len(p) >= 4 {
				c := int32(binary.BigEndian.Uint32(p[:4]))
				for _, g := range frames {
					if g.corr == c {
						whose = fmt.Sprintf("request-key=%d,ver=%d,expects-reply=%v", g.key, g.ver, g.expects)
					}
				}
			}
			return fmt.Sprintf("pipe mismatch wrong-correlation-id at=%d of=%d reply=%d key=%d ver=%d reply-belongs-to=%s", i, len(frames), k, f.key, f.ver, whose)
		}
		resp := kmsg.ResponseForKey(f.key)
		resp.SetVersion(f.ver)
		off := 4
		if resp.IsFlexible() && f.key != protocol.APIKeyApiVersion {
			off = 5
		}
		if len(p) < off || resp.ReadFrom(p[off:]) != nil || !bytes.Equal(resp.AppendTo(nil), p[off:]) {
			return fmt.Sprintf("pipe mismatch reply-not-decodable at=%d of=%d reply=%d key=%d ver=%d", i, len(frames), k, f.key, f.ver)
		}
		got = append(got, fmt.Sprintf("%d:%d", f.corr, off))
		k++
	}
	// nothing may follow the reply to the last reply-expecting request (an acks=0 produce is never answered)
	_ = client.SetReadDeadline(time.Now().Add(150 * time.Millisecond))
	if rf, err := protocol.ReadFrame(client); err == nil {
		c := int32(0)
		if len(rf.Payload) >= 4 {
			c = int32(binary.BigEndian.Uint32(rf.Payload[:4]))
		}
		return fmt.Sprintf("pipe mismatch unsolicited-reply at=%d of=%d reply=%d corr=%d", len(frames), len(frames), k, c)
	}
	return fmt.Sprintf("pipe ok replies=%d bytes=%d acks0=%d | reqs=%s | got=%s", expecting, len(stream), n0, strings.Join(reqs, ","), strings.Join(got, ","))
}

// verifC11Conc: GOMAXPROCS goroutines send valid generated requests of read-mostly APIs, at versions on both
// sides of the flexible boundaries, through ParseRequest and ONE shared handler (as connections of a real
// broker do); every reply must decode exactly at its own request's version and carry its own correlation id.
func verifC11Conc(seed uint64, ms int) string {
	type fr struct {
		key, ver int16
		corr     int32
		payload  []byte
	}
	rng := &protocol.VerifRng{S: seed}
	var frames []fr
	for _, e := range generateApiVersions() {
		switch e.ApiKey {
		case protocol.APIKeyApiVersion, protocol.APIKeyMetadata, protocol.APIKeyFindCoordinator, protocol.APIKeyHeartbeat,
			protocol.APIKeyListGroups, protocol.APIKeyDescribeGroups, protocol.APIKeyOffsetFetch, protocol.APIKeyDescribeConfigs,
			protocol.APIKeyListOffsets, protocol.APIKeyOffsetForLeaderEpoch:
		default:
			continue
		}
		probe := kmsg.RequestForKey(e.ApiKey)
		for v := int16(0); v <= probe.MaxVersion() && v <= e.MaxVersion+1; v++ {
			if e.ApiKey == protocol.APIKeyListOffsets && v > e.MaxVersion {
				continue
			}
			for rep := 0; rep < 2; rep++ {
				req := protocol.VerifFillRequest(e.ApiKey, v, rng)
				verifC11Fixup(req, rng)
				if m, ok := req.(*kmsg.MetadataRequest); ok {
					m.Topics = nil // all topics; no auto-creation
				}
				if l, ok := req.(*kmsg.ListOffsetsRequest); ok {
					for i := range l.Topics {
						for j := range l.Topics[i].Partitions {
							l.Topics[i].Partitions[j].Timestamp = -1
						}
					}
				}
				corr := int32(rng.Next())
				frame := kmsg.NewRequestFormatter(kmsg.FormatterClientID("verif-c11c")).AppendRequest(nil, req, corr)
				frames = append(frames, fr{e.ApiKey, v, corr, frame[4:]})
			}
		}
	}
	byKey := map[int16][]fr{}
	var keysInOrder []int16
	for _, f := range frames {
		if _, ok := byKey[f.key]; !ok {
			keysInOrder = append(keysInOrder, f.key)
		}
		byKey[f.key] = append(byKey[f.key], f)
	}
	start := time.Now()
	h := verifC11Handler()
	var stop atomic.Bool
	var done atomic.Int64
	var mu sync.Mutex
	first := ""
	report := func(what string, f fr) {
		mu.Lock()
		if first == "" {
			first = fmt.Sprintf("conc mismatch %s key=%d ver=%d corr=%d", what, f.key, f.ver, f.corr)
		}
		mu.Unlock()
		stop.Store(true)
	}
	deadline := time.Now().Add(time.Duration(ms) * time.Millisecond)
	n := runtime.GOMAXPROCS(0)
	if n < 2 {
		n = 2
	}
	var wg sync.WaitGroup
	for g := 0; g < n; g++ {
		wg.Add(1)
		go func(g int) {
			defer wg.Done()
			defer func() {
				if r := recover(); r != nil {
					report(fmt.Sprintf("panic:%v", r), fr{})
				}
			}()
			local := &protocol.VerifRng{S: seed + uint64(g)*104729}
			for i := 0; !stop.Load(); i++ {
				if i%64 == 0 && time.Now().After(deadline) {
					return
				}
				// everybody works on the same API key for a while (rotating), at random versions of it
				cur := keysInOrder[int(time.Since(start)/(50*time.Millisecond))%len(keysInOrder)]
				fs := byKey[cur]
				f := fs[local.Below(len(fs))]
				header, parsed, err := protocol.ParseRequest(f.payload)
				if err != nil {
					report("request-parse-error", f)
					return
				}
				p, err := h.Handle(context.Background(), header, parsed)
				if err != nil {
					p = broker.VerifBuildErrorResponse(header)
				}
				if len(p) < 4 {
					report("no-reply", f)
					return
				}
				if int32(binary.BigEndian.Uint32(p[:4])) != f.corr {
					report("wrong-correlation-id", f)
					return
				}
				exact := func(off int, v int16) bool {
					resp := kmsg.ResponseForKey(f.key)
					resp.SetVersion(v)
					if len(p) < off || resp.ReadFrom(p[off:]) != nil {
						return false
					}
					return bytes.Equal(resp.AppendTo(nil), p[off:])
				}
				probe := kmsg.ResponseForKey(f.key)
				probe.SetVersion(f.ver)
				off := 4
				if probe.IsFlexible() && f.key != protocol.APIKeyApiVersion {
					off = 5
				}
				if !exact(off, f.ver) && !(f.key == protocol.APIKeyApiVersion && f.ver > 4 && exact(4, 0)) {
					report("reply-not-decodable-at-request-version", f)
					return
				}
				done.Add(1)
			}
		}(g)
	}
	wg.Wait()
	if first != "" {
		return first
	}
	return fmt.Sprintf("conc ok requests=%d goroutines=%d frames=%d", done.Load(), n, len(frames))
}

func verifC11SkipRespHeader(k, v int16, hx string) (out string) {
	defer func() {
		if r := recover(); r != nil {
			out = "srh panic"
		}
	}()
	var data []byte
	if hx != "-" {
		var err error
		if data, err = hex.DecodeString(hx); err != nil {
			return "bad-op"
		}
	}
	body, ok := protocol.SkipResponseHeader(k, v, data)
	if !ok {
		return "srh no"
	}
	if len(body) == 0 {
		return "srh ok body=-"
	}
	return "srh ok body=" + hex.EncodeToString(body)
}

func init() {
	if os.Getenv("VERIF_HARNESS") != "C11" {
		return
	}
	if len(os.Args) > 3 && os.Args[1] == "pipe" {
		seed, _ := strconv.ParseUint(os.Args[2], 10, 64)
		mode, _ := strconv.ParseUint(os.Args[3], 10, 64)
		cfg := uint64(0)
		if len(os.Args) > 4 {
			cfg, _ = strconv.ParseUint(os.Args[4], 10, 64)
		}
		fmt.Println(verifC11Pipe(seed, mode, cfg))
		os.Exit(0)
	}
	if len(os.Args) > 2 && os.Args[1] == "acks0probe" {
		cfg, _ := strconv.ParseUint(os.Args[2], 10, 64)
		fmt.Println(verifC11Acks0Probe(cfg))
		os.Exit(0)
	}
	if len(os.Args) > 3 && os.Args[1] == "conc" {
		seed, _ := strconv.ParseUint(os.Args[2], 10, 64)
		ms, _ := strconv.Atoi(os.Args[3])
		fmt.Println(verifC11Conc(seed, ms))
		os.Exit(0)
	}
	w := bufio.NewWriter(os.Stdout)
	if len(os.Args) > 1 && os.Args[1] == "tables" {
		verifC11Tables(w)
		w.Flush()
		os.Exit(0)
	}
	sc := bufio.NewScanner(os.Stdin)
	for sc.Scan() {
		f := strings.Fields(sc.Text())
		if len(f) == 0 || strings.HasPrefix(f[0], "#") {
			continue
		}
		if (f[0] == "req" && len(f) == 5) || (f[0] == "reqb" && len(f) == 6) {
			// reqb k v corr seed idx: the same generated request with boundary topic name #idx forced into Topics[0]
			k, _ := strconv.Atoi(f[1])
			v, _ := strconv.Atoi(f[2])
			c, _ := strconv.ParseInt(f[3], 10, 64)
			s, _ := strconv.ParseUint(f[4], 10, 64)
			idx := -1
			if f[0] == "reqb" {
				idx, _ = strconv.Atoi(f[5])
			}
			res := verifC11Run(int16(k), int16(v), int32(c), s, idx)
			fmt.Fprintln(w, res)
			if res == "timeout" {
				// the handler goroutine is still running (possibly spinning): do not let it disturb later ops
				w.Flush()
				os.Exit(3)
			}
		} else if f[0] == "srh" && len(f) == 4 {
			// protocol.SkipResponseHeader on arbitrary reply bytes (what the proxy does with a backend reply)
			k, _ := strconv.Atoi(f[1])
			v, _ := strconv.Atoi(f[2])
			fmt.Fprintln(w, verifC11SkipRespHeader(int16(k), int16(v), f[3]))
		} else {
			fmt.Fprintln(w, "bad-op")
		}
		w.Flush()
	}
	os.Exit(0)
}
