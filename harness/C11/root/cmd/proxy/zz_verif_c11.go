//go:build verif

package main

// C11 proxy harness (VERIF_HARNESS=C11P): dumps generateProxyApiVersions() and drives the real
// proxy.handleConnection over a net.Pipe with one generated request per op, in two situations the proxy
// answers by itself: not ready, and ready with no reachable backend.

import (
	"bufio"
	"bytes"
	"context"
	"encoding/binary"
	"fmt"
	"io"
	"log/slog"
	"net"
	"os"
	"strconv"
	"strings"
	"sync/atomic"
	"time"

	"github.com/KafScale/platform/pkg/metadata"
	"github.com/KafScale/platform/pkg/protocol"
	"github.com/twmb/franz-go/pkg/kmsg"
)

func verifC11Proxy(mode string) *proxy {
	clusterID := "c"
	meta := metadata.ClusterMetadata{
		ControllerID: 1, ClusterID: &clusterID,
		Brokers: []protocol.MetadataBroker{{NodeID: 1, Host: "127.0.0.1", Port: 1}},
		Topics: []protocol.MetadataTopic{{Topic: kmsg.StringPtr("orders"), TopicID: metadata.TopicIDForName("orders"),
			Partitions: []protocol.MetadataPartition{{Partition: 0, Leader: 1, Replicas: []int32{1}, ISR: []int32{1}}}}},
	}
	p := &proxy{
		addr: ":0", advertisedHost: "proxy.local", advertisedPort: 9092,
		store:          metadata.NewInMemoryStore(meta),
		backends:       []string{"127.0.0.1:1"}, // nothing listens on port 1: connection refused
		logger:         slog.New(slog.NewTextHandler(io.Discard, nil)),
		dialTimeout:    300 * time.Millisecond,
		cacheTTL:       time.Minute,
		apiVersions:    generateProxyApiVersions(),
		brokerAddrs:    make(map[string]string),
		topicNames:     make(map[[16]byte]string),
		backendRetries: 1,
		backendBackoff: time.Millisecond,
	}
	if mode == "nobackend" {
		atomic.StoreUint32(&p.ready, 1)
	}
	return p
}

func verifC11PRun(mode string, key, ver int16, corr int32, seed uint64) (out string) {
	defer func() {
		if r := recover(); r != nil {
			out = fmt.Sprintf("panic %v", r)
		}
	}()
	rng := &protocol.VerifRng{S: seed}
	req := protocol.VerifFillRequest(key, ver, rng)
	if req == nil {
		return "no-such-key"
	}
	if pr, ok := req.(*kmsg.ProduceRequest); ok {
		pr.Acks = 1 // acks=0 has no reply by protocol
	}
	frame := kmsg.NewRequestFormatter(kmsg.FormatterClientID("verif-c11p")).AppendRequest(nil, req, corr)
	p := verifC11Proxy(mode)
	client, server := net.Pipe()
	ctx, cancel := context.WithCancel(context.Background())
	defer cancel()
	done := make(chan string, 1)
	go func() {
		defer func() {
			if r := recover(); r != nil {
				done <- fmt.Sprintf("panic %v", r)
				return
			}
			done <- "closed"
		}()
		p.handleConnection(ctx, server)
	}()
	go func() { _, _ = client.Write(frame) }()
	_ = client.SetReadDeadline(time.Now().Add(8 * time.Second))
	rf, err := protocol.ReadFrame(client)
	client.Close()
	server.Close()
	st := <-done
	if strings.HasPrefix(st, "panic") {
		return st
	}
	if err != nil {
		return "noreply"
	}
	pl := rf.Payload
	if len(pl) < 4 {
		return "reply-too-short"
	}
	gotCorr := int32(binary.BigEndian.Uint32(pl[:4]))
	try := func(off int, v int16) (bool, bool) {
		resp := kmsg.ResponseForKey(key)
		if resp == nil || len(pl) < off {
			return false, false
		}
		resp.SetVersion(v)
		if err := resp.ReadFrom(pl[off:]); err != nil {
			return false, false
		}
		return true, bytes.Equal(resp.AppendTo(nil), pl[off:])
	}
	_, e4 := try(4, ver)
	e5 := false
	if len(pl) >= 5 && pl[4] == 0 {
		_, e5 = try(5, ver)
	}
	hdr, dec := 0, "fail"
	switch {
	case e4 && !e5:
		hdr, dec = 4, "exact"
	case e5 && !e4:
		hdr, dec = 5, "exact"
	case e4 && e5:
		dec = "ambiguous"
	}
	return fmt.Sprintf("reply hdr=%d corr=%d | decode=%s len=%d", hdr, gotCorr, dec, len(pl))
}

func init() {
	if os.Getenv("VERIF_HARNESS") != "C11P" {
		return
	}
	w := bufio.NewWriter(os.Stdout)
	if len(os.Args) > 1 && os.Args[1] == "tables" {
		for _, e := range generateProxyApiVersions() {
			fmt.Fprintf(w, "adv proxy %d %d %d\n", e.ApiKey, e.MinVersion, e.MaxVersion)
		}
		w.Flush()
		os.Exit(0)
	}
	sc := bufio.NewScanner(os.Stdin)
	for sc.Scan() {
		f := strings.Fields(sc.Text())
		if len(f) == 0 || strings.HasPrefix(f[0], "#") {
			continue
		}
		if f[0] == "preq" && len(f) == 6 {
			k, _ := strconv.Atoi(f[2])
			v, _ := strconv.Atoi(f[3])
			c, _ := strconv.ParseInt(f[4], 10, 64)
			s, _ := strconv.ParseUint(f[5], 10, 64)
			fmt.Fprintln(w, verifC11PRun(f[1], int16(k), int16(v), int32(c), s))
		} else {
			fmt.Fprintln(w, "bad-op")
		}
		w.Flush()
	}
	os.Exit(0)
}
