//go:build verif

package broker

import "github.com/KafScale/platform/pkg/protocol"

// VerifBuildErrorResponse is what Server.handleConnection writes when Handler.Handle returns an error.
func VerifBuildErrorResponse(header *protocol.RequestHeader) []byte { return buildErrorResponse(header) }
