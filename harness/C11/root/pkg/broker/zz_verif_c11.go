//go:build verif

package broker

import (
	"net"

	"github.com/KafScale/platform/pkg/protocol"
)

// VerifBuildErrorResponse is what Server.handleConnection writes when Handler.Handle returns an error.
func VerifBuildErrorResponse(header *protocol.RequestHeader) []byte { return buildErrorResponse(header) }

// VerifServeConn runs the server's real connection loop (handleConnection) on conn.
func VerifServeConn(s *Server, conn net.Conn) { s.handleConnection(conn) }
