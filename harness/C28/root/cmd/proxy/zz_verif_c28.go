//go:build verif

// C28 correspondence harness (overlaid into cmd/proxy): drives the real handleMetadata,
// handleFindCoordinator and buildNotReadyResponse with generated snapshots and request forms,
// and prints what a client decodes from the reply bytes, in the text format of
// lean/Driver/C28.lean.
//
// Sessions: `cfg` creates ONE proxy + ONE InMemoryStore; every op up to the next `cfg` runs on
// them.  `snap` = store.Update(snapshot) (the cluster metadata moves on under the proxy),
// `warm refresh` = the real refreshMetadataCache, `warm backends` = the real currentBackends,
// `resolve <id>` = the real resolveTopicID (all three call updateTopicNames on unchanged code),
// `meta`/`par` = handleMetadata.  A reply must be a function of the snapshot in force, not of
// anything the proxy cached earlier.
package main

import (
	"bufio"
	"context"
	"encoding/binary"
	"fmt"
	"io"
	"log/slog"
	"os"
	"strconv"
	"strings"
	"sync"
	"time"

	"github.com/KafScale/platform/pkg/metadata"
	"github.com/KafScale/platform/pkg/protocol"
	"github.com/twmb/franz-go/pkg/kmsg"
)

func init() {
	if os.Getenv("VERIF_HARNESS") == "C28" {
		c28Main()
		os.Exit(0)
	}
}

func c28EncS(s string) string {
	if s == "" {
		return "^"
	}
	return s
}
func c28DecS(s string) string {
	if s == "^" {
		return ""
	}
	return s
}
func c28EncO(s *string) string {
	if s == nil {
		return "~"
	}
	return c28EncS(*s)
}
func c28DecO(s string) *string {
	if s == "~" {
		return nil
	}
	v := c28DecS(s)
	return &v
}
func c28Ints(s string) []int32 {
	if s == "-" {
		return nil
	}
	var out []int32
	for _, f := range strings.Split(s, "+") {
		n, _ := strconv.ParseInt(f, 10, 32)
		out = append(out, int32(n))
	}
	return out
}
func c28ShowInts(l []int32) string {
	if len(l) == 0 {
		return "-"
	}
	fs := make([]string, len(l))
	for i, x := range l {
		fs[i] = strconv.Itoa(int(x))
	}
	return strings.Join(fs, "+")
}
// topic id text: decimal n = UUID with n in the low 8 bytes; "#name" = metadata.TopicIDForName(name)
var c28Names = map[[16]byte]string{}
var c28NamesMu sync.Mutex

func c28Remember(id [16]byte, name string) {
	c28NamesMu.Lock()
	c28Names[id] = name
	c28NamesMu.Unlock()
}

func c28ID(s string) [16]byte {
	var id [16]byte
	if strings.HasPrefix(s, "#") {
		name := c28DecS(s[1:])
		id = metadata.TopicIDForName(name)
		c28Remember(id, name)
		return id
	}
	binary.BigEndian.PutUint64(id[8:], uint64(c28Atoi(s)))
	return id
}
func c28ShowID(id [16]byte) string {
	if binary.BigEndian.Uint64(id[:8]) != 0 {
		c28NamesMu.Lock()
		n, ok := c28Names[id]
		c28NamesMu.Unlock()
		if ok {
			return "#" + c28EncS(n)
		}
		return fmt.Sprintf("x%x", id)
	}
	return strconv.FormatUint(binary.BigEndian.Uint64(id[8:]), 10)
}
func c28KV(ws []string, k string) (string, bool) {
	for _, w := range ws {
		if strings.HasPrefix(w, k+"=") {
			return w[len(k)+1:], true
		}
	}
	return "", false
}
func c28Atoi(s string) int64 { n, _ := strconv.ParseInt(s, 10, 64); return n }

func c28ParseMeta(ws []string) (metadata.ClusterMetadata, bool) {
	var m metadata.ClusterMetadata
	b, ok1 := c28KV(ws, "brokers")
	c, ok2 := c28KV(ws, "ctrl")
	cl, ok3 := c28KV(ws, "cluster")
	t, ok4 := c28KV(ws, "topics")
	if !(ok1 && ok2 && ok3 && ok4) {
		return m, false
	}
	m.ControllerID = int32(c28Atoi(c))
	m.ClusterID = c28DecO(cl)
	if b != "-" {
		for _, bs := range strings.Split(b, ",") {
			f := strings.Split(bs, ":")
			if len(f) != 3 {
				return m, false
			}
			m.Brokers = append(m.Brokers, protocol.MetadataBroker{NodeID: int32(c28Atoi(f[0])), Host: c28DecS(f[1]), Port: int32(c28Atoi(f[2]))})
		}
	}
	if t != "-" {
		for _, ts := range strings.Split(t, ";") {
			f := strings.Split(ts, "|")
			if len(f) != 5 {
				return m, false
			}
			mt := protocol.MetadataTopic{Topic: c28DecO(f[0]), TopicID: c28ID(f[1]), ErrorCode: int16(c28Atoi(f[2])), IsInternal: f[3] == "1"}
			if f[4] != "-" {
				for _, ps := range strings.Split(f[4], ",") {
					g := strings.Split(ps, ":")
					if len(g) != 7 {
						return m, false
					}
					mt.Partitions = append(mt.Partitions, protocol.MetadataPartition{
						Partition: int32(c28Atoi(g[0])), ErrorCode: int16(c28Atoi(g[1])), Leader: int32(c28Atoi(g[2])),
						LeaderEpoch: int32(c28Atoi(g[3])), Replicas: c28Ints(g[4]), ISR: c28Ints(g[5]), OfflineReplicas: c28Ints(g[6]),
					})
				}
			}
			if mt.Topic != nil {
				c28Remember(metadata.TopicIDForName(*mt.Topic), *mt.Topic)
			}
			m.Topics = append(m.Topics, mt)
		}
	}
	return m, true
}

func c28ShowResp(r *kmsg.MetadataResponse) string {
	bs := []string{}
	for _, b := range r.Brokers {
		bs = append(bs, fmt.Sprintf("%d:%s:%d", b.NodeID, c28EncS(b.Host), b.Port))
	}
	ts := []string{}
	for _, t := range r.Topics {
		ps := []string{}
		for _, p := range t.Partitions {
			ps = append(ps, fmt.Sprintf("%d:%d:%d:%d:%s:%s:%s", p.Partition, p.ErrorCode, p.Leader, p.LeaderEpoch,
				c28ShowInts(p.Replicas), c28ShowInts(p.ISR), c28ShowInts(p.OfflineReplicas)))
		}
		pp := "-"
		if len(ps) > 0 {
			pp = strings.Join(ps, ",")
		}
		in := 0
		if t.IsInternal {
			in = 1
		}
		ts = append(ts, fmt.Sprintf("%s|%s|%d|%d|%s", c28EncO(t.Topic), c28ShowID(t.TopicID), t.ErrorCode, in, pp))
	}
	b, t := "-", "-"
	if len(bs) > 0 {
		b = strings.Join(bs, ",")
	}
	if len(ts) > 0 {
		t = strings.Join(ts, ";")
	}
	return fmt.Sprintf("meta brokers=%s ctrl=%d cluster=%s topics=%s", b, r.ControllerID, c28EncO(r.ClusterID), t)
}

func c28Req(v int16, spec string) (*kmsg.MetadataRequest, bool) {
	req := kmsg.NewPtrMetadataRequest()
	req.Version = v
	switch spec {
	case "all":
		req.Topics = nil
	case "empty":
		req.Topics = []kmsg.MetadataRequestTopic{}
	default:
		for _, r := range strings.Split(spec, ",") {
			f := strings.Split(r, "@")
			if len(f) != 2 {
				return nil, false
			}
			rt := kmsg.NewMetadataRequestTopic()
			rt.Topic = c28DecO(f[0])
			rt.TopicID = c28ID(f[1])
			req.Topics = append(req.Topics, rt)
		}
	}
	return req, true
}

func c28Encode(req kmsg.Request) []byte {
	formatter := kmsg.NewRequestFormatter(kmsg.FormatterClientID("verif"))
	b := formatter.AppendRequest(nil, req, 77)
	return b[4:]
}

func c28DecodeMeta(v int16, data []byte) (string, bool) {
	body, ok := protocol.SkipResponseHeader(protocol.APIKeyMetadata, v, data)
	if !ok {
		return "undecodable", false
	}
	resp := kmsg.NewPtrMetadataResponse()
	resp.SetVersion(v)
	if err := resp.ReadFrom(body); err != nil {
		return "undecodable", false
	}
	return c28ShowResp(resp), true
}

func c28DecodeCoord(v int16, data []byte) string {
	body, ok := protocol.SkipResponseHeader(protocol.APIKeyFindCoordinator, v, data)
	if !ok {
		return "undecodable"
	}
	resp := kmsg.NewPtrFindCoordinatorResponse()
	resp.SetVersion(v)
	if err := resp.ReadFrom(body); err != nil {
		return "undecodable"
	}
	return fmt.Sprintf("coord err=%d node=%d host=%s port=%d", resp.ErrorCode, resp.NodeID, c28EncS(resp.Host), resp.Port)
}

// c28Gate wraps the real store: while a `par` op runs, every store.Metadata call is held open
// until `need` calls are in flight (or the harness releases the gate after a grace period), so
// that the k Metadata requests of the op genuinely overlap inside handleMetadata.
type c28Gate struct {
	metadata.Store
	mu       sync.Mutex
	need     int
	arrived  int
	released chan struct{}
}

func (g *c28Gate) arm(need int) {
	g.mu.Lock()
	g.need, g.arrived, g.released = need, 0, make(chan struct{})
	g.mu.Unlock()
}
func (g *c28Gate) release() {
	g.mu.Lock()
	if g.released != nil {
		select {
		case <-g.released:
		default:
			close(g.released)
		}
	}
	g.need = 0
	g.mu.Unlock()
}
func (g *c28Gate) arrivals() int { g.mu.Lock(); defer g.mu.Unlock(); return g.arrived }
func (g *c28Gate) Metadata(ctx context.Context, topics []string) (*metadata.ClusterMetadata, error) {
	g.mu.Lock()
	var wait chan struct{}
	if g.need > 0 {
		g.arrived++
		if g.arrived >= g.need {
			close(g.released)
			g.need = 0
		} else {
			wait = g.released
		}
	}
	g.mu.Unlock()
	if wait != nil {
		<-wait
	}
	return g.Store.Metadata(ctx, topics)
}

// c28One runs one Metadata request through the real handleMetadata and decodes the reply.
func c28One(ctx context.Context, p *proxy, v int16, spec string) (res string) {
	defer func() {
		if r := recover(); r != nil {
			res = "panic"
		}
	}()
	req, ok := c28Req(v, spec)
	if !ok {
		return "bad-op"
	}
	payload := c28Encode(req)
	header, _, err := protocol.ParseRequestHeader(payload)
	if err != nil {
		return "bad-op"
	}
	resp, err := p.handleMetadata(ctx, header, payload)
	if err != nil {
		return "err"
	}
	s, _ := c28DecodeMeta(v, resp)
	return s
}

func c28Main() {
	w := bufio.NewWriter(os.Stdout)
	defer w.Flush()
	// ONE proxy (and one store) per session: `cfg` starts a session, every following op up to the
	// next `cfg` runs on the same *proxy, so whatever the proxy keeps between requests (topic-name
	// cache, broker-address cache, in-flight table, ...) is carried from op to op.
	var p *proxy
	var mem *metadata.InMemoryStore
	var gate *c28Gate
	newProxy := func(host string, port int32) {
		p = &proxy{
			logger:         slog.New(slog.NewTextHandler(io.Discard, nil)),
			brokerAddrs:    make(map[string]string),
			topicNames:     make(map[[16]byte]string),
			advertisedHost: host,
			advertisedPort: port,
			cacheTTL:       time.Minute,
		}
		mem = metadata.NewInMemoryStore(metadata.ClusterMetadata{})
		gate = &c28Gate{Store: mem}
		p.store = gate
	}
	newProxy("", 0)
	ctx := context.Background()
	sc := bufio.NewScanner(os.Stdin)
	sc.Buffer(make([]byte, 1<<20), 1<<26)
	for sc.Scan() {
		f := strings.Fields(sc.Text())
		if len(f) == 0 || strings.HasPrefix(f[0], "#") {
			continue
		}
		out := func() (res string) {
			defer func() {
				if r := recover(); r != nil {
					res = "panic"
				}
			}()
			switch {
			case f[0] == "cfg" && len(f) == 3:
				newProxy(c28DecS(f[1]), int32(c28Atoi(f[2])))
				return "ok"
			case f[0] == "snap":
				// the cluster metadata changes under the running proxy (what the etcd watch does:
				// InMemoryStore.Update with the new snapshot)
				m, ok := c28ParseMeta(f[1:])
				if !ok {
					return "bad-op"
				}
				mem.Update(m)
				return "ok"
			case f[0] == "warm" && len(f) == 2:
				// the real cache refreshes of the proxy (10 s loop / start-up / backend selection)
				switch f[1] {
				case "refresh":
					p.refreshMetadataCache(ctx)
				case "backends":
					if _, err := p.currentBackends(ctx); err != nil {
						return "err"
					}
				default:
					return "bad-op"
				}
				return "ok"
			case f[0] == "resolve" && len(f) == 2:
				// Fetch/Produce by topic id: resolveTopicID refreshes the caches on a miss
				_ = p.resolveTopicID(ctx, c28ID(f[1]))
				return "ok"
			case f[0] == "conn":
				// one client connection through the real handleConnection loop (zz_verif_c28conn.go)
				return c28Conn(p, f)
			case f[0] == "par" && len(f) >= 2:
				// par v:req v:req ...   k overlapping Metadata requests; request 0 is started first and is
				// inside store.Metadata (held by the gate) when the others arrive.
				k := len(f) - 1
				outs := make([]string, k)
				gate.arm(k)
				var wg sync.WaitGroup
				run := func(i int) {
					defer wg.Done()
					it := strings.SplitN(f[i+1], ":", 2)
					if len(it) != 2 {
						outs[i] = "bad-op"
						return
					}
					outs[i] = c28One(ctx, p, int16(c28Atoi(it[0])), it[1])
				}
				wg.Add(1)
				go run(0)
				for t0 := time.Now(); gate.arrivals() < 1 && time.Since(t0) < time.Second; {
					time.Sleep(50 * time.Microsecond)
				}
				for i := 1; i < k; i++ {
					wg.Add(1)
					go run(i)
				}
				// unchanged code: all k calls reach the store and the gate opens by itself.  If some
				// request never reaches the store (it waits on another request's load), open the gate
				// after a grace period so that the run terminates.
				for t0 := time.Now(); gate.arrivals() < k && time.Since(t0) < 60*time.Millisecond; {
					time.Sleep(100 * time.Microsecond)
				}
				gate.release()
				wg.Wait()
				return "par " + strings.Join(outs, " || ")
			case (f[0] == "meta" || f[0] == "nrmeta") && len(f) == 3:
				v := int16(c28Atoi(f[1]))
				req, ok := c28Req(v, f[2])
				if !ok {
					return "bad-op"
				}
				payload := c28Encode(req)
				header, body, err := protocol.ParseRequestHeader(payload)
				if err != nil {
					return "bad-op"
				}
				var resp []byte
				if f[0] == "meta" {
					resp, err = p.handleMetadata(ctx, header, payload)
					if err != nil {
						return "err"
					}
				} else {
					var ok bool
					resp, ok, err = p.buildNotReadyResponse(header, body)
					if err != nil || !ok {
						return "err"
					}
				}
				s, _ := c28DecodeMeta(v, resp)
				return s
			case (f[0] == "coord" || f[0] == "nrcoord") && len(f) == 2:
				v := int16(c28Atoi(f[1]))
				req := kmsg.NewPtrFindCoordinatorRequest()
				req.Version = v
				req.CoordinatorKey = "group-1"
				payload := c28Encode(req)
				header, body, err := protocol.ParseRequestHeader(payload)
				if err != nil {
					return "bad-op"
				}
				var resp []byte
				if f[0] == "coord" {
					resp, err = p.handleFindCoordinator(header)
					if err != nil {
						return "err"
					}
				} else {
					var ok bool
					resp, ok, err = p.buildNotReadyResponse(header, body)
					if err != nil || !ok {
						return "err"
					}
				}
				return c28DecodeCoord(v, resp)
			}
			return "bad-op"
		}()
		fmt.Fprintln(w, out)
		w.Flush()
	}
}
