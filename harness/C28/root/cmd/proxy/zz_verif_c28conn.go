//go:build verif

// C28 connection-level stream (added after seeded change C28-r3-1 was missed): drives the REAL
// handleConnection loop of the session's proxy over a net.Pipe client connection, with scripted
// TCP backends and injected failures (serving context cancelled, store error, malformed body,
// backend link killed, proxy not ready).
//
//	conn mode=static|store live=<n> dead=<n> cached=0|1 <step> <step> ...
//
// steps (one token each; every REQUEST step carries correlation id 1000+index):
//
//	M/<v>/<req>   Metadata request (same request grammar as `meta`)
//	MB/<v>        Metadata request whose body is cut short (handleMetadata cannot parse it)
//	MC/<v>/<req>  Metadata request after which the client hangs up without reading (the proxy's write of
//	              the reply fails); outcome `hangup`, everything after it `closed`
//	F/<v>         FindCoordinator request
//	A             ApiVersions request
//	R/<key>/<v>   a request of the generic forward arm (ListOffsets, CreateTopics, ...): opens / uses
//	              the connection's backend link
//	G/<key>/<v>   a group request (handleGroupRouting, per-connection pool)
//	P  E          Produce / Fetch without topics (forwardProduceRaw / forwardFetchRaw)
//	X/cancel      the serving context is cancelled (shutdown begins)
//	X/cancelinstore  the serving context is cancelled inside the NEXT store.Metadata call
//	X/storefail X/storeok   store.Metadata fails / works again
//	X/notready X/ready      p.setReady
//	X/kill        the backends close every connection they hold (the link is dead, a re-dial works)
//
// The scripted backends answer Metadata / FindCoordinator with a reply naming THEMSELVES (node 7+i,
// backend-<i>.internal:9092+i, leader/replicas/ISR 7+i), every other request with corr id + "B<i>K<key>",
// and log (api key, correlation id) of every request they receive.
//
// Output: conn <outcome> ;; <outcome> ;; ... ;; log=<key:corr,...|->   (one outcome per step)
//
//	meta ... | coord ... | apiv | relay | errreply | closed | x | undecodable | timeout | wrong-correlation
package main

import (
	"context"
	"encoding/binary"
	"errors"
	"fmt"
	"net"
	"regexp"
	"strings"
	"sync"
	"sync/atomic"
	"time"

	"github.com/KafScale/platform/pkg/metadata"
	"github.com/KafScale/platform/pkg/protocol"
	"github.com/twmb/franz-go/pkg/kmsg"
)

const c28NB = 3

type c28World struct {
	mu    sync.Mutex
	live  []string
	dead  []string
	conns map[net.Conn]struct{}
	log   []string
}

var c28W *c28World

func c28WorldInit() (*c28World, error) {
	if c28W != nil {
		return c28W, nil
	}
	w := &c28World{conns: map[net.Conn]struct{}{}}
	var deadLns []net.Listener
	for i := 0; i < c28NB; i++ {
		ln, err := net.Listen("tcp", "127.0.0.1:0")
		if err != nil {
			return nil, err
		}
		w.live = append(w.live, ln.Addr().String())
		go w.serve(i, ln)
		dl, err := net.Listen("tcp", "127.0.0.1:0")
		if err != nil {
			return nil, err
		}
		w.dead = append(w.dead, dl.Addr().String())
		deadLns = append(deadLns, dl)
	}
	for _, dl := range deadLns {
		dl.Close()
	}
	c28W = w
	return w, nil
}

func (w *c28World) serve(idx int, ln net.Listener) {
	for {
		conn, err := ln.Accept()
		if err != nil {
			return
		}
		w.mu.Lock()
		w.conns[conn] = struct{}{}
		w.mu.Unlock()
		go w.conn(idx, conn)
	}
}

// killAll closes every connection the backends hold (the proxy's link and pooled connections die).
func (w *c28World) killAll() {
	w.mu.Lock()
	for c := range w.conns {
		c.Close()
		delete(w.conns, c)
	}
	w.mu.Unlock()
}

func (w *c28World) reset() {
	w.killAll()
	w.mu.Lock()
	w.log = nil
	w.mu.Unlock()
}

func c28BackendNode(idx int) int32             { return int32(7 + idx) }
func c28BackendHost(idx int) string            { return fmt.Sprintf("backend-%d.internal", idx) }
func c28BackendPort(idx int) int32             { return int32(9092 + idx) }
func c28BackendMark(idx int, key int16) string { return fmt.Sprintf("B%dK%d", idx, key) }

func (w *c28World) conn(idx int, conn net.Conn) {
	defer func() {
		conn.Close()
		w.mu.Lock()
		delete(w.conns, conn)
		w.mu.Unlock()
	}()
	for {
		frame, err := protocol.ReadFrame(conn)
		if err != nil {
			return
		}
		header, _, err := protocol.ParseRequestHeader(frame.Payload)
		if err != nil {
			w.mu.Lock()
			w.log = append(w.log, "unparsable")
			w.mu.Unlock()
			return
		}
		w.mu.Lock()
		w.log = append(w.log, fmt.Sprintf("%d:%d", header.APIKey, header.CorrelationID))
		w.mu.Unlock()
		node := c28BackendNode(idx)
		var out []byte
		switch header.APIKey {
		case protocol.APIKeyMetadata:
			m := kmsg.NewPtrMetadataResponse()
			m.Brokers = []kmsg.MetadataResponseBroker{{NodeID: node, Host: c28BackendHost(idx), Port: c28BackendPort(idx)}}
			m.ControllerID = node
			m.ClusterID = kmsg.StringPtr("backend-cluster")
			m.Topics = []kmsg.MetadataResponseTopic{{
				Topic:   kmsg.StringPtr("orders"),
				TopicID: metadata.TopicIDForName("orders"),
				Partitions: []kmsg.MetadataResponseTopicPartition{{
					Partition: 0, Leader: node, LeaderEpoch: 5, Replicas: []int32{node}, ISR: []int32{node},
				}},
			}}
			out = protocol.EncodeResponse(header.CorrelationID, header.APIVersion, m)
		case protocol.APIKeyFindCoordinator:
			f := kmsg.NewPtrFindCoordinatorResponse()
			f.NodeID = node
			f.Host = c28BackendHost(idx)
			f.Port = c28BackendPort(idx)
			out = protocol.EncodeResponse(header.CorrelationID, header.APIVersion, f)
		default:
			out = make([]byte, 4)
			binary.BigEndian.PutUint32(out, uint32(header.CorrelationID))
			out = append(out, []byte(c28BackendMark(idx, header.APIKey))...)
		}
		if err := protocol.WriteFrame(conn, out); err != nil {
			return
		}
	}
}

// c28ConnStore wraps the session's store for the duration of one `conn` op: injected failure,
// cancellation of the serving context from inside a store read, and (mode=store) a broker list
// that points at the scripted backends so that connectBackend can dial what the store hands out.
type c28ConnStore struct {
	metadata.Store
	mu           sync.Mutex
	fail         bool
	cancelOnCall context.CancelFunc
	brokers      []protocol.MetadataBroker
}

func (s *c28ConnStore) Metadata(ctx context.Context, topics []string) (*metadata.ClusterMetadata, error) {
	s.mu.Lock()
	fail, c := s.fail, s.cancelOnCall
	s.cancelOnCall = nil
	s.mu.Unlock()
	if c != nil {
		c()
	}
	if fail {
		return nil, errors.New("verif: injected metadata store error")
	}
	m, err := s.Store.Metadata(ctx, topics)
	if err == nil && m != nil && s.brokers != nil {
		m.Brokers = append([]protocol.MetadataBroker(nil), s.brokers...)
	}
	return m, err
}

func c28EncodeCorr(req kmsg.Request, corr int32) []byte {
	formatter := kmsg.NewRequestFormatter(kmsg.FormatterClientID("verif"))
	return formatter.AppendRequest(nil, req, corr)[4:]
}

// c28CutMetadata: a Metadata request with a valid header whose body announces topics that do not follow.
func c28CutMetadata(v int16, corr int32) ([]byte, bool) {
	req := kmsg.NewPtrMetadataRequest()
	req.Version = v
	req.Topics = []kmsg.MetadataRequestTopic{}
	full := c28EncodeCorr(req, corr)
	_, body, err := protocol.ParseRequestHeader(full)
	if err != nil {
		return nil, false
	}
	head := full[:len(full)-len(body)]
	var cut []byte
	if v >= 9 {
		cut = append(append([]byte(nil), head...), 0x06) // compact array of 5, nothing follows
	} else {
		cut = append(append([]byte(nil), head...), 0x00, 0x00, 0x00, 0x05)
	}
	if _, _, err := protocol.ParseRequest(cut); err == nil {
		return nil, false
	}
	return cut, true
}

var c28MarkRe = regexp.MustCompile(`^B[0-9]+K(-?[0-9]+)$`)

// c28Conn runs one client connection against the session's proxy.
func c28Conn(p *proxy, f []string) string {
	w, err := c28WorldInit()
	if err != nil {
		return "listen-failed"
	}
	mode, ok1 := c28KV(f, "mode")
	liveS, ok2 := c28KV(f, "live")
	deadS, ok3 := c28KV(f, "dead")
	cachedS, ok4 := c28KV(f, "cached")
	if !(ok1 && ok2 && ok3 && ok4) || (mode != "static" && mode != "store") {
		return "bad-op"
	}
	nl, nd := int(c28Atoi(liveS)), int(c28Atoi(deadS))
	if nl < 0 || nl > c28NB || nd < 0 || nd > c28NB || nl+nd == 0 {
		return "bad-op"
	}
	if len(f) < 6 {
		return "bad-op"
	}
	steps := f[5:] // conn mode= live= dead= cached= <steps>
	// address list: dead and live addresses interleaved (dead first, so a dial has to walk past them)
	var addrs []string
	var brokers []protocol.MetadataBroker
	for i := 0; i < c28NB; i++ {
		if i < nd {
			addrs = append(addrs, w.dead[i])
		}
		if i < nl {
			addrs = append(addrs, w.live[i])
		}
	}
	for i, a := range addrs {
		host, portS, _ := net.SplitHostPort(a)
		brokers = append(brokers, protocol.MetadataBroker{NodeID: int32(100 + i), Host: host, Port: int32(c28Atoi(portS))})
	}
	w.reset()

	// the session's proxy, prepared for serving connections; everything is put back afterwards
	savedStore, savedBackends := p.store, p.backends
	cs := &c28ConnStore{Store: savedStore}
	p.store = cs
	p.dialTimeout = 2 * time.Second
	p.backendRetries = 1
	p.backendBackoff = time.Millisecond
	p.cacheTTL = time.Minute
	if p.apiVersions == nil {
		p.apiVersions = generateProxyApiVersions()
	}
	p.backends = nil
	if mode == "static" {
		p.backends = addrs
	} else {
		cs.brokers = brokers
	}
	p.cacheMu.Lock()
	p.cachedBackends = nil
	p.cacheMu.Unlock()
	atomic.StoreInt64(&p.lastHealthy, 0)
	if cachedS == "1" {
		p.setCachedBackends(addrs)
		p.touchHealthy()
	}
	savedReady := p.isReady()
	p.setReady(true)
	defer func() {
		p.store, p.backends = savedStore, savedBackends
		p.cacheMu.Lock()
		p.cachedBackends = nil
		p.cacheMu.Unlock()
		atomic.StoreInt64(&p.lastHealthy, 0)
		p.setReady(savedReady)
	}()

	ctx, cancel := context.WithCancel(context.Background())
	defer cancel()
	client, server := net.Pipe()
	done := make(chan struct{})
	go func() {
		defer close(done)
		defer func() { _ = recover() }()
		p.handleConnection(ctx, server)
	}()
	defer func() {
		client.Close()
		select {
		case <-done:
		case <-time.After(3 * time.Second):
		}
		w.killAll()
	}()

	exchange := func(payload []byte, corr int32) ([]byte, string) {
		_ = client.SetDeadline(time.Now().Add(5 * time.Second))
		if err := protocol.WriteFrame(client, payload); err != nil {
			if ne, ok := err.(net.Error); ok && ne.Timeout() {
				return nil, "timeout"
			}
			return nil, "closed"
		}
		frame, err := protocol.ReadFrame(client)
		if err != nil {
			var ne net.Error
			if errors.As(err, &ne) && ne.Timeout() {
				return nil, "timeout"
			}
			return nil, "closed"
		}
		if len(frame.Payload) < 4 || int32(binary.BigEndian.Uint32(frame.Payload)) != corr {
			return nil, "wrong-correlation"
		}
		return frame.Payload, ""
	}
	relayOutcome := func(key int16, payload []byte) string {
		m := c28MarkRe.FindStringSubmatch(string(payload[4:]))
		if m == nil {
			return "errreply"
		}
		if c28Atoi(m[1]) != int64(key) {
			return "relay-of-other-request"
		}
		return "relay"
	}

	outs := make([]string, len(steps))
	for i, st := range steps {
		corr := int32(1000 + i)
		g := strings.Split(st, "/")
		outs[i] = func() (res string) {
			defer func() {
				if r := recover(); r != nil {
					res = "panic"
				}
			}()
			switch {
			case g[0] == "X" && len(g) == 2:
				switch g[1] {
				case "cancel":
					cancel()
				case "cancelinstore":
					cs.mu.Lock()
					cs.cancelOnCall = cancel
					cs.mu.Unlock()
				case "storefail", "storeok":
					cs.mu.Lock()
					cs.fail = g[1] == "storefail"
					cs.mu.Unlock()
				case "notready", "ready":
					p.setReady(g[1] == "ready")
				case "kill":
					w.killAll()
				default:
					return "bad-op"
				}
				return "x"
			case g[0] == "M" && len(g) == 3:
				v := int16(c28Atoi(g[1]))
				req, ok := c28Req(v, g[2])
				if !ok {
					return "bad-op"
				}
				payload, why := exchange(c28EncodeCorr(req, corr), corr)
				if why != "" {
					return why
				}
				s, _ := c28DecodeMeta(v, payload)
				return s
			case g[0] == "MC" && len(g) == 3:
				v := int16(c28Atoi(g[1]))
				req, ok := c28Req(v, g[2])
				if !ok {
					return "bad-op"
				}
				// net.Pipe: the write returns once the proxy has read the request; nobody reads the reply,
				// so the proxy's WriteFrame blocks until the client end is closed and then fails
				_ = client.SetDeadline(time.Now().Add(5 * time.Second))
				if err := protocol.WriteFrame(client, c28EncodeCorr(req, corr)); err != nil {
					return "closed"
				}
				client.Close()
				return "hangup"
			case g[0] == "MB" && len(g) == 2:
				v := int16(c28Atoi(g[1]))
				cut, ok := c28CutMetadata(v, corr)
				if !ok {
					return "bad-op"
				}
				payload, why := exchange(cut, corr)
				if why != "" {
					return why
				}
				s, _ := c28DecodeMeta(v, payload)
				return s
			case g[0] == "F" && len(g) == 2:
				v := int16(c28Atoi(g[1]))
				req := kmsg.NewPtrFindCoordinatorRequest()
				req.Version = v
				req.CoordinatorKey = "group-1"
				payload, why := exchange(c28EncodeCorr(req, corr), corr)
				if why != "" {
					return why
				}
				return c28DecodeCoord(v, payload)
			case g[0] == "A" && len(g) == 1:
				req := kmsg.NewPtrApiVersionsRequest()
				req.Version = 0
				payload, why := exchange(c28EncodeCorr(req, corr), corr)
				if why != "" {
					return why
				}
				resp := kmsg.NewPtrApiVersionsResponse()
				resp.SetVersion(0)
				if err := resp.ReadFrom(payload[4:]); err != nil || resp.ErrorCode != 0 || len(resp.ApiKeys) == 0 {
					return "undecodable"
				}
				return "apiv"
			case (g[0] == "R" || g[0] == "G") && len(g) == 3:
				key, v := int16(c28Atoi(g[1])), int16(c28Atoi(g[2]))
				req := kmsg.RequestForKey(key)
				if req == nil {
					return "bad-op"
				}
				req.SetVersion(v)
				payload, why := exchange(c28EncodeCorr(req, corr), corr)
				if why != "" {
					return why
				}
				return relayOutcome(key, payload)
			case (g[0] == "P" || g[0] == "E") && len(g) == 1:
				var req kmsg.Request
				key := int16(protocol.APIKeyProduce)
				if g[0] == "P" {
					pr := kmsg.NewPtrProduceRequest()
					pr.Version = 3
					pr.Acks = -1
					pr.TimeoutMillis = 1000
					req = pr
				} else {
					fr := kmsg.NewPtrFetchRequest()
					fr.Version = 4
					fr.MaxWaitMillis = 10
					req = fr
					key = protocol.APIKeyFetch
				}
				payload, why := exchange(c28EncodeCorr(req, corr), corr)
				if why != "" {
					return why
				}
				return relayOutcome(key, payload)
			}
			return "bad-op"
		}()
	}
	client.Close()
	select {
	case <-done:
	case <-time.After(3 * time.Second):
		outs = append(outs, "proxy-goroutine-stuck")
	}
	w.mu.Lock()
	logS := "-"
	if len(w.log) > 0 {
		logS = strings.Join(w.log, ",")
	}
	w.mu.Unlock()
	return "conn " + strings.Join(append(outs, "log="+logS), " ;; ")
}
