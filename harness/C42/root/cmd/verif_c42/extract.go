//go:build verif

package main

import (
	"bytes"
	"fmt"
	"go/ast"
	"go/parser"
	"go/printer"
	"go/token"
	"os"
	"path/filepath"
	"sort"
	"strconv"
	"strings"
)

type irStmt struct {
	depth int
	kind  string // assign mapSet initIfNil defaultIfZero setOwnerRef local guard else ret other
	path  string
	text  string
}

type extractor struct {
	fset      *token.FileSet
	funcs     map[string]*ast.FuncDecl // by bare name (methods too; collisions keep all)
	funcsAll  map[string][]*ast.FuncDecl
	mapFields map[string]bool
	mapFuncs  map[string]bool // package funcs returning a map
	files     []*ast.File
}

// ---- names of owned objects ------------------------------------------------------------------
// The Name expression of every object handed to CreateOrUpdate is resolved to the form
// `<cluster>.Name ++ "<literal suffix>"` (fmt.Sprintf("%s-suffix", cluster.Name), cluster.Name + "-suffix",
// a one-line helper returning such an expression, or a field of a struct parameter whose value is
// given at every call site of the enclosing function by such an expression).  Anything else — a helper
// that cuts, trims, hashes or otherwise computes the name — is form `other`.
type nameForm struct{ form, suffix, text string }

func paramIndex(fd *ast.FuncDecl, name string) (int, string) {
	i := 0
	for _, f := range fd.Type.Params.List {
		for _, n := range f.Names {
			if n.Name == name {
				var b bytes.Buffer
				_ = printer.Fprint(&b, token.NewFileSet(), f.Type)
				return i, b.String()
			}
			i++
		}
		if len(f.Names) == 0 {
			i++
		}
	}
	return -1, ""
}

func (x *extractor) isClusterName(e ast.Expr, fd *ast.FuncDecl) bool {
	sel, ok := e.(*ast.SelectorExpr)
	if !ok || sel.Sel.Name != "Name" {
		return false
	}
	id, ok := sel.X.(*ast.Ident)
	if !ok {
		return false
	}
	i, typ := paramIndex(fd, id.Name)
	return i >= 0 && strings.Contains(typ, "KafscaleCluster")
}

func strLit(e ast.Expr) (string, bool) {
	if l, ok := e.(*ast.BasicLit); ok && l.Kind == token.STRING {
		if v, err := strconv.Unquote(l.Value); err == nil {
			return v, true
		}
	}
	return "", false
}

func (x *extractor) enclosing(pos token.Pos) *ast.FuncDecl {
	for _, f := range x.files {
		for _, d := range f.Decls {
			if fd, ok := d.(*ast.FuncDecl); ok && fd.Body != nil && fd.Pos() <= pos && pos <= fd.End() {
				return fd
			}
		}
	}
	return nil
}

func (x *extractor) resolveName(e ast.Expr, fd *ast.FuncDecl, depth int) []nameForm {
	other := []nameForm{{"other", "", x.text(e)}}
	if depth > 4 || e == nil || fd == nil {
		return other
	}
	switch v := e.(type) {
	case *ast.ParenExpr:
		return x.resolveName(v.X, fd, depth)
	case *ast.BinaryExpr:
		if v.Op == token.ADD && x.isClusterName(v.X, fd) {
			if s, ok := strLit(v.Y); ok {
				return []nameForm{{"concat", s, x.text(e)}}
			}
		}
	case *ast.CallExpr:
		if sel, ok := v.Fun.(*ast.SelectorExpr); ok {
			if id, ok := sel.X.(*ast.Ident); ok && id.Name == "fmt" && sel.Sel.Name == "Sprintf" && len(v.Args) == 2 {
				if f, ok := strLit(v.Args[0]); ok && strings.HasPrefix(f, "%s") && !strings.Contains(f[2:], "%") && x.isClusterName(v.Args[1], fd) {
					return []nameForm{{"concat", f[2:], x.text(e)}}
				}
			}
			return other
		}
		if id, ok := v.Fun.(*ast.Ident); ok && len(x.funcsAll[id.Name]) == 1 {
			h := x.funcsAll[id.Name][0]
			// a one-line helper over the cluster: `func h(cluster *KafscaleCluster) string { return <expr> }`
			if h.Recv == nil && h.Body != nil && len(h.Body.List) == 1 && len(v.Args) == 1 {
				if _, isId := v.Args[0].(*ast.Ident); isId {
					if _, typ := paramIndex(fd, v.Args[0].(*ast.Ident).Name); strings.Contains(typ, "KafscaleCluster") {
						if ret, ok := h.Body.List[0].(*ast.ReturnStmt); ok && len(ret.Results) == 1 {
							out := x.resolveName(ret.Results[0], h, depth+1)
							for i := range out {
								out[i].text = x.text(e) + " = " + out[i].text
							}
							return out
						}
					}
				}
			}
		}
	case *ast.SelectorExpr:
		// a field of a struct parameter: look at every call site of the enclosing function
		if id, ok := v.X.(*ast.Ident); ok {
			pi, _ := paramIndex(fd, id.Name)
			if pi < 0 {
				return other
			}
			var out []nameForm
			for _, f := range x.files {
				ast.Inspect(f, func(n ast.Node) bool {
					call, ok := n.(*ast.CallExpr)
					if !ok {
						return true
					}
					cid, ok := call.Fun.(*ast.Ident)
					if !ok || cid.Name != fd.Name.Name || fd.Recv != nil {
						return true
					}
					if pi >= len(call.Args) {
						out = append(out, nameForm{"other", "", x.text(call)})
						return true
					}
					cl, ok := call.Args[pi].(*ast.CompositeLit)
					var val ast.Expr
					if ok {
						for _, el := range cl.Elts {
							if kv, ok := el.(*ast.KeyValueExpr); ok {
								if k, ok := kv.Key.(*ast.Ident); ok && k.Name == v.Sel.Name {
									val = kv.Value
								}
							}
						}
					}
					if val == nil {
						out = append(out, nameForm{"other", "", x.text(call.Args[pi])})
						return true
					}
					out = append(out, x.resolveName(val, x.enclosing(call.Pos()), depth+1)...)
					return true
				})
			}
			if len(out) == 0 {
				return other
			}
			return out
		}
	}
	return other
}

func (x *extractor) text(n ast.Node) string {
	var b bytes.Buffer
	_ = printer.Fprint(&b, x.fset, n)
	s := strings.Join(strings.Fields(b.String()), " ")
	if len(s) > 90 {
		s = s[:90] + "…"
	}
	return s
}

func mentions(n ast.Node, name string) bool {
	found := false
	ast.Inspect(n, func(m ast.Node) bool {
		if found || m == nil {
			return false
		}
		switch v := m.(type) {
		case *ast.SelectorExpr:
			// only the operand can mention the variable, not the field name
			if mentions(v.X, name) {
				found = true
			}
			return false
		case *ast.KeyValueExpr:
			if mentions(v.Value, name) {
				found = true
			}
			if _, isIdent := v.Key.(*ast.Ident); !isIdent && mentions(v.Key, name) {
				found = true
			}
			return false
		case *ast.Ident:
			if v.Name == name {
				found = true
			}
		}
		return !found
	})
	return found
}

// objPath returns the selector path below the object variable ("Spec.Template.Labels"), or "".
func objPath(e ast.Expr, obj string) (string, bool) {
	switch v := e.(type) {
	case *ast.Ident:
		if v.Name == obj {
			return "", true
		}
	case *ast.SelectorExpr:
		if p, ok := objPath(v.X, obj); ok {
			if p == "" {
				return v.Sel.Name, true
			}
			return p + "." + v.Sel.Name, true
		}
	case *ast.ParenExpr:
		return objPath(v.X, obj)
	case *ast.StarExpr:
		return objPath(v.X, obj)
	}
	return "", false
}

func isZeroTest(cond ast.Expr, obj string) (path string, kind string, ok bool) {
	be, isBin := cond.(*ast.BinaryExpr)
	if !isBin || be.Op != token.EQL {
		return "", "", false
	}
	lhs, rhs := be.X, be.Y
	if call, isCall := lhs.(*ast.CallExpr); isCall {
		if id, isId := call.Fun.(*ast.Ident); isId && id.Name == "len" && len(call.Args) == 1 {
			if lit, isLit := rhs.(*ast.BasicLit); isLit && lit.Value == "0" {
				if p, ok := objPath(call.Args[0], obj); ok && p != "" {
					return p, "defaultIfZero", true
				}
			}
		}
		return "", "", false
	}
	p, okp := objPath(lhs, obj)
	if !okp || p == "" {
		return "", "", false
	}
	switch r := rhs.(type) {
	case *ast.Ident:
		if r.Name == "nil" {
			return p, "initIfNil", true
		}
	case *ast.BasicLit:
		if r.Value == `""` || r.Value == "0" {
			return p, "defaultIfZero", true
		}
	}
	return "", "", false
}

func (x *extractor) translate(stmts []ast.Stmt, obj string, depth int, out *[]irStmt) {
	emit := func(kind, path string, n ast.Node) {
		*out = append(*out, irStmt{depth, kind, path, x.text(n)})
	}
	for _, s := range stmts {
		switch v := s.(type) {
		case *ast.AssignStmt:
			rhsReads := false
			for _, r := range v.Rhs {
				if mentions(r, obj) {
					rhsReads = true
				}
			}
			wroteObj := false
			for _, l := range v.Lhs {
				if idx, ok := l.(*ast.IndexExpr); ok {
					if p, ok := objPath(idx.X, obj); ok && p != "" {
						wroteObj = true
						if rhsReads || mentions(idx.Index, obj) || v.Tok != token.ASSIGN {
							emit("other", p, s)
						} else {
							emit("mapSet", p+"."+strings.Trim(x.text(idx.Index), `"`), s)
						}
						continue
					}
				}
				if p, ok := objPath(l, obj); ok {
					wroteObj = true
					if p == "" || rhsReads || v.Tok != token.ASSIGN {
						emit("other", p, s)
					} else {
						emit("assign", p, s)
					}
					continue
				}
				if mentions(l, obj) {
					wroteObj = true
					emit("other", "", s)
				}
			}
			if !wroteObj {
				if rhsReads {
					emit("other", "", s) // a local derived from the object: later writes may depend on it
				} else {
					emit("local", "", s)
				}
			}
		case *ast.IfStmt:
			if v.Init != nil && mentions(v.Init, obj) {
				emit("other", "", s)
				continue
			}
			if !mentions(v.Cond, obj) {
				if v.Init != nil {
					*out = append(*out, irStmt{depth, "guard", "", x.text(v.Init) + "; " + x.text(v.Cond)})
				} else {
					emit("guard", "", v.Cond)
				}
				x.translate(v.Body.List, obj, depth+1, out)
				if v.Else != nil {
					*out = append(*out, irStmt{depth, "else", "", ""})
					switch e := v.Else.(type) {
					case *ast.BlockStmt:
						x.translate(e.List, obj, depth+1, out)
					default:
						x.translate([]ast.Stmt{e}, obj, depth+1, out)
					}
				}
				*out = append(*out, irStmt{depth, "endif", "", ""})
				continue
			}
			if p, kind, ok := isZeroTest(v.Cond, obj); ok && v.Else == nil && len(v.Body.List) == 1 {
				if as, isAs := v.Body.List[0].(*ast.AssignStmt); isAs && len(as.Lhs) == 1 && as.Tok == token.ASSIGN {
					if lp, ok := objPath(as.Lhs[0], obj); ok && lp == p && !mentions(as.Rhs[0], obj) {
						emit(kind, p, s)
						continue
					}
				}
			}
			emit("other", "", s)
		case *ast.ReturnStmt:
			if len(v.Results) == 1 {
				if call, ok := v.Results[0].(*ast.CallExpr); ok {
					if sel, ok := call.Fun.(*ast.SelectorExpr); ok && sel.Sel.Name == "SetControllerReference" && len(call.Args) == 3 {
						if p, ok := objPath(call.Args[1], obj); ok && p == "" {
							emit("setOwnerRef", "OwnerReferences", s)
							continue
						}
					}
				}
			}
			if mentions(s, obj) {
				emit("other", "", s)
			} else {
				emit("ret", "", s)
			}
		default:
			if mentions(s, obj) {
				emit("other", "", s)
			} else {
				emit("local", "", s)
			}
		}
	}
}

var impureSelectors = map[string]bool{"time.Now": true, "time.Since": true, "time.Until": true, "os.Hostname": true,
	"os.Getpid": true, "uuid.New": true, "uuid.NewString": true, "uuid.NewUUID": true}

func (x *extractor) impurities(root ast.Node) []string {
	var found []string
	seen := map[*ast.FuncDecl]bool{}
	var scan func(n ast.Node)
	scan = func(n ast.Node) {
		localMaps := map[string]bool{}
		ast.Inspect(n, func(m ast.Node) bool {
			switch v := m.(type) {
			case *ast.AssignStmt:
				for i, r := range v.Rhs {
					if i >= len(v.Lhs) {
						break
					}
					id, ok := v.Lhs[i].(*ast.Ident)
					if !ok {
						continue
					}
					switch rr := r.(type) {
					case *ast.CompositeLit:
						if _, ok := rr.Type.(*ast.MapType); ok {
							localMaps[id.Name] = true
						}
					case *ast.CallExpr:
						if f, ok := rr.Fun.(*ast.Ident); ok {
							if f.Name == "make" && len(rr.Args) > 0 {
								if _, ok := rr.Args[0].(*ast.MapType); ok {
									localMaps[id.Name] = true
								}
							}
							if x.mapFuncs[f.Name] {
								localMaps[id.Name] = true
							}
						}
					}
				}
			case *ast.RangeStmt:
				mapish := false
				switch r := v.X.(type) {
				case *ast.SelectorExpr:
					mapish = x.mapFields[r.Sel.Name]
				case *ast.Ident:
					mapish = localMaps[r.Name]
				case *ast.CallExpr:
					if f, ok := r.Fun.(*ast.Ident); ok && x.mapFuncs[f.Name] {
						mapish = true
					}
				}
				if mapish {
					appends, sorted := false, false
					ast.Inspect(v.Body, func(b ast.Node) bool {
						if c, ok := b.(*ast.CallExpr); ok {
							if id, ok := c.Fun.(*ast.Ident); ok && id.Name == "append" {
								appends = true
							}
						}
						return true
					})
					_ = sorted
					if appends {
						pos := x.fset.Position(v.Pos())
						found = append(found, fmt.Sprintf("map-range-append %s:%d range %s", filepath.Base(pos.Filename), pos.Line, x.text(v.X)))
					}
				}
			case *ast.CallExpr:
				switch f := v.Fun.(type) {
				case *ast.SelectorExpr:
					if id, ok := f.X.(*ast.Ident); ok {
						q := id.Name + "." + f.Sel.Name
						if impureSelectors[q] || id.Name == "rand" {
							pos := x.fset.Position(v.Pos())
							found = append(found, fmt.Sprintf("call %s %s:%d", q, filepath.Base(pos.Filename), pos.Line))
						}
					}
					for _, fd := range x.funcsAll[f.Sel.Name] {
						if fd.Recv != nil && !seen[fd] && fd.Body != nil {
							seen[fd] = true
							scan(fd.Body)
						}
					}
				case *ast.Ident:
					for _, fd := range x.funcsAll[f.Name] {
						if fd.Recv == nil && !seen[fd] && fd.Body != nil {
							seen[fd] = true
							scan(fd.Body)
						}
					}
				}
			}
			return true
		})
	}
	scan(root)
	sort.Strings(found)
	// a map range that feeds a slice is harmless when the slice is sorted afterwards in the same function;
	// that refinement is deliberately not attempted: such a loop must be reviewed and the check adjusted.
	return found
}

func extract(repo string) int {
	x := &extractor{fset: token.NewFileSet(), funcsAll: map[string][]*ast.FuncDecl{}, mapFields: map[string]bool{
		"Labels": true, "Annotations": true, "NodeSelector": true, "Requests": true, "Limits": true, "Data": true,
		"StringData": true, "MatchLabels": true}, mapFuncs: map[string]bool{}}
	filter := func(fi os.FileInfo) bool {
		return !strings.HasSuffix(fi.Name(), "_test.go") && !strings.HasPrefix(fi.Name(), "zz_verif")
	}
	var files []*ast.File
	for _, dir := range []string{"api/v1alpha1", "pkg/operator"} {
		pkgs, err := parser.ParseDir(x.fset, filepath.Join(repo, dir), filter, 0)
		if err != nil {
			fmt.Println("error", err)
			return 1
		}
		for _, p := range pkgs {
			for _, f := range p.Files {
				ast.Inspect(f, func(n ast.Node) bool {
					if st, ok := n.(*ast.StructType); ok {
						for _, fl := range st.Fields.List {
							if _, ok := fl.Type.(*ast.MapType); ok {
								for _, nm := range fl.Names {
									x.mapFields[nm.Name] = true
								}
							}
							if sel, ok := fl.Type.(*ast.SelectorExpr); ok && sel.Sel.Name == "ResourceList" {
								for _, nm := range fl.Names {
									x.mapFields[nm.Name] = true
								}
							}
						}
					}
					return true
				})
				if dir == "pkg/operator" {
					files = append(files, f)
				}
			}
		}
	}
	sort.Slice(files, func(i, j int) bool {
		return x.fset.Position(files[i].Pos()).Filename < x.fset.Position(files[j].Pos()).Filename
	})
	for _, f := range files {
		for _, d := range f.Decls {
			if fd, ok := d.(*ast.FuncDecl); ok {
				x.funcsAll[fd.Name.Name] = append(x.funcsAll[fd.Name.Name], fd)
				if fd.Recv == nil && fd.Type.Results != nil && len(fd.Type.Results.List) == 1 {
					if _, ok := fd.Type.Results.List[0].Type.(*ast.MapType); ok {
						x.mapFuncs[fd.Name.Name] = true
					}
				}
			}
		}
	}
	x.files = files
	idx := 0
	for _, f := range files {
		for _, d := range f.Decls {
			fd, ok := d.(*ast.FuncDecl)
			if !ok || fd.Body == nil {
				continue
			}
			// object variable -> (type, name expression) from `v := &pkg.Type{ObjectMeta: ...{Name: e}}`
			types := map[string][2]string{}
			nameExprs := map[string]ast.Expr{}
			ast.Inspect(fd.Body, func(n ast.Node) bool {
				as, ok := n.(*ast.AssignStmt)
				if !ok || len(as.Lhs) != 1 || len(as.Rhs) != 1 {
					return true
				}
				id, ok := as.Lhs[0].(*ast.Ident)
				if !ok {
					return true
				}
				ue, ok := as.Rhs[0].(*ast.UnaryExpr)
				if !ok {
					return true
				}
				cl, ok := ue.X.(*ast.CompositeLit)
				if !ok {
					return true
				}
				tname := x.text(cl.Type)
				if i := strings.LastIndex(tname, "."); i >= 0 {
					tname = tname[i+1:]
				}
				nameExpr := "?"
				ast.Inspect(cl, func(m ast.Node) bool {
					if kv, ok := m.(*ast.KeyValueExpr); ok {
						if k, ok := kv.Key.(*ast.Ident); ok && k.Name == "Name" && nameExpr == "?" {
							nameExpr = x.text(kv.Value)
							nameExprs[id.Name] = kv.Value
						}
					}
					return true
				})
				types[id.Name] = [2]string{tname, nameExpr}
				return true
			})
			ast.Inspect(fd.Body, func(n ast.Node) bool {
				call, ok := n.(*ast.CallExpr)
				if !ok {
					return true
				}
				sel, ok := call.Fun.(*ast.SelectorExpr)
				if !ok || sel.Sel.Name != "CreateOrUpdate" {
					return true
				}
				pos := x.fset.Position(call.Pos())
				obj, fn := "?", (*ast.FuncLit)(nil)
				if len(call.Args) == 4 {
					if id, ok := call.Args[2].(*ast.Ident); ok {
						obj = id.Name
					}
					fn, _ = call.Args[3].(*ast.FuncLit)
				}
				ti := types[obj]
				fmt.Printf("closure %d func=%s obj=%s type=%s name=%s file=%s line=%d\n", idx, fd.Name.Name, obj, ti[0],
					strconv.Quote(ti[1]), filepath.Base(pos.Filename), pos.Line)
				if fn == nil || obj == "?" {
					fmt.Printf("stmt %d 0 other - %s\n", idx, strconv.Quote("mutate function is not a literal / object is not a variable"))
				} else {
					var ir []irStmt
					x.translate(fn.Body.List, obj, 0, &ir)
					for _, s := range ir {
						p := s.path
						if p == "" {
							p = "-"
						}
						fmt.Printf("stmt %d %d %s %s %s\n", idx, s.depth, s.kind, strings.ReplaceAll(p, " ", "_"), strconv.Quote(s.text))
					}
					for _, im := range x.impurities(fn.Body) {
						fmt.Printf("impure %d %s\n", idx, strconv.Quote(im))
					}
				}
				for _, nf := range x.resolveName(nameExprs[obj], fd, 0) {
					fmt.Printf("name %d %s %s %s\n", idx, nf.form, strconv.Quote(nf.suffix), strconv.Quote(nf.text))
				}
				fmt.Printf("end %d\n", idx)
				idx++
				return true
			})
		}
	}
	fmt.Println("closures", idx)
	return 0
}
