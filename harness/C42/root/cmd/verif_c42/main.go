//go:build verif

// C42 harness.
//
//	verif_c42 extract <repo>   go/ast pass over pkg/operator: every controllerutil.CreateOrUpdate mutate
//	                           closure translated to a small IR + purity facts of the code it reaches
//	verif_c42                  one case per stdin line (`case <hex json>`): reconcile the cluster three times
//	                           against controller-runtime's fake client and once more against a fresh one,
//	                           deep-compare every owned object between rounds; every write request
//	                           (Create/Update/Patch/Delete/DeleteAllOf/Apply) is recorded per pass through a
//	                           client interceptor, resourceVersions are compared between passes, and the same
//	                           spec/env is reconciled once under the short `twin` name to compare the number
//	                           of owned objects per kind
package main

import (
	"bufio"
	"context"
	"crypto/sha256"
	"encoding/hex"
	"encoding/json"
	"fmt"
	"os"
	"sort"
	"strings"

	kafscalev1alpha1 "github.com/KafScale/platform/api/v1alpha1"
	"github.com/KafScale/platform/pkg/operator"
	appsv1 "k8s.io/api/apps/v1"
	autoscalingv2 "k8s.io/api/autoscaling/v2"
	batchv1 "k8s.io/api/batch/v1"
	apierrors "k8s.io/apimachinery/pkg/api/errors"
	corev1 "k8s.io/api/core/v1"
	policyv1 "k8s.io/api/policy/v1"
	metav1 "k8s.io/apimachinery/pkg/apis/meta/v1"
	"k8s.io/apimachinery/pkg/runtime"
	"k8s.io/apimachinery/pkg/types"
	"sigs.k8s.io/controller-runtime/pkg/client"
	"sigs.k8s.io/controller-runtime/pkg/client/fake"
	"sigs.k8s.io/controller-runtime/pkg/client/interceptor"
)

type caseIn struct {
	Twin      string                               `json:"twin"`
	Name      string                               `json:"name"`
	Namespace string                               `json:"namespace"`
	Spec      kafscalev1alpha1.KafscaleClusterSpec `json:"spec"`
	Env       map[string]string                    `json:"env"`
	Rounds    int                                  `json:"rounds"`
}

type objDump struct {
	Kind string
	Name string
	RV   string
	JSON map[string]any
}

// writeRec: one write request (Create/Update/Patch/Delete/DeleteAllOf/Apply) that reached the API
// server during one reconcile pass.  Status-subresource writes go through other client methods and
// are deliberately not counted (VerifC42ReconcileObjects issues none).
type writeRec struct {
	Op   string `json:"op"`
	Kind string `json:"kind"`
	Name string `json:"name"`
	RV0  string `json:"rv0"`
	RV1  string `json:"rv1"`
}

type recorder struct {
	s      *runtime.Scheme
	writes []writeRec
}

func (r *recorder) kind(obj client.Object) string {
	if gvks, _, err := r.s.ObjectKinds(obj); err == nil && len(gvks) > 0 {
		return gvks[0].Kind
	}
	return fmt.Sprintf("%T", obj)
}

func (r *recorder) rec(op string, obj client.Object, rv0 string, err error) {
	rv1 := obj.GetResourceVersion()
	if err != nil {
		rv1 = "err"
		if apierrors.IsNotFound(err) {
			rv1 = "notfound"
		}
	}
	r.writes = append(r.writes, writeRec{Op: op, Kind: r.kind(obj), Name: obj.GetName(), RV0: rv0, RV1: rv1})
}

func (r *recorder) funcs() interceptor.Funcs {
	return interceptor.Funcs{
		Create: func(ctx context.Context, c client.WithWatch, obj client.Object, opts ...client.CreateOption) error {
			rv0 := obj.GetResourceVersion()
			err := c.Create(ctx, obj, opts...)
			r.rec("create", obj, rv0, err)
			return err
		},
		Update: func(ctx context.Context, c client.WithWatch, obj client.Object, opts ...client.UpdateOption) error {
			rv0 := obj.GetResourceVersion()
			err := c.Update(ctx, obj, opts...)
			r.rec("update", obj, rv0, err)
			return err
		},
		Patch: func(ctx context.Context, c client.WithWatch, obj client.Object, patch client.Patch, opts ...client.PatchOption) error {
			rv0 := obj.GetResourceVersion()
			err := c.Patch(ctx, obj, patch, opts...)
			r.rec("patch", obj, rv0, err)
			return err
		},
		Delete: func(ctx context.Context, c client.WithWatch, obj client.Object, opts ...client.DeleteOption) error {
			rv0 := obj.GetResourceVersion()
			err := c.Delete(ctx, obj, opts...)
			r.rec("delete", obj, rv0, err)
			return err
		},
		DeleteAllOf: func(ctx context.Context, c client.WithWatch, obj client.Object, opts ...client.DeleteAllOfOption) error {
			err := c.DeleteAllOf(ctx, obj, opts...)
			r.rec("deleteAllOf", obj, "", err)
			return err
		},
		Apply: func(ctx context.Context, c client.WithWatch, obj runtime.ApplyConfiguration, opts ...client.ApplyOption) error {
			err := c.Apply(ctx, obj, opts...)
			r.writes = append(r.writes, writeRec{Op: "apply", Kind: fmt.Sprintf("%T", obj)})
			return err
		},
	}
}

func scheme() *runtime.Scheme {
	s := runtime.NewScheme()
	for _, add := range []func(*runtime.Scheme) error{kafscalev1alpha1.AddToScheme, appsv1.AddToScheme, corev1.AddToScheme,
		policyv1.AddToScheme, batchv1.AddToScheme, autoscalingv2.AddToScheme} {
		if err := add(s); err != nil {
			panic(err)
		}
	}
	return s
}

func strip(m map[string]any) {
	if md, ok := m["metadata"].(map[string]any); ok {
		delete(md, "resourceVersion")
		delete(md, "creationTimestamp")
		delete(md, "managedFields")
		delete(md, "generation")
	}
	delete(m, "status")
}

func dumpAll(ctx context.Context, c client.Client, ns string) ([]objDump, error) {
	var out []objDump
	add := func(kind string, items any) error {
		raw, err := json.Marshal(items)
		if err != nil {
			return err
		}
		var arr []map[string]any
		if err := json.Unmarshal(raw, &arr); err != nil {
			return err
		}
		for _, m := range arr {
			rv, _ := m["metadata"].(map[string]any)["resourceVersion"].(string)
			strip(m)
			name, _ := m["metadata"].(map[string]any)["name"].(string)
			out = append(out, objDump{Kind: kind, Name: name, RV: rv, JSON: m})
		}
		return nil
	}
	var sts appsv1.StatefulSetList
	var dep appsv1.DeploymentList
	var svc corev1.ServiceList
	var hpa autoscalingv2.HorizontalPodAutoscalerList
	var pdb policyv1.PodDisruptionBudgetList
	var cj batchv1.CronJobList
	var cm corev1.ConfigMapList
	var sec corev1.SecretList
	lists := []struct {
		kind string
		l    client.ObjectList
		get  func() any
	}{
		{"StatefulSet", &sts, func() any { return sts.Items }},
		{"Deployment", &dep, func() any { return dep.Items }},
		{"Service", &svc, func() any { return svc.Items }},
		{"HorizontalPodAutoscaler", &hpa, func() any { return hpa.Items }},
		{"PodDisruptionBudget", &pdb, func() any { return pdb.Items }},
		{"CronJob", &cj, func() any { return cj.Items }},
		{"ConfigMap", &cm, func() any { return cm.Items }},
		{"Secret", &sec, func() any { return sec.Items }},
	}
	for _, l := range lists {
		if err := c.List(ctx, l.l, client.InNamespace(ns)); err != nil {
			return nil, err
		}
		if err := add(l.kind, l.get()); err != nil {
			return nil, err
		}
	}
	sort.Slice(out, func(i, j int) bool {
		if out[i].Kind != out[j].Kind {
			return out[i].Kind < out[j].Kind
		}
		return out[i].Name < out[j].Name
	})
	return out, nil
}

func firstDiff(path string, a, b any) string {
	switch x := a.(type) {
	case map[string]any:
		y, ok := b.(map[string]any)
		if !ok {
			return path
		}
		keys := map[string]bool{}
		for k := range x {
			keys[k] = true
		}
		for k := range y {
			keys[k] = true
		}
		ks := make([]string, 0, len(keys))
		for k := range keys {
			ks = append(ks, k)
		}
		sort.Strings(ks)
		for _, k := range ks {
			xv, xo := x[k]
			yv, yo := y[k]
			if xo != yo {
				return path + "." + k
			}
			if d := firstDiff(path+"."+k, xv, yv); d != "" {
				return d
			}
		}
		return ""
	case []any:
		y, ok := b.([]any)
		if !ok || len(x) != len(y) {
			return path + "[len]"
		}
		for i := range x {
			if d := firstDiff(fmt.Sprintf("%s[%d]", path, i), x[i], y[i]); d != "" {
				return d
			}
		}
		return ""
	default:
		ra, _ := json.Marshal(a)
		rb, _ := json.Marshal(b)
		if string(ra) != string(rb) {
			return path
		}
		return ""
	}
}

func compare(a, b []objDump) string {
	if len(a) != len(b) {
		return fmt.Sprintf("diff(object-count:%d->%d)", len(a), len(b))
	}
	for i := range a {
		if a[i].Kind != b[i].Kind || a[i].Name != b[i].Name {
			return fmt.Sprintf("diff(object-set:%s/%s->%s/%s)", a[i].Kind, a[i].Name, b[i].Kind, b[i].Name)
		}
		if d := firstDiff("", a[i].JSON, b[i].JSON); d != "" {
			return fmt.Sprintf("diff(%s/%s:%s)", a[i].Kind, a[i].Name, strings.TrimPrefix(d, "."))
		}
	}
	return "same"
}

// leafPaths: the fields a reconcile set, at field granularity (arrays are leaves); a path is a list
// of segments because map keys may contain dots.
func leafPaths(prefix []string, v any, out *[][]string) {
	if m, ok := v.(map[string]any); ok && len(m) > 0 {
		keys := make([]string, 0, len(m))
		for k := range m {
			keys = append(keys, k)
		}
		sort.Strings(keys)
		for _, k := range keys {
			leafPaths(append(append([]string{}, prefix...), k), m[k], out)
		}
		return
	}
	switch x := v.(type) {
	case nil:
		return // null (e.g. an embedded creationTimestamp): not a field the reconcile set
	case map[string]any:
		if len(x) == 0 {
			return
		}
	case []any:
		if len(x) == 0 {
			return
		}
	}
	*out = append(*out, prefix)
}

var operatorEnvPrefixes = []string{"KAFSCALE_", "LFS_PROXY_", "BROKER_", "AWS_"}

func applyEnv(env map[string]string) {
	for _, kv := range os.Environ() {
		k := strings.SplitN(kv, "=", 2)[0]
		for _, p := range operatorEnvPrefixes {
			if strings.HasPrefix(k, p) {
				os.Unsetenv(k)
			}
		}
	}
	for k, v := range env {
		os.Setenv(k, v)
	}
}

func newCluster(in caseIn) *kafscalev1alpha1.KafscaleCluster {
	return &kafscalev1alpha1.KafscaleCluster{
		TypeMeta:   metav1.TypeMeta{APIVersion: kafscalev1alpha1.GroupVersion.String(), Kind: "KafscaleCluster"},
		ObjectMeta: metav1.ObjectMeta{Name: in.Name, Namespace: in.Namespace, UID: types.UID("uid-" + in.Name)},
		Spec:       in.Spec,
	}
}

// compareRV: the resourceVersion of every owned object must not move between two passes of an
// unchanged cluster (an Update that rewrites identical end-of-pass content still bumps it).
func compareRV(a, b []objDump) string {
	idx := map[string]string{}
	for _, o := range a {
		idx[o.Kind+"/"+o.Name] = o.RV
	}
	for _, o := range b {
		if rv, ok := idx[o.Kind+"/"+o.Name]; ok && rv != o.RV {
			return fmt.Sprintf("diff(%s/%s:resourceVersion %s->%s)", o.Kind, o.Name, rv, o.RV)
		}
	}
	return "same"
}

func kindCounts(d []objDump) map[string]int {
	m := map[string]int{}
	for _, o := range d {
		m[o.Kind]++
	}
	return m
}

// compareCounts: metamorphic relation — the same spec and environment under another cluster name
// must own the same number of objects of every kind.
func compareCounts(twin, own []objDump) string {
	a, b := kindCounts(twin), kindCounts(own)
	kinds := []string{}
	for k := range a {
		kinds = append(kinds, k)
	}
	for k := range b {
		if _, ok := a[k]; !ok {
			kinds = append(kinds, k)
		}
	}
	sort.Strings(kinds)
	for _, k := range kinds {
		if a[k] != b[k] {
			return fmt.Sprintf("diff(%s:count %d->%d)", k, a[k], b[k])
		}
	}
	return "same"
}

func runRounds(in caseIn, s *runtime.Scheme, rounds int) (dumps [][]objDump, writes [][]writeRec, errText string) {
	ctx := context.Background()
	cluster := newCluster(in)
	rec := &recorder{s: s}
	c := fake.NewClientBuilder().WithScheme(s).WithStatusSubresource(cluster).WithObjects(cluster).WithInterceptorFuncs(rec.funcs()).Build()
	r := &operator.ClusterReconciler{Client: c, Scheme: s, Publisher: operator.NewSnapshotPublisher(c)}
	for i := 0; i < rounds; i++ {
		rec.writes = nil
		var cur kafscalev1alpha1.KafscaleCluster
		if err := c.Get(ctx, types.NamespacedName{Name: in.Name, Namespace: in.Namespace}, &cur); err != nil {
			return dumps, writes, "get:" + err.Error()
		}
		if err := operator.VerifC42ReconcileObjects(ctx, r, &cur); err != nil {
			return dumps, writes, fmt.Sprintf("round%d:%s", i+1, err.Error())
		}
		d, err := dumpAll(ctx, c, in.Namespace)
		if err != nil {
			return dumps, writes, "dump:" + err.Error()
		}
		dumps = append(dumps, d)
		writes = append(writes, append([]writeRec{}, rec.writes...))
	}
	return dumps, writes, ""
}

func runCase(in caseIn, s *runtime.Scheme) map[string]any {
	res := map[string]any{}
	applyEnv(in.Env)
	rounds := in.Rounds
	if rounds < 2 {
		rounds = 3
	}
	a, wr, errA := runRounds(in, s, rounds)
	res["err"] = errA
	if errA != "" || len(a) < rounds {
		return res
	}
	cmp := []string{}
	for i := 1; i < len(a); i++ {
		cmp = append(cmp, compare(a[i-1], a[i]))
	}
	res["rounds"] = cmp
	// write monitor: passes 2.. of an unchanged cluster must send no write request at all, and no
	// owned object's resourceVersion may move
	rvs, repeat := []string{}, []writeRec{}
	for i := 1; i < len(a); i++ {
		rvs = append(rvs, compareRV(a[i-1], a[i]))
		for _, w := range wr[i] {
			w.Op = fmt.Sprintf("pass%d:%s", i+1, w.Op)
			repeat = append(repeat, w)
		}
	}
	res["rv"] = rvs
	res["repeat_writes"] = repeat
	res["first_pass_writes"] = len(wr[0])
	if in.Twin != "" && in.Twin != in.Name {
		tw := in
		tw.Name = in.Twin
		t, _, errT := runRounds(tw, s, 1)
		if errT != "" {
			res["twin"] = "err:" + errT
		} else {
			res["twin"] = compareCounts(t[0], a[0])
		}
	}
	b, _, errB := runRounds(in, s, 1)
	if errB != "" {
		res["err"] = "fresh:" + errB
		return res
	}
	res["fresh"] = compare(a[0], b[0])
	objs := []map[string]any{}
	h := sha256.New()
	for _, o := range a[len(a)-1] {
		var ps [][]string
		leafPaths(nil, o.JSON, &ps)
		raw, _ := json.Marshal(o.JSON)
		h.Write(raw)
		objs = append(objs, map[string]any{"kind": o.Kind, "name": strings.Replace(o.Name, in.Name, "%s", 1), "paths": ps})
	}
	res["objects"] = objs
	res["digest"] = hex.EncodeToString(h.Sum(nil))[:16]
	return res
}

func main() {
	if len(os.Args) >= 3 && os.Args[1] == "extract" {
		os.Exit(extract(os.Args[2]))
	}
	s := scheme()
	w := bufio.NewWriter(os.Stdout)
	defer w.Flush()
	sc := bufio.NewScanner(os.Stdin)
	sc.Buffer(make([]byte, 1<<20), 1<<26)
	for sc.Scan() {
		f := strings.Fields(sc.Text())
		if len(f) == 0 || strings.HasPrefix(f[0], "#") {
			continue
		}
		line := func() (out string) {
			defer func() {
				if r := recover(); r != nil {
					out = fmt.Sprintf("case {\"panic\":%q}", fmt.Sprint(r))
				}
			}()
			if f[0] != "case" || len(f) != 2 {
				return "bad-op"
			}
			raw, err := hex.DecodeString(f[1])
			if err != nil {
				return "bad-op"
			}
			var in caseIn
			if err := json.Unmarshal(raw, &in); err != nil {
				return "case {\"err\":\"bad-json\"}"
			}
			res, _ := json.Marshal(runCase(in, s))
			return "case " + string(res)
		}()
		fmt.Fprintln(w, line)
		w.Flush()
	}
}
