//go:build verif

// C42 harness.
//
//	verif_c42 extract <repo>   go/ast pass over pkg/operator: every controllerutil.CreateOrUpdate mutate
//	                           closure translated to a small IR + purity facts of the code it reaches
//	verif_c42                  one case per stdin line (`case <hex json>`): reconcile the cluster three times
//	                           against controller-runtime's fake client and once more against a fresh one,
//	                           deep-compare every owned object between rounds
package main

import (
	"bufio"
	"context"
	"crypto/sha256"
	"encoding/hex"
	"encoding/json"
	"fmt"
	"os"
	"sort"
	"strings"

	kafscalev1alpha1 "github.com/KafScale/platform/api/v1alpha1"
	"github.com/KafScale/platform/pkg/operator"
	appsv1 "k8s.io/api/apps/v1"
	autoscalingv2 "k8s.io/api/autoscaling/v2"
	batchv1 "k8s.io/api/batch/v1"
	corev1 "k8s.io/api/core/v1"
	policyv1 "k8s.io/api/policy/v1"
	metav1 "k8s.io/apimachinery/pkg/apis/meta/v1"
	"k8s.io/apimachinery/pkg/runtime"
	"k8s.io/apimachinery/pkg/types"
	"sigs.k8s.io/controller-runtime/pkg/client"
	"sigs.k8s.io/controller-runtime/pkg/client/fake"
)

type caseIn struct {
	Name      string                               `json:"name"`
	Namespace string                               `json:"namespace"`
	Spec      kafscalev1alpha1.KafscaleClusterSpec `json:"spec"`
	Env       map[string]string                    `json:"env"`
	Rounds    int                                  `json:"rounds"`
}

type objDump struct {
	Kind string
	Name string
	JSON map[string]any
}

func scheme() *runtime.Scheme {
	s := runtime.NewScheme()
	for _, add := range []func(*runtime.Scheme) error{kafscalev1alpha1.AddToScheme, appsv1.AddToScheme, corev1.AddToScheme,
		policyv1.AddToScheme, batchv1.AddToScheme, autoscalingv2.AddToScheme} {
		if err := add(s); err != nil {
			panic(err)
		}
	}
	return s
}

func strip(m map[string]any) {
	if md, ok := m["metadata"].(map[string]any); ok {
		delete(md, "resourceVersion")
		delete(md, "creationTimestamp")
		delete(md, "managedFields")
		delete(md, "generation")
	}
	delete(m, "status")
}

func dumpAll(ctx context.Context, c client.Client, ns string) ([]objDump, error) {
	var out []objDump
	add := func(kind string, items any) error {
		raw, err := json.Marshal(items)
		if err != nil {
			return err
		}
		var arr []map[string]any
		if err := json.Unmarshal(raw, &arr); err != nil {
			return err
		}
		for _, m := range arr {
			strip(m)
			name, _ := m["metadata"].(map[string]any)["name"].(string)
			out = append(out, objDump{Kind: kind, Name: name, JSON: m})
		}
		return nil
	}
	var sts appsv1.StatefulSetList
	var dep appsv1.DeploymentList
	var svc corev1.ServiceList
	var hpa autoscalingv2.HorizontalPodAutoscalerList
	var pdb policyv1.PodDisruptionBudgetList
	var cj batchv1.CronJobList
	var cm corev1.ConfigMapList
	var sec corev1.SecretList
	lists := []struct {
		kind string
		l    client.ObjectList
		get  func() any
	}{
		{"StatefulSet", &sts, func() any { return sts.Items }},
		{"Deployment", &dep, func() any { return dep.Items }},
		{"Service", &svc, func() any { return svc.Items }},
		{"HorizontalPodAutoscaler", &hpa, func() any { return hpa.Items }},
		{"PodDisruptionBudget", &pdb, func() any { return pdb.Items }},
		{"CronJob", &cj, func() any { return cj.Items }},
		{"ConfigMap", &cm, func() any { return cm.Items }},
		{"Secret", &sec, func() any { return sec.Items }},
	}
	for _, l := range lists {
		if err := c.List(ctx, l.l, client.InNamespace(ns)); err != nil {
			return nil, err
		}
		if err := add(l.kind, l.get()); err != nil {
			return nil, err
		}
	}
	sort.Slice(out, func(i, j int) bool {
		if out[i].Kind != out[j].Kind {
			return out[i].Kind < out[j].Kind
		}
		return out[i].Name < out[j].Name
	})
	return out, nil
}

func firstDiff(path string, a, b any) string {
	switch x := a.(type) {
	case map[string]any:
		y, ok := b.(map[string]any)
		if !ok {
			return path
		}
		keys := map[string]bool{}
		for k := range x {
			keys[k] = true
		}
		for k := range y {
			keys[k] = true
		}
		ks := make([]string, 0, len(keys))
		for k := range keys {
			ks = append(ks, k)
		}
		sort.Strings(ks)
		for _, k := range ks {
			xv, xo := x[k]
			yv, yo := y[k]
			if xo != yo {
				return path + "." + k
			}
			if d := firstDiff(path+"."+k, xv, yv); d != "" {
				return d
			}
		}
		return ""
	case []any:
		y, ok := b.([]any)
		if !ok || len(x) != len(y) {
			return path + "[len]"
		}
		for i := range x {
			if d := firstDiff(fmt.Sprintf("%s[%d]", path, i), x[i], y[i]); d != "" {
				return d
			}
		}
		return ""
	default:
		ra, _ := json.Marshal(a)
		rb, _ := json.Marshal(b)
		if string(ra) != string(rb) {
			return path
		}
		return ""
	}
}

func compare(a, b []objDump) string {
	if len(a) != len(b) {
		return fmt.Sprintf("diff(object-count:%d->%d)", len(a), len(b))
	}
	for i := range a {
		if a[i].Kind != b[i].Kind || a[i].Name != b[i].Name {
			return fmt.Sprintf("diff(object-set:%s/%s->%s/%s)", a[i].Kind, a[i].Name, b[i].Kind, b[i].Name)
		}
		if d := firstDiff("", a[i].JSON, b[i].JSON); d != "" {
			return fmt.Sprintf("diff(%s/%s:%s)", a[i].Kind, a[i].Name, strings.TrimPrefix(d, "."))
		}
	}
	return "same"
}

// leafPaths: the fields a reconcile set, at field granularity (arrays are leaves); a path is a list
// of segments because map keys may contain dots.
func leafPaths(prefix []string, v any, out *[][]string) {
	if m, ok := v.(map[string]any); ok && len(m) > 0 {
		keys := make([]string, 0, len(m))
		for k := range m {
			keys = append(keys, k)
		}
		sort.Strings(keys)
		for _, k := range keys {
			leafPaths(append(append([]string{}, prefix...), k), m[k], out)
		}
		return
	}
	switch x := v.(type) {
	case nil:
		return // null (e.g. an embedded creationTimestamp): not a field the reconcile set
	case map[string]any:
		if len(x) == 0 {
			return
		}
	case []any:
		if len(x) == 0 {
			return
		}
	}
	*out = append(*out, prefix)
}

var operatorEnvPrefixes = []string{"KAFSCALE_", "LFS_PROXY_", "BROKER_", "AWS_"}

func applyEnv(env map[string]string) {
	for _, kv := range os.Environ() {
		k := strings.SplitN(kv, "=", 2)[0]
		for _, p := range operatorEnvPrefixes {
			if strings.HasPrefix(k, p) {
				os.Unsetenv(k)
			}
		}
	}
	for k, v := range env {
		os.Setenv(k, v)
	}
}

func newCluster(in caseIn) *kafscalev1alpha1.KafscaleCluster {
	return &kafscalev1alpha1.KafscaleCluster{
		TypeMeta:   metav1.TypeMeta{APIVersion: kafscalev1alpha1.GroupVersion.String(), Kind: "KafscaleCluster"},
		ObjectMeta: metav1.ObjectMeta{Name: in.Name, Namespace: in.Namespace, UID: types.UID("uid-" + in.Name)},
		Spec:       in.Spec,
	}
}

func runRounds(in caseIn, s *runtime.Scheme, rounds int) (dumps [][]objDump, errText string) {
	ctx := context.Background()
	cluster := newCluster(in)
	c := fake.NewClientBuilder().WithScheme(s).WithStatusSubresource(cluster).WithObjects(cluster).Build()
	r := &operator.ClusterReconciler{Client: c, Scheme: s, Publisher: operator.NewSnapshotPublisher(c)}
	for i := 0; i < rounds; i++ {
		var cur kafscalev1alpha1.KafscaleCluster
		if err := c.Get(ctx, types.NamespacedName{Name: in.Name, Namespace: in.Namespace}, &cur); err != nil {
			return dumps, "get:" + err.Error()
		}
		if err := operator.VerifC42ReconcileObjects(ctx, r, &cur); err != nil {
			return dumps, fmt.Sprintf("round%d:%s", i+1, err.Error())
		}
		d, err := dumpAll(ctx, c, in.Namespace)
		if err != nil {
			return dumps, "dump:" + err.Error()
		}
		dumps = append(dumps, d)
	}
	return dumps, ""
}

func runCase(in caseIn, s *runtime.Scheme) map[string]any {
	res := map[string]any{}
	applyEnv(in.Env)
	rounds := in.Rounds
	if rounds < 2 {
		rounds = 3
	}
	a, errA := runRounds(in, s, rounds)
	res["err"] = errA
	if errA != "" || len(a) < rounds {
		return res
	}
	cmp := []string{}
	for i := 1; i < len(a); i++ {
		cmp = append(cmp, compare(a[i-1], a[i]))
	}
	res["rounds"] = cmp
	b, errB := runRounds(in, s, 1)
	if errB != "" {
		res["err"] = "fresh:" + errB
		return res
	}
	res["fresh"] = compare(a[0], b[0])
	objs := []map[string]any{}
	h := sha256.New()
	for _, o := range a[len(a)-1] {
		var ps [][]string
		leafPaths(nil, o.JSON, &ps)
		raw, _ := json.Marshal(o.JSON)
		h.Write(raw)
		objs = append(objs, map[string]any{"kind": o.Kind, "name": strings.Replace(o.Name, in.Name, "%s", 1), "paths": ps})
	}
	res["objects"] = objs
	res["digest"] = hex.EncodeToString(h.Sum(nil))[:16]
	return res
}

func main() {
	if len(os.Args) >= 3 && os.Args[1] == "extract" {
		os.Exit(extract(os.Args[2]))
	}
	s := scheme()
	w := bufio.NewWriter(os.Stdout)
	defer w.Flush()
	sc := bufio.NewScanner(os.Stdin)
	sc.Buffer(make([]byte, 1<<20), 1<<26)
	for sc.Scan() {
		f := strings.Fields(sc.Text())
		if len(f) == 0 || strings.HasPrefix(f[0], "#") {
			continue
		}
		line := func() (out string) {
			defer func() {
				if r := recover(); r != nil {
					out = fmt.Sprintf("case {\"panic\":%q}", fmt.Sprint(r))
				}
			}()
			if f[0] != "case" || len(f) != 2 {
				return "bad-op"
			}
			raw, err := hex.DecodeString(f[1])
			if err != nil {
				return "bad-op"
			}
			var in caseIn
			if err := json.Unmarshal(raw, &in); err != nil {
				return "case {\"err\":\"bad-json\"}"
			}
			res, _ := json.Marshal(runCase(in, s))
			return "case " + string(res)
		}()
		fmt.Fprintln(w, line)
		w.Flush()
	}
}
