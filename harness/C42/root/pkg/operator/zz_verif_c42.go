//go:build verif

package operator

import (
	"context"

	kafscalev1alpha1 "github.com/KafScale/platform/api/v1alpha1"
)

// VerifC42ReconcileObjects runs the object-producing part of ClusterReconciler.Reconcile, in the
// order Reconcile uses, without the status / etcd-health / snapshot-publish steps (those talk to a
// live etcd and S3 and produce no Kubernetes objects).
func VerifC42ReconcileObjects(ctx context.Context, r *ClusterReconciler, cluster *kafscalev1alpha1.KafscaleCluster) error {
	res, err := EnsureEtcd(ctx, r.Client, r.Scheme, cluster)
	if err != nil {
		return err
	}
	if err := r.deleteLegacyBrokerDeployment(ctx, cluster); err != nil {
		return err
	}
	if err := r.reconcileBrokerDeployment(ctx, cluster, res.Endpoints); err != nil {
		return err
	}
	if err := r.reconcileBrokerHeadlessService(ctx, cluster); err != nil {
		return err
	}
	if err := r.reconcileBrokerService(ctx, cluster); err != nil {
		return err
	}
	if err := r.reconcileLfsProxyResources(ctx, cluster, res.Endpoints); err != nil {
		return err
	}
	return r.reconcileBrokerHPA(ctx, cluster)
}
