//go:build verif

package main

// C25 gate harness (VERIF_HARNESS=C25): real handler, in-memory store, counting S3 client; forces the
// S3 health rating through the monitor's own RecordOperation and observes produce/fetch.

import (
	"bufio"
	"context"
	"encoding/binary"
	"errors"
	"fmt"
	"io"
	"log/slog"
	"os"
	"sort"
	"strconv"
	"strings"
	"sync/atomic"
	"time"

	"github.com/KafScale/platform/pkg/metadata"
	"github.com/KafScale/platform/pkg/protocol"
	"github.com/KafScale/platform/pkg/storage"
	"github.com/twmb/franz-go/pkg/kerr"
	"github.com/twmb/franz-go/pkg/kmsg"
)

type verifC25S3 struct {
	*storage.MemoryS3Client
	uploads atomic.Int64
	failFor string // uploads whose key contains this fail
}

func (s *verifC25S3) UploadSegment(ctx context.Context, key string, body []byte) error {
	if s.failFor != "" && strings.Contains(key, s.failFor) {
		return errors.New("verif: s3 upload failed")
	}
	s.uploads.Add(1)
	return s.MemoryS3Client.UploadSegment(ctx, key, body)
}

// verifC25Cross: ONE produce request over several partitions that starts with S3 rated healthy; the upload of
// the partition at index failAt fails, which (low thresholds) pushes the rating to unavailable part-way through the
// request.  Reports, per partition in request order: code, whether it was appended (offset/S3 moved), and the
// rating the monitor reports right after the request.
func verifC25Cross(nparts int, failAt int, acks int16) (out string) {
	defer func() {
		if r := recover(); r != nil {
			out = fmt.Sprintf("panic %v", r)
		}
	}()
	os.Setenv("KAFSCALE_S3_ERROR_RATE_WARN", "0.001")
	os.Setenv("KAFSCALE_S3_ERROR_RATE_CRIT", "0.002")
	defer os.Unsetenv("KAFSCALE_S3_ERROR_RATE_WARN")
	defer os.Unsetenv("KAFSCALE_S3_ERROR_RATE_CRIT")
	ctx := context.Background()
	brokerInfo := protocol.MetadataBroker{NodeID: 1, Host: "localhost", Port: 19092}
	store := metadata.NewInMemoryStore(metadataForBroker(brokerInfo))
	s3 := &verifC25S3{MemoryS3Client: storage.NewMemoryS3Client()}
	h := newHandler(store, s3, brokerInfo, slog.New(slog.NewTextHandler(io.Discard, nil)))
	cid := "c25"
	names := make([]string, nparts)
	req := kmsg.NewPtrProduceRequest()
	req.Version = 9
	req.Acks = acks
	req.TimeoutMillis = 1000
	for i := 0; i < nparts; i++ {
		names[i] = fmt.Sprintf("c25x%d", i)
		if i == failAt {
			names[i] = fmt.Sprintf("c25fail%d", i)
		}
		if _, err := store.CreateTopic(ctx, metadata.TopicSpec{Name: names[i], NumPartitions: 1, ReplicationFactor: 1}); err != nil {
			return "setup-failed " + err.Error()
		}
		t := kmsg.NewProduceRequestTopic()
		t.Topic = names[i]
		p := kmsg.NewProduceRequestTopicPartition()
		p.Records = verifC25Batch(1)
		t.Partitions = append(t.Partitions, p)
		req.Topics = append(req.Topics, t)
	}
	s3.failFor = "/c25fail"
	if st := string(h.s3Health.State()); st != "healthy" {
		return "not-healthy-at-start " + st
	}
	payload, err := h.Handle(ctx, &protocol.RequestHeader{APIKey: 0, APIVersion: 9, CorrelationID: 7, ClientID: &cid}, req)
	if err != nil {
		return "produce-error " + err.Error()
	}
	final := string(h.s3Health.State())
	codes := make([]string, nparts)
	for i := range codes {
		codes[i] = "?"
	}
	if payload != nil {
		resp := kmsg.NewPtrProduceResponse()
		resp.Version = 9
		if err := resp.ReadFrom(payload[5:]); err != nil {
			return "decode-error " + err.Error()
		}
		for i, t := range resp.Topics {
			if i < nparts && len(t.Partitions) == 1 {
				codes[i] = strconv.Itoa(int(t.Partitions[0].ErrorCode))
			}
		}
	} else {
		for i := range codes {
			codes[i] = "noreply"
		}
	}
	app := make([]string, nparts)
	for i, n := range names {
		no, _ := store.NextOffset(ctx, n, 0)
		buffered := int64(0)
		h.logMu.RLock()
		if pl := h.logs[n][0]; pl != nil {
			buffered = pl.BufferedHighWatermark()
		}
		h.logMu.RUnlock()
		app[i] = "0"
		if no > 0 || buffered > 0 {
			app[i] = "1"
		}
	}
	return fmt.Sprintf("cross codes=%s appended=%s final=%s", strings.Join(codes, ","), strings.Join(app, ","), final)
}

func verifC25Batch(n int32) []byte {
	data := make([]byte, 70)
	binary.BigEndian.PutUint32(data[8:12], 58) // batchLength
	data[16] = 2                                // magic
	binary.BigEndian.PutUint32(data[23:27], uint32(n-1))
	binary.BigEndian.PutUint32(data[57:61], uint32(n))
	return data
}

func verifC25Codes(cs []int16) string {
	if len(cs) == 0 {
		return "none"
	}
	set := map[int16]bool{}
	for _, c := range cs {
		set[c] = true
	}
	var ks []int
	for c := range set {
		ks = append(ks, int(c))
	}
	sort.Ints(ks)
	var ss []string
	for _, k := range ks {
		ss = append(ss, strconv.Itoa(k))
	}
	return strings.Join(ss, ",")
}

func verifC25Gate(state string, acks int16) (out string) {
	defer func() {
		if r := recover(); r != nil {
			out = fmt.Sprintf("panic %v", r)
		}
	}()
	ctx := context.Background()
	brokerInfo := protocol.MetadataBroker{NodeID: 1, Host: "localhost", Port: 19092}
	store := metadata.NewInMemoryStore(metadataForBroker(brokerInfo))
	s3 := &verifC25S3{MemoryS3Client: storage.NewMemoryS3Client()}
	h := newHandler(store, s3, brokerInfo, slog.New(slog.NewTextHandler(io.Discard, nil)))
	cid := "c25"
	produce := func(acks int16, corr int32) (*kmsg.ProduceResponse, bool, error) {
		req := kmsg.NewPtrProduceRequest()
		req.Version = 9
		req.Acks = acks
		req.TimeoutMillis = 1000
		for _, tp := range []string{"orders", "c25-new-topic"} {
			t := kmsg.NewProduceRequestTopic()
			t.Topic = tp
			p := kmsg.NewProduceRequestTopicPartition()
			p.Partition = 0
			p.Records = verifC25Batch(1)
			t.Partitions = append(t.Partitions, p)
			req.Topics = append(req.Topics, t)
		}
		payload, err := h.Handle(ctx, &protocol.RequestHeader{APIKey: 0, APIVersion: 9, CorrelationID: corr, ClientID: &cid}, req)
		if err != nil {
			return nil, false, err
		}
		if payload == nil {
			return nil, false, nil
		}
		resp := kmsg.NewPtrProduceResponse()
		resp.Version = 9
		if err := resp.ReadFrom(payload[5:]); err != nil { // flexible header: corr + tag byte
			return nil, false, err
		}
		return resp, true, nil
	}
	// 1. healthy seed so that there is data to (not) fetch
	if _, _, err := produce(-1, 1); err != nil {
		return "seed-failed " + err.Error()
	}
	// 2. force the rating through the monitor's own API
	switch state {
	case "degraded":
		h.s3Health.RecordOperation("verif", 2900*time.Millisecond, nil) // avg of (tiny seed samples + this) may be < warn: add more
		for i := 0; i < 40; i++ {
			h.s3Health.RecordOperation("verif", 2900*time.Millisecond, nil)
		}
	case "unavailable":
		for i := 0; i < 200; i++ {
			h.s3Health.RecordOperation("verif", time.Millisecond, errors.New("s3 down"))
		}
	}
	if got := string(h.s3Health.State()); got != state {
		return "could-not-force-state got=" + got
	}
	snap := func() string {
		meta, _ := store.Metadata(ctx, nil)
		var ts []string
		for _, t := range meta.Topics {
			no, _ := store.NextOffset(ctx, *t.Topic, 0)
			ts = append(ts, fmt.Sprintf("%s/%d@%d", *t.Topic, len(t.Partitions), no))
		}
		sort.Strings(ts)
		buffered := int64(-1)
		h.logMu.RLock()
		if pl := h.logs["orders"][0]; pl != nil {
			buffered = pl.BufferedHighWatermark()
		}
		nlogs := len(h.logs)
		h.logMu.RUnlock()
		return fmt.Sprintf("%s|uploads=%d|buffered=%d|logs=%d", strings.Join(ts, ";"), s3.uploads.Load(), buffered, nlogs)
	}
	before := snap()
	resp, replied, err := produce(acks, 2)
	if err != nil {
		return "produce-error " + err.Error()
	}
	after := snap()
	pcodes := "noreply"
	retri := []string{}
	if replied {
		var cs []int16
		for _, t := range resp.Topics {
			for _, p := range t.Partitions {
				cs = append(cs, p.ErrorCode)
				if p.ErrorCode != 0 {
					retri = append(retri, strconv.FormatBool(kerr.IsRetriable(kerr.ErrorForCode(p.ErrorCode))))
				}
			}
		}
		pcodes = verifC25Codes(cs)
	}
	freq := kmsg.NewPtrFetchRequest()
	freq.Version = 12
	freq.MaxWaitMillis = 0
	ft := kmsg.NewFetchRequestTopic()
	ft.Topic = "orders"
	fp := kmsg.NewFetchRequestTopicPartition()
	fp.Partition = 0
	fp.FetchOffset = 0
	fp.PartitionMaxBytes = 1 << 20
	ft.Partitions = append(ft.Partitions, fp)
	freq.Topics = append(freq.Topics, ft)
	payload, err := h.Handle(ctx, &protocol.RequestHeader{APIKey: 1, APIVersion: 12, CorrelationID: 3, ClientID: &cid}, freq)
	if err != nil {
		return "fetch-error " + err.Error()
	}
	fresp := kmsg.NewPtrFetchResponse()
	fresp.Version = 12
	if err := fresp.ReadFrom(payload[5:]); err != nil {
		return "fetch-decode-error " + err.Error()
	}
	var fcs []int16
	recs := 0
	for _, t := range fresp.Topics {
		for _, p := range t.Partitions {
			fcs = append(fcs, p.ErrorCode)
			if len(p.RecordBatches) > 0 {
				recs = 1
			}
			if p.ErrorCode != 0 {
				retri = append(retri, strconv.FormatBool(kerr.IsRetriable(kerr.ErrorForCode(p.ErrorCode))))
			}
		}
	}
	r := "all"
	for _, x := range retri {
		if x != "true" {
			r = "NOT-RETRIABLE"
		}
	}
	return fmt.Sprintf("gate produce=%s appended=%v fetch=%s records=%d retriable=%s", pcodes, before != after, verifC25Codes(fcs), recs, r)
}

func init() {
	if os.Getenv("VERIF_HARNESS") != "C25" {
		return
	}
	w := bufio.NewWriter(os.Stdout)
	sc := bufio.NewScanner(os.Stdin)
	for sc.Scan() {
		f := strings.Fields(sc.Text())
		if len(f) == 0 || strings.HasPrefix(f[0], "#") {
			continue
		}
		if f[0] == "cross" && len(f) == 4 {
			n, _ := strconv.Atoi(f[1])
			at, _ := strconv.Atoi(f[2])
			acks, _ := strconv.Atoi(f[3])
			fmt.Fprintln(w, verifC25Cross(n, at, int16(acks)))
		} else if f[0] == "gate" && len(f) == 3 {
			acks, _ := strconv.Atoi(f[2])
			fmt.Fprintln(w, verifC25Gate(f[1], int16(acks)))
		} else {
			fmt.Fprintln(w, "bad-op")
		}
		w.Flush()
	}
	os.Exit(0)
}
