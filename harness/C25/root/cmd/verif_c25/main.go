//go:build verif

// C25 correspondence harness (monitor part): drives the real S3HealthMonitor with op lines; virtual
// time by shifting stored timestamps; `exact` runs truncateLocked/recomputeLocked at exact boundaries.
package main

import (
	"bufio"
	"errors"
	"fmt"
	"os"
	"strconv"
	"strings"
	"time"

	"github.com/KafScale/platform/pkg/broker"
)

func cfgOf(f []string) (broker.S3HealthConfig, bool) {
	if len(f) != 8 {
		return broker.S3HealthConfig{}, false
	}
	v := make([]int64, 8)
	for i, s := range f {
		x, err := strconv.ParseInt(s, 10, 64)
		if err != nil {
			return broker.S3HealthConfig{}, false
		}
		v[i] = x
	}
	ms := time.Millisecond
	c := broker.S3HealthConfig{Window: time.Duration(v[0]) * ms, LatencyWarn: time.Duration(v[1]) * ms, LatencyCrit: time.Duration(v[2]) * ms, MaxSamples: int(v[7])}
	if v[3] > 0 && v[4] > 0 {
		c.ErrorWarn = float64(v[3]) / float64(v[4])
	}
	if v[5] > 0 && v[6] > 0 {
		c.ErrorCrit = float64(v[5]) / float64(v[6])
	}
	return c, true
}

func main() {
	w := bufio.NewWriter(os.Stdout)
	defer w.Flush()
	m := broker.NewS3HealthMonitor(broker.S3HealthConfig{})
	dump := func(st broker.S3HealthState) string {
		n, k, avg := m.VerifDump()
		return fmt.Sprintf("state=%s n=%d avg=%d k=%d", st, n, avg.Milliseconds(), k)
	}
	sc := bufio.NewScanner(os.Stdin)
	sc.Buffer(make([]byte, 1<<20), 1<<26)
	for sc.Scan() {
		f := strings.Fields(sc.Text())
		if len(f) == 0 || strings.HasPrefix(f[0], "#") {
			continue
		}
		out := "bad-op"
		func() {
			defer func() {
				if r := recover(); r != nil {
					out = "panic"
				}
			}()
			switch {
			case f[0] == "new":
				if c, ok := cfgOf(f[1:]); ok {
					m = broker.NewS3HealthMonitor(c)
					out = "new"
				}
			case f[0] == "rec" && len(f) == 3:
				lat, err := strconv.ParseInt(f[1], 10, 64)
				if err != nil {
					return
				}
				var e error
				if f[2] == "1" {
					e = errors.New("boom")
				}
				m.RecordOperation("op", time.Duration(lat)*time.Millisecond, e)
				// RecordOperation has recomputed; report the state it stored (Snapshot would re-truncate
				// with a later wall clock, harmless because ticks keep ages off the window boundary)
				out = "rec " + dump(m.Snapshot().State)
			case f[0] == "tick" && len(f) == 2:
				d, err := strconv.ParseInt(f[1], 10, 64)
				if err != nil {
					return
				}
				m.VerifShift(time.Duration(d) * time.Millisecond)
				out = "tick"
			case f[0] == "state":
				out = "state " + dump(m.State())
			case f[0] == "exact" && len(f) >= 10:
				now, err := strconv.ParseInt(f[1], 10, 64)
				c, ok := cfgOf(f[2:10])
				if err != nil || !ok {
					return
				}
				var ss []broker.VerifSample
				for _, s := range f[10:] {
					p := strings.Split(s, ":")
					if len(p) != 3 {
						return
					}
					ts, e1 := strconv.ParseInt(p[0], 10, 64)
					lat, e2 := strconv.ParseInt(p[1], 10, 64)
					if e1 != nil || e2 != nil {
						return
					}
					ss = append(ss, broker.VerifSample{TsMs: ts, LatMs: lat, Err: p[2] == "1"})
				}
				mm := broker.NewS3HealthMonitor(c)
				st := mm.VerifExact(now, ss)
				n, k, avg := mm.VerifDump()
				out = fmt.Sprintf("exact state=%s n=%d avg=%d k=%d", st, n, avg.Milliseconds(), k)
			}
		}()
		fmt.Fprintln(w, out)
		w.Flush()
	}
}
