//go:build verif

package broker

import "time"

// VerifShift advances the monitor's virtual clock by d: every stored timestamp moves d into the past.
func (m *S3HealthMonitor) VerifShift(d time.Duration) {
	m.mu.Lock()
	defer m.mu.Unlock()
	for i := range m.samples {
		m.samples[i].ts = m.samples[i].ts.Add(-d)
	}
	m.stateSince = m.stateSince.Add(-d)
}

// VerifDump returns (number of samples, error samples, average latency as recomputeLocked stored it).
func (m *S3HealthMonitor) VerifDump() (n int, k int, avg time.Duration) {
	m.mu.Lock()
	defer m.mu.Unlock()
	for _, s := range m.samples {
		if s.err {
			k++
		}
	}
	return len(m.samples), k, m.avgLatency
}

// VerifSample is one (age-exact) sample for VerifExact.
type VerifSample struct {
	TsMs  int64
	LatMs int64
	Err   bool
}

// VerifExact installs exactly these samples (timestamps = base + TsMs) and runs the monitor's own
// truncateLocked(now) + recomputeLocked(now) with now = base + nowMs: boundary-exact virtual time.
func (m *S3HealthMonitor) VerifExact(nowMs int64, samples []VerifSample) S3HealthState {
	m.mu.Lock()
	defer m.mu.Unlock()
	base := time.Unix(1_700_000_000, 0)
	m.samples = nil
	for _, s := range samples {
		m.samples = append(m.samples, s3Sample{ts: base.Add(time.Duration(s.TsMs) * time.Millisecond), op: "x", latency: time.Duration(s.LatMs) * time.Millisecond, err: s.Err})
	}
	now := base.Add(time.Duration(nowMs) * time.Millisecond)
	m.truncateLocked(now)
	m.recomputeLocked(now)
	return m.state
}
