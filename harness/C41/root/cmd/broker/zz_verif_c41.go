//go:build verif

package main

import (
	"context"
	"encoding/binary"
	"fmt"
	"hash/crc32"
	"io"
	"log/slog"
	"os"
	"strconv"
	"sync"
	"sync/atomic"
	"time"

	"github.com/KafScale/platform/pkg/metadata"
	"github.com/KafScale/platform/pkg/protocol"
	"github.com/KafScale/platform/pkg/storage"
	"github.com/twmb/franz-go/pkg/kmsg"
)

// C41 (handler paths): when the broker binary is started with VERIF_HARNESS=C41 it does not serve;
// it hammers handler.getPartitionLog (the logs map, logMu, the singleflight initialisation) and the
// logs it hands out from many goroutines, under the race detector, and exits.
func init() {
	if os.Getenv("VERIF_HARNESS") != "C41" {
		return
	}
	millis, _ := strconv.Atoi(os.Getenv("VERIF_C41_MILLIS"))
	if millis <= 0 {
		millis = 1500
	}
	width, _ := strconv.Atoi(os.Getenv("VERIF_C41_WIDTH"))
	if width <= 0 {
		width = 3
	}
	os.Setenv("KAFSCALE_CACHE_BYTES", "65536")
	os.Setenv("KAFSCALE_READAHEAD_SEGMENTS", "2")
	topics := []string{"orders", "events", "audit"}
	var mt []protocol.MetadataTopic
	for _, t := range topics {
		top := protocol.MetadataTopic{Topic: kmsg.StringPtr(t)}
		for p := 0; p < 3; p++ {
			top.Partitions = append(top.Partitions, protocol.MetadataPartition{Partition: int32(p), Leader: 1, Replicas: []int32{1}, ISR: []int32{1}})
		}
		mt = append(mt, top)
	}
	store := metadata.NewInMemoryStore(metadata.ClusterMetadata{
		Brokers: []protocol.MetadataBroker{{NodeID: 1, Host: "b", Port: 9092}}, ControllerID: 1, Topics: mt})
	h := newHandler(store, storage.NewMemoryS3Client(), protocol.MetadataBroker{NodeID: 1, Host: "b", Port: 9092},
		slog.New(slog.NewTextHandler(io.Discard, nil)))
	ctx, cancel := context.WithCancel(context.Background())
	var wg sync.WaitGroup
	var gets, appends, reads, errs, panics atomic.Int64
	for w := 0; w < width*len(topics); w++ {
		wg.Add(1)
		go func(w int) {
			defer wg.Done()
			defer func() {
				if x := recover(); x != nil {
					panics.Add(1)
					fmt.Fprintf(os.Stderr, "PANIC in handler-worker-%d: %v\n", w, x)
				}
			}()
			n := uint64(w)*0x9E3779B97F4A7C15 + 1
			for ctx.Err() == nil {
				n = n*6364136223846793005 + 1442695040888963407
				topic := topics[int(n>>33)%len(topics)]
				part := int32((n >> 40) % 3)
				plog, err := h.getPartitionLog(ctx, topic, part)
				gets.Add(1)
				if err != nil || plog == nil {
					errs.Add(1)
					continue
				}
				if (n>>20)%3 != 0 {
					data := make([]byte, 70+int((n>>10)%200))
					binary.BigEndian.PutUint32(data[57:61], 1)
					if _, err := plog.AppendBatch(ctx, storage.RecordBatch{MessageCount: 1, Bytes: data}); err != nil {
						errs.Add(1)
					} else {
						appends.Add(1)
					}
				} else if hw := plog.BufferedHighWatermark(); hw > 0 {
					if b, err := plog.Read(ctx, int64(n>>13)%hw, 2048); err == nil {
						_ = crc32.ChecksumIEEE(b)
						reads.Add(1)
					}
				}
				if (n>>7)%64 == 0 {
					_ = plog.Flush(ctx)
				}
			}
		}(w)
	}
	time.Sleep(time.Duration(millis) * time.Millisecond)
	cancel()
	done := make(chan struct{})
	go func() { wg.Wait(); close(done) }()
	select {
	case <-done:
	case <-time.After(20 * time.Second):
		fmt.Println("handler stress hung")
		os.Exit(3)
	}
	time.Sleep(30 * time.Millisecond)
	fmt.Printf("handler stress done gets=%d appends=%d reads=%d errors=%d panics=%d\n", gets.Load(), appends.Load(), reads.Load(), errs.Load(), panics.Load())
	if panics.Load() > 0 {
		os.Exit(4)
	}
	os.Exit(0)
}
