//go:build verif

// C41 harness (built with -race).
//
//	verif_c41 extract <repo>                         lockset extractor (see extract.go)
//	verif_c41 stress <seed> <millis> <parts> <width>  concurrent produce / fetch / flush / prefetch / cache access on
//	                                                 shared PartitionLogs with a fault-injecting S3, under the race detector
package main

import (
	"context"
	"encoding/binary"
	"errors"
	"fmt"
	"hash/crc32"
	"os"
	"runtime"
	"strconv"
	"sync"
	"sync/atomic"
	"time"

	"github.com/KafScale/platform/pkg/cache"
	"github.com/KafScale/platform/pkg/storage"
	"golang.org/x/sync/semaphore"
)

type splitmix struct{ s uint64 }

func (r *splitmix) next() uint64 {
	r.s += 0x9E3779B97F4A7C15
	z := r.s
	z = (z ^ (z >> 30)) * 0xBF58476D1CE4E5B9
	z = (z ^ (z >> 27)) * 0x94D049BB133111EB
	return z ^ (z >> 31)
}
func (r *splitmix) below(n int) int { return int(r.next() % uint64(n)) }

// faultyS3 wraps the repo's in-memory S3 client: seeded failures and scheduling noise at the seam.
type faultyS3 struct {
	inner    *storage.MemoryS3Client
	mu       sync.Mutex
	rng      splitmix
	failPct  int
	uploads  atomic.Int64
	failures atomic.Int64
}

func (f *faultyS3) roll() (fail bool, yield int) {
	f.mu.Lock()
	defer f.mu.Unlock()
	return f.rng.below(100) < f.failPct, f.rng.below(4)
}

func (f *faultyS3) noise(y int) {
	for i := 0; i < y; i++ {
		runtime.Gosched()
	}
	if y == 3 {
		time.Sleep(50 * time.Microsecond)
	}
}

var errInjected = errors.New("injected s3 failure")

func (f *faultyS3) UploadSegment(ctx context.Context, key string, body []byte) error {
	fail, y := f.roll()
	f.noise(y)
	f.uploads.Add(1)
	if fail {
		f.failures.Add(1)
		return errInjected
	}
	return f.inner.UploadSegment(ctx, key, body)
}
func (f *faultyS3) UploadIndex(ctx context.Context, key string, body []byte) error {
	fail, y := f.roll()
	f.noise(y)
	if fail {
		f.failures.Add(1)
		return errInjected
	}
	return f.inner.UploadIndex(ctx, key, body)
}
func (f *faultyS3) DeleteSegment(ctx context.Context, key string) error { return f.inner.DeleteSegment(ctx, key) }
func (f *faultyS3) DeleteIndex(ctx context.Context, key string) error   { return f.inner.DeleteIndex(ctx, key) }
func (f *faultyS3) DownloadSegment(ctx context.Context, key string, rng *storage.ByteRange) ([]byte, error) {
	fail, y := f.roll()
	f.noise(y)
	if fail && y == 0 {
		return nil, errInjected
	}
	return f.inner.DownloadSegment(ctx, key, rng)
}
func (f *faultyS3) DownloadIndex(ctx context.Context, key string) ([]byte, error) {
	return f.inner.DownloadIndex(ctx, key)
}
func (f *faultyS3) ListSegments(ctx context.Context, prefix string) ([]storage.S3Object, error) {
	return f.inner.ListSegments(ctx, prefix)
}
func (f *faultyS3) EnsureBucket(ctx context.Context) error { return nil }

func makeBatch(msgs int32, marker byte, pad int) storage.RecordBatch {
	data := make([]byte, 70+pad)
	binary.BigEndian.PutUint32(data[23:27], uint32(msgs-1))
	binary.BigEndian.PutUint32(data[57:61], uint32(msgs))
	for i := 61; i < len(data); i++ {
		data[i] = marker
	}
	return storage.RecordBatch{LastOffsetDelta: msgs - 1, MessageCount: msgs, Bytes: data}
}

func stress(seed uint64, millis, parts, width int) int {
	mem := storage.NewMemoryS3Client()
	s3 := &faultyS3{inner: mem, rng: splitmix{seed}, failPct: 7}
	segCache := cache.NewSegmentCache(48 << 10) // small: forces eviction while readers hold slices
	sem := semaphore.NewWeighted(3)
	var flushedMu sync.Mutex
	flushed := map[int32]int64{}
	var s3ops atomic.Int64
	cfg := storage.PartitionLogConfig{
		Buffer:            storage.WriteBufferConfig{MaxBytes: 2 << 10, MaxBatches: 6, FlushInterval: 3 * time.Millisecond},
		Segment:           storage.SegmentWriterConfig{IndexIntervalMessages: 3},
		ReadAheadSegments: 2,
		CacheEnabled:      true,
	}
	logs := make([]*storage.PartitionLog, parts)
	for p := range logs {
		part := int32(p)
		logs[p] = storage.NewPartitionLog("ns", "stress", part, 0, s3, segCache, cfg,
			func(_ context.Context, a *storage.SegmentArtifact) {
				flushedMu.Lock()
				if a.LastOffset > flushed[part] {
					flushed[part] = a.LastOffset
				}
				flushedMu.Unlock()
			},
			func(string, time.Duration, error) { s3ops.Add(1) }, sem)
		if _, err := logs[p].RestoreFromS3(context.Background()); err != nil {
			fmt.Println("restore error", err)
		}
	}
	ctx, cancel := context.WithCancel(context.Background())
	var wg sync.WaitGroup
	var appends, reads, readBytes, flushes, errs, panics atomic.Int64
	guard := func(name string, fn func(r *splitmix)) {
		wg.Add(1)
		go func() {
			defer wg.Done()
			defer func() {
				if x := recover(); x != nil {
					panics.Add(1)
					fmt.Fprintf(os.Stderr, "PANIC in %s: %v\n", name, x)
				}
			}()
			r := &splitmix{seed ^ uint64(len(name))*0x9E37 ^ uint64(time.Now().UnixNano()&0xff)}
			for ctx.Err() == nil {
				fn(r)
			}
		}()
	}
	for p := range logs {
		l := logs[p]
		for w := 0; w < width; w++ {
			marker := byte(16*p + w)
			guard(fmt.Sprintf("producer-%d-%d", p, w), func(r *splitmix) {
				b := makeBatch(int32(1+r.below(4)), marker, r.below(300))
				if _, err := l.AppendBatch(ctx, b); err != nil {
					errs.Add(1)
				} else {
					appends.Add(1)
				}
				if r.below(8) == 0 {
					runtime.Gosched()
				}
			})
			guard(fmt.Sprintf("fetcher-%d-%d", p, w), func(r *splitmix) {
				hw := l.BufferedHighWatermark()
				if hw == 0 {
					runtime.Gosched()
					return
				}
				off := int64(r.below(int(hw)))
				data, err := l.Read(ctx, off, int32(64+r.below(4096)))
				if err != nil {
					errs.Add(1)
					return
				}
				// consume every byte: a writer that still mutates handed-out bytes shows up as a race here
				readBytes.Add(int64(crc32.ChecksumIEEE(data) & 1))
				reads.Add(1)
			})
		}
		guard(fmt.Sprintf("flusher-%d", p), func(r *splitmix) {
			if err := l.Flush(ctx); err != nil {
				errs.Add(1)
			} else {
				flushes.Add(1)
			}
			time.Sleep(time.Duration(200+r.below(800)) * time.Microsecond)
		})
		guard(fmt.Sprintf("watermarks-%d", p), func(r *splitmix) {
			_ = l.EarliestOffset()
			_ = l.BufferedHighWatermark()
			runtime.Gosched()
		})
	}
	for w := 0; w < width; w++ {
		guard(fmt.Sprintf("cache-%d", w), func(r *splitmix) {
			base := int64(r.below(6))
			if r.below(3) == 0 {
				buf := make([]byte, 512+r.below(8<<10))
				segCache.SetSegment("ns/other", int32(w%2), base, buf)
			} else if d, ok := segCache.GetSegment("ns/other", int32(r.below(2)), base); ok {
				readBytes.Add(int64(crc32.ChecksumIEEE(d) & 1))
			}
		})
	}
	time.Sleep(time.Duration(millis) * time.Millisecond)
	cancel()
	done := make(chan struct{})
	go func() { wg.Wait(); close(done) }()
	select {
	case <-done:
	case <-time.After(20 * time.Second):
		fmt.Println("stress hung: goroutines did not stop within 20s")
		return 3
	}
	time.Sleep(30 * time.Millisecond) // let prefetch goroutines finish
	fmt.Printf("stress done appends=%d reads=%d flushes=%d errors=%d panics=%d s3uploads=%d s3failures=%d s3ops=%d\n",
		appends.Load(), reads.Load(), flushes.Load(), errs.Load(), panics.Load(), s3.uploads.Load(), s3.failures.Load(), s3ops.Load())
	if panics.Load() > 0 {
		return 4
	}
	return 0
}

func main() {
	if len(os.Args) >= 3 && os.Args[1] == "extract" {
		os.Exit(extract(os.Args[2]))
	}
	if len(os.Args) >= 6 && os.Args[1] == "stress" {
		seed, _ := strconv.ParseUint(os.Args[2], 10, 64)
		millis, _ := strconv.Atoi(os.Args[3])
		parts, _ := strconv.Atoi(os.Args[4])
		width, _ := strconv.Atoi(os.Args[5])
		os.Exit(stress(seed, millis, parts, width))
	}
	fmt.Println("usage: verif_c41 extract <repo> | stress <seed> <millis> <partitions> <width>")
	os.Exit(2)
}
