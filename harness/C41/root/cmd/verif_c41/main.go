//go:build verif

// C41 harness (built with -race).
//
//	verif_c41 extract <repo>                         lockset extractor (see extract.go)
//	verif_c41 stress <seed> <millis> <parts> <width>  concurrent produce / fetch / flush / prefetch / cache access on
//	                                                 shared PartitionLogs with a fault-injecting S3, under the race detector
package main

import (
	"context"
	"encoding/binary"
	"errors"
	"fmt"
	"hash/crc32"
	"os"
	"path"
	"runtime"
	"strconv"
	"sync"
	"sync/atomic"
	"time"

	"github.com/KafScale/platform/pkg/cache"
	"github.com/KafScale/platform/pkg/storage"
	"golang.org/x/sync/semaphore"
)

type splitmix struct{ s uint64 }

func (r *splitmix) next() uint64 {
	r.s += 0x9E3779B97F4A7C15
	z := r.s
	z = (z ^ (z >> 30)) * 0xBF58476D1CE4E5B9
	z = (z ^ (z >> 27)) * 0x94D049BB133111EB
	return z ^ (z >> 31)
}
func (r *splitmix) below(n int) int { return int(r.next() % uint64(n)) }

// faultyS3 wraps the repo's in-memory S3 client: seeded failures and scheduling noise at the seam.
type faultyS3 struct {
	inner    *storage.MemoryS3Client
	mu       sync.Mutex
	rng      splitmix
	failPct  int
	uploads  atomic.Int64
	failures atomic.Int64
}

func (f *faultyS3) roll() (fail bool, yield int) {
	f.mu.Lock()
	defer f.mu.Unlock()
	return f.rng.below(100) < f.failPct, f.rng.below(4)
}

func (f *faultyS3) noise(y int) {
	for i := 0; i < y; i++ {
		runtime.Gosched()
	}
	if y == 3 {
		time.Sleep(50 * time.Microsecond)
	}
}

var errInjected = errors.New("injected s3 failure")

func (f *faultyS3) UploadSegment(ctx context.Context, key string, body []byte) error {
	fail, y := f.roll()
	f.noise(y)
	f.uploads.Add(1)
	if fail {
		f.failures.Add(1)
		return errInjected
	}
	return f.inner.UploadSegment(ctx, key, body)
}
func (f *faultyS3) UploadIndex(ctx context.Context, key string, body []byte) error {
	fail, y := f.roll()
	f.noise(y)
	if fail {
		f.failures.Add(1)
		return errInjected
	}
	return f.inner.UploadIndex(ctx, key, body)
}
func (f *faultyS3) DeleteSegment(ctx context.Context, key string) error { return f.inner.DeleteSegment(ctx, key) }
func (f *faultyS3) DeleteIndex(ctx context.Context, key string) error   { return f.inner.DeleteIndex(ctx, key) }
func (f *faultyS3) DownloadSegment(ctx context.Context, key string, rng *storage.ByteRange) ([]byte, error) {
	fail, y := f.roll()
	f.noise(y)
	if fail && y == 0 {
		return nil, errInjected
	}
	return f.inner.DownloadSegment(ctx, key, rng)
}
func (f *faultyS3) DownloadIndex(ctx context.Context, key string) ([]byte, error) {
	return f.inner.DownloadIndex(ctx, key)
}
func (f *faultyS3) ListSegments(ctx context.Context, prefix string) ([]storage.S3Object, error) {
	return f.inner.ListSegments(ctx, prefix)
}
func (f *faultyS3) EnsureBucket(ctx context.Context) error { return nil }

func makeBatch(msgs int32, marker byte, pad int) storage.RecordBatch {
	data := make([]byte, 70+pad)
	binary.BigEndian.PutUint32(data[23:27], uint32(msgs-1))
	binary.BigEndian.PutUint32(data[57:61], uint32(msgs))
	for i := 61; i < len(data); i++ {
		data[i] = marker
	}
	return storage.RecordBatch{LastOffsetDelta: msgs - 1, MessageCount: msgs, Bytes: data}
}

// ---- restored segments with foreign / damaged sparse indexes -------------------------------------------------
//
// The broker's own writer only emits index entries with Position >= 32 in increasing order.  A partition restored from S3
// can carry any index a foreign / older writer or a damaged object holds: the entries parsed by RestoreFromS3 are shared by
// every reader of the partition and are used after l.mu is released.  The stress below restores such partitions and lets
// several fetchers read the same offsets at the same time (range-read path and cached-slice path).  Read errors / garbage
// are expected and ignored: only race reports matter here.

func framedBatch(base int64, msgs int32, marker byte, pad int) storage.RecordBatch {
	data := make([]byte, 70+pad)
	binary.BigEndian.PutUint64(data[0:8], uint64(base))
	binary.BigEndian.PutUint32(data[8:12], uint32(len(data)-12))
	binary.BigEndian.PutUint32(data[23:27], uint32(msgs-1))
	binary.BigEndian.PutUint32(data[57:61], uint32(msgs))
	for i := 61; i < len(data); i++ {
		data[i] = marker
	}
	return storage.RecordBatch{BaseOffset: base, LastOffsetDelta: msgs - 1, MessageCount: msgs, Bytes: data}
}

type idxEntry struct {
	off int64
	pos int32
}

// damagedIndex returns the entries of a foreign/damaged index for a segment whose true entries are `good`.
func damagedIndex(kind int, low int32, good []idxEntry, size int) []idxEntry {
	out := append([]idxEntry(nil), good...)
	switch kind {
	case 0: // first entry points into the 32-byte header (0, 1, 31), rest as written by the broker
		out[0].pos = low
	case 1: // a single entry at position `low` covering the whole segment
		out = []idxEntry{{good[0].off, low}}
	case 2: // positions out of order (reversed)
		for i := range out {
			out[i].pos = good[len(good)-1-i].pos
		}
	case 3: // offsets out of order (reversed), first position low
		for i := range out {
			out[i].off = good[len(good)-1-i].off
		}
		out[len(out)-1].pos = low
	case 4: // positions inside the footer / at / beyond the end of the object, first one low
		out[0].pos = low
		for i := 1; i < len(out); i++ {
			out[i].pos = int32(size - 16 + 5*(i-1))
		}
	case 5: // every entry inside the header
		for i := range out {
			out[i].pos = int32((int(low) + 7*i) % 32)
		}
	}
	return out
}

type restoredPart struct {
	part  int32
	last  int64
	bases []int64
}

func restoredPrefixKey(ns, topic string, part int32, base int64, ext string) string {
	return path.Join(ns, topic, fmt.Sprintf("%d", part), fmt.Sprintf("segment-%020d.%s", base, ext))
}

// populateRestored uploads 3 segments + damaged indexes per partition straight into the in-memory bucket.
func populateRestored(mem *storage.MemoryS3Client, ns, topic string, parts int, r *splitmix) ([]restoredPart, error) {
	ctx := context.Background()
	lows := []int32{0, 1, 31}
	var out []restoredPart
	for p := 0; p < parts; p++ {
		rp := restoredPart{part: int32(p)}
		next := int64(0)
		for s := 0; s < 3; s++ {
			var batches []storage.RecordBatch
			base := next
			nb := 3 + r.below(3)
			for b := 0; b < nb; b++ {
				msgs := int32(1 + r.below(3))
				batches = append(batches, framedBatch(next, msgs, byte(0xA0+s), r.below(120)))
				next += int64(msgs)
			}
			art, err := storage.BuildSegment(storage.SegmentWriterConfig{IndexIntervalMessages: 1}, batches, time.Unix(1700000000, 0))
			if err != nil {
				return nil, err
			}
			var good []idxEntry
			for _, e := range art.RelativeIndex {
				good = append(good, idxEntry{e.Offset, e.Position})
			}
			kind := s // segment 0: low first entry, 1: single low entry, 2: seeded
			if s == 2 {
				kind = 2 + r.below(4)
			}
			low := lows[(p+s+r.below(3))%3]
			ib := storage.NewIndexBuilder(1)
			for _, e := range damagedIndex(kind, low, good, len(art.SegmentBytes)) {
				ib.MaybeAdd(e.off, e.pos, 1)
			}
			idx, err := ib.BuildBytes()
			if err != nil {
				return nil, err
			}
			if err := mem.UploadSegment(ctx, restoredPrefixKey(ns, topic, int32(p), base, "kfs"), art.SegmentBytes); err != nil {
				return nil, err
			}
			if err := mem.UploadIndex(ctx, restoredPrefixKey(ns, topic, int32(p), base, "index"), idx); err != nil {
				return nil, err
			}
			rp.bases = append(rp.bases, base)
			rp.last = art.LastOffset
		}
		out = append(out, rp)
	}
	return out, nil
}

type restoredStats struct {
	rounds, restoreErrs, mismatch, reads, errs, panics, rangeReads, fullReads atomic.Int64
}

// restoredRound: a fresh PartitionLog restored from the damaged objects (fresh shared *IndexEntry values), then `width`
// fetchers released together that read the same offsets in the same order, twice.
func restoredRound(ctx context.Context, s3 storage.S3Client, shared *cache.SegmentCache, rp restoredPart, ns, topic string, width int, r *splitmix, st *restoredStats, sink *atomic.Int64) {
	c := shared // evicted all the time by the produce path and the cache hammer
	switch r.below(3) {
	case 0:
		c = cache.NewSegmentCache(1 << 20) // cold: first reads take the S3 paths, later ones the cached-slice path
	case 1:
		c = cache.NewSegmentCache(600) // too small to keep a segment: every read is a cache miss
	}
	cfg := storage.PartitionLogConfig{
		Buffer:            storage.WriteBufferConfig{MaxBytes: 1 << 20},
		Segment:           storage.SegmentWriterConfig{IndexIntervalMessages: 1},
		ReadAheadSegments: r.below(3),
		CacheEnabled:      true,
	}
	l := storage.NewPartitionLog(ns, topic, rp.part, 0, s3, c, cfg, nil, func(op string, _ time.Duration, _ error) {
		switch op {
		case "download_segment_range":
			st.rangeReads.Add(1)
		case "download_segment":
			st.fullReads.Add(1)
		}
	}, semaphore.NewWeighted(8))
	last, err := l.RestoreFromS3(ctx)
	if err != nil {
		st.restoreErrs.Add(1)
		return
	}
	if last != rp.last {
		st.mismatch.Add(1)
		return
	}
	st.rounds.Add(1)
	// the offsets every fetcher of this round reads: segment bases (index entry exactly at the offset: range read),
	// offsets inside a segment (full download, then cached slices), offset 0
	offs := []int64{0}
	for _, b := range rp.bases {
		if r.below(3) > 0 {
			offs = append(offs, b)
		}
		if r.below(2) == 0 {
			offs = append(offs, b+1+int64(r.below(3)))
		}
	}
	for i := len(offs) - 1; i > 0; i-- {
		j := r.below(i + 1)
		offs[i], offs[j] = offs[j], offs[i]
	}
	maxBytes := int32(0)
	if r.below(3) > 0 {
		maxBytes = int32(40 + r.below(600))
	}
	start := make(chan struct{})
	var wg sync.WaitGroup
	for f := 0; f < width; f++ {
		wg.Add(1)
		go func() {
			defer wg.Done()
			<-start
			for pass := 0; pass < 2; pass++ {
				for _, off := range offs {
					func() {
						defer func() {
							if x := recover(); x != nil {
								if st.panics.Add(1) <= 3 {
									fmt.Fprintf(os.Stderr, "restored-read panicked (damaged index, not a C41 alarm): off=%d %v\n", off, x)
								}
							}
						}()
						data, err := l.Read(ctx, off, maxBytes)
						if err != nil {
							st.errs.Add(1)
							return
						}
						sink.Add(int64(crc32.ChecksumIEEE(data) & 1))
						st.reads.Add(1)
					}()
				}
			}
		}()
	}
	close(start)
	wg.Wait()
}

func stress(seed uint64, millis, parts, width int) int {
	mem := storage.NewMemoryS3Client()
	s3 := &faultyS3{inner: mem, rng: splitmix{seed}, failPct: 7}
	segCache := cache.NewSegmentCache(48 << 10) // small: forces eviction while readers hold slices
	sem := semaphore.NewWeighted(3)
	var flushedMu sync.Mutex
	flushed := map[int32]int64{}
	var s3ops atomic.Int64
	cfg := storage.PartitionLogConfig{
		Buffer:            storage.WriteBufferConfig{MaxBytes: 2 << 10, MaxBatches: 6, FlushInterval: 3 * time.Millisecond},
		Segment:           storage.SegmentWriterConfig{IndexIntervalMessages: 3},
		ReadAheadSegments: 2,
		CacheEnabled:      true,
	}
	logs := make([]*storage.PartitionLog, parts)
	for p := range logs {
		part := int32(p)
		logs[p] = storage.NewPartitionLog("ns", "stress", part, 0, s3, segCache, cfg,
			func(_ context.Context, a *storage.SegmentArtifact) {
				flushedMu.Lock()
				if a.LastOffset > flushed[part] {
					flushed[part] = a.LastOffset
				}
				flushedMu.Unlock()
			},
			func(string, time.Duration, error) { s3ops.Add(1) }, sem)
		if _, err := logs[p].RestoreFromS3(context.Background()); err != nil {
			fmt.Println("restore error", err)
		}
	}
	var rst restoredStats
	restored, rerr := populateRestored(mem, "ns", "restored", 2, &splitmix{seed ^ 0xC41})
	if rerr != nil {
		fmt.Println("restored setup error", rerr)
		return 3
	}
	ctx, cancel := context.WithCancel(context.Background())
	var wg sync.WaitGroup
	var appends, reads, readBytes, flushes, errs, panics atomic.Int64
	guard := func(name string, fn func(r *splitmix)) {
		wg.Add(1)
		go func() {
			defer wg.Done()
			defer func() {
				if x := recover(); x != nil {
					panics.Add(1)
					fmt.Fprintf(os.Stderr, "PANIC in %s: %v\n", name, x)
				}
			}()
			r := &splitmix{seed ^ uint64(len(name))*0x9E37 ^ uint64(time.Now().UnixNano()&0xff)}
			for ctx.Err() == nil {
				fn(r)
			}
		}()
	}
	for p := range logs {
		l := logs[p]
		for w := 0; w < width; w++ {
			marker := byte(16*p + w)
			guard(fmt.Sprintf("producer-%d-%d", p, w), func(r *splitmix) {
				b := makeBatch(int32(1+r.below(4)), marker, r.below(300))
				if _, err := l.AppendBatch(ctx, b); err != nil {
					errs.Add(1)
				} else {
					appends.Add(1)
				}
				if r.below(8) == 0 {
					runtime.Gosched()
				}
			})
			guard(fmt.Sprintf("fetcher-%d-%d", p, w), func(r *splitmix) {
				hw := l.BufferedHighWatermark()
				if hw == 0 {
					runtime.Gosched()
					return
				}
				off := int64(r.below(int(hw)))
				data, err := l.Read(ctx, off, int32(64+r.below(4096)))
				if err != nil {
					errs.Add(1)
					return
				}
				// consume every byte: a writer that still mutates handed-out bytes shows up as a race here
				readBytes.Add(int64(crc32.ChecksumIEEE(data) & 1))
				reads.Add(1)
			})
		}
		guard(fmt.Sprintf("flusher-%d", p), func(r *splitmix) {
			if err := l.Flush(ctx); err != nil {
				errs.Add(1)
			} else {
				flushes.Add(1)
			}
			time.Sleep(time.Duration(200+r.below(800)) * time.Microsecond)
		})
		guard(fmt.Sprintf("watermarks-%d", p), func(r *splitmix) {
			_ = l.EarliestOffset()
			_ = l.BufferedHighWatermark()
			runtime.Gosched()
		})
	}
	for i := range restored {
		rp := restored[i]
		guard(fmt.Sprintf("restored-%d", i), func(r *splitmix) {
			// background context: a round always completes (it is short), cancellation only stops the loop
			restoredRound(context.Background(), s3, segCache, rp, "ns", "restored", 2+r.below(3), r, &rst, &readBytes)
		})
	}
	for w := 0; w < width; w++ {
		guard(fmt.Sprintf("cache-%d", w), func(r *splitmix) {
			base := int64(r.below(6))
			if r.below(3) == 0 {
				buf := make([]byte, 512+r.below(8<<10))
				segCache.SetSegment("ns/other", int32(w%2), base, buf)
			} else if d, ok := segCache.GetSegment("ns/other", int32(r.below(2)), base); ok {
				readBytes.Add(int64(crc32.ChecksumIEEE(d) & 1))
			}
		})
	}
	time.Sleep(time.Duration(millis) * time.Millisecond)
	cancel()
	done := make(chan struct{})
	go func() { wg.Wait(); close(done) }()
	select {
	case <-done:
	case <-time.After(20 * time.Second):
		fmt.Println("stress hung: goroutines did not stop within 20s")
		return 3
	}
	time.Sleep(30 * time.Millisecond) // let prefetch goroutines finish
	fmt.Printf("restored rounds=%d reads=%d errors=%d panics=%d range_reads=%d full_reads=%d restore_errors=%d mismatch=%d\n",
		rst.rounds.Load(), rst.reads.Load(), rst.errs.Load(), rst.panics.Load(), rst.rangeReads.Load(), rst.fullReads.Load(), rst.restoreErrs.Load(), rst.mismatch.Load())
	fmt.Printf("stress done appends=%d reads=%d flushes=%d errors=%d panics=%d s3uploads=%d s3failures=%d s3ops=%d\n",
		appends.Load(), reads.Load(), flushes.Load(), errs.Load(), panics.Load(), s3.uploads.Load(), s3.failures.Load(), s3ops.Load())
	if panics.Load() > 0 {
		return 4
	}
	return 0
}

func main() {
	if len(os.Args) >= 3 && os.Args[1] == "extract" {
		os.Exit(extract(os.Args[2]))
	}
	if len(os.Args) >= 6 && os.Args[1] == "stress" {
		seed, _ := strconv.ParseUint(os.Args[2], 10, 64)
		millis, _ := strconv.Atoi(os.Args[3])
		parts, _ := strconv.Atoi(os.Args[4])
		width, _ := strconv.Atoi(os.Args[5])
		os.Exit(stress(seed, millis, parts, width))
	}
	fmt.Println("usage: verif_c41 extract <repo> | stress <seed> <millis> <partitions> <width>")
	os.Exit(2)
}
